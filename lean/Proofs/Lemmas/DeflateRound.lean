import MsPack.Spec.Deflate
import MsPack.Lzss.Decoder
import Proofs.Lemmas.ZipBounds
/-!
# MSZIP round trip, lemmas

What each piece of the inflate model (`MsPack/Zip/Inflate.lean`) does when the unread input starts
with the coding the specification writer (`MsPack/Spec/Deflate.lean`) produces.  The unread input of
a state is seen as a bit stream (`avail`): the bit buffer, then the bits of the buffered bytes, of
what the source still has (`content`), and of the two zero bytes `read_input` invents at the first
end of input.  Every reading primitive is a function of that stream, wherever the refills fall.

Total-correctness triples are the `Ok` triples of `ZipBounds.lean` with the exceptional
postcondition `False`.
-/
namespace MsPack.Zip
open MsPack MsPack.Generated

variable {σ : Type} (S : Src σ) (content : σ → Bytes)

/-- the source contract the round trip needs: a `read` (of at least one byte) never fails, hands out
    a prefix of what the source has, of any length, and an empty one only at the end -/
structure Feeds : Prop where
  read : ∀ s n, 1 ≤ n → ∃ c s', S.read s n = .ok (some c, s') ∧ c ++ content s' = content s ∧
    (c = [] → content s = [])

/-- the bytes the decoder will still see -/
def remBytes (st : St σ) : Bytes := st.inbuf ++ content st.src ++ (if st.inputEnd then [] else [0, 0])
/-- the bits the decoder will still see -/
def avail (st : St σ) : List Bool := st.bits ++ Deflate.bytesBits (remBytes content st)

/-- total correctness: `m` returns normally from `st`, with `Q` -/
macro "Tot " S:term:max m:term:max st:term:max Q:term:max : term => `(Ok $S $m $st $Q (fun _ => False))

theorem tot_run {α : Type} {m : ZM σ α} {st : St σ} {Q : α → St σ → Prop} (h : Tot S m st Q) :
    ∃ a s, exec m st = (.ok a, s) ∧ Q a s := by
  cases hr : exec m st with
  | mk r s =>
    cases r with
    | ok a => exact ⟨a, s, rfl, h.exec_ok hr⟩
    | error e => exact (h.exec_error hr).1.elim

/-- the output side and the buffer size are untouched -/
structure Keep (st s : St σ) : Prop where
  window : s.window = st.window
  posn   : s.windowPosn = st.windowPosn
  bout   : s.bytesOutput = st.bytesOutput
  size   : s.inbufSize = st.inbufSize

theorem Keep.refl (st : St σ) : Keep st st := ⟨rfl, rfl, rfl, rfl⟩
theorem Keep.trans {a b c : St σ} (h1 : Keep a b) (h2 : Keep b c) : Keep a c :=
  ⟨h2.1.trans h1.1, h2.2.trans h1.2, h2.3.trans h1.3, h2.4.trans h1.4⟩

/-- the input side is untouched -/
structure InSame (st s : St σ) : Prop where
  bits  : s.bits = st.bits
  inbuf : s.inbuf = st.inbuf
  src   : s.src = st.src
  iend  : s.inputEnd = st.inputEnd
  size  : s.inbufSize = st.inbufSize

theorem InSame.refl (st : St σ) : InSame st st := ⟨rfl, rfl, rfl, rfl, rfl⟩
theorem InSame.trans {a b c : St σ} (h1 : InSame a b) (h2 : InSame b c) : InSame a c :=
  ⟨h2.1.trans h1.1, h2.2.trans h1.2, h2.3.trans h1.3, h2.4.trans h1.4, h2.5.trans h1.5⟩
theorem InSame.rem {st s : St σ} (h : InSame st s) : remBytes content s = remBytes content st := by
  unfold remBytes; rw [h.inbuf, h.src, h.iend]
theorem InSame.avail {st s : St σ} (h : InSame st s) : avail content s = avail content st := by
  unfold Zip.avail; rw [h.rem, h.bits]

/-! ## bit lists -/

theorem bytesBits_cons (b : UInt8) (rest : Bytes) :
    Deflate.bytesBits (b :: rest) = byteBits b ++ Deflate.bytesBits rest := rfl
theorem bytesBits_append (a b : Bytes) :
    Deflate.bytesBits (a ++ b) = Deflate.bytesBits a ++ Deflate.bytesBits b := by
  simp [Deflate.bytesBits]
theorem bytesBits_length (a : Bytes) : (Deflate.bytesBits a).length = 8 * a.length := by
  induction a with
  | nil => rfl
  | cons b rest ih => rw [bytesBits_cons, List.length_append, byteBits_length, ih, List.length_cons]; omega

/-! ## the reading primitives -/

variable {S content}

theorem readInput_tot (hF : Feeds S content) (st : St σ) (hb : 1 ≤ st.inbufSize) (he : st.inbuf = [])
    (hne : remBytes content st ≠ []) :
    Tot S (readInput S) st
      (fun _ s => Keep st s ∧ s.bits = st.bits ∧ s.inbuf ≠ [] ∧ remBytes content s = remBytes content st) := by
  obtain ⟨c, s', hr, hc, hz⟩ := hF.read st.src st.inbufSize hb
  unfold readInput
  zsimp
  rw [hr]
  cases c with
  | nil =>
    have hcs : content st.src = [] := hz rfl
    have hcs' : content s' = [] := by simpa [hcs] using hc
    dsimp only
    cases hie : st.inputEnd with
    | true => simp [remBytes, he, hcs, hie] at hne
    | false =>
      simp only [Bool.false_eq_true, ↓reduceIte]
      rw [Ok_set]
      refine ⟨⟨rfl, rfl, rfl, rfl⟩, rfl, by simp, ?_⟩
      simp [remBytes, he, hcs, hcs', hie]
  | cons x xs =>
    dsimp only
    rw [Ok_set]
    refine ⟨⟨rfl, rfl, rfl, rfl⟩, rfl, by simp, ?_⟩
    simp only [remBytes, he, List.nil_append]
    rw [← hc]

theorem nextByte_tot (hF : Feeds S content) (st : St σ) (hb : 1 ≤ st.inbufSize) (b : UInt8) (rest : Bytes)
    (h : remBytes content st = b :: rest) :
    Tot S (nextByte S) st
      (fun a s => a = b ∧ Keep st s ∧ s.bits = st.bits ∧ remBytes content s = rest) := by
  have key : ∀ st' : St σ, Keep st st' → st'.bits = st.bits → st'.inbuf ≠ [] → remBytes content st' = b :: rest →
      Tot S (do
        let st ← get
        match st.inbuf with
        | b :: rest => set { st with inbuf := rest }; pure b
        | [] => throw (.fault (.oob "inbuf"))) st'
        (fun a s => a = b ∧ Keep st s ∧ s.bits = st.bits ∧ remBytes content s = rest) := by
    intro st' hk hbits hne hrem
    zsimp
    cases hi : st'.inbuf with
    | nil => exact absurd hi hne
    | cons x xs =>
      dsimp only
      zsimp
      simp only [remBytes, hi, List.cons_append, List.cons.injEq] at hrem
      exact ⟨hrem.1, ⟨hk.1, hk.2, hk.3, hk.4⟩, hbits, hrem.2⟩
  unfold nextByte
  zsimp
  by_cases he : st.inbuf = []
  · simp only [he, List.isEmpty_nil, ↓reduceIte]
    refine Ok.bind (readInput_tot hF st hb he (by rw [h]; simp)) ?_
    intro _ s ⟨hk, hbits, hne, hrem⟩
    exact key s hk hbits hne (hrem.trans h)
  · have : st.inbuf.isEmpty = false := by cases hi : st.inbuf <;> simp_all
    simp only [this, Bool.false_eq_true, ↓reduceIte]
    exact key st (Keep.refl _) rfl he h

theorem prefix_split {A X bs rest : List Bool} {n : Nat} (h : A ++ X = bs ++ rest) (hl : bs.length = n)
    (hn : n ≤ A.length) : A.take n = bs ∧ A.drop n ++ X = rest := by
  constructor
  · have := congrArg (List.take n) h
    rwa [List.take_append_of_le_length hn, List.take_left' hl] at this
  · have := congrArg (List.drop n) h
    rwa [List.drop_append_of_le_length hn, List.drop_left' hl] at this

/-- `ENSURE_BITS(n)` when the stream still has `n` bits: it gets them, and the stream is the same -/
theorem ensureBits_tot (hF : Feeds S content) (n : Nat) : ∀ (fuel : Nat) (st : St σ), 1 ≤ st.inbufSize →
    n ≤ (avail content st).length → n ≤ st.bits.length + 8 * fuel →
    Tot S (ensureBits S n fuel) st (fun _ s => Keep st s ∧ avail content s = avail content st ∧
      n ≤ s.bits.length ∧ s.bits.length ≤ max st.bits.length (n + 7)) := by
  intro fuel
  induction fuel with
  | zero =>
    intro st hb hav hfuel
    rw [ensureBits.eq_1, Ok_pure]
    exact ⟨Keep.refl _, rfl, by omega, Nat.le_max_left ..⟩
  | succ fuel ih =>
    intro st hb hav hfuel
    rw [ensureBits.eq_2]
    zsimp
    split
    · rename_i hlt
      cases hrem : remBytes content st with
      | nil =>
        exfalso
        simp only [avail, hrem, Deflate.bytesBits, List.flatMap_nil, List.append_nil] at hav
        omega
      | cons b rest =>
        refine Ok.bind (nextByte_tot hF st hb b rest hrem) ?_
        intro a s ⟨ha, hk, hbits, hr⟩
        subst ha
        rw [Ok_modify_bind]
        have hav' : avail content { s with bits := s.bits ++ byteBits a } = avail content st := by
          show (s.bits ++ byteBits a) ++ Deflate.bytesBits (remBytes content s) = _
          rw [hr, hbits, avail, hrem, bytesBits_cons, List.append_assoc]
        have hlen : ({ s with bits := s.bits ++ byteBits a } : St σ).bits.length = st.bits.length + 8 := by
          show (s.bits ++ byteBits a).length = _
          rw [List.length_append, byteBits_length, hbits]
        refine (ih { s with bits := s.bits ++ byteBits a } (hk.size ▸ hb) (hav' ▸ hav) (by rw [hlen]; omega)).mono
          ?_ (fun _ h => h)
        intro _ s' ⟨hk', hav'', hn, hmax⟩
        refine ⟨Keep.trans hk ⟨hk'.1, hk'.2, hk'.3, hk'.4⟩, hav''.trans hav', hn, ?_⟩
        rw [hlen] at hmax
        omega
    · rename_i hge
      rw [Ok_pure]
      exact ⟨Keep.refl _, rfl, by omega, Nat.le_max_left ..⟩

/-- `READ_BITS(v, n)` on a stream that starts with the `n` bits `bs` -/
theorem readBits_tot (hF : Feeds S content) (n : Nat) (hn : n ≤ 24) (st : St σ) (hb : 1 ≤ st.inbufSize)
    (bs rest : List Bool) (hav : avail content st = bs ++ rest) (hl : bs.length = n) :
    Tot S (readBits S n) st (fun v s => v = bitsVal bs ∧ Keep st s ∧ avail content s = rest ∧
      s.bits.length + n ≤ max st.bits.length (n + 7)) := by
  unfold readBits
  refine Ok.bind (ensureBits_tot hF n 3 st hb (by rw [hav, List.length_append]; omega) (by omega)) ?_
  intro _ s ⟨hk, havs, hns, hmax⟩
  zsimp
  unfold removeBits
  rw [Ok_modify_bind, Ok_pure]
  obtain ⟨h1, h2⟩ := prefix_split (havs.trans hav) hl hns
  refine ⟨by rw [h1], ⟨hk.1, hk.2, hk.3, hk.4⟩, h2, ?_⟩
  show (s.bits.drop n).length + n ≤ _
  rw [List.length_drop]; omega

/-- `READ_HUFFSYM` on a stream that starts with a code word the table decodes, and has 16 bits -/
theorem readHuffSym_tot (hF : Feeds S content) (c : Huff.Canon) (st : St σ) (hb : 1 ≤ st.inbufSize)
    (code rest : List Bool) (sym : Nat) (hav : avail content st = code ++ rest)
    (h16 : 16 ≤ (code ++ rest).length) (hc : code.length ≤ 16)
    (hdec : ∀ tail, Huff.decode c (code ++ tail) = some (sym, code.length)) :
    Tot S (readHuffSym S c) st (fun v s => v = sym ∧ Keep st s ∧ avail content s = rest ∧
      s.bits.length ≤ max st.bits.length 23) := by
  unfold readHuffSym
  refine Ok.bind (ensureBits_tot hF 16 3 st hb (by rw [hav]; exact h16) (by omega)) ?_
  intro _ s ⟨hk, havs, hns, hmax⟩
  zsimp
  obtain ⟨h1, h2⟩ := prefix_split (havs.trans hav) rfl (Nat.le_trans hc hns)
  have hd : Huff.decode c s.bits = some (sym, code.length) := by
    rw [← List.take_append_drop code.length s.bits, h1]; exact hdec _
  rw [hd]
  dsimp only
  unfold removeBits
  rw [Ok_modify_bind, Ok_pure]
  refine ⟨rfl, ⟨hk.1, hk.2, hk.3, hk.4⟩, h2, ?_⟩
  show (s.bits.drop code.length).length ≤ _
  rw [List.length_drop]; omega

/-! ## values of bit fields -/

theorem natBits_succ (n v : Nat) : Deflate.natBits (n + 1) v = v.testBit 0 :: Deflate.natBits n (v / 2) := by
  simp only [Deflate.natBits, List.range_succ_eq_map, List.map_cons, List.map_map]
  congr 1
  apply List.map_congr_left
  intro i _
  simp [Nat.testBit_succ]

theorem bitsVal_cons (b : Bool) (bs : List Bool) : bitsVal (b :: bs) = bitsVal bs * 2 + (if b then 1 else 0) := rfl

theorem bitsVal_natBits : ∀ (n v : Nat), bitsVal (Deflate.natBits n v) = v % 2 ^ n
  | 0, v => by simp [Deflate.natBits, bitsVal, Nat.mod_one]
  | n + 1, v => by
    rw [natBits_succ, bitsVal_cons, bitsVal_natBits n, Nat.pow_succ, Nat.mul_comm (2 ^ n) 2, Nat.mod_mul,
      Nat.testBit_zero]
    by_cases h : v % 2 = 1 <;> simp [h] <;> omega

theorem natBits_length (n v : Nat) : (Deflate.natBits n v).length = n := by simp [Deflate.natBits]

theorem bitsVal_byteBits (b : UInt8) : bitsVal (byteBits b) = b.toNat := by
  show bitsVal (Deflate.natBits 8 b.toNat) = _
  rw [bitsVal_natBits]
  exact Nat.mod_eq_of_lt b.toNat_lt

theorem byteBits_inj {a b : UInt8} (h : byteBits a = byteBits b) : a = b := by
  have := congrArg bitsVal h
  rw [bitsVal_byteBits, bitsVal_byteBits] at this
  exact UInt8.toNat_inj.mp this

/-- a byte stream that starts (as bits) with the bits of `X` starts with `X` -/
theorem bytesBits_prefix : ∀ (X A : Bytes) (R : List Bool), Deflate.bytesBits A = Deflate.bytesBits X ++ R →
    ∃ Y, A = X ++ Y ∧ Deflate.bytesBits Y = R
  | [], A, R, h => ⟨A, rfl, h⟩
  | x :: X, [], R, h => by
    have := congrArg List.length h
    simp only [bytesBits_cons, List.length_append, byteBits_length] at this
    simp [Deflate.bytesBits] at this
    omega
  | x :: X, a :: A, R, h => by
    rw [bytesBits_cons, bytesBits_cons, List.append_assoc] at h
    obtain ⟨h1, h2⟩ := List.append_inj h (by rw [byteBits_length, byteBits_length])
    obtain ⟨Y, hy, hr⟩ := bytesBits_prefix X A R h2
    exact ⟨Y, by rw [byteBits_inj h1, hy]; rfl, hr⟩

/-- whole bytes in the bit buffer are the first bytes of the stream -/
theorem bitbuf_bytes (B : List Bool) (A X : Bytes) (R : List Bool) (j : Nat) (hB : B.length = 8 * j)
    (hj : j ≤ X.length) (h : B ++ Deflate.bytesBits A = Deflate.bytesBits X ++ R) :
    B = Deflate.bytesBits (X.take j) ∧ Deflate.bytesBits A = Deflate.bytesBits (X.drop j) ++ R := by
  rw [← List.take_append_drop j X, bytesBits_append, List.append_assoc] at h
  have := List.append_inj h (by rw [hB, bytesBits_length, List.length_take, Nat.min_eq_left hj])
  exact this

/-- the C's extraction of whole bytes from the bit buffer -/
theorem fromBits_bytes : ∀ (Z : Bytes) (j : Nat), Z.length = j →
    (List.range j).map (fun i => UInt8.ofNat (bitsVal (((Deflate.bytesBits Z).drop (8 * i)).take 8))) = Z
  | [], _, h => by subst h; rfl
  | z :: Z, j, h => by
    obtain ⟨k, rfl⟩ : ∃ k, j = k + 1 := ⟨Z.length, by simpa using h.symm⟩
    rw [List.range_succ_eq_map, List.map_cons, List.map_map]
    have h0 : UInt8.ofNat (bitsVal (((Deflate.bytesBits (z :: Z)).drop (8 * 0)).take 8)) = z := by
      rw [bytesBits_cons, Nat.mul_zero, List.drop_zero, List.take_left' (byteBits_length z), bitsVal_byteBits]
      exact UInt8.ofNat_toNat
    rw [h0]
    congr 1
    rw [← fromBits_bytes Z k (by simpa using h)]
    apply List.map_congr_left
    intro i _
    simp only [Function.comp]
    rw [bytesBits_cons, show 8 * (i + 1) = 8 * i + (byteBits z).length by rw [byteBits_length]; omega,
      Nat.add_comm, ← List.drop_drop, List.drop_left]
    rw [fromBits_bytes Z k (by simpa using h)]

/-! ## the output side -/

/-- the frame so far is `out`: it sits at the start of the window; either nothing has been flushed
    and the write position is its end, or it is a whole frame, flushed, and the position is back at 0 -/
def Has (st : St σ) (out : Bytes) : Prop :=
  st.window.size = zipFRAME_SIZE ∧ st.window.toList.take out.length = out ∧
  ((st.bytesOutput = 0 ∧ st.windowPosn = out.length ∧ out.length < zipFRAME_SIZE) ∨
   (st.bytesOutput = zipFRAME_SIZE ∧ st.windowPosn = 0 ∧ out.length = zipFRAME_SIZE))

/-- the same just before `FLUSH_IF_NEEDED` -/
def HasPre (st : St σ) (out : Bytes) : Prop :=
  st.window.size = zipFRAME_SIZE ∧ st.window.toList.take out.length = out ∧
  st.bytesOutput = 0 ∧ st.windowPosn = out.length ∧ out.length ≤ zipFRAME_SIZE

theorem flushIfNeeded_out (st : St σ) (out : Bytes) (h : HasPre st out) :
    Tot S flushIfNeeded st (fun _ s => Has s out ∧ InSame st s) := by
  obtain ⟨h1, h2, h3, h4, h5⟩ := h
  unfold flushIfNeeded
  zsimp
  split
  · rename_i heq
    unfold flushWindow
    zsimp
    rw [h3, Nat.zero_add, if_neg (Nat.lt_irrefl _)]
    simp only [pure_bind]
    rw [Ok_modify]
    exact ⟨⟨h1, h2, .inr ⟨rfl, rfl, by rw [← h4]; exact heq⟩⟩, ⟨rfl, rfl, rfl, rfl, rfl⟩⟩
  · rename_i hne
    rw [Ok_pure]
    exact ⟨⟨h1, h2, .inl ⟨h3, h4, by rw [h4] at hne; omega⟩⟩, InSame.refl _⟩

theorem take_set_succ {α : Type} : ∀ (l : List α) (p : Nat) (b : α), p < l.length →
    (l.set p b).take (p + 1) = l.take p ++ [b]
  | [], _, _, h => by simp at h
  | x :: xs, 0, b, _ => by simp
  | x :: xs, p + 1, b, h => by
    simp only [List.set_cons_succ, List.take_succ_cons, List.cons_append, List.cons.injEq, true_and]
    exact take_set_succ xs p b (by simpa using h)

theorem putByte_out (b : UInt8) (st : St σ) (out : Bytes) (h : Has st out) (hlt : out.length < zipFRAME_SIZE) :
    Tot S (putByte b) st (fun _ s => Has s (out ++ [b]) ∧ InSame st s) := by
  obtain ⟨h1, h2, h3⟩ := h
  have h3 : st.bytesOutput = 0 ∧ st.windowPosn = out.length := by
    rcases h3 with h | h
    · exact ⟨h.1, h.2.1⟩
    · omega
  unfold putByte
  zsimp
  split
  · rename_i hp
    zsimp
    refine (flushIfNeeded_out _ (out ++ [b]) ⟨?_, ?_, ?_, ?_, ?_⟩).mono ?_ (fun _ h => h)
    · simp only [Array.size_set]; exact h1
    · show (st.window.set st.windowPosn b hp).toList.take (out ++ [b]).length = _
      rw [Array.toList_set, List.length_append, List.length_singleton, ← h3.2, take_set_succ _ _ _ (by simpa using hp),
        h3.2, h2]
    · exact h3.1
    · show st.windowPosn + 1 = _
      rw [List.length_append, List.length_singleton, h3.2]
    · rw [List.length_append, List.length_singleton]; omega
    · intro _ s ⟨ho, hi⟩
      exact ⟨ho, ⟨hi.1, hi.2, hi.3, hi.4, hi.5⟩⟩
  · rename_i hp
    exact absurd (by omega) hp

theorem foldl_chunk (chunk : List UInt8) : ∀ (w : Array UInt8) (p : Nat), p + chunk.length ≤ w.size →
    (chunk.foldl (fun (acc : Array UInt8 × Nat) b => (acc.1.setIfInBounds acc.2 b, acc.2 + 1)) (w, p)).1.toList.take
      (p + chunk.length) = w.toList.take p ++ chunk := by
  induction chunk with
  | nil => intro w p _; simp
  | cons b rest ih =>
    intro w p hle
    rw [List.foldl_cons]
    show (List.foldl _ (w.setIfInBounds p b, p + 1) rest).1.toList.take _ = _
    have hl : p + (b :: rest).length = (p + 1) + rest.length := by rw [List.length_cons]; omega
    rw [hl, ih _ _ (by rw [Array.size_setIfInBounds]; omega), Array.toList_setIfInBounds,
      take_set_succ _ _ _ (by rw [Array.length_toList]; rw [List.length_cons] at hle; omega), List.append_assoc]
    rfl

/-- the payload of a stored block: `data` goes from the input to the window, wherever the input
    buffer refills fall -/
theorem copyStored_out (hF : Feeds S content) : ∀ (fuel length : Nat) (st : St σ) (out data : Bytes) (rest : Bytes),
    Has st out → 1 ≤ st.inbufSize → remBytes content st = data ++ rest → data.length = length →
    out.length + length ≤ zipFRAME_SIZE → length + 1 ≤ fuel →
    Tot S (copyStored S fuel length) st (fun _ s => Has s (out ++ data) ∧ s.bits = st.bits ∧
      remBytes content s = rest ∧ s.inbufSize = st.inbufSize) := by
  intro fuel
  induction fuel with
  | zero => intro length st out data rest _ _ _ _ _ hf; omega
  | succ fuel ih =>
    intro length st out data rest ho hb hrem hlen hfit hfuel
    rw [copyStored.eq_2]
    split
    · rename_i h0
      rw [Ok_pure]
      have : data = [] := List.eq_nil_of_length_eq_zero (hlen.trans h0)
      subst this
      exact ⟨by rw [List.append_nil]; exact ho, rfl, by simpa using hrem, rfl⟩
    · rename_i hpos
      have key : ∀ st' : St σ, Has st' out → st'.inbuf ≠ [] → remBytes content st' = data ++ rest →
          st'.bits = st.bits → st'.inbufSize = st.inbufSize → Tot S (do
          let st ← get
          let run := min (min length st.inbuf.length) (zipFRAME_SIZE - st.windowPosn)
          let chunk := st.inbuf.take run
          let w := chunk.foldl (fun (acc : Array UInt8 × Nat) b => (acc.1.setIfInBounds acc.2 b, acc.2 + 1)) (st.window, st.windowPosn)
          set { st with inbuf := st.inbuf.drop run, window := w.1, windowPosn := st.windowPosn + run }
          flushIfNeeded
          copyStored S fuel (length - run)) st' (fun _ s => Has s (out ++ data) ∧ s.bits = st.bits ∧
            remBytes content s = rest ∧ s.inbufSize = st.inbufSize) := by
        intro st' ho' hne hrem' hbits hsize
        obtain ⟨h1, h2, h3⟩ := ho'
        have h3 : st'.bytesOutput = 0 ∧ st'.windowPosn = out.length := by
          rcases h3 with h | h
          · exact ⟨h.1, h.2.1⟩
          · omega
        zsimp
        generalize hrun : min (min length st'.inbuf.length) (zipFRAME_SIZE - st'.windowPosn) = run
        have hil : 0 < st'.inbuf.length := List.length_pos_iff.mpr hne
        have hr1 : 1 ≤ run := by omega
        have hr2 : run ≤ st'.inbuf.length := by omega
        have hr3 : run ≤ data.length := by omega
        have hr4 : out.length + run ≤ zipFRAME_SIZE := by omega
        have hchunk : st'.inbuf.take run = data.take run := by
          have := congrArg (List.take run) hrem'
          rwa [remBytes, List.append_assoc, List.take_append_of_le_length hr2, List.take_append_of_le_length hr3] at this
        have hdrop : st'.inbuf.drop run ++ content st'.src ++ (if st'.inputEnd then [] else [0, 0]) = data.drop run ++ rest := by
          have := congrArg (List.drop run) hrem'
          rwa [remBytes, List.append_assoc, List.drop_append_of_le_length hr2, List.drop_append_of_le_length hr3,
            ← List.append_assoc] at this
        rw [hchunk]
        refine Ok.bind (flushIfNeeded_out _ (out ++ data.take run) ⟨?_, ?_, ?_, ?_, ?_⟩) ?_
        · dsimp only
          rw [foldl_set_size]; exact h1
        · dsimp only
          have hl : (out ++ data.take run).length = st'.windowPosn + (data.take run).length := by
            rw [List.length_append, h3.2]
          rw [hl, foldl_chunk _ _ _ (by rw [List.length_take, h1, h3.2]; omega), h3.2, h2]
        · exact h3.1
        · show st'.windowPosn + run = _
          rw [List.length_append, List.length_take, h3.2]; omega
        · rw [List.length_append, List.length_take]; omega
        · intro _ s ⟨hos, his⟩
          refine (ih (length - run) s (out ++ data.take run) (data.drop run) rest hos ?_ ?_ ?_ ?_ ?_).mono ?_ (fun _ h => h)
          · rw [his.size]; show st'.inbufSize ≥ 1; omega
          · rw [his.rem]; exact hdrop
          · rw [List.length_drop, hlen]
          · rw [List.length_append, List.length_take]; omega
          · omega
          · intro _ s' ⟨a, b, c, d⟩
            refine ⟨?_, ?_, c, ?_⟩
            · rwa [List.append_assoc, List.take_append_drop] at a
            · rw [b, his.bits]; exact hbits
            · rw [d, his.size]; exact hsize
      by_cases he : st.inbuf = []
      · zsimp
        rw [he]
        simp only [List.isEmpty_nil, ↓reduceIte]
        refine Ok.bind (readInput_tot hF st hb he (by rw [hrem]; intro hc; rw [List.append_eq_nil_iff] at hc; rw [hc.1] at hlen; exact hpos hlen.symm)) ?_
        intro _ s ⟨hk, hbits, hne, hrem'⟩
        refine key s ?_ hne (hrem'.trans hrem) hbits hk.size
        obtain ⟨h1, h2, h3⟩ := ho
        exact ⟨hk.1 ▸ h1, hk.1 ▸ h2, hk.2 ▸ hk.3 ▸ h3⟩
      · have : st.inbuf.isEmpty = false := by cases hi : st.inbuf <;> simp_all
        zsimp
        simp only [this, Bool.false_eq_true, ↓reduceIte]
        exact key st ho he hrem rfl rfl

theorem more_tot (hF : Feeds S content) : ∀ (k : Nat) (acc : List UInt8) (st : St σ) (bs rest : Bytes),
    1 ≤ st.inbufSize → remBytes content st = bs ++ rest → bs.length = k →
    Tot S (inflate.more S k acc) st (fun r s => r = acc ++ bs ∧ Keep st s ∧ s.bits = st.bits ∧
      remBytes content s = rest) := by
  intro k
  induction k with
  | zero =>
    intro acc st bs rest hb hrem hl
    have : bs = [] := List.eq_nil_of_length_eq_zero hl
    subst this
    rw [inflate.more.eq_1, Ok_pure]
    exact ⟨by simp, Keep.refl _, rfl, by simpa using hrem⟩
  | succ k ih =>
    intro acc st bs rest hb hrem hl
    cases bs with
    | nil => simp at hl
    | cons b bs =>
      rw [inflate.more.eq_2]
      refine Ok.bind (nextByte_tot hF st hb b (bs ++ rest) (by simpa using hrem)) ?_
      intro a s ⟨ha, hk, hbits, hr⟩
      subst ha
      refine (ih (acc ++ [a]) s bs rest (hk.size ▸ hb) hr (by simpa using hl)).mono ?_ (fun _ h => h)
      intro r s' ⟨h1, h2, h3, h4⟩
      exact ⟨by rw [h1]; simp, Keep.trans hk h2, h3.trans hbits, h4⟩

/-- the byte alignment of a stored block, on lists: `bits` is the bit buffer after the three header
    bits, `A` the bytes behind it; the stream is `k` padding bits, the bytes `hdr ++ data`, then `R` -/
theorem stored_align (bits : List Bool) (A hdr data : Bytes) (k : Nat) (R : List Bool)
    (h : bits ++ Deflate.bytesBits A = List.replicate k false ++ (Deflate.bytesBits (hdr ++ data) ++ R))
    (hk : k < 8) (hR : R.length % 8 = 0) (hb : bits.length ≤ 23) (hX : hdr.length = 4) :
    ∃ j Y, j ≤ 2 ∧ (bits.drop (bits.length % 8)).length / 8 = j ∧
      (List.range j).map (fun i => UInt8.ofNat (bitsVal (((bits.drop (bits.length % 8)).drop (8 * i)).take 8)))
        = hdr.take j ∧
      A = hdr.drop j ++ (data ++ Y) ∧ Deflate.bytesBits Y = R := by
  have hlen := congrArg List.length h
  simp only [List.length_append, bytesBits_length, List.length_replicate] at hlen
  have hmod : bits.length % 8 = k := by omega
  rw [hmod]
  have hge : k ≤ bits.length := by omega
  obtain ⟨_, h2⟩ := prefix_split h (List.length_replicate ..) hge
  have hdl : (bits.drop k).length = 8 * ((bits.length - k) / 8) := by rw [List.length_drop]; omega
  have hj4 : (bits.length - k) / 8 ≤ (hdr ++ data).length := by rw [List.length_append]; omega
  obtain ⟨hB, hA⟩ := bitbuf_bytes _ _ _ _ _ hdl hj4 h2
  obtain ⟨Y, hy, hr⟩ := bytesBits_prefix _ _ _ hA
  have hjh : (bits.length - k) / 8 ≤ hdr.length := by omega
  refine ⟨(bits.length - k) / 8, Y, by omega, by rw [hdl]; omega, ?_, ?_, hr⟩
  · rw [hB, List.take_append_of_le_length hjh]
    exact fromBits_bytes _ _ (by rw [List.length_take]; omega)
  · rw [hy, List.drop_append_of_le_length hjh, List.append_assoc]

theorem le16_putLE16 (n : Nat) (hn : n < 65536) (rest : Bytes) :
    ((putLE16 n ++ rest).getD 0 0).toNat + ((putLE16 n ++ rest).getD 1 0).toNat * 256 = n := by
  simp only [putLE16, List.cons_append, List.getD_cons_zero, List.getD_cons_succ, UInt8.toNat_ofNat']
  omega

/-- what `inflate` leaves when it returns: the frame at the start of the window, its length flushed -/
def Done (st : St σ) (data : Bytes) : Prop :=
  st.window.size = zipFRAME_SIZE ∧ st.window.toList.take data.length = data ∧ st.bytesOutput = data.length

/-- the end of `inflate` after the last block -/
theorem finish_tot (st : St σ) (out : Bytes) (h : Has st out) :
    Tot S (do
      let st ← get
      if st.windowPosn ≠ 0 then flushWindow st.windowPosn else pure ()) st (fun _ s => Done s out) := by
  obtain ⟨h1, h2, h3⟩ := h
  zsimp
  split
  · rename_i hne
    rcases h3 with h3 | h3
    · unfold flushWindow
      zsimp
      rw [h3.1, Nat.zero_add, if_neg (by rw [h3.2.1]; omega)]
      rw [Ok_pure]
      exact ⟨h1, h2, h3.2.1⟩
    · exact absurd h3.2.1 hne
  · rename_i he
    rw [Ok_pure]
    rcases h3 with h3 | h3
    · exact ⟨h1, h2, by rw [h3.1, ← h3.2.1]; omega⟩
    · exact ⟨h1, h2, by rw [h3.1, h3.2.2]⟩

/-! ## the specification side -/

theorem copyFrom_length (dist : Nat) : ∀ (n : Nat) (out : Bytes), (Deflate.copyFrom dist n out).length = out.length + n
  | 0, _ => rfl
  | n + 1, out => by rw [Deflate.copyFrom, copyFrom_length dist n, List.length_append, List.length_singleton]; omega

theorem apply_length_le (out : Bytes) (t : Deflate.Tok) : out.length ≤ (t.apply out).length := by
  cases t with
  | lit b => simp [Deflate.Tok.apply]
  | mat len dist => simp only [Deflate.Tok.apply, copyFrom_length]; omega

theorem expand_length_le : ∀ (toks : List Deflate.Tok) (out : Bytes), out.length ≤ (Deflate.expand toks out).length
  | [], _ => Nat.le_refl _
  | t :: ts, out => Nat.le_trans (apply_length_le out t) (expand_length_le ts (t.apply out))

theorem blockApply_length_le (out : Bytes) (b : Deflate.Block) : out.length ≤ (b.apply out).length := by
  cases b with
  | stored d => simp [Deflate.Block.apply]
  | fixed toks => exact expand_length_le toks out

theorem blocksData_length_le : ∀ (bs : List Deflate.Block) (out : Bytes), out.length ≤ (Deflate.blocksData bs out).length
  | [], _ => Nat.le_refl _
  | b :: bs, out => Nat.le_trans (blockApply_length_le out b) (blocksData_length_le bs (b.apply out))

/-- iterations of the symbol loop a block needs -/
def blockCost : Deflate.Block → Nat
  | .stored _ => 0
  | .fixed toks => toks.length + 1

/-- what the symbol loop does on the coding of `toks` (proved below for every token list) -/
def HuffSpec (S : Src σ) (content : σ → Bytes) (toks : List Deflate.Tok) : Prop :=
  ∀ (lit dist : Huff.Canon) (fuel : Nat) (st : St σ) (out : Bytes) (rest : List Bool),
    Huff.build zipLITERAL_TABLEBITS fixedLitLens = some lit → Huff.build zipDISTANCE_TABLEBITS fixedDistLens = some dist →
    toks.length + 1 ≤ fuel → Has st out → Deflate.WF out toks → (Deflate.expand toks out).length ≤ zipFRAME_SIZE →
    1 ≤ st.inbufSize → st.bits.length ≤ 23 →
    avail content st = toks.flatMap Deflate.Tok.bits ++ Deflate.litCode 256 ++ rest → 16 ≤ rest.length →
    Tot S (huffBlock S lit dist fuel) st (fun _ s => Has s (Deflate.expand toks out) ∧ avail content s = rest ∧
      s.bits.length ≤ 23 ∧ s.inbufSize = st.inbufSize)

theorem fixedLit_some : (Huff.build zipLITERAL_TABLEBITS fixedLitLens).isSome = true := by decide +kernel
theorem fixedDist_some : (Huff.build zipDISTANCE_TABLEBITS fixedDistLens).isSome = true := by decide +kernel

theorem inflate_blocks (hF : Feeds S content) : ∀ (blocks : List Deflate.Block) (fuel : Nat) (st : St σ) (out : Bytes)
    (pos : Nat) (trailer : List Bool),
    blocks ≠ [] → (∀ b ∈ blocks, blocks.length + blockCost b ≤ fuel) →
    (∀ toks, Deflate.Block.fixed toks ∈ blocks → HuffSpec S content toks) →
    Has st out → 1 ≤ st.inbufSize → st.bits.length ≤ 23 →
    avail content st = Deflate.encBlocks pos blocks ++ trailer → (pos + (avail content st).length) % 8 = 0 →
    16 ≤ trailer.length → Deflate.BlocksWF out blocks → (Deflate.blocksData blocks out).length ≤ zipFRAME_SIZE →
    Tot S (inflate S fuel) st (fun _ s => Done s (Deflate.blocksData blocks out)) := by
  intro blocks
  induction blocks with
  | nil => intro _ _ _ _ _ h; exact absurd rfl h
  | cons b bs ih =>
    intro fuel st out pos trailer _ hfuel hH ho hb hbl hav hpos htr hwf hfit
    obtain ⟨fuel, rfl⟩ : ∃ f, fuel = f + 1 := by
      have := hfuel b (List.mem_cons_self ..)
      rw [List.length_cons] at this
      exact ⟨fuel - 1, by omega⟩
    rw [Deflate.encBlocks] at hav
    -- the continuation after the block
    have tail : ∀ (s : St σ) (lastBlock : Nat), lastBlock = bitsVal [bs.isEmpty] → Has s (b.apply out) →
        s.inbufSize = st.inbufSize → s.bits.length ≤ 23 →
        avail content s = Deflate.encBlocks ((pos + (b.bits pos bs.isEmpty).length) % 8) bs ++ trailer →
        Tot S (if lastBlock = 0 then inflate S fuel
          else do
            let st ← get
            if st.windowPosn ≠ 0 then flushWindow st.windowPosn else pure ()) s
          (fun _ s => Done s (Deflate.blocksData (b :: bs) out)) := by
      intro s lastBlock hlb hos hsz hbls havs
      cases bs with
      | nil =>
        have : lastBlock = 1 := by rw [hlb]; rfl
        subst this
        rw [if_neg (by decide)]
        exact finish_tot s _ hos
      | cons b' bs' =>
        have : lastBlock = 0 := by rw [hlb]; rfl
        subst this
        rw [if_pos rfl]
        refine ih fuel s (b.apply out) _ trailer (by simp) ?_ ?_ hos (hsz ▸ hb) hbls havs ?_ htr hwf.2 hfit
        · intro b2 hb2
          have := hfuel b2 (List.mem_cons_of_mem _ hb2)
          rw [List.length_cons] at this
          omega
        · intro toks ht
          exact hH toks (List.mem_cons_of_mem _ ht)
        · have hl := congrArg List.length hav
          rw [List.length_append, List.length_append] at hl
          rw [havs, List.length_append]
          omega
    rw [List.append_assoc] at hav
    rw [inflate.eq_2]
    cases b with
    | stored data =>
      have hdl : data.length ≤ 65535 := hwf.1
      simp only [Deflate.Block.bits, Deflate.encStored] at hav tail
      rw [List.append_assoc, List.append_assoc] at hav
      refine Ok.bind (readBits_tot hF 1 (by omega) st hb [bs.isEmpty] _ hav rfl) ?_
      intro lastBlock s1 ⟨hv1, hk1, hav1, hbl1⟩
      refine Ok.bind (readBits_tot hF 2 (by omega) s1 (hk1.size ▸ hb) [false, false] _ hav1 rfl) ?_
      intro bt s2 ⟨hv2, hk2, hav2, hbl2⟩
      have : bt = 0 := by rw [hv2]; rfl
      subst this
      simp only [↓reduceIte]
      zsimp
      have hbl2' : s2.bits.length ≤ 23 := by omega
      generalize hk : (8 - (pos + 3) % 8) % 8 = k at hav hav1 hav2 tail
      generalize hR : Deflate.encBlocks ((pos + ([bs.isEmpty, false, false] ++ List.replicate k false ++
        Deflate.bytesBits (putLE16 data.length ++ putLE16 (65535 - data.length) ++ data)).length) % 8) bs ++ trailer = R
        at hav hav1 hav2 tail
      have hRl : R.length % 8 = 0 := by
        have hl := congrArg List.length hav
        simp only [List.length_append, bytesBits_length, List.length_replicate, List.length_cons, List.length_nil] at hl
        omega
      obtain ⟨j, Y, hj, hnb, hfrom, hA, hY⟩ := stored_align s2.bits (remBytes content s2) _ data k R hav2 (by omega) hRl hbl2' rfl
      rw [hnb, hfrom, if_neg (by omega)]
      rw [Ok_set_bind]
      have hL := le16_putLE16 data.length (by omega) (putLE16 (65535 - data.length))
      have hC : ((putLE16 data.length ++ putLE16 (65535 - data.length)).getD 2 0).toNat +
          ((putLE16 data.length ++ putLE16 (65535 - data.length)).getD 3 0).toNat * 256 = 65535 - data.length :=
        le16_putLE16 (65535 - data.length) (by omega) []
      have hh4 : (putLE16 data.length ++ putLE16 (65535 - data.length)).length = 4 := rfl
      generalize putLE16 data.length ++ putLE16 (65535 - data.length) = hdr at hL hC hh4 hA hfrom hav hav1 hav2 hR ⊢
      have hks : Keep st s2 := Keep.trans hk1 hk2
      refine Ok.bind (more_tot hF (4 - j) (hdr.take j) { s2 with bits := [] } (hdr.drop j) (data ++ Y)
        (by show 1 ≤ s2.inbufSize; rw [hks.size]; exact hb) hA (by rw [List.length_drop]; omega)) ?_
      intro lb s3 ⟨hlb, hk3, hb3, hrem3⟩
      rw [List.take_append_drop] at hlb
      subst hlb
      rw [hL, hC, if_neg (by omega)]
      have ho2 : Has ({ s2 with bits := [] } : St σ) out := by
        obtain ⟨h1, h2, h3⟩ := ho
        exact ⟨hks.1 ▸ h1, hks.1 ▸ h2, hks.2 ▸ hks.3 ▸ h3⟩
      have ho3 : Has s3 out := by
        obtain ⟨h1, h2, h3⟩ := ho2
        exact ⟨hk3.1 ▸ h1, hk3.1 ▸ h2, hk3.2 ▸ hk3.3 ▸ h3⟩
      have hsz3 : s3.inbufSize = st.inbufSize := hk3.size.trans hks.size
      have hfit2 : out.length + data.length ≤ zipFRAME_SIZE := by
        have := blocksData_length_le bs (out ++ data)
        rw [List.length_append] at this
        exact Nat.le_trans this hfit
      refine Ok.bind (copyStored_out hF _ _ s3 out data Y ho3 (hsz3 ▸ hb) hrem3 rfl hfit2 (by omega)) ?_
      intro _ s4 ⟨ho4, hb4, hrem4, hsz4⟩
      have hb4' : s4.bits = [] := hb4.trans hb3
      refine tail s4 lastBlock hv1 ho4 (hsz4.trans hsz3) (by rw [hb4']; simp) ?_
      rw [avail, hb4', hrem4, List.nil_append, hY]
    | fixed toks =>
      simp only [Deflate.Block.bits, Deflate.encFixed] at hav tail
      rw [List.append_assoc, List.append_assoc] at hav
      refine Ok.bind (readBits_tot hF 1 (by omega) st hb [bs.isEmpty] _ hav rfl) ?_
      intro lastBlock s1 ⟨hv1, hk1, hav1, hbl1⟩
      refine Ok.bind (readBits_tot hF 2 (by omega) s1 (hk1.size ▸ hb) [true, false] _ hav1 rfl) ?_
      intro bt s2 ⟨hv2, hk2, hav2, hbl2⟩
      have : bt = 1 := by rw [hv2]; rfl
      subst this
      simp only [Nat.succ_ne_zero, ↓reduceIte, true_or]
      zsimp
      obtain ⟨lit, hlit⟩ := Option.isSome_iff_exists.mp fixedLit_some
      obtain ⟨dist, hdist⟩ := Option.isSome_iff_exists.mp fixedDist_some
      rw [hlit]
      dsimp only
      rw [hdist]
      dsimp only
      have hks : Keep st s2 := Keep.trans hk1 hk2
      have ho2 : Has ({ s2 with litLens := fixedLitLens, distLens := fixedDistLens } : St σ) out := by
        obtain ⟨h1, h2, h3⟩ := ho
        exact ⟨hks.1 ▸ h1, hks.1 ▸ h2, hks.2 ▸ hks.3 ▸ h3⟩
      have hcost := hfuel _ (List.mem_cons_self ..)
      rw [List.length_cons] at hcost
      refine Ok.bind (hH toks (List.mem_cons_self ..) lit dist fuel _ out _ hlit hdist (by simp only [blockCost] at hcost; omega)
        ho2 hwf.1 ?_ (by show 1 ≤ s2.inbufSize; rw [hks.size]; exact hb) (by show s2.bits.length ≤ 23; omega)
        (by rw [← List.append_assoc] at hav2; exact hav2) ?_) ?_
      · exact Nat.le_trans (blocksData_length_le bs _) hfit
      · rw [List.length_append]; omega
      · intro _ s3 ⟨ho3, hav3, hbl3, hsz3⟩
        exact tail s3 lastBlock hv1 ho3 (hsz3.trans hks.size) hbl3 hav3

/-! ## packing bits into bytes -/

theorem natBits_zero_val (n : Nat) : Deflate.natBits n 0 = List.replicate n false := by
  induction n with
  | zero => rfl
  | succ n ih => rw [natBits_succ, Nat.zero_div, ih]; rfl

theorem natBits_bitsVal : ∀ (c : List Bool) (n : Nat), c.length ≤ n →
    Deflate.natBits n (bitsVal c) = c ++ List.replicate (n - c.length) false
  | [], n, _ => by simpa [bitsVal] using natBits_zero_val n
  | b :: c, 0, h => by simp at h
  | b :: c, n + 1, h => by
    rw [natBits_succ, bitsVal_cons, Nat.testBit_zero]
    have h1 : (bitsVal c * 2 + (if b then 1 else 0)) / 2 = bitsVal c := by cases b <;> simp <;> omega
    have h2 : decide ((bitsVal c * 2 + (if b then 1 else 0)) % 2 = 1) = b := by cases b <;> simp <;> omega
    rw [h1, h2, natBits_bitsVal c n (by simpa using h)]
    simp

theorem byteBits_ofNat_bitsVal (c : List Bool) (hc : c.length ≤ 8) :
    byteBits (UInt8.ofNat (bitsVal c)) = c ++ List.replicate (8 - c.length) false := by
  show Deflate.natBits 8 (UInt8.ofNat (bitsVal c)).toNat = _
  have : bitsVal c < 256 := Nat.lt_of_lt_of_le (bitsVal_lt c) (Nat.pow_le_pow_right (by decide) hc)
  rw [UInt8.toNat_ofNat', Nat.mod_eq_of_lt this]
  exact natBits_bitsVal c 8 hc

theorem packAux_bits : ∀ (fuel : Nat) (bs : List Bool), bs.length ≤ fuel →
    Deflate.bytesBits (Deflate.packAux fuel bs) = bs ++ List.replicate ((8 - bs.length % 8) % 8) false := by
  intro fuel
  induction fuel with
  | zero =>
    intro bs h
    have : bs = [] := List.eq_nil_of_length_eq_zero (by omega)
    subst this; rfl
  | succ fuel ih =>
    intro bs h
    rw [Deflate.packAux]
    cases hbs : bs with
    | nil => rfl
    | cons x xs =>
      rw [← hbs]
      have hne : bs.isEmpty = false := by rw [hbs]; rfl
      rw [hne]
      simp only [Bool.false_eq_true, ↓reduceIte]
      have hpos : 0 < bs.length := by rw [hbs]; simp
      rw [bytesBits_cons, show Deflate.bitsVal (bs.take 8) = bitsVal (bs.take 8) from rfl,
        byteBits_ofNat_bitsVal _ (by rw [List.length_take]; omega), ih _ (by rw [List.length_drop]; omega)]
      rw [List.length_take, List.length_drop]
      by_cases h8 : 8 ≤ bs.length
      · rw [Nat.min_eq_left h8, Nat.sub_self, List.replicate_zero, List.append_nil, ← List.append_assoc,
          List.take_append_drop]
        congr 2
        omega
      · have hd : bs.drop 8 = [] := List.drop_eq_nil_of_le (by omega)
        have ht : bs.take 8 = bs := List.take_of_length_le (by omega)
        rw [hd, ht, Nat.min_eq_right (by omega), List.nil_append]
        have : (8 - (bs.length - 8) % 8) % 8 = 0 := by omega
        rw [this, List.replicate_zero, List.append_nil]
        congr 2
        omega

theorem packBits_bits (bs : List Bool) :
    Deflate.bytesBits (Deflate.packBits bs) = bs ++ List.replicate ((8 - bs.length % 8) % 8) false :=
  packAux_bits _ bs (Nat.le_refl _)

/-! ## the frame -/

theorem scanCK_tot (hF : Feeds S content) (fuel : Nat) (st : St σ) (hb : 1 ≤ st.inbufSize) (rest : List Bool)
    (hbl : st.bits.length ≤ 23) (hav : avail content st = Deflate.bytesBits [0x43, 0x4B] ++ rest) :
    Tot S (scanCK S (fuel + 2) 0) st (fun _ s => Keep st s ∧ avail content s = rest ∧ s.bits.length ≤ 23) := by
  rw [bytesBits_cons, bytesBits_cons, List.append_assoc, List.append_assoc] at hav
  rw [scanCK.eq_2]
  refine Ok.bind (readBits_tot hF 8 (by omega) st hb _ _ hav (byteBits_length _)) ?_
  intro i s1 ⟨hv1, hk1, hav1, hbl1⟩
  rw [bitsVal_byteBits] at hv1
  have : i = 0x43 := hv1
  subst this
  simp only [↓reduceIte, Nat.reduceEqDiff]
  rw [scanCK.eq_2]
  refine Ok.bind (readBits_tot hF 8 (by omega) s1 (hk1.size ▸ hb) _ _ hav1 (byteBits_length _)) ?_
  intro i s2 ⟨hv2, hk2, hav2, hbl2⟩
  rw [bitsVal_byteBits] at hv2
  have : i = 0x4B := hv2
  subst this
  simp only [↓reduceIte, Nat.reduceEqDiff, and_self]
  rw [Ok_pure]
  refine ⟨Keep.trans hk1 hk2, ?_, by omega⟩
  simpa [Deflate.bytesBits] using hav2

theorem decompressLoop_step (fuel n : Nat) (st s1 s2 : St σ) (outBytes : Nat) (w : Bytes) (hob : outBytes ≠ 0)
    (h1 : exec (scanCK S fuel 0) { st with bits := st.bits.drop (st.bits.length % 8) } = (.ok (), s1))
    (h2 : exec (inflate S fuel) { s1 with windowPosn := 0, bytesOutput := 0 } = (.ok (), s2)) :
    decompressLoop S fuel (n + 1) st outBytes w =
      decompressLoop S fuel n
        { s2 with pending := (s2.window.toList.take s2.bytesOutput).drop (min outBytes s2.bytesOutput) }
        (outBytes - min outBytes s2.bytesOutput)
        (w ++ (s2.window.toList.take s2.bytesOutput).take (min outBytes s2.bytesOutput)) := by
  unfold exec at h1 h2
  rw [decompressLoop.eq_2, if_neg hob]
  dsimp only
  rw [h1]
  dsimp only
  unfold runInflate
  rw [h2]
  simp only [ne_eq, not_true_eq_false, false_and, ↓reduceIte]

/-- one `mszipd_decompress` call on a fresh stream whose source starts with the frame of `blocks`:
    OK, and exactly the frame's data has been written -/
theorem decompress_frame (hF : Feeds S content) (blocks : List Deflate.Block) (extra : Bytes) (fuel : Nat) (st : St σ)
    (hne : blocks ≠ []) (hfuel : ∀ b ∈ blocks, blocks.length + blockCost b ≤ fuel + 2)
    (hH : ∀ toks, Deflate.Block.fixed toks ∈ blocks → HuffSpec S content toks)
    (hwf : Deflate.BlocksWF [] blocks) (hfit : (Deflate.blocksData blocks []).length ≤ zipFRAME_SIZE)
    (hpos : 0 < (Deflate.blocksData blocks []).length)
    (herr : st.error = .ok) (hpend : st.pending = []) (hbits : st.bits = []) (hin : st.inbuf = [])
    (hend : st.inputEnd = false) (hb : 1 ≤ st.inbufSize) (hw : st.window.size = zipFRAME_SIZE)
    (hsrc : content st.src = Deflate.encFrame blocks ++ extra) :
    ∃ st', decompress S (fuel + 2) st (Deflate.blocksData blocks []).length =
      .ok ⟨.ok, Deflate.blocksData blocks [], st'⟩ := by
  generalize hdata : Deflate.blocksData blocks [] = data at *
  -- the state the block loop starts from, and the one the `CK` scan starts from
  generalize hst0 : ({ st with pending := st.pending.drop (min st.pending.length data.length) } : St σ) = st0
  have hA : ∀ stA : St σ, stA = { st0 with bits := st0.bits.drop (st0.bits.length % 8) } →
      stA.bits = [] ∧ remBytes content stA = Deflate.encFrame blocks ++ extra ++ [0, 0] ∧ stA.inbufSize = st.inbufSize ∧
      stA.window = st.window := by
    intro stA h
    subst h; subst hst0
    refine ⟨?_, ?_, rfl, rfl⟩
    · show List.drop (st.bits.length % 8) st.bits = []
      rw [hbits]; rfl
    · show st.inbuf ++ content st.src ++ (if st.inputEnd then [] else [0, 0]) = _
      rw [hin, hend, hsrc]; rfl
  generalize hstA : ({ st0 with bits := st0.bits.drop (st0.bits.length % 8) } : St σ) = stA at hA
  obtain ⟨hAb, hAr, hAs, hAw⟩ := hA stA rfl
  generalize hE : Deflate.encBlocks 0 blocks = E at *
  have havA : avail content stA = Deflate.bytesBits [0x43, 0x4B] ++
      Deflate.bytesBits (Deflate.packBits E ++ (extra ++ [0, 0])) := by
    rw [avail, hAb, hAr, List.nil_append, Deflate.encFrame, hE, ← bytesBits_append]
    simp only [List.append_assoc]
  obtain ⟨_, s1, hr1, hk1, hav1, hbl1⟩ := tot_run S (scanCK_tot hF fuel stA (hAs ▸ hb) _ (by rw [hAb]; simp) havA)
  -- inflate
  have hB : Has ({ s1 with windowPosn := 0, bytesOutput := 0 } : St σ) [] := by
    refine ⟨?_, rfl, .inl ⟨rfl, rfl, ?_⟩⟩
    · show s1.window.size = _
      rw [hk1.1, hAw]; exact hw
    · show 0 < zipFRAME_SIZE
      decide
  have havB : avail content ({ s1 with windowPosn := 0, bytesOutput := 0 } : St σ) =
      E ++ (List.replicate ((8 - E.length % 8) % 8) false ++ Deflate.bytesBits (extra ++ [0, 0])) := by
    show avail content s1 = _
    rw [hav1, bytesBits_append, packBits_bits, List.append_assoc]
  have hposB : (0 + (avail content ({ s1 with windowPosn := 0, bytesOutput := 0 } : St σ)).length) % 8 = 0 := by
    show (0 + (avail content s1).length) % 8 = 0
    rw [hav1, bytesBits_length]; omega
  have hinf := inflate_blocks hF blocks (fuel + 2) _ [] 0 _ hne hfuel hH hB
    (by show 1 ≤ s1.inbufSize; rw [hk1.size, hAs]; exact hb) hbl1 (hE ▸ havB) hposB
    (by simp only [List.length_append, bytesBits_length, List.length_replicate, List.length_cons, List.length_nil]; omega) hwf (hdata ▸ hfit)
  obtain ⟨_, s2, hr2, hd1, hd2, hd3⟩ := tot_run S hinf
  rw [hdata] at hd2 hd3
  unfold decompress
  rw [if_neg (by rw [herr]; simp)]
  dsimp only
  rw [hst0, hpend, List.length_nil, Nat.zero_min, Nat.sub_zero, List.take_zero, if_neg (by omega)]
  rw [decompressLoop_step (fuel + 2) (fuel + 1) st0 s1 s2 _ _ (by omega) (hstA ▸ hr1) hr2]
  rw [hd3, Nat.min_self, Nat.sub_self, decompressLoop.eq_2, if_pos rfl, hd2, List.nil_append,
    List.take_of_length_le (Nat.le_refl _)]
  exact ⟨_, rfl⟩

/-! ## the fixed Huffman codes and the length / distance slots -/

open MsPack.Spec

theorem litCode_decode_tab : ∀ sym < 288, ((Huff.build zipLITERAL_TABLEBITS fixedLitLens).bind fun c =>
    Huff.decode c (Deflate.litCode sym)) = some (sym, (Deflate.litCode sym).length) := by decide +kernel

theorem distCode_decode_tab : ∀ d < 32, ((Huff.build zipDISTANCE_TABLEBITS fixedDistLens).bind fun c =>
    Huff.decode c (Deflate.distCode d)) = some (d, 5) := by decide +kernel

theorem litCode_len : ∀ sym < 288, (Deflate.litCode sym).length ≤ 16 := by decide +kernel

theorem len_tabs : ∀ c < 29, zipLitLengths.getD c 0 = zipLenBase c ∧ zipLitExtrabits.getD c 0 = zipLenExtra c ∧
    zipLenExtra c ≤ 24 ∧ (c < 28 → zipLenBase (c + 1) ≤ zipLenBase c + 2 ^ zipLenExtra c) := by decide +kernel
theorem dist_tabs : ∀ d < 30, zipDistOffsets.getD d 0 = zipDistBase d ∧ zipDistExtrabits.getD d 0 = zipDistExtra d ∧
    zipDistExtra d ≤ 24 := by decide +kernel
theorem base_ends : zipLenBase 0 = 3 ∧ zipLenBase 28 = 258 ∧ zipDistBase 0 = 1 ∧ zipDistBase 30 = 32769 := by decide +kernel

theorem go_mono (c : Huff.Canon) (tail : List Bool) (r : Nat × Nat) : ∀ (fuel l code : Nat) (p : List Bool),
    Huff.decode.go c l fuel code p = some r → Huff.decode.go c l fuel code (p ++ tail) = some r := by
  intro fuel
  induction fuel with
  | zero => intro l code p h; simp [Huff.decode.go] at h
  | succ fuel ih =>
    intro l code p h
    cases p with
    | nil => simp [Huff.decode.go] at h
    | cons b p =>
      rw [List.cons_append]
      unfold Huff.decode.go at h ⊢
      dsimp only at h ⊢
      generalize code * 2 + (if b = true then 1 else 0) = code' at h ⊢
      split
      · rename_i hc; rw [if_pos hc] at h; exact h
      · rename_i hc; rw [if_neg hc] at h; exact ih _ _ _ h

theorem decode_mono (c : Huff.Canon) (p tail : List Bool) (r : Nat × Nat) (h : Huff.decode c p = some r) :
    Huff.decode c (p ++ tail) = some r := go_mono c tail r _ _ _ _ h

theorem litCode_decode (lit : Huff.Canon) (hlit : Huff.build zipLITERAL_TABLEBITS fixedLitLens = some lit)
    (sym : Nat) (hs : sym < 288) (tail : List Bool) :
    Huff.decode lit (Deflate.litCode sym ++ tail) = some (sym, (Deflate.litCode sym).length) := by
  have := litCode_decode_tab sym hs
  rw [hlit] at this
  exact decode_mono _ _ _ _ this

theorem distCode_decode (dist : Huff.Canon) (hdist : Huff.build zipDISTANCE_TABLEBITS fixedDistLens = some dist)
    (d : Nat) (hd : d < 32) (tail : List Bool) :
    Huff.decode dist (Deflate.distCode d ++ tail) = some (d, (Deflate.distCode d).length) := by
  have := distCode_decode_tab d hd
  rw [hdist] at this
  have hl : (Deflate.distCode d).length = 5 := by simp [Deflate.distCode, Deflate.codeBits, natBits_length]
  rw [hl]
  exact decode_mono _ _ _ _ this

theorem slotOf_spec (base : Nat → Nat) (v : Nat) (h0 : base 0 ≤ v) : ∀ c : Nat,
    Deflate.slotOf base v c ≤ c ∧ base (Deflate.slotOf base v c) ≤ v ∧
      (Deflate.slotOf base v c < c → v < base (Deflate.slotOf base v c + 1))
  | 0 => ⟨Nat.le_refl _, h0, fun h => absurd h (Nat.lt_irrefl _)⟩
  | c + 1 => by
    rw [Deflate.slotOf]
    split
    · rename_i h; exact ⟨Nat.le_refl _, h, fun h => absurd h (Nat.lt_irrefl _)⟩
    · rename_i h
      obtain ⟨a, b, d⟩ := slotOf_spec base v h0 c
      refine ⟨by omega, b, fun _ => ?_⟩
      by_cases hc : Deflate.slotOf base v c < c
      · exact d hc
      · have : Deflate.slotOf base v c = c := by omega
        rw [this]; omega

/-- the length code of a match length and its extra bits, as the decoder's tables see them -/
theorem lenIdx_spec (len : Nat) (h3 : 3 ≤ len) (h258 : len ≤ 258) :
    Deflate.lenIdx len < 29 ∧ zipLitLengths.getD (Deflate.lenIdx len) 0 = zipLenBase (Deflate.lenIdx len) ∧
    zipLitExtrabits.getD (Deflate.lenIdx len) 0 = zipLenExtra (Deflate.lenIdx len) ∧
    zipLenExtra (Deflate.lenIdx len) ≤ 24 ∧ zipLenBase (Deflate.lenIdx len) ≤ len ∧
    len - zipLenBase (Deflate.lenIdx len) < 2 ^ zipLenExtra (Deflate.lenIdx len) := by
  obtain ⟨a, b, c⟩ := slotOf_spec zipLenBase len (by rw [base_ends.1]; exact h3) 28
  have hlt : Deflate.lenIdx len < 29 := Nat.lt_succ_of_le a
  obtain ⟨t1, t2, t3, t4⟩ := len_tabs _ hlt
  refine ⟨hlt, t1, t2, t3, b, ?_⟩
  by_cases h28 : Deflate.lenIdx len < 28
  · have := c h28
    have := t4 h28
    show len - zipLenBase (Deflate.slotOf zipLenBase len 28) < 2 ^ zipLenExtra (Deflate.slotOf zipLenBase len 28)
    unfold Deflate.lenIdx at *
    omega
  · have h : Deflate.lenIdx len = 28 := by omega
    rw [h, base_ends.2.1]
    have : len - 258 = 0 := by omega
    rw [this]
    exact Nat.pow_pos (by decide)

theorem distIdx_spec (d : Nat) (h1 : 1 ≤ d) (h2 : d ≤ 32768) :
    Deflate.distIdx d < 30 ∧ zipDistOffsets.getD (Deflate.distIdx d) 0 = zipDistBase (Deflate.distIdx d) ∧
    zipDistExtrabits.getD (Deflate.distIdx d) 0 = zipDistExtra (Deflate.distIdx d) ∧
    zipDistExtra (Deflate.distIdx d) ≤ 24 ∧ zipDistBase (Deflate.distIdx d) ≤ d ∧
    d - zipDistBase (Deflate.distIdx d) < 2 ^ zipDistExtra (Deflate.distIdx d) := by
  obtain ⟨a, b, c⟩ := slotOf_spec zipDistBase d (by rw [base_ends.2.2.1]; exact h1) 29
  have hlt : Deflate.distIdx d < 30 := Nat.lt_succ_of_le a
  obtain ⟨t1, t2, t3⟩ := dist_tabs _ hlt
  refine ⟨hlt, t1, t2, t3, b, ?_⟩
  have hnext : d < zipDistBase (Deflate.distIdx d + 1) := by
    by_cases h29 : Deflate.distIdx d < 29
    · exact c h29
    · have h : Deflate.distIdx d = 29 := by omega
      rw [h, base_ends.2.2.2]; omega
  rw [zipDistBase] at hnext
  unfold Deflate.distIdx at *
  omega

/-! ## the symbol loop -/

theorem Has.keep {st s : St σ} {out : Bytes} (h : Has st out) (hk : Keep st s) : Has s out := by
  obtain ⟨h1, h2, h3⟩ := h
  exact ⟨hk.1 ▸ h1, hk.1 ▸ h2, hk.2 ▸ hk.3 ▸ h3⟩

theorem InSame.keepIn {st s : St σ} (h : InSame st s) :
    Zip.avail content s = Zip.avail content st ∧ s.bits.length = st.bits.length ∧ s.inbufSize = st.inbufSize :=
  ⟨h.avail content, by rw [h.bits], h.size⟩

theorem window_getD {st : St σ} {out : Bytes} (h : Has st out) (i : Nat) (hi : i < out.length) :
    st.window.getD i 0 = out.getD i 0 := by
  obtain ⟨_, h2, _⟩ := h
  have := congrArg (fun l => l.getD i 0) h2
  simp only [List.getD_eq_getElem?_getD, List.getElem?_take, hi, ↓reduceIte, Array.getElem?_toList] at this
  simp only [Array.getD_eq_getD_getElem?, List.getD_eq_getElem?_getD, this]

theorem copyMatch_out (dist : Nat) (hd1 : 1 ≤ dist) : ∀ (n : Nat) (st : St σ) (out : Bytes), Has st out →
    dist ≤ out.length → out.length + n ≤ zipFRAME_SIZE →
    Tot S (copyMatch n (out.length - dist)) st (fun _ s => Has s (Deflate.copyFrom dist n out) ∧ InSame st s) := by
  intro n
  induction n with
  | zero =>
    intro st out h _ _
    rw [copyMatch.eq_1, Ok_pure]
    exact ⟨h, InSame.refl _⟩
  | succ n ih =>
    intro st out h hd hfit
    rw [copyMatch.eq_2]
    zsimp
    rw [window_getD h _ (by omega)]
    refine Ok.bind (putByte_out _ st out h (by omega)) ?_
    intro _ s ⟨hs, hi⟩
    have hmp : (out.length - dist + 1) % zipFRAME_SIZE = (out ++ [out.getD (out.length - dist) 0]).length - dist := by
      rw [List.length_append, List.length_singleton, Nat.mod_eq_of_lt (by omega)]
      omega
    rw [hmp]
    refine (ih s _ hs (by rw [List.length_append]; omega) (by rw [List.length_append, List.length_singleton]; omega)).mono
      ?_ (fun _ h => h)
    intro _ s' ⟨a, b⟩
    exact ⟨a, InSame.trans hi b⟩

theorem litCode_length_le (sym : Nat) (hs : sym < 288) : (Deflate.litCode sym).length ≤ 16 := litCode_len sym hs

theorem huffSpec_all (hF : Feeds S content) : ∀ toks : List Deflate.Tok, HuffSpec S content toks := by
  intro toks
  induction toks with
  | nil =>
    intro lit dist fuel st out rest hlit hdist hfuel ho hwf hfit hb hbl hav h16
    obtain ⟨fuel, rfl⟩ : ∃ f, fuel = f + 1 := ⟨fuel - 1, by simp at hfuel; omega⟩
    rw [huffBlock.eq_2]
    simp only [List.flatMap_nil, List.nil_append] at hav
    refine Ok.bind (readHuffSym_tot hF lit st hb _ rest 256 hav (by rw [List.length_append]; omega)
      (litCode_length_le 256 (by omega)) (litCode_decode lit hlit 256 (by omega))) ?_
    intro code s ⟨hc, hk, havs, hbls⟩
    subst hc
    simp only [Nat.lt_irrefl, ↓reduceIte]
    rw [Ok_pure]
    exact ⟨ho.keep hk, havs, by omega, hk.size⟩
  | cons t ts ih =>
    intro lit dist fuel st out rest hlit hdist hfuel ho hwf hfit hb hbl hav h16
    obtain ⟨fuel, rfl⟩ : ∃ f, fuel = f + 1 := ⟨fuel - 1, by simp at hfuel; omega⟩
    rw [huffBlock.eq_2]
    simp only [List.flatMap_cons, List.append_assoc] at hav
    have hfuel' : ts.length + 1 ≤ fuel := by simpa using hfuel
    have hfit' : (Deflate.expand ts (t.apply out)).length ≤ zipFRAME_SIZE := hfit
    have hlen1 := expand_length_le ts (t.apply out)
    cases t with
    | lit b =>
      simp only [Deflate.Tok.bits] at hav
      refine Ok.bind (readHuffSym_tot hF lit st hb _ _ b.toNat hav (by simp only [List.length_append]; omega)
        (litCode_length_le _ (by have := b.toNat_lt; omega)) (litCode_decode lit hlit _ (by have := b.toNat_lt; omega))) ?_
      intro code s ⟨hc, hk, havs, hbls⟩
      subst hc
      rw [if_pos b.toNat_lt, UInt8.ofNat_toNat]
      have hlen2 : (Deflate.Tok.apply out (.lit b)).length = out.length + 1 := by simp [Deflate.Tok.apply]
      refine Ok.bind (putByte_out b s out (ho.keep hk) (by omega)) ?_
      intro _ s2 ⟨ho2, hi2⟩
      obtain ⟨ia, ib, ic⟩ := hi2.keepIn (content := content)
      refine (ih lit dist fuel s2 _ rest hlit hdist hfuel' ho2 hwf.2 hfit' (by rw [ic, hk.size]; exact hb)
        (by rw [ib]; omega) (by rw [ia, havs, List.append_assoc]) h16).mono ?_ (fun _ h => h)
      intro _ s3 ⟨a, b', c, d⟩
      exact ⟨a, b', c, by rw [d, ic, hk.size]⟩
    | mat len dd =>
      obtain ⟨w1, w2, w3, w4, w5⟩ := hwf.1
      obtain ⟨l1, l2, l3, l4, l5, l6⟩ := lenIdx_spec len w1 w2
      obtain ⟨d1, d2, d3, d4, d5, d6⟩ := distIdx_spec dd w3 w4
      simp only [Deflate.Tok.bits, List.append_assoc] at hav
      generalize hc : Deflate.lenIdx len = c at *
      generalize hd : Deflate.distIdx dd = d at *
      refine Ok.bind (readHuffSym_tot hF lit st hb _ _ (257 + c) hav (by simp only [List.length_append]; omega)
        (litCode_length_le _ (by omega)) (litCode_decode lit hlit _ (by omega))) ?_
      intro code s1 ⟨hc1, hk1, hav1, hbl1⟩
      subst hc1
      rw [if_neg (by omega), if_neg (by omega)]
      simp only [Nat.add_sub_cancel_left]
      rw [if_neg (by omega)]
      zsimp
      rw [l2, l3]
      refine Ok.bind (readBits_tot hF _ l4 s1 (hk1.size ▸ hb) _ _ hav1 (natBits_length _ _)) ?_
      intro ev s2 ⟨hv2, hk2, hav2, hbl2⟩
      rw [bitsVal_natBits, Nat.mod_eq_of_lt l6] at hv2
      subst hv2
      rw [Nat.sub_add_cancel l5]
      have hdl : (Deflate.distCode d).length ≤ 16 := by simp [Deflate.distCode, Deflate.codeBits, natBits_length]
      refine Ok.bind (readHuffSym_tot hF dist s2 (by rw [hk2.size, hk1.size]; exact hb) _ _ d hav2
        (by simp only [List.length_append]; omega) hdl (distCode_decode dist hdist d (by omega))) ?_
      intro dc s3 ⟨hv3, hk3, hav3, hbl3⟩
      subst hv3
      rw [if_neg (by omega), d2, d3]
      refine Ok.bind (readBits_tot hF _ d4 s3 (by rw [hk3.size, hk2.size, hk1.size]; exact hb) _ _ hav3 (natBits_length _ _)) ?_
      intro dv s4 ⟨hv4, hk4, hav4, hbl4⟩
      rw [bitsVal_natBits, Nat.mod_eq_of_lt d6] at hv4
      subst hv4
      rw [Nat.sub_add_cancel d5]
      zsimp
      have hk : Keep st s4 := Keep.trans (Keep.trans (Keep.trans hk1 hk2) hk3) hk4
      have ho4 : Has s4 out := ho.keep hk
      have hlen2 : (Deflate.Tok.apply out (.mat len dd)).length = out.length + len := by
        simp only [Deflate.Tok.apply, copyFrom_length]
      have hposn : s4.windowPosn = out.length := by
        obtain ⟨_, _, h3⟩ := ho4
        rcases h3 with h | h
        · exact h.2.1
        · omega
      rw [hposn, if_neg (by omega), Nat.zero_add]
      refine Ok.bind (copyMatch_out dd w3 len s4 out ho4 w5 (by omega)) ?_
      intro _ s5 ⟨ho5, hi5⟩
      obtain ⟨ia, ib, ic⟩ := hi5.keepIn (content := content)
      refine (ih lit dist fuel s5 _ rest hlit hdist hfuel' ho5 hwf.2 hfit' (by rw [ic, hk.size]; exact hb)
        (by rw [ib]; omega) (by rw [ia, hav4, List.append_assoc]) h16).mono ?_ (fun _ h => h)
      intro _ s6 ⟨a, b', c', d'⟩
      exact ⟨a, b', c', by rw [d', ic, hk.size]⟩

/-- `decompress_frame` with the symbol-loop hypothesis discharged: any mix of stored and fixed blocks -/
theorem decompress_blocks (hF : Feeds S content) (blocks : List Deflate.Block) (extra : Bytes) (fuel : Nat) (st : St σ)
    (hne : blocks ≠ []) (hfuel2 : 2 ≤ fuel) (hfuel : ∀ b ∈ blocks, blocks.length + blockCost b ≤ fuel)
    (hwf : Deflate.BlocksWF [] blocks) (hfit : (Deflate.blocksData blocks []).length ≤ zipFRAME_SIZE)
    (hpos : 0 < (Deflate.blocksData blocks []).length)
    (herr : st.error = .ok) (hpend : st.pending = []) (hbits : st.bits = []) (hin : st.inbuf = [])
    (hend : st.inputEnd = false) (hb : 1 ≤ st.inbufSize) (hw : st.window.size = zipFRAME_SIZE)
    (hsrc : content st.src = Deflate.encFrame blocks ++ extra) :
    ∃ st', decompress S fuel st (Deflate.blocksData blocks []).length =
      .ok ⟨.ok, Deflate.blocksData blocks [], st'⟩ := by
  obtain ⟨f, rfl⟩ : ∃ f, fuel = f + 2 := ⟨fuel - 2, by omega⟩
  exact decompress_frame hF blocks extra f st hne hfuel (fun toks _ => huffSpec_all hF toks) hwf hfit hpos
    herr hpend hbits hin hend hb hw hsrc

end MsPack.Zip
