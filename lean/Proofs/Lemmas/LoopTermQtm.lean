import Proofs.Lemmas.QtmBounds
import Proofs.Lemmas.LoopTerm
/-!
# Quantum: `qtmd_decompress` never runs out of fuel (C04)

Loops of the model and why they end (`MsPack/Qtm/Decoder.lean`):
* `renorm` (the `while (1)` of `GET_SYMBOL`, on the caller's `fuel`): after `c` rounds the low `c` bits of `L` are 0
  and those of `H` are 1 (`Pc`), so after 16 rounds `L = 0`, `H = 0xFFFF` and the 17th test leaves: `17 ≤ fuel`.
* `trailerScan` (on `fuel`): every round takes 8 bits out of `avail` = buffered bits + 8 × (buffered bytes + bytes
  left in the source) + 16 for the two zero bytes `read_input` makes up once: `avail < 8 * fuel`.
* `ensureBits` (3), `readManyLoop` (`needed`), the model loops (`entries`): fixed bounds.
* `symbolLoop` (`frame_end - window_posn`): every symbol advances `window_posn`.
* `blockLoop` (`2 * out_bytes + 4`): with `o_ptr ≤ o_end = window_posn ≤ window_size`, `1 ≤ frame_todo ≤ 32768` and
  `out_bytes + 2^21 < 2^32` every round lowers `2 * (out_bytes - (o_end - o_ptr)) + [window_posn = window_size]`.
  None of the three premises can be dropped (see `Proofs/Props/C04Qtm.lean`).

Everything is in the namespace `QtmTerm`; the Hoare rules `wp_*` are those of `QtmBounds.lean`, instantiated with
`E = EE` (a status-code exit has set `qtm->error`) and `A = NH` (the fault is not `hang`).
-/
set_option linter.unusedSimpArgs false
set_option linter.unusedVariables false
namespace QtmTerm
open MsPack MsPack.Qtm MsPack.Generated

/-! ## the renormalisation loop: 16 rounds at most -/


/-- after `c` rounds of the renormalisation loop the low `c` bits of `L` are 0 and those of `H` are 1 -/
def Pc (c H L : Nat) : Prop :=
  (1 ≤ c → H < 65536 ∧ L < 65536) ∧ ∀ i, i < c → L.testBit i = false ∧ H.testBit i = true

theorem Pc_zero (H L : Nat) : Pc 0 H L := ⟨fun h => by omega, fun i h => by omega⟩

theorem shl1 (x : Nat) : shl x 1 = x <<< 1 := shl_eq x 1

theorem Pc_step (c H L C h l c' : Nat) (hc : c ≤ 15) (hp : Pc c H L)
    (hs : renormStep H L C = some (h, l, c')) : Pc (c + 1) h l := by
  unfold renormStep at hs
  simp only [shl1] at hs
  have key : ∀ H0 L0 : Nat, (∀ i, i < c → L0.testBit i = false ∧ H0.testBit i = true) →
      Pc (c + 1) ((H0 <<< 1 ||| 1) % 65536) (L0 <<< 1 % 65536) := by
    intro H0 L0 h0
    refine ⟨fun _ => ⟨Nat.mod_lt _ (by omega), Nat.mod_lt _ (by omega)⟩, fun i hi => ?_⟩
    have e : (65536 : Nat) = 2 ^ 16 := by decide
    rw [e]
    simp only [Nat.testBit_mod_two_pow, Nat.testBit_or, Nat.testBit_shiftLeft]
    cases i with
    | zero => simp
    | succ j =>
      have := h0 j (by omega)
      have hj : j + 1 < 16 := by omega
      simp [this.1, this.2, hj]
  split at hs
  · split at hs
    · simp only [Option.some.injEq, Prod.mk.injEq] at hs
      obtain ⟨rfl, rfl, _⟩ := hs
      apply key
      intro i hi
      have := hp.2 i hi
      simp [Nat.testBit_and, Nat.testBit_or, this.1, this.2]
    · cases hs
  · simp only [Option.some.injEq, Prod.mk.injEq] at hs
    obtain ⟨rfl, rfl, _⟩ := hs
    exact key H L hp.2

theorem Pc_final (H L C : Nat) (hp : Pc 16 H L) : renormStep H L C = none := by
  obtain ⟨hb, ht⟩ := hp
  obtain ⟨hH, hL⟩ := hb (by omega)
  have eL : L = 0 := by
    apply Nat.eq_of_testBit_eq
    intro i
    by_cases hi : i < 16
    · simp [(ht i hi).1]
    · simp only [Nat.zero_testBit]
      apply Nat.testBit_lt_two_pow
      exact Nat.lt_of_lt_of_le hL (by
        have : 2 ^ 16 ≤ 2 ^ i := Nat.pow_le_pow_right (by omega) (by omega)
        omega)
  have eH : H = 2 ^ 16 - 1 := by
    apply Nat.eq_of_testBit_eq
    intro i
    rw [Nat.testBit_two_pow_sub_one]
    by_cases hi : i < 16
    · simp [(ht i hi).2, hi]
    · simp only [hi, decide_false]
      apply Nat.testBit_lt_two_pow
      exact Nat.lt_of_lt_of_le hH (by
        have : 2 ^ 16 ≤ 2 ^ i := Nat.pow_le_pow_right (by omega) (by omega)
        omega)
  subst eL eH
  simp [renormStep]


/-! ## the pure model functions never report `hang` -/


/-- a pure model function that never reports "out of fuel" -/
structure NoHang {α : Type} (x : Except Fault α) : Prop where
  ne : x ≠ .error .hang

theorem NoHang.ok {α : Type} (a : α) : NoHang (.ok a : Except Fault α) := ⟨by simp⟩
theorem NoHang.pure {α : Type} (a : α) : NoHang (pure a : Except Fault α) := ⟨by simp [Pure.pure, Except.pure]⟩

theorem NoHang.bind {α β : Type} {x : Except Fault α} {f : α → Except Fault β} (hx : NoHang x)
    (hf : ∀ a, NoHang (f a)) : NoHang (x >>= f) := by
  cases x with
  | error e => exact ⟨by simpa [Bind.bind, Except.bind] using hx.ne⟩
  | ok a => simpa [Bind.bind, Except.bind] using hf a

theorem sym_nh (m : Model) (i : Nat) : NoHang (m.sym i) := by
  unfold Model.sym; split <;> exact ⟨by simp⟩
theorem setCumfreq_nh (m : Model) (i v : Nat) : NoHang (m.setCumfreq i v) := by
  unfold Model.setCumfreq; split <;> exact ⟨by simp⟩
theorem setSym_nh (m : Model) (i : Nat) (s : ModelSym) : NoHang (m.setSym i s) := by
  unfold Model.setSym; split <;> exact ⟨by simp⟩

theorem throw_nh {α : Type} (f : Fault) (hf : f ≠ .hang) : NoHang (throw f : Except Fault α) :=
  ⟨by simp [throw, throwThe, MonadExceptOf.throw, hf]⟩

theorem ite_nh {α : Type} (c : Prop) [Decidable c] (x y : Except Fault α) (hx : NoHang x) (hy : NoHang y) :
    NoHang (if c then x else y) := by split <;> assumption

syntax "nh_tac" : tactic
macro_rules
  | `(tactic| nh_tac) => `(tactic| repeat' (first
      | assumption
      | intro _
      | exact NoHang.ok _
      | exact NoHang.pure _
      | exact sym_nh _ _
      | exact setCumfreq_nh _ _ _
      | exact setSym_nh _ _ _
      | (apply throw_nh; simp; done)
      | (apply_assumption; done)
      | apply NoHang.bind
      | apply ite_nh
      | (dsimp only [])))

theorem halveLoop_nh : ∀ (k : Nat) (m : Model), NoHang (halveLoop k m)
  | 0, m => NoHang.ok m
  | k + 1, m => by
    have ih := halveLoop_nh k
    rw [halveLoop]; nh_tac

theorem toFreqLoop_nh : ∀ (k i : Nat) (m : Model), NoHang (toFreqLoop k i m)
  | 0, _, m => NoHang.ok m
  | k + 1, i, m => by
    have ih := toFreqLoop_nh k
    rw [toFreqLoop]; nh_tac

theorem sortInner_nh : ∀ (k i j : Nat) (m : Model), NoHang (sortInner k i j m)
  | 0, _, _, m => NoHang.ok m
  | k + 1, i, j, m => by
    have ih := sortInner_nh k
    rw [sortInner]; nh_tac

theorem sortOuter_nh : ∀ (k i : Nat) (m : Model), NoHang (sortOuter k i m)
  | 0, _, m => NoHang.ok m
  | k + 1, i, m => by
    have ih := sortOuter_nh k
    have := sortInner_nh
    rw [sortOuter]; nh_tac

theorem resumLoop_nh : ∀ (k : Nat) (m : Model), NoHang (resumLoop k m)
  | 0, m => NoHang.ok m
  | k + 1, m => by
    have ih := resumLoop_nh k
    rw [resumLoop]; nh_tac

theorem updateModel_nh (m : Model) : NoHang (updateModel m) := by
  have := halveLoop_nh; have := toFreqLoop_nh; have := sortOuter_nh; have := resumLoop_nh
  unfold updateModel; nh_tac

theorem scanSym_nh (m : Model) (symf : Nat) : ∀ (k i : Nat), NoHang (scanSym m symf k i)
  | 0, i => NoHang.ok i
  | k + 1, i => by
    have ih := scanSym_nh m symf k
    rw [scanSym]; nh_tac

theorem bumpLoop_nh : ∀ (k : Nat) (m : Model), NoHang (bumpLoop k m)
  | 0, m => NoHang.ok m
  | k + 1, m => by
    have ih := bumpLoop_nh k
    rw [bumpLoop]; nh_tac

theorem decodeSym_nh (m : Model) (H L C : Nat) : NoHang (decodeSym m H L C) := by
  have := scanSym_nh; have := bumpLoop_nh; have := updateModel_nh
  unfold decodeSym; nh_tac


/-! ## the Hoare layer -/

variable {σ : Type} (S : Src σ) (rem : σ → Nat)

/-- bits the decoder can still obtain: buffered bits + 8 × (buffered bytes + bytes left in the source) + the two
    zero bytes `read_input` makes up at the first end of input -/
def avail (r : Run σ) : Nat :=
  r.bitsLeft + 8 * r.inbuf.length + 8 * rem r.st.src + (if r.st.inputEnd then 0 else 16)

/-- a status-code exit has recorded the code in `qtm->error` -/
abbrev EE : Run σ → Prop := fun r => r.st.error ≠ .ok
/-- the fault is not the iteration bound -/
abbrev NH : Fault → Prop := fun f => f ≠ .hang

/-- the values the loop bounds depend on (`o_ptr`, `o_end`, `out_bytes`, `window_posn`, `window_size`, `frame_todo`),
    named so that lemmas can say "unchanged"; and the bit buffer is a 32-bit value -/
structure KI (op oe ob p ws ft : Nat) (r : Run σ) : Prop where
  op : r.st.oPtr = op
  oe : r.st.oEnd = oe
  ob : r.outBytes = ob
  p  : r.windowPosn = p
  ws : r.st.windowSize = ws
  ft : r.frameTodo = ft
  bb : r.bitBuffer < u32

variable {S rem}
variable {op oe ob p ws ft a : Nat} {r : Run σ}

/-- `avail` only looks at the bit count, the buffered bytes, the source and the end-of-input flag -/
theorem avail_le_of {x y : Run σ} (hx : avail rem x ≤ a) (h1 : y.bitsLeft = x.bitsLeft) (h2 : y.inbuf = x.inbuf)
    (h3 : y.st.src = x.st.src) (h4 : y.st.inputEnd = x.st.inputEnd) : avail rem y ≤ a := by
  simp only [avail, h1, h2, h3, h4]
  exact hx

theorem fail_T {α : Type} {Q : α → Run σ → Prop} (e : Err) (he : e ≠ .ok) :
    wp (fail e : QM σ α) Q EE NH r := by
  unfold fail
  simp only [wp_bind, modSt, wp_modify, wp_throw_sys]
  exact he

theorem readInput_T {Q : Unit → Run σ → Prop} (hS : S.Finite rem) (h : KI op oe ob p ws ft r) (hin : r.inbuf = [])
    (ha : avail rem r ≤ a)
    (hQ : ∀ r', KI op oe ob p ws ft r' → avail rem r' ≤ a → r'.inbuf ≠ [] → r'.bitsLeft = r.bitsLeft →
      r'.H = r.H → r'.L = r.L → Q () r') :
    wp (readInput S) Q EE NH r := by
  unfold readInput
  simp only [wp_bind, wp_get]
  split
  · rename_i f heq
    simp only [wp_throw_fault]
    intro hf; subst hf; exact hS.no_hang _ _ heq
  · simp only [wp_bind, wp_set, wp_throw_sys]
    show Err.read ≠ Err.ok
    decide
  · rename_i src heq
    simp only [wp_ite, wp_bind, wp_set, wp_throw_sys]
    refine ⟨fun _ => by show Err.read ≠ Err.ok; decide, fun hie => ?_⟩
    refine hQ _ ⟨h.1, h.2, h.3, h.4, h.5, h.6, h.7⟩ ?_ (by simp) rfl rfl rfl
    have := hS.read_le _ _ _ _ heq
    simp only [avail, hin, List.length_nil, hie] at ha ⊢
    simp at this ha ⊢
    omega
  · rename_i got src hne heq
    simp only [wp_set]
    refine hQ _ ⟨h.1, h.2, h.3, h.4, h.5, h.6, h.7⟩ ?_ ?_ rfl rfl rfl
    · have := hS.read_le _ _ _ _ heq
      simp only [avail, hin, List.length_nil] at ha ⊢
      omega
    · exact hne

theorem nextByte_T {Q : Nat → Run σ → Prop} (hS : S.Finite rem) (h : KI op oe ob p ws ft r)
    (ha : avail rem r ≤ a)
    (hQ : ∀ b r', KI op oe ob p ws ft r' → avail rem r' + 8 ≤ a → r'.bitsLeft = r.bitsLeft →
      r'.H = r.H → r'.L = r.L → Q b r') :
    wp (nextByte S) Q EE NH r := by
  unfold nextByte
  have take : ∀ r1 : Run σ, KI op oe ob p ws ft r1 → avail rem r1 ≤ a → r1.inbuf ≠ [] → r1.bitsLeft = r.bitsLeft →
      r1.H = r.H → r1.L = r.L →
      wp (do let r ← get
             match r.inbuf with
             | b :: rest => set { r with inbuf := rest }; pure b.toNat
             | [] => throw (.fault (.oob "qtmd inbuf")) : QM σ Nat) Q EE NH r1 := by
    intro r1 h1 ha1 hne hbl hH hL
    simp only [wp_bind, wp_get]
    split
    · rename_i b rest heq
      simp only [wp_bind, wp_set, wp_pure]
      refine hQ _ _ ⟨h1.1, h1.2, h1.3, h1.4, h1.5, h1.6, h1.7⟩ ?_ hbl hH hL
      simp only [avail, heq, List.length_cons] at ha1 ⊢
      omega
    · rename_i he; exact absurd he hne
  simp only [wp_bind, wp_get, wp_ite, wp_pure]
  constructor
  · intro hemp
    apply readInput_T hS h (by simpa using hemp) ha
    intro r1 h1 ha1 hne hbl hH hL
    exact take r1 h1 ha1 hne hbl hH hL
  · intro hne
    exact take r h ha (by simpa using hne) rfl rfl rfl

theorem readBytes_T {Q : Unit → Run σ → Prop} (hS : S.Finite rem) (h : KI op oe ob p ws ft r)
    (ha : avail rem r ≤ a)
    (hQ : ∀ r', KI op oe ob p ws ft r' → avail rem r' ≤ a → r'.bitsLeft = r.bitsLeft + 16 →
      r'.H = r.H → r'.L = r.L → Q () r') :
    wp (readBytes S) Q EE NH r := by
  unfold readBytes
  simp only [wp_bind]
  apply nextByte_T hS h ha
  intro b0 r1 h1 a1 e1 hH1 hL1
  apply nextByte_T hS h1 (a := a - 8) (by omega)
  intro b1 r2 h2 a2 e2 hH2 hL2
  simp only [wp_bind, wp_get, wp_ite, wp_pure, wp_set, wp_throw_fault]
  refine ⟨fun _ => by simp, fun _ => ?_⟩
  refine hQ _ ⟨h2.1, h2.2, h2.3, h2.4, h2.5, h2.6, Nat.mod_lt _ u32_pos⟩ ?_ ?_ (hH2.trans hH1) (hL2.trans hL1)
  · simp only [avail] at a2 ⊢
    omega
  · show r2.bitsLeft + 16 = r.bitsLeft + 16
    omega

theorem ensureBits_T {Q : Unit → Run σ → Prop} (hS : S.Finite rem) (n f : Nat) (hn : n ≤ 16) (hf : 2 ≤ f)
    (h : KI op oe ob p ws ft r) (ha : avail rem r ≤ a)
    (hQ : ∀ r', KI op oe ob p ws ft r' → avail rem r' ≤ a → n ≤ r'.bitsLeft → r'.H = r.H → r'.L = r.L → Q () r') :
    wp (ensureBits S n f) Q EE NH r := by
  obtain ⟨f1, rfl⟩ : ∃ f1, f = f1 + 2 := ⟨f - 2, by omega⟩
  simp only [ensureBits, wp_bind, wp_get, wp_ite, wp_pure]
  refine ⟨fun hc => ?_, fun hc => hQ _ h ha (by omega) rfl rfl⟩
  apply readBytes_T hS h ha
  intro r1 h1 a1 e1 hH hL
  refine ⟨fun hc1 => by omega, fun _ => hQ _ h1 a1 (by omega) hH hL⟩

theorem peekBits_T {Q : Nat → Run σ → Prop} (n : Nat) (h : KI op oe ob p ws ft r)
    (hQ : ∀ v, v < 2 ^ n → Q v r) : wp (peekBits n : QM σ Nat) Q EE NH r := by
  unfold peekBits
  simp only [wp_bind, wp_get, wp_ite, wp_pure, wp_throw_fault]
  refine ⟨fun _ => by simp, fun hc => hQ _ ?_⟩
  rw [Nat.shiftRight_eq_div_pow, Nat.div_lt_iff_lt_mul (Nat.two_pow_pos _), pow_split n (by omega)]
  exact h.bb

theorem removeBits_T {Q : Unit → Run σ → Prop} (n : Nat) (h : KI op oe ob p ws ft r) (ha : avail rem r ≤ a)
    (hQ : ∀ r', KI op oe ob p ws ft r' → avail rem r' ≤ a → (n ≤ r.bitsLeft → avail rem r' + n ≤ a) →
      r'.H = r.H → r'.L = r.L → Q () r') :
    wp (removeBits n : QM σ Unit) Q EE NH r := by
  unfold removeBits
  simp only [wp_bind, wp_ite, wp_pure, wp_throw_fault, wp_modify]
  refine ⟨fun _ => by simp, fun _ => ?_⟩
  refine hQ _ ⟨h.1, h.2, h.3, h.4, h.5, h.6, Nat.mod_lt _ u32_pos⟩ ?_ ?_ rfl rfl
  · simp only [avail] at ha ⊢; omega
  · intro hle; simp only [avail] at ha ⊢; omega

theorem readBits_T {Q : Nat → Run σ → Prop} (hS : S.Finite rem) (n : Nat) (hn : n ≤ 16)
    (h : KI op oe ob p ws ft r) (ha : avail rem r ≤ a)
    (hQ : ∀ v r', KI op oe ob p ws ft r' → avail rem r' + n ≤ a → r'.H = r.H → r'.L = r.L → Q v r') :
    wp (readBits S n) Q EE NH r := by
  unfold readBits
  simp only [wp_bind]
  apply ensureBits_T hS n 3 hn (by omega) h ha
  intro r1 h1 a1 hb1 hH1 hL1
  apply peekBits_T n h1
  intro v _
  apply removeBits_T n h1 a1
  intro r2 h2 _ a2 hH2 hL2
  simp only [wp_pure]
  exact hQ _ _ h2 (a2 hb1) (hH2.trans hH1) (hL2.trans hL1)

theorem readManyLoop_T {Q : Nat → Run σ → Prop} (hS : S.Finite rem) (k needed val e : Nat) (hk : needed ≤ k)
    (hv : val < 2 ^ e) (h : KI op oe ob p ws ft r) (ha : avail rem r ≤ a)
    (hQ : ∀ v r', KI op oe ob p ws ft r' → avail rem r' ≤ a → v < 2 ^ (e + needed) → Q v r') :
    wp (readManyLoop S k needed val) Q EE NH r := by
  induction k generalizing r needed val e with
  | zero =>
    have : needed = 0 := by omega
    subst this
    simp only [readManyLoop, wp_ite, wp_throw_fault, wp_pure]
    exact ⟨fun hc => by omega, fun _ => hQ _ _ h ha hv⟩
  | succ k ih =>
    rw [readManyLoop]
    by_cases hn0 : needed > 0
    · rw [if_pos hn0]
      simp -zeta only [wp_bind, wp_get]
      extract_lets jp
      have hjp : ∀ u r1, KI op oe ob p ws ft r1 → avail rem r1 ≤ a → 16 ≤ r1.bitsLeft → wp (jp u) Q EE NH r1 := by
        intro u r1 h1 a1 hb1
        simp only [jp, wp_bind, wp_get]
        generalize hbr : (if r1.bitsLeft < needed then r1.bitsLeft else needed) = bitrun
        have hbr1 : 1 ≤ bitrun ∧ bitrun ≤ needed := by
          rw [← hbr]; split <;> omega
        apply peekBits_T bitrun h1
        intro v hvb
        apply removeBits_T bitrun h1 a1
        intro r2 h2 a2 _ _ _
        apply ih (needed - bitrun) _ (e + bitrun) (by omega) (shl_or_lt _ _ _ _ hv hvb) h2 a2
        intro v' r' h' a' hv'
        apply hQ _ _ h' a'
        have : e + bitrun + (needed - bitrun) = e + needed := by omega
        rw [this] at hv'; exact hv'
      clear_value jp
      simp only [wp_ite, wp_bind]
      refine ⟨fun hc => ?_, fun hc => hjp _ _ h ha (by omega)⟩
      apply readBytes_T hS h ha
      intro r1 h1 a1 e1 _ _
      exact hjp _ _ h1 a1 (by omega)
    · rw [if_neg hn0]
      simp only [wp_pure]
      have : needed = 0 := by omega
      subst this
      exact hQ _ _ h ha hv

theorem readManyBits_T {Q : Nat → Run σ → Prop} (hS : S.Finite rem) (bits : Nat)
    (h : KI op oe ob p ws ft r) (ha : avail rem r ≤ a)
    (hQ : ∀ v r', KI op oe ob p ws ft r' → avail rem r' ≤ a → v < 2 ^ (bits % 256) → Q v r') :
    wp (readManyBits S bits) Q EE NH r := by
  unfold readManyBits
  apply readManyLoop_T hS _ _ 0 0 (Nat.le_refl _) (by omega) h ha
  intro v r' h' a' hv
  apply hQ _ _ h' a'
  simpa using hv

/-! ### `GET_SYMBOL` -/

theorem renorm_aux {Q : Unit → Run σ → Prop} (hS : S.Finite rem)
    (hQ : ∀ r', KI op oe ob p ws ft r' → avail rem r' ≤ a → Q () r') :
    ∀ (fuel c : Nat) (r : Run σ), c ≤ 16 → Pc c r.H r.L → 17 ≤ fuel + c → KI op oe ob p ws ft r →
      avail rem r ≤ a → wp (renorm S fuel) Q EE NH r := by
  intro fuel
  induction fuel with
  | zero => intro c r hc _ hf; omega
  | succ fuel ih =>
    intro c r hc hp hf h ha
    simp only [renorm, wp_bind, wp_get]
    split
    · simp only [wp_pure]; exact hQ _ h ha
    · rename_i hh ll cc heq
      have hc15 : c ≤ 15 := by
        by_cases h16 : c = 16
        · subst h16; rw [Pc_final _ _ _ hp] at heq; cases heq
        · omega
      have hp1 := Pc_step c _ _ _ _ _ _ hc15 hp heq
      simp only [wp_bind, wp_set]
      have h0 : KI op oe ob p ws ft { r with H := hh, L := ll, C := cc } := ⟨h.1, h.2, h.3, h.4, h.5, h.6, h.7⟩
      have a0 : avail rem { r with H := hh, L := ll, C := cc } ≤ a := avail_le_of ha rfl rfl rfl rfl
      apply ensureBits_T hS 1 3 (by omega) (by omega) h0 a0
      intro r1 h1 a1 _ hH1 hL1
      apply peekBits_T 1 h1
      intro v _
      apply removeBits_T 1 h1 a1
      intro r2 h2 a2 _ hH2 hL2
      simp only [wp_modify]
      refine ih (c + 1) _ (by omega) ?_ (by omega) ⟨h2.1, h2.2, h2.3, h2.4, h2.5, h2.6, h2.7⟩
        (avail_le_of a2 rfl rfl rfl rfl)
      show Pc (c + 1) r2.H r2.L
      rw [hH2, hL2, hH1, hL1]
      exact hp1

theorem renorm_T {Q : Unit → Run σ → Prop} (hS : S.Finite rem) (fuel : Nat) (hf : 17 ≤ fuel)
    (h : KI op oe ob p ws ft r) (ha : avail rem r ≤ a)
    (hQ : ∀ r', KI op oe ob p ws ft r' → avail rem r' ≤ a → Q () r') : wp (renorm S fuel) Q EE NH r :=
  renorm_aux hS hQ fuel 0 r (by omega) (Pc_zero _ _) (by omega) h ha

theorem setModel_fields (st : St σ) (id : MId) (m : Model) :
    (st.setModel id m).oPtr = st.oPtr ∧ (st.setModel id m).oEnd = st.oEnd ∧
    (st.setModel id m).windowSize = st.windowSize ∧ (st.setModel id m).src = st.src ∧
    (st.setModel id m).inputEnd = st.inputEnd := by
  cases id <;> exact ⟨rfl, rfl, rfl, rfl, rfl⟩

theorem getSymbol_T {Q : Nat → Run σ → Prop} (hS : S.Finite rem) (fuel : Nat) (hf : 17 ≤ fuel) (id : MId)
    (h : KI op oe ob p ws ft r) (ha : avail rem r ≤ a)
    (hQ : ∀ v r', KI op oe ob p ws ft r' → avail rem r' ≤ a → Q v r') :
    wp (getSymbol S fuel id) Q EE NH r := by
  unfold getSymbol
  simp only [wp_bind, wp_get]
  have hd := (decodeSym_nh (r.st.model id) r.H r.L r.C).ne
  cases hdec : decodeSym (r.st.model id) r.H r.L r.C with
  | error f =>
    simp only [liftF, wp_throw_fault]
    intro hf; subst hf; exact hd hdec
  | ok o =>
    simp only [liftF, wp_pure, wp_set]
    obtain ⟨e1, e2, e3, e4, e5⟩ := setModel_fields r.st id o.model
    apply renorm_T hS fuel hf (r := { r with st := r.st.setModel id o.model, H := o.H, L := o.L })
      ⟨e1.trans h.1, e2.trans h.2, h.3, h.4, e3.trans h.5, h.6, h.7⟩ (a := a)
    · simp only [avail, e4, e5]
      exact ha
    · intro r2 h2 a2
      exact hQ _ _ h2 a2

/-! ### the window side -/

theorem copyFwd_T {Q : Unit → Run σ → Prop} (n s d : Nat) (h : KI op oe ob p ws ft r) (ha : avail rem r ≤ a)
    (hQ : ∀ r', KI op oe ob p ws ft r' → avail rem r' ≤ a → Q () r') :
    wp (copyFwd n s d : QM σ Unit) Q EE NH r := by
  unfold copyFwd
  simp only [wp_bind, wp_get, wp_ite, wp_throw_fault, wp_pure, wp_modify]
  exact ⟨fun _ => by simp, fun _ => hQ _ ⟨h.1, h.2, h.3, h.4, h.5, h.6, h.7⟩ ha⟩

theorem copyMasked_T {Q : Unit → Run σ → Prop} (n j d : Nat) (h : KI op oe ob p ws ft r) (ha : avail rem r ≤ a)
    (hQ : ∀ r', KI op oe ob p ws ft r' → avail rem r' ≤ a → Q () r') :
    wp (copyMasked n j d : QM σ Unit) Q EE NH r := by
  unfold copyMasked
  simp only [wp_bind, wp_get, wp_ite, wp_throw_fault, wp_pure, wp_modify]
  exact ⟨fun _ => by simp, fun _ => hQ _ ⟨h.1, h.2, h.3, h.4, h.5, h.6, h.7⟩ ha⟩

theorem writeOut_T {Q : Unit → Run σ → Prop} (src n : Nat) (h : KI op oe ob p ws ft r) (ha : avail rem r ≤ a)
    (hQ : ∀ r', KI op oe ob p ws ft r' → avail rem r' ≤ a → Q () r') :
    wp (writeOut src n : QM σ Unit) Q EE NH r := by
  unfold writeOut
  simp only [wp_bind, wp_get, wp_ite, wp_throw_fault, wp_pure, wp_modify]
  exact ⟨fun _ => by simp, fun _ => hQ _ ⟨h.1, h.2, h.3, h.4, h.5, h.6, h.7⟩ ha⟩

theorem tableAt_T {Q : Nat → Run σ → Prop} (what : String) (t : List Nat) (i : Nat)
    (hQ : ∀ v, t[i]? = some v → Q v r) : wp (tableAt what t i : QM σ Nat) Q EE NH r := by
  unfold tableAt
  split
  · rename_i v hv; simp only [wp_pure]; exact hQ v hv
  · simp only [wp_throw_fault]; simp

theorem readOffset_T {Q : Nat → Run σ → Prop} (hS : S.Finite rem) (sym : Nat) (h : KI op oe ob p ws ft r)
    (ha : avail rem r ≤ a) (hQ : ∀ v r', KI op oe ob p ws ft r' → avail rem r' ≤ a → Q v r') :
    wp (readOffset S sym) Q EE NH r := by
  unfold readOffset
  simp only [wp_bind]
  apply tableAt_T
  intro nb _
  apply readManyBits_T hS nb h ha
  intro extra r1 h1 a1 _
  apply tableAt_T
  intro pb _
  simp only [wp_pure]
  exact hQ _ _ h1 a1

theorem lengthExtra_le (i v : Nat) (h : qtmLengthExtra[i]? = some v) : v ≤ 5 := by
  have hi : i < 27 := by
    obtain ⟨hi, _⟩ := List.getElem?_eq_some_iff.mp h
    exact hi
  have := lengthExtra_ok i hi
  rw [h] at this
  simpa using this

theorem lengthBase_le (i v : Nat) (h : qtmLengthBase[i]? = some v) : v ≤ 254 := by
  have hi : i < 27 := by
    obtain ⟨hi, _⟩ := List.getElem?_eq_some_iff.mp h
    exact hi
  have := lengthBase_ok i hi
  rw [h] at this
  simpa using this

/-! ### the symbol loop: every symbol advances `window_posn` -/

theorem symbolLoop_T {Q : Unit → Run σ → Prop} (hS : S.Finite rem) (fuel frameEnd : Nat) (hf : 17 ≤ fuel)
    (hfe : frameEnd ≤ ws) (hlo : 1024 ≤ ws) (hhi : ws ≤ 2097152) :
    ∀ (n p : Nat) (ft : Nat) (r : Run σ), KI op oe ob p ws ft r → avail rem r ≤ a → p ≤ ws → oe ≤ p →
      frameEnd - p ≤ n →
      (∀ r' op' oe' ob' p' ft', KI op' oe' ob' p' ws ft' r' → avail rem r' ≤ a → p' ≤ ws →
        ((op' = op ∧ oe' = oe ∧ ob' = ob ∧ frameEnd ≤ p' ∧ p ≤ p') ∨
         (op' = 0 ∧ oe' = 0 ∧ ws - op ≤ ob ∧ ob' = ob - (ws - op) ∧ oe < ws)) → Q () r') →
      wp (symbolLoop S fuel frameEnd n) Q EE NH r := by
  intro n
  induction n with
  | zero =>
    intro p ft r h ha hp hoe hn hQ
    have hw := h.p
    simp only [symbolLoop, wp_bind, wp_get, wp_ite, wp_throw_fault, wp_pure]
    exact ⟨fun _ => by omega, fun _ => hQ _ _ _ _ _ _ h ha hp (Or.inl ⟨rfl, rfl, rfl, by omega, Nat.le_refl _⟩)⟩
  | succ n ih =>
    intro p ft r h ha hp hoe hn hQ
    have hw := h.p
    rw [symbolLoop]
    simp -zeta only [wp_bind, wp_get]
    rw [wp_ite]
    refine ⟨fun hlt => ?_, fun hge => by
      simp only [wp_pure]
      exact hQ _ _ _ _ _ _ h ha hp (Or.inl ⟨rfl, rfl, rfl, by omega, Nat.le_refl _⟩)⟩
    simp -zeta only [wp_bind]
    apply getSymbol_T hS fuel hf .m7 h ha
    intro sel r1 h1 a1
    rw [wp_ite]
    refine ⟨fun hsel => ?_, fun hsel => ?_⟩
    · extract_lets mid
      simp -zeta only [wp_bind]
      apply getSymbol_T hS fuel hf mid h1 a1
      intro sym r2 h2 a2
      simp only [wp_bind, wp_get, wp_ite, wp_throw_fault, wp_pure, wp_modify]
      refine ⟨fun _ => by simp, fun _ => ?_⟩
      have hw2 := h2.p
      refine ih (p + 1) _ _ ⟨h2.1, h2.2, h2.3, ?_, h2.5, rfl, h2.7⟩
        (avail_le_of a2 rfl rfl rfl rfl) (by omega) (by omega) (by omega) ?_
      · show r2.windowPosn + 1 = p + 1
        omega
      · intro r' op' oe' ob' p' ft' h' a' hp' hc
        refine hQ _ _ _ _ _ _ h' a' hp' ?_
        rcases hc with ⟨c1, c2, c3, c4, c5⟩ | hc
        · exact Or.inl ⟨c1, c2, c3, c4, by omega⟩
        · exact Or.inr hc
    · extract_lets jp
      have hjp : ∀ mo ml r3 ft3, KI op oe ob p ws ft3 r3 → avail rem r3 ≤ a → 3 ≤ ml → ml ≤ 290 →
          wp (jp (mo, ml)) Q EE NH r3 := by
        intro mo ml r3 ft3 h3 a3 hml3 hml
        have hw3 : r3.windowPosn = p := h3.p
        have hws3 : r3.st.windowSize = ws := h3.ws
        have hop3 : r3.st.oPtr = op := h3.op
        have hob3 : r3.outBytes = ob := h3.ob
        have hu := u32_eq
        simp only [jp, wp_bind, wp_get, wp_ite, wp_pure, wp_modify]
        have h4 : KI op oe ob p ws ((r3.frameTodo + u32 - ml % u32) % u32)
            { r3 with frameTodo := (r3.frameTodo + u32 - ml % u32) % u32 } :=
          ⟨h3.1, h3.2, h3.3, h3.4, h3.5, rfl, h3.7⟩
        have a4 : avail rem { r3 with frameTodo := (r3.frameTodo + u32 - ml % u32) % u32 } ≤ a := avail_le_of a3 rfl rfl rfl rfl
        have hmod : (r3.windowPosn + ml) % u32 = r3.windowPosn + ml := Nat.mod_eq_of_lt (by omega)
        rw [hmod]
        refine ⟨fun hwrap => ?_, fun hnw => ?_⟩
        · apply copyMasked_T _ _ _ h4 a4
          intro r5 h5 a5
          have hop5 := h5.op
          have hob5 := h5.ob
          refine ⟨fun _ => fail_T _ (by decide), fun hfl => ?_⟩
          apply writeOut_T _ _ h5 a5
          intro r6 h6 a6
          have hop6 := h6.op
          have hob6 := h6.ob
          apply copyMasked_T _ _ _ (r := { r6 with outBytes := r6.outBytes - (r3.st.windowSize - r5.st.oPtr),
                                                   st := { r6.st with oPtr := 0, oEnd := 0 } })
            (op := 0) (oe := 0) (ob := ob - (ws - op)) (p := p) (ws := ws)
            ⟨rfl, rfl, by show r6.outBytes - (r3.st.windowSize - r5.st.oPtr) = ob - (ws - op); omega, h6.4, h6.5,
              h6.6, h6.7⟩ (a := a) (avail_le_of a6 rfl rfl rfl rfl)
          intro r8 h8 a8
          refine hQ _ 0 0 (ob - (ws - op)) (p + ml - ws) _ ⟨h8.1, h8.2, h8.3, ?_, h8.5, rfl, h8.7⟩
            (avail_le_of a8 rfl rfl rfl rfl) (by omega)
            (Or.inr ⟨rfl, rfl, by omega, rfl, by omega⟩)
          show r3.windowPosn + ml - r3.st.windowSize = p + ml - ws
          omega
        · have fin : ∀ r5 ft5, KI op oe ob p ws ft5 r5 → avail rem r5 ≤ a →
              wp (symbolLoop S fuel frameEnd n) Q EE NH { r5 with windowPosn := r3.windowPosn + ml } := by
            intro r5 ft5 h5 a5
            refine ih (p + ml) _ _ ⟨h5.1, h5.2, h5.3, ?_, h5.5, rfl, h5.7⟩
              (avail_le_of a5 rfl rfl rfl rfl) (by omega) (by omega) (by omega) ?_
            · show r3.windowPosn + ml = p + ml
              omega
            · intro r' op' oe' ob' p' ft' h' a' hp' hc
              refine hQ _ _ _ _ _ _ h' a' hp' ?_
              rcases hc with ⟨c1, c2, c3, c4, c5⟩ | hc
              · exact Or.inl ⟨c1, c2, c3, c4, by omega⟩
              · exact Or.inr hc
          refine ⟨fun hgt => ⟨fun _ => fail_T _ (by decide), fun hj => ⟨fun hjl => ?_, fun hjl => ?_⟩⟩, fun hle => ?_⟩
          · apply copyFwd_T _ _ _ h4 a4
            intro r5 h5 a5
            apply copyFwd_T _ _ _ h5 a5
            intro r6 h6 a6
            exact fin r6 _ h6 a6
          · apply copyFwd_T _ _ _ h4 a4
            intro r5 h5 a5
            exact fin r5 _ h5 a5
          · apply copyFwd_T _ _ _ h4 a4
            intro r5 h5 a5
            exact fin r5 _ h5 a5
      clear_value jp
      simp only [wp_ite, wp_bind, wp_pure]
      refine ⟨fun _ => ?_, fun _ => ⟨fun _ => ?_, fun _ => ⟨fun _ => ?_, fun _ => fail_T _ (by decide)⟩⟩⟩
      · apply getSymbol_T hS fuel hf .m4 h1 a1
        intro sym r2 h2 a2
        apply readOffset_T hS sym h2 a2
        intro mo r3 h3 a3
        exact hjp mo 3 r3 _ h3 a3 (by omega) (by omega)
      · apply getSymbol_T hS fuel hf .m5 h1 a1
        intro sym r2 h2 a2
        apply readOffset_T hS sym h2 a2
        intro mo r3 h3 a3
        exact hjp mo 4 r3 _ h3 a3 (by omega) (by omega)
      · apply getSymbol_T hS fuel hf .m6len h1 a1
        intro sym r2 h2 a2
        apply tableAt_T
        intro nb hnb
        have hnb5 := lengthExtra_le _ nb hnb
        apply readManyBits_T hS nb h2 a2
        intro extra r3 h3 a3 hex
        apply tableAt_T
        intro lb hlb
        have hlb254 := lengthBase_le _ lb hlb
        apply getSymbol_T hS fuel hf .m6 h3 a3
        intro sym' r4 h4 a4
        apply readOffset_T hS sym' h4 a4
        intro mo r5 h5 a5
        refine hjp mo _ r5 _ h5 a5 (by omega) ?_
        have hm : nb % 256 = nb := by omega
        rw [hm] at hex
        have : 2 ^ nb ≤ 2 ^ 5 := Nat.pow_le_pow_right (by omega) hnb5
        omega

/-! ### frames and blocks -/

theorem trailerScan_T {Q : Unit → Run σ → Prop} (hS : S.Finite rem) :
    ∀ (fuel a : Nat) (r : Run σ), KI op oe ob p ws ft r → avail rem r ≤ a → a < 8 * fuel →
      (∀ r', KI op oe ob p ws ft r' → avail rem r' ≤ a → Q () r') → wp (trailerScan S fuel) Q EE NH r := by
  intro fuel
  induction fuel with
  | zero => intro a r _ _ hf; omega
  | succ fuel ih =>
    intro a r h ha hf hQ
    simp only [trailerScan, wp_bind]
    apply readBits_T hS 8 (by omega) h ha
    intro v r1 h1 a1 _ _
    simp only [wp_ite, wp_pure]
    refine ⟨fun _ => ih (a - 8) r1 h1 (by omega) (by omega) fun r' h' a' => hQ r' h' (by omega),
      fun _ => hQ _ h1 (by omega)⟩

/-- the loop-head condition of `blockLoop`'s bound: `2 × bytes still to decode (+ 1 at the window's end)` rounds -/
def Mu (op oe ob p ws n : Nat) : Prop :=
  oe - op < ob → 2 * (ob - (oe - op)) + (if p = ws then 1 else 0) ≤ n

theorem blockLoop_T {Q : Unit → Run σ → Prop} (hS : S.Finite rem) (fuel : Nat) (hf : 17 ≤ fuel) (haf : a < 8 * fuel)
    (hlo : 1024 ≤ ws) (hhi : ws ≤ 2097152)
    (hQ : ∀ r' op' oe' ob' p' ft', KI op' oe' ob' p' ws ft' r' → op' ≤ oe' → oe' = p' → p' ≤ ws → 1 ≤ ft' →
      ft' ≤ 32768 → ob' ≤ oe' - op' → Q () r') :
    ∀ (n op oe ob p ft : Nat) (r : Run σ), KI op oe ob p ws ft r → avail rem r ≤ a → op ≤ oe → oe = p → p ≤ ws →
      1 ≤ ft → ft ≤ 32768 → ob + 2097152 < 4294967296 → Mu op oe ob p ws n →
      wp (blockLoop S fuel n) Q EE NH r := by
  intro n
  induction n with
  | zero =>
    intro op oe ob p ft r h ha hop hoe hp hft1 hft2 hob hmu
    have e1 := h.op; have e2 := h.oe; have e3 := h.ob
    simp only [blockLoop, wp_bind, wp_get, wp_ite, wp_throw_fault, wp_pure]
    refine ⟨fun hc => ?_, fun hc => hQ _ _ _ _ _ _ h hop hoe hp hft1 hft2 (by omega)⟩
    have := hmu (by omega)
    omega
  | succ n ih =>
    intro op oe ob p ft r h ha hop hoe hp hft1 hft2 hob hmu
    have e1 := h.op; have e2 := h.oe; have e3 := h.ob
    rw [blockLoop]
    simp -zeta only [wp_bind, wp_get]
    rw [wp_ite]
    refine ⟨fun hlt => ?_, fun hc => by
      simp only [wp_pure]; exact hQ _ _ _ _ _ _ h hop hoe hp hft1 hft2 (by omega)⟩
    have hmu' : 2 * (ob - (oe - op)) + (if p = ws then 1 else 0) ≤ n + 1 := hmu (by omega)
    have hneed : oe - op < ob := by omega
    extract_lets jpW jpT jpF jpS
    have hFS : qtmFRAME_SIZE = 32768 := rfl
    -- after the frame bookkeeping: the window-wrap test and the next round
    have hW : ∀ u r1 op1 ob1 p1 ft1, KI op1 p1 ob1 p1 ws ft1 r1 → avail rem r1 ≤ a → op1 ≤ p1 → p1 ≤ ws → 1 ≤ ft1 →
        ft1 ≤ 32768 → ob1 + 2097152 < 4294967296 → (p1 - op1 < ob1 → 2 * (ob1 - (p1 - op1)) ≤ n) →
        wp (jpW u) Q EE NH r1 := by
      intro u r1 op1 ob1 p1 ft1 h1 a1 hop1 hp1 hf1 hf2 hob1 hpg
      have f1 := h1.op; have f2 := h1.oe; have f3 := h1.ob; have f4 := h1.p; have f5 := h1.ws
      simp only [jpW, wp_bind, wp_get, wp_ite, wp_pure, wp_modify]
      refine ⟨fun hwrap => ⟨fun hi => hQ _ _ _ _ _ _ h1 hop1 rfl hp1 hf1 hf2 (by omega), fun hi => ?_⟩,
        fun hnw => ih _ _ _ _ _ _ h1 a1 hop1 rfl hp1 hf1 hf2 hob1 ?_⟩
      · apply writeOut_T _ _ h1 a1
        intro r2 h2 a2
        have g1 := h2.op; have g2 := h2.oe; have g3 := h2.ob
        refine ih 0 0 (ob1 - (p1 - op1)) 0 ft1 _ ⟨rfl, rfl, ?_, rfl, h2.5, h2.6, h2.7⟩
          (avail_le_of a2 rfl rfl rfl rfl) (Nat.le_refl _) rfl (Nat.zero_le _) hf1 hf2 (by omega) ?_
        · show r2.outBytes - (r1.st.oEnd - r1.st.oPtr) = ob1 - (p1 - op1)
          omega
        · intro hc
          have : ¬ (0 = ws) := by omega
          rw [if_neg this]
          have := hpg (by omega)
          omega
      · intro hc
        have : ¬ (p1 = ws) := by omega
        rw [if_neg this]
        have := hpg hc
        omega
    have hT : ∀ u r1 op1 ob1 p1 ft1, KI op1 p1 ob1 p1 ws ft1 r1 → avail rem r1 ≤ a → op1 ≤ p1 → p1 ≤ ws →
        ob1 + 2097152 < 4294967296 → (p1 - op1 < ob1 → 2 * (ob1 - (p1 - op1)) ≤ n) →
        wp (jpT u) Q EE NH r1 := by
      intro u r1 op1 ob1 p1 ft1 h1 a1 hop1 hp1 hob1 hpg
      simp only [jpT, wp_bind, wp_modify]
      apply trailerScan_T hS fuel a r1 h1 a1 haf
      intro r2 h2 a2
      exact hW () _ op1 ob1 p1 32768 ⟨h2.1, h2.2, h2.3, h2.4, h2.5, rfl, h2.7⟩ (avail_le_of a2 rfl rfl rfl rfl)
        hop1 hp1 (by omega) (by omega) hob1 hpg
    have hF : ∀ u r1 op1 ob1 p1 ft1, KI op1 p1 ob1 p1 ws ft1 r1 → avail rem r1 ≤ a → op1 ≤ p1 → p1 ≤ ws →
        ft1 ≤ 32768 → ob1 + 2097152 < 4294967296 → (p1 - op1 < ob1 → 2 * (ob1 - (p1 - op1)) ≤ n) →
        wp (jpF u) Q EE NH r1 := by
      intro u r1 op1 ob1 p1 ft1 h1 a1 hop1 hp1 hf2 hob1 hpg
      have f6 := h1.ft
      simp only [jpF, wp_bind, wp_get, wp_ite]
      refine ⟨fun hz => ⟨fun _ => ?_, fun _ => hT () _ _ _ _ _ h1 a1 hop1 hp1 hob1 hpg⟩,
        fun hnz => hW () _ _ _ _ _ h1 a1 hop1 hp1 (by omega) hf2 hob1 hpg⟩
      apply removeBits_T _ h1 a1
      intro r2 h2 a2 _ _ _
      exact hT () _ _ _ _ _ h2 a2 hop1 hp1 hob1 hpg
    have hS' : ∀ u r1, KI op oe ob p ws ft r1 → avail rem r1 ≤ a → wp (jpS u) Q EE NH r1 := by
      intro u r1 h1 a1
      have f1 := h1.op; have f2 := h1.oe; have f3 := h1.ob; have f4 := h1.p; have f5 := h1.ws; have f6 := h1.ft
      have hu := u32_eq
      simp -zeta only [jpS, wp_bind, wp_get]
      extract_lets wpv fe1 fe2 fe3
      have hfe1 : fe1 = p + (ob - (oe - op)) := by
        simp only [fe1, wpv, f1, f2, f3, f4, hu]; omega
      have hfe2 : fe2 = (if p + ft < fe1 then p + ft else fe1) := by
        have hm : (wpv + r1.frameTodo) % u32 = p + ft := by simp only [wpv, f4, f6, hu]; omega
        simp only [fe2, hm]
      have hfe3 : fe3 = (if fe2 > ws then ws else fe2) := by simp only [fe3, f5]
      have hfe : fe3 ≤ ws := by rw [hfe3]; split <;> omega
      have hge : p ≤ fe3 := by rw [hfe3, hfe2, hfe1]; split <;> split <;> omega
      have hgt : p < ws → p < fe3 := by intro _; rw [hfe3, hfe2, hfe1]; split <;> split <;> omega
      clear_value fe1 fe2 fe3
      simp only [wp_bind]
      have hwpv : wpv = p := f4
      rw [hwpv]
      apply symbolLoop_T hS fuel fe3 hf hfe hlo hhi (fe3 - p) p ft r1 h1 a1 hp (by omega) (Nat.le_refl _)
      intro r2 op2 oe2 ob2 p2 ft2 h2 a2 hp2 hcase
      simp only [wp_modify, wp_get, wp_ite, wp_bind]
      have g6 := h2.ft
      have h3 : KI op2 p2 ob2 p2 ws ft2 { r2 with st := { r2.st with oEnd := r2.windowPosn } } :=
        ⟨h2.1, h2.4, h2.3, h2.4, h2.5, h2.6, h2.7⟩
      have a3 : avail rem { r2 with st := { r2.st with oEnd := r2.windowPosn } } ≤ a := avail_le_of a2 rfl rfl rfl rfl
      refine ⟨fun _ => fail_T _ (by decide), fun hle => ?_⟩
      have hft2 : ft2 ≤ 32768 := by
        have : r2.frameTodo ≤ qtmFRAME_SIZE := by omega
        omega
      rcases hcase with ⟨c1, c2, c3, c4, c5⟩ | ⟨c1, c2, c3, c4, c5⟩
      · subst c1 c2 c3
        refine hF () _ _ _ _ _ h3 a3 (by omega) hp2 hft2 hob ?_
        intro hc
        by_cases hpw : p = ws
        · rw [if_pos hpw] at hmu'; omega
        · have := hgt (by omega)
          rw [if_neg hpw] at hmu'; omega
      · subst c1
        refine hF () _ _ _ _ _ h3 a3 (Nat.zero_le _) hp2 hft2 (by omega) ?_
        intro hc
        have hpw : ¬ (p = ws) := by omega
        rw [if_neg hpw] at hmu'
        omega
    clear_value jpS jpF jpT jpW
    simp only [wp_ite, wp_bind, wp_modify]
    refine ⟨fun _ => ?_, fun _ => hS' () _ h ha⟩
    have h0 : KI op oe ob p ws ft { r with H := 65535, L := 0 } := ⟨h.1, h.2, h.3, h.4, h.5, h.6, h.7⟩
    apply readBits_T hS 16 (by omega) h0 (avail_le_of ha rfl rfl rfl rfl)
    intro c r1 h1 a1 _ _
    exact hS' () _ ⟨h1.1, h1.2, h1.3, h1.4, h1.5, h1.6, h1.7⟩ (avail_le_of (a := a) (x := r1) (by omega) rfl rfl rfl rfl)

theorem blockLoop_T2 {Q : Unit → Run σ → Prop} (hS : S.Finite rem) (fuel : Nat) (hf : 17 ≤ fuel) (haf : a < 8 * fuel)
    (hlo : 1024 ≤ ws) (hhi : ws ≤ 2097152)
    (hQ : ∀ r' op' oe' ob' p' ft', KI op' oe' ob' p' ws ft' r' → avail rem r' ≤ a → op' ≤ oe' → oe' = p' → p' ≤ ws → 1 ≤ ft' →
      ft' ≤ 32768 → ob' ≤ oe' - op' → Q () r') :
    ∀ (n op oe ob p ft : Nat) (r : Run σ), KI op oe ob p ws ft r → avail rem r ≤ a → op ≤ oe → oe = p → p ≤ ws →
      1 ≤ ft → ft ≤ 32768 → ob + 2097152 < 4294967296 → Mu op oe ob p ws n →
      wp (blockLoop S fuel n) Q EE NH r := by
  intro n
  induction n with
  | zero =>
    intro op oe ob p ft r h ha hop hoe hp hft1 hft2 hob hmu
    have e1 := h.op; have e2 := h.oe; have e3 := h.ob
    simp only [blockLoop, wp_bind, wp_get, wp_ite, wp_throw_fault, wp_pure]
    refine ⟨fun hc => ?_, fun hc => hQ _ _ _ _ _ _ h ha hop hoe hp hft1 hft2 (by omega)⟩
    have := hmu (by omega)
    omega
  | succ n ih =>
    intro op oe ob p ft r h ha hop hoe hp hft1 hft2 hob hmu
    have e1 := h.op; have e2 := h.oe; have e3 := h.ob
    rw [blockLoop]
    simp -zeta only [wp_bind, wp_get]
    rw [wp_ite]
    refine ⟨fun hlt => ?_, fun hc => by
      simp only [wp_pure]; exact hQ _ _ _ _ _ _ h ha hop hoe hp hft1 hft2 (by omega)⟩
    have hmu' : 2 * (ob - (oe - op)) + (if p = ws then 1 else 0) ≤ n + 1 := hmu (by omega)
    have hneed : oe - op < ob := by omega
    extract_lets jpW jpT jpF jpS
    have hFS : qtmFRAME_SIZE = 32768 := rfl
    -- after the frame bookkeeping: the window-wrap test and the next round
    have hW : ∀ u r1 op1 ob1 p1 ft1, KI op1 p1 ob1 p1 ws ft1 r1 → avail rem r1 ≤ a → op1 ≤ p1 → p1 ≤ ws → 1 ≤ ft1 →
        ft1 ≤ 32768 → ob1 + 2097152 < 4294967296 → (p1 - op1 < ob1 → 2 * (ob1 - (p1 - op1)) ≤ n) →
        wp (jpW u) Q EE NH r1 := by
      intro u r1 op1 ob1 p1 ft1 h1 a1 hop1 hp1 hf1 hf2 hob1 hpg
      have f1 := h1.op; have f2 := h1.oe; have f3 := h1.ob; have f4 := h1.p; have f5 := h1.ws
      simp only [jpW, wp_bind, wp_get, wp_ite, wp_pure, wp_modify]
      refine ⟨fun hwrap => ⟨fun hi => hQ _ _ _ _ _ _ h1 a1 hop1 rfl hp1 hf1 hf2 (by omega), fun hi => ?_⟩,
        fun hnw => ih _ _ _ _ _ _ h1 a1 hop1 rfl hp1 hf1 hf2 hob1 ?_⟩
      · apply writeOut_T _ _ h1 a1
        intro r2 h2 a2
        have g1 := h2.op; have g2 := h2.oe; have g3 := h2.ob
        refine ih 0 0 (ob1 - (p1 - op1)) 0 ft1 _ ⟨rfl, rfl, ?_, rfl, h2.5, h2.6, h2.7⟩
          (avail_le_of a2 rfl rfl rfl rfl) (Nat.le_refl _) rfl (Nat.zero_le _) hf1 hf2 (by omega) ?_
        · show r2.outBytes - (r1.st.oEnd - r1.st.oPtr) = ob1 - (p1 - op1)
          omega
        · intro hc
          have : ¬ (0 = ws) := by omega
          rw [if_neg this]
          have := hpg (by omega)
          omega
      · intro hc
        have : ¬ (p1 = ws) := by omega
        rw [if_neg this]
        have := hpg hc
        omega
    have hT : ∀ u r1 op1 ob1 p1 ft1, KI op1 p1 ob1 p1 ws ft1 r1 → avail rem r1 ≤ a → op1 ≤ p1 → p1 ≤ ws →
        ob1 + 2097152 < 4294967296 → (p1 - op1 < ob1 → 2 * (ob1 - (p1 - op1)) ≤ n) →
        wp (jpT u) Q EE NH r1 := by
      intro u r1 op1 ob1 p1 ft1 h1 a1 hop1 hp1 hob1 hpg
      simp only [jpT, wp_bind, wp_modify]
      apply trailerScan_T hS fuel a r1 h1 a1 haf
      intro r2 h2 a2
      exact hW () _ op1 ob1 p1 32768 ⟨h2.1, h2.2, h2.3, h2.4, h2.5, rfl, h2.7⟩ (avail_le_of a2 rfl rfl rfl rfl)
        hop1 hp1 (by omega) (by omega) hob1 hpg
    have hF : ∀ u r1 op1 ob1 p1 ft1, KI op1 p1 ob1 p1 ws ft1 r1 → avail rem r1 ≤ a → op1 ≤ p1 → p1 ≤ ws →
        ft1 ≤ 32768 → ob1 + 2097152 < 4294967296 → (p1 - op1 < ob1 → 2 * (ob1 - (p1 - op1)) ≤ n) →
        wp (jpF u) Q EE NH r1 := by
      intro u r1 op1 ob1 p1 ft1 h1 a1 hop1 hp1 hf2 hob1 hpg
      have f6 := h1.ft
      simp only [jpF, wp_bind, wp_get, wp_ite]
      refine ⟨fun hz => ⟨fun _ => ?_, fun _ => hT () _ _ _ _ _ h1 a1 hop1 hp1 hob1 hpg⟩,
        fun hnz => hW () _ _ _ _ _ h1 a1 hop1 hp1 (by omega) hf2 hob1 hpg⟩
      apply removeBits_T _ h1 a1
      intro r2 h2 a2 _ _ _
      exact hT () _ _ _ _ _ h2 a2 hop1 hp1 hob1 hpg
    have hS' : ∀ u r1, KI op oe ob p ws ft r1 → avail rem r1 ≤ a → wp (jpS u) Q EE NH r1 := by
      intro u r1 h1 a1
      have f1 := h1.op; have f2 := h1.oe; have f3 := h1.ob; have f4 := h1.p; have f5 := h1.ws; have f6 := h1.ft
      have hu := u32_eq
      simp -zeta only [jpS, wp_bind, wp_get]
      extract_lets wpv fe1 fe2 fe3
      have hfe1 : fe1 = p + (ob - (oe - op)) := by
        simp only [fe1, wpv, f1, f2, f3, f4, hu]; omega
      have hfe2 : fe2 = (if p + ft < fe1 then p + ft else fe1) := by
        have hm : (wpv + r1.frameTodo) % u32 = p + ft := by simp only [wpv, f4, f6, hu]; omega
        simp only [fe2, hm]
      have hfe3 : fe3 = (if fe2 > ws then ws else fe2) := by simp only [fe3, f5]
      have hfe : fe3 ≤ ws := by rw [hfe3]; split <;> omega
      have hge : p ≤ fe3 := by rw [hfe3, hfe2, hfe1]; split <;> split <;> omega
      have hgt : p < ws → p < fe3 := by intro _; rw [hfe3, hfe2, hfe1]; split <;> split <;> omega
      clear_value fe1 fe2 fe3
      simp only [wp_bind]
      have hwpv : wpv = p := f4
      rw [hwpv]
      apply symbolLoop_T hS fuel fe3 hf hfe hlo hhi (fe3 - p) p ft r1 h1 a1 hp (by omega) (Nat.le_refl _)
      intro r2 op2 oe2 ob2 p2 ft2 h2 a2 hp2 hcase
      simp only [wp_modify, wp_get, wp_ite, wp_bind]
      have g6 := h2.ft
      have h3 : KI op2 p2 ob2 p2 ws ft2 { r2 with st := { r2.st with oEnd := r2.windowPosn } } :=
        ⟨h2.1, h2.4, h2.3, h2.4, h2.5, h2.6, h2.7⟩
      have a3 : avail rem { r2 with st := { r2.st with oEnd := r2.windowPosn } } ≤ a := avail_le_of a2 rfl rfl rfl rfl
      refine ⟨fun _ => fail_T _ (by decide), fun hle => ?_⟩
      have hft2 : ft2 ≤ 32768 := by
        have : r2.frameTodo ≤ qtmFRAME_SIZE := by omega
        omega
      rcases hcase with ⟨c1, c2, c3, c4, c5⟩ | ⟨c1, c2, c3, c4, c5⟩
      · subst c1 c2 c3
        refine hF () _ _ _ _ _ h3 a3 (by omega) hp2 hft2 hob ?_
        intro hc
        by_cases hpw : p = ws
        · rw [if_pos hpw] at hmu'; omega
        · have := hgt (by omega)
          rw [if_neg hpw] at hmu'; omega
      · subst c1
        refine hF () _ _ _ _ _ h3 a3 (Nat.zero_le _) hp2 hft2 (by omega) ?_
        intro hc
        have hpw : ¬ (p = ws) := by omega
        rw [if_neg hpw] at hmu'
        omega
    clear_value jpS jpF jpT jpW
    simp only [wp_ite, wp_bind, wp_modify]
    refine ⟨fun _ => ?_, fun _ => hS' () _ h ha⟩
    have h0 : KI op oe ob p ws ft { r with H := 65535, L := 0 } := ⟨h.1, h.2, h.3, h.4, h.5, h.6, h.7⟩
    apply readBits_T hS 16 (by omega) h0 (avail_le_of ha rfl rfl rfl rfl)
    intro c r1 h1 a1 _ _
    exact hS' () _ ⟨h1.1, h1.2, h1.3, h1.4, h1.5, h1.6, h1.7⟩ (avail_le_of (a := a) (x := r1) (by omega) rfl rfl rfl rfl)

/-! ### the whole call -/

/-- what `qtmd_decompress` keeps between calls besides `StInv`, as long as no call has failed: the output pointers
    are in order, `o_end` is where the decoder stands, and the frame counter is in `1 ..= QTM_FRAME_SIZE` -/
structure Sync (st : St σ) : Prop where
  optr : st.oPtr ≤ st.oEnd
  oend : st.oEnd = st.windowPosn
  ftLo : 1 ≤ st.frameTodo
  ftHi : st.frameTodo ≤ 32768

/-- bits a call can still obtain, read off the stream state -/
def stAvail (rem : σ → Nat) (st : St σ) : Nat :=
  st.bitsLeft + 8 * st.inbuf.length + 8 * rem st.src + (if st.inputEnd then 0 else 16)

theorem body_T {Q : Unit → Run σ → Prop} (hS : S.Finite rem) (fuel : Nat) (hf : 17 ≤ fuel) (haf : a < 8 * fuel)
    (hlo : 1024 ≤ ws) (hhi : ws ≤ 2097152) (h : KI op oe ob p ws ft r) (ha : avail rem r ≤ a) (hop : op ≤ oe)
    (hoe : oe = p) (hp : p ≤ ws) (hft1 : 1 ≤ ft) (hft2 : ft ≤ 32768) (hob : ob + 2097152 < 4294967296)
    (hQ : ∀ r', r'.st.oPtr ≤ r'.st.oEnd → r'.st.oEnd = r'.windowPosn → 1 ≤ r'.frameTodo → r'.frameTodo ≤ 32768 →
      Q () r') :
    wp (body S fuel) Q EE NH r := by
  unfold body
  simp only [wp_bind, wp_get]
  have e3 := h.ob
  refine blockLoop_T hS fuel hf haf hlo hhi ?_ _ op oe ob p ft r h ha hop hoe hp hft1 hft2 hob ?_
  · intro r1 op1 oe1 ob1 p1 ft1 h1 hop1 hoe1 hp1 hf1 hf2 hob1
    have f1 := h1.op; have f2 := h1.oe; have f3 := h1.ob; have f4 := h1.p; have f6 := h1.ft
    simp only [wp_get, wp_ite, wp_pure, wp_bind]
    refine ⟨fun hne => ?_, fun _ => hQ _ (by omega) (by omega) (by omega) (by omega)⟩
    apply writeOut_T (rem := rem) (a := avail rem r1) _ _ h1 (Nat.le_refl _)
    intro r2 h2 _
    have g1 := h2.op; have g2 := h2.oe; have g3 := h2.ob; have g4 := h2.p; have g6 := h2.ft
    simp only [wp_modify]
    refine hQ _ ?_ ?_ ?_ ?_
    · show r2.st.oPtr + r2.outBytes ≤ r2.st.oEnd
      omega
    · show r2.st.oEnd = r2.windowPosn
      omega
    · show 1 ≤ r2.frameTodo
      omega
    · show r2.frameTodo ≤ 32768
      omega
  · intro _
    rw [e3]
    split <;> omega

theorem body_T2 {Q : Unit → Run σ → Prop} (hS : S.Finite rem) (fuel : Nat) (hf : 17 ≤ fuel) (haf : a < 8 * fuel)
    (hlo : 1024 ≤ ws) (hhi : ws ≤ 2097152) (h : KI op oe ob p ws ft r) (ha : avail rem r ≤ a) (hop : op ≤ oe)
    (hoe : oe = p) (hp : p ≤ ws) (hft1 : 1 ≤ ft) (hft2 : ft ≤ 32768) (hob : ob + 2097152 < 4294967296)
    (hQ : ∀ r', avail rem r' ≤ a → r'.st.oPtr ≤ r'.st.oEnd → r'.st.oEnd = r'.windowPosn → 1 ≤ r'.frameTodo → r'.frameTodo ≤ 32768 →
      Q () r') :
    wp (body S fuel) Q EE NH r := by
  unfold body
  simp only [wp_bind, wp_get]
  have e3 := h.ob
  refine blockLoop_T2 hS fuel hf haf hlo hhi ?_ _ op oe ob p ft r h ha hop hoe hp hft1 hft2 hob ?_
  · intro r1 op1 oe1 ob1 p1 ft1 h1 a1 hop1 hoe1 hp1 hf1 hf2 hob1
    have f1 := h1.op; have f2 := h1.oe; have f3 := h1.ob; have f4 := h1.p; have f6 := h1.ft
    simp only [wp_get, wp_ite, wp_pure, wp_bind]
    refine ⟨fun hne => ?_, fun _ => hQ _ a1 (by omega) (by omega) (by omega) (by omega)⟩
    apply writeOut_T (rem := rem) (a := a) _ _ h1 a1
    intro r2 h2 a2
    have g1 := h2.op; have g2 := h2.oe; have g3 := h2.ob; have g4 := h2.p; have g6 := h2.ft
    simp only [wp_modify]
    refine hQ _ (avail_le_of a2 rfl rfl rfl rfl) ?_ ?_ ?_ ?_
    · show r2.st.oPtr + r2.outBytes ≤ r2.st.oEnd
      omega
    · show r2.st.oEnd = r2.windowPosn
      omega
    · show 1 ≤ r2.frameTodo
      omega
    · show r2.frameTodo ≤ 32768
      omega
  · intro _
    rw [e3]
    split <;> omega

/-- what a call of `decompress` may end with: never `hang`; and the state it returns is in `Sync` unless the call
    (or an earlier one) failed -/
def DecT (res : Except Fault (DecodeOut (St σ))) : Prop :=
  match res with
  | .ok o => o.st.error = .ok → Sync o.st
  | .error f => f ≠ .hang

theorem decompress_T (hS : S.Finite rem) (fuel : Nat) (st : St σ) (n : Nat) (hI : StInv st)
    (hs : st.error = .ok → Sync st) (hn : n + 2097152 < 4294967296) (hf : 17 ≤ fuel)
    (haf : stAvail rem st < 8 * fuel) : DecT (decompress S fuel st n) := by
  unfold decompress
  split
  · exact hs
  · rename_i herr
    have herr' : st.error = .ok := by simpa using herr
    have hsy := hs herr'
    extract_lets i0 i1 w st1 ob r0
    have hile : i1 ≤ st.oEnd - st.oPtr ∧ i1 ≤ n := by simp only [i1, i0]; split <;> omega
    clear_value i1
    have hsy1 : Sync st1 := ⟨by show st.oPtr + i1 ≤ st.oEnd; have := hsy.optr; omega, hsy.oend, hsy.ftLo, hsy.ftHi⟩
    have hob : ob + 2097152 < 4294967296 := by simp only [ob]; omega
    have hr0 : KI st1.oPtr st.oEnd ob st.windowPosn st.windowSize st.frameTodo r0 :=
      ⟨rfl, rfl, rfl, rfl, rfl, rfl, hI.1.bb⟩
    have ha0 : avail rem r0 ≤ stAvail rem st := Nat.le_refl _
    clear_value w ob
    split
    · simp [DecT]
    · split
      · exact fun _ => hsy1
      · have hb := body_T hS fuel hf haf hI.1.lo hI.1.hi hr0 ha0 hsy1.optr hsy.oend hI.1.posn hsy.ftLo hsy.ftHi hob
          (Q := fun _ r' => r'.st.oPtr ≤ r'.st.oEnd ∧ r'.st.oEnd = r'.windowPosn ∧ 1 ≤ r'.frameTodo ∧
            r'.frameTodo ≤ 32768)
          (fun r' h1 h2 h3 h4 => ⟨h1, h2, h3, h4⟩)
        clear_value r0
        unfold wp at hb
        split
        · rename_i f r' heq
          rw [heq] at hb
          exact hb
        · rename_i e r' heq
          rw [heq] at hb
          exact fun he => absurd he hb
        · rename_i r' heq
          rw [heq] at hb
          exact fun _ => ⟨hb.1, hb.2.1, hb.2.2.1, hb.2.2.2⟩


/-- `DecT` with one more fact about the state a call returns: it can obtain no more bits than the one it started from -/
def DecT2 (rem : σ → Nat) (a : Nat) (res : Except Fault (DecodeOut (St σ))) : Prop :=
  match res with
  | .ok o => o.st.error = .ok → Sync o.st ∧ stAvail rem o.st ≤ a
  | .error f => f ≠ .hang

theorem decompress_T2 (hS : S.Finite rem) (fuel : Nat) (st : St σ) (n : Nat) (hI : StInv st)
    (hs : st.error = .ok → Sync st) (hn : n + 2097152 < 4294967296) (hf : 17 ≤ fuel)
    (haf : stAvail rem st < 8 * fuel) : DecT2 rem (stAvail rem st) (decompress S fuel st n) := by
  unfold decompress
  split
  · exact fun he => ⟨hs he, Nat.le_refl _⟩
  · rename_i herr
    have herr' : st.error = .ok := by simpa using herr
    have hsy := hs herr'
    extract_lets i0 i1 w st1 ob r0
    have hile : i1 ≤ st.oEnd - st.oPtr ∧ i1 ≤ n := by simp only [i1, i0]; split <;> omega
    clear_value i1
    have hsy1 : Sync st1 := ⟨by show st.oPtr + i1 ≤ st.oEnd; have := hsy.optr; omega, hsy.oend, hsy.ftLo, hsy.ftHi⟩
    have hob : ob + 2097152 < 4294967296 := by simp only [ob]; omega
    have hr0 : KI st1.oPtr st.oEnd ob st.windowPosn st.windowSize st.frameTodo r0 :=
      ⟨rfl, rfl, rfl, rfl, rfl, rfl, hI.1.bb⟩
    have ha0 : avail rem r0 ≤ stAvail rem st := Nat.le_refl _
    have hav1 : stAvail rem st1 ≤ stAvail rem st := Nat.le_refl _
    clear_value w ob
    split
    · simp [DecT2]
    · split
      · exact fun _ => ⟨hsy1, hav1⟩
      · have hb := body_T2 hS fuel hf haf hI.1.lo hI.1.hi hr0 ha0 hsy1.optr hsy.oend hI.1.posn hsy.ftLo hsy.ftHi hob
          (Q := fun _ r' => avail rem r' ≤ stAvail rem st ∧ r'.st.oPtr ≤ r'.st.oEnd ∧ r'.st.oEnd = r'.windowPosn ∧
            1 ≤ r'.frameTodo ∧ r'.frameTodo ≤ 32768)
          (fun r' h0 h1 h2 h3 h4 => ⟨h0, h1, h2, h3, h4⟩)
        clear_value r0
        unfold wp at hb
        split
        · rename_i f r' heq
          rw [heq] at hb
          exact hb
        · rename_i e r' heq
          rw [heq] at hb
          exact fun he => absurd he hb
        · rename_i r' heq
          rw [heq] at hb
          refine fun _ => ⟨⟨hb.2.1, hb.2.2.1, hb.2.2.2.1, hb.2.2.2.2⟩, ?_⟩
          have h0 := hb.1
          simp only [avail] at h0
          show r'.bitsLeft % 256 + 8 * r'.inbuf.length + 8 * rem r'.st.src + (if r'.st.inputEnd then 0 else 16) ≤ _
          have := Nat.mod_le r'.bitsLeft 256
          omega

/-! ### the premise on `out_bytes` is needed: a request of 2^32 bytes spins -/

section stuck
variable {σ : Type} (S : Src σ)

/-- `out_bytes = 2^32` with nothing stored up: `frame_end` (an `unsigned int`) comes out as `window_posn`, the symbol
    loop is not entered and the round changes nothing — the block loop runs out of any number of rounds -/
theorem blockLoop_stuck (fuel : Nat) : ∀ (n : Nat) (r : Run σ), r.st.headerRead = true → r.st.oPtr = r.windowPosn →
    r.st.oEnd = r.windowPosn → r.outBytes = 4294967296 → 1 ≤ r.frameTodo → r.frameTodo ≤ 32768 →
    r.windowPosn < r.st.windowSize → r.st.windowSize ≤ 2097152 →
    wp (blockLoop S fuel n) (fun _ _ => False) (fun _ => False) (fun f => f = .hang) r := by
  intro n
  induction n with
  | zero =>
    intro r h1 h2 h3 h4 h5 h6 h7 h8
    simp only [blockLoop, wp_bind, wp_get, wp_ite, wp_throw_fault, wp_pure]
    exact ⟨fun _ => trivial, fun hc => by omega⟩
  | succ n ih =>
    intro r h1 h2 h3 h4 h5 h6 h7 h8
    have hu := u32_eq
    have hFS : qtmFRAME_SIZE = 32768 := rfl
    rw [blockLoop]
    simp -zeta only [wp_bind, wp_get]
    rw [wp_ite]
    refine ⟨fun _ => ?_, fun hc => by omega⟩
    extract_lets jpW jpT jpF jpS
    have hS' : wp (jpS ()) (fun _ _ => False) (fun _ => False) (fun f => f = .hang) r := by
      simp -zeta only [jpS, wp_bind, wp_get]
      extract_lets wpv fe1 fe2 fe3
      have hfe3 : fe3 = r.windowPosn := by
        have e1 : fe1 = r.windowPosn := by simp only [fe1, wpv, h2, h3, h4, hu]; omega
        have e2 : fe2 = r.windowPosn := by
          have hm : (wpv + r.frameTodo) % u32 = r.windowPosn + r.frameTodo := by simp only [wpv, hu]; omega
          simp only [fe2, hm, e1]
          rw [if_neg (by omega)]
        simp only [fe3, e2]
        rw [if_neg (by omega)]
      clear_value fe1 fe2
      have hwpv : wpv = r.windowPosn := rfl
      rw [hfe3, hwpv, Nat.sub_self]
      simp only [symbolLoop, jpF, jpW, wp_bind, wp_get, wp_ite, wp_throw_fault, wp_pure, wp_modify]
      refine ⟨fun hc => by omega, fun _ => ⟨fun hc => by omega, fun _ => ⟨fun hc => by omega, fun _ =>
        ⟨fun hc => by omega, fun _ => ?_⟩⟩⟩⟩
      exact ih _ h1 h2 rfl h4 h5 h6 h7 h8
    clear_value jpS jpF jpT jpW
    simp only [wp_ite, wp_bind, wp_modify, h1]
    exact ⟨fun hc => by simp at hc, fun _ => hS'⟩

/-- … and so does the call, for every fuel -/
theorem decompress_stuck (fuel : Nat) (st : St σ) (he : st.error = .ok) (h1 : st.headerRead = true)
    (h2 : st.oPtr = st.windowPosn) (h3 : st.oEnd = st.windowPosn) (h5 : 1 ≤ st.frameTodo) (h6 : st.frameTodo ≤ 32768)
    (h7 : st.windowPosn < st.windowSize) (h8 : st.windowSize ≤ 2097152) :
    decompress S fuel st 4294967296 = .error .hang := by
  unfold decompress
  rw [if_neg (by simp [he])]
  extract_lets i0 i1 w st1 ob r0
  have hi1 : i1 = 0 := by simp only [i1, i0]; split <;> omega
  have hob : ob = 4294967296 := by simp only [ob, hi1]
  have hst1 : st1.oPtr = st.windowPosn := by show st.oPtr + i1 = _; omega
  rw [if_neg (by omega), if_neg (by omega)]
  have hb : wp (body S fuel) (fun _ _ => False) (fun _ => False) (fun f => f = .hang) r0 := by
    unfold body
    simp only [wp_bind, wp_get]
    exact wp_mono (blockLoop_stuck S fuel _ r0 h1 hst1 h3 hob h5 h6 h7 h8) (fun _ _ hf => hf.elim)
  clear_value r0 w
  unfold wp at hb
  split
  · rename_i f r' heq
    rw [heq] at hb
    rw [hb]
  · rename_i e r' heq
    rw [heq] at hb
    exact hb.elim
  · rename_i r' heq
    rw [heq] at hb
    exact hb.elim

end stuck

end QtmTerm
