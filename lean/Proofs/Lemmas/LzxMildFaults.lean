import Lean
import Proofs.Lemmas.FeederThreadLzx
/-!
# The LZX decoder model raises only its own three kinds of fault

For every source whose `read` raises no fault (plain file handles: `Chm.rdSrc`, `Rd.src`, in-memory
sources), every decoder state — reachable or not — every fuel and every request size, a fault of
`Lzx.decompress` is `oob`, `uninit` or `hang`: never a null dereference, a division by zero or an
over-wide shift (the model has no such site; this is the walk that shows it, with the `Thr` kit of
`FeederThread.lean`, invariant `True`).
-/
namespace MsPack.CabLift.LzxMild
open MsPack MsPack.Generated MsPack.CountLaws MsPack.CabLift MsPack.Lzx

/-- the three kinds of fault the LZX model has sites for -/
def Mild (f : Fault) : Prop := (∃ s, f = .oob s) ∨ (∃ s, f = .uninit s) ∨ f = .hang

theorem Mild.not_nullDeref {f : Fault} (h : Mild f) (w : String) : f ≠ .nullDeref w := by
  rcases h with ⟨_, h⟩ | ⟨_, h⟩ | h <;> (subst h; intro h'; cases h')
theorem Mild.not_divZero {f : Fault} (h : Mild f) : f ≠ .divZero := by
  rcases h with ⟨_, h⟩ | ⟨_, h⟩ | h <;> (subst h; intro h'; cases h')
theorem Mild.not_shiftWidth {f : Fault} (h : Mild f) : f ≠ .shiftWidth := by
  rcases h with ⟨_, h⟩ | ⟨_, h⟩ | h <;> (subst h; intro h'; cases h')

variable {σ : Type}

def MJ (_ : Lzx.St σ) : Prop := True

def MEr : Lzx.Halt → Lzx.St σ → Prop
  | .fault f, _ => Mild f
  | .sys _, _ => True

macro_rules | `(tactic| thr_close) => `(tactic| exact True.intro)
macro_rules | `(tactic| thr_throw_close) => `(tactic| (intro _ _; first
  | exact True.intro
  | exact Or.inl ⟨_, rfl⟩
  | exact Or.inr (Or.inl ⟨_, rfl⟩)
  | exact Or.inr (Or.inr rfl)))

/-! ## the pure parts -/

theorem copyFwd_mild : ∀ n a d (w : Array UInt8) f, copyFwd n a d w = .error f → Mild f := by
  intro n
  induction n with
  | zero => intro a d w f h; rw [copyFwd.eq_1] at h; cases h
  | succ n ih =>
    intro a d w f h
    rw [copyFwd.eq_2] at h
    split at h
    · split at h
      · exact ih _ _ _ _ h
      · cases h; exact Or.inl ⟨_, rfl⟩
    · cases h; exact Or.inl ⟨_, rfl⟩

theorem writeBytes_mild : ∀ (bs : Bytes) d (w : Array UInt8) f, writeBytes bs d w = .error f → Mild f := by
  intro bs
  induction bs with
  | nil => intro d w f h; rw [writeBytes.eq_1] at h; cases h
  | cons b rest ih =>
    intro d w f h
    rw [writeBytes.eq_2] at h
    split at h
    · exact ih _ _ _ h
    · cases h; exact Or.inl ⟨_, rfl⟩

theorem copyAcross_mild (src : Array UInt8) (start : Nat) : ∀ n k (dst : Array UInt8) f,
    copyAcross src start n k dst = .error f → Mild f := by
  intro n
  induction n with
  | zero => intro k dst f h; rw [copyAcross.eq_1] at h; cases h
  | succ n ih =>
    intro k dst f h
    rw [copyAcross.eq_2] at h
    split at h
    · cases h; exact Or.inl ⟨_, rfl⟩
    · split at h
      · exact ih _ _ _ h
      · cases h; exact Or.inl ⟨_, rfl⟩

theorem e8Loop_mild (dataend : Nat) (filesize : Int) : ∀ fuel p curpos (buf : Array UInt8) f,
    e8Loop dataend filesize fuel p curpos buf = .error f → Mild f := by
  intro fuel
  induction fuel with
  | zero =>
    intro p curpos buf f h
    rw [e8Loop.eq_1] at h
    split at h
    · cases h; exact Or.inr (Or.inr rfl)
    · cases h
  | succ fuel ih =>
    intro p curpos buf f h
    rw [e8Loop.eq_2] at h
    split at h
    · split at h
      · cases h; exact Or.inl ⟨_, rfl⟩
      · split at h
        · exact ih _ _ _ _ h
        · dsimp only at h
          split at h
          · exact ih _ _ _ _ h
          · cases h; exact Or.inl ⟨_, rfl⟩
    · cases h

theorem outSlice_mild (st : Lzx.St σ) (n : Nat) (f : Fault) (h : outSlice st n = .error f) : Mild f := by
  unfold outSlice at h
  generalize (if st.oInE8 = true then st.e8Buf else st.window) = a at h
  dsimp only at h
  by_cases hc : st.oPtr + n ≤ a.size
  · rw [if_pos hc] at h; cases h
  · rw [if_neg hc] at h; cases h; exact Or.inl ⟨_, rfl⟩

/-! ## the helpers -/

variable (S : Src σ) (hS : ∀ x n f, S.read x n ≠ .error f)

theorem fail_thr {α : Type} (e : Err) : Thr MJ (MEr (σ := σ)) (fail (σ := σ) (α := α) e) := by
  unfold fail; thr_auto

include hS in
theorem readInput_thr : Thr MJ (MEr (σ := σ)) (readInput S) := by
  unfold readInput
  refine Thr.get_bind_from fun st _ => ?_
  split
  · rename_i f hr
    exact absurd hr (hS _ _ _)
  · dsimp only
    split
    · exact thrFrom_set_throw True.intro
    · split
      · exact thrFrom_set_throw True.intro
      · exact thrFrom_set True.intro
    · exact thrFrom_set True.intro

include hS in
theorem nextByte_thr : Thr MJ (MEr (σ := σ)) (nextByte S) := by
  unfold nextByte; thr_auto [readInput_thr S hS]

include hS in
theorem ensureBits_thr (n : Nat) : ∀ fuel, Thr MJ (MEr (σ := σ)) (ensureBits S n fuel) := by
  intro fuel
  induction fuel with
  | zero => rw [ensureBits.eq_1]; thr_auto
  | succ fuel ih => rw [ensureBits.eq_2]; thr_auto [ih, nextByte_thr S hS]

theorem removeBits_thr (n : Nat) : Thr MJ (MEr (σ := σ)) (removeBits (σ := σ) n) := by
  unfold removeBits; thr_auto

theorem peekBits_thr (n : Nat) : Thr MJ (MEr (σ := σ)) (peekBits (σ := σ) n) := by
  unfold peekBits; thr_auto

include hS in
theorem readBits_thr (n : Nat) : Thr MJ (MEr (σ := σ)) (readBits S n) := by
  unfold readBits; thr_auto [ensureBits_thr S hS, removeBits_thr, peekBits_thr]

include hS in
theorem readHuffSym_thr (t : Option Huff.Canon) (name : String) : Thr MJ (MEr (σ := σ)) (readHuffSym S t name) := by
  unfold readHuffSym; thr_auto [ensureBits_thr S hS, removeBits_thr, fail_thr]

theorem getLen_thr (t : Tree) (x : Nat) : Thr MJ (MEr (σ := σ)) (getLen (σ := σ) t x) := by
  unfold getLen; thr_auto

theorem setLen_thr (t : Tree) (x : Nat) (v : UInt8) : Thr MJ (MEr (σ := σ)) (setLen (σ := σ) t x v) := by
  unfold setLen; thr_auto

theorem fillLens_thr (t : Tree) (v : UInt8) : ∀ y x, Thr MJ (MEr (σ := σ)) (fillLens (σ := σ) t v y x) := by
  intro y
  induction y with
  | zero => intro x; rw [fillLens.eq_1]; thr_auto
  | succ y ih => intro x; rw [fillLens.eq_2]; thr_auto [ih, setLen_thr]

include hS in
theorem readLensLoop_thr (t : Tree) (pre : Huff.Canon) (last : Nat) : ∀ fuel x,
    Thr MJ (MEr (σ := σ)) (readLensLoop S t pre last fuel x) := by
  intro fuel
  induction fuel with
  | zero => intro x; rw [readLensLoop.eq_1]; thr_auto
  | succ fuel ih =>
    intro x; rw [readLensLoop.eq_2]
    thr_auto [ih, readHuffSym_thr S hS, readBits_thr S hS, fillLens_thr, getLen_thr, setLen_thr]

include hS in
theorem readPretreeLens_thr : ∀ k x, Thr MJ (MEr (σ := σ)) (readPretreeLens S k x) := by
  intro k
  induction k with
  | zero => intro x; rw [readPretreeLens.eq_1]; thr_auto
  | succ k ih => intro x; rw [readPretreeLens.eq_2]; thr_auto [ih, readBits_thr S hS]

include hS in
theorem readLengths_thr (fuel : Nat) (t : Tree) (first last : Nat) : Thr MJ (MEr (σ := σ)) (readLengths S fuel t first last) := by
  unfold readLengths; thr_auto [readPretreeLens_thr S hS, readLensLoop_thr S hS, fail_thr]

include hS in
theorem readAlignedLens_thr : ∀ k x, Thr MJ (MEr (σ := σ)) (readAlignedLens S k x) := by
  intro k
  induction k with
  | zero => intro x; rw [readAlignedLens.eq_1]; thr_auto
  | succ k ih => intro x; rw [readAlignedLens.eq_2]; thr_auto [ih, readBits_thr S hS]

include hS in
theorem readRaw_thr : ∀ k acc, Thr MJ (MEr (σ := σ)) (readRaw S k acc) := by
  intro k
  induction k with
  | zero => intro acc; rw [readRaw.eq_1]; thr_auto
  | succ k ih => intro acc; rw [readRaw.eq_2]; thr_auto [ih, nextByte_thr S hS]

include hS in
theorem readBlockHeader_thr (fuel : Nat) : Thr MJ (MEr (σ := σ)) (readBlockHeader S fuel) := by
  unfold readBlockHeader
  thr_auto [nextByte_thr S hS, readBits_thr S hS, readAlignedLens_thr S hS, readLengths_thr S hS,
    getLen_thr, ensureBits_thr S hS, readRaw_thr S hS, fail_thr]

theorem winCopy_thr (n src dst : Nat) : Thr MJ (MEr (σ := σ)) (winCopy (σ := σ) n src dst) := by
  unfold winCopy
  refine Thr.modifyGet_bind (fun r => ∀ f, r = some f → Mild f) (fun st _ => ?_) (fun r hr => ?_)
  · dsimp only
    split
    · exact ⟨True.intro, fun f h => by cases h⟩
    · rename_i f hf
      exact ⟨True.intro, fun f' h => by cases h; exact copyFwd_mild _ _ _ _ _ hf⟩
  · cases r with
    | none => exact Thr.pure _ _ _
    | some f => exact Thr.throw fun _ _ => hr f rfl

theorem putLiteral_thr (b : UInt8) : Thr MJ (MEr (σ := σ)) (putLiteral (σ := σ) b) := by
  unfold putLiteral
  refine Thr.modifyGet_bind (fun _ => True) (fun st _ => ⟨True.intro, True.intro⟩) (fun r _ => ?_)
  thr_auto

include hS in
theorem readOffset_thr (c : RunCtx) (slot : Nat) : Thr MJ (MEr (σ := σ)) (readOffset S c slot) := by
  unfold readOffset; thr_auto [readBits_thr S hS, readHuffSym_thr S hS]

include hS in
theorem readExtraLen_thr : Thr MJ (MEr (σ := σ)) (readExtraLen S) := by
  unfold readExtraLen
  thr_auto [ensureBits_thr S hS, peekBits_thr, removeBits_thr, readBits_thr S hS]

theorem copyMatch_thr (c : RunCtx) (mo ml : Nat) : Thr MJ (MEr (σ := σ)) (copyMatch (σ := σ) c mo ml) := by
  unfold copyMatch; thr_auto [winCopy_thr, fail_thr]

include hS in
theorem decodeRun_thr (c : RunCtx) : ∀ fuel r, Thr MJ (MEr (σ := σ)) (decodeRun S c fuel r) := by
  intro fuel
  induction fuel with
  | zero => intro r; rw [decodeRun.eq_1]; thr_auto
  | succ fuel ih =>
    intro r; rw [decodeRun.eq_2]
    thr_auto [ih, readHuffSym_thr S hS, putLiteral_thr, fail_thr, readOffset_thr S hS,
      readExtraLen_thr S hS, copyMatch_thr]

include hS in
theorem copyRaw_thr : ∀ fuel dest r, Thr MJ (MEr (σ := σ)) (copyRaw S fuel dest r) := by
  intro fuel
  induction fuel with
  | zero => intro dest r; rw [copyRaw.eq_1]; thr_auto
  | succ fuel ih =>
    intro dest r; rw [copyRaw.eq_2]
    split
    · thr_auto
    · refine Thr.get_bind fun st _ => ?_
      split
      · thr_auto [ih, readInput_thr S hS]
      · refine Thr.modifyGet_bind (fun r => ∀ f, r = .error f → Mild f) (fun st _ => ?_) (fun a ha => ?_)
        · dsimp only
          split
          · rename_i f hf
            exact ⟨True.intro, fun f' h => by cases h; exact writeBytes_mild _ _ _ _ hf⟩
          · exact ⟨True.intro, fun f h => by cases h⟩
        · cases a with
          | error f => exact Thr.throw fun _ _ => ha f rfl
          | ok n => exact ih _ _

include hS in
theorem blockLoop_thr : ∀ fuel b, Thr MJ (MEr (σ := σ)) (blockLoop S fuel b) := by
  intro fuel
  induction fuel with
  | zero => intro b; rw [blockLoop.eq_1]; thr_auto
  | succ fuel ih =>
    intro b; rw [blockLoop.eq_2]
    thr_auto [ih, readBlockHeader_thr S hS, decodeRun_thr S hS, copyRaw_thr S hS, fail_thr]

include hS in
theorem frameBody_thr (fuel outBytes : Nat) : Thr MJ (MEr (σ := σ)) (frameBody S fuel outBytes) := by
  unfold frameBody
  thr_auto [ensureBits_thr S hS, removeBits_thr, readBits_thr S hS, readInput_thr S hS,
    blockLoop_thr S hS, fail_thr]
  all_goals (rename_i heq; refine Thr.throw fun _ _ => ?_; first
    | exact outSlice_mild _ _ _ heq
    | exact copyAcross_mild _ _ _ _ _ _ heq
    | exact e8Loop_mild _ _ _ _ _ _ _ heq)

/-! ## the API level -/

include hS in
theorem frameLoop_mild (fuel endFrame : Nat) : ∀ (n : Nat) (st : Lzx.St σ) (outBytes : Nat) (acc : Array UInt8)
    (f : Fault), frameLoop S fuel endFrame n st outBytes acc = .error f → Mild f := by
  intro n
  induction n with
  | zero =>
    intro st outBytes acc f h
    rw [frameLoop.eq_1] at h
    split at h
    · cases h; exact Or.inr (Or.inr rfl)
    · split at h <;> cases h
  | succ n ih =>
    intro st outBytes acc f h
    rw [frameLoop.eq_2] at h
    split at h
    · split at h
      · rename_i f' s heq
        cases h
        exact (frameBody_thr S hS fuel outBytes).out st True.intro _ _ heq
      · cases h
      · exact ih _ _ _ _ h
    · split at h <;> cases h

include hS in
/-- **every fault of `lzxd_decompress` over a fault-free source is `oob`, `uninit` or `hang`** — for every
    decoder state, fuel and request -/
theorem decompress_mild (fuel : Nat) (st : Lzx.St σ) (n : Nat) (f : Fault)
    (h : Lzx.decompress S fuel st n = .error f) : Mild f := by
  unfold Lzx.decompress at h
  split at h
  · cases h
  · dsimp only at h
    split at h
    · rename_i f' ho
      cases h
      exact outSlice_mild _ _ _ ho
    · split at h
      · cases h
      · exact frameLoop_mild S hS fuel _ _ _ _ _ f h

end MsPack.CabLift.LzxMild
