import MsPack.Cab.Find
namespace MsPack.Cab
open MsPack

/-- scanning a concatenation = scanning the first part, then the second from where it stopped -/
theorem scanBuf_append (a b : Bytes) (pos : Nat) (st : ScanSt) :
    scanBuf (a ++ b) pos st =
      match scanBuf a pos st with
      | .inl st' => scanBuf b (pos + a.length) st'
      | .inr h => .inr h := by
  induction a generalizing pos st with
  | nil => simp [scanBuf]
  | cons x xs ih =>
    simp only [List.cons_append, scanBuf]
    cases scanByte st x with
    | cont st' =>
      simp only [ih, List.length_cons]
      have : pos + 1 + xs.length = pos + (xs.length + 1) := by omega
      rw [this]
    | hit cl fo => rfl

/-- the one-buffer scanner: the whole rest of the file in a single buffer -/
def scanAll (file : Bytes) (offset : Nat) (st : ScanSt) : Option Hit :=
  match scanBuf (file.drop offset) offset st with
  | .inl _ => none
  | .inr h => some h

/-- **chunking is invisible**: for every buffer size ≥ 1 the chunked scan equals the one-buffer
    scan (scanner state persists across refills) -/
theorem scanChunks_eq_scanAll (n : Nat) (hn : 1 ≤ n) (file : Bytes) (offset : Nat) (st : ScanSt) :
    scanChunks n file offset st = scanAll file offset st := by
  fun_induction scanChunks n file offset st with
  | case1 offset st hlt length hl =>
    -- `length = 0` is impossible for n ≥ 1 and offset < file.length
    simp only [length] at hl; omega
  | case2 offset st hlt length hl st' hscan ih =>
    rw [ih]
    unfold scanAll
    have hsplit : file.drop offset = (file.drop offset).take length ++ file.drop (offset + length) := by
      rw [← List.drop_drop]; exact (List.take_append_drop _ _).symm
    have hlen : ((file.drop offset).take length).length = length := by
      simp only [List.length_take, List.length_drop, length]; omega
    conv => rhs; rw [hsplit, scanBuf_append, hscan]
    simp only [hlen]
  | case3 offset st hlt length hl hit hscan =>
    unfold scanAll
    have hsplit : file.drop offset = (file.drop offset).take length ++ file.drop (offset + length) := by
      rw [← List.drop_drop]; exact (List.take_append_drop _ _).symm
    rw [hsplit, scanBuf_append, hscan]
  | case4 offset st hge =>
    unfold scanAll
    have : file.drop offset = [] := List.drop_eq_nil_of_le (by omega)
    simp [this, scanBuf]

theorem findLoop_chunk_independent (n m : Nat) (hn : 1 ≤ n) (hm : 1 ≤ m) (sv : Bool) (file : Bytes)
    (start : Nat) (acc : List Cabinet) :
    findLoop n sv file start acc = findLoop m sv file start acc := by
  fun_induction findLoop n sv file start acc with
  | case1 start acc hs =>
    rw [scanChunks_eq_scanAll n hn] at hs
    conv => rhs; unfold findLoop
    rw [scanChunks_eq_scanAll m hm, hs]
  | case2 start acc hit hs off' acc' hat hge =>
    rw [scanChunks_eq_scanAll n hn] at hs
    conv => rhs; unfold findLoop
    rw [scanChunks_eq_scanAll m hm, hs]
    simp only [hat]; simp [hge]
  | case3 start acc hit hs off' acc' hat hge hlt ih =>
    rw [scanChunks_eq_scanAll n hn] at hs
    conv => rhs; unfold findLoop
    rw [scanChunks_eq_scanAll m hm, hs]
    simp only [hat]; simp [hge, hlt, ih]
  | case4 start acc hit hs off' acc' hat hge hlt =>
    rw [scanChunks_eq_scanAll n hn] at hs
    conv => rhs; unfold findLoop
    rw [scanChunks_eq_scanAll m hm, hs]
    simp only [hat]; simp [hge, hlt]

end MsPack.Cab

namespace MsPack.Cab
open MsPack

/-- a candidate is only produced in state 19, and `cont` keeps the state within 0..19 and raises
    it by at most one -/
theorem scanByte_spec (st : ScanSt) (b : UInt8) (h : st.state ≤ 19) :
    (∀ cl fo, scanByte st b = .hit cl fo → st.state = 19) ∧
    (∀ st', scanByte st b = .cont st' → st'.state ≤ 19 ∧ st'.state ≤ st.state + 1) := by
  obtain ⟨s, cl, fo⟩ := st
  simp only at h
  have : s = 0 ∨ s = 1 ∨ s = 2 ∨ s = 3 ∨ s = 4 ∨ s = 5 ∨ s = 6 ∨ s = 7 ∨ s = 8 ∨ s = 9 ∨ s = 10 ∨
      s = 11 ∨ s = 12 ∨ s = 13 ∨ s = 14 ∨ s = 15 ∨ s = 16 ∨ s = 17 ∨ s = 18 ∨ s = 19 := by omega
  rcases this with h | h | h | h | h | h | h | h | h | h | h | h | h | h | h | h | h | h | h | h <;>
    subst h <;> simp [scanByte] <;> (repeat' split) <;> (try simp) <;> (try omega)

/-- a candidate found while scanning from a restart point `start` lies at or after it -/
theorem scanBuf_caboff_ge (buf : Bytes) (pos : Nat) (st : ScanSt) (start : Nat) (h : Hit)
    (hst : st.state ≤ 19) (hinv : start + st.state ≤ pos) (hs : scanBuf buf pos st = .inr h) :
    start ≤ h.caboff := by
  induction buf generalizing pos st with
  | nil => simp [scanBuf] at hs
  | cons b rest ih =>
    have spec := scanByte_spec st b hst
    simp only [scanBuf] at hs
    split at hs
    · rename_i st' hb
      have := spec.2 st' hb
      exact ih (pos + 1) st' this.1 (by omega) hs
    · rename_i cl fo hb
      have := spec.1 cl fo hb
      simp only [Sum.inr.injEq] at hs
      subst hs; simp only; omega

theorem atHit_advances (sv : Bool) (file : Bytes) (hit : Hit) (acc : List Cabinet) :
    hit.caboff < (atHit sv file hit acc).1 := by
  unfold atHit
  split
  · rename_i hp
    split
    · simp only [plausible, Bool.and_eq_true, decide_eq_true_eq] at hp; simp only; omega
    · simp only; omega
  · simp only; omega

/-- `cabd_find` always makes progress: the restart offset is beyond the previous one -/
theorem findLoop_never_hangs (n : Nat) (hn : 1 ≤ n) (sv : Bool) (file : Bytes) (start : Nat)
    (acc : List Cabinet) : (findLoop n sv file start acc).2 = .done := by
  fun_induction findLoop n sv file start acc with
  | case1 => rfl
  | case2 => rfl
  | case3 start acc hit hs off' acc' hat hge hlt ih => exact ih
  | case4 start acc hit hs off' acc' hat hge hlt =>
    exfalso
    rw [scanChunks_eq_scanAll n hn] at hs
    unfold scanAll at hs
    split at hs
    · contradiction
    · rename_i h hsb
      simp only [Option.some.injEq] at hs; subst hs
      have h1 := scanBuf_caboff_ge _ start {} start h (by simp) (by simp) hsb
      have h2 := atHit_advances sv file h acc
      rw [hat] at h2; simp only at h2; omega

/-- everything `atHit` adds to the result parsed as a cabinet at the candidate's offset -/
theorem atHit_sound (sv : Bool) (file : Bytes) (hit : Hit) (acc : List Cabinet)
    (P : Cabinet → Prop) (hacc : ∀ c ∈ acc, P c)
    (hP : ∀ c, readHeaders file hit.caboff sv = .ok c → P c) :
    ∀ c ∈ (atHit sv file hit acc).2, P c := by
  unfold atHit
  split
  · split
    · rename_i c hr
      intro c' hc'
      simp only [List.mem_cons] at hc'
      rcases hc' with rfl | h
      · exact hP _ hr
      · exact hacc _ h
    · exact hacc
  · exact hacc

theorem findLoop_sound (n : Nat) (sv : Bool) (file : Bytes) (start : Nat) (acc : List Cabinet)
    (P : Cabinet → Prop) (hacc : ∀ c ∈ acc, P c)
    (hP : ∀ off c, readHeaders file off sv = .ok c → P c) :
    ∀ c ∈ (findLoop n sv file start acc).1, P c := by
  fun_induction findLoop n sv file start acc with
  | case1 start acc hs => simpa using hacc
  | case2 start acc hit hs off' acc' hat hge =>
    have := atHit_sound sv file hit acc P hacc (hP _)
    rw [hat] at this; simpa using this
  | case3 start acc hit hs off' acc' hat hge hlt ih =>
    have := atHit_sound sv file hit acc P hacc (hP _)
    rw [hat] at this; exact ih this
  | case4 start acc hit hs off' acc' hat hge hlt =>
    have := atHit_sound sv file hit acc P hacc (hP _)
    rw [hat] at this; simpa using this

end MsPack.Cab
