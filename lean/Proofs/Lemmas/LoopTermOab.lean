import Proofs.Lemmas.LoopTerm
import Proofs.Lemmas.LzxTermDef
import Proofs.Lemmas.LoopTermLzx
/-!
# OAB container loops never run out of the fuel the model passes

`copy_fh` gets `bytes_to_copy` rounds (each moves `min(buf_size, todo) ≥ 1` bytes when
`buf_size ≥ 1`; `oabd_param` refuses anything below 16), the two `while (target_size)` loops get
`file length / 16 + 1` rounds (each reads a 16-byte block header from a handle that only moves
forward).  The LZX block decoder enters through a hypothesis (`LzxTerm`, `Proofs/Lemmas/LzxTermDef.lean`):
started with empty buffers on the input file it does not hang itself, and it leaves the input handle
on the same file, not before where it found it.
-/
namespace MsPack.Oab
open MsPack MsPack.Generated

-- (`Adv.refl`, `Adv.trans`: `Proofs/Lemmas/LoopTermLzx.lean`)
theorem Adv.read (r : Rd) (n : Nat) : Adv r (r.read n).2 := ⟨rfl, by rw [Rd.read_pos]; omega⟩

/-! ### `copy_fh` -/

theorem copyFhLoop_adv (toOut : Bool) (bufSize : Nat) : ∀ (fuel : Nat) (rd : Rd) (todo : Nat) (racc : Bytes) (c : CopyOut),
    copyFhLoop toOut bufSize fuel rd todo racc = .ok c → Adv rd c.rd := by
  intro fuel
  induction fuel with
  | zero =>
    intro rd todo racc c h
    rw [copyFhLoop.eq_1] at h
    split at h
    · simp only [Except.ok.injEq] at h; subst h; exact Adv.refl _
    · cases h
  | succ fuel ih =>
    intro rd todo racc c h
    rw [copyFhLoop.eq_2] at h
    split at h
    · simp only [Except.ok.injEq] at h; subst h; exact Adv.refl _
    · simp only at h
      generalize hrun : (if bufSize > todo then todo else bufSize) = run at h
      have hadv := Adv.read rd run
      generalize hrd : rd.read run = p at h hadv
      obtain ⟨got, rd'⟩ := p
      simp only at h hadv
      split at h
      · simp only [Except.ok.injEq] at h; subst h; exact hadv
      · exact hadv.trans (ih _ _ _ _ h)

theorem copyFhLoop_no_hang (toOut : Bool) (bufSize : Nat) (hb : 1 ≤ bufSize) : ∀ (fuel : Nat) (rd : Rd) (todo : Nat) (racc : Bytes),
    todo ≤ fuel → copyFhLoop toOut bufSize fuel rd todo racc ≠ .error .hang := by
  intro fuel
  induction fuel with
  | zero =>
    intro rd todo racc h
    rw [copyFhLoop.eq_1]
    have : todo = 0 := by omega
    simp [this]
  | succ fuel ih =>
    intro rd todo racc h
    rw [copyFhLoop.eq_2]
    split
    · simp
    · rename_i h0
      simp only
      generalize hrun : (if bufSize > todo then todo else bufSize) = run
      have hr1 : 1 ≤ run := by rw [← hrun]; split <;> omega
      generalize hrd : rd.read run = p
      obtain ⟨got, rd'⟩ := p
      simp only
      split
      · simp
      · exact ih _ _ _ (by omega)

/-- `copy_fh` with a buffer of at least one byte never runs out of its `bytes_to_copy` rounds -/
theorem copyFh_no_hang (toOut : Bool) (rd : Rd) (n bufSize : Nat) (hb : 1 ≤ bufSize) :
    copyFh toOut rd n bufSize ≠ .error .hang :=
  copyFhLoop_no_hang toOut bufSize hb n rd n [] (Nat.le_refl _)

theorem copyFh_adv (toOut : Bool) (rd : Rd) (n bufSize : Nat) (c : CopyOut) (h : copyFh toOut rd n bufSize = .ok c) :
    Adv rd c.rd := copyFhLoop_adv toOut bufSize n rd n [] c h

/-! ### the LZX block -/

theorem Lzx.init_src {σ : Type} (src : σ) (wb ri ibs ol : Nat) (d : Bool) (fill : UInt8) (st : Lzx.St σ)
    (h : Lzx.init src wb ri ibs ol d fill = some st) : st.src = src := by
  unfold Lzx.init at h
  cases d <;>
  · simp only [↓reduceIte, Bool.false_eq_true] at h
    split at h
    · cases h
    · split at h
      · cases h
      · split at h
        · cases h
        · simp only [Option.some.injEq] at h
          rw [← h]

theorem lzxInit_src (inOfh : InFile) (wb ibs dsize : Nat) (fill : UInt8) (lzx : Lzx.St InFile)
    (h : lzxInit inOfh wb ibs dsize fill = some lzx) : lzx.src = inOfh := by
  unfold lzxInit at h
  split at h
  · cases h
  · exact Lzx.init_src _ _ _ _ _ _ _ _ h

theorem setReferenceData_src {σ : Type} (st : Lzx.St σ) (length : Nat) (ref : Option Bytes) :
    (Lzx.setReferenceData st length ref).2.src = st.src := by
  unfold Lzx.setReferenceData
  repeat' (first | split | (simp only; split))
  all_goals rfl

theorem Lzx.init_fresh {σ : Type} (src : σ) (wb ri ibs ol : Nat) (d : Bool) (fill : UInt8) (st : Lzx.St σ)
    (h : Lzx.init src wb ri ibs ol d fill = some st) : st.inbuf = [] ∧ st.bits = [] := by
  unfold Lzx.init at h
  cases d <;>
  · simp only [↓reduceIte, Bool.false_eq_true] at h
    split at h
    · cases h
    · split at h
      · cases h
      · split at h
        · cases h
        · simp only [Option.some.injEq] at h
          rw [← h]
          exact ⟨rfl, rfl⟩

/-- `lzxd_init` returns a decoder with an empty input buffer and an empty bit buffer -/
theorem lzxInit_fresh (inOfh : InFile) (wb ibs dsize : Nat) (fill : UInt8) (lzx : Lzx.St InFile)
    (h : lzxInit inOfh wb ibs dsize fill = some lzx) : lzx.inbuf = [] ∧ lzx.bits = [] := by
  unfold lzxInit at h
  split at h
  · cases h
  · exact Lzx.init_fresh _ _ _ _ _ _ _ _ h

/-- `lzxd_set_reference_data` touches neither buffer -/
theorem setReferenceData_fresh {σ : Type} (st : Lzx.St σ) (length : Nat) (ref : Option Bytes) :
    (Lzx.setReferenceData st length ref).2.inbuf = st.inbuf ∧ (Lzx.setReferenceData st length ref).2.bits = st.bits := by
  unfold Lzx.setReferenceData
  repeat' (first | split | (simp only; split))
  all_goals exact ⟨rfl, rfl⟩

/-- what the tail of an LZX block may do: never `hang`; the handle it returns is the decoder's, moved forward -/
def TailGood (rd : Rd) : Except Fault BlockOut → Prop
  | .error f => f ≠ .hang
  | .ok b => Adv rd b.rd

theorem lzxBlockTail_good (fuel bufSize : Nat) (hb : 1 ≤ bufSize) (lzx : Lzx.St InFile)
    (hL : LzxTerm fuel lzx.src.rd.file) (hfresh : lzx.inbuf = [] ∧ lzx.bits = [])
    (dsize crc : Nat) : TailGood lzx.src.rd (lzxBlockTail fuel bufSize lzx dsize crc) := by
  unfold lzxBlockTail
  obtain ⟨hl1, hl2⟩ := hL lzx dsize rfl hfresh.1 hfresh.2
  split
  · rename_i f heq
    simp only [TailGood]
    intro hf; subst hf; exact hl1 heq
  · rename_i o heq
    have hadv := hl2 o heq
    simp only
    split
    · exact hadv
    · have hc1 := copyFh_no_hang false o.st.src.rd o.st.src.available bufSize hb
      split
      · rename_i f heq2
        simp only [TailGood]
        intro hf; subst hf; exact hc1 heq2
      · rename_i c heq2
        have hc2 := copyFh_adv _ _ _ _ _ heq2
        split
        · exact hadv.trans hc2
        · split
          · exact hadv.trans hc2
          · exact hadv.trans hc2

/-! ### the block loops -/

/-- what one round may do: never `hang`; if it goes round again, a 16-byte header has been consumed
    from the same file -/
def RoundGood (rd : Rd) : Except Fault Round → Prop
  | .error f => f ≠ .hang
  | .ok (.done _) => True
  | .ok (.next infh _ _ _) => infh.file = rd.file ∧ rd.pos + 16 ≤ infh.pos ∧ rd.pos + 16 ≤ rd.file.length

theorem readExact16 {rd infh : Rd} {buf : Bytes} (h : rd.readExact 16 = some (buf, infh)) :
    infh.file = rd.file ∧ infh.pos = rd.pos + 16 ∧ rd.pos + 16 ≤ rd.file.length := by
  have h1 := Rd.readExact_file h
  have h2 := Rd.readExact_pos h
  refine ⟨h1, h2.1, ?_⟩
  simp only [Rd.readExact] at h
  split at h
  · rename_i hl
    simp only [Rd.read, List.length_take, List.length_drop] at hl
    omega
  · cases h

theorem fullBlock_good (fuel bufSize : Nat) (hb : 1 ≤ bufSize) (fill : UInt8) (blockMax : Nat)
    (rd : Rd) (hL : LzxTerm fuel rd.file) (t : Nat) (w : Bytes) (res : Except Fault Round)
    (h : fullBlock fuel bufSize fill blockMax rd t w = res) : RoundGood rd res := by
  unfold fullBlock at h
  split at h
  · subst h; trivial
  · rename_i buf infh hre
    have hre' : rd.readExact 16 = some (buf, infh) := hre
    obtain ⟨f1, f2, f3⟩ := readExact16 hre'
    simp only at h
    split at h
    · subst h; trivial
    · split at h
      · split at h
        · subst h; trivial
        · have hc1 := copyFh_no_hang true infh (u32At buf oabblk_UncompSize) bufSize hb
          split at h
          · rename_i f heq
            subst h
            simp only [RoundGood]
            intro hf; subst hf; exact hc1 heq
          · rename_i c heq
            have hc2 := copyFh_adv _ _ _ _ _ heq
            split at h
            · subst h; trivial
            · subst h
              simp only [RoundGood]
              exact ⟨hc2.1.trans f1, by have := hc2.2; omega, f3⟩
      · generalize hli : lzxInit _ _ bufSize _ fill = li at h
        cases li with
        | none => simp only at h; subst h; trivial
        | some lzx =>
          simp only at h
          have hsrc := lzxInit_src _ _ _ _ _ _ hli
          have ht := lzxBlockTail_good fuel bufSize hb lzx (by rw [hsrc]; simp only; rw [f1]; exact hL)
            (lzxInit_fresh _ _ _ _ _ _ hli) (u32At buf oabblk_UncompSize) (u32At buf oabblk_CRC)
          rw [hsrc] at ht
          simp only at ht
          split at h
          · rename_i f heq
            rw [heq] at ht
            subst h
            exact ht
          · rename_i b heq
            rw [heq] at ht
            simp only [TailGood] at ht
            split at h
            · subst h; trivial
            · subst h
              simp only [RoundGood]
              exact ⟨ht.1.trans f1, by have := ht.2; omega, f3⟩

theorem patchBlock_good (fuel bufSize lzxBuf : Nat) (hb : 1 ≤ bufSize) (fill : UInt8)
    (blockMax : Nat) (base : Bytes) (ob : Bool) (rd : Rd) (hL : LzxTerm fuel rd.file) (bp t : Nat) (w : Bytes)
    (res : Except Fault Round)
    (h : patchBlock fuel bufSize lzxBuf fill blockMax base ob rd bp t w = res) : RoundGood rd res := by
  unfold patchBlock at h
  split at h
  · subst h; trivial
  · rename_i buf infh hre
    have hre' : rd.readExact 16 = some (buf, infh) := hre
    obtain ⟨f1, f2, f3⟩ := readExact16 hre'
    simp only at h
    split at h
    · subst h; trivial
    · generalize hli : lzxInit _ _ lzxBuf _ fill = li at h
      cases li with
      | none => simp only at h; subst h; trivial
      | some lzx =>
        simp only at h
        have hsrc := lzxInit_src _ _ _ _ _ _ hli
        have hsr := setReferenceData_src lzx (u32At buf patchblk_SourceSize)
          (some ((⟨if ob then w else base, bp⟩ : Rd).read (u32At buf patchblk_SourceSize)).1)
        have hsf := setReferenceData_fresh lzx (u32At buf patchblk_SourceSize)
          (some ((⟨if ob then w else base, bp⟩ : Rd).read (u32At buf patchblk_SourceSize)).1)
        have hfr := lzxInit_fresh _ _ _ _ _ _ hli
        rw [hfr.1, hfr.2] at hsf
        generalize Lzx.setReferenceData lzx (u32At buf patchblk_SourceSize) _ = sr at h hsr hsf
        split at h
        · subst h; trivial
        · have ht := lzxBlockTail_good fuel bufSize hb sr.2 (by rw [hsr, hsrc]; simp only; rw [f1]; exact hL) hsf
            (u32At buf patchblk_TargetSize) (u32At buf patchblk_CRC)
          rw [hsr, hsrc] at ht
          simp only at ht
          split at h
          · rename_i f heq
            rw [heq] at ht
            subst h
            exact ht
          · rename_i b heq
            rw [heq] at ht
            simp only [TailGood] at ht
            split at h
            · subst h; trivial
            · subst h
              simp only [RoundGood]
              exact ⟨ht.1.trans f1, by have := ht.2; omega, f3⟩

/-- `while (target_size)` of `oabd_decompress`: one more round than 16-byte headers fit into what is
    left of the file suffices -/
theorem fullLoop_no_hang (fuel bufSize : Nat) (hb : 1 ≤ bufSize) (fill : UInt8) (blockMax : Nat) :
    ∀ (n : Nat) (rd : Rd) (t : Nat) (w : Bytes), LzxTerm fuel rd.file → rd.left / 16 + 1 ≤ n →
      fullLoop fuel bufSize fill blockMax n rd t w ≠ .error .hang := by
  intro n
  induction n with
  | zero => intro rd t w _ h; omega
  | succ n ih =>
    intro rd t w hL h
    rw [fullLoop.eq_2]
    split
    · simp
    · have hg := fullBlock_good fuel bufSize hb fill blockMax rd hL t w _ rfl
      split
      · rename_i f heq
        rw [heq] at hg
        simp only [RoundGood] at hg
        simpa using hg
      · simp
      · rename_i infh bp t' w' heq
        rw [heq] at hg
        simp only [RoundGood] at hg
        apply ih
        · rw [hg.1]; exact hL
        simp only [Rd.left] at h ⊢
        rw [hg.1]
        omega

theorem patchLoop_no_hang (fuel bufSize lzxBuf : Nat) (hb : 1 ≤ bufSize) (fill : UInt8)
    (blockMax : Nat) (base : Bytes) (ob : Bool) :
    ∀ (n : Nat) (rd : Rd) (bp t : Nat) (w : Bytes), LzxTerm fuel rd.file → rd.left / 16 + 1 ≤ n →
      patchLoop fuel bufSize lzxBuf fill blockMax base ob n rd bp t w ≠ .error .hang := by
  intro n
  induction n with
  | zero => intro rd bp t w _ h; omega
  | succ n ih =>
    intro rd bp t w hL h
    rw [patchLoop.eq_2]
    split
    · simp
    · have hg := patchBlock_good fuel bufSize lzxBuf hb fill blockMax base ob rd hL bp t w _ rfl
      split
      · rename_i f heq
        rw [heq] at hg
        simp only [RoundGood] at hg
        simpa using hg
      · simp
      · rename_i infh bp' t' w' heq
        rw [heq] at hg
        simp only [RoundGood] at hg
        apply ih
        · rw [hg.1]; exact hL
        simp only [Rd.left] at h ⊢
        rw [hg.1]
        omega

theorem wrapLoop_no_hang (res : Except Fault (Err × Bytes)) (h : res ≠ .error .hang) :
    wrapLoop res ≠ .error .hang := by
  cases res with
  | error f => simp only [wrapLoop]; simpa using h
  | ok p => obtain ⟨e, w⟩ := p; simp [wrapLoop]

/-- `oabd_decompress` never runs out of fuel: its copy loops, its block loop - for every input
    file, buffer size ≥ 1 and LZX decoder that does not hang itself -/
theorem decompress_no_hang (fuel bufSize : Nat) (hb : 1 ≤ bufSize) (fill : UInt8)
    (input : Option Bytes) (outIsIn : Bool) (hL : LzxTerm fuel (if outIsIn then [] else input.getD [])) :
    decompress fuel bufSize fill input outIsIn ≠ .error .hang := by
  unfold decompress
  split
  · simp
  · rename_i file
    split
    · simp
    · rename_i hdr infh hre
      have hre' : (⟨file, 0⟩ : Rd).readExact 16 = some (hdr, infh) := hre
      obtain ⟨f1, f2, f3⟩ := readExact16 hre'
      split
      · simp
      · unfold fullRun
        generalize u32At hdr oabhead_TargetSize = ts
        generalize u32At hdr oabhead_BlockMax = bm
        apply wrapLoop_no_hang
        simp only at f1 f2
        cases outIsIn with
        | true =>
          apply fullLoop_no_hang fuel bufSize hb
          · simpa using hL
          · simp only [↓reduceIte, Rd.left, List.length_nil]; omega
        | false =>
          apply fullLoop_no_hang fuel bufSize hb
          · simpa [f1] using hL
          · simp only [Bool.false_eq_true, ↓reduceIte, Rd.left, f1, f2]
            omega

theorem readExact28 {rd infh : Rd} {buf : Bytes} (h : rd.readExact 28 = some (buf, infh)) :
    infh.file = rd.file ∧ infh.pos = rd.pos + 28 := ⟨Rd.readExact_file h, (Rd.readExact_pos h).1⟩

/-- `oabd_decompress_incremental` never runs out of fuel -/
theorem decompressIncremental_no_hang (fuel bufSize : Nat) (hb : 1 ≤ bufSize) (fill : UInt8)
    (input base : Option Bytes) (outIsIn outIsBase : Bool) (hL : LzxTerm fuel (if outIsIn then [] else input.getD [])) :
    decompressIncremental fuel bufSize fill input base outIsIn outIsBase ≠ .error .hang := by
  unfold decompressIncremental
  split
  · simp
  · rename_i file
    unfold incrementalOpened
    split
    · simp
    · rename_i hdr infh hre
      have hre' : (⟨file, 0⟩ : Rd).readExact 28 = some (hdr, infh) := hre
      obtain ⟨f1, f2⟩ := readExact28 hre'
      split
      · simp
      · unfold incrementalBase
        split
        · simp
        · unfold incrementalLoop
          generalize u32At hdr patchhead_TargetSize = ts
          generalize u32At hdr patchhead_BlockMax = bm
          apply wrapLoop_no_hang
          simp only at f1 f2
          cases outIsIn with
          | true =>
            apply patchLoop_no_hang fuel bufSize 4096 hb
            · simpa using hL
            · simp only [↓reduceIte, Rd.left, List.length_nil]; omega
          | false =>
            apply patchLoop_no_hang fuel bufSize 4096 hb
            · simpa [f1] using hL
            · simp only [Bool.false_eq_true, ↓reduceIte, Rd.left, f1, f2]
              omega

/-- `oabd_decompress` with the fuel the driver passes (16 × input bytes + 100000), unconditionally: the LZX
    decoder's own termination is `C04_lzx_oab_term` (`Proofs/Lemmas/LoopTermLzx.lean`) -/
theorem decompress_driver_no_hang (fuel bufSize : Nat) (hb : 1 ≤ bufSize) (fill : UInt8) (input : Option Bytes)
    (outIsIn : Bool) (hf : 16 * (input.getD []).length + 100000 ≤ fuel) :
    decompress fuel bufSize fill input outIsIn ≠ .error .hang := by
  apply decompress_no_hang fuel bufSize hb
  apply C04_lzx_oab_term
  split
  · simp only [List.length_nil]; omega
  · exact hf

theorem decompressIncremental_driver_no_hang (fuel bufSize : Nat) (hb : 1 ≤ bufSize) (fill : UInt8)
    (input base : Option Bytes) (outIsIn outIsBase : Bool) (hf : 16 * (input.getD []).length + 100000 ≤ fuel) :
    decompressIncremental fuel bufSize fill input base outIsIn outIsBase ≠ .error .hang := by
  apply decompressIncremental_no_hang fuel bufSize hb
  apply C04_lzx_oab_term
  split
  · simp only [List.length_nil]; omega
  · exact hf

/-- `oabd_param` never installs a buffer smaller than 16 bytes: the `1 ≤ bufSize` premise holds for
    every decompressor a client can configure (the default is 4096) -/
theorem param_bufSize (self : Inst) (p v : Int) (h : 16 ≤ self.bufSize) : 16 ≤ (param self p v).2.bufSize := by
  unfold param
  split
  · rename_i hc
    simp only
    omega
  · exact h

end MsPack.Oab
