import MsPack.Cab.Extract
/-!
# C11 — results depend only on the input

The models take the allocator's fill byte as a parameter (`fill`) exactly where the C reads memory
it did not initialise.  Proved here, for every input: the MSZIP decoder state does not depend on
it at all (its window is cleared since f814fba, everything else is written before it is read),
and therefore extraction from stored and MSZIP folders of any cabinet, well-formed or not, is the
same function of the input whatever fresh memory contained.  For Quantum, LZX and KWAJ-LZH the
models still carry the parameter in places the C never reads before writing; that is proved, by
two-run simulation, in `Proofs/Props/C11Decoders.lean` (`C11_lzh_fill_independent`,
`C11_lzx_fill_independent`, `C11_qtm_fill_independent`).
-/
namespace MsPack.C11
open MsPack MsPack.Cab

theorem mszip_init_fill_independent {σ : Type} (src : σ) (n : Nat) (repair : Bool) (f1 f2 : UInt8) :
    Zip.init src n repair f1 = Zip.init src n repair f2 := by
  unfold Zip.init; rfl

theorem initDec_fill_independent (p : Params) (ct : Nat) (f1 f2 : UInt8) (h : compMask ct ≤ 1) :
    initDec { p with fill := f1 } ct = initDec { p with fill := f2 } ct := by
  unfold initDec
  have : compMask ct = 0 ∨ compMask ct = 1 := by omega
  rcases this with h0 | h1
  · simp [h0]
  · simp [h1, mszip_init_fill_independent _ _ _ f1 f2]

/-- extraction from a stored or MSZIP folder, from a fresh decompressor: same result for any two
    fill bytes (status, bytes, and the decoder state left behind) -/
theorem cab_stored_mszip_fill_independent (files : Files) (p : Params) (m : Member) (f1 f2 : UInt8)
    (h : compMask m.compType ≤ 1) :
    extract files { p with fill := f1 } none m = extract files { p with fill := f2 } none m := by
  unfold extract
  have hc : memberCheck { p with fill := f1 } m = memberCheck { p with fill := f2 } m := by
    unfold memberCheck; rfl
  rw [hc]
  cases memberCheck { p with fill := f2 } m with
  | error e => rfl
  | ok v =>
    obtain ⟨filelen, key⟩ := v
    simp only [obtainDState]
    have hf : freshDState files { p with fill := f1 } m key = freshDState files { p with fill := f2 } m key := by
      unfold freshDState
      rw [initDec_fill_independent p m.compType f1 f2 h]
    rw [hf]

end MsPack.C11
