import MsPack.Cab.Headers
import MsPack.Szdd.Decompress
import MsPack.Kwaj.Headers
/-!
# C10 (c) — a file at least as long as the format's header whose signature bytes are wrong is
refused with MSPACK_ERR_SIGNATURE

Proved on the header models of CAB, SZDD and KWAJ for every file content (CHM is checked on the
implementation; OAB has no signature).  Clauses (a) `last_error` synchronisation and (b) single
host failures are fault enumeration on the implementation.
-/
namespace MsPack.C10
open MsPack

theorem readExact_some {file : Bytes} {off n : Nat} (h : off + n ≤ file.length) :
    (⟨file, off⟩ : Rd).readExact n = some ((file.drop off).take n, ⟨file, off + n⟩) := by
  unfold Rd.readExact Rd.read
  have : ((file.drop off).take n).length = n := by simp; omega
  simp [this]

/-- CAB: 36 bytes are there and the first four are not "MSCF" ⇒ SIGNATURE, in either mode -/
theorem cab_signature_refused (file : Bytes) (off : Nat) (salvage : Bool)
    (hlen : off + 36 ≤ file.length)
    (hsig : u32At ((file.drop off).take 36) 0 ≠ 0x4643534D) :
    Cab.readHeaders file off salvage = .error .signature := by
  unfold Cab.readHeaders
  rw [readExact_some hlen]
  simp [hsig]

/-- SZDD: 8 bytes are there and they are neither signature ⇒ SIGNATURE -/
theorem szdd_signature_refused (file : Bytes) (hlen : 8 ≤ file.length)
    (h1 : Szdd.sigMatches (file.take 8) Generated.szddSignatureExpand = false)
    (h2 : Szdd.sigMatches (file.take 8) Generated.szddSignatureQbasic = false) :
    (Szdd.readHeaders ⟨file, 0⟩).1 = .error .signature ∧ (Szdd.open_ (some file)) = (none, .signature) := by
  have hr : (⟨file, 0⟩ : Rd).readExact 8 = some (file.take 8, ⟨file, 8⟩) := by
    have := readExact_some (file := file) (off := 0) (n := 8) (by omega)
    simpa using this
  constructor
  · unfold Szdd.readHeaders; rw [hr]; simp [h1, h2]
  · unfold Szdd.open_ Szdd.readHeaders; simp only; rw [hr]; simp [h1, h2]

/-- KWAJ: the 14 header bytes are there and the two signature words are wrong ⇒ SIGNATURE -/
theorem kwaj_signature_refused (fill : UInt8) (file : Bytes) (hlen : 14 ≤ file.length)
    (hsig : u32At (file.take 14) 0 ≠ 0x4A41574B ∨ u32At (file.take 14) 4 ≠ 0xD127F088) :
    Kwaj.readHeaders fill ⟨file, 0⟩ = .ok (.error .signature, ⟨file, 14⟩) := by
  have hr : (⟨file, 0⟩ : Rd).readExact 14 = some (file.take 14, ⟨file, 14⟩) := by
    have := readExact_some (file := file) (off := 0) (n := 14) (by omega)
    simpa using this
  unfold Kwaj.readHeaders
  have : Generated.kwajhSIZEOF = 14 := rfl
  rw [this, hr]
  simp [hsig]

end MsPack.C10
