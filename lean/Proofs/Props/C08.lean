import MsPack.Cab.Extract
/-!
# C08 — extraction results do not depend on what was extracted before (CAB)

`extract files p d m` takes the instance's cached decoder `d`.  Proved here: whenever the cache
is not re-usable for the request — another folder, a position already past the member's offset
(backward seek), or a dead decoder — the call behaves exactly like the same call on a fresh
instance (`d = none`): same status, same bytes.  The remaining case (forward re-use of a live
decoder of the same folder) needs the chunking law of the stream decoders
(`decompress a; decompress b ≡ decompress (a+b)`), which is not a theorem yet; it is covered by
the `cab.history` correspondence and by the oracle (every call compared with a fresh instance).
-/
namespace MsPack.Cab
open MsPack

/-- what a caller observes of one `extract` call -/
def ExtractResult.observable : ExtractResult → Option (Err × Option Bytes)
  | .done e w _ => some (e, w)
  | .unsupported => none
  | .fault _ => none

/-- the cache is re-used only for the same folder, at or before the requested offset, and alive -/
def reusable (ds : DState) (m : Member) (key : Nat) : Prop :=
  ds.folder = key ∧ ¬ ds.offset > m.offset ∧ ds.dec.isSome

theorem C08_not_reusable_is_fresh (files : Files) (p : Params) (ds : DState) (m : Member)
    (h : ∀ key, m.folderKey = some key → ¬ reusable ds m key) :
    (extract files p (some ds) m).observable = (extract files p none m).observable := by
  unfold extract
  cases hc : memberCheck p m with
  | error e => simp [ExtractResult.observable]
  | ok v =>
    obtain ⟨filelen, key⟩ := v
    have hk : m.folderKey = some key := by
      unfold memberCheck at hc
      simp only at hc
      repeat' split at hc
      all_goals first
        | contradiction
        | (simp only [Except.ok.injEq, Prod.mk.injEq] at hc; simp_all)
    have hnr := h key hk
    simp only [obtainDState]
    unfold reusable at hnr
    rw [if_neg hnr]

/-- in particular a backward seek never re-uses decoder state -/
theorem C08_backward_seek_is_fresh (files : Files) (p : Params) (ds : DState) (m : Member)
    (h : ds.offset > m.offset) :
    (extract files p (some ds) m).observable = (extract files p none m).observable :=
  C08_not_reusable_is_fresh files p ds m (fun _ _ hr => hr.2.1 h)

end MsPack.Cab
