import Proofs.Lemmas.LzssKwajBounds
/-!
# C02 — memory safety: LZSS (lzssd.c), the KWAJ header reader and the KWAJ LZH decoder (kwajd.c)

The models render every array access of the C as a checked access with an explicit
`Fault.oob "<what>"` outcome (`window[pos]`, `window[mpos]`; `*fn++`, `fn--`, `*fn = 0` and the
unterminated-name over-read on the 13-byte file name buffer; `inbuf`, `lens[i]`, `window[…]` in
LZH).  The theorems say those outcomes are never taken, for every input, every buffer size / mode /
fill byte and every fuel.  None of the three models contains a `nullDeref`, `shiftWidth`, `divZero`
or `uninit` site of its own, so the general statements below exclude those as well: the only faults
that can come out of a decoder are `Fault.hang` (the model's fuel ran out) and faults the *source*
(`Src.read`, a parameter of the decoders) returns itself.

Hypotheses on the source, where the source is a parameter:
* `hS` — the source does not itself raise the fault in question (a decoder passes a fault of its
  `read` on unchanged, so this cannot be dropped; every source the models use raises none);
* `Src.Bounded` (LZH only) — `read(buf, n)` delivers at most `n` bytes.  Without it the site
  `"lzh->inbuf (read)"` *is* reachable on the model (witness at the end of this file): it is the
  model's rendering of a host `read` that overruns the buffer it was given.
For the file source `Rd.src` both hold and the statements are unconditional (`…_file_…`).
-/
namespace MsPack

/-- the four undefined-behaviour outcomes C02 is about (plus `uninit`): everything but `hang` -/
def Fault.isUB : Fault → Bool
  | .hang => false
  | _ => true

theorem FaultOK.not_ub {σ : Type} {S : Src σ} {f : Fault} (h : FaultOK S f)
    (hS : ∀ s n, S.read s n ≠ .error f) (hf : f.isUB = true) : False := by
  rcases h with rfl | ⟨s, n, h⟩
  · simp [Fault.isUB] at hf
  · exact hS s n h

end MsPack

/-! ## LZSS -/
namespace MsPack.Lzss
open MsPack MsPack.Generated

variable {σ : Type} (S : Src σ)

/-- every fault `lzss_decompress` can end in is the model's fuel running out or a fault the source's
    `read` raised — for every source, input buffer size, mode and fuel -/
theorem C02_lzss_only_source_faults (fuel : Nat) (src : σ) (inputBufferSize mode : Nat) (f : Fault)
    (h : decompress S fuel src inputBufferSize mode = .error f) :
    f = .hang ∨ ∃ s n, S.read s n = .error f :=
  decompress_fault S fuel src inputBufferSize mode f h

/-- `window[pos]`, `window[mpos]` are never outside the ring -/
theorem C02_lzss_no_oob (hS : ∀ s n w, S.read s n ≠ .error (.oob w))
    (fuel : Nat) (src : σ) (inputBufferSize mode : Nat) (w : String) :
    decompress S fuel src inputBufferSize mode ≠ .error (.oob w) :=
  fun h => (decompress_fault S fuel src inputBufferSize mode _ h).not_ub (fun s n => hS s n w) rfl

theorem C02_lzss_no_nullDeref (hS : ∀ s n w, S.read s n ≠ .error (.nullDeref w))
    (fuel : Nat) (src : σ) (inputBufferSize mode : Nat) (w : String) :
    decompress S fuel src inputBufferSize mode ≠ .error (.nullDeref w) :=
  fun h => (decompress_fault S fuel src inputBufferSize mode _ h).not_ub (fun s n => hS s n w) rfl

theorem C02_lzss_no_shiftWidth (hS : ∀ s n, S.read s n ≠ .error .shiftWidth)
    (fuel : Nat) (src : σ) (inputBufferSize mode : Nat) :
    decompress S fuel src inputBufferSize mode ≠ .error .shiftWidth :=
  fun h => (decompress_fault S fuel src inputBufferSize mode _ h).not_ub hS rfl

theorem C02_lzss_no_divZero (hS : ∀ s n, S.read s n ≠ .error .divZero)
    (fuel : Nat) (src : σ) (inputBufferSize mode : Nat) :
    decompress S fuel src inputBufferSize mode ≠ .error .divZero :=
  fun h => (decompress_fault S fuel src inputBufferSize mode _ h).not_ub hS rfl

/-- on a file (the source SZDD and KWAJ use) no undefined-behaviour outcome at all: unconditional -/
theorem C02_lzss_file_no_ub (fuel : Nat) (r : Rd) (inputBufferSize mode : Nat) (f : Fault)
    (h : decompress Rd.src fuel r inputBufferSize mode = .error f) : f = .hang :=
  (decompress_fault Rd.src fuel r inputBufferSize mode f h).of_faultFree Rd.src_faultFree

theorem C02_lzss_file_no_oob (fuel : Nat) (r : Rd) (inputBufferSize mode : Nat) (w : String) :
    decompress Rd.src fuel r inputBufferSize mode ≠ .error (.oob w) :=
  fun h => nomatch C02_lzss_file_no_ub fuel r inputBufferSize mode _ h

/-- non-vacuity: three literals, a match reaching back into the pre-filled ring, four literals —
    with a 4-byte input buffer, so refills fall inside tokens; returns `MSPACK_ERR_OK` at EOF -/
example : (match decompress Rd.src 100 (⟨[0xF7, 65, 66, 67, 0xEE, 0xF0, 68, 69, 70, 71], 0⟩ : Rd) 4 0 with
           | .ok o => (o.err, o.written)
           | .error _ => (.args, [])) = (.ok, [65, 66, 67, 32, 32, 65, 68, 69, 70, 71]) := by
  decide +kernel

end MsPack.Lzss

/-! ## KWAJ header reader -/
namespace MsPack.Kwaj
open MsPack MsPack.Generated

/-- `kwajd_read_headers` takes no fault outcome at all, for every file, position and allocator fill
    byte: the name (≤ 9 bytes read, ≥ 1 copied), the dot, the extension (≤ 4) and the terminator
    stay inside the 13-byte buffer, `fn--` never steps below its start, and the C string read off
    it afterwards ends inside it -/
theorem C02_kwaj_readHeaders_no_fault (fill : UInt8) (r : Rd) (f : Fault) :
    readHeaders fill r ≠ .error f :=
  readHeaders_no_fault fill r f

theorem C02_kwaj_readHeaders_no_oob (fill : UInt8) (r : Rd) (w : String) :
    readHeaders fill r ≠ .error (.oob w) :=
  readHeaders_no_fault fill r _

/-- … and so `kwajd_open` -/
theorem C02_kwaj_open_no_fault (fill : UInt8) (err : Err) (file : Option Bytes) (f : Fault) :
    open_ fill err file ≠ .error f := by
  unfold open_
  split
  · simp
  · split
    · rename_i heq; exact absurd heq (readHeaders_no_fault _ _ _)
    · simp
    · simp

/-- non-vacuity: a header with both name parts ("abc", "txt"), buffer pre-filled with 0xAA -/
example : (match readHeaders 0xAA ⟨[0x4B, 0x57, 0x41, 0x4A, 0x88, 0xF0, 0x27, 0xD1, 0, 0, 30, 0, 0x18, 0,
                                     0x61, 0x62, 0x63, 0, 0x74, 0x78, 0x74, 0], 0⟩ with
           | .ok (.ok h, r) => (h.filename, r.pos)
           | _ => (none, 0)) = (some [0x61, 0x62, 0x63, 0x2E, 0x74, 0x78, 0x74], 22) := by
  decide +kernel

/-- non-vacuity: the longest names the format allows (8 + 3) fill the buffer to its last byte -/
example : (match readHeaders 0xAA ⟨[0x4B, 0x57, 0x41, 0x4A, 0x88, 0xF0, 0x27, 0xD1, 0, 0, 30, 0, 0x18, 0,
                                     1, 2, 3, 4, 5, 6, 7, 8, 0, 9, 10, 11, 0], 0⟩ with
           | .ok (.ok h, r) => (h.filename, r.pos)
           | _ => (none, 0)) = (some [1, 2, 3, 4, 5, 6, 7, 8, 0x2E, 9, 10, 11], 27) := by
  decide +kernel

end MsPack.Kwaj

/-! ## KWAJ LZH -/
namespace MsPack.Kwaj.Lzh
open MsPack MsPack.Generated

variable {σ : Type} (S : Src σ)

/-- `lzh_init` establishes the invariant (array sizes as declared in `struct kwajd_stream`,
    `pos` inside the ring, `i_end` inside `inbuf`) -/
theorem C02_lzh_init_inv (src : σ) (fill : UInt8) : Inv (init src fill) := init_inv src fill

/-- `lzh_decompress` preserves it, whatever it returns -/
theorem C02_lzh_preserves_inv (hB : S.Bounded) (fuel : Nat) (st : St σ) (h : Inv st) (o : Out σ)
    (he : decompress S fuel st = .ok o) : Inv o.st :=
  decompress_inv hB fuel st h o he

/-- from a state with the invariant, every fault is the fuel or the source's -/
theorem C02_lzh_only_source_faults (hB : S.Bounded) (fuel : Nat) (st : St σ) (h : Inv st) (f : Fault)
    (he : decompress S fuel st = .error f) : f = .hang ∨ ∃ s n, S.read s n = .error f :=
  decompress_fault hB fuel st h f he

/-- `inbuf`, `lens[i]`, `window[pos]`, `window[(pos+4096-offset)&4095]` are never out of bounds -/
theorem C02_lzh_no_oob (hB : S.Bounded) (hS : ∀ s n w, S.read s n ≠ .error (.oob w))
    (fuel : Nat) (st : St σ) (h : Inv st) (w : String) :
    decompress S fuel st ≠ .error (.oob w) :=
  fun he => (decompress_fault hB fuel st h _ he).not_ub (fun s n => hS s n w) rfl

theorem C02_lzh_no_nullDeref (hB : S.Bounded) (hS : ∀ s n w, S.read s n ≠ .error (.nullDeref w))
    (fuel : Nat) (st : St σ) (h : Inv st) (w : String) :
    decompress S fuel st ≠ .error (.nullDeref w) :=
  fun he => (decompress_fault hB fuel st h _ he).not_ub (fun s n => hS s n w) rfl

theorem C02_lzh_no_shiftWidth (hB : S.Bounded) (hS : ∀ s n, S.read s n ≠ .error .shiftWidth)
    (fuel : Nat) (st : St σ) (h : Inv st) : decompress S fuel st ≠ .error .shiftWidth :=
  fun he => (decompress_fault hB fuel st h _ he).not_ub hS rfl

theorem C02_lzh_no_divZero (hB : S.Bounded) (hS : ∀ s n, S.read s n ≠ .error .divZero)
    (fuel : Nat) (st : St σ) (h : Inv st) : decompress S fuel st ≠ .error .divZero :=
  fun he => (decompress_fault hB fuel st h _ he).not_ub hS rfl

/-- the entry point as KWAJ extraction uses it: fresh state, any source position, any fill byte -/
theorem C02_lzh_from_init_no_oob (hB : S.Bounded) (hS : ∀ s n w, S.read s n ≠ .error (.oob w))
    (fuel : Nat) (src : σ) (fill : UInt8) (w : String) :
    decompress S fuel (init src fill) ≠ .error (.oob w) :=
  C02_lzh_no_oob S hB hS fuel _ (init_inv src fill) w

/-- on a file: no undefined-behaviour outcome at all, unconditionally -/
theorem C02_lzh_file_no_ub (fuel : Nat) (r : Rd) (fill : UInt8) (f : Fault)
    (he : decompress Rd.src fuel (init r fill) = .error f) : f = .hang :=
  (decompress_fault Rd.src_bounded fuel _ (init_inv r fill) f he).of_faultFree Rd.src_faultFree

theorem C02_lzh_file_no_oob (fuel : Nat) (r : Rd) (fill : UInt8) (w : String) :
    decompress Rd.src fuel (init r fill) ≠ .error (.oob w) :=
  fun he => nomatch C02_lzh_file_no_ub fuel r fill _ he

/-- any number of successive `lzh_decompress` calls on one stream, each continuing from the state
    the previous one left (fuels given per call) -/
def calls : List Nat → St σ → Except Fault (St σ)
  | [], st => .ok st
  | fuel :: rest, st =>
    match decompress S fuel st with
    | .error f => .error f
    | .ok o => calls rest o.st

theorem C02_lzh_calls_only_source_faults (hB : S.Bounded) : ∀ (fuels : List Nat) (st : St σ), Inv st →
    ∀ f, calls S fuels st = .error f → f = .hang ∨ ∃ s n, S.read s n = .error f
  | [], st, _, f, he => by simp [calls] at he
  | fuel :: rest, st, h, f, he => by
    rw [calls] at he
    split at he
    · rename_i f' heq
      simp only [Except.error.injEq] at he
      subst he
      exact decompress_fault hB fuel st h _ heq
    · rename_i o heq
      exact C02_lzh_calls_only_source_faults hB rest o.st (decompress_inv hB fuel st h o heq) f he

theorem C02_lzh_calls_no_oob (hB : S.Bounded) (hS : ∀ s n w, S.read s n ≠ .error (.oob w))
    (fuels : List Nat) (src : σ) (fill : UInt8) (w : String) :
    calls S fuels (init src fill) ≠ .error (.oob w) :=
  fun he => FaultOK.not_ub (C02_lzh_calls_only_source_faults S hB fuels _ (init_inv src fill) _ he)
    (fun s n => hS s n w) rfl

/-- non-vacuity: five type-0 (fixed length) tables, a run of three literals "ABC", a match of
    length 3 at offset 3, then end of input: writes "ABCABC" and returns `MSPACK_ERR_OK` -/
example : (match decompress Rd.src 100 (init ⟨[0, 0, 0, 0x01, 0x20, 0xa1, 0x21, 0x88, 0x01, 0x80], 0⟩ 0) with
           | .ok o => (o.err, o.written, o.st.pos)
           | .error _ => (.args, [], 0)) = (.ok, [65, 66, 67, 65, 66, 67], 6) := by
  decide +kernel

/-! ### the reachable site: a `read` that overruns its buffer

`Src.Bounded` cannot be dropped: a source whose `read` hands back more than the `n` bytes it was
asked for drives `lzh_read_input` into the model's `"lzh->inbuf (read)"` outcome (in the C, the host
has then written past `inbuf[KWAJ_INPUT_SIZE]` itself). -/

/-- a `read` that delivers 2049 bytes whatever size it was asked for -/
def overrunSrc : Src Unit where
  read _ _ := .ok (some (List.replicate 2049 0), ())

example : (match decompress overrunSrc 100 (init () 0) with
           | .error (.oob w) => w
           | _ => "") = "lzh->inbuf (read)" := by
  decide +kernel

end MsPack.Kwaj.Lzh
