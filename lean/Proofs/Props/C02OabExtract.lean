import Proofs.Lemmas.LzxMildFaults
import MsPack.Oab.Decompress
/-!
# C02 — OAB: `oabd_decompress` and `oabd_decompress_incremental` raise only the LZX model's own faults

The OAB container layer (`copy_fh`, the block headers, the two block loops) has no checked access
of its own besides the loop bounds; its input source for the LZX decoder, `Oab.sysRead`
(`oabd_sys_read`: the plain file handle, clamped to the block's compressed size), never faults.
With `LzxMildFaults.lean` (the LZX model raises only `oob`, `uninit`, `hang`, from any state over a
fault-free source): for every input and base file, buffer size, fill byte and fuel, a fault of
`Oab.decompress` / `Oab.decompressIncremental` is `oob`, `uninit` or `hang` — never a null
dereference, a division by zero or an over-wide shift (`C02_oab_no_ub_but_oob`).

(That the entry points do real work on concrete files: the round-trip examples of `C06.lean`.)

Not excluded here: `oob` (needs the LZX invariant `LzxInv` through `lzxd_init` /
`lzxd_set_reference_data` per block and the bound `blk_dsize < 2^31`, which `block_max`/`target_size`
are 32-bit fields do not give by themselves) and `uninit` (C11).
-/
namespace MsPack.OabLift
open MsPack MsPack.Generated MsPack.Oab MsPack.CabLift.LzxMild

/-- `oabd_sys_read` never faults -/
theorem sysRead_no_fault (x : InFile) (n : Nat) (f : Fault) : Oab.sysRead.read x n ≠ .error f := by
  intro h; simp [Oab.sysRead] at h

/-- a result whose fault, if any, is `oob`, `uninit` or `hang` -/
def RM {α : Type} : Except Fault α → Prop
  | .error f => Mild f
  | .ok _ => True

theorem mild_hang : Mild .hang := Or.inr (Or.inr rfl)

theorem copyFhLoop_mild (toOut : Bool) (bufSize : Nat) : ∀ (fuel : Nat) (rd : Rd) (todo : Nat) (racc : Bytes),
    RM (copyFhLoop toOut bufSize fuel rd todo racc) := by
  intro fuel
  induction fuel with
  | zero =>
    intro rd todo racc
    rw [copyFhLoop.eq_1]
    split
    · trivial
    · exact mild_hang
  | succ fuel ih =>
    intro rd todo racc
    rw [copyFhLoop.eq_2]
    split
    · trivial
    · dsimp only
      generalize (if bufSize > todo then todo else bufSize) = run
      split
      · trivial
      · exact ih _ _ _

theorem copyFh_mild (toOut : Bool) (rd : Rd) (n bufSize : Nat) : RM (copyFh toOut rd n bufSize) := by
  unfold copyFh; exact copyFhLoop_mild _ _ _ _ _ _

theorem lzxBlockTail_mild (fuel bufSize : Nat) (lzx : Lzx.St InFile) (d c : Nat) :
    RM (lzxBlockTail fuel bufSize lzx d c) := by
  unfold lzxBlockTail
  split
  · rename_i f heq
    exact decompress_mild Oab.sysRead sysRead_no_fault fuel lzx d f heq
  · rename_i o heq
    simp only
    split
    · trivial
    · have hc := copyFh_mild false o.st.src.rd o.st.src.available bufSize
      split
      · rename_i f heq2
        rw [heq2] at hc
        exact hc
      · split
        · trivial
        · split <;> trivial

theorem fullBlock_mild (fuel bufSize : Nat) (fill : UInt8) (blockMax : Nat) (rd : Rd) (t : Nat) (w : Bytes)
    (res : Except Fault Round) (h : fullBlock fuel bufSize fill blockMax rd t w = res) : RM res := by
  unfold fullBlock at h
  split at h
  · subst h; trivial
  · rename_i buf infh hre
    simp only at h
    split at h
    · subst h; trivial
    · split at h
      · split at h
        · subst h; trivial
        · have hc := copyFh_mild true infh (u32At buf oabblk_UncompSize) bufSize
          split at h
          · rename_i f heq
            rw [heq] at hc
            subst h
            exact hc
          · split at h <;> (subst h; trivial)
      · generalize lzxInit _ _ bufSize _ fill = li at h
        cases li with
        | none => simp only at h; subst h; trivial
        | some lzx =>
          simp only at h
          have ht := lzxBlockTail_mild fuel bufSize lzx (u32At buf oabblk_UncompSize) (u32At buf oabblk_CRC)
          split at h
          · rename_i f heq
            rw [heq] at ht
            subst h
            exact ht
          · split at h <;> (subst h; trivial)

theorem patchBlock_mild (fuel bufSize lzxBuf : Nat) (fill : UInt8) (blockMax : Nat) (base : Bytes) (ob : Bool)
    (rd : Rd) (bp t : Nat) (w : Bytes) (res : Except Fault Round)
    (h : patchBlock fuel bufSize lzxBuf fill blockMax base ob rd bp t w = res) : RM res := by
  unfold patchBlock at h
  split at h
  · subst h; trivial
  · rename_i buf infh hre
    simp only at h
    split at h
    · subst h; trivial
    · generalize lzxInit _ _ lzxBuf _ fill = li at h
      cases li with
      | none => simp only at h; subst h; trivial
      | some lzx =>
        simp only at h
        generalize Lzx.setReferenceData lzx (u32At buf patchblk_SourceSize) _ = sr at h
        split at h
        · subst h; trivial
        · have ht := lzxBlockTail_mild fuel bufSize sr.2 (u32At buf patchblk_TargetSize) (u32At buf patchblk_CRC)
          split at h
          · rename_i f heq
            rw [heq] at ht
            subst h
            exact ht
          · split at h <;> (subst h; trivial)

theorem fullLoop_mild (fuel bufSize : Nat) (fill : UInt8) (blockMax : Nat) :
    ∀ (n : Nat) (rd : Rd) (t : Nat) (w : Bytes), RM (fullLoop fuel bufSize fill blockMax n rd t w) := by
  intro n
  induction n with
  | zero =>
    intro rd t w
    rw [fullLoop.eq_1]
    split
    · trivial
    · exact mild_hang
  | succ n ih =>
    intro rd t w
    rw [fullLoop.eq_2]
    split
    · trivial
    · have hb := fullBlock_mild fuel bufSize fill blockMax rd t w _ rfl
      split
      · rename_i f heq
        rw [heq] at hb
        exact hb
      · trivial
      · exact ih _ _ _

theorem patchLoop_mild (fuel bufSize lzxBuf : Nat) (fill : UInt8) (blockMax : Nat) (base : Bytes) (ob : Bool) :
    ∀ (n : Nat) (rd : Rd) (bp t : Nat) (w : Bytes),
      RM (patchLoop fuel bufSize lzxBuf fill blockMax base ob n rd bp t w) := by
  intro n
  induction n with
  | zero =>
    intro rd bp t w
    rw [patchLoop.eq_1]
    split
    · trivial
    · exact mild_hang
  | succ n ih =>
    intro rd bp t w
    rw [patchLoop.eq_2]
    split
    · trivial
    · have hb := patchBlock_mild fuel bufSize lzxBuf fill blockMax base ob rd bp t w _ rfl
      split
      · rename_i f heq
        rw [heq] at hb
        exact hb
      · trivial
      · exact ih _ _ _ _

theorem wrapLoop_mild (r : Except Fault (Err × Bytes)) (h : RM r) : RM (wrapLoop r) := by
  cases r with
  | error f => exact h
  | ok v => trivial

/-- **`oabd_decompress`**: every fault is `oob`, `uninit` or `hang` -/
theorem decompress_mild' (fuel bufSize : Nat) (fill : UInt8) (input : Option Bytes) (outIsIn : Bool) :
    RM (Oab.decompress fuel bufSize fill input outIsIn) := by
  unfold Oab.decompress
  split
  · trivial
  · split
    · trivial
    · rename_i hdr infh hre
      split
      · trivial
      · unfold fullRun
        generalize u32At hdr oabhead_TargetSize = ts
        generalize u32At hdr oabhead_BlockMax = bm
        exact wrapLoop_mild _ (fullLoop_mild _ _ _ _ _ _ _ _)

/-- **`oabd_decompress_incremental`**: the same -/
theorem decompressIncremental_mild (fuel bufSize : Nat) (fill : UInt8) (input base : Option Bytes)
    (outIsIn outIsBase : Bool) : RM (Oab.decompressIncremental fuel bufSize fill input base outIsIn outIsBase) := by
  unfold Oab.decompressIncremental
  split
  · trivial
  · unfold incrementalOpened
    split
    · trivial
    · rename_i hdr infh hre
      split
      · trivial
      · unfold incrementalBase
        split
        · trivial
        · unfold incrementalLoop
          generalize u32At hdr patchhead_TargetSize = ts
          generalize u32At hdr patchhead_BlockMax = bm
          exact wrapLoop_mild _ (patchLoop_mild _ _ _ _ _ _ _ _ _ _ _ _)

/-- **C02 for OAB (all kinds but `oob`)**: neither entry point ever yields a null dereference, a
    division by zero or an over-wide shift — any input, base, buffer size, fill byte, fuel -/
theorem C02_oab_no_ub_but_oob (fuel bufSize : Nat) (fill : UInt8) (input base : Option Bytes)
    (outIsIn outIsBase : Bool) :
    (∀ w, Oab.decompress fuel bufSize fill input outIsIn ≠ .error (.nullDeref w)) ∧
    Oab.decompress fuel bufSize fill input outIsIn ≠ .error .divZero ∧
    Oab.decompress fuel bufSize fill input outIsIn ≠ .error .shiftWidth ∧
    (∀ w, Oab.decompressIncremental fuel bufSize fill input base outIsIn outIsBase ≠ .error (.nullDeref w)) ∧
    Oab.decompressIncremental fuel bufSize fill input base outIsIn outIsBase ≠ .error .divZero ∧
    Oab.decompressIncremental fuel bufSize fill input base outIsIn outIsBase ≠ .error .shiftWidth := by
  have h1 := decompress_mild' fuel bufSize fill input outIsIn
  have h2 := decompressIncremental_mild fuel bufSize fill input base outIsIn outIsBase
  refine ⟨fun w h => ?_, fun h => ?_, fun h => ?_, fun w h => ?_, fun h => ?_, fun h => ?_⟩
  · rw [h] at h1; exact Mild.not_nullDeref h1 w rfl
  · rw [h] at h1; exact Mild.not_divZero h1 rfl
  · rw [h] at h1; exact Mild.not_shiftWidth h1 rfl
  · rw [h] at h2; exact Mild.not_nullDeref h2 w rfl
  · rw [h] at h2; exact Mild.not_divZero h2 rfl
  · rw [h] at h2; exact Mild.not_shiftWidth h2 rfl

/-- every fault of either entry point, stated positively -/
theorem C02_oab_faults_mild (fuel bufSize : Nat) (fill : UInt8) (input base : Option Bytes)
    (outIsIn outIsBase : Bool) (f : Fault) :
    (Oab.decompress fuel bufSize fill input outIsIn = .error f → Mild f) ∧
    (Oab.decompressIncremental fuel bufSize fill input base outIsIn outIsBase = .error f → Mild f) := by
  refine ⟨fun h => ?_, fun h => ?_⟩
  · have := decompress_mild' fuel bufSize fill input outIsIn; rw [h] at this; exact this
  · have := decompressIncremental_mild fuel bufSize fill input base outIsIn outIsBase; rw [h] at this; exact this

end MsPack.OabLift
