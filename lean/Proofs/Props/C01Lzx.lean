import Proofs.Lemmas.LzxRoundFrame
import Proofs.Props.C01Mszip
/-!
# C01 — LZX: a stream of uncompressed blocks written by the specification writer is decoded to exactly its data

`MsPack/Spec/LzxEncode.lean` (`LzxEnc.encUncompressed blocks delta`) is the specification of an LZX
stream (LZX DELTA if `delta`) whose blocks are all UNCOMPRESSED: the one-bit Intel header (0), per
block the 3-bit type, the 24-bit length, the padding to the next 16-bit boundary, R0 R1 R2, the raw
bytes, a pad byte after an odd-sized block; in a DELTA stream every 32768-byte frame is preceded by
its 16-bit chunk-size word, wherever in a block the frame starts.

The theorems are about `Lzx.decompress` (the model of `lzxd_decompress`) on a stream freshly made by
`Lzx.init` (`lzxd_init`) with the output length declared, reset interval 0: for every window size
`init` accepts (15..21 bits, 17..25 for DELTA; the output may be many windows long), every input
buffer size, every source that hands out the file in pieces of any size (`Zip.Feeds`), whatever
follows the stream in the file:

* `C01_lzx_uncompressed_roundtrip` (`…_src`, `…_chunked`): any non-empty list of blocks (each
  1 .. 2^24-1 bytes, below 2 GiB together): one call asking for the whole length returns OK and has
  written exactly the concatenated blocks.
* `C01_lzx_uncompressed_roundtrip_calls`: the same in any number of calls whose sizes add up to the
  length (any split, calls of 0 bytes included).

Fuel: `blocks.length + 65538` (a frame's raw copy takes at most two loop iterations per byte).

Not covered: verbatim / aligned-offset blocks (no theorem yet), E8 translation (header bit 1), a
reset interval other than 0 (the stream would restart with a new header at each reset), reference
data, streams whose length is not declared to `init`, outputs of 2 GiB and more.

Remark on the layout: after an odd-sized block that ends exactly where a frame ends, lzxd.c reads the
next frame's chunk-size word (LZX DELTA) *before* it skips the block's pad byte; the writer puts the
pad byte first.  Both are zero bytes here, and the decoder looks at neither value, so the streams
coincide (`pad_mark_comm`).
-/
namespace MsPack.Lzx
open MsPack MsPack.Generated
variable {σ : Type}

/-! ## the initial state -/

theorem flatten_pos {blocks : List Bytes} (hne : blocks ≠ []) (hB : BOk blocks) : 1 ≤ blocks.flatten.length := by
  cases blocks with
  | nil => exact absurd rfl hne
  | cons b bs =>
    have := (hB b (List.mem_cons_self ..)).1
    show 1 ≤ (b ++ bs.flatten).length
    rw [List.length_append]; omega

/-- `lzxd_init` on a source that holds the writer's stream establishes the invariant of the round trip -/
theorem init_G (content : σ → Bytes) (blocks : List Bytes) (delta : Bool) (extra : Bytes) (hne : blocks ≠ [])
    (hB : BOk blocks) (src : σ) (hsrc : content src = LzxEnc.encUncompressed blocks delta ++ extra)
    (windowBits inputBufferSize : Nat) (fill : UInt8) (st : St σ)
    (h : init src windowBits 0 inputBufferSize blocks.flatten.length delta fill = some st) :
    G content delta (extra ++ [0, 0]) blocks.flatten blocks.length st ∧ st.offset = 0 := by
  have hpos := flatten_pos hne hB
  unfold init at h
  cases delta
  all_goals
    simp only [Bool.false_eq_true, if_false, if_true] at h
    split at h
    · contradiction
    · rename_i hbits
      split at h
      · contradiction
      · rename_i hibs
        split at h
        · contradiction
        · rename_i slots hslots
          simp only [Option.some.injEq] at h
          have hwb : 15 ≤ windowBits ∧ windowBits ≤ 25 := by
            simp only [Bool.not_eq_true', decide_eq_false_iff_not, Classical.not_not] at hbits
            omega
          obtain ⟨p1, p2, p3⟩ := pow_facts windowBits hwb.1 hwb.2
          subst h
          refine ⟨?_, rfl⟩
          exact
            { err := rfl, len := rfl
              win := by simp only [Array.size_replicate]
              dvd := p2, wsLe := p1, dl := rfl, ri := rfl
              ibs := by show 1 ≤ (inputBufferSize + 1) / 2 * 2; omega
              ple := Nat.le_refl _
              tle := Nat.zero_le _
              e8 := fun _ => ⟨rfl, rfl⟩
              pend := fun h => by cases h
              more := fun _ => by
                refine ⟨Nat.zero_mul _, rfl, rfl, p3, [], blocks, rfl, hB, by decide, by unfold cnt; simp, rfl, Or.inr ?_⟩
                cases blocks with
                | nil => exact absurd rfl hne
                | cons b bs' =>
                  refine ⟨rfl, rfl, rfl, (by show (0 : Nat) ≠ 3; decide), b, bs', rfl, ?_⟩
                  show [] ++ content src ++ [0, 0] = _
                  rw [hsrc, LzxEnc.encUncompressed, encBlocks_cons]
                  simp only [List.nil_append, List.append_assoc, LzxEnc.frameSize]
              fin := fun h => by
                have : 0 + (0 - 0) = blocks.flatten.length := h
                omega }

/-! ## one call -/

/-- **uncompressed blocks, any source, one call** -/
theorem C01_lzx_uncompressed_roundtrip_src (S : Src σ) (content : σ → Bytes) (hF : Zip.Feeds S content)
    (hN : ∀ s, S.lzxLength s = none) (blocks : List Bytes) (delta : Bool) (extra : Bytes)
    (hne : blocks ≠ []) (hB : ∀ b ∈ blocks, 1 ≤ b.length ∧ b.length < 16777216)
    (hn : blocks.flatten.length < 2147483648)
    (src : σ) (hsrc : content src = LzxEnc.encUncompressed blocks delta ++ extra)
    (windowBits inputBufferSize : Nat) (fill : UInt8) (st : St σ)
    (hinit : init src windowBits 0 inputBufferSize blocks.flatten.length delta fill = some st)
    (fuel : Nat) (hfuel : blocks.length + 65538 ≤ fuel) :
    ∃ st', decompress S fuel st blocks.flatten.length = .ok ⟨.ok, blocks.flatten, st'⟩ := by
  obtain ⟨g, h0⟩ := init_G content blocks delta extra hne hB src hsrc windowBits inputBufferSize fill st hinit
  obtain ⟨st', hr, _, _⟩ := decompress_tot hF hN delta _ blocks.flatten hn (flatten_pos hne hB) blocks.length fuel hfuel
    st blocks.flatten.length g (by rw [h0]; omega)
  refine ⟨st', ?_⟩
  rw [hr, h0, List.drop_zero, List.take_length]

/-! ## several calls -/

/-- `decompress` called for `sizes` bytes one call after the other, as long as the calls return OK:
    status of the last call made, everything written, the state afterwards -/
def decompressCalls (S : Src σ) (fuel : Nat) : St σ → List Nat → Except Fault (Err × Bytes × St σ)
  | st, [] => .ok (.ok, [], st)
  | st, c :: cs =>
    match decompress S fuel st c with
    | .error f => .error f
    | .ok o =>
      if o.err ≠ .ok then .ok (o.err, o.written, o.st)
      else match decompressCalls S fuel o.st cs with
        | .error f => .error f
        | .ok (e, w, s) => .ok (e, o.written ++ w, s)

theorem calls_tot (S : Src σ) (content : σ → Bytes) (hF : Zip.Feeds S content) (hN : ∀ s, S.lzxLength s = none)
    (delta : Bool) (extra D : Bytes) (hn : D.length < 2147483648) (hn1 : 1 ≤ D.length) (k fuel : Nat)
    (hfuel : k + 65538 ≤ fuel) : ∀ (sizes : List Nat) (st : St σ), G content delta extra D k st →
    st.offset + sizes.sum ≤ D.length →
    ∃ st', decompressCalls S fuel st sizes = .ok (.ok, (D.drop st.offset).take sizes.sum, st')
  | [], st, _, _ => ⟨st, by simp [decompressCalls]⟩
  | c :: cs, st, g, ho => by
    rw [List.sum_cons] at ho
    obtain ⟨s1, hr, g1, ho1⟩ := decompress_tot hF hN delta extra D hn hn1 k fuel hfuel st c g (by omega)
    obtain ⟨st', hr'⟩ := calls_tot S content hF hN delta extra D hn hn1 k fuel hfuel cs s1 g1 (by rw [ho1]; omega)
    refine ⟨st', ?_⟩
    rw [decompressCalls, hr]
    simp only [ne_eq, not_true_eq_false, if_false, hr']
    rw [ho1, List.sum_cons, ← List.drop_drop, List.take_add]

/-- **uncompressed blocks, any source, any number of calls** whose sizes add up to the length -/
theorem C01_lzx_uncompressed_roundtrip_calls_src (S : Src σ) (content : σ → Bytes) (hF : Zip.Feeds S content)
    (hN : ∀ s, S.lzxLength s = none) (blocks : List Bytes) (delta : Bool) (extra : Bytes)
    (hne : blocks ≠ []) (hB : ∀ b ∈ blocks, 1 ≤ b.length ∧ b.length < 16777216)
    (hn : blocks.flatten.length < 2147483648)
    (src : σ) (hsrc : content src = LzxEnc.encUncompressed blocks delta ++ extra)
    (windowBits inputBufferSize : Nat) (fill : UInt8) (st : St σ)
    (hinit : init src windowBits 0 inputBufferSize blocks.flatten.length delta fill = some st)
    (fuel : Nat) (hfuel : blocks.length + 65538 ≤ fuel)
    (sizes : List Nat) (hsum : sizes.sum = blocks.flatten.length) :
    ∃ st', decompressCalls S fuel st sizes = .ok (.ok, blocks.flatten, st') := by
  obtain ⟨g, h0⟩ := init_G content blocks delta extra hne hB src hsrc windowBits inputBufferSize fill st hinit
  obtain ⟨st', hr⟩ := calls_tot S content hF hN delta _ blocks.flatten hn (flatten_pos hne hB) blocks.length fuel hfuel
    sizes st g (by rw [h0, hsum]; omega)
  refine ⟨st', ?_⟩
  rw [hr, h0, hsum, List.drop_zero, List.take_length]

/-! ## on the file handle, and on a source that delivers pieces of prescribed sizes -/

/-- **C01, LZX, uncompressed blocks**: the stream anywhere in a file, one call for the whole length -/
theorem C01_lzx_uncompressed_roundtrip (blocks : List Bytes) (delta : Bool) (extra : Bytes)
    (hne : blocks ≠ []) (hB : ∀ b ∈ blocks, 1 ≤ b.length ∧ b.length < 16777216)
    (hn : blocks.flatten.length < 2147483648)
    (file : Bytes) (pos : Nat) (hfile : file.drop pos = LzxEnc.encUncompressed blocks delta ++ extra)
    (windowBits inputBufferSize : Nat) (fill : UInt8) (st : St Rd)
    (hinit : init (⟨file, pos⟩ : Rd) windowBits 0 inputBufferSize blocks.flatten.length delta fill = some st)
    (fuel : Nat) (hfuel : blocks.length + 65538 ≤ fuel) :
    ∃ st', decompress Rd.src fuel st blocks.flatten.length = .ok ⟨.ok, blocks.flatten, st'⟩ :=
  C01_lzx_uncompressed_roundtrip_src Rd.src _ Zip.Rd.src_feeds (fun _ => rfl) blocks delta extra hne hB hn ⟨file, pos⟩
    hfile windowBits inputBufferSize fill st hinit fuel hfuel

/-- the same on a source that delivers the file in pieces of arbitrary prescribed sizes -/
theorem C01_lzx_uncompressed_roundtrip_chunked (blocks : List Bytes) (delta : Bool) (extra : Bytes)
    (hne : blocks ≠ []) (hB : ∀ b ∈ blocks, 1 ≤ b.length ∧ b.length < 16777216)
    (hn : blocks.flatten.length < 2147483648) (pieces : List Nat)
    (windowBits inputBufferSize : Nat) (fill : UInt8) (st : St (List Nat × Bytes))
    (hinit : init (pieces, LzxEnc.encUncompressed blocks delta ++ extra) windowBits 0 inputBufferSize
      blocks.flatten.length delta fill = some st)
    (fuel : Nat) (hfuel : blocks.length + 65538 ≤ fuel) :
    ∃ st', decompress Zip.chunkSrc fuel st blocks.flatten.length = .ok ⟨.ok, blocks.flatten, st'⟩ :=
  C01_lzx_uncompressed_roundtrip_src Zip.chunkSrc _ Zip.chunkSrc_feeds (fun _ => rfl) blocks delta extra hne hB hn _ rfl
    windowBits inputBufferSize fill st hinit fuel hfuel

/-- **C01, LZX, uncompressed blocks, several calls**: any split of the length into call sizes -/
theorem C01_lzx_uncompressed_roundtrip_calls (blocks : List Bytes) (delta : Bool) (extra : Bytes)
    (hne : blocks ≠ []) (hB : ∀ b ∈ blocks, 1 ≤ b.length ∧ b.length < 16777216)
    (hn : blocks.flatten.length < 2147483648)
    (file : Bytes) (pos : Nat) (hfile : file.drop pos = LzxEnc.encUncompressed blocks delta ++ extra)
    (windowBits inputBufferSize : Nat) (fill : UInt8) (st : St Rd)
    (hinit : init (⟨file, pos⟩ : Rd) windowBits 0 inputBufferSize blocks.flatten.length delta fill = some st)
    (fuel : Nat) (hfuel : blocks.length + 65538 ≤ fuel)
    (sizes : List Nat) (hsum : sizes.sum = blocks.flatten.length) :
    ∃ st', decompressCalls Rd.src fuel st sizes = .ok (.ok, blocks.flatten, st') :=
  C01_lzx_uncompressed_roundtrip_calls_src Rd.src _ Zip.Rd.src_feeds (fun _ => rfl) blocks delta extra hne hB hn
    ⟨file, pos⟩ hfile windowBits inputBufferSize fill st hinit fuel hfuel sizes hsum

theorem C01_lzx_uncompressed_roundtrip_calls_chunked (blocks : List Bytes) (delta : Bool) (extra : Bytes)
    (hne : blocks ≠ []) (hB : ∀ b ∈ blocks, 1 ≤ b.length ∧ b.length < 16777216)
    (hn : blocks.flatten.length < 2147483648) (pieces : List Nat)
    (windowBits inputBufferSize : Nat) (fill : UInt8) (st : St (List Nat × Bytes))
    (hinit : init (pieces, LzxEnc.encUncompressed blocks delta ++ extra) windowBits 0 inputBufferSize
      blocks.flatten.length delta fill = some st)
    (fuel : Nat) (hfuel : blocks.length + 65538 ≤ fuel)
    (sizes : List Nat) (hsum : sizes.sum = blocks.flatten.length) :
    ∃ st', decompressCalls Zip.chunkSrc fuel st sizes = .ok (.ok, blocks.flatten, st') :=
  C01_lzx_uncompressed_roundtrip_calls_src Zip.chunkSrc _ Zip.chunkSrc_feeds (fun _ => rfl) blocks delta extra hne hB hn
    _ rfl windowBits inputBufferSize fill st hinit fuel hfuel sizes hsum

/-! ## the premises are satisfiable, and the writer's output is what the model reads -/

/-- `init` accepts every window size of the format and every input buffer size -/
theorem init_some (src : σ) (windowBits inputBufferSize n : Nat) (delta : Bool) (fill : UInt8)
    (hw : if delta then 17 ≤ windowBits ∧ windowBits ≤ 25 else 15 ≤ windowBits ∧ windowBits ≤ 21)
    (hi : 1 ≤ inputBufferSize) : ∃ st, init src windowBits 0 inputBufferSize n delta fill = some st := by
  have hwb : 15 ≤ windowBits ∧ windowBits ≤ 25 := by cases delta <;> simp at hw <;> omega
  have hs : ∃ slots, lzxPositionSlots[windowBits - 15]? = some slots := by
    have : windowBits - 15 < lzxPositionSlots.length := by
      simp only [lzxPositionSlots, List.length_cons, List.length_nil]; omega
    exact ⟨_, List.getElem?_eq_getElem this⟩
  obtain ⟨slots, hs⟩ := hs
  unfold init
  simp only [hs]
  cases delta
  · simp only [Bool.false_eq_true, if_false] at hw ⊢
    rw [if_neg (by simp [hw]), if_neg (by omega)]
    exact ⟨_, rfl⟩
  · simp only [if_true] at hw ⊢
    rw [if_neg (by simp [hw]), if_neg (by omega)]
    exact ⟨_, rfl⟩

/-- the stream of a 3-byte and a 2-byte block -/
example : LzxEnc.encUncompressed [[0x61, 0x62, 0x63], [0x64, 0x65]] false =
    [0x00, 0x30, 0x30, 0x00, 1, 0, 0, 0, 1, 0, 0, 0, 1, 0, 0, 0, 0x61, 0x62, 0x63, 0,
     0x00, 0x60, 0x40, 0x00, 1, 0, 0, 0, 1, 0, 0, 0, 1, 0, 0, 0, 0x64, 0x65] := by decide +kernel

/-- LZX DELTA: the chunk-size word in front -/
example : LzxEnc.encUncompressed [[0x61]] true =
    [0, 0, 0x00, 0x30, 0x10, 0x00, 1, 0, 0, 0, 1, 0, 0, 0, 1, 0, 0, 0, 0x61, 0] := by decide +kernel

/-- the model on the writer's output, 2-byte reads, three calls -/
def sampleRun : Option (Err × Bytes) :=
  (init (σ := Rd) ⟨LzxEnc.encUncompressed [[0x61, 0x62, 0x63], [0x64, 0x65]] false ++ [9, 9], 0⟩ 15 0 1 5 false 0xAA).bind
    fun st =>
      match decompressCalls Rd.src 70000 st [1, 0, 4] with
      | .ok (e, w, _) => some (e, w)
      | .error _ => none

example : sampleRun = some (.ok, [0x61, 0x62, 0x63, 0x64, 0x65]) := by decide +kernel

end MsPack.Lzx
