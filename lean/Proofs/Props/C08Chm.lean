import Proofs.Props.C07Chm
/-!
# C08 for CHM — what `chmd_extract` returns for a stored member does not depend on what was extracted before

`chmd_extract` keeps one `mschmd_decompress_state` (`Inst.d`) between calls: the header it belongs to (`d->chm`), the
open input handle, and for the compressed section the LZX decoder with its position.  For a member of section 0 the
call looks at exactly one thing of that cache: *which file* the cached handle is on, if the cache belongs to the same
header (the seek is absolute, the decoder is not touched).  So:

* `C08_chm_sec0_history_free` — for **every** instance state `inst` whose cached handle, if it belongs to the header of
  the call, is on that header's file and the file exists (`C08CacheOK`; nothing is assumed about handles of other
  headers, positions, the LZX decoder, `inst.error`): status and bytes are those of a fresh decompressor.
* `C08CacheG` is the session form of that premise (`name key` = the file name header `key` was opened under); a fresh
  instance has it (`C08CacheG.fresh`), it implies `C08CacheOK` for every call (`C08CacheG.local`), and every
  section-0 call keeps it (`c08_sec0_keeps`).
* `C08_chm_any_order_sec0` — any list of section-0 extractions, members of several CHM files mixed, any order,
  failing calls included, cache threaded: each call returns its fresh-instance result.
* The premise is needed (last example): the model passes header identity and header separately, and an instance whose
  cache claims `key` but holds a handle on another file reads that other file.  In C the identity *is* the header
  pointer, and `d->infh` was opened under `chm->filename`.
-/
namespace MsPack.Chm
open MsPack MsPack.Generated

/-- what the caller sees of one `chmd_extract` call: the status and the bytes in the output file -/
def c08Obs : ExtractResult → Option (Err × Option Bytes)
  | .done ret _ _ out => some (ret, out)
  | _ => none

/-- the section-0 tail only looks at the *name* of the cached input handle (the seek is absolute) -/
theorem c08_sec0Tail_obs (files : Files) (hdr : Header) (d d' : DState) (h h' : InFh) (hd : d.infh = some h)
    (hd' : d'.infh = some h') (hn : h'.name = h.name) (offset length : Int) :
    c08Obs (sec0Tail files hdr d' offset length) = c08Obs (sec0Tail files hdr d offset length) := by
  unfold sec0Tail
  by_cases hl : length = 0
  · rw [if_pos hl, if_pos hl]; rfl
  · rw [if_neg hl, if_neg hl]
    simp only [hd, hd', infhBytes, hn]
    generalize (files.lookup h.name).getD [] = file
    generalize wrapI64 (hdr.sec0Offset + offset) = pos
    unfold seekAbs
    simp only [Rd.seekStart]
    by_cases hp : pos < 0
    · rw [if_pos hp]; rfl
    · rw [if_neg hp]
      simp only
      generalize copyLoop (file.length / 512 + 2) ⟨file, pos.toNat⟩ length [] = res
      obtain ⟨err, out, r'⟩ := res
      cases err <;> rfl

/-- what the section-0 tail leaves in the instance -/
theorem c08_sec0Tail_inst (files : Files) (hdr : Header) (d : DState) (offset length : Int) :
    (∃ e d' out, sec0Tail files hdr d offset length = .done e ⟨e, some d'⟩ hdr out ∧ d'.chm = d.chm ∧
      (∀ h', d'.infh = some h' → ∃ h, d.infh = some h ∧ h'.name = h.name)) ∨
    (∃ f, sec0Tail files hdr d offset length = .fault f) := by
  unfold sec0Tail
  by_cases hl : length = 0
  · rw [if_pos hl]; exact Or.inl ⟨_, d, _, rfl, rfl, fun h' hh => ⟨h', hh, rfl⟩⟩
  · rw [if_neg hl]
    cases hd : d.infh with
    | none => simp only [hd]; exact Or.inr ⟨_, rfl⟩
    | some h =>
      simp only [infhBytes, hd]
      generalize (files.lookup h.name).getD [] = file
      generalize wrapI64 (hdr.sec0Offset + offset) = pos
      unfold seekAbs
      by_cases hp : pos < 0
      · rw [if_pos hp]; exact Or.inl ⟨_, d, _, rfl, rfl, fun h' hh => ⟨h, rfl, by rw [hd] at hh; cases hh; rfl⟩⟩
      · rw [if_neg hp]
        simp only [Rd.seekStart]
        generalize copyLoop (file.length / 512 + 2) ⟨file, pos.toNat⟩ length [] = res
        obtain ⟨err, out, r'⟩ := res
        cases err with
        | none => exact Or.inl ⟨_, _, _, rfl, rfl, fun h' hh => ⟨h, rfl, by cases hh; rfl⟩⟩
        | some e => exact Or.inl ⟨_, _, _, rfl, rfl, fun h' hh => ⟨h, rfl, by cases hh; rfl⟩⟩

/-- `chmd_extract` on a section-0 member: either the cached handle is re-used, or the file named in the header is
    opened (or cannot be) -/
theorem c08_extract_sec0_cases (files : Files) (fill : UInt8) (inst : Inst) (key : Nat) (hdr : Header)
    (offset length : Int) :
    (∃ d h, inst.d = some d ∧ d.infh = some h ∧ d.chm = key ∧
        extract files fill inst key hdr 0 offset length = sec0Tail files hdr d offset length) ∨
    ((∀ d h, inst.d = some d → d.infh = some h → d.chm ≠ key) ∧
      ((∃ d, files.lookup hdr.filename = none ∧
          extract files fill inst key hdr 0 offset length = .done .open_ ⟨.open_, some d⟩ hdr none ∧ d.infh = none) ∨
       (∃ b d, files.lookup hdr.filename = some b ∧ d.infh = some ⟨hdr.filename, 0⟩ ∧ d.chm = key ∧
          extract files fill inst key hdr 0 offset length = sec0Tail files hdr d offset length))) := by
  unfold extract
  obtain ⟨ierr, id⟩ := inst
  cases id with
  | none =>
    refine Or.inr ⟨fun _ _ h _ => (by cases h), ?_⟩
    simp only [Option.isNone_none, true_or, ↓reduceIte]
    cases hlk : files.lookup hdr.filename with
    | none => exact Or.inl ⟨_, rfl, rfl, rfl⟩
    | some file => exact Or.inr ⟨file, _, rfl, rfl, rfl, rfl⟩
  | some d0 =>
    obtain ⟨chm0, len0, off0, inoff0, st0, infh0⟩ := d0
    by_cases hre : (infh0.isNone ∨ chm0 ≠ key)
    · refine Or.inr ⟨fun d h hd hh => ?_, ?_⟩
      · cases hd
        simp only at hh
        subst hh
        simpa using hre
      · simp only [hre, ↓reduceIte]
        cases hlk : files.lookup hdr.filename with
        | none => exact Or.inl ⟨_, rfl, rfl, rfl⟩
        | some file => exact Or.inr ⟨file, _, rfl, rfl, rfl, rfl⟩
    · cases infh0 with
      | none => exact absurd (.inl rfl) hre
      | some h0 =>
        have hk : chm0 = key := by
          simp only [Option.isNone_some, Bool.false_eq_true, ne_eq, false_or, Decidable.not_not] at hre
          exact hre
        refine Or.inl ⟨_, h0, rfl, rfl, hk, ?_⟩
        simp only [hre, ↓reduceIte]
        rfl

/-- the decompressor's cache as far as the next call (header identity `key`, opened under `fname`) is concerned: a
    cached input handle that belongs to this header was opened on the header's file, and that file exists -/
def C08CacheOK (files : Files) (fname : String) (key : Nat) (inst : Inst) : Prop :=
  ∀ d h, inst.d = some d → d.infh = some h → d.chm = key → h.name = fname ∧ (files.lookup fname).isSome

/-- **C08 (CHM, section 0), one call**: whatever the decompressor has cached — another header's handle, this
    header's handle at any position, an LZX decoder in any state, an error code — extracting a stored member returns the
    status and the bytes a fresh decompressor returns -/
theorem C08_chm_sec0_history_free (files : Files) (fill : UInt8) (inst : Inst) (key : Nat) (hdr : Header)
    (offset length : Int) (hc : C08CacheOK files hdr.filename key inst) :
    c08Obs (extract files fill inst key hdr 0 offset length) = c08Obs (extract files fill {} key hdr 0 offset length) := by
  rcases c08_extract_sec0_cases files fill {} key hdr offset length with ⟨d, h, hd, _⟩ | ⟨_, hfresh⟩
  · cases hd
  rcases c08_extract_sec0_cases files fill inst key hdr offset length with ⟨d, h, hd, hh, hk, e⟩ | ⟨_, hinst⟩
  · obtain ⟨hn, hl⟩ := hc d h hd hh hk
    rcases hfresh with ⟨_, hnone, _⟩ | ⟨b, d2, _, hd2, _, e2⟩
    · rw [hnone] at hl; cases hl
    · rw [e, e2]
      exact c08_sec0Tail_obs files hdr d2 d ⟨hdr.filename, 0⟩ h hd2 hh hn offset length
  · rcases hfresh with ⟨_, hnone, e2, _⟩ | ⟨b, d2, hsome, hd2, _, e2⟩
    · rcases hinst with ⟨_, _, e1, _⟩ | ⟨b, _, hsome, _⟩
      · rw [e1, e2]; rfl
      · rw [hnone] at hsome; cases hsome
    · rcases hinst with ⟨_, hnone, _⟩ | ⟨_, d1, _, hd1, _, e1⟩
      · rw [hnone] at hsome; cases hsome
      · rw [e1, e2]
        exact c08_sec0Tail_obs files hdr d2 d1 _ _ hd2 hd1 rfl offset length

/-- the invariant of the cache over a whole session: `name key` = the file name the header with identity `key` was
    opened under; every cached handle is on the file of the header it belongs to, and that file exists -/
def C08CacheG (files : Files) (name : Nat → String) (inst : Inst) : Prop :=
  ∀ d h, inst.d = some d → d.infh = some h → h.name = name d.chm ∧ (files.lookup h.name).isSome

theorem C08CacheG.fresh (files : Files) (name : Nat → String) (e : Err) : C08CacheG files name ⟨e, none⟩ :=
  fun _ _ h => by cases h

theorem C08CacheG.local {files : Files} {name : Nat → String} {inst : Inst} (hg : C08CacheG files name inst)
    (key : Nat) (fname : String) (hn : fname = name key) : C08CacheOK files fname key inst := by
  intro d h hd hh hk
  obtain ⟨a, b⟩ := hg d h hd hh
  rw [hk, ← hn] at a
  rw [a] at b
  exact ⟨a, b⟩

/-- a section-0 call keeps the invariant (and leaves the header alone) -/
theorem c08_sec0_keeps (files : Files) (fill : UInt8) (name : Nat → String) (inst : Inst) (key : Nat) (hdr : Header)
    (offset length : Int) (hg : C08CacheG files name inst) (hn : hdr.filename = name key) :
    ∃ e inst' out, extract files fill inst key hdr 0 offset length = .done e inst' hdr out ∧
      C08CacheG files name inst' := by
  have keep : ∀ (d : DState) (h : InFh), d.infh = some h → h.name = name d.chm → (files.lookup h.name).isSome →
      ∃ e inst' out, sec0Tail files hdr d offset length = .done e inst' hdr out ∧ C08CacheG files name inst' := by
    intro d h hdi hnm hlk
    rcases c08_sec0Tail_inst files hdr d offset length with ⟨e, d', out, eq, hchm, hnm'⟩ | ⟨f, hf⟩
    · refine ⟨e, _, out, eq, ?_⟩
      intro d2 h2 hd2 hh2
      cases hd2
      obtain ⟨h0, hh0, hname⟩ := hnm' h2 hh2
      rw [hdi] at hh0; cases hh0
      rw [hname, hchm]
      exact ⟨hnm, hlk⟩
    · have := sec0Tail_spec files hdr d h hdi offset length
      rw [hf] at this
      exact this.elim
  rcases c08_extract_sec0_cases files fill inst key hdr offset length with ⟨d, h, hd, hh, hk, e⟩ | ⟨_, hinst⟩
  · rw [e]
    obtain ⟨a, b⟩ := hg d h hd hh
    exact keep d h hh a b
  · rcases hinst with ⟨d, _, e1, hdn⟩ | ⟨b, d1, hsome, hd1, hk1, e1⟩
    · refine ⟨_, _, _, e1, ?_⟩
      intro d2 h2 hd2 hh2
      cases hd2
      rw [hdn] at hh2; cases hh2
    · rw [e1]
      exact keep d1 _ hd1 (by rw [hk1]; exact hn) (by show (files.lookup hdr.filename).isSome = true; rw [hsome]; rfl)

/-- a client's sequence of `chmd_extract` calls on stored members — of any headers, in any order — with the
    decompressor (and its cache) threaded through -/
def c08RunSeq (files : Files) (fill : UInt8) : List (Nat × Header × Int × Int) → Inst → List (Err × Option Bytes)
  | [], _ => []
  | (key, hdr, offset, length) :: rest, inst =>
    match extract files fill inst key hdr 0 offset length with
    | .done e inst' _ out => (e, out) :: c08RunSeq files fill rest inst'
    | _ => []

/-- **C08 (CHM, section 0), any sequence**: every call of any list of section-0 extractions — members of several
    CHM files mixed, repeated, in any order, failing ones (short file, unopenable file) included — returns exactly what
    a fresh decompressor returns for that member.  `name` = the file name each header identity was opened under. -/
theorem C08_chm_any_order_sec0 (files : Files) (fill : UInt8) (name : Nat → String)
    (calls : List (Nat × Header × Int × Int)) (hcalls : ∀ c ∈ calls, c.2.1.filename = name c.1)
    (inst : Inst) (hg : C08CacheG files name inst) :
    (c08RunSeq files fill calls inst).map some =
      calls.map fun c => c08Obs (extract files fill {} c.1 c.2.1 0 c.2.2.1 c.2.2.2) := by
  induction calls generalizing inst with
  | nil => rfl
  | cons c rest ih =>
    obtain ⟨key, hdr, offset, length⟩ := c
    have hn : hdr.filename = name key := hcalls _ (List.mem_cons_self ..)
    obtain ⟨e, inst', out, eq, hg'⟩ := c08_sec0_keeps files fill name inst key hdr offset length hg hn
    have hfree := C08_chm_sec0_history_free files fill inst key hdr offset length (hg.local key _ hn)
    rw [eq] at hfree
    simp only [c08RunSeq, eq, List.map_cons]
    rw [ih (fun c hc => hcalls c (List.mem_cons_of_mem _ hc)) inst' hg', ← hfree]
    rfl

/-! ## towards mixed histories: every helper of the section-1 path keeps `d->chm` and the handle's file

`find_sys_file`, `read_sys_file`, `read_reset_table`, `read_spaninfo`, `chmd_init_decomp` and the `lzxd_decompress`
call only ever move the *position* of the cached input handle (`C08DN`): the ingredients for "`C08CacheG` is kept by
section-1 calls too".  The last step — walking `extract`'s section-1 branch with them — is not done here. -/

/-- the header identity and the *name* of the input handle are kept -/
def C08DN (d d' : DState) : Prop := d'.chm = d.chm ∧ d'.infh.map (·.name) = d.infh.map (·.name)
theorem C08DN.refl (d : DState) : C08DN d d := ⟨rfl, rfl⟩
theorem C08DN.trans {a b c : DState} (h1 : C08DN a b) (h2 : C08DN b c) : C08DN a c :=
  ⟨h2.1.trans h1.1, h2.2.trans h1.2⟩
theorem C08DN.of_eq {a b : DState} (h : b = a) : C08DN a b := h ▸ C08DN.refl _

def C08Keep {α : Type} (x : X) (res : Except Fault (α × X)) : Prop := ∀ a x', res = .ok (a, x') → C08DN x.d x'.d

macro "c08leaf " k:term : tactic => `(tactic| (intro _ _ hr; cases hr; exact $k))

theorem c08_findSysFile (files : Files) (x : X) (slot : Slot) : C08Keep x (findSysFile files x slot) := by
  unfold findSysFile
  split
  · c08leaf (C08DN.refl _)
  · split
    · intro _ _ hr; cases hr
    · simp only
      split
      · c08leaf (C08DN.refl _)
      · split
        · c08leaf (C08DN.refl _)
        · c08leaf (C08DN.refl _)

theorem c08_readSysFile (files : Files) (x : X) (f : CFile) (res : Option Bytes × X)
    (hr : readSysFile files x f = res) : C08DN x.d res.2.d := by
  unfold readSysFile at hr
  split at hr
  · subst hr; exact C08DN.refl _
  simp only at hr
  split at hr
  · subst hr; exact C08DN.refl _
  split at hr
  · subst hr; exact C08DN.refl _
  rename_i h hh
  split at hr
  · subst hr; exact C08DN.refl _
  split at hr
  · subst hr; exact ⟨rfl, by simp [hh]⟩
  · subst hr; exact ⟨rfl, by simp [hh]⟩

theorem c08_readResetTable (files : Files) (x : X) (entry : Nat) : C08Keep x (readResetTable files x entry) := by
  unfold readResetTable
  have hs := c08_findSysFile files x .rtable
  split
  · intro _ _ hr; cases hr
  rename_i err x1 hq
  have k1 := hs _ _ hq
  split
  · c08leaf k1
  split
  · intro _ _ hr; cases hr
  rename_i rt hrt
  split
  · c08leaf k1
  split
  · c08leaf k1
  split
  · rename_i x2 hrs
    have h2 := c08_readSysFile files x1 rt _ hrs
    c08leaf (k1.trans h2)
  rename_i data x2 hrs
  have k2 := k1.trans (c08_readSysFile files x1 rt _ hrs)
  split
  · c08leaf k2
  simp only
  split
  · split
    · split
      · intro _ _ hr; cases hr
      · c08leaf k2
    · split
      · split
        · intro _ _ hr; cases hr
        · c08leaf k2
      · c08leaf k2
  · c08leaf k2

theorem c08_readSpaninfo (files : Files) (x : X) :
    ∀ e l x', readSpaninfo files x = .ok (e, l, x') → C08DN x.d x'.d := by
  unfold readSpaninfo
  have hs := c08_findSysFile files x .spaninfo
  split
  · intro _ _ _ hr; cases hr
  rename_i err x1 hq
  have k1 := hs _ _ hq
  split
  · intro _ _ _ hr; cases hr; exact k1
  split
  · intro _ _ _ hr; cases hr
  rename_i si hsi
  split
  · intro _ _ _ hr; cases hr; exact k1
  split
  · rename_i x2 hrs
    have h2 := c08_readSysFile files x1 si _ hrs
    intro _ _ _ hr; cases hr; exact k1.trans h2
  rename_i data x2 hrs
  have k2 := k1.trans (c08_readSysFile files x1 si _ hrs)
  simp only
  generalize i64At data 0 = len
  split
  · intro _ _ _ hr; cases hr; exact k2
  · intro _ _ _ hr; cases hr; exact k2

theorem C08Keep.mkD {α : Type} {x : X} (a : α) (e' : Err) (h : Header) (chm : Nat) (len off inoff : Int)
    (state : Option (Lzx.St Rd)) (infh : Option InFh) (hc : chm = x.d.chm)
    (hn : infh.map (·.name) = x.d.infh.map (·.name)) :
    C08Keep x (.ok (a, X.mk e' h (DState.mk chm len off inoff state infh))) := by
  intro _ _ hr; cases hr; exact ⟨hc, hn⟩

theorem c08_initDecomp (files : Files) (fill : UInt8) (x : X) (off : Int) : C08Keep x (initDecomp files fill x off) := by
  unfold initDecomp
  simp only
  have hs := c08_findSysFile files x .content
  split
  · intro _ _ hr; cases hr
  rename_i err x1 hq
  have k1 := hs _ _ hq
  split
  · c08leaf k1
  have hs2 := c08_findSysFile files x1 .control
  split
  · intro _ _ hr; cases hr
  rename_i err2 x2 hq2
  have k2 := k1.trans (hs2 _ _ hq2)
  split
  · c08leaf k2
  split
  · intro _ _ hr; cases hr
  · intro _ _ hr; cases hr
  rename_i content control hcontent hcontrol
  split
  · c08leaf k2
  split
  · rename_i x3 hrs
    have h3 := c08_readSysFile files x2 control _ hrs
    c08leaf (k2.trans h3)
  rename_i data x3 hrs
  have k3 := k2.trans (c08_readSysFile files x2 control _ hrs)
  split
  · c08leaf k3
  split
  · c08leaf k3
  rename_i resetInterval windowSize hparams
  split
  · c08leaf k3
  rename_i wbits hwb
  split
  · c08leaf k3
  generalize toU32 (wrapI32 (wrapI32 (off.tdiv resetInterval) * resetInterval.tdiv (Int.ofNat lzxFRAME_SIZE))) = entryU
  generalize wrapI32 (wrapI32 (off.tdiv resetInterval) * resetInterval.tdiv (Int.ofNat lzxFRAME_SIZE)) = entryI
  have hrt := c08_readResetTable files x3 entryU
  split
  · intro _ _ hr; cases hr
  rename_i rt x4 hq4
  have k4 := k3.trans (hrt _ _ hq4)
  cases rt with
  | some p =>
    obtain ⟨length, offset⟩ := p
    simp only
    generalize wrapI64 (andI64 (wrapI64 (length + wrapI32 (resetInterval - 1))) (wrapI32 (-resetInterval)) - wrapI32 (entryI * Int.ofNat lzxFRAME_SIZE)) = rem
    generalize hst : (if resetInterval.tdiv (Int.ofNat lzxFRAME_SIZE) < 0 ∨ rem < 0 then none
      else Lzx.init (⟨[], 0⟩ : Rd) wbits (resetInterval.tdiv (Int.ofNat lzxFRAME_SIZE)).toNat 4096
        rem.toNat false fill) = ost
    by_cases hrem : rem ≤ 0
    · rw [if_pos hrem]
      exact C08Keep.mkD _ _ _ _ _ _ _ _ _ k4.1 k4.2
    · rw [if_neg hrem]
      by_cases hn : ost.isNone = true
      · rw [if_pos hn]
        exact C08Keep.mkD _ _ _ _ _ _ _ _ _ k4.1 k4.2
      · rw [if_neg hn]
        exact C08Keep.mkD _ _ _ _ _ _ _ _ _ k4.1 k4.2
  | none =>
    simp only
    have hsp := c08_readSpaninfo files x4
    split
    · intro _ _ hr; cases hr
    · rename_i err5 x5 hq
      split at hq
      · cases hq
      · rename_i e5 l5 x5' hq5
        have k5 := k4.trans (hsp _ _ _ hq5)
        split at hq
        · cases hq
          c08leaf k5
        · cases hq
    · rename_i length offset entry x5 hq
      split at hq
      · cases hq
      rename_i e5 l5 x5' hq5
      have k5 := k4.trans (hsp _ _ _ hq5)
      split at hq
      · cases hq
      cases hq
      generalize wrapI64 (length - wrapI32 (0 * Int.ofNat lzxFRAME_SIZE)) = rem
      generalize hst : (if resetInterval.tdiv (Int.ofNat lzxFRAME_SIZE) < 0 ∨ rem < 0 then none
        else Lzx.init (⟨[], 0⟩ : Rd) wbits (resetInterval.tdiv (Int.ofNat lzxFRAME_SIZE)).toNat 4096
          rem.toNat false fill) = ost
      by_cases hrem : rem ≤ 0
      · rw [if_pos hrem]
        exact C08Keep.mkD _ _ _ _ _ _ _ _ _ k5.1 k5.2
      · rw [if_neg hrem]
        by_cases hn : ost.isNone = true
        · rw [if_pos hn]
          exact C08Keep.mkD _ _ _ _ _ _ _ _ _ k5.1 k5.2
        · rw [if_neg hn]
          exact C08Keep.mkD _ _ _ _ _ _ _ _ _ k5.1 k5.2

theorem c08_lzxCall (files : Files) (x : X) (b : Int) :
    ∀ e w x', lzxCall files x b = .ok (some (e, w, x')) → C08DN x.d x'.d := by
  intro e w x' h
  unfold lzxCall at h
  split at h
  · cases h; exact C08DN.refl _
  · cases h
  · rename_i st hh hst hin
    split at h
    · cases h; exact C08DN.refl _
    · split at h
      · cases h
      · simp +zeta only at h
        split at h
        · cases h
        · cases h
          exact ⟨rfl, by simp [hin]⟩

/-! ## non-vacuity -/

/-- three calls on one file, backwards and beyond the end: each returns what a fresh decompressor returns -/
example : c08RunSeq [("x.chm", [9, 9, 1, 2, 3, 4, 5])] 0
    [(0, { filename := "x.chm", sec0Offset := 2 }, 1, 3), (0, { filename := "x.chm", sec0Offset := 2 }, 0, 2),
     (0, { filename := "x.chm", sec0Offset := 2 }, 1, 10), (1, { filename := "nope.chm" }, 0, 1),
     (0, { filename := "x.chm", sec0Offset := 2 }, 4, 1)] {}
    = [(.ok, some [2, 3, 4]), (.ok, some [1, 2]), (.read, some []), (.open_, none), (.ok, some [5])] := by decide

/-- the premise cannot be dropped: a cache that claims header 0 but holds a handle on another file -/
example : c08Obs (extract [("x.chm", [1, 2, 3]), ("y.chm", [7, 8, 9])] 0
      ⟨.ok, some { chm := 0, length := 0, offset := 0, inoffset := 0, state := none, infh := some ⟨"y.chm", 0⟩ }⟩
      0 { filename := "x.chm" } 0 0 2) = some (.ok, some [7, 8]) ∧
    c08Obs (extract [("x.chm", [1, 2, 3]), ("y.chm", [7, 8, 9])] 0 {} 0 { filename := "x.chm" } 0 0 2)
      = some (.ok, some [1, 2]) := by decide

end MsPack.Chm
