import Proofs.Props.C08Chm
import Proofs.Lemmas.ChmBounds
/-!
# C08 for CHM, whole sessions — after ANY earlier `chmd_extract` calls a stored member extracts as on a fresh instance

`Proofs/Props/C08Chm.lean` shows that a section-0 extraction looks at one thing of the decompressor's cache — which
file the cached handle is on — and that section-0 calls keep the session invariant `C08CacheG` (every cached handle is
on the file of the header it belongs to, and that file exists).  Here the walk through the section-1 branch of
`extract` (`chmd_init_decomp` with its system-file reads, the two `lzxd_decompress` calls, the error exits) shows that
**every** call keeps it — section 0 or 1, succeeding, failing, or ending where the LZX model is switched off:
`c08_extract_keeps`.  Hence

* `C08_chm_sec0_history_free_session` — for every instance reachable from a fresh one by any list of `extract` calls
  of any kind (`C08Reach`; the headers satisfy `hdr.filename = name key`, i.e. a header identity always comes with the
  file it was opened under), a section-0 member extracts with the status and bytes of a fresh decompressor;
* `C08_chm_any_order` — in any mixed list of calls, every section-0 call returns its fresh-instance result.

Nothing is assumed about the LZX decoder (no counting law, no invariant): only that its calls return.
-/
namespace MsPack.Chm
open MsPack MsPack.Generated

/-- the cached state is on its header's file -/
def C08GD (files : Files) (name : Nat → String) (d : DState) : Prop :=
  ∀ h, d.infh = some h → h.name = name d.chm ∧ (files.lookup h.name).isSome

theorem C08GD.keep {files : Files} {name : Nat → String} {d d' : DState} (hg : C08GD files name d)
    (k : C08DN d d') : C08GD files name d' := by
  intro h' hh'
  obtain ⟨kc, kn⟩ := k
  rw [hh'] at kn
  cases hd : d.infh with
  | none => rw [hd] at kn; cases kn
  | some h =>
    rw [hd] at kn
    simp only [Option.map_some, Option.some.injEq] at kn
    have := hg h hd
    rw [kn, kc]
    exact this

theorem C08GD.noinfh {files : Files} {name : Nat → String} {d : DState} (h : d.infh = none) : C08GD files name d :=
  fun h' hh' => by rw [h] at hh'; cases hh'

theorem C08CacheG.some {files : Files} {name : Nat → String} (e : Err) {d : DState} (hd : C08GD files name d) :
    C08CacheG files name ⟨e, some d⟩ := fun d' h' hd' hh' => by cases hd'; exact hd h' hh'

/-- what a call leaves in the instance -/
def C08ResG (files : Files) (name : Nat → String) : ExtractResult → Prop
  | .done _ inst' _ _ => C08CacheG files name inst'
  | .unsupported inst' _ => C08CacheG files name inst'
  | .fault _ => True

theorem C08ResG.finish {files : Files} {name : Nat → String} (x : X) (out : Bytes) (hd : C08GD files name x.d) :
    C08ResG files name (.done x.error { error := x.error, d := some x.d } x.hdr (some out)) :=
  C08CacheG.some _ hd

theorem c08_extract_sec1_keeps (files : Files) (fill : UInt8) (name : Nat → String) (inst : Inst) (key : Nat)
    (hdr : Header) (sec : Nat) (hsec : sec ≠ 0) (offset length : Int) (hinst : C08CacheG files name inst)
    (hn : hdr.filename = name key) : C08ResG files name (extract files fill inst key hdr sec offset length) := by
  unfold extract
  extract_lets fillWord d0 reopen d1 opened finish
  clear_value fillWord
  have hd0 : C08GD files name d0 := by
    unfold d0
    split
    · rename_i d hid; exact fun h hh => hinst d h hid hh
    · exact C08GD.noinfh rfl
  have hd1 : C08GD files name d1 := by
    unfold d1
    split
    · exact C08GD.noinfh rfl
    · exact hd0
  have hop : ∀ d, opened = some d → C08GD files name d ∧ d.infh.isSome := by
    intro d hd
    unfold opened at hd
    split at hd
    · rename_i hre
      split at hd
      · rename_i b hlk
        cases hd
        refine ⟨fun h hh => ?_, rfl⟩
        cases hh
        have : d1.chm = key := by unfold d1; rw [if_pos hre]
        show hdr.filename = name d1.chm ∧ (files.lookup hdr.filename).isSome = true
        rw [this, hlk]
        exact ⟨hn, rfl⟩
      · cases hd
    · rename_i hre
      cases hd
      refine ⟨hd1, ?_⟩
      unfold d1
      rw [if_neg hre]
      unfold reopen at hre
      cases hinf : d0.infh with
      | none => exact absurd (Or.inl (by rw [hinf]; rfl)) hre
      | some _ => rfl
  clear_value opened d1 reopen d0
  split
  · exact C08CacheG.some _ hd1
  rename_i _ d
  obtain ⟨hdd, hdf⟩ := hop d rfl
  split
  · exact C08CacheG.some _ hdd
  simp only
  generalize hin : (if d.state.isNone = true ∨ offset < d.offset then _ else _ : Except Fault (Bool × X)) = inited
  have hinited : ∀ b x', inited = .ok (b, x') → C08GD files name x'.d := by
    rw [← hin]
    split
    · have hp := c08_initDecomp files fill { error := .ok, hdr := hdr, d := { d with state := none } } offset
      split
      · intro _ _ hr; cases hr
      · rename_i ret x' hq
        intro _ _ hr; cases hr
        exact hdd.keep (C08DN.trans ⟨rfl, rfl⟩ (hp _ _ hq))
    · intro _ _ hr; cases hr; exact hdd
  clear hin
  split
  · trivial
  · rename_i _ x1
    exact C08ResG.finish _ _ (hinited _ _ rfl)
  rename_i _ x1
  have hd1' := hinited _ _ rfl
  split
  · exact C08ResG.finish _ _ (fun h hh => hd1' h hh)
  split
  · trivial
  rename_i h hh
  split
  · exact C08ResG.finish _ _ (fun h hh => hd1' h hh)
  -- the handle is moved to `inoffset`
  have hdx : C08GD files name (DState.mk x1.d.chm x1.d.length x1.d.offset x1.d.inoffset x1.d.state
      (some ⟨h.name, x1.d.inoffset.toNat⟩)) := by
    intro h' hh'
    cases hh'
    exact hd1' h hh
  generalize hp1 : (if wrapI64 (offset - x1.d.offset) = 0 then _ else _ : Except Fault (Option X)) = ph1
  have hph1 : ∀ x', ph1 = .ok (some x') → C08GD files name x'.d := by
    rw [← hp1]
    split
    · intro _ hr; cases hr; exact hdx
    · split
      · intro _ hr; cases hr
      · intro _ hr; cases hr
      · rename_i e w x' hq
        have := c08_lzxCall files _ _ _ _ _ hq
        intro _ hr; cases hr
        exact hdx.keep this
  clear hp1
  split
  · trivial
  · exact C08CacheG.some _ hdx
  rename_i _ x2
  have hd2 := hph1 _ rfl
  generalize hp2 : (if x2.error ≠ Err.ok then _ else _ : Except Fault (Option (X × Bytes))) = ph2
  have hph2 : ∀ x' out, ph2 = .ok (some (x', out)) → C08GD files name x'.d := by
    rw [← hp2]
    split
    · intro _ _ hr; cases hr; exact hd2
    · split
      · intro _ _ hr; cases hr
      · intro _ _ hr; cases hr
      · rename_i e w x' hq
        have := c08_lzxCall files _ _ _ _ _ hq
        intro _ _ hr; cases hr
        exact hd2.keep this
  clear hp2
  split
  · trivial
  · exact C08CacheG.some _ hd2
  rename_i _ x3 out
  have hd3 := hph2 _ _ rfl
  cases hinf : x3.d.infh with
  | none =>
    simp only
    split
    · exact C08ResG.finish _ _ (fun h hh => (by rw [hinf] at hh; cases hh))
    · exact C08ResG.finish _ _ hd3
  | some h3 =>
    simp only
    split
    · exact C08ResG.finish _ _ (fun h hh => (by cases hh; exact hd3 h3 hinf))
    · exact C08ResG.finish _ _ (fun h hh => (by cases hh; exact hd3 h3 hinf))

/-- **every** `chmd_extract` call keeps the session invariant -/
theorem c08_extract_keeps (files : Files) (fill : UInt8) (name : Nat → String) (inst : Inst) (key : Nat)
    (hdr : Header) (sec : Nat) (offset length : Int) (hinst : C08CacheG files name inst)
    (hn : hdr.filename = name key) : C08ResG files name (extract files fill inst key hdr sec offset length) := by
  by_cases hsec : sec = 0
  · subst hsec
    obtain ⟨e, inst', out, eq, hg⟩ := c08_sec0_keeps files fill name inst key hdr offset length hinst hn
    rw [eq]; exact hg
  · exact c08_extract_sec1_keeps files fill name inst key hdr sec hsec offset length hinst hn

/-- the instance states a client can reach: a fresh decompressor, then any `extract` calls — any section, any
    member, any header (with the file name its identity stands for), whatever they return -/
inductive C08Reach (files : Files) (fill : UInt8) (name : Nat → String) : Inst → Prop
  | fresh (e : Err) : C08Reach files fill name ⟨e, none⟩
  | done {inst : Inst} (key : Nat) (hdr : Header) (sec : Nat) (offset length : Int) (e : Err) (inst' : Inst)
      (hdr' : Header) (out : Option Bytes) (h : C08Reach files fill name inst) (hn : hdr.filename = name key)
      (hx : extract files fill inst key hdr sec offset length = .done e inst' hdr' out) : C08Reach files fill name inst'
  | unsupported {inst : Inst} (key : Nat) (hdr : Header) (sec : Nat) (offset length : Int) (inst' : Inst)
      (hdr' : Header) (h : C08Reach files fill name inst) (hn : hdr.filename = name key)
      (hx : extract files fill inst key hdr sec offset length = .unsupported inst' hdr') : C08Reach files fill name inst'

theorem C08Reach.cacheG {files : Files} {fill : UInt8} {name : Nat → String} {inst : Inst}
    (h : C08Reach files fill name inst) : C08CacheG files name inst := by
  induction h with
  | fresh e => exact C08CacheG.fresh files name e
  | done key hdr sec offset length e inst' hdr' out _ hn hx ih =>
    have := c08_extract_keeps files fill name _ key hdr sec offset length ih hn
    rw [hx] at this; exact this
  | unsupported key hdr sec offset length inst' hdr' _ hn hx ih =>
    have := c08_extract_keeps files fill name _ key hdr sec offset length ih hn
    rw [hx] at this; exact this

/-- **C08 (CHM), sessions**: whatever was extracted before — stored and compressed members mixed, of any CHM files,
    failing calls included — a section-0 member extracts exactly as on a fresh decompressor -/
theorem C08_chm_sec0_history_free_session (files : Files) (fill : UInt8) (name : Nat → String) (inst : Inst)
    (hr : C08Reach files fill name inst) (key : Nat) (hdr : Header) (hn : hdr.filename = name key)
    (offset length : Int) :
    c08Obs (extract files fill inst key hdr 0 offset length) = c08Obs (extract files fill {} key hdr 0 offset length) :=
  C08_chm_sec0_history_free files fill inst key hdr offset length (hr.cacheG.local key _ hn)

/-- a client's sequence of calls `(key, hdr, section, offset, length)`, the decompressor threaded through; a fault ends it -/
def c08RunMixed (files : Files) (fill : UInt8) :
    List (Nat × Header × Nat × Int × Int) → Inst → List (Option (Err × Option Bytes))
  | [], _ => []
  | (key, hdr, sec, offset, length) :: rest, inst =>
    c08Obs (extract files fill inst key hdr sec offset length) ::
      match extract files fill inst key hdr sec offset length with
      | .done _ inst' _ _ => c08RunMixed files fill rest inst'
      | .unsupported inst' _ => c08RunMixed files fill rest inst'
      | .fault _ => []

/-- **C08 (CHM), any order, any mix**: in any list of `extract` calls every section-0 call — wherever it stands,
    whatever came before — returns the fresh-instance result -/
theorem C08_chm_any_order (files : Files) (fill : UInt8) (name : Nat → String)
    (calls : List (Nat × Header × Nat × Int × Int)) (hcalls : ∀ c ∈ calls, c.2.1.filename = name c.1)
    (inst : Inst) (hg : C08CacheG files name inst) (i : Nat) (c : Nat × Header × Nat × Int × Int)
    (r : Option (Err × Option Bytes)) (hc : calls[i]? = some c) (hsec : c.2.2.1 = 0)
    (hr : (c08RunMixed files fill calls inst)[i]? = some r) :
    r = c08Obs (extract files fill {} c.1 c.2.1 0 c.2.2.2.1 c.2.2.2.2) := by
  induction calls generalizing inst i with
  | nil => cases hc
  | cons c0 rest ih =>
    obtain ⟨key, hdr, sec, offset, length⟩ := c0
    have hn : hdr.filename = name key := hcalls _ (List.mem_cons_self ..)
    have hkeep := c08_extract_keeps files fill name inst key hdr sec offset length hg hn
    cases i with
    | zero =>
      simp only [List.getElem?_cons_zero, Option.some.injEq] at hc
      subst hc
      simp only at hsec
      subst hsec
      simp only [c08RunMixed, List.getElem?_cons_zero, Option.some.injEq] at hr
      rw [← hr]
      exact C08_chm_sec0_history_free files fill inst key hdr offset length (hg.local key _ hn)
    | succ j =>
      simp only [List.getElem?_cons_succ] at hc
      simp only [c08RunMixed, List.getElem?_cons_succ] at hr
      have hrest : ∀ c ∈ rest, c.2.1.filename = name c.1 := fun c hc => hcalls c (List.mem_cons_of_mem _ hc)
      cases hx : extract files fill inst key hdr sec offset length with
      | done e inst' hdr' out =>
        rw [hx] at hr hkeep
        exact ih hrest inst' hkeep j hc hr
      | unsupported inst' hdr' =>
        rw [hx] at hr hkeep
        exact ih hrest inst' hkeep j hc hr
      | fault f =>
        rw [hx] at hr
        simp at hr

/-! ## towards the non-reuse half for compressed members

When the cache belongs to another header (or holds no handle) `chmd_extract` re-opens the file and starts from
`{ d with chm := key, offset := 0, state := none, infh := ⟨filename, 0⟩ }`: this differs from a fresh instance's state
only in the stale `length` / `inoffset`.  `find_sys_file` and `read_sys_file` commute with overwriting those two
fields (`c08LI_*`); the same for `read_reset_table`, `read_spaninfo`, and the walk through `chmd_init_decomp` that
would give "not re-usable ⇒ result of a fresh instance" are **not** done. -/

/-- overwrite the two `off_t` fields a stale `mschmd_decompress_state` carries over (`length`, `inoffset`) -/
def c08LI (l io : Int) (x : X) : X := { x with d := { x.d with length := l, inoffset := io } }

theorem c08LI_findSysFile (files : Files) (x : X) (slot : Slot) (l io : Int) :
    findSysFile files (c08LI l io x) slot = (findSysFile files x slot).map fun p => (p.1, c08LI l io p.2) := by
  unfold findSysFile
  show (match slot.get x.hdr with
    | some _ => _
    | none => match fastFind (files.lookup x.hdr.filename) x.ff slot.name with
      | .error f => _
      | .ok o => _) = _
  cases slot.get x.hdr with
  | some _ => rfl
  | none =>
    simp only
    cases fastFind (files.lookup x.hdr.filename) x.ff slot.name with
    | error f => rfl
    | ok o =>
      simp only
      cases o.res.sec with
      | none => rfl
      | some sec =>
        simp only
        by_cases hr : o.ret ≠ .ok
        · rw [if_pos hr, if_pos hr]; rfl
        · rw [if_neg hr, if_neg hr]; rfl

theorem c08LI_readSysFile (files : Files) (x : X) (f : CFile) (l io : Int) :
    readSysFile files (c08LI l io x) f = ((readSysFile files x f).1, c08LI l io (readSysFile files x f).2) := by
  obtain ⟨xe, xh, ⟨c, len, off, ino, st, infh⟩⟩ := x
  unfold readSysFile
  by_cases h1 : f.sec ≠ 0
  · rw [if_pos h1, if_pos h1]; rfl
  rw [if_neg h1, if_neg h1]
  simp only
  by_cases h2 : wrapI32 f.length < 0
  · rw [if_pos h2, if_pos h2]; rfl
  rw [if_neg h2, if_neg h2]
  cases infh with
  | none => rfl
  | some h =>
    simp only [infhBytes, c08LI]
    generalize seekAbs _ _ = sk
    cases sk with
    | none => rfl
    | some r =>
      simp only
      by_cases h3 : (r.read (wrapI32 f.length).toNat).1.length ≠ (wrapI32 f.length).toNat
      · simp only [if_pos h3]
      · simp only [if_neg h3]

/-! ## non-vacuity -/

/-- a session on the CHM file of `C03Headers.lean`: a compressed member first (`chmd_init_decomp` searches the
    directory for the system files, finds none: MSPACK_ERR_DATAFORMAT), then stored members, backwards -/
example : c08RunMixed [("x.chm", encodeChm exampleSpec)] 0
    [(7, exampleSpec.listed "x.chm", 1, 300, 70000), (7, exampleSpec.listed "x.chm", 0, 2, 3),
     (7, exampleSpec.listed "x.chm", 0, 0, 2)] {}
    = [some (.dataformat, some []), some (.ok, some [3, 4, 5]), some (.ok, some [1, 2])] := by decide +kernel

/-- … and the state after the compressed call is one of the reachable states of `C08Reach` -/
example (inst' : Inst) (hdr' : Header) (out : Option Bytes) (e : Err)
    (h : extract [("x.chm", encodeChm exampleSpec)] 0 {} 7 (exampleSpec.listed "x.chm") 1 300 70000 = .done e inst' hdr' out) :
    C08Reach [("x.chm", encodeChm exampleSpec)] 0 (fun _ => "x.chm") inst' :=
  .done 7 _ 1 300 70000 e inst' hdr' out (.fresh .ok) rfl h

end MsPack.Chm
