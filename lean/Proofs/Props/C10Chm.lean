import Proofs.Props.C10
import Proofs.Lemmas.ChmEncode
import MsPack.Chm.Extract
import Proofs.Lemmas.ChmPost
/-!
# C10 (c) for CHM — wrong signatures

On the model of `chmd_read_headers` / `chmd_real_open` (`MsPack/Chm/Headers.lean`), for every file content and for
both `open` (`entire = true`) and `fast_open` (`false`):

* `chm_signature_refused`, `chm_guid_refused` (+ `chm_open_…`): ≥ 0x38 bytes and a wrong "ITSF" / wrong GUIDs at 0x18
  ⇒ MSPACK_ERR_SIGNATURE, NULL header.  `chm_short_is_read`: fewer than 0x38 bytes ⇒ MSPACK_ERR_READ.
* `chm_signature_only`, `chm_open_signature_only`: the converse — SIGNATURE is answered in no other case.
* ITSP (header section 1): not checked at all, neither by chmd.c nor by the model (example `itspBad`).
* PMGL/PMGI: the listing skips every chunk that does not start with "PMGL" silently (`chm_listing_skips_non_pmgl`);
  `read_chunk` (fast_find, and extract's `find_sys_file`) answers a chunk that is neither "PMGL" nor "PMGI" with
  MSPACK_ERR_SEEK (`chm_read_chunk_bad_signature`), which `chmd_fast_find` passes on when it got there through the
  index (`chm_find_index_bad_chunk`) and turns into MSPACK_ERR_DATAFORMAT when walking the PMGL chain with no
  successfully searched chunk before it (`chm_find_walk_bad_chunk`).
* LZXC (ControlData): wrong signature ⇒ `chmd_init_decomp` returns MSPACK_ERR_SIGNATURE (`chm_lzxc_signature_refused`).
-/
namespace MsPack.C10
open MsPack MsPack.Generated MsPack.Chm

theorem chm_head_read (file : Bytes) (hlen : 0x38 ≤ file.length) :
    (⟨file, 0⟩ : Rd).readExact chmheadSIZEOF = some (file.take 0x38, ⟨file, 0x38⟩) := by
  have h56 : chmheadSIZEOF = 0x38 := rfl
  rw [h56]
  have := readExact_some (file := file) (off := 0) (n := 0x38) (by omega)
  simpa using this

/-- ITSF: the 0x38 header bytes are there and the first four are not "ITSF" ⇒ `chmd_read_headers` returns
    MSPACK_ERR_SIGNATURE, for `open` (`entire = true`) and `fast_open` (`false`) alike -/
theorem chm_signature_refused (filename : String) (file : Bytes) (entire : Bool)
    (hlen : 0x38 ≤ file.length)
    (hsig : u32At (file.take 0x38) 0 ≠ 0x46535449) :
    Chm.readHeaders filename file entire = .ok (.error .signature) := by
  unfold Chm.readHeaders
  rw [matchRead_some _ _ _ (chm_head_read file hlen)]
  have hsig' : u32At (file.take 0x38) chmhead_Signature ≠ 0x46535449 := hsig
  rw [if_pos hsig']

/-- GUIDs: "ITSF" is there but the 32 bytes at 0x18 are not the two expected GUIDs ⇒ MSPACK_ERR_SIGNATURE -/
theorem chm_guid_refused (filename : String) (file : Bytes) (entire : Bool)
    (hlen : 0x38 ≤ file.length)
    (hsig : u32At (file.take 0x38) 0 = 0x46535449)
    (hguid : ((file.drop 0x18).take 32).map UInt8.toNat ≠ chmGuids) :
    Chm.readHeaders filename file entire = .ok (.error .signature) := by
  unfold Chm.readHeaders
  rw [matchRead_some _ _ _ (chm_head_read file hlen)]
  have hsig' : u32At (file.take 0x38) chmhead_Signature = 0x46535449 := hsig
  have hg : (((file.take 0x38).drop chmhead_GUID1).take 32) = ((file.drop 0x18).take 32) := by
    unfold chmhead_GUID1
    rw [List.drop_take, List.take_take]
    rfl
  rw [hsig', if_neg (by decide : ¬ (1179866185 ≠ 1179866185)), hg, if_pos hguid]

/-- what `chmd_real_open` makes of an error return of `chmd_read_headers`: `self->error` = that error, NULL -/
theorem chm_realOpen_of_error (filename : String) (file : Bytes) (entire : Bool) (e : Err)
    (h : Chm.readHeaders filename file entire = .ok (.error e)) :
    Chm.realOpen filename file entire = .ok (e, none) := by
  unfold Chm.realOpen
  rw [h]

/-- `open` / `fast_open` (`chmd_real_open`): wrong "ITSF" ⇒ NULL and `last_error` = MSPACK_ERR_SIGNATURE -/
theorem chm_open_signature_refused (filename : String) (file : Bytes) (entire : Bool)
    (hlen : 0x38 ≤ file.length) (hsig : u32At (file.take 0x38) 0 ≠ 0x46535449) :
    Chm.realOpen filename file entire = .ok (.signature, none) :=
  chm_realOpen_of_error _ _ _ _ (chm_signature_refused filename file entire hlen hsig)

/-- `open` / `fast_open`: wrong GUIDs ⇒ NULL and MSPACK_ERR_SIGNATURE -/
theorem chm_open_guid_refused (filename : String) (file : Bytes) (entire : Bool)
    (hlen : 0x38 ≤ file.length) (hsig : u32At (file.take 0x38) 0 = 0x46535449)
    (hguid : ((file.drop 0x18).take 32).map UInt8.toNat ≠ chmGuids) :
    Chm.realOpen filename file entire = .ok (.signature, none) :=
  chm_realOpen_of_error _ _ _ _ (chm_guid_refused filename file entire hlen hsig hguid)

/-- a file shorter than the ITSF header is a READ error, not a SIGNATURE error (why `hlen` is needed) -/
theorem chm_short_is_read (filename : String) (file : Bytes) (entire : Bool) (hlen : file.length < 0x38) :
    Chm.readHeaders filename file entire = .ok (.error .read) := by
  have hr : (⟨file, 0⟩ : Rd).readExact chmheadSIZEOF = none := by
    have h56 : chmheadSIZEOF = 0x38 := rfl
    rw [h56]
    unfold Rd.readExact Rd.read
    simp
    omega
  unfold Chm.readHeaders
  rw [hr]

/-! ## … and nothing else is answered with MSPACK_ERR_SIGNATURE -/

/-- "a SIGNATURE result means the ITSF signature or the GUIDs were wrong" -/
def SigPost (file : Bytes) (res : Except Fault (Except Err Parsed)) : Prop :=
  (res = .ok (.error .signature) →
    0x38 ≤ file.length ∧
    (u32At (file.take 0x38) 0 ≠ 0x46535449 ∨ ((file.drop 0x18).take 32).map UInt8.toNat ≠ chmGuids)) ∧
  (∀ p, res = .ok (.ok p) → p.err ≠ .signature)

theorem sigPost_err (file : Bytes) (e : Err) (he : e ≠ .signature) : SigPost file (.ok (.error e)) :=
  ⟨fun h => (by cases h; exact absurd rfl he), fun p h => (by cases h)⟩
theorem sigPost_ok (file : Bytes) (p : Parsed) (hp : p.err ≠ .signature) : SigPost file (.ok (.ok p)) :=
  ⟨fun h => (by cases h), fun q h => (by cases h; exact hp)⟩
theorem sigPost_fault (file : Bytes) (f : Fault) : SigPost file (.error f) :=
  ⟨fun h => (by cases h), fun p h => (by cases h)⟩

theorem readHeaders_sigPost (filename : String) (file : Bytes) (entire : Bool) :
    SigPost file (Chm.readHeaders filename file entire) := by
  rcases Nat.lt_or_ge file.length 0x38 with hlen | hlen
  · rw [chm_short_is_read filename file entire hlen]
    exact sigPost_err _ _ (by decide)
  unfold Chm.readHeaders
  rw [matchRead_some _ _ _ (chm_head_read file hlen)]
  by_cases hsig : u32At (file.take 0x38) chmhead_Signature ≠ 0x46535449
  · rw [if_pos hsig]; exact ⟨fun _ => ⟨hlen, .inl hsig⟩, fun p h => (by cases h)⟩
  rw [if_neg hsig]
  have hg : (((file.take 0x38).drop chmhead_GUID1).take 32) = ((file.drop 0x18).take 32) := by
    unfold chmhead_GUID1
    rw [List.drop_take, List.take_take]
    rfl
  rw [hg]
  by_cases hguid : ((file.drop 0x18).take 32).map UInt8.toNat ≠ chmGuids
  · rw [if_pos hguid]; exact ⟨fun _ => ⟨hlen, .inr hguid⟩, fun p h => (by cases h)⟩
  rw [if_neg hguid]
  clear hsig hguid hg
  generalize file.take 0x38 = b1
  generalize (⟨file, 0x38⟩ : Rd) = r1
  zeta_arg
  apply post_read (Q := SigPost file) _ _ _ (sigPost_err _ _ (by decide)); intro b2 r2
  zeta_arg
  generalize seekAbs r2 (i64At b2 chmhst_OffsetHS0) = sk1
  apply post_seek (Q := SigPost file) _ _ _ (sigPost_err _ _ (by decide)); intro r3
  apply post_read (Q := SigPost file) _ _ _ (sigPost_err _ _ (by decide)); intro b3 r4
  zeta_arg
  generalize seekAbs r4 (i64At b2 chmhst_OffsetHS1) = sk2
  apply post_seek (Q := SigPost file) _ _ _ (sigPost_err _ _ (by decide)); intro r5
  apply post_read (Q := SigPost file) _ _ _ (sigPost_err _ _ (by decide)); intro b4 r6
  zeta_arg
  generalize u32At b1 chmhead_Version = version
  generalize u32BEAt b1 chmhead_Timestamp = timestamp
  generalize u32At b1 chmhead_LanguageID = language
  generalize i64At b2 chmhst3_OffsetCS0 = sec0Offset0
  generalize i64At b3 chmhs0_FileLen = length
  generalize u32At b4 chmhs1_ChunkSize = chunkSize
  generalize u32At b4 chmhs1_Density = density
  generalize u32At b4 chmhs1_Depth = depth
  generalize u32At b4 chmhs1_IndexRoot = indexRoot
  generalize u32At b4 chmhs1_NumChunks = numChunks
  generalize u32At b4 chmhs1_FirstPMGL = firstPmgl
  generalize u32At b4 chmhs1_LastPMGL = lastPmgl
  apply post_ite (Q := SigPost file) _ _ _ (sigPost_err _ _ (by decide))
  apply post_ite (Q := SigPost file) _ _ _ (sigPost_err _ _ (by decide))
  apply post_ite (Q := SigPost file) _ _ _ (sigPost_err _ _ (by decide))
  apply post_ite (Q := SigPost file) _ _ _ (sigPost_err _ _ (by decide))
  apply post_ite (Q := SigPost file) _ _ _ (sigPost_err _ _ (by decide))
  apply post_ite (Q := SigPost file) _ _ _ (sigPost_err _ _ (by decide))
  apply post_ite (Q := SigPost file) _ _ _ (sigPost_err _ _ (by decide))
  apply post_ite (Q := SigPost file) _ _ _ (sigPost_err _ _ (by decide))
  zeta_arg
  apply post_ite (Q := SigPost file)
  · exact sigPost_ok _ _ (by intro h; cases h)
  zeta_arg
  generalize hrc : readChunks _ _ _ _ = rc
  apply post_chunks (Q := SigPost file)
  · intro f _; exact sigPost_fault _ _
  · intro e he
    subst he
    rw [readChunks_err_read _ _ _ _ _ hrc]
    exact sigPost_err _ _ (by decide)
  · intro w _
    zeta_arg
    refine sigPost_ok _ _ ?_
    show (if w.errors > 0 then Err.dataformat else Err.ok) ≠ Err.signature
    split <;> decide

/-- the converse of `chm_signature_refused` / `chm_guid_refused`: `chmd_read_headers` answers MSPACK_ERR_SIGNATURE
    **only** when the ITSF header was read in full and its signature or its GUIDs are wrong -/
theorem chm_signature_only (filename : String) (file : Bytes) (entire : Bool)
    (h : Chm.readHeaders filename file entire = .ok (.error .signature)) :
    0x38 ≤ file.length ∧
    (u32At (file.take 0x38) 0 ≠ 0x46535449 ∨ ((file.drop 0x18).take 32).map UInt8.toNat ≠ chmGuids) :=
  (readHeaders_sigPost filename file entire).1 h

/-- the same for `open` / `fast_open`: `last_error` = MSPACK_ERR_SIGNATURE only then (and the result is NULL) -/
theorem chm_open_signature_only (filename : String) (file : Bytes) (entire : Bool) (o : Option Header)
    (h : Chm.realOpen filename file entire = .ok (.signature, o)) :
    o = none ∧ 0x38 ≤ file.length ∧
    (u32At (file.take 0x38) 0 ≠ 0x46535449 ∨ ((file.drop 0x18).take 32).map UInt8.toNat ≠ chmGuids) := by
  have hp := readHeaders_sigPost filename file entire
  unfold Chm.realOpen at h
  generalize Chm.readHeaders filename file entire = res at h hp
  split at h
  · cases h
  · cases h; exact ⟨rfl, hp.1 rfl⟩
  · rename_i p
    have hne := hp.2 p rfl
    split at h
    · cases h
    · split at h
      · cases h
      · simp only [Except.ok.injEq, Prod.mk.injEq] at h
        exact absurd h.1 hne


/-! ## PMGL / PMGI chunk signatures

`chmd_read_headers` (listing): a chunk of the FirstPMGL..LastPMGL range whose first four bytes are not "PMGL"
(a PMGI index chunk or anything else) is skipped silently: no error, no entry. -/
theorem chm_listing_skips_non_pmgl (chunkSize n : Nat) (r r' : Rd) (w : Walk) (chunk : Bytes)
    (hread : r.readExact chunkSize = some (chunk, r'))
    (hsig : u32At chunk 0 ≠ 0x4C474D50) :
    readChunks chunkSize (n + 1) r w = readChunks chunkSize n r' w := by
  rw [readChunks.eq_2, matchRead_some _ _ _ hread]
  have hsig' : u32At chunk pmgl_Signature ≠ 0x4C474D50 := hsig
  rw [if_pos hsig']

/-- `read_chunk` (used by `fast_find`, and through `find_sys_file` by `extract`): a chunk that is not in the cache,
    can be read, and starts with neither "PMGL" nor "PMGI" gives NULL with `self->error` = MSPACK_ERR_SEEK (sic:
    neither SIGNATURE nor DATAFORMAT), and is not cached -/
theorem chm_read_chunk_bad_signature (st : FF) (file : Bytes) (n : Nat) (r r' : Rd) (buf : Bytes)
    (hn : n < st.hdr.numChunks)
    (hcache : (st.hdr.chunkCache.getD []).lookup n = none)
    (hseek : seekAbs ⟨file, 0⟩ (st.hdr.dirOffset + Int.ofNat ((n * st.hdr.chunkSize) % 4294967296)) = some r)
    (hread : r.readExact st.hdr.chunkSize = some (buf, r'))
    (hsig : ¬ (byteAt buf 0 = 0x50 ∧ byteAt buf 1 = 0x4D ∧ byteAt buf 2 = 0x47 ∧
              (byteAt buf 3 = 0x4C ∨ byteAt buf 3 = 0x49))) :
    readChunk st file n =
      (none, { hdr := { st.hdr with chunkCache := some (st.hdr.chunkCache.getD []) }, error := .seek }) := by
  unfold readChunk
  simp only [ge_iff_le, Nat.not_le.mpr hn, ↓reduceIte, hcache, hseek, hread, hsig, not_false_eq_true]

/-- what `chmd_fast_find` makes of it when the chunk is reached through the PMGI index (`index_root` valid): it
    returns `self->error`, i.e. MSPACK_ERR_SEEK -/
theorem chm_find_index_bad_chunk (st : FF) (file fname : Bytes) (fuel n : Nat) (r r' : Rd) (buf : Bytes)
    (hn : n < st.hdr.numChunks)
    (hcache : (st.hdr.chunkCache.getD []).lookup n = none)
    (hseek : seekAbs ⟨file, 0⟩ (st.hdr.dirOffset + Int.ofNat ((n * st.hdr.chunkSize) % 4294967296)) = some r)
    (hread : r.readExact st.hdr.chunkSize = some (buf, r'))
    (hsig : ¬ (byteAt buf 0 = 0x50 ∧ byteAt buf 1 = 0x4D ∧ byteAt buf 2 = 0x47 ∧
              (byteAt buf 3 = 0x4C ∨ byteAt buf 3 = 0x49))) :
    ∃ st', descend file fname (fuel + 1) n st = .ok ⟨.seek, st', {}⟩ ∧ st'.error = .seek := by
  rw [descend.eq_2, chm_read_chunk_bad_signature st file n r r' buf hn hcache hseek hread hsig]
  exact ⟨_, rfl, rfl⟩

/-- … and when it is reached by walking the PMGL chain (no index): the loop breaks with `err = self->error` = SEEK, but
    the final `else if (result < 0) err = MSPACK_ERR_DATAFORMAT` overrides it when no chunk has been searched
    successfully yet (`result` still -1, as for the first chunk): then the answer is MSPACK_ERR_DATAFORMAT -/
theorem chm_find_walk_bad_chunk (st : FF) (file fname : Bytes) (fuel n : Nat) (last : Search) (r r' : Rd) (buf : Bytes)
    (hle : n ≤ st.hdr.lastPmgl)
    (hn : n < st.hdr.numChunks)
    (hcache : (st.hdr.chunkCache.getD []).lookup n = none)
    (hseek : seekAbs ⟨file, 0⟩ (st.hdr.dirOffset + Int.ofNat ((n * st.hdr.chunkSize) % 4294967296)) = some r)
    (hread : r.readExact st.hdr.chunkSize = some (buf, r'))
    (hsig : ¬ (byteAt buf 0 = 0x50 ∧ byteAt buf 1 = 0x4D ∧ byteAt buf 2 = 0x47 ∧
              (byteAt buf 3 = 0x4C ∨ byteAt buf 3 = 0x49))) :
    ∃ st', walk file fname (fuel + 1) n last st =
      .ok ⟨if last = .bad then .dataformat else .seek, st', {}⟩ := by
  rw [walk.eq_2]
  simp only [hle, not_true_eq_false, ↓reduceIte,
    chm_read_chunk_bad_signature st file n r r' buf hn hcache hseek hread hsig]
  exact ⟨_, rfl⟩

/-! ## LZXC (ControlData of the compressed section)

`chmd_init_decomp`: both system files found, ControlData has the right size and can be read, but its signature at
offset 4 is not "LZXC" ⇒ MSPACK_ERR_SIGNATURE (returned and stored in `self->error`) -/
theorem chm_lzxc_signature_refused (files : Files) (fill : UInt8) (x x1 x2 x3 : X) (off : Int)
    (content control : CFile) (data : Bytes)
    (h1 : findSysFile files x .content = .ok (.ok, x1))
    (h2 : findSysFile files x1 .control = .ok (.ok, x2))
    (hc : x2.hdr.content = some content) (hk : x2.hdr.control = some control)
    (hl : control.length = Int.ofNat lzxcdSIZEOF)
    (hr : readSysFile files x2 control = (some data, x3))
    (hs : u32At data lzxcd_Signature ≠ 0x43585A4C) :
    initDecomp files fill x off = .ok (.signature, { x3 with error := .signature }) := by
  unfold initDecomp
  simp only [h1, h2, hc, hk, hl, hr, hs, ne_eq, not_true_eq_false, not_false_eq_true, ↓reduceIte]

/-! ## the premises are satisfiable; ITSP -/

example : Chm.realOpen "x.chm" (List.replicate 56 0) true = .ok (.signature, none) :=
  chm_open_signature_refused _ _ _ (by decide) (by decide)

example : Chm.realOpen "x.chm" ([0x49, 0x54, 0x53, 0x46] ++ List.replicate 52 0) false = .ok (.signature, none) :=
  chm_open_guid_refused _ _ _ (by decide) (by decide) (by decide)

/-- what `open` / `fast_open` answer and, if a header comes back, the names it lists -/
def openNames (file : Bytes) (entire : Bool) : Option (Err × List Bytes) :=
  match Chm.realOpen "x.chm" file entire with
  | .ok (e, some hdr) => some (e, hdr.files.map (·.name))
  | _ => none

/-- `encodeChm exampleSpec` of `Proofs/Props/C03Headers.lean` (two PMGL chunks, files "/a.htm" and "/b") with the
    "ITSP" signature of header section 1 (offset 120) overwritten by "XXXX" -/
def itspBad : Bytes := [
   73, 84, 83, 70, 3, 0, 0, 0, 96, 0, 0, 0, 1, 0, 0, 0, 18, 52, 86, 120, 9, 4, 0, 0,
   16, 253, 1, 124, 170, 123, 208, 17, 158, 12, 0, 160, 201, 34, 230, 236, 17, 253, 1, 124, 170, 123, 208, 17,
   158, 12, 0, 160, 201, 34, 230, 236, 96, 0, 0, 0, 0, 0, 0, 0, 24, 0, 0, 0, 0, 0, 0, 0,
   120, 0, 0, 0, 0, 0, 0, 0, 212, 0, 0, 0, 0, 0, 0, 0, 76, 1, 0, 0, 0, 0, 0, 0,
   254, 1, 0, 0, 0, 0, 0, 0, 82, 1, 0, 0, 0, 0, 0, 0, 0, 0, 0, 0, 0, 0, 0, 0,
   88, 88, 88, 88, 1, 0, 0, 0, 84, 0, 0, 0, 10, 0, 0, 0, 64, 0, 0, 0, 2, 0, 0, 0,
   1, 0, 0, 0, 255, 255, 255, 255, 0, 0, 0, 0, 1, 0, 0, 0, 255, 255, 255, 255, 2, 0, 0, 0,
   9, 4, 0, 0, 106, 146, 2, 93, 46, 33, 208, 17, 157, 249, 0, 160, 201, 34, 230, 236, 84, 0, 0, 0,
   255, 255, 255, 255, 255, 255, 255, 255, 255, 255, 255, 255, 80, 77, 71, 76, 26, 0, 0, 0, 0, 0, 0, 0,
   255, 255, 255, 255, 1, 0, 0, 0, 1, 47, 0, 0, 0, 6, 47, 97, 46, 104, 116, 109, 1, 130, 44, 132,
   162, 112, 0, 0, 0, 0, 0, 0, 0, 0, 0, 0, 0, 0, 0, 0, 0, 0, 0, 0, 0, 0, 0, 0,
   0, 0, 2, 0, 80, 77, 71, 76, 38, 0, 0, 0, 0, 0, 0, 0, 0, 0, 0, 0, 255, 255, 255, 255,
   2, 47, 98, 0, 5, 1, 0, 0, 0, 0, 0, 0, 0, 0, 0, 0, 0, 0, 0, 0, 0, 0, 0, 0,
   0, 0, 0, 0, 0, 0, 0, 0, 0, 0, 0, 0, 0, 0, 0, 0, 0, 0, 1, 0, 1, 2, 3, 4,
   5, 6]

/-- the ITSP signature is not looked at (chmd.c never reads `chmhs1_Signature`; the model has no such check): the
    file opens with MSPACK_ERR_OK and the same listing -/
theorem chm_itsp_signature_ignored_example : openNames itspBad true = some (.ok, [[0x2F, 0x61, 0x2E, 0x68, 0x74, 0x6D], [0x2F, 0x62]]) := by
  decide +kernel

/-- the same file with the first chunk's "PMGL" (offset 204) turned into "PMGI" -/
def pmglBad : Bytes := [
   73, 84, 83, 70, 3, 0, 0, 0, 96, 0, 0, 0, 1, 0, 0, 0, 18, 52, 86, 120, 9, 4, 0, 0,
   16, 253, 1, 124, 170, 123, 208, 17, 158, 12, 0, 160, 201, 34, 230, 236, 17, 253, 1, 124, 170, 123, 208, 17,
   158, 12, 0, 160, 201, 34, 230, 236, 96, 0, 0, 0, 0, 0, 0, 0, 24, 0, 0, 0, 0, 0, 0, 0,
   120, 0, 0, 0, 0, 0, 0, 0, 212, 0, 0, 0, 0, 0, 0, 0, 76, 1, 0, 0, 0, 0, 0, 0,
   254, 1, 0, 0, 0, 0, 0, 0, 82, 1, 0, 0, 0, 0, 0, 0, 0, 0, 0, 0, 0, 0, 0, 0,
   73, 84, 83, 80, 1, 0, 0, 0, 84, 0, 0, 0, 10, 0, 0, 0, 64, 0, 0, 0, 2, 0, 0, 0,
   1, 0, 0, 0, 255, 255, 255, 255, 0, 0, 0, 0, 1, 0, 0, 0, 255, 255, 255, 255, 2, 0, 0, 0,
   9, 4, 0, 0, 106, 146, 2, 93, 46, 33, 208, 17, 157, 249, 0, 160, 201, 34, 230, 236, 84, 0, 0, 0,
   255, 255, 255, 255, 255, 255, 255, 255, 255, 255, 255, 255, 80, 77, 71, 73, 26, 0, 0, 0, 0, 0, 0, 0,
   255, 255, 255, 255, 1, 0, 0, 0, 1, 47, 0, 0, 0, 6, 47, 97, 46, 104, 116, 109, 1, 130, 44, 132,
   162, 112, 0, 0, 0, 0, 0, 0, 0, 0, 0, 0, 0, 0, 0, 0, 0, 0, 0, 0, 0, 0, 0, 0,
   0, 0, 2, 0, 80, 77, 71, 76, 38, 0, 0, 0, 0, 0, 0, 0, 0, 0, 0, 0, 255, 255, 255, 255,
   2, 47, 98, 0, 5, 1, 0, 0, 0, 0, 0, 0, 0, 0, 0, 0, 0, 0, 0, 0, 0, 0, 0, 0,
   0, 0, 0, 0, 0, 0, 0, 0, 0, 0, 0, 0, 0, 0, 0, 0, 0, 0, 1, 0, 1, 2, 3, 4,
   5, 6]

/-- `open()` skips the chunk without any error: only "/b" of the second chunk is listed -/
theorem chm_listing_skips_non_pmgl_example : openNames pmglBad true = some (.ok, [[0x2F, 0x62]]) := by decide +kernel

end MsPack.C10
