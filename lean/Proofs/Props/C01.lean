import Proofs.Lemmas.CabEncode
import Proofs.Lemmas.CabData
/-!
# C01 — CAB listing: `open()` reproduces every member's name, size, attributes, date/time, folder

`encodeHeaders` is the specification of a cabinet's header area as a writer lays it out (CFHEADER
without optional parts, CFFOLDER entries, CFFILE entries with NUL-terminated names).
`C01_headers_roundtrip`: on the model of `cabd_read_headers`, for every such cabinet — any number of
folders and files up to the 16-bit limits, any names of 1..255 bytes without NUL, any sizes, offsets,
attributes, DOS dates and times, any reserved-field contents — wherever it sits in a file (any
prefix: `search()` opens embedded cabinets at any offset) and whatever follows it, the listing is
exactly the specified one, in strict and in salvage mode.

Not covered by this theorem: the optional header parts (reserve areas, previous/next cabinet
strings: exercised by the generators and the model/implementation comparison), and the data area
(per-decoder round trips: stored blocks in `C07`, MSZIP/LZX/Quantum by differential runs).
-/
namespace MsPack.Cab
open MsPack
open MsPack.Oab (enc32 readExact_prefix drop_after)

theorem header_fields (c : CabSpec) (h : c.wf) :
    (encCFHeader c).length = 36 ∧ u32At (encCFHeader c) 0 = 0x4643534D ∧ u32At (encCFHeader c) 8 = c.length ∧
    u16At (encCFHeader c) 0x1A = c.folders.length ∧ u16At (encCFHeader c) 0x1C = c.files.length ∧
    u16At (encCFHeader c) 0x1E = 0 ∧ u16At (encCFHeader c) 0x20 = c.setId ∧ u16At (encCFHeader c) 0x22 = c.setIndex := by
  obtain ⟨h1, h2, h3, _, _, _, _, _, h4, _, h5, _, _⟩ := h
  refine ⟨rfl, ?_, ?_, ?_, ?_, ?_, ?_, ?_⟩
  · have := u32_enc32 0x4643534D (by omega) [] (enc32 c.res1 ++ enc32 c.length ++ enc32 c.res2 ++ enc32 c.coffFiles ++ enc32 c.res3 ++
      [c.verMinor, c.verMajor] ++ enc16 c.folders.length ++ enc16 c.files.length ++ enc16 0 ++ enc16 c.setId ++ enc16 c.setIndex)
    simpa [encCFHeader, List.append_assoc] using this
  · have := u32_enc32 c.length h1 (enc32 0x4643534D ++ enc32 c.res1) (enc32 c.res2 ++ enc32 c.coffFiles ++ enc32 c.res3 ++
      [c.verMinor, c.verMajor] ++ enc16 c.folders.length ++ enc16 c.files.length ++ enc16 0 ++ enc16 c.setId ++ enc16 c.setIndex)
    simpa [encCFHeader, List.append_assoc, enc32] using this
  · have := u16_enc16 c.folders.length h4 (enc32 0x4643534D ++ enc32 c.res1 ++ enc32 c.length ++ enc32 c.res2 ++ enc32 c.coffFiles ++ enc32 c.res3 ++
      [c.verMinor, c.verMajor]) (enc16 c.files.length ++ enc16 0 ++ enc16 c.setId ++ enc16 c.setIndex)
    simpa [encCFHeader, List.append_assoc, enc32] using this
  · have := u16_enc16 c.files.length h5 (enc32 0x4643534D ++ enc32 c.res1 ++ enc32 c.length ++ enc32 c.res2 ++ enc32 c.coffFiles ++ enc32 c.res3 ++
      [c.verMinor, c.verMajor] ++ enc16 c.folders.length) (enc16 0 ++ enc16 c.setId ++ enc16 c.setIndex)
    simpa [encCFHeader, List.append_assoc, enc32, enc16] using this
  · have := u16_enc16 0 (by omega) (enc32 0x4643534D ++ enc32 c.res1 ++ enc32 c.length ++ enc32 c.res2 ++ enc32 c.coffFiles ++ enc32 c.res3 ++
      [c.verMinor, c.verMajor] ++ enc16 c.folders.length ++ enc16 c.files.length) (enc16 c.setId ++ enc16 c.setIndex)
    simpa [encCFHeader, List.append_assoc, enc32, enc16] using this
  · have := u16_enc16 c.setId h2 (enc32 0x4643534D ++ enc32 c.res1 ++ enc32 c.length ++ enc32 c.res2 ++ enc32 c.coffFiles ++ enc32 c.res3 ++
      [c.verMinor, c.verMajor] ++ enc16 c.folders.length ++ enc16 c.files.length ++ enc16 0) (enc16 c.setIndex)
    simpa [encCFHeader, List.append_assoc, enc32, enc16] using this
  · have := u16_enc16 c.setIndex h3 (enc32 0x4643534D ++ enc32 c.res1 ++ enc32 c.length ++ enc32 c.res2 ++ enc32 c.coffFiles ++ enc32 c.res3 ++
      [c.verMinor, c.verMajor] ++ enc16 c.folders.length ++ enc16 c.files.length ++ enc16 0 ++ enc16 c.setId) []
    simpa [encCFHeader, List.append_assoc, enc32, enc16] using this

theorem C01_headers_roundtrip (c : CabSpec) (hwf : c.wf) (pre rest : Bytes) (salvage : Bool) :
    readHeaders (pre ++ encodeHeaders c ++ rest) pre.length salvage = .ok (c.listed pre.length) := by
  obtain ⟨hl, fsig, flen, fnfo, fnfi, fflags, fset, fidx⟩ := header_fields c hwf
  obtain ⟨_, _, _, _, _, _, _, hfne, _, hfine, _, hwfo, hwfi⟩ := hwf
  have hd0 : (pre ++ encodeHeaders c ++ rest).drop pre.length =
      encCFHeader c ++ (c.folders.flatMap encFolder ++ (c.files.flatMap encFile ++ rest)) := by
    simp [encodeHeaders, List.append_assoc]
  have hre := readExact_prefix _ pre.length _ _ hd0
  rw [hl] at hre
  have hd1 := drop_after _ pre.length _ _ hd0
  rw [hl] at hd1
  have hfol := readFolders_spec pre.length (pre ++ encodeHeaders c ++ rest) c.folders (pre.length + 36) [] _ hwfo hd1
  have hd2 : (pre ++ encodeHeaders c ++ rest).drop (pre.length + 36 + 8 * c.folders.length) = c.files.flatMap encFile ++ rest := by
    have hlen : (c.folders.flatMap encFolder).length = 8 * c.folders.length := by
      clear hfol hd1 hwfo hwfi hfne
      induction c.folders with
      | nil => rfl
      | cons f fs ih => simp only [List.flatMap_cons, List.length_append, ih, List.length_cons]; simp [encFolder, enc32, enc16]; omega
    have := drop_after _ (pre.length + 36) _ _ hd1
    rw [hlen] at this; exact this
  obtain ⟨r, hfil⟩ := readFiles_spec c.folders.length salvage (pre ++ encodeHeaders c ++ rest) c.files
    (pre.length + 36 + 8 * c.folders.length) [] rest hwfi hd2
  have hn1 : c.folders.length ≠ 0 := fun h => hfne (List.length_eq_zero_iff.mp h)
  have hn2 : c.files.length ≠ 0 := fun h => hfine (List.length_eq_zero_iff.mp h)
  unfold readHeaders
  rw [hre]
  generalize encCFHeader c = buf at fsig flen fnfo fnfi fflags fset fidx
  simp only [fsig, flen, fnfo, fnfi, fflags, fset, fidx, ne_eq, not_true_eq_false, ↓reduceIte, hn1, hn2,
    readReserve, readSetStrings, optString, Nat.zero_and, pure, Except.pure, decide_false, Bool.false_eq_true,
    hfol, hfil, List.reverse_nil, List.nil_append]
  have : (c.files.map FileSpec.listed).isEmpty = false := by
    cases hc : c.files with
    | nil => exact absurd hc hfine
    | cons a as => rfl
  simp only [this, Bool.false_eq_true, ↓reduceIte]
  rfl

/-- the premises are satisfiable: a two-folder, two-file cabinet with a UTF-8 name and odd field values -/
example : (⟨1000, 7, 0, 1, 2, 3, 44, 3, 1, [⟨60, 1, 1⟩, ⟨200, 2, 0x1503⟩],
    [⟨[0x61, 0x2e, 0xc3, 0xa9], 10, 0, 0, 0xA0, 1997, 3, 12, 11, 13, 52⟩, ⟨[0x62], 0, 10, 1, 0x20, 2107, 12, 31, 23, 59, 58⟩]⟩ : CabSpec).wf := by
  refine ⟨by decide, by decide, by decide, by decide, by decide, by decide, by decide, by simp, by decide, by simp, by decide, ?_, ?_⟩
  · intro f hf; simp only [List.mem_cons, List.not_mem_nil, or_false] at hf
    rcases hf with rfl | rfl <;> simp [FolderSpec.wf]
  · intro f hf; simp only [List.mem_cons, List.not_mem_nil, or_false] at hf
    rcases hf with rfl | rfl <;> simp [FileSpec.wf]

end MsPack.Cab

/-! ## C01, data area of stored folders: `extract()` writes exactly the member's bytes -/
namespace MsPack.Cab
open MsPack MsPack.Generated

/-- the member record `cabd_extract` sees for a file of a stored folder that lives in one cabinet file -/
def storedMember (fname : String) (off nblocks key o l ctHigh : Nat) : Member :=
  { length := l, offset := o, folderKey := some key, mergePrev := false, numBlocks := nblocks,
    compType := ctHigh * 16, parts := [⟨fname, 0, off⟩] }

/-- **stored folders**: for every list of well-formed CFDATA blocks (1..32768 bytes each, checksum field 0 or
    correct) laid out at any offset of a cabinet file, every member (offset, length) inside the folder's data, every
    DECOMPBUF ≥ 1, strict or salvage or repair mode: a first `extract()` of that member returns MSPACK_ERR_OK and
    writes exactly bytes [offset, offset + length) of the concatenated payloads — the block reader (sizes, checksum),
    the feeder (block boundaries, buffer refills), the stored decoder (chunks of DECOMPBUF) and `cabd_extract`'s
    skip-then-write phases compose to the identity on the data. -/
theorem C01_stored_extract (files : Files) (fname : String) (bytes : Bytes) (hlook : files.lookup fname = some bytes)
    (off : Nat) (blks : List DataBlk) (hwf : ∀ b ∈ blks, b.wf) (rest : Bytes)
    (hd : bytes.drop off = blks.flatMap encData ++ rest)
    (p : Params) (hbs : 0 < p.bufSize) (key o l : Nat) (hfit : o + l ≤ (plainOf blks).length)
    (hmax : o + l ≤ cabLENGTHMAX) (ctHigh : Nat) (hct : compMask (ctHigh * 16) = 0)
    (nblocks : Nat) (hnb : blks.length ≤ nblocks) :
    ∃ d', extract files p none (storedMember fname off nblocks key o l ctHigh) =
      .done .ok (some (((plainOf blks).drop o).take l)) d' := by
  have hpl := plain_length_le blks hwf
  -- the parameter checks
  have hcheck : memberCheck p (storedMember fname off nblocks key o l ctHigh) = .ok (l, key) := by
    simp only [cabLENGTHMAX] at hmax
    have hnb' : blks.length * 32768 ≤ nblocks * 32768 := Nat.mul_le_mul_right _ hnb
    have a1 : ¬(o > 2147450880) := by omega
    have a2 : ¬(l > 2147450880 - o) := by omega
    have a3 : ¬(o > nblocks * 32768) := by omega
    have a4 : ¬(l > nblocks * 32768 - o) := by omega
    simp only [memberCheck, storedMember, cabLENGTHMAX, cabBLOCKMAX, a1, a2, a3, a4, ↓reduceIte, decide_false, Bool.false_eq_true,
      false_and, or_self, and_false]
  -- a fresh decoder at the start of the folder
  let fd0 : Feeder := { rd := some ⟨bytes, off⟩, parts := [⟨fname, 0, off⟩], block := 0, numBlocks := nblocks, outlen := 0, buf := [],
                        compType := ctHigh * 16, readError := .ok, lzxLen := none, salvage := p.salvage, fixMszip := p.fixMszip }
  have hfresh : obtainDState files p none (storedMember fname off nblocks key o l ctHigh) key =
      .ok { folder := key, offset := 0, dec := some (.none p.bufSize .ok), feeder := fd0 } := by
    unfold obtainDState freshDState storedMember
    simp only [hlook, Option.map_some, initDec, hct]
    rfl
  have inv0 : FeedInv ⟨bytes, rest, blks.length⟩ fd0 blks (plainOf blks) :=
    ⟨⟨off, rfl, hd⟩, ⟨⟨fname, 0, off⟩, [], rfl, rfl⟩, ⟨by simp [fd0], hnb⟩, hct, hwf, by simp [fd0]⟩
  unfold extract
  rw [hcheck]; simp only; rw [hfresh]; simp only
  unfold runPhases
  simp only [storedMember]
  by_cases hl0 : l = 0
  · subst hl0; simp
  · rw [if_neg hl0]
    simp only [Nat.sub_zero]
    by_cases ho : o = 0
    · subst ho
      obtain ⟨ds', blks', e, _, _, _⟩ := runPhase_stored files _ { folder := key, offset := 0, dec := some (.none p.bufSize .ok), feeder := fd0 }
        p.bufSize hbs blks (plainOf blks) inv0 l (by omega)
      simp only [↓reduceIte, e]
      exact ⟨some ds', by simp⟩
    · simp only [ho, ↓reduceIte]
      obtain ⟨ds1, blks1, e1, inv1, hdec1, _⟩ := runPhase_stored files _ { folder := key, offset := 0, dec := some (.none p.bufSize .ok), feeder := fd0 }
        p.bufSize hbs blks (plainOf blks) inv0 o (by omega)
      rw [e1]
      simp only [ne_eq, not_true_eq_false, ↓reduceIte, hdec1]
      obtain ⟨ds2, blks2, e2, _, _, _⟩ := runPhase_stored files _ ds1 p.bufSize hbs blks1 ((plainOf blks).drop o) inv1 l
        (by rw [List.length_drop]; omega)
      rw [e2]
      exact ⟨some ds2, rfl⟩

end MsPack.Cab
