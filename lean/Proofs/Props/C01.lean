import Proofs.Lemmas.CabEncode
/-!
# C01 — CAB listing: `open()` reproduces every member's name, size, attributes, date/time, folder

`encodeHeaders` is the specification of a cabinet's header area as a writer lays it out (CFHEADER
without optional parts, CFFOLDER entries, CFFILE entries with NUL-terminated names).
`C01_headers_roundtrip`: on the model of `cabd_read_headers`, for every such cabinet — any number of
folders and files up to the 16-bit limits, any names of 1..255 bytes without NUL, any sizes, offsets,
attributes, DOS dates and times, any reserved-field contents — wherever it sits in a file (any
prefix: `search()` opens embedded cabinets at any offset) and whatever follows it, the listing is
exactly the specified one, in strict and in salvage mode.

Not covered by this theorem: the optional header parts (reserve areas, previous/next cabinet
strings: exercised by the generators and the model/implementation comparison), and the data area
(per-decoder round trips: stored blocks in `C07`, MSZIP/LZX/Quantum by differential runs).
-/
namespace MsPack.Cab
open MsPack
open MsPack.Oab (enc32 readExact_prefix drop_after)

theorem header_fields (c : CabSpec) (h : c.wf) :
    (encCFHeader c).length = 36 ∧ u32At (encCFHeader c) 0 = 0x4643534D ∧ u32At (encCFHeader c) 8 = c.length ∧
    u16At (encCFHeader c) 0x1A = c.folders.length ∧ u16At (encCFHeader c) 0x1C = c.files.length ∧
    u16At (encCFHeader c) 0x1E = 0 ∧ u16At (encCFHeader c) 0x20 = c.setId ∧ u16At (encCFHeader c) 0x22 = c.setIndex := by
  obtain ⟨h1, h2, h3, _, _, _, _, _, h4, _, h5, _, _⟩ := h
  refine ⟨rfl, ?_, ?_, ?_, ?_, ?_, ?_, ?_⟩
  · have := u32_enc32 0x4643534D (by omega) [] (enc32 c.res1 ++ enc32 c.length ++ enc32 c.res2 ++ enc32 c.coffFiles ++ enc32 c.res3 ++
      [c.verMinor, c.verMajor] ++ enc16 c.folders.length ++ enc16 c.files.length ++ enc16 0 ++ enc16 c.setId ++ enc16 c.setIndex)
    simpa [encCFHeader, List.append_assoc] using this
  · have := u32_enc32 c.length h1 (enc32 0x4643534D ++ enc32 c.res1) (enc32 c.res2 ++ enc32 c.coffFiles ++ enc32 c.res3 ++
      [c.verMinor, c.verMajor] ++ enc16 c.folders.length ++ enc16 c.files.length ++ enc16 0 ++ enc16 c.setId ++ enc16 c.setIndex)
    simpa [encCFHeader, List.append_assoc, enc32] using this
  · have := u16_enc16 c.folders.length h4 (enc32 0x4643534D ++ enc32 c.res1 ++ enc32 c.length ++ enc32 c.res2 ++ enc32 c.coffFiles ++ enc32 c.res3 ++
      [c.verMinor, c.verMajor]) (enc16 c.files.length ++ enc16 0 ++ enc16 c.setId ++ enc16 c.setIndex)
    simpa [encCFHeader, List.append_assoc, enc32] using this
  · have := u16_enc16 c.files.length h5 (enc32 0x4643534D ++ enc32 c.res1 ++ enc32 c.length ++ enc32 c.res2 ++ enc32 c.coffFiles ++ enc32 c.res3 ++
      [c.verMinor, c.verMajor] ++ enc16 c.folders.length) (enc16 0 ++ enc16 c.setId ++ enc16 c.setIndex)
    simpa [encCFHeader, List.append_assoc, enc32, enc16] using this
  · have := u16_enc16 0 (by omega) (enc32 0x4643534D ++ enc32 c.res1 ++ enc32 c.length ++ enc32 c.res2 ++ enc32 c.coffFiles ++ enc32 c.res3 ++
      [c.verMinor, c.verMajor] ++ enc16 c.folders.length ++ enc16 c.files.length) (enc16 c.setId ++ enc16 c.setIndex)
    simpa [encCFHeader, List.append_assoc, enc32, enc16] using this
  · have := u16_enc16 c.setId h2 (enc32 0x4643534D ++ enc32 c.res1 ++ enc32 c.length ++ enc32 c.res2 ++ enc32 c.coffFiles ++ enc32 c.res3 ++
      [c.verMinor, c.verMajor] ++ enc16 c.folders.length ++ enc16 c.files.length ++ enc16 0) (enc16 c.setIndex)
    simpa [encCFHeader, List.append_assoc, enc32, enc16] using this
  · have := u16_enc16 c.setIndex h3 (enc32 0x4643534D ++ enc32 c.res1 ++ enc32 c.length ++ enc32 c.res2 ++ enc32 c.coffFiles ++ enc32 c.res3 ++
      [c.verMinor, c.verMajor] ++ enc16 c.folders.length ++ enc16 c.files.length ++ enc16 0 ++ enc16 c.setId) []
    simpa [encCFHeader, List.append_assoc, enc32, enc16] using this

theorem C01_headers_roundtrip (c : CabSpec) (hwf : c.wf) (pre rest : Bytes) (salvage : Bool) :
    readHeaders (pre ++ encodeHeaders c ++ rest) pre.length salvage = .ok (c.listed pre.length) := by
  obtain ⟨hl, fsig, flen, fnfo, fnfi, fflags, fset, fidx⟩ := header_fields c hwf
  obtain ⟨_, _, _, _, _, _, _, hfne, _, hfine, _, hwfo, hwfi⟩ := hwf
  have hd0 : (pre ++ encodeHeaders c ++ rest).drop pre.length =
      encCFHeader c ++ (c.folders.flatMap encFolder ++ (c.files.flatMap encFile ++ rest)) := by
    simp [encodeHeaders, List.append_assoc]
  have hre := readExact_prefix _ pre.length _ _ hd0
  rw [hl] at hre
  have hd1 := drop_after _ pre.length _ _ hd0
  rw [hl] at hd1
  have hfol := readFolders_spec pre.length (pre ++ encodeHeaders c ++ rest) c.folders (pre.length + 36) [] _ hwfo hd1
  have hd2 : (pre ++ encodeHeaders c ++ rest).drop (pre.length + 36 + 8 * c.folders.length) = c.files.flatMap encFile ++ rest := by
    have hlen : (c.folders.flatMap encFolder).length = 8 * c.folders.length := by
      clear hfol hd1 hwfo hwfi hfne
      induction c.folders with
      | nil => rfl
      | cons f fs ih => simp only [List.flatMap_cons, List.length_append, ih, List.length_cons]; simp [encFolder, enc32, enc16]; omega
    have := drop_after _ (pre.length + 36) _ _ hd1
    rw [hlen] at this; exact this
  obtain ⟨r, hfil⟩ := readFiles_spec c.folders.length salvage (pre ++ encodeHeaders c ++ rest) c.files
    (pre.length + 36 + 8 * c.folders.length) [] rest hwfi hd2
  have hn1 : c.folders.length ≠ 0 := fun h => hfne (List.length_eq_zero_iff.mp h)
  have hn2 : c.files.length ≠ 0 := fun h => hfine (List.length_eq_zero_iff.mp h)
  unfold readHeaders
  rw [hre]
  generalize encCFHeader c = buf at fsig flen fnfo fnfi fflags fset fidx
  simp only [fsig, flen, fnfo, fnfi, fflags, fset, fidx, ne_eq, not_true_eq_false, ↓reduceIte, hn1, hn2,
    readReserve, readSetStrings, optString, Nat.zero_and, pure, Except.pure, decide_false, Bool.false_eq_true,
    hfol, hfil, List.reverse_nil, List.nil_append]
  have : (c.files.map FileSpec.listed).isEmpty = false := by
    cases hc : c.files with
    | nil => exact absurd hc hfine
    | cons a as => rfl
  simp only [this, Bool.false_eq_true, ↓reduceIte]
  rfl

/-- the premises are satisfiable: a two-folder, two-file cabinet with a UTF-8 name and odd field values -/
example : (⟨1000, 7, 0, 1, 2, 3, 44, 3, 1, [⟨60, 1, 1⟩, ⟨200, 2, 0x1503⟩],
    [⟨[0x61, 0x2e, 0xc3, 0xa9], 10, 0, 0, 0xA0, 1997, 3, 12, 11, 13, 52⟩, ⟨[0x62], 0, 10, 1, 0x20, 2107, 12, 31, 23, 59, 58⟩]⟩ : CabSpec).wf := by
  refine ⟨by decide, by decide, by decide, by decide, by decide, by decide, by decide, by simp, by decide, by simp, by decide, ?_, ?_⟩
  · intro f hf; simp only [List.mem_cons, List.not_mem_nil, or_false] at hf
    rcases hf with rfl | rfl <;> simp [FolderSpec.wf]
  · intro f hf; simp only [List.mem_cons, List.not_mem_nil, or_false] at hf
    rcases hf with rfl | rfl <;> simp [FileSpec.wf]

end MsPack.Cab
