import Proofs.Lemmas.QtmBounds
import Proofs.Lemmas.BlockBounds
import MsPack.Lzss.Decoder
/-!
# C02 — memory safety of the Quantum decompressor (`qtmd_decompress`)

The model (`MsPack/Qtm/Decoder.lean`) renders every access the C makes to the window, to the input
buffer, to the `mNsym[]` arrays of the nine adaptive models and to the four constant tables as a
checked access (`Fault.oob …`), every shift whose count could leave 0..31 as `Fault.shiftWidth`, and
the two divisions of `GET_SYMBOL` as `Fault.divZero`.  The theorems below say that none of these
outcomes can be taken by `Qtm.decompress`, for **every** input source, iteration bound, byte count and
every decoder state that satisfies the invariant `StInv` — which `Qtm.init` establishes
(`C02_qtm_init`) and every call, successful or not, preserves (`C02_qtm_preserved`), so the
statement composes over any sequence of calls (`C02_qtm_session`).

The only faults `Qtm.decompress` can end with are the iteration bound (`Fault.hang`) and a fault
that the *source's own* `read` returned (`C02_qtm_fault_origin`); for the CAB feeder — whose `read`
is proved free of `oob` in `C02.lean` — and for a plain file handle the statements are unconditional.

Invariant (`StInv`, `Proofs/Lemmas/QtmBounds.lean`): `window.size = window_size`,
`1024 ≤ window_size ≤ 2^21`, `o_end ≤ window_size`, `window_posn ≤ window_size`, `bits_left ≤ 32`,
`bit_buffer < 2^32`, and for each model (`Model.Ok`, `Proofs/Lemmas/QtmModelBounds.lean`)
`1 ≤ entries ≤ 64`, `entries < syms.size`, symbols of slots `0..entries-1` below the dimension of the
table they index (42 for models 4, 5, 6; 27 for model 6len), `cumfreq` strictly decreasing on
`0..entries`, `cumfreq[entries] = 0`, `cumfreq[0] ≤ 3800`.
-/
namespace MsPack.Qtm
open MsPack MsPack.Generated

variable {σ : Type} (S : Src σ)

/-- `qtmd_init` establishes the invariant (for every window size it accepts, every input buffer
    size and every fill pattern of the fresh allocation) -/
theorem C02_qtm_init (src : σ) (windowBits inputBufferSize : Nat) (fill : UInt8) (st : St σ)
    (h : init src windowBits inputBufferSize fill = some st) : StInv st :=
  init_StInv src windowBits inputBufferSize fill st h

/-- the invariant does not mention the input handle (the CAB layer swaps it before each call) -/
theorem StInv_src {τ : Type} (st : St σ) (src : τ) (h : StInv st) :
    StInv ({ st with src := src } : St τ) := h

/-- every call that returns (with whatever status code) leaves a state satisfying the invariant -/
theorem C02_qtm_preserved (fuel : Nat) (st : St σ) (outBytes : Nat) (h : StInv st)
    (o : DecodeOut (St σ)) (ho : decompress S fuel st outBytes = .ok o) : StInv o.st := by
  have := decompress_spec S fuel st outBytes h
  rw [ho] at this
  exact this

/-- the only faults a call can end with: the iteration bound, or a fault the source's `read`
    returned itself -/
theorem C02_qtm_fault_origin (fuel : Nat) (st : St σ) (outBytes : Nat) (h : StInv st) (f : Fault)
    (hf : decompress S fuel st outBytes = .error f) :
    f = .hang ∨ ∃ s n, S.read s n = .error f := by
  have := decompress_spec S fuel st outBytes h
  rw [hf] at this
  exact this

/-- no access outside the window, the input buffer, the model arrays or the constant tables -/
theorem C02_qtm_no_oob (hS : ∀ s n w, S.read s n ≠ .error (.oob w)) (fuel : Nat) (st : St σ)
    (outBytes : Nat) (h : StInv st) (w : String) :
    decompress S fuel st outBytes ≠ .error (.oob w) := by
  intro hf
  rcases C02_qtm_fault_origin S fuel st outBytes h _ hf with hh | ⟨s, n, hr⟩
  · cases hh
  · exact hS s n w hr

/-- no shift by a count outside 0..31 (`INJECT_BITS`, `PEEK_BITS`, `REMOVE_BITS`) -/
theorem C02_qtm_no_shiftWidth (hS : ∀ s n, S.read s n ≠ .error .shiftWidth) (fuel : Nat) (st : St σ)
    (outBytes : Nat) (h : StInv st) : decompress S fuel st outBytes ≠ .error .shiftWidth := by
  intro hf
  rcases C02_qtm_fault_origin S fuel st outBytes h _ hf with hh | ⟨s, n, hr⟩
  · cases hh
  · exact hS s n hr

/-- no division by zero in `GET_SYMBOL` (`range`, `syms[0].cumfreq`) -/
theorem C02_qtm_no_divZero (hS : ∀ s n, S.read s n ≠ .error .divZero) (fuel : Nat) (st : St σ)
    (outBytes : Nat) (h : StInv st) : decompress S fuel st outBytes ≠ .error .divZero := by
  intro hf
  rcases C02_qtm_fault_origin S fuel st outBytes h _ hf with hh | ⟨s, n, hr⟩
  · cases hh
  · exact hS s n hr

/-- the model has no null-pointer outcome of its own; none can appear -/
theorem C02_qtm_no_nullDeref (hS : ∀ s n w, S.read s n ≠ .error (.nullDeref w)) (fuel : Nat)
    (st : St σ) (outBytes : Nat) (h : StInv st) (w : String) :
    decompress S fuel st outBytes ≠ .error (.nullDeref w) := by
  intro hf
  rcases C02_qtm_fault_origin S fuel st outBytes h _ hf with hh | ⟨s, n, hr⟩
  · cases hh
  · exact hS s n w hr

/-- … nor a read of uninitialised memory -/
theorem C02_qtm_no_uninit (hS : ∀ s n w, S.read s n ≠ .error (.uninit w)) (fuel : Nat)
    (st : St σ) (outBytes : Nat) (h : StInv st) (w : String) :
    decompress S fuel st outBytes ≠ .error (.uninit w) := by
  intro hf
  rcases C02_qtm_fault_origin S fuel st outBytes h _ hf with hh | ⟨s, n, hr⟩
  · cases hh
  · exact hS s n w hr

/-! ### a whole session: `init`, then any number of calls with any byte counts -/

/-- `decompress` called once per element of `ns`, each call on the state the previous one left
    (whatever status it returned); the states after each call, or the first fault -/
def session (fuel : Nat) : St σ → List Nat → Except Fault (List (DecodeOut (St σ)))
  | _, [] => .ok []
  | st, n :: ns =>
    match decompress S fuel st n with
    | .error f => .error f
    | .ok o =>
      match session fuel o.st ns with
      | .error f => .error f
      | .ok os => .ok (o :: os)

theorem C02_qtm_session (fuel : Nat) (st : St σ) (ns : List Nat) (h : StInv st) (f : Fault)
    (hf : session S fuel st ns = .error f) : f = .hang ∨ ∃ s n, S.read s n = .error f := by
  induction ns generalizing st with
  | nil => simp [session] at hf
  | cons n ns ih =>
    simp only [session] at hf
    split at hf
    · rename_i f' hd
      cases hf
      exact C02_qtm_fault_origin S fuel st n h _ hd
    · rename_i o hd
      split at hf
      · rename_i f' hs
        cases hf
        exact ih o.st (C02_qtm_preserved S fuel st n h o hd) hs
      · cases hf

/-- from `qtmd_init` on, no sequence of calls reaches an out-of-bounds access -/
theorem C02_qtm_session_no_oob (hS : ∀ s n w, S.read s n ≠ .error (.oob w)) (src : σ)
    (windowBits inputBufferSize : Nat) (fill : UInt8) (st : St σ)
    (hi : init src windowBits inputBufferSize fill = some st) (fuel : Nat) (ns : List Nat) (w : String) :
    session S fuel st ns ≠ .error (.oob w) := by
  intro hf
  rcases C02_qtm_session S fuel st ns (C02_qtm_init src _ _ fill st hi) _ hf with hh | ⟨s, n, hr⟩
  · cases hh
  · exact hS s n w hr

/-! ### the two sources the library uses -/

/-- a plain file handle never faults -/
theorem rdSrc_no_fault (s : Rd) (n : Nat) (f : Fault) : Rd.src.read s n ≠ .error f := by
  simp [Rd.src]

/-- Quantum on a plain file handle: the four undefined-behaviour outcomes are unreachable -/
theorem C02_qtm_file_no_ub (fuel : Nat) (st : St Rd) (outBytes : Nat) (h : StInv st) (f : Fault)
    (hf : decompress Rd.src fuel st outBytes = .error f) : f = .hang := by
  rcases C02_qtm_fault_origin Rd.src fuel st outBytes h _ hf with hh | ⟨s, n, hr⟩
  · exact hh
  · exact absurd hr (rdSrc_no_fault s n f)

/-- Quantum inside a cabinet (input = the CAB block feeder of `C02.lean`): no out-of-bounds access,
    neither in the decoder nor in the feeder underneath it -/
theorem C02_qtm_cab_no_oob (files : Cab.Files) (fuel : Nat) (st : St Cab.Feeder) (outBytes : Nat)
    (h : StInv st) (w : String) :
    decompress (Cab.feederSrc files) fuel st outBytes ≠ .error (.oob w) :=
  C02_qtm_no_oob (Cab.feederSrc files)
    (fun s n w => Cab.feederRead_no_oob files _ s n [] w) fuel st outBytes h w

/-! ### non-vacuity: concrete runs that decode literals and matches and return normally -/

/-- 24 bytes of (arbitrary) Quantum input on a fresh 1 KiB-window decoder -/
def exampleInput : Bytes :=
  [0xe3, 0x5a, 0x91, 0x7e, 0xa8, 0xd4, 0x6b, 0xf1, 0x8e, 0xa7, 0x39, 0x85, 0xcc, 0x52, 0x1d, 0xe6,
   0x73, 0x9a, 0x04, 0xbf, 0x61, 0x2c, 0xd8, 0x47]

/-- `init` succeeds, and one call for 24 bytes decodes literals and matches and returns `OK` -/
example :
    (match init (⟨exampleInput, 0⟩ : Rd) 10 16 0xAA with
     | none => false
     | some st =>
       match decompress Rd.src 200 st 24 with
       | .ok o => o.err == .ok &&
           o.written == [50, 15, 13, 22, 0, 0, 0, 15, 13, 15, 7, 62, 7, 62, 7, 44, 58, 3, 52, 3, 52, 3, 56, 61]
       | .error _ => false) = true := by decide +kernel

/-- a session of three calls (10 + 7 + 7 bytes) delivers the same 24 bytes, every call returns `OK` -/
example :
    (match init (⟨exampleInput, 0⟩ : Rd) 10 16 0xAA with
     | none => false
     | some st =>
       match session Rd.src 200 st [10, 7, 7] with
       | .ok os => os.all (fun o => o.err == .ok) &&
           (os.map (·.written)).flatten ==
             [50, 15, 13, 22, 0, 0, 0, 15, 13, 15, 7, 62, 7, 62, 7, 44, 58, 3, 52, 3, 52, 3, 56, 61]
       | .error _ => false) = true := by decide +kernel

end MsPack.Qtm
