import Proofs.Props.C08MszipFull
/-!
# C08, MSZIP folders, strict mode: full history freedom

`C08_mszip_history_free`: for an MSZIP folder (setting of `C08MszipCab.lean`), strict MSZIP (`fix_mszip` off), ANY list of
`extract()` calls on ANY members of the folder — in any order, succeeding or failing, nothing assumed to decode —
threaded through the decoder cache: every call that returns (status and bytes; i.e. no model fault) returns exactly
what the same call on a fresh instance returns.  `…_single`: a folder inside one cabinet file, no fuel condition.

Invariant (`FullCache`): the cache is nothing, or this folder's decoder/feeder pair as reached from the fresh pair by
ONE decoder call for `R` bytes that wrote `ds.offset` bytes with status `e` (`e = ok → R = ds.offset`).
`runPhase_inv`: every decoder call of `cabd_extract` keeps it (from an OK state by the chunking law `skip_join`, second
status arbitrary; from a failed state the call is sticky and nothing moves).  One call against such a cache is the
fresh call by `extract_mszip_free` (`e = ok`) / `extract_mszip_after_failure` (`e ≠ ok`).
-/
namespace MsPack.Cab
open MsPack MsPack.Generated

section
variable (files : Files) (fd0 : Feeder) (st0 : Zip.St Feeder)

/-- this folder's `DState` as reached from the fresh pair by one decoder call -/
def FullInv (key : Nat) (ds : DState) : Prop :=
  ∃ (st : Zip.St Feeder) (R : Nat) (e : Err) (w : Bytes), ds.folder = key ∧ ds.dec = some (.mszip st) ∧
    Zip.decompress (feederSrc files) (chainFuel files fd0) { st0 with src := fd0 } R =
      .ok ⟨e, w, { st with src := ds.feeder }⟩ ∧
    w.length = ds.offset ∧ (e = .ok → R = ds.offset)

def FullCache (key : Nat) (d : Option DState) : Prop := ∀ ds, d = some ds → FullInv files fd0 st0 key ds

variable {files fd0 st0}

/-- every decoder call of `cabd_extract` keeps the invariant -/
theorem runPhase_inv (hst : Zip.ZipInv st0) (hrep : st0.repair = false)
    (hf0 : st0.bits.length + 8 * st0.inbuf.length + 8 * feederLeft files fd0
      + (if st0.inputEnd then 0 else 16) + 1 ≤ decFuel files)
    (key : Nat) (ds : DState) (st : Zip.St Feeder) (R : Nat) (e : Err) (w : Bytes) (hfol : ds.folder = key)
    (hcall : Zip.decompress (feederSrc files) (chainFuel files fd0) { st0 with src := fd0 } R =
      .ok ⟨e, w, { st with src := ds.feeder }⟩)
    (hlen : w.length = ds.offset) (hR : e = .ok → R = ds.offset)
    (k : Nat) (e1 : Err) (w1 : Bytes) (ds1 : DState)
    (h : runPhase files ds (.mszip st) k = .ran e1 w1 ds1) : FullInv files fd0 st0 key ds1 := by
  by_cases he : e = .ok
  · subst he
    have hRp := hR rfl
    subst hRp
    unfold runPhase at h
    cases hc : decompress files (.mszip st) ds.feeder k with
    | error f => rw [hc] at h; cases h
    | ok oo =>
      cases oo with
      | none => rw [hc] at h; cases h
      | some o =>
        rw [hc] at h
        simp only [PhaseResult.ran.injEq] at h
        obtain ⟨_, _, hds⟩ := h
        obtain ⟨Z2, hz, hdec, hfd⟩ := ZipChunkCab.decompress_mszip_inv files st ds.feeder k o hc
        have hnh : Zip.decompress (feederSrc files) (chainFuel files fd0) { st0 with src := fd0 } (ds.offset + k)
            ≠ .error .hang :=
          Zip.C04_zip_decompress_no_hang (feederSrc_ok files) _ _ _
            (Nat.le_trans hf0 (zcc_decFuel_le_chainFuel files fd0))
        have hj := Zip.ZipFree.skip_join (feederSrc files) _ _ (chainFuel files fd0) { st0 with src := fd0 } _ hst
          ds.offset k w ⟨o.err, o.written, Z2⟩ hcall hz hnh
        subst hds
        refine ⟨Z2, ds.offset + k, o.err, w ++ o.written, hfol, by rw [hdec], ?_, ?_, ?_⟩
        · dsimp only
          rw [hfd]
          exact hj
        · rw [List.length_append, hlen]
        · intro hok
          have hj' : Zip.decompress (feederSrc files) (chainFuel files fd0) { st0 with src := fd0 } (ds.offset + k) =
              .ok ⟨.ok, w ++ o.written, Z2⟩ := by rw [← hok]; exact hj
          have h2 := Zip.C08_mszip_ok_length (feederSrc files) _ { st0 with src := fd0 } hst _ _ _ hj'
          rw [List.length_append, hlen] at h2
          show ds.offset + k = ds.offset + o.written.length
          omega
  · have hE : st.error = e :=
      Zip.C08_mszip_fail_sticky files _ { st0 with src := fd0 } hst hrep R e w { st with src := ds.feeder } hcall he
    rw [runPhase_sticky ds st e hE he k] at h
    simp only [PhaseResult.ran.injEq] at h
    obtain ⟨_, _, hds⟩ := h
    subst hds
    exact ⟨{ st with src := ds.feeder }, R, e, w, hfol, rfl, hcall, by dsimp only; omega,
      fun hc => absurd hc he⟩

/-- both phases keep the invariant -/
theorem runPhases_inv (hst : Zip.ZipInv st0) (hrep : st0.repair = false)
    (hf0 : st0.bits.length + 8 * st0.inbuf.length + 8 * feederLeft files fd0
      + (if st0.inputEnd then 0 else 16) + 1 ≤ decFuel files)
    (key : Nat) (ds : DState) (hinv : FullInv files fd0 st0 key ds) (m : Member) (L : Nat)
    (e' : Err) (w' : Option Bytes) (d' : Option DState)
    (h : runPhases files ds m L = .done e' w' d') : FullCache files fd0 st0 key d' := by
  obtain ⟨st, R, e, w, hfol, hdec, hcall, hlen, hR⟩ := hinv
  have hinv0 : FullInv files fd0 st0 key ds := ⟨st, R, e, w, hfol, hdec, hcall, hlen, hR⟩
  unfold runPhases at h
  rw [hdec] at h
  simp only at h
  by_cases hl0 : L = 0
  · rw [if_pos hl0] at h
    simp only [ExtractResult.done.injEq] at h
    obtain ⟨_, _, rfl⟩ := h
    intro ds' hd; cases hd; exact hinv0
  · rw [if_neg hl0] at h
    by_cases hs : m.offset - ds.offset = 0
    · rw [if_pos hs] at h
      cases hrp : runPhase files ds (.mszip st) L with
      | fault f => rw [hrp] at h; cases h
      | unsupported => rw [hrp] at h; cases h
      | ran e1 w1 ds1 =>
        rw [hrp] at h
        simp only [ExtractResult.done.injEq] at h
        obtain ⟨_, _, rfl⟩ := h
        intro ds' hd; cases hd
        exact runPhase_inv hst hrep hf0 key ds st R e w hfol hcall hlen hR L _ _ _ hrp
    · rw [if_neg hs] at h
      cases hrp : runPhase files ds (.mszip st) (m.offset - ds.offset) with
      | fault f => rw [hrp] at h; cases h
      | unsupported => rw [hrp] at h; cases h
      | ran e1 w1 ds1 =>
        rw [hrp] at h
        simp only at h
        have hinv1 := runPhase_inv hst hrep hf0 key ds st R e w hfol hcall hlen hR _ _ _ _ hrp
        by_cases hne : e1 ≠ .ok
        · rw [if_pos hne] at h
          simp only [ExtractResult.done.injEq] at h
          obtain ⟨_, _, rfl⟩ := h
          intro ds' hd; cases hd; exact hinv1
        · rw [if_neg hne] at h
          obtain ⟨st1, R1, ee1, ww1, hfol1, hdec1, hcall1, hlen1, hR1⟩ := hinv1
          rw [hdec1] at h
          simp only at h
          cases hrp2 : runPhase files ds1 (.mszip st1) L with
          | fault f => rw [hrp2] at h; cases h
          | unsupported => rw [hrp2] at h; cases h
          | ran e2 w2 ds2 =>
            rw [hrp2] at h
            simp only [ExtractResult.done.injEq] at h
            obtain ⟨_, _, rfl⟩ := h
            intro ds' hd; cases hd
            exact runPhase_inv hst hrep hf0 key ds1 st1 R1 ee1 ww1 hfol1 hcall1 hlen1 hR1 L _ _ _ hrp2

end

/-- the cache an `extract()` call leaves satisfies the invariant again -/
theorem extract_full_cache (files : Files) (p : Params) (part : Part) (more : List Part) (bytes : Bytes)
    (nblocks key ct : Nat) (st0 : Zip.St Feeder)
    (hlook : files.lookup part.fname = some bytes) (hct : compMask ct = 1) (hstrict : p.fixMszip = false)
    (hinit : Zip.init nullFeeder p.bufSize p.fixMszip p.fill = some st0)
    (hfuel0 : 8 * feederLeft files (mszipFreshFeeder p bytes part more nblocks ct) + 17 ≤ decFuel files)
    (d : Option DState) (hcache : FullCache files (mszipFreshFeeder p bytes part more nblocks ct) st0 key d)
    (o l : Nat) (e' : Err) (w' : Option Bytes) (d' : Option DState)
    (h : extract files p d (mszipMember (part :: more) nblocks key ct o l) = .done e' w' d') :
    FullCache files (mszipFreshFeeder p bytes part more nblocks ct) st0 key d' := by
  have hst : Zip.ZipInv st0 := Zip.C02_zip_init_inv _ _ _ _ st0 hinit
  obtain ⟨hrep, he00⟩ := zipInit_repair_error _ _ _ _ st0 hinit
  rw [hstrict] at hrep
  have hf0 : st0.bits.length + 8 * st0.inbuf.length + 8 * feederLeft files (mszipFreshFeeder p bytes part more nblocks ct)
      + (if st0.inputEnd then 0 else 16) + 1 ≤ decFuel files := by
    obtain ⟨h1, h2, _, h4, _⟩ := Zip.init_fields hinit
    rw [h1, h2, h4]
    simp only [List.length_nil, Nat.mul_zero, Nat.zero_add, Bool.false_eq_true, ↓reduceIte]
    omega
  unfold extract at h
  cases hc : memberCheck p (mszipMember (part :: more) nblocks key ct o l) with
  | error e0 =>
    rw [hc] at h
    simp only [ExtractResult.done.injEq] at h
    obtain ⟨_, _, rfl⟩ := h
    exact hcache
  | ok v =>
    obtain ⟨filelen, key'⟩ := v
    have hk : (mszipMember (part :: more) nblocks key ct o l).folderKey = some key' := by
      unfold memberCheck at hc
      simp only at hc
      repeat' split at hc
      all_goals first
        | contradiction
        | (simp only [Except.ok.injEq, Prod.mk.injEq] at hc; simp_all)
    have hkk : key' = key := by
      simp only [mszipMember, Option.some.injEq] at hk
      exact hk.symm
    subst hkk
    rw [hc] at h
    simp only at h
    have hdec0 : initDec p ct = some (.mszip st0) := by
      simp only [initDec, hct, hinit, Option.map_some]
    have hfreshDS : freshDState files p (mszipMember (part :: more) nblocks key' ct o l) key' =
        .ok ⟨key', 0, mszipFreshFeeder p bytes part more nblocks ct, some (.mszip st0)⟩ := by
      unfold freshDState mszipMember
      simp only [hlook, Option.map_some, hdec0]
      rfl
    have hinv0 : FullInv files (mszipFreshFeeder p bytes part more nblocks ct) st0 key'
        ⟨key', 0, mszipFreshFeeder p bytes part more nblocks ct, some (.mszip st0)⟩ := by
      refine ⟨st0, 0, .ok, [], rfl, rfl, ?_, rfl, fun _ => rfl⟩
      rw [Zip.ZipChunk.decompress_eq, Zip.ZipChunk.pend_exact (feederSrc files) _ _
        { st0 with src := mszipFreshFeeder p bytes part more nblocks ct } he00 0 (Nat.zero_le _)]
      rfl
    have hused : ∃ ds, obtainDState files p d (mszipMember (part :: more) nblocks key' ct o l) key' = .ok ds ∧
        FullInv files (mszipFreshFeeder p bytes part more nblocks ct) st0 key' ds := by
      unfold obtainDState
      cases d with
      | none => exact ⟨_, hfreshDS, hinv0⟩
      | some ds =>
        simp only
        split
        · exact ⟨ds, rfl, hcache ds rfl⟩
        · exact ⟨_, hfreshDS, hinv0⟩
    obtain ⟨ds, hob, hinv⟩ := hused
    rw [hob] at h
    simp only at h
    exact runPhases_inv hst hrep hf0 key' ds hinv _ filelen e' w' d' h

/-- one call against a cache satisfying the invariant: the fresh instance's status and bytes -/
theorem extract_full_fresh (files : Files) (p : Params) (part : Part) (more : List Part) (bytes : Bytes)
    (nblocks key ct : Nat) (st0 : Zip.St Feeder)
    (hlook : files.lookup part.fname = some bytes) (hct : compMask ct = 1) (hstrict : p.fixMszip = false)
    (hinit : Zip.init nullFeeder p.bufSize p.fixMszip p.fill = some st0)
    (hfuel0 : 8 * feederLeft files (mszipFreshFeeder p bytes part more nblocks ct) + 17 ≤ decFuel files)
    (d : Option DState) (hcache : FullCache files (mszipFreshFeeder p bytes part more nblocks ct) st0 key d)
    (o l : Nat) (e' : Err) (w' : Option Bytes) (d' : Option DState)
    (h : extract files p d (mszipMember (part :: more) nblocks key ct o l) = .done e' w' d') :
    (extract files p none (mszipMember (part :: more) nblocks key ct o l)).observable = some (e', w') := by
  cases d with
  | none =>
    exact extract_mszip_free files p part more bytes nblocks key ct st0 hlook hct hinit hfuel0 none (Or.inl rfl)
      o l e' w' d' h
  | some ds =>
    obtain ⟨st, R, e, w, hfol, hdec, hcall, hlen, hR⟩ := hcache ds rfl
    by_cases he : e = .ok
    · subst he
      have := hR rfl
      subst this
      exact extract_mszip_free files p part more bytes nblocks key ct st0 hlook hct hinit hfuel0 (some ds)
        (Or.inr ⟨ds, st, rfl, hfol, hdec, ⟨w, hcall⟩⟩) o l e' w' d' h
    · exact extract_mszip_after_failure files p part more bytes nblocks key ct st0 hlook hct hstrict hinit hfuel0
        ds hfol st hdec R e w hcall he hlen o l e' w' d' h

/-- **full history freedom, MSZIP folders, strict mode.**  ANY list `ms` of `extract()` calls on ANY members
    `(offset, length)` of the folder, threaded through the decoder cache as `mszipRunSeq` does (it stops at a call
    that ends in a model fault): every call's status and bytes are those of the same call on a fresh instance. -/
theorem C08_mszip_history_free (files : Files) (p : Params) (part : Part) (more : List Part) (bytes : Bytes)
    (nblocks key ct : Nat) (st0 : Zip.St Feeder)
    (hlook : files.lookup part.fname = some bytes) (hct : compMask ct = 1) (hstrict : p.fixMszip = false)
    (hinit : Zip.init nullFeeder p.bufSize p.fixMszip p.fill = some st0)
    (hfuel0 : 8 * feederLeft files (mszipFreshFeeder p bytes part more nblocks ct) + 17 ≤ decFuel files)
    (ms : List (Nat × Nat)) :
    ∀ x ∈ (mszipRunSeq files p nblocks key ct (part :: more) ms none).zip ms,
      (extract files p none (mszipMember (part :: more) nblocks key ct x.2.1 x.2.2)).observable = some x.1 := by
  suffices hgen : ∀ (ms : List (Nat × Nat)) (d : Option DState),
      FullCache files (mszipFreshFeeder p bytes part more nblocks ct) st0 key d →
      ∀ x ∈ (mszipRunSeq files p nblocks key ct (part :: more) ms d).zip ms,
        (extract files p none (mszipMember (part :: more) nblocks key ct x.2.1 x.2.2)).observable = some x.1 from
    hgen ms none (fun _ hd => nomatch hd)
  intro ms
  induction ms with
  | nil => intro d _ x hx; simp [mszipRunSeq] at hx
  | cons m ms ih =>
    intro d hc x hx
    obtain ⟨o, l⟩ := m
    cases hex : extract files p d (mszipMember (part :: more) nblocks key ct o l) with
    | done e' w' d' =>
      simp only [mszipRunSeq, hex, List.zip_cons_cons, List.mem_cons] at hx
      rcases hx with rfl | hx
      · exact extract_full_fresh files p part more bytes nblocks key ct st0 hlook hct hstrict hinit hfuel0 d hc
          o l e' w' d' hex
      · exact ih d' (extract_full_cache files p part more bytes nblocks key ct st0 hlook hct hstrict hinit hfuel0 d hc
          o l e' w' d' hex) x hx
    | unsupported => simp [mszipRunSeq, hex] at hx
    | fault f => simp [mszipRunSeq, hex] at hx

/-- … for a folder that lies in one cabinet file: no condition on the fuel -/
theorem C08_mszip_history_free_single (files : Files) (p : Params) (part : Part) (bytes : Bytes)
    (nblocks key ct : Nat) (st0 : Zip.St Feeder)
    (hlook : files.lookup part.fname = some bytes) (hct : compMask ct = 1) (hstrict : p.fixMszip = false)
    (hinit : Zip.init nullFeeder p.bufSize p.fixMszip p.fill = some st0)
    (ms : List (Nat × Nat)) :
    ∀ x ∈ (mszipRunSeq files p nblocks key ct [part] ms none).zip ms,
      (extract files p none (mszipMember [part] nblocks key ct x.2.1 x.2.2)).observable = some x.1 := by
  refine C08_mszip_history_free files p part [] bytes nblocks key ct st0 hlook hct hstrict hinit ?_ ms
  have hle := zcc_lookup_le part.fname bytes files 0 hlook
  simp only [feederLeft, mszipFreshFeeder, chainLeft, rdLeft, restLeft, List.tail_cons, List.length_nil, decFuel]
  omega

/-! ## evaluation (the two-block folder of `C08MszipCab`, 5 bytes; no theorem involved) -/

/-- a history with two failing calls (past the end of the folder) in the middle: every call returns, and returns what
    a fresh instance returns -/
example :
    (mszipRunSeq zccFiles {} 2 7 1 [zccPart] [(0, 2), (3, 10), (3, 2), (4, 5), (0, 5), (5, 1)] none).map some =
      [(0, 2), (3, 10), (3, 2), (4, 5), (0, 5), (5, 1)].map fun m =>
        (extract zccFiles {} none (mszipMember [zccPart] 2 7 1 m.1 m.2)).observable := by
  decide +kernel

/-- the hypotheses of `C08_mszip_history_free_single` hold for it (default parameters: `fix_mszip` off) -/
example (st0 : Zip.St Feeder) (hinit : Zip.init nullFeeder 4096 false 0xa5 = some st0)
    (ms : List (Nat × Nat)) :
    ∀ x ∈ (mszipRunSeq zccFiles {} 2 7 1 [zccPart] ms none).zip ms,
      (extract zccFiles {} none (mszipMember [zccPart] 2 7 1 x.2.1 x.2.2)).observable = some x.1 :=
  C08_mszip_history_free_single zccFiles {} zccPart zccFile 2 7 1 st0 rfl rfl rfl hinit ms

end MsPack.Cab
