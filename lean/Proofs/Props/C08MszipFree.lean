import Proofs.Props.C08MszipCab
import Proofs.Props.C08
/-!
# C08 for MSZIP folders without assuming that anything decodes: a call on a re-used decoder is the call on a fresh one

Setting as in `C08MszipCab.lean` (folder data parts `part :: more`, fresh feeder `mszipFreshFeeder`, fresh decoder
`Zip.init`).  `hfresh` ("`[0, N)` decodes") is gone, and so is `o + l ≤ N`: the member requested is arbitrary and its
extraction may fail.

* `FreeCache`: the cached `self->d` is nothing, or this folder's decoder/feeder pair as reached from the fresh pair
  by ONE decoder call for `ds.offset` bytes *that returned OK*.
* `extract_mszip_free` — **one call, any member, failing or not**: with such a cache, whenever `extract` returns (status
  and bytes; i.e. no model fault), the same call on a fresh instance returns the same status and the same bytes.
  Re-use case: the fresh instance skips `o` bytes, the cached one `o - p`; by the chunking law (`C08_mszip_chunk_law_fuel`,
  second status arbitrary) the fresh skip has the status, the byte count and the final decoder/feeder of the cached
  skip, error or not; the skip output is discarded; the output phase then starts from equal `DState`s.
* `FreeCache` is what `MszipCache` of `C08MszipCab` gives (`MszipCache.free`), so:
  `C08_mszip_free_after_ok` — after any history of successful extractions inside `[0, N)` (the setting of
  `C08_mszip_any_order`), ANY further call — beyond `N`, failing, whatever — gives the fresh instance's result.

Fuel: the static condition `8 * feederLeft files fd0 + 17 ≤ decFuel files` of `C08_mszip_any_order` (none for a
single-cabinet folder: `…_single`); it makes every decoder call from the fresh pair and from pairs reached by an OK
call free of `hang`, which is what lets results be moved between the different `chainFuel`s.

Not closed (see the end of this file): histories *containing a failed call*, hence no `C08_mszip_history_free` yet.
-/
namespace MsPack.Zip.ZipFree
open MsPack MsPack.Generated MsPack.Zip

variable {σ : Type} (S : Src σ)

/-- the fresh state's call for `p + k` bytes, from its OK call for `p` bytes and ANY answer to the call for `k`
    bytes from the state that left (fuels `f0`, `f1`, `f2` unrelated; the `p + k` call must not be `hang`) -/
theorem skip_join (f0 f1 f2 : Nat) (Z0 Z : St σ) (hst : ZipInv Z0) (p k : Nat) (wp : Bytes) (o2 : Out σ)
    (hp : decompress S f0 Z0 p = .ok ⟨.ok, wp, Z⟩) (hk : decompress S f1 Z k = .ok o2)
    (hnh : decompress S f2 Z0 (p + k) ≠ .error .hang) :
    decompress S f2 Z0 (p + k) = .ok ⟨o2.err, wp ++ o2.written, o2.st⟩ := by
  have a1 : decompress S (f0 + f1) Z0 p = .ok ⟨.ok, wp, Z⟩ := by
    rw [C08_mszip_fuel_mono S f0 f1 Z0 p (by rw [hp]; exact fun hc => nomatch hc), hp]
  have a2 : decompress S (f0 + f1) Z k = .ok ⟨o2.err, o2.written, o2.st⟩ := by
    rw [Nat.add_comm, C08_mszip_fuel_mono S f1 f0 Z k (by rw [hk]; exact fun hc => nomatch hc), hk]
  have hj := C08_mszip_chunk_law_fuel S (f0 + f1) Z0 hst p k wp Z o2.err o2.written o2.st a1 a2
    (f0 + f1 + (f0 + f1)) (Nat.le_refl _)
  exact ZipChunkCab.transfer S _ f2 Z0 (p + k) _ hj hnh

end MsPack.Zip.ZipFree

namespace MsPack.Cab
open MsPack MsPack.Generated

section
variable (files : Files) (fd0 : Feeder) (st0 : Zip.St Feeder)

/-- `Z` is what the fresh decoder over the fresh feeder becomes by one OK call for `off` bytes -/
def FreeReach (off : Nat) (Z : Zip.St Feeder) : Prop :=
  ∃ w, Zip.decompress (feederSrc files) (chainFuel files fd0) { st0 with src := fd0 } off = .ok ⟨.ok, w, Z⟩

/-- the cached `self->d`: nothing, or this folder's pair as reached from the fresh pair by one OK call for `offset` bytes -/
def FreeCache (key : Nat) (d : Option DState) : Prop :=
  d = none ∨ ∃ ds st, d = some ds ∧ ds.folder = key ∧ ds.dec = some (.mszip st) ∧
    FreeReach files fd0 st0 ds.offset { st with src := ds.feeder }

theorem MszipCache.free {N : Nat} {D : Bytes} {key : Nat} {d : Option DState}
    (h : MszipCache files fd0 st0 N D key d) : FreeCache files fd0 st0 key d := by
  rcases h with rfl | ⟨ds, st, rfl, h1, h2, _, h4⟩
  · exact Or.inl rfl
  · exact Or.inr ⟨ds, st, rfl, h1, h2, ⟨_, h4⟩⟩

variable {files fd0 st0}

/-- a decoder call from a reached pair, whatever it returns, is the tail of the fresh pair's call for `p + k` bytes:
    same status, same `DState` afterwards, the bytes are the last ones -/
theorem runPhase_free (hst : Zip.ZipInv st0)
    (hf0 : st0.bits.length + 8 * st0.inbuf.length + 8 * feederLeft files fd0
      + (if st0.inputEnd then 0 else 16) + 1 ≤ decFuel files)
    (key : Nat) (ds : DState) (hfol : ds.folder = key) (st : Zip.St Feeder)
    (hr : FreeReach files fd0 st0 ds.offset { st with src := ds.feeder })
    (k : Nat) (e : Err) (w : Bytes) (ds' : DState)
    (h : runPhase files ds (.mszip st) k = .ran e w ds') :
    ∃ wp, wp.length = ds.offset ∧
      runPhase files { folder := key, offset := 0, dec := some (.mszip st0), feeder := fd0 } (.mszip st0)
        (ds.offset + k) = .ran e (wp ++ w) ds' := by
  obtain ⟨wp, hp⟩ := hr
  have hlen : wp.length = ds.offset :=
    Zip.C08_mszip_ok_length (feederSrc files) _ { st0 with src := fd0 } hst _ wp _ hp
  refine ⟨wp, hlen, ?_⟩
  unfold runPhase at h
  cases hc : decompress files (.mszip st) ds.feeder k with
  | error f => rw [hc] at h; cases h
  | ok oo =>
    cases oo with
    | none => rw [hc] at h; cases h
    | some o =>
      rw [hc] at h
      simp only [PhaseResult.ran.injEq] at h
      obtain ⟨he, hw, hds⟩ := h
      obtain ⟨Z2, hz, hdec, hfd⟩ := ZipChunkCab.decompress_mszip_inv files st ds.feeder k o hc
      have hnh : Zip.decompress (feederSrc files) (chainFuel files fd0) { st0 with src := fd0 } (ds.offset + k)
          ≠ .error .hang :=
        Zip.C04_zip_decompress_no_hang (feederSrc_ok files) _ _ _
          (Nat.le_trans hf0 (zcc_decFuel_le_chainFuel files fd0))
      have hj := Zip.ZipFree.skip_join (feederSrc files) _ _ (chainFuel files fd0) { st0 with src := fd0 } _ hst
        ds.offset k wp ⟨o.err, o.written, Z2⟩ hp hz hnh
      have c := ZipChunkCab.decompress_mszip_ok files st0 fd0 (ds.offset + k) _ hj
      unfold runPhase
      rw [c]
      dsimp only
      rw [← hfd, ← he, ← hw, ← hds, ← hdec, ← hfol]
      simp only [List.length_append, hlen, Nat.zero_add]

/-- both phases of `cabd_extract`: from a reached pair standing at or before the member, whatever comes out (status,
    bytes) also comes out of the fresh pair -/
theorem runPhases_free (hst : Zip.ZipInv st0)
    (hf0 : st0.bits.length + 8 * st0.inbuf.length + 8 * feederLeft files fd0
      + (if st0.inputEnd then 0 else 16) + 1 ≤ decFuel files)
    (key : Nat) (ds : DState) (hfol : ds.folder = key) (st : Zip.St Feeder) (hdec : ds.dec = some (.mszip st))
    (hr : FreeReach files fd0 st0 ds.offset { st with src := ds.feeder })
    (m : Member) (L : Nat) (hoff : ds.offset ≤ m.offset) (e : Err) (w : Option Bytes) (d' : Option DState)
    (h : runPhases files ds m L = .done e w d') :
    ∃ d'', runPhases files { folder := key, offset := 0, dec := some (.mszip st0), feeder := fd0 } m L =
      .done e w d'' := by
  unfold runPhases at h ⊢
  rw [hdec] at h
  simp only at h ⊢
  by_cases hl0 : L = 0
  · rw [if_pos hl0] at h ⊢
    simp only [ExtractResult.done.injEq] at h
    obtain ⟨rfl, rfl, _⟩ := h
    exact ⟨_, rfl⟩
  · rw [if_neg hl0] at h ⊢
    rw [Nat.sub_zero]
    by_cases hs : m.offset - ds.offset = 0
    · rw [if_pos hs] at h
      have ho : m.offset = ds.offset := by omega
      cases hrp : runPhase files ds (.mszip st) L with
      | fault f => rw [hrp] at h; cases h
      | unsupported => rw [hrp] at h; cases h
      | ran e1 w1 ds1 =>
        rw [hrp] at h
        simp only [ExtractResult.done.injEq] at h
        obtain ⟨rfl, rfl, _⟩ := h
        by_cases hz : m.offset = 0
        · rw [if_pos hz]
          obtain ⟨wp, hlen, hf⟩ := runPhase_free hst hf0 key ds hfol st hr L _ _ _ hrp
          have hp0 : ds.offset = 0 := by omega
          rw [hp0] at hlen hf
          rw [List.eq_nil_of_length_eq_zero hlen, Nat.zero_add, List.nil_append] at hf
          rw [hf]
          exact ⟨_, rfl⟩
        · rw [if_neg hz]
          obtain ⟨wp, hp⟩ := hr
          have c := ZipChunkCab.decompress_mszip_ok files st0 fd0 ds.offset _ hp
          have hsk : runPhase files { folder := key, offset := 0, dec := some (.mszip st0), feeder := fd0 }
              (.mszip st0) m.offset =
              .ran .ok wp { folder := key, offset := 0 + wp.length, feeder := ds.feeder,
                            dec := some (.mszip { st with src := ds.feeder }) } := by
            unfold runPhase
            rw [ho, c]
            simp only [reduceCtorEq, ↓reduceIte]
          rw [hsk]
          simp only [ne_eq, not_true_eq_false, ↓reduceIte]
          have hsame : ∃ dsx, runPhase files ⟨key, 0 + wp.length, ds.feeder, some (.mszip { st with src := ds.feeder })⟩
              (.mszip { st with src := ds.feeder }) L = .ran e1 w1 dsx := by
            unfold runPhase at hrp ⊢
            have hcall : decompress files (.mszip { st with src := ds.feeder }) ds.feeder L =
                decompress files (.mszip st) ds.feeder L := rfl
            dsimp only
            rw [hcall]
            cases hc : decompress files (.mszip st) ds.feeder L with
            | error f => rw [hc] at hrp; cases hrp
            | ok oo =>
              cases oo with
              | none => rw [hc] at hrp; cases hrp
              | some o =>
                rw [hc] at hrp
                simp only [PhaseResult.ran.injEq] at hrp ⊢
                obtain ⟨he, hw, _⟩ := hrp
                exact ⟨_, he, hw, rfl⟩
          obtain ⟨dsx, hsame⟩ := hsame
          rw [hsame]
          exact ⟨_, rfl⟩
    · rw [if_neg hs] at h
      have hne : ¬ m.offset = 0 := by omega
      rw [if_neg hne]
      cases hrp : runPhase files ds (.mszip st) (m.offset - ds.offset) with
      | fault f => rw [hrp] at h; cases h
      | unsupported => rw [hrp] at h; cases h
      | ran e1 w1 ds1 =>
        rw [hrp] at h
        obtain ⟨wp, _, hf⟩ := runPhase_free hst hf0 key ds hfol st hr (m.offset - ds.offset) _ _ _ hrp
        have : ds.offset + (m.offset - ds.offset) = m.offset := by omega
        rw [this] at hf
        rw [hf]
        exact ⟨d', h⟩

end

/-- **one call, any member, failing or not.**  Cache: nothing, or this folder's decoder as reached from the fresh one
    by one OK call for `offset` bytes.  Whenever `extract` returns status `e` and bytes `w` (no model fault), so does the
    same call on a fresh instance. -/
theorem extract_mszip_free (files : Files) (p : Params) (part : Part) (more : List Part) (bytes : Bytes)
    (nblocks key ct : Nat) (st0 : Zip.St Feeder)
    (hlook : files.lookup part.fname = some bytes) (hct : compMask ct = 1)
    (hinit : Zip.init nullFeeder p.bufSize p.fixMszip p.fill = some st0)
    (hfuel0 : 8 * feederLeft files (mszipFreshFeeder p bytes part more nblocks ct) + 17 ≤ decFuel files)
    (d : Option DState) (hcache : FreeCache files (mszipFreshFeeder p bytes part more nblocks ct) st0 key d)
    (o l : Nat) (e : Err) (w : Option Bytes) (d' : Option DState)
    (h : extract files p d (mszipMember (part :: more) nblocks key ct o l) = .done e w d') :
    (extract files p none (mszipMember (part :: more) nblocks key ct o l)).observable = some (e, w) := by
  have hst : Zip.ZipInv st0 := Zip.C02_zip_init_inv _ _ _ _ st0 hinit
  have hf0 : st0.bits.length + 8 * st0.inbuf.length + 8 * feederLeft files (mszipFreshFeeder p bytes part more nblocks ct)
      + (if st0.inputEnd then 0 else 16) + 1 ≤ decFuel files := by
    obtain ⟨h1, h2, _, h4, _⟩ := Zip.init_fields hinit
    rw [h1, h2, h4]
    simp only [List.length_nil, Nat.mul_zero, Nat.zero_add, Bool.false_eq_true, ↓reduceIte]
    omega
  unfold extract at h ⊢
  cases hc : memberCheck p (mszipMember (part :: more) nblocks key ct o l) with
  | error e0 =>
    rw [hc] at h
    simp only [ExtractResult.done.injEq] at h
    obtain ⟨rfl, rfl, _⟩ := h
    rfl
  | ok v =>
    obtain ⟨filelen, key'⟩ := v
    have hk : (mszipMember (part :: more) nblocks key ct o l).folderKey = some key' := by
      unfold memberCheck at hc
      simp only at hc
      repeat' split at hc
      all_goals first
        | contradiction
        | (simp only [Except.ok.injEq, Prod.mk.injEq] at hc; simp_all)
    have hkk : key' = key := by
      simp only [mszipMember, Option.some.injEq] at hk
      exact hk.symm
    subst hkk
    rw [hc] at h
    simp only at h ⊢
    have hdec0 : initDec p ct = some (.mszip st0) := by
      simp only [initDec, hct, hinit, Option.map_some]
    have hfreshDS : freshDState files p (mszipMember (part :: more) nblocks key' ct o l) key' =
        .ok { folder := key', offset := 0, dec := some (.mszip st0),
              feeder := mszipFreshFeeder p bytes part more nblocks ct } := by
      unfold freshDState mszipMember
      simp only [hlook, Option.map_some, hdec0]
      rfl
    have hnone : obtainDState files p none (mszipMember (part :: more) nblocks key' ct o l) key' =
        .ok { folder := key', offset := 0, dec := some (.mszip st0),
              feeder := mszipFreshFeeder p bytes part more nblocks ct } := by
      simp only [obtainDState, hfreshDS]
    rw [hnone]
    simp only
    rcases hcache with rfl | ⟨ds, st, rfl, hfol, hdec, hr⟩
    · rw [hnone] at h
      simp only at h
      rw [h]; rfl
    · unfold obtainDState at h
      simp only at h
      by_cases hre : ds.folder = key' ∧ ¬ ds.offset > (mszipMember (part :: more) nblocks key' ct o l).offset ∧
          ds.dec.isSome = true
      · rw [if_pos hre] at h
        simp only at h
        obtain ⟨d'', hd⟩ := runPhases_free hst hf0 key' ds hfol st hdec hr _ filelen
          (by have := hre.2.1; omega) e w d' h
        rw [hd]; rfl
      · rw [if_neg hre, hfreshDS] at h
        simp only at h
        rw [h]; rfl

/-- the cache after a list of `extract()` calls (a faulting call leaves it as it was) -/
def mszipCacheAfter (files : Files) (p : Params) (nblocks key ct : Nat) (parts : List Part) :
    List (Nat × Nat) → Option DState → Option DState
  | [], d => d
  | (o, l) :: rest, d =>
    match extract files p d (mszipMember parts nblocks key ct o l) with
    | .done _ _ d' => mszipCacheAfter files p nblocks key ct parts rest d'
    | _ => d

/-- **after any history of successful extractions, any further call is the fresh call.**  Setting and hypotheses of
    `C08_mszip_any_order` (`[0, N)` decodes in one call from the fresh pair; the history `ms` lies inside `[0, N)`, in
    any order); then ANY member `(o, l)` — beyond `N`, in a damaged part of the folder, whatever — extracted next
    returns, if it returns (no model fault), exactly the status and the bytes of the same call on a fresh instance. -/
theorem C08_mszip_free_after_ok (files : Files) (p : Params) (part : Part) (more : List Part) (bytes : Bytes)
    (nblocks key ct : Nat) (st0 : Zip.St Feeder)
    (hlook : files.lookup part.fname = some bytes) (hct : compMask ct = 1)
    (hinit : Zip.init nullFeeder p.bufSize p.fixMszip p.fill = some st0)
    (hfuel0 : 8 * feederLeft files (mszipFreshFeeder p bytes part more nblocks ct) + 17 ≤ decFuel files)
    (N : Nat) (hmax : N ≤ cabLENGTHMAX) (hblk : N ≤ nblocks * cabBLOCKMAX)
    (D : Bytes) (decN : Dec) (fdN : Feeder)
    (hfresh : decompress files (.mszip st0) (mszipFreshFeeder p bytes part more nblocks ct) N =
      .ok (some ⟨.ok, D, decN, fdN⟩))
    (ms : List (Nat × Nat)) (hms : ∀ m ∈ ms, m.1 + m.2 ≤ N)
    (o l : Nat) (e : Err) (w : Option Bytes) (d' : Option DState)
    (h : extract files p (mszipCacheAfter files p nblocks key ct (part :: more) ms none)
      (mszipMember (part :: more) nblocks key ct o l) = .done e w d') :
    (extract files p none (mszipMember (part :: more) nblocks key ct o l)).observable = some (e, w) := by
  have hst : Zip.ZipInv st0 := Zip.C02_zip_init_inv _ _ _ _ st0 hinit
  obtain ⟨h1, h2, _, h4, _⟩ := Zip.init_fields hinit
  have hnh : MszipNoHang files (mszipFreshFeeder p bytes part more nblocks ct) st0 N := by
    refine MszipNoHang.of_fresh files _ st0 N hst ?_
    rw [h1, h2, h4]
    simp only [List.length_nil, Nat.mul_zero, Nat.zero_add, Bool.false_eq_true, ↓reduceIte]
    omega
  obtain ⟨ZN, hz, _, _⟩ := ZipChunkCab.decompress_mszip_inv files st0 _ N _ hfresh
  dsimp only at hz
  have hD : D.length = N := Zip.C08_mszip_ok_length (feederSrc files) _
    { st0 with src := mszipFreshFeeder p bytes part more nblocks ct } hst N D ZN hz
  have hreachN : MszipReach files (mszipFreshFeeder p bytes part more nblocks ct) st0 D N ZN := by
    unfold MszipReach
    rw [← hD, List.take_length, hD]; exact hz
  have hcache : ∀ (ms : List (Nat × Nat)) (d : Option DState),
      MszipCache files (mszipFreshFeeder p bytes part more nblocks ct) st0 N D key d →
      (∀ m ∈ ms, m.1 + m.2 ≤ N) →
      MszipCache files (mszipFreshFeeder p bytes part more nblocks ct) st0 N D key
        (mszipCacheAfter files p nblocks key ct (part :: more) ms d) := by
    intro ms
    induction ms with
    | nil => intro d hc _; exact hc
    | cons m ms ih =>
      intro d hc hm
      obtain ⟨o, l⟩ := m
      obtain ⟨d1, e1, hc1⟩ := extract_mszip_cached files p part more bytes nblocks key ct st0 N D hlook hct hinit hmax
        hblk ZN hreachN hD hnh d hc o l (hm (o, l) (List.mem_cons_self ..))
      simp only [mszipCacheAfter, e1]
      exact ih d1 hc1 (fun x hx => hm x (List.mem_cons_of_mem _ hx))
  exact extract_mszip_free files p part more bytes nblocks key ct st0 hlook hct hinit hfuel0 _
    (hcache ms none (Or.inl rfl) hms).free o l e w d' h

/-- … for a folder that lies in one cabinet file: no condition on the fuel -/
theorem C08_mszip_free_after_ok_single (files : Files) (p : Params) (part : Part) (bytes : Bytes)
    (nblocks key ct : Nat) (st0 : Zip.St Feeder)
    (hlook : files.lookup part.fname = some bytes) (hct : compMask ct = 1)
    (hinit : Zip.init nullFeeder p.bufSize p.fixMszip p.fill = some st0)
    (N : Nat) (hmax : N ≤ cabLENGTHMAX) (hblk : N ≤ nblocks * cabBLOCKMAX)
    (D : Bytes) (decN : Dec) (fdN : Feeder)
    (hfresh : decompress files (.mszip st0) (mszipFreshFeeder p bytes part [] nblocks ct) N =
      .ok (some ⟨.ok, D, decN, fdN⟩))
    (ms : List (Nat × Nat)) (hms : ∀ m ∈ ms, m.1 + m.2 ≤ N)
    (o l : Nat) (e : Err) (w : Option Bytes) (d' : Option DState)
    (h : extract files p (mszipCacheAfter files p nblocks key ct [part] ms none)
      (mszipMember [part] nblocks key ct o l) = .done e w d') :
    (extract files p none (mszipMember [part] nblocks key ct o l)).observable = some (e, w) := by
  refine C08_mszip_free_after_ok files p part [] bytes nblocks key ct st0 hlook hct hinit ?_ N hmax hblk D decN fdN
    hfresh ms hms o l e w d' h
  have hle := zcc_lookup_le part.fname bytes files 0 hlook
  simp only [feederLeft, mszipFreshFeeder, chainLeft, rdLeft, restLeft, List.tail_cons, List.length_nil, decFuel]
  omega

/-- a first call on a fresh instance is trivially history-free; with `extract_mszip_free` for the second call this
    is the two-call form: whatever a first *successful-in-both-phases* call leaves is a `FreeCache` -/
theorem FreeCache.none (files : Files) (fd0 : Feeder) (st0 : Zip.St Feeder) (key : Nat) :
    FreeCache files fd0 st0 key none := Or.inl rfl

/-!
## What is not closed: histories containing a failed call

What `extract` leaves after a failed MSZIP decoder call (read off `runPhase`/`runPhases`): `.done e (some w) (some ds')`
(or `(some [])` when the skip phase failed) with `ds' = { ds with offset := ds.offset + written.length, feeder := o.feeder,
dec := some (.mszip o.st) }` — the decoder is NOT dropped, so `obtainDState` re-uses it for any later member of the folder
with `offset ≥ ds'.offset`; `o.st` is the state `Zip.decompress` returned with the error: in strict mode
`{ st with error := e }` (`decompressLoop`, `failed ∧ !repair`), after a `read` failure the state `readInput` left
(`error := .read`), so every later call on it returns `⟨st.error, [], st⟩` at once.  The fresh instance asked for the
later member re-decodes from the start and hits the same frame.  To close this half two Zip-level facts are missing
(both believed true, neither proved here):

1. *sticky*: a call that returns `err ≠ ok` leaves `st.error = err` (for `sys e` this needs "a `sys e` exception is
   raised with `error = e`", one more pass like `ZipChunk.K`; for `inf` it is the explicit `error := e`);
2. *request independence of a failure*: if the call for `b` bytes from `Z` returns `(e ≠ ok, w, Z')` with
   `w.length < b`, the call for any `b' > w.length` returns the same — by the induction of `chunk_splitN` through
   `frameStep = .stop …` and `.frame (some e) …`.  In repair mode (`fix_mszip`) a `read` failure inside a frame delivers
   `min(out_bytes, 32768)` bytes of the zero-filled frame *and* the error, so there `w` and the `pending` bytes of the
   state do depend on the request; status and all later results still agree, but the invariant has to be "equal up to
   `pending`, error sticky" instead of equality of states.

With 1 and 2 the invariant "cache = none, or reached from the fresh pair by ONE call for `R` bytes that wrote
`ds.offset` bytes with status `e` (`e = ok` ⇒ `R = ds.offset`)" is kept by every call and `runPhases_free` extends to
it (cached sticky answer = fresh answer by 2).  Also open: calls that end in a model *fault* (`extract_mszip_free`
speaks about calls that return); for the feeder these are `nullDeref`s after a failed block read
(`Proofs/Lemmas/FeederFaults.lean`: `FeederLive`).
-/

/-! ## evaluation on the two-block folder of `C08MszipCab` (5 bytes) -/

/-- after extracting `[0,2)` and `[3,5)`, a request that runs past the end of the folder fails — and fails exactly as
    on a fresh instance (status and bytes); evaluated, no theorem involved -/
example :
    (extract zccFiles {} (mszipCacheAfter zccFiles {} 2 7 1 [zccPart] [(0, 2), (3, 2)] none)
        (mszipMember [zccPart] 2 7 1 3 10)).observable =
      (extract zccFiles {} none (mszipMember [zccPart] 2 7 1 3 10)).observable ∧
    (extract zccFiles {} none (mszipMember [zccPart] 2 7 1 3 10)).observable ≠ none ∧
    ((extract zccFiles {} none (mszipMember [zccPart] 2 7 1 3 10)).observable.map (·.1)) ≠ some .ok := by
  decide +kernel

end MsPack.Cab
