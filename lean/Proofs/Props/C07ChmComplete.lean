import Proofs.Props.C07Chm
import Proofs.Props.C07Decoders
/-!
# C07 — OK means complete for compressed (section 1) CHM members

`chmd_extract` asks the LZX decoder for `len = length`, or — when the member reaches beyond the section's
uncompressed length `d->length` — for `d->length - offset + 1` bytes ("should decompress but still error
out").  With the LZX counting law (`Lzx.C07_lzx_ok_complete`: OK means exactly as many as asked) and
`chmd_init_decomp` returning `self->error` (`initDecomp_error`):

* `C07_chm_sec1_ok_asked`: MSPACK_ERR_OK ⇒ the output is exactly the `askLen` bytes the decoder was asked for —
  every input, every cached decompressor state;
* `C07_chm_sec1_ok_complete`: hence MSPACK_ERR_OK ⇒ exactly the declared length for every member lying within
  the section's uncompressed length (`length ≤ d->length - offset`, the section length being the one the
  returned decompressor state holds, i.e. what `chmd_init_decomp` read from the reset table / SpanInfo);
  `C07_chm_ok_complete` the same for either section.

What is **not** covered (named `_partial` nowhere because nothing false is claimed, but the statement is
conditional): a member reaching beyond `d->length`.  There the C relies on the decoder *failing* when asked
for one byte more than the stream has; a counting law cannot give that — it needs the decoder's own
`offset ≤ length` bookkeeping (`lzx->length`, the D24 break) tied to `d->offset`/`d->length` of the cached
CHM state across calls (and `length - offset` survives `wrapI64` only for sane headers).
-/
namespace MsPack.Chm
open MsPack

theorem initDecomp_error (files : Files) (fill : UInt8) (x : X) (off : Int) (ret : Err) (x' : X)
    (h : initDecomp files fill x off = .ok (ret, x')) : x'.error = ret := by
  unfold initDecomp at h
  simp only at h
  repeat' split at h
  all_goals first
    | (cases h; done)
    | (cases h; rfl)

/-- the number of bytes `chmd_extract` asks the decoder for: the declared length, or — "should decompress but
    still error out" — one more than the section has left -/
def askLen (dlen offset length : Int) : Int :=
  if length > wrapI64 (dlen - offset) then wrapI64 (dlen - offset) + 1 else length

def OkLen (offset length : Int) : ExtractResult → Prop
  | .done .ok inst' _ (some w) => ∀ d', inst'.d = some d' → w.length = (askLen d'.length offset length).toNat
  | _ => True

/-- one `lzxd_decompress` call through `lzxCall`: OK means exactly the bytes asked for; the section length is kept -/
theorem lzxCall_ok (files : Files) (x : X) (bytes : Int) (e : Err) (w : Bytes) (x' : X)
    (h : lzxCall files x bytes = .ok (some (e, w, x'))) :
    x'.d.length = x.d.length ∧ (e = .ok → w.length = bytes.toNat) := by
  unfold lzxCall at h
  split at h
  · cases h; exact ⟨rfl, fun hc => by cases hc⟩
  · cases h
  · split at h
    · cases h; exact ⟨rfl, fun hc => by cases hc⟩
    · split at h
      · cases h
      · simp +zeta only at h
        split at h
        · cases h
        · rename_i o ho
          cases h
          exact ⟨rfl, fun he => Lzx.C07_lzx_ok_complete rdSrc _ _ _ o ho he⟩

theorem okLen_done (offset length : Int) (e : Err) (d : DState) (h : Header) (out : Bytes)
    (hk : e = .ok → out.length = (askLen d.length offset length).toNat) :
    OkLen offset length (.done e { error := e, d := some d } h (some out)) := by
  cases e <;> try trivial
  intro d' hd
  cases hd
  exact hk rfl

theorem askLen_zero (dlen offset : Int) : (askLen dlen offset 0).toNat = 0 := by
  unfold askLen; split <;> omega

theorem extract_sec1_okLen (files : Files) (fill : UInt8) (inst : Inst) (key : Nat) (hdr : Header)
    (sec : Nat) (hsec : sec ≠ 0) (offset length : Int) :
    OkLen offset length (extract files fill inst key hdr sec offset length) := by
  unfold extract
  simp only [hsec, ↓reduceIte]
  repeat' split
  all_goals try (simp only [OkLen]; done)
  · -- length = 0
    rename_i h0
    intro d' hd
    cases hd
    rw [h0, askLen_zero]; rfl
  · -- `chmd_init_decomp` failed
    rename_i x hin
    refine okLen_done _ _ _ _ _ _ (fun he => ?_)
    exfalso
    split at hin
    · split at hin
      · cases hin
      · rename_i ret x' hi
        simp only [Except.ok.injEq, Prod.mk.injEq, decide_eq_true_eq] at hin
        have := initDecomp_error _ _ _ _ _ _ hi
        rw [hin.2] at this
        exact hin.1 (this.symm.trans he)
    · cases hin
  all_goals (
    have hph2 := ‹_ = Except.ok (some (_, _))›
    refine okLen_done _ _ _ _ _ _ (fun he => ?_)
    split at hph2
    · rename_i hne
      cases hph2
      exact absurd he hne
    · split at hph2
      · cases hph2
      · cases hph2
      · rename_i hcall
        cases hph2
        have := lzxCall_ok _ _ _ _ _ _ hcall
        rw [this.2 he]
        show _ = (askLen _ offset length).toNat
        unfold askLen
        rw [show (_ : DState).length = _ from this.1])

/-- **C07, CHM section 1, every input and decompressor state**: MSPACK_ERR_OK means the output is exactly the
    number of bytes `chmd_extract` asked the LZX decoder for -/
theorem C07_chm_sec1_ok_asked (files : Files) (fill : UInt8) (inst : Inst) (key : Nat) (hdr : Header)
    (sec : Nat) (hsec : sec ≠ 0) (offset length : Int) (inst' : Inst) (hdr' : Header) (w : Bytes) (d' : DState)
    (h : extract files fill inst key hdr sec offset length = .done .ok inst' hdr' (some w))
    (hd : inst'.d = some d') : w.length = (askLen d'.length offset length).toNat := by
  have := extract_sec1_okLen files fill inst key hdr sec hsec offset length
  rw [h] at this
  exact this d' hd

/-- a successful `extract` always hands back a decompressor state -/
theorem extract_done_some (files : Files) (fill : UInt8) (inst : Inst) (key : Nat) (hdr : Header)
    (sec : Nat) (hsec : sec ≠ 0) (offset length : Int) (inst' : Inst) (hdr' : Header) (w : Bytes)
    (h : extract files fill inst key hdr sec offset length = .done .ok inst' hdr' (some w)) :
    ∃ d', inst'.d = some d' := by
  unfold extract at h
  simp only [hsec, ↓reduceIte] at h
  repeat' split at h
  all_goals first
    | (cases h; done)
    | (cases h; exact ⟨_, rfl⟩)
    | (simp only [ExtractResult.done.injEq] at h
       obtain ⟨_, h2, _⟩ := h
       subst h2
       exact ⟨_, rfl⟩)

/-- **C07, OK means complete, compressed members within the section**: MSPACK_ERR_OK implies exactly the
    declared length whenever the member does not reach beyond the section's uncompressed length (as held by
    the decompressor state handed back) -/
theorem C07_chm_sec1_ok_complete (files : Files) (fill : UInt8) (inst : Inst) (key : Nat) (hdr : Header)
    (sec : Nat) (hsec : sec ≠ 0) (offset length : Int) (inst' : Inst) (hdr' : Header) (w : Bytes) (d' : DState)
    (h : extract files fill inst key hdr sec offset length = .done .ok inst' hdr' (some w))
    (hd : inst'.d = some d') (hfit : length ≤ wrapI64 (d'.length - offset)) : w.length = length.toNat := by
  rw [C07_chm_sec1_ok_asked files fill inst key hdr sec hsec offset length inst' hdr' w d' h hd]
  unfold askLen
  rw [if_neg (by omega)]

/-- contrapositive reading: an OK result shorter than declared can only be the "one byte beyond the section"
    request -/
theorem C07_chm_sec1_ok_short (files : Files) (fill : UInt8) (inst : Inst) (key : Nat) (hdr : Header)
    (sec : Nat) (hsec : sec ≠ 0) (offset length : Int) (inst' : Inst) (hdr' : Header) (w : Bytes) (d' : DState)
    (h : extract files fill inst key hdr sec offset length = .done .ok inst' hdr' (some w))
    (hd : inst'.d = some d') (hs : w.length ≠ length.toNat) :
    length > wrapI64 (d'.length - offset) ∧ w.length = (wrapI64 (d'.length - offset) + 1).toNat := by
  have h1 := C07_chm_sec1_ok_asked files fill inst key hdr sec hsec offset length inst' hdr' w d' h hd
  unfold askLen at h1
  split at h1
  · rename_i hgt; exact ⟨hgt, h1⟩
  · exact absurd h1 hs

/-- either section -/
theorem C07_chm_ok_complete (files : Files) (fill : UInt8) (inst : Inst) (key : Nat) (hdr : Header)
    (sec : Nat) (offset length : Int) (inst' : Inst) (hdr' : Header) (w : Bytes)
    (h : extract files fill inst key hdr sec offset length = .done .ok inst' hdr' (some w))
    (hfit : sec ≠ 0 → ∀ d', inst'.d = some d' → length ≤ wrapI64 (d'.length - offset)) :
    w.length = length.toNat := by
  by_cases hsec : sec = 0
  · subst hsec
    exact C07_chm_sec0_ok_complete files fill inst key hdr offset length inst' hdr' w h
  · obtain ⟨d', hd⟩ := extract_done_some files fill inst key hdr sec hsec offset length inst' hdr' w h
    exact C07_chm_sec1_ok_complete files fill inst key hdr sec hsec offset length inst' hdr' w d' h hd
      (hfit hsec d' hd)

end MsPack.Chm
