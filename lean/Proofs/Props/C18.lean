import Proofs.Lemmas.Salvage
/-!
# C18 — salvage and repair modes only relax: valid data is never changed

Proved on the CAB model, for every file content:
* `C18_open_monotone`: whatever `cabd_read_headers` accepts in strict mode it accepts, with the
  identical listing, in salvage mode (every use of the flag sits in a branch that strict mode
  answers with an error);
* `C18_block_monotone`: a data block the strict block reader delivers is delivered identically
  (payload, uncompressed size, reader position, remaining cabinets) under any combination of
  "ignore checksum" (SALVAGE, or FIXMSZIP on an MSZIP folder) and "ignore block size" (SALVAGE).
The lift through the stream feeder, the decoders (MSZIP repair code runs only after an inflate
error) and `extract` is covered by the correspondence and the parameter-combination oracle of the
check, not yet by a theorem.
-/
namespace MsPack.Cab
open MsPack

theorem C18_open_monotone (file : Bytes) (off : Nat) (c : Cabinet)
    (h : readHeaders file off false = .ok c) : readHeaders file off true = .ok c :=
  readHeaders_salvage_mono file off c h

theorem C18_block_monotone (files : Files) (ignoreCksum ignoreBlocksize : Bool) (fuel : Nat)
    (rd : Option Rd) (parts : List Part) (acc p : Bytes) (out : Nat) (rd' : Option Rd)
    (parts' : List Part)
    (h : readBlock files false false fuel rd parts acc = .ok p out rd' parts') :
    readBlock files ignoreCksum ignoreBlocksize fuel rd parts acc = .ok p out rd' parts' :=
  readBlock_relax_mono files ignoreCksum ignoreBlocksize fuel rd parts acc p out rd' parts' h

-- non-vacuity: a checksummed 5-byte stored block is delivered by the strict reader
def exampleBlock : Bytes :=
  MsPack.putLE32 (cksum [5, 0, 5, 0] (cksum [1, 2, 3, 4, 5] 0)) ++ [5, 0, 5, 0, 1, 2, 3, 4, 5]

def deliveredPayload : BlockResult → Option (Bytes × Nat)
  | .ok p out _ _ => some (p, out)
  | _ => none

example : deliveredPayload (readBlock [("a", exampleBlock)] false false 2 (some ⟨exampleBlock, 0⟩) [⟨"a", 0, 0⟩] [])
    = some ([1, 2, 3, 4, 5], 5) := by decide

end MsPack.Cab
