import Proofs.Lemmas.ZipChunkCab
/-!
# C08 for MSZIP folders at `Cab.extract`: any sequence of extractions gives every member its slice

`cabd_extract` keeps the folder's decoder (`self->d`) between calls and re-uses it when the next member starts at or
after the offset it has reached; otherwise it rebuilds decoder and feeder.  For an MSZIP folder whose *fresh* decoder
over the folder's *fresh* feeder delivers `[0, N)` in one `decompress` call with OK and data `D`
(`hfresh`), the cached state after any successful call is again "what the fresh pair becomes by one OK call for
`offset` bytes" (`MszipCache`; the chunking law `C08_mszip_chunk_split` moves it forward), so by induction over the
call list every `extract()` on a member inside `[0, N)` — forward through the cache, backward through a rebuilt
decoder, the same member twice, in any order — returns OK with exactly `D[offset, offset + length)`.

The decoder calls `cabd_extract` makes run with the fuel `chainFuel files fd` of the feeder *at that moment*, which
shrinks as the feeder moves through the cabinets of a set, while the hypothesis speaks about the fresh feeder's fuel.
Results do not depend on the fuel as long as it does not run out (`C08_mszip_fuel_mono`), so what is needed is that
the calls from the states reached do not end in `hang`:

* `C08_mszip_any_order_partial` carries exactly that as the hypothesis `MszipNoHang` ("from a decoder/feeder pair
  that the fresh pair reaches by one OK call for `off` bytes, a call for `k ≤ N - off` bytes is not `hang`");
  `C08_mszip_any_order_fuel_partial` has the fuel inequality of `C04_cab_mszip_no_hang` for those pairs instead.
* `C08_mszip_any_order` discharges it from a *static* condition on the fresh feeder:
  `8 * feederLeft files fd0 + 17 ≤ decFuel files` (`MszipNoHang.of_fresh`: an OK call does not increase the bits
  still obtainable — `ZipChunkCab.decompress_ok_bits` — and `decFuel files ≤ chainFuel files fd` for every feeder).
  `feederLeft` of the fresh feeder = rest of the first cabinet + the later cabinets from their data offsets, `decFuel`
  = 16 × all file bytes + 100000, so the condition holds whenever no cabinet file is named by more than two of
  the folder's parts.
* `C08_mszip_any_order_single`: a folder inside one cabinet file — no fuel condition left.

Without such a condition the statement is not to be expected of the *model*: in a set that re-enters one file very
often (the finding recorded at `C04_cab_mszip_no_hang`) a large DECOMPBUF lets the decoder buffer more input than
`chainFuel` of the then-current feeder covers, and a later call can end in the model's `hang` although the fresh
instance (larger `chainFuel`) does not.  (Argued, not evaluated on a concrete set.)
-/
namespace MsPack.Cab
open MsPack MsPack.Generated

/-- a member of an MSZIP (or any) folder given by its data parts: only offset and length differ between members -/
def mszipMember (parts : List Part) (nblocks key ct o l : Nat) : Member :=
  { length := l, offset := o, folderKey := some key, mergePrev := false, numBlocks := nblocks, compType := ct,
    parts := parts }

/-- the feeder `cabd_extract` sets up at the start of the folder -/
def mszipFreshFeeder (p : Params) (bytes : Bytes) (part : Part) (more : List Part) (nblocks ct : Nat) : Feeder :=
  { rd := some ⟨bytes, part.offset⟩, parts := part :: more, block := 0, numBlocks := nblocks, outlen := 0, buf := [],
    compType := ct, readError := .ok, lzxLen := none, salvage := p.salvage, fixMszip := p.fixMszip }

section
variable (files : Files) (fd0 : Feeder) (st0 : Zip.St Feeder) (N : Nat) (D : Bytes)

/-- `Z` is what the fresh decoder over the fresh feeder becomes by one OK call for `off` bytes (which are `D.take off`) -/
def MszipReach (off : Nat) (Z : Zip.St Feeder) : Prop :=
  Zip.decompress (feederSrc files) (chainFuel files fd0) { st0 with src := fd0 } off = .ok ⟨.ok, D.take off, Z⟩

/-- the cached `self->d` between calls: nothing, or this folder's decoder/feeder pair as reached from the fresh pair
    by one OK call for `offset` bytes -/
def MszipCache (key : Nat) (d : Option DState) : Prop :=
  d = none ∨ ∃ ds st, d = some ds ∧ ds.folder = key ∧ ds.dec = some (.mszip st) ∧ ds.offset ≤ N ∧
    MszipReach files fd0 st0 D ds.offset { st with src := ds.feeder }

/-- **the side condition**: from a decoder/feeder pair that the fresh pair reaches by one OK call for `off` bytes, a
    call for `k` more bytes inside `[0, N)` does not run out of fuel -/
def MszipNoHang : Prop :=
  ∀ (off k : Nat) (w : Bytes) (st : Zip.St Feeder) (fd : Feeder), off + k ≤ N →
    decompress files (.mszip st0) fd0 off = .ok (some ⟨.ok, w, .mszip st, fd⟩) →
    decompress files (.mszip st) fd k ≠ .error .hang

/-- the fuel inequality of `C04_cab_mszip_no_hang` for the pairs reached -/
def MszipFuelOk : Prop :=
  ∀ (off : Nat) (w : Bytes) (st : Zip.St Feeder) (fd : Feeder), off ≤ N →
    decompress files (.mszip st0) fd0 off = .ok (some ⟨.ok, w, .mszip st, fd⟩) →
    st.bits.length + 8 * st.inbuf.length + 8 * feederLeft files fd + (if st.inputEnd then 0 else 16) + 1
      ≤ chainFuel files fd

theorem MszipFuelOk.noHang (h : MszipFuelOk files fd0 st0 N) : MszipNoHang files fd0 st0 N :=
  fun off k w st fd hk hr => C04_zip_cab_no_hang files st fd k (h off w st fd (by omega) hr)

variable {files fd0 st0 N D}

/-- the side condition, as the decoder call of `runPhase` needs it -/
theorem MszipNoHang.zip (hnh : MszipNoHang files fd0 st0 N) (off k : Nat) (hk : off + k ≤ N) (Z : Zip.St Feeder)
    (hr : MszipReach files fd0 st0 D off Z) :
    Zip.decompress (feederSrc files) (chainFuel files Z.src) Z k ≠ .error .hang := by
  have h1 := ZipChunkCab.decompress_mszip_ok files st0 fd0 off _ hr
  have h2 := hnh off k _ Z Z.src hk h1
  intro hc
  apply h2
  rw [ZipChunkCab.decompress_mszip]
  have : ({ Z with src := Z.src } : Zip.St Feeder) = Z := rfl
  rw [this, hc]

/-- one decoder call of `cabd_extract` from a reached pair: OK, the slice, and the pair reached by `off + k` -/
theorem runPhase_mszip (hst : Zip.ZipInv st0) (ZN : Zip.St Feeder)
    (hfresh : MszipReach files fd0 st0 D N ZN) (hD : D.length = N) (hnh : MszipNoHang files fd0 st0 N)
    (ds : DState) (st : Zip.St Feeder) (hr : MszipReach files fd0 st0 D ds.offset { st with src := ds.feeder })
    (k : Nat) (hk : ds.offset + k ≤ N) :
    ∃ ds' st', runPhase files ds (.mszip st) k = .ran .ok ((D.drop ds.offset).take k) ds' ∧
      ds'.folder = ds.folder ∧ ds'.offset = ds.offset + k ∧ ds'.dec = some (.mszip st') ∧
      MszipReach files fd0 st0 D ds'.offset { st' with src := ds'.feeder } := by
  have hfresh' : Zip.decompress (feederSrc files) (chainFuel files fd0) { st0 with src := fd0 } N = .ok ⟨.ok, D, ZN⟩ := by
    have := hfresh
    unfold MszipReach at this
    rw [← hD, List.take_length] at this
    rw [← hD]; exact this
  obtain ⟨Z1, a1, a2, alen⟩ := Zip.ZipChunkCab.reach_advance (feederSrc files) (chainFuel files fd0) N
    { st0 with src := fd0 } ZN D hst hfresh' ds.offset k hk _ hr
  have act := Zip.ZipChunkCab.transfer (feederSrc files) (chainFuel files fd0) (chainFuel files ds.feeder)
    { st with src := ds.feeder } k _ a1 (hnh.zip ds.offset k hk _ hr)
  have c := ZipChunkCab.decompress_mszip_ok files st ds.feeder k _ act
  refine ⟨{ ds with offset := ds.offset + k, feeder := Z1.src, dec := some (.mszip Z1) }, Z1, ?_, rfl, rfl, rfl, a2⟩
  unfold runPhase
  rw [c]
  simp only [reduceCtorEq, ↓reduceIte, alen]

/-- both phases of `cabd_extract` from a reached pair standing at or before the member -/
theorem runPhases_mszip (hst : Zip.ZipInv st0) (ZN : Zip.St Feeder)
    (hfresh : MszipReach files fd0 st0 D N ZN) (hD : D.length = N) (hnh : MszipNoHang files fd0 st0 N)
    (ds : DState) (st : Zip.St Feeder) (hdec : ds.dec = some (.mszip st))
    (hr : MszipReach files fd0 st0 D ds.offset { st with src := ds.feeder })
    (m : Member) (l : Nat) (hoff : ds.offset ≤ m.offset) (hfit : m.offset + l ≤ N) :
    ∃ ds' st', runPhases files ds m l = .done .ok (some ((D.drop m.offset).take l)) (some ds') ∧
      ds'.folder = ds.folder ∧ ds'.offset ≤ N ∧ ds'.dec = some (.mszip st') ∧
      MszipReach files fd0 st0 D ds'.offset { st' with src := ds'.feeder } := by
  unfold runPhases
  rw [hdec]; simp only
  by_cases hl0 : l = 0
  · subst hl0
    exact ⟨ds, st, by simp, rfl, by omega, hdec, hr⟩
  · rw [if_neg hl0]
    by_cases hsk : m.offset - ds.offset = 0
    · have ho : m.offset = ds.offset := by omega
      rw [if_pos hsk]
      obtain ⟨ds', st', e, hfol, hoff', hdec', hr'⟩ := runPhase_mszip hst ZN hfresh hD hnh ds st hr l (by omega)
      rw [e]
      exact ⟨ds', st', by rw [ho], hfol, by omega, hdec', hr'⟩
    · rw [if_neg hsk]
      obtain ⟨ds1, st1, e1, hfol1, hoff1, hdec1, hr1⟩ := runPhase_mszip hst ZN hfresh hD hnh ds st hr
        (m.offset - ds.offset) (by omega)
      rw [e1]
      simp only [ne_eq, not_true_eq_false, ↓reduceIte, hdec1]
      have ho1 : ds1.offset = m.offset := by omega
      obtain ⟨ds2, st2, e2, hfol2, hoff2, hdec2, hr2⟩ := runPhase_mszip hst ZN hfresh hD hnh ds1 st1 hr1 l (by omega)
      rw [e2]
      exact ⟨ds2, st2, by rw [ho1], hfol2.trans hfol1, by omega, hdec2, hr2⟩

end

section
variable (files : Files) (p : Params) (part : Part) (more : List Part) (bytes : Bytes) (nblocks key ct : Nat)
  (st0 : Zip.St Feeder) (N : Nat) (D : Bytes)

/-- one `extract()` with whatever the previous calls left in the cache -/
theorem extract_mszip_cached (hlook : files.lookup part.fname = some bytes) (hct : compMask ct = 1)
    (hinit : Zip.init nullFeeder p.bufSize p.fixMszip p.fill = some st0)
    (hmax : N ≤ cabLENGTHMAX) (hblk : N ≤ nblocks * cabBLOCKMAX)
    (ZN : Zip.St Feeder)
    (hfresh : MszipReach files (mszipFreshFeeder p bytes part more nblocks ct) st0 D N ZN) (hD : D.length = N)
    (hnh : MszipNoHang files (mszipFreshFeeder p bytes part more nblocks ct) st0 N)
    (d : Option DState) (hcache : MszipCache files (mszipFreshFeeder p bytes part more nblocks ct) st0 N D key d)
    (o l : Nat) (hfit : o + l ≤ N) :
    ∃ d', extract files p d (mszipMember (part :: more) nblocks key ct o l) =
        .done .ok (some ((D.drop o).take l)) d' ∧
      MszipCache files (mszipFreshFeeder p bytes part more nblocks ct) st0 N D key d' := by
  have hst : Zip.ZipInv st0 := Zip.C02_zip_init_inv _ _ _ _ st0 hinit
  have hcheck : memberCheck p (mszipMember (part :: more) nblocks key ct o l) = .ok (l, key) := by
    simp only [cabLENGTHMAX] at hmax
    simp only [cabBLOCKMAX] at hblk
    have a1 : ¬(o > 2147450880) := by omega
    have a2 : ¬(l > 2147450880 - o) := by omega
    have a3 : ¬(o > nblocks * 32768) := by omega
    have a4 : ¬(l > nblocks * 32768 - o) := by omega
    simp only [memberCheck, mszipMember, cabLENGTHMAX, cabBLOCKMAX, a1, a2, a3, a4, ↓reduceIte,
      Bool.false_eq_true, false_and, or_self, and_false]
  let fd0 : Feeder := mszipFreshFeeder p bytes part more nblocks ct
  let ds0 : DState := { folder := key, offset := 0, dec := some (.mszip st0), feeder := fd0 }
  have hdec0 : initDec p ct = some (.mszip st0) := by
    simp only [initDec, hct, hinit, Option.map_some]
  have hfreshDS : freshDState files p (mszipMember (part :: more) nblocks key ct o l) key = .ok ds0 := by
    unfold freshDState mszipMember
    simp only [hlook, Option.map_some, hdec0]
    rfl
  have hfresh' : Zip.decompress (feederSrc files) (chainFuel files fd0) { st0 with src := fd0 } N = .ok ⟨.ok, D, ZN⟩ := by
    have := hfresh
    unfold MszipReach at this
    rw [← hD, List.take_length] at this
    rw [← hD]; exact this
  have hr0 : MszipReach files fd0 st0 D ds0.offset { st0 with src := ds0.feeder } :=
    Zip.ZipChunkCab.reach_zero (feederSrc files) _ N _ ZN D hfresh'
  have fromFresh : ∃ d', runPhases files ds0 (mszipMember (part :: more) nblocks key ct o l) l =
        .done .ok (some ((D.drop o).take l)) d' ∧ MszipCache files fd0 st0 N D key d' := by
    obtain ⟨ds', st', e, hfol, hle, hdec', hr'⟩ := runPhases_mszip hst ZN hfresh hD hnh ds0 st0 rfl hr0
      (mszipMember (part :: more) nblocks key ct o l) l (Nat.zero_le _) hfit
    exact ⟨some ds', e, Or.inr ⟨ds', st', rfl, hfol, hdec', hle, hr'⟩⟩
  unfold extract
  rw [hcheck]; simp only
  rcases hcache with rfl | ⟨ds, st, rfl, hfol, hdec, hle, hr⟩
  · simp only [obtainDState, hfreshDS]; exact fromFresh
  · unfold obtainDState
    simp only
    by_cases hre : ds.folder = key ∧ ¬ ds.offset > (mszipMember (part :: more) nblocks key ct o l).offset ∧
        ds.dec.isSome = true
    · rw [if_pos hre]; simp only
      obtain ⟨ds', st', e, hfol', hle', hdec', hr'⟩ := runPhases_mszip hst ZN hfresh hD hnh ds st hdec hr
        (mszipMember (part :: more) nblocks key ct o l) l
        (by have := hre.2.1; simp only [mszipMember] at this ⊢; omega) hfit
      exact ⟨some ds', e, Or.inr ⟨ds', st', rfl, hfol'.trans hfol, hdec', hle', hr'⟩⟩
    · rw [if_neg hre, hfreshDS]; exact fromFresh

/-- a client's sequence of `extract()` calls on members of one folder, the cache threaded through -/
def mszipRunSeq (parts : List Part) : List (Nat × Nat) → Option DState → List (Err × Option Bytes)
  | [], _ => []
  | (o, l) :: rest, d =>
    match extract files p d (mszipMember parts nblocks key ct o l) with
    | .done e w d' => (e, w) :: mszipRunSeq parts rest d'
    | _ => []

end

/-- **history independence, MSZIP folders** (partial: with the side condition `MszipNoHang`).  Folder data parts
    `part :: more` (the first one in file `part.fname`), any compression type word with method MSZIP, any parameters;
    the fresh decoder (`Zip.init`) over the folder's fresh feeder delivers `N` bytes in one `decompress` call with OK
    and data `D`.  Then whatever members inside `[0, N)` are extracted, in whatever order (forward through the cached
    decoder, backward through a rebuilt one, the same member twice), every `extract()` returns OK and writes exactly
    `D[offset, offset + length)` — what a fresh instance writes. -/
theorem C08_mszip_any_order_partial (files : Files) (p : Params) (part : Part) (more : List Part) (bytes : Bytes)
    (nblocks key ct : Nat) (st0 : Zip.St Feeder)
    (hlook : files.lookup part.fname = some bytes) (hct : compMask ct = 1)
    (hinit : Zip.init nullFeeder p.bufSize p.fixMszip p.fill = some st0)
    (N : Nat) (hmax : N ≤ cabLENGTHMAX) (hblk : N ≤ nblocks * cabBLOCKMAX)
    (D : Bytes) (decN : Dec) (fdN : Feeder)
    (hfresh : decompress files (.mszip st0) (mszipFreshFeeder p bytes part more nblocks ct) N =
      .ok (some ⟨.ok, D, decN, fdN⟩))
    (hnh : MszipNoHang files (mszipFreshFeeder p bytes part more nblocks ct) st0 N)
    (ms : List (Nat × Nat)) (hms : ∀ m ∈ ms, m.1 + m.2 ≤ N) :
    mszipRunSeq files p nblocks key ct (part :: more) ms none =
      ms.map fun m => (.ok, some ((D.drop m.1).take m.2)) := by
  have hst : Zip.ZipInv st0 := Zip.C02_zip_init_inv _ _ _ _ st0 hinit
  obtain ⟨ZN, hz, _, _⟩ := ZipChunkCab.decompress_mszip_inv files st0 _ N _ hfresh
  dsimp only at hz
  have hD : D.length = N := Zip.C08_mszip_ok_length (feederSrc files) _
    { st0 with src := mszipFreshFeeder p bytes part more nblocks ct } hst N D ZN hz
  have hreachN : MszipReach files (mszipFreshFeeder p bytes part more nblocks ct) st0 D N ZN := by
    unfold MszipReach
    rw [← hD, List.take_length, hD]; exact hz
  suffices h : ∀ (ms : List (Nat × Nat)) (d : Option DState),
      MszipCache files (mszipFreshFeeder p bytes part more nblocks ct) st0 N D key d →
      (∀ m ∈ ms, m.1 + m.2 ≤ N) →
      mszipRunSeq files p nblocks key ct (part :: more) ms d =
        ms.map fun m => (.ok, some ((D.drop m.1).take m.2)) from
    h ms none (Or.inl rfl) hms
  intro ms
  induction ms with
  | nil => intro _ _ _; rfl
  | cons m ms ih =>
    intro d hc hm
    obtain ⟨o, l⟩ := m
    have hfit := hm (o, l) (List.mem_cons_self ..)
    obtain ⟨d', e, hc'⟩ := extract_mszip_cached files p part more bytes nblocks key ct st0 N D hlook hct hinit hmax hblk
      ZN hreachN hD hnh d hc o l hfit
    simp only [mszipRunSeq, e, List.map_cons]
    rw [ih d' hc' (fun x hx => hm x (List.mem_cons_of_mem _ hx))]

/-- the same with the fuel inequality of `C04_cab_mszip_no_hang` for the decoder/feeder pairs reached, instead of
    "no call hangs" -/
theorem C08_mszip_any_order_fuel_partial (files : Files) (p : Params) (part : Part) (more : List Part) (bytes : Bytes)
    (nblocks key ct : Nat) (st0 : Zip.St Feeder)
    (hlook : files.lookup part.fname = some bytes) (hct : compMask ct = 1)
    (hinit : Zip.init nullFeeder p.bufSize p.fixMszip p.fill = some st0)
    (N : Nat) (hmax : N ≤ cabLENGTHMAX) (hblk : N ≤ nblocks * cabBLOCKMAX)
    (D : Bytes) (decN : Dec) (fdN : Feeder)
    (hfresh : decompress files (.mszip st0) (mszipFreshFeeder p bytes part more nblocks ct) N =
      .ok (some ⟨.ok, D, decN, fdN⟩))
    (hfuel : MszipFuelOk files (mszipFreshFeeder p bytes part more nblocks ct) st0 N)
    (ms : List (Nat × Nat)) (hms : ∀ m ∈ ms, m.1 + m.2 ≤ N) :
    mszipRunSeq files p nblocks key ct (part :: more) ms none =
      ms.map fun m => (.ok, some ((D.drop m.1).take m.2)) :=
  C08_mszip_any_order_partial files p part more bytes nblocks key ct st0 hlook hct hinit N hmax hblk D decN fdN hfresh
    hfuel.noHang ms hms

/-! ## discharging the side condition -/

theorem zcc_foldl_ge (files : Files) : ∀ acc : Nat, acc ≤ files.foldl (fun a f => a + f.2.length) acc := by
  induction files with
  | nil => intro acc; exact Nat.le_refl _
  | cons f fs ih => intro acc; rw [List.foldl_cons]; exact Nat.le_trans (Nat.le_add_right _ _) (ih _)

theorem zcc_lookup_le (name : String) (bytes : Bytes) : ∀ (files : Files) (acc : Nat), files.lookup name = some bytes →
    acc + bytes.length ≤ files.foldl (fun a f => a + f.2.length) acc := by
  intro files
  induction files with
  | nil => intro acc h; cases h
  | cons f fs ih =>
    intro acc h
    obtain ⟨k, v⟩ := f
    rw [List.lookup_cons] at h
    rw [List.foldl_cons]
    split at h
    · simp only [Option.some.injEq] at h
      subst h
      exact zcc_foldl_ge fs _
    · have := ih (acc + v.length) h
      dsimp only at this ⊢
      omega

theorem zcc_decFuel_le_chainFuel (files : Files) (fd : Feeder) : decFuel files ≤ chainFuel files fd :=
  Nat.le_add_right _ _

/-- the side condition from a *static* bound on the fresh feeder: the bytes the folder's parts can still deliver,
    times 8, plus the two faked bytes, stay below `decFuel files` (true whenever no cabinet file is named by more
    than two of the folder's parts, in particular for every single-cabinet folder) -/
theorem MszipNoHang.of_fresh (files : Files) (fd0 : Feeder) (st0 : Zip.St Feeder) (N : Nat) (hst : Zip.ZipInv st0)
    (hf0 : st0.bits.length + 8 * st0.inbuf.length + 8 * feederLeft files fd0
      + (if st0.inputEnd then 0 else 16) + 1 ≤ decFuel files) :
    MszipNoHang files fd0 st0 N := by
  intro off k w st fd _ hr
  obtain ⟨Z, hz, hdec, hfd⟩ := ZipChunkCab.decompress_mszip_inv files st0 fd0 off _ hr
  dsimp only at hz hdec hfd
  cases hdec
  subst hfd
  have hS := feederSrc_ok files
  have hf0' : Zip.bitsLeft (feederLeft files) { st0 with src := fd0 } + 1 ≤ chainFuel files fd0 :=
    Nat.le_trans hf0 (zcc_decFuel_le_chainFuel files fd0)
  have hb := Zip.ZipChunkCab.decompress_ok_bits hS (chainFuel files fd0) { st0 with src := fd0 } off w st hst hf0' hz
  have hb' : Zip.bitsLeft (feederLeft files) st + 1 ≤ chainFuel files st.src :=
    Nat.le_trans (Nat.add_le_add_right hb 1) (Nat.le_trans hf0 (zcc_decFuel_le_chainFuel files st.src))
  have := Zip.C04_zip_decompress_no_hang hS (chainFuel files st.src) st k hb'
  intro hc
  rw [ZipChunkCab.decompress_mszip] at hc
  have e : ({ st with src := st.src } : Zip.St Feeder) = st := rfl
  rw [e] at hc
  cases hz2 : Zip.decompress (feederSrc files) (chainFuel files st.src) st k with
  | error f => rw [hz2] at hc this; exact this (by cases hc; rfl)
  | ok o => rw [hz2] at hc; cases hc

/-- **history independence, MSZIP folders.**  Folder data parts `part :: more` (the first one in file `part.fname`),
    any compression type word with method MSZIP, any parameters (DECOMPBUF, strict/salvage, fix-MSZIP, fill byte);
    `hfuel0`: the bytes the folder's parts can still deliver from their data offsets (`feederLeft` of the fresh
    feeder: rest of the first cabinet + the later cabinets) times 8, plus 17, are below `decFuel files`
    = 16 × (all file bytes) + 100000 — so whenever no cabinet file is named by more than two of the folder's parts.
    If the fresh decoder over the folder's fresh feeder delivers `N` bytes in one `decompress` call with OK and data
    `D`, then whatever members inside `[0, N)` are extracted, in whatever order (forward through the cached decoder,
    backward through a rebuilt one, the same member twice), every `extract()` returns OK and writes exactly
    `D[offset, offset + length)` — what a fresh instance writes. -/
theorem C08_mszip_any_order (files : Files) (p : Params) (part : Part) (more : List Part) (bytes : Bytes)
    (nblocks key ct : Nat) (st0 : Zip.St Feeder)
    (hlook : files.lookup part.fname = some bytes) (hct : compMask ct = 1)
    (hinit : Zip.init nullFeeder p.bufSize p.fixMszip p.fill = some st0)
    (hfuel0 : 8 * feederLeft files (mszipFreshFeeder p bytes part more nblocks ct) + 17 ≤ decFuel files)
    (N : Nat) (hmax : N ≤ cabLENGTHMAX) (hblk : N ≤ nblocks * cabBLOCKMAX)
    (D : Bytes) (decN : Dec) (fdN : Feeder)
    (hfresh : decompress files (.mszip st0) (mszipFreshFeeder p bytes part more nblocks ct) N =
      .ok (some ⟨.ok, D, decN, fdN⟩))
    (ms : List (Nat × Nat)) (hms : ∀ m ∈ ms, m.1 + m.2 ≤ N) :
    mszipRunSeq files p nblocks key ct (part :: more) ms none =
      ms.map fun m => (.ok, some ((D.drop m.1).take m.2)) := by
  have hst : Zip.ZipInv st0 := Zip.C02_zip_init_inv _ _ _ _ st0 hinit
  obtain ⟨h1, h2, _, h4, _⟩ := Zip.init_fields hinit
  refine C08_mszip_any_order_partial files p part more bytes nblocks key ct st0 hlook hct hinit N hmax hblk D decN fdN
    hfresh (MszipNoHang.of_fresh files _ st0 N hst ?_) ms hms
  rw [h1, h2, h4]
  simp only [List.length_nil, Nat.mul_zero, Nat.zero_add, Bool.false_eq_true, ↓reduceIte]
  omega

/-- **… for a folder that lies in one cabinet file**: no condition on the fuel at all -/
theorem C08_mszip_any_order_single (files : Files) (p : Params) (part : Part) (bytes : Bytes)
    (nblocks key ct : Nat) (st0 : Zip.St Feeder)
    (hlook : files.lookup part.fname = some bytes) (hct : compMask ct = 1)
    (hinit : Zip.init nullFeeder p.bufSize p.fixMszip p.fill = some st0)
    (N : Nat) (hmax : N ≤ cabLENGTHMAX) (hblk : N ≤ nblocks * cabBLOCKMAX)
    (D : Bytes) (decN : Dec) (fdN : Feeder)
    (hfresh : decompress files (.mszip st0) (mszipFreshFeeder p bytes part [] nblocks ct) N =
      .ok (some ⟨.ok, D, decN, fdN⟩))
    (ms : List (Nat × Nat)) (hms : ∀ m ∈ ms, m.1 + m.2 ≤ N) :
    mszipRunSeq files p nblocks key ct [part] ms none =
      ms.map fun m => (.ok, some ((D.drop m.1).take m.2)) := by
  refine C08_mszip_any_order files p part [] bytes nblocks key ct st0 hlook hct hinit ?_ N hmax hblk D decN fdN hfresh
    ms hms
  have hle := zcc_lookup_le part.fname bytes files 0 hlook
  simp only [feederLeft, mszipFreshFeeder, chainLeft, rdLeft, restLeft, List.tail_cons, List.length_nil, decFuel]
  omega

/-! ## the premises are satisfiable -/

/-- a CFDATA block with checksum field 0 (not checked) -/
def zccBlock (payload : Bytes) (out : Nat) : Bytes :=
  [0, 0, 0, 0, UInt8.ofNat (payload.length % 256), UInt8.ofNat (payload.length / 256),
   UInt8.ofNat (out % 256), UInt8.ofNat (out / 256)] ++ payload

/-- one cabinet file, the folder's data at offset 3: two blocks, one `CK` frame each (3 and 2 bytes) -/
def zccFile : Bytes :=
  [9, 9, 9] ++ zccBlock (Deflate.encFrame [.stored [1, 2, 3]]) 3 ++ zccBlock (Deflate.encFrame [.stored [4, 5]]) 2

def zccFiles : Files := [("a.cab", zccFile)]
def zccPart : Part := ⟨"a.cab", 0, 3⟩

/-- status and bytes of a decoder call -/
def zccView : Except Fault (Option DecOut) → Option (Err × Bytes)
  | .ok (some o) => some (o.err, o.written)
  | _ => none

theorem zccView_ok (r : Except Fault (Option DecOut)) (D : Bytes) (h : zccView r = some (.ok, D)) :
    ∃ decN fdN, r = .ok (some ⟨.ok, D, decN, fdN⟩) := by
  cases r with
  | error f => cases h
  | ok o =>
    cases o with
    | none => cases h
    | some o =>
      obtain ⟨e, w, dec, fd⟩ := o
      simp only [zccView, Option.some.injEq, Prod.mk.injEq] at h
      obtain ⟨rfl, rfl⟩ := h
      exact ⟨dec, fd, rfl⟩

/-- the fresh decoder over the fresh feeder delivers the 5 bytes (evaluation of the model) -/
theorem zcc_fresh : ((Zip.init nullFeeder 4096 false 0xa5).map fun st0 =>
    zccView (decompress zccFiles (.mszip st0) (mszipFreshFeeder {} zccFile zccPart [] 2 1) 5)) =
    some (some (.ok, [1, 2, 3, 4, 5])) := by decide +kernel

/-- members requested backward, forward, overlapping, twice, empty: each gets its slice (by the theorem) -/
example (st0 : Zip.St Feeder) (hinit : Zip.init nullFeeder 4096 false 0xa5 = some st0) :
    mszipRunSeq zccFiles {} 2 7 1 [zccPart] [(3, 2), (0, 2), (1, 3), (1, 3), (4, 0), (2, 3)] none =
      [(.ok, some [4, 5]), (.ok, some [1, 2]), (.ok, some [2, 3, 4]), (.ok, some [2, 3, 4]), (.ok, some []),
       (.ok, some [3, 4, 5])] := by
  have hv := zcc_fresh
  rw [hinit] at hv
  simp only [Option.map_some, Option.some.injEq] at hv
  obtain ⟨decN, fdN, h⟩ := zccView_ok _ _ hv
  rw [C08_mszip_any_order_single zccFiles {} zccPart zccFile 2 7 1 st0 rfl rfl hinit 5 (by decide) (by decide)
    [1, 2, 3, 4, 5] decN fdN h _ (by decide)]
  rfl

/-- the same list evaluated directly (no theorem involved) -/
example : mszipRunSeq zccFiles {} 2 7 1 [zccPart] [(3, 2), (0, 2), (1, 3), (1, 3), (4, 0), (2, 3)] none =
      [(.ok, some [4, 5]), (.ok, some [1, 2]), (.ok, some [2, 3, 4]), (.ok, some [2, 3, 4]), (.ok, some []),
       (.ok, some [3, 4, 5])] := by decide +kernel

end MsPack.Cab
