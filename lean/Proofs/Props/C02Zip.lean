import Proofs.Lemmas.ZipBounds
import Proofs.Lemmas.BlockBounds
import MsPack.Lzss.Decoder
/-!
# C02 — memory safety, MSZIP (`mszipd.c`: `inflate`, `mszipd_decompress`, `mszipd_decompress_kwaj`)

The model renders the accesses the C makes into `zip->window` and `zip->inbuf` as checked
accesses with the explicit outcomes

* `Fault.oob "window"` — a literal or match byte stored at `window[window_posn]` with
  `window_posn` outside the 32 KiB frame (`putByte`),
* `Fault.oob "inbuf"` — `*i_ptr++` with nothing in the buffer after `read_input` returned
  (`nextByte`),
* `Fault.oob "zip->window[0..bytes_output)"` — the KWAJ writer handing out more than the window
  (`kwajLoop`).

The table lookups: the Huffman decode of the model works on the canonical code (no table index
to get wrong); the one table site it keeps is `Fault.uninit "bl_table entry"` — `bl_table[PEEK_BITS(7)]`
hitting an entry `make_decode_table` did not write — excluded here too, because a 7-bit table
accepted for 3-bit lengths is complete (`Huff.build7_complete`).  The model has no `nullDeref` /
`shiftWidth` / `divZero` site.

Proved here for every source, every input, every fuel, every parameter and every state reachable
from `init` by any sequence of `decompress` calls: these outcomes are never taken.  The only
`Fault`s a run can end with are `hang` (the fuel bound) and faults *returned by the source's own `read`*, which the decoder passes through unchanged
(`FaultOK`).  So with a source that never reports an out-of-bounds access — the CAB feeder
(`C02_feeder_no_oob`) and the plain file handle `Rd.src` are such sources — no run ends in one.

Invariants (`Proofs/Lemmas/ZipBounds.lean`):
* between calls (`ZipInv` = `WinOk`): `window.size = 32768`;
* inside `inflate` and at its normal return (`Inv`): additionally `windowPosn < 32768` and
  `bytesOutput ≤ 32768`.  `FLUSH_IF_NEEDED` after every stored byte/run is what re-establishes
  `windowPosn < 32768`; `flush_window`'s `bytes_output > 32768` check is what bounds the KWAJ write.
-/
namespace MsPack.Zip
open MsPack MsPack.Generated

variable {σ : Type} (S : Src σ)

/-- the state invariant the entry points need and keep: the window is the 32 KiB frame -/
abbrev ZipInv (st : St σ) : Prop := WinOk st

/-! ## the invariant: established by `init`, kept by every call -/

theorem C02_zip_init_inv (src : σ) (inputBufferSize : Nat) (repair : Bool) (fill : UInt8) (st : St σ)
    (h : init src inputBufferSize repair fill = some st) : ZipInv st :=
  init_winOk src inputBufferSize repair fill st h

theorem C02_zip_decompress_inv (fuel : Nat) (st : St σ) (outBytes : Nat) (hst : ZipInv st) (o : Out σ)
    (h : decompress S fuel st outBytes = .ok o) : ZipInv o.st := by
  have := decompress_ok S fuel st outBytes hst
  rw [h] at this; exact this

theorem C02_zip_decompressKwaj_inv (fuel : Nat) (st : St σ) (hst : ZipInv st) (o : Out σ)
    (h : decompressKwaj S fuel st = .ok o) : ZipInv o.st := by
  have := decompressKwaj_ok S fuel st hst
  rw [h] at this; exact this

/-! ## which faults a run can end with -/

/-- `mszipd_decompress`: a fault is the fuel bound or came from the source -/
theorem C02_zip_decompress_faults (fuel : Nat) (st : St σ) (outBytes : Nat) (hst : ZipInv st) (f : Fault)
    (h : decompress S fuel st outBytes = .error f) : FaultOK S f := by
  have := decompress_ok S fuel st outBytes hst
  rw [h] at this; exact this

/-- `mszipd_decompress_kwaj`: the same -/
theorem C02_zip_decompressKwaj_faults (fuel : Nat) (st : St σ) (hst : ZipInv st) (f : Fault)
    (h : decompressKwaj S fuel st = .error f) : FaultOK S f := by
  have := decompressKwaj_ok S fuel st hst
  rw [h] at this; exact this

/-- a class of faults that excludes `hang` and that the source never reports is never the outcome -/
theorem FaultOK.not_bad {f : Fault} (h : FaultOK S f) (bad : Fault → Prop) (h1 : ¬bad .hang)
    (hS : ∀ s n g, S.read s n = .error g → ¬bad g) : ¬bad f := by
  cases h with
  | hang => exact h1
  | src s n _ hr => exact hS s n f hr

/-! ## `Zip.decompress` (CAB entry point) -/

/-- **C02, MSZIP**: no input makes `mszipd_decompress` store outside the window or read an empty
    input buffer, provided the source's `read` does not itself report an out-of-bounds access -/
theorem C02_zip_decompress_no_oob (hS : ∀ s n t, S.read s n ≠ .error (.oob t))
    (fuel : Nat) (st : St σ) (outBytes : Nat) (hst : ZipInv st) (t : String) :
    decompress S fuel st outBytes ≠ .error (.oob t) := by
  intro h
  exact (C02_zip_decompress_faults S fuel st outBytes hst _ h).not_bad S (fun f => ∃ t, f = .oob t)
    (fun ⟨_, h⟩ => by cases h)
    (fun s n g hr ⟨t, hg⟩ => hS s n t (hg ▸ hr)) ⟨t, rfl⟩

theorem C02_zip_decompress_no_nullDeref (hS : ∀ s n t, S.read s n ≠ .error (.nullDeref t))
    (fuel : Nat) (st : St σ) (outBytes : Nat) (hst : ZipInv st) (t : String) :
    decompress S fuel st outBytes ≠ .error (.nullDeref t) := by
  intro h
  exact (C02_zip_decompress_faults S fuel st outBytes hst _ h).not_bad S (fun f => ∃ t, f = .nullDeref t)
    (fun ⟨_, h⟩ => by cases h)
    (fun s n g hr ⟨t, hg⟩ => hS s n t (hg ▸ hr)) ⟨t, rfl⟩

theorem C02_zip_decompress_no_shiftWidth (hS : ∀ s n, S.read s n ≠ .error .shiftWidth)
    (fuel : Nat) (st : St σ) (outBytes : Nat) (hst : ZipInv st) :
    decompress S fuel st outBytes ≠ .error .shiftWidth := by
  intro h
  exact (C02_zip_decompress_faults S fuel st outBytes hst _ h).not_bad S (fun f => f = .shiftWidth)
    (fun h => by cases h) (fun s n g hr hg => hS s n (hg ▸ hr)) rfl

theorem C02_zip_decompress_no_divZero (hS : ∀ s n, S.read s n ≠ .error .divZero)
    (fuel : Nat) (st : St σ) (outBytes : Nat) (hst : ZipInv st) :
    decompress S fuel st outBytes ≠ .error .divZero := by
  intro h
  exact (C02_zip_decompress_faults S fuel st outBytes hst _ h).not_bad S (fun f => f = .divZero)
    (fun h => by cases h) (fun s n g hr hg => hS s n (hg ▸ hr)) rfl

/-- the `bl_table` lookup of `zip_read_lens` never meets an entry `make_decode_table` left unset -/
theorem C02_zip_decompress_no_uninit (hS : ∀ s n t, S.read s n ≠ .error (.uninit t))
    (fuel : Nat) (st : St σ) (outBytes : Nat) (hst : ZipInv st) (t : String) :
    decompress S fuel st outBytes ≠ .error (.uninit t) := by
  intro h
  exact (C02_zip_decompress_faults S fuel st outBytes hst _ h).not_bad S (fun f => ∃ t, f = .uninit t)
    (fun ⟨_, h⟩ => by cases h)
    (fun s n g hr ⟨t, hg⟩ => hS s n t (hg ▸ hr)) ⟨t, rfl⟩

/-- any number of `decompress` calls, each on the state the previous one returned -/
def decompressCalls (fuel : Nat) : List Nat → St σ → Except Fault (St σ)
  | [], st => .ok st
  | n :: rest, st =>
    match decompress S fuel st n with
    | .error f => .error f
    | .ok o => decompressCalls fuel rest o.st

/-- … and so for a whole session: from `init`, through any sequence of calls -/
theorem C02_zip_session_no_oob (hS : ∀ s n t, S.read s n ≠ .error (.oob t))
    (src : σ) (inputBufferSize : Nat) (repair : Bool) (fill : UInt8) (st : St σ)
    (hinit : init src inputBufferSize repair fill = some st)
    (fuel : Nat) (calls : List Nat) (t : String) :
    decompressCalls S fuel calls st ≠ .error (.oob t) := by
  have hst := C02_zip_init_inv src inputBufferSize repair fill st hinit
  clear hinit
  induction calls generalizing st with
  | nil => intro h; cases h
  | cons n rest ih =>
    unfold decompressCalls
    cases hd : decompress S fuel st n with
    | error f =>
      intro h
      simp only [Except.error.injEq] at h
      exact C02_zip_decompress_no_oob S hS fuel st n hst t (h ▸ hd)
    | ok o => exact ih o.st (C02_zip_decompress_inv S fuel st n hst o hd)

/-! ## `Zip.decompressKwaj` (KWAJ entry point) -/

/-- **C02, MSZIP in KWAJ**: `mszipd_decompress_kwaj` neither stores outside the window, nor reads
    an empty buffer, nor writes out more than the window holds -/
theorem C02_zip_decompressKwaj_no_oob (hS : ∀ s n t, S.read s n ≠ .error (.oob t))
    (fuel : Nat) (st : St σ) (hst : ZipInv st) (t : String) :
    decompressKwaj S fuel st ≠ .error (.oob t) := by
  intro h
  exact (C02_zip_decompressKwaj_faults S fuel st hst _ h).not_bad S (fun f => ∃ t, f = .oob t)
    (fun ⟨_, h⟩ => by cases h)
    (fun s n g hr ⟨t, hg⟩ => hS s n t (hg ▸ hr)) ⟨t, rfl⟩

theorem C02_zip_decompressKwaj_no_nullDeref (hS : ∀ s n t, S.read s n ≠ .error (.nullDeref t))
    (fuel : Nat) (st : St σ) (hst : ZipInv st) (t : String) :
    decompressKwaj S fuel st ≠ .error (.nullDeref t) := by
  intro h
  exact (C02_zip_decompressKwaj_faults S fuel st hst _ h).not_bad S (fun f => ∃ t, f = .nullDeref t)
    (fun ⟨_, h⟩ => by cases h)
    (fun s n g hr ⟨t, hg⟩ => hS s n t (hg ▸ hr)) ⟨t, rfl⟩

theorem C02_zip_decompressKwaj_no_shiftWidth (hS : ∀ s n, S.read s n ≠ .error .shiftWidth)
    (fuel : Nat) (st : St σ) (hst : ZipInv st) :
    decompressKwaj S fuel st ≠ .error .shiftWidth := by
  intro h
  exact (C02_zip_decompressKwaj_faults S fuel st hst _ h).not_bad S (fun f => f = .shiftWidth)
    (fun h => by cases h) (fun s n g hr hg => hS s n (hg ▸ hr)) rfl

theorem C02_zip_decompressKwaj_no_divZero (hS : ∀ s n, S.read s n ≠ .error .divZero)
    (fuel : Nat) (st : St σ) (hst : ZipInv st) :
    decompressKwaj S fuel st ≠ .error .divZero := by
  intro h
  exact (C02_zip_decompressKwaj_faults S fuel st hst _ h).not_bad S (fun f => f = .divZero)
    (fun h => by cases h) (fun s n g hr hg => hS s n (hg ▸ hr)) rfl

theorem C02_zip_decompressKwaj_no_uninit (hS : ∀ s n t, S.read s n ≠ .error (.uninit t))
    (fuel : Nat) (st : St σ) (hst : ZipInv st) (t : String) :
    decompressKwaj S fuel st ≠ .error (.uninit t) := by
  intro h
  exact (C02_zip_decompressKwaj_faults S fuel st hst _ h).not_bad S (fun f => ∃ t, f = .uninit t)
    (fun ⟨_, h⟩ => by cases h)
    (fun s n g hr ⟨t, hg⟩ => hS s n t (hg ▸ hr)) ⟨t, rfl⟩

/-! ## the two sources the library uses -/

/-- MSZIP folders of a cabinet: the source is the CAB feeder, which never reports an
    out-of-bounds access (`feederRead_no_oob`), so no hypothesis on the source is left -/
theorem C02_cab_mszip_no_oob (files : Cab.Files) (fuel : Nat) (st : St Cab.Feeder) (outBytes : Nat)
    (hst : ZipInv st) (t : String) :
    decompress (Cab.feederSrc files) fuel st outBytes ≠ .error (.oob t) :=
  C02_zip_decompress_no_oob (Cab.feederSrc files)
    (fun s n t => Cab.feederRead_no_oob files _ s n [] t) fuel st outBytes hst t

/-- KWAJ method 4: the source is the plain file handle, which never faults; from `mszipd_init`
    the only fault left is the fuel bound -/
theorem C02_kwaj_mszip_faults (r : Rd) (inputBufferSize : Nat) (repair : Bool) (fill : UInt8) (z : St Rd)
    (hinit : init r inputBufferSize repair fill = some z) (fuel : Nat) (f : Fault)
    (h : decompressKwaj Rd.src fuel z = .error f) : f = .hang := by
  have := C02_zip_decompressKwaj_faults Rd.src fuel z (C02_zip_init_inv r inputBufferSize repair fill z hinit) f h
  cases this with
  | hang => rfl
  | src s n _ hr => cases hr

/-- … in particular none of the four outcomes C02 is about, with no hypothesis left -/
theorem C02_kwaj_mszip_no_oob (r : Rd) (inputBufferSize : Nat) (repair : Bool) (fill : UInt8) (z : St Rd)
    (hinit : init r inputBufferSize repair fill = some z) (fuel : Nat) (t : String) :
    decompressKwaj Rd.src fuel z ≠ .error (.oob t) ∧ decompressKwaj Rd.src fuel z ≠ .error (.nullDeref t) ∧
    decompressKwaj Rd.src fuel z ≠ .error .shiftWidth ∧ decompressKwaj Rd.src fuel z ≠ .error .divZero := by
  refine ⟨?_, ?_, ?_, ?_⟩ <;> intro h <;>
    cases C02_kwaj_mszip_faults r inputBufferSize repair fill z hinit fuel _ h

/-- the hypothesis on the source cannot be dropped: the decoder passes a fault of the source's
    `read` through unchanged, so a source that reports `oob` makes the run end with it -/
example : (init (σ := Unit) () 4096 false 0).map (fun st =>
    decompress { read := fun _ _ => .error (.oob "the source's own") } 10 st 1 matches .error (.oob _))
    = some true := by decide +kernel

/-! ## the theorems are about runs that do something -/

/-- `CK`, one fixed-Huffman block: literals `a b c`, a match (length 3, distance 3), end of block -/
def sampleHuff : Bytes := [0x43, 0x4B, 0x4b, 0x4c, 0x4a, 0x06, 0x22, 0x00]
/-- `CK`, one stored block `x y z` -/
def sampleStored : Bytes := [0x43, 0x4B, 0x01, 0x03, 0x00, 0xFC, 0xFF, 0x78, 0x79, 0x7A]

/-- CAB entry point: literals and a match copy go through the window and come out -/
example : ((init (σ := Rd) ⟨sampleHuff, 0⟩ 4096 false 0).map fun st =>
    match decompress Rd.src 1000 st 6 with
    | .ok o => some (o.err, o.written)
    | .error _ => none) = some (some (.ok, [0x61, 0x62, 0x63, 0x61, 0x62, 0x63])) := by decide +kernel

/-- two calls on one stream: the second is served from the bytes the first left pending -/
example : ((init (σ := Rd) ⟨sampleHuff, 0⟩ 4096 false 0).map fun st =>
    match decompress Rd.src 1000 st 2 with
    | .ok o =>
      (match decompress Rd.src 1000 o.st 4 with
       | .ok o2 => some (o.written, o2.err, o2.written)
       | .error _ => none)
    | .error _ => none) = some (some ([0x61, 0x62], .ok, [0x63, 0x61, 0x62, 0x63])) := by decide +kernel

/-- KWAJ entry point: a Huffman block and a stored block, then the `block_len = 0` terminator -/
example : ((init (σ := Rd) ⟨[8, 0] ++ sampleHuff ++ [10, 0] ++ sampleStored ++ [0, 0], 0⟩ 4096 false 0).map fun st =>
    match decompressKwaj Rd.src 1000 st with
    | .ok o => some (o.err, o.written)
    | .error _ => none)
    = some (some (.ok, [0x61, 0x62, 0x63, 0x61, 0x62, 0x63, 0x78, 0x79, 0x7A])) := by decide +kernel

end MsPack.Zip
