import Proofs.Lemmas.ZipStickyStrict
import Proofs.Props.C08MszipFree
/-!
# C08 for MSZIP folders, strict mode: what a failed call leaves, and calls after it

`Proofs/Lemmas/ZipStickyStrict.lean` proves the two facts `C08MszipFree.lean` listed as missing, for `Zip.decompress` over the
CAB feeder with `repair = false` (strict MSZIP, `fix_mszip` off):

* `C08_mszip_fail_sticky` — a call that returns `e ≠ ok` leaves `error = e` recorded, so every later call on that
  state returns `(e, [], same state)` at once (`C08_mszip_sticky_call`);
* `C08_mszip_fail_request_free` — it wrote fewer bytes than asked, and the call for ANY request larger than what it
  wrote returns the very same status, bytes and state; the request for exactly the bytes it wrote succeeds and leaves
  a state from which every non-empty request returns `(e, [], that same state)`.

With them: `extract_mszip_after_failure` — the cache holds this folder's decoder as a failed decoder call left it
(reached from the fresh pair by one call that returned `e ≠ ok` after writing `ds.offset` bytes): any later
`extract()` of any member that returns, returns the fresh instance's status and bytes.  Together with
`extract_mszip_free` (cache reached by an OK call) these are the two halves of one `extract()` step of
`C08_mszip_history_free`; see the end of the file for what is left.
-/
namespace MsPack.Zip
open MsPack MsPack.Generated MsPack.Cab

/-- **sticky**: a failed strict-mode call has recorded its status -/
theorem C08_mszip_fail_sticky (files : Files) (fuel : Nat) (Z : St Feeder) (hw : ZipInv Z) (hr : Z.repair = false)
    (b : Nat) (e : Err) (w : Bytes) (Z' : St Feeder)
    (h : decompress (feederSrc files) fuel Z b = .ok ⟨e, w, Z'⟩) (hne : e ≠ .ok) : Z'.error = e := by
  by_cases he0 : Z.error = .ok
  · exact (ZipStickyStrict.fail_shape files fuel fuel Z hw hr he0 b e w Z' h hne).1
  · unfold decompress at h
    rw [if_pos he0] at h
    simp only [Except.ok.injEq, Out.mk.injEq] at h
    obtain ⟨h1, _, h3⟩ := h
    rw [← h3]; exact h1

/-- a state with a recorded error answers every call with it, writes nothing, does not change -/
theorem C08_mszip_sticky_call {σ : Type} (S : Src σ) (fuel : Nat) (Z : St σ) (he : Z.error ≠ .ok) (n : Nat) :
    decompress S fuel Z n = .ok ⟨Z.error, [], Z⟩ := by
  unfold decompress
  rw [if_pos he]

/-- **a failure does not depend on the request** (strict mode, state without recorded error) -/
theorem C08_mszip_fail_request_free (files : Files) (fuel : Nat) (Z : St Feeder) (hw : ZipInv Z)
    (hr : Z.repair = false) (he0 : Z.error = .ok) (b : Nat) (e : Err) (w : Bytes) (Z' : St Feeder)
    (h : decompress (feederSrc files) fuel Z b = .ok ⟨e, w, Z'⟩) (hne : e ≠ .ok) :
    w.length < b ∧
    (∀ b', w.length < b' → decompress (feederSrc files) fuel Z b' = .ok ⟨e, w, Z'⟩) ∧
    ∃ Zm, decompress (feederSrc files) fuel Z w.length = .ok ⟨.ok, w, Zm⟩ ∧
      ∀ k, 0 < k → decompress (feederSrc files) fuel Zm k = .ok ⟨e, [], Z'⟩ :=
  (ZipStickyStrict.fail_shape files fuel fuel Z hw hr he0 b e w Z' h hne).2

end MsPack.Zip

namespace MsPack.Cab
open MsPack MsPack.Generated

/-- `cabd_extract`'s `READ → read_error` substitution -/
def subErr (e : Err) (fd : Feeder) : Err := if e = .read then fd.readError else e

section
variable {files : Files} {fd0 : Feeder} {st0 : Zip.St Feeder}

/-- a decoder call on a decoder with a recorded error: that error (substituted), nothing written, nothing moves -/
theorem runPhase_sticky (ds : DState) (st : Zip.St Feeder) (e : Err) (hE : st.error = e) (hne : e ≠ .ok) (k : Nat) :
    runPhase files ds (.mszip st) k =
      .ran (subErr e ds.feeder) [] ⟨ds.folder, ds.offset + 0, ds.feeder, some (.mszip { st with src := ds.feeder })⟩ := by
  unfold runPhase
  rw [ZipChunkCab.decompress_mszip,
    Zip.C08_mszip_sticky_call (feederSrc files) _ { st with src := ds.feeder } (by show st.error ≠ .ok; rw [hE]; exact hne)]
  dsimp only
  rw [hE]
  rfl

/-- a decoder call of the fresh pair, from its `Zip.decompress` result -/
theorem runPhase_fresh_of (key b' : Nat) (e : Err) (w : Bytes) (Z : Zip.St Feeder)
    (h : Zip.decompress (feederSrc files) (chainFuel files fd0) { st0 with src := fd0 } b' = .ok ⟨e, w, Z⟩) :
    runPhase files ⟨key, 0, fd0, some (.mszip st0)⟩ (.mszip st0) b' =
      .ran (subErr e Z.src) w ⟨key, 0 + w.length, Z.src, some (.mszip Z)⟩ := by
  unfold runPhase
  rw [ZipChunkCab.decompress_mszip_ok files st0 fd0 b' _ h]
  rfl

/-- both phases from a decoder that a failed call left: what comes out also comes out of the fresh pair -/
theorem runPhases_after_failure (hst : Zip.ZipInv st0) (hrep : st0.repair = false) (he00 : st0.error = .ok)
    (hf0 : st0.bits.length + 8 * st0.inbuf.length + 8 * feederLeft files fd0
      + (if st0.inputEnd then 0 else 16) + 1 ≤ decFuel files)
    (key : Nat) (ds : DState) (hfol : ds.folder = key) (st : Zip.St Feeder) (hdec : ds.dec = some (.mszip st))
    (R : Nat) (e : Err) (w : Bytes)
    (hfail : Zip.decompress (feederSrc files) (chainFuel files fd0) { st0 with src := fd0 } R =
      .ok ⟨e, w, { st with src := ds.feeder }⟩)
    (hne : e ≠ .ok) (hlen : w.length = ds.offset)
    (m : Member) (L : Nat) (hoff : ds.offset ≤ m.offset) (e' : Err) (w' : Option Bytes) (d' : Option DState)
    (h : runPhases files ds m L = .done e' w' d') :
    ∃ d'', runPhases files ⟨key, 0, fd0, some (.mszip st0)⟩ m L = .done e' w' d'' := by
  obtain ⟨hE, _, h3, Zm, h4, h5⟩ := ZipStickyStrict.fail_shape files _ _ { st0 with src := fd0 } hst hrep he00 R e w _ hfail hne
  have hE' : st.error = e := hE
  unfold runPhases at h ⊢
  rw [hdec] at h
  simp only at h ⊢
  by_cases hl0 : L = 0
  · rw [if_pos hl0] at h ⊢
    simp only [ExtractResult.done.injEq] at h
    obtain ⟨rfl, rfl, _⟩ := h
    exact ⟨_, rfl⟩
  · rw [if_neg hl0] at h ⊢
    rw [Nat.sub_zero]
    by_cases hs : m.offset - ds.offset = 0
    · rw [if_pos hs, runPhase_sticky ds st e hE' hne L] at h
      simp only [ExtractResult.done.injEq] at h
      obtain ⟨rfl, rfl, _⟩ := h
      have ho : m.offset = w.length := by omega
      by_cases hz : m.offset = 0
      · rw [if_pos hz]
        have hw0 : w = [] := List.eq_nil_of_length_eq_zero (by omega)
        have := h3 L (by omega)
        rw [runPhase_fresh_of key L e w _ this, hw0]
        exact ⟨_, rfl⟩
      · rw [if_neg hz, ho, runPhase_fresh_of key w.length .ok w Zm h4]
        have hsub : subErr .ok Zm.src = .ok := rfl
        rw [hsub]
        simp only [ne_eq, not_true_eq_false, ↓reduceIte]
        -- the output phase from `Zm`
        have hnh : MszipNoHang files fd0 st0 (w.length + L) := MszipNoHang.of_fresh files fd0 st0 _ hst hf0
        have hreach : MszipReach files fd0 st0 w w.length Zm := by
          unfold MszipReach; rw [List.take_length]; exact h4
        have hno := hnh.zip w.length L (Nat.le_refl _) Zm hreach
        have hact := Zip.ZipChunkCab.transfer (feederSrc files) _ (chainFuel files Zm.src) Zm L _ (h5 L (by omega)) hno
        have hrp : runPhase files ⟨key, 0 + w.length, Zm.src, some (.mszip Zm)⟩ (.mszip Zm) L =
            .ran (subErr e ds.feeder) [] ⟨key, 0 + w.length + 0, ds.feeder, some (.mszip { st with src := ds.feeder })⟩ := by
          unfold runPhase
          rw [ZipChunkCab.decompress_mszip_ok files Zm Zm.src L _ hact]
          rfl
        rw [hrp]
        exact ⟨_, rfl⟩
    · rw [if_neg hs, runPhase_sticky ds st e hE' hne _] at h
      have hne0 : ¬ m.offset = 0 := by omega
      rw [if_neg hne0, runPhase_fresh_of key m.offset e w _ (h3 m.offset (by omega))]
      have hds : (⟨key, 0 + w.length, ds.feeder, some (.mszip { st with src := ds.feeder })⟩ : DState) =
          ⟨ds.folder, ds.offset + 0, ds.feeder, some (.mszip { st with src := ds.feeder })⟩ := by
        rw [hfol, hlen, Nat.zero_add, Nat.add_zero]
      rw [show ({ st with src := ds.feeder } : Zip.St Feeder).src = ds.feeder from rfl, hds]
      exact ⟨d', h⟩

end

theorem zipInit_repair_error {σ : Type} (src : σ) (n : Nat) (rep : Bool) (fill : UInt8) (st : Zip.St σ)
    (h : Zip.init src n rep fill = some st) : st.repair = rep ∧ st.error = .ok := by
  unfold Zip.init at h
  dsimp only at h
  split at h
  · cases h
  · cases h; exact ⟨rfl, rfl⟩

/-- **one call after a failed call** (strict MSZIP: `fix_mszip` off).  The cache holds this folder's decoder as a
    failed decoder call left it: reached from the fresh pair by ONE call (for `R` bytes) that returned `e ≠ ok` after
    writing `ds.offset` bytes.  Any member requested next — whenever `extract` returns status and bytes, so does the
    same call on a fresh instance. -/
theorem extract_mszip_after_failure (files : Files) (p : Params) (part : Part) (more : List Part) (bytes : Bytes)
    (nblocks key ct : Nat) (st0 : Zip.St Feeder)
    (hlook : files.lookup part.fname = some bytes) (hct : compMask ct = 1) (hstrict : p.fixMszip = false)
    (hinit : Zip.init nullFeeder p.bufSize p.fixMszip p.fill = some st0)
    (hfuel0 : 8 * feederLeft files (mszipFreshFeeder p bytes part more nblocks ct) + 17 ≤ decFuel files)
    (ds : DState) (hfol : ds.folder = key) (st : Zip.St Feeder) (hdec : ds.dec = some (.mszip st))
    (R : Nat) (e : Err) (w : Bytes)
    (hfail : Zip.decompress (feederSrc files) (chainFuel files (mszipFreshFeeder p bytes part more nblocks ct))
      { st0 with src := mszipFreshFeeder p bytes part more nblocks ct } R = .ok ⟨e, w, { st with src := ds.feeder }⟩)
    (hne : e ≠ .ok) (hlen : w.length = ds.offset)
    (o l : Nat) (e' : Err) (w' : Option Bytes) (d' : Option DState)
    (h : extract files p (some ds) (mszipMember (part :: more) nblocks key ct o l) = .done e' w' d') :
    (extract files p none (mszipMember (part :: more) nblocks key ct o l)).observable = some (e', w') := by
  have hst : Zip.ZipInv st0 := Zip.C02_zip_init_inv _ _ _ _ st0 hinit
  obtain ⟨hrep, he00⟩ := zipInit_repair_error _ _ _ _ st0 hinit
  rw [hstrict] at hrep
  have hf0 : st0.bits.length + 8 * st0.inbuf.length + 8 * feederLeft files (mszipFreshFeeder p bytes part more nblocks ct)
      + (if st0.inputEnd then 0 else 16) + 1 ≤ decFuel files := by
    obtain ⟨h1, h2, _, h4, _⟩ := Zip.init_fields hinit
    rw [h1, h2, h4]
    simp only [List.length_nil, Nat.mul_zero, Nat.zero_add, Bool.false_eq_true, ↓reduceIte]
    omega
  unfold extract at h ⊢
  cases hc : memberCheck p (mszipMember (part :: more) nblocks key ct o l) with
  | error e0 =>
    rw [hc] at h
    simp only [ExtractResult.done.injEq] at h
    obtain ⟨rfl, rfl, _⟩ := h
    rfl
  | ok v =>
    obtain ⟨filelen, key'⟩ := v
    have hk : (mszipMember (part :: more) nblocks key ct o l).folderKey = some key' := by
      unfold memberCheck at hc
      simp only at hc
      repeat' split at hc
      all_goals first
        | contradiction
        | (simp only [Except.ok.injEq, Prod.mk.injEq] at hc; simp_all)
    have hkk : key' = key := by
      simp only [mszipMember, Option.some.injEq] at hk
      exact hk.symm
    subst hkk
    rw [hc] at h
    simp only at h ⊢
    have hdec0 : initDec p ct = some (.mszip st0) := by
      simp only [initDec, hct, hinit, Option.map_some]
    have hfreshDS : freshDState files p (mszipMember (part :: more) nblocks key' ct o l) key' =
        .ok ⟨key', 0, mszipFreshFeeder p bytes part more nblocks ct, some (.mszip st0)⟩ := by
      unfold freshDState mszipMember
      simp only [hlook, Option.map_some, hdec0]
      rfl
    have hnone : obtainDState files p none (mszipMember (part :: more) nblocks key' ct o l) key' =
        .ok ⟨key', 0, mszipFreshFeeder p bytes part more nblocks ct, some (.mszip st0)⟩ := by
      simp only [obtainDState, hfreshDS]
    rw [hnone]
    simp only
    unfold obtainDState at h
    simp only at h
    by_cases hre : ds.folder = key' ∧ ¬ ds.offset > (mszipMember (part :: more) nblocks key' ct o l).offset ∧
        ds.dec.isSome = true
    · rw [if_pos hre] at h
      simp only at h
      obtain ⟨d'', hd⟩ := runPhases_after_failure hst hrep he00 hf0 key' ds hfol st hdec R e w hfail hne hlen _ filelen
        (by have := hre.2.1; omega) e' w' d' h
      rw [hd]; rfl
    · rw [if_neg hre, hfreshDS] at h
      simp only at h
      rw [h]; rfl

/-!
## What is left for `C08_mszip_history_free`

The two one-call theorems — `extract_mszip_free` (cache reached by an OK call) and `extract_mszip_after_failure` (cache
left by a failed call) — cover every cache a session on one MSZIP folder can hold, *provided* the cache is described
by the invariant "none, or this folder's decoder reached from the fresh pair by ONE call for `R` bytes that wrote
`ds.offset` bytes with status `e` (`e = ok → R = ds.offset`)".  Not done: the bookkeeping lemma that every `extract()`
call re-establishes this invariant for the cache it leaves (from an OK cache: `skip_join` gives the one call for
`offset + k` with the second call's status — exactly the invariant; from a failed cache: `runPhase_sticky` shows the
cache does not move), and the induction over the call list.  No further decoder fact is needed.  Repair mode
(`fix_mszip`) is outside: there a READ failure inside a frame delivers bytes together with the status, and the
invariant has to be "equal up to `pending`".
-/

end MsPack.Cab
