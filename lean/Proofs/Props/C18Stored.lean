import Proofs.Props.C08Stored
/-!
# C18 lifted to `extract()` for stored folders

`C01_stored_extract` / `C08_stored_any_order` hold for *every* parameter record: strict, SALVAGE, FIXMSZIP, both,
any DECOMPBUF ≥ 1.  Hence for a stored folder of well-formed blocks the four parameter combinations (and any two
buffer sizes) give identical results for any sequence of calls: the relaxed modes change nothing on valid data.
-/
namespace MsPack.Cab
open MsPack MsPack.Generated

theorem C18_stored_params_irrelevant (files : Files) (fname : String) (bytes : Bytes) (hlook : files.lookup fname = some bytes)
    (off : Nat) (blks : List DataBlk) (hwf : ∀ b ∈ blks, b.wf) (rest : Bytes)
    (hd : bytes.drop off = blks.flatMap encData ++ rest)
    (p q : Params) (hp : 0 < p.bufSize) (hq : 0 < q.bufSize) (key : Nat) (ctHigh : Nat) (hct : compMask (ctHigh * 16) = 0)
    (nblocks : Nat) (hnb : blks.length ≤ nblocks) (hmax : (plainOf blks).length ≤ cabLENGTHMAX)
    (ms : List (Nat × Nat)) (hms : ∀ m ∈ ms, m.1 + m.2 ≤ (plainOf blks).length) :
    runSeq files p fname off nblocks key ctHigh ms none = runSeq files q fname off nblocks key ctHigh ms none := by
  rw [C08_stored_any_order files fname bytes hlook off blks hwf rest hd p hp key ctHigh hct nblocks hnb hmax ms hms,
      C08_stored_any_order files fname bytes hlook off blks hwf rest hd q hq key ctHigh hct nblocks hnb hmax ms hms]

end MsPack.Cab
