import Proofs.Lemmas.FeederThreadLzx
import Proofs.Props.C02CabLift3
/-!
# C02 — LZX folders of a cabinet

`Proofs/Lemmas/FeederThreadLzx.lean` walks every helper of the LZX model with the relational triple
`Cg`: from a decoder state whose feeder is live and satisfies `FeederLen files L` (the states of one
folder: closed under reads, announcing only `L`), the run over the CAB feeder `feederSrc files` and
the run over `lenFiltered files L` (same `read`, deaf to announcements other than `L`) coincide,
no fault is a null dereference, and the invariant holds again afterwards unless the sticky error
is set.  Since `lenFiltered files L` satisfies `LenStable` for every state, the decoder theorems of
`C02Lzx.lean` transfer:

* `C02_cab_lzx_no_oob`: no out-of-bounds outcome (below 2 GiB of output);
* `C02_cab_lzx_no_fault`: the only faults are the iteration bound and a read of a decode table that
  was never built (`uninit`, property C11); the invariant `LzxLive` is preserved;
* `C02_cab_lzx_fresh`: the decoder `cabd_extract` sets up for an LZX folder satisfies `LzxLive`
  for `L` = the folder's total uncompressed size as its block headers give it.
-/
namespace MsPack.CabLift
open MsPack MsPack.Generated MsPack.Cab

/-- the LZX invariant does not mention the input handle (the CAB layer swaps it before each call) -/
theorem Good_src {σ τ : Type} {L : Nat} {st : Lzx.St σ} (x : τ) (h : Lzx.Good L st) :
    Lzx.Good L ({ st with src := x } : Lzx.St τ) :=
  ⟨⟨h.inv.win, h.inv.wsLe, h.inv.wsDvd, h.inv.wsPos, h.inv.pre, h.inv.main, h.inv.len, h.inv.ali, h.inv.e8,
    h.inv.nOff, h.inv.ref, h.inv.tbl⟩, h.wpfp, h.fpLt, h.outLe, h.outSz, h.len, h.align, h.cnt⟩

/-- the invariant of an LZX decoder state under the CAB feeder of a folder announcing `L` -/
def LzxLive (files : Files) (L : Nat) (st : Lzx.St Feeder) : Prop :=
  Lzx.LzxInv L st ∧ (st.error = .ok → FeederLive st.src ∧ FeederLen files L st.src)

/-- the run over the feeder is the run over the filtered feeder -/
theorem C02_cab_lzx_run_eq (files : Files) (L : Nat) (fuel : Nat) (st : Lzx.St Feeder) (n : Nat)
    (h : st.error = .ok → FeederLive st.src ∧ FeederLen files L st.src) :
    Lzx.decompress (feederSrc files) fuel st n = Lzx.decompress (lenFiltered files L) fuel st n :=
  (LzxThread.decompress_cg files L fuel st n h).1

/-- **LZX in a cabinet: no out-of-bounds access** (below 2 GiB of output) -/
theorem C02_cab_lzx_no_oob (files : Files) (L : Nat) (fuel : Nat) (st : Lzx.St Feeder) (n : Nat)
    (h : LzxLive files L st) (ho : st.offset + n < 2147483648) (s : String) :
    Lzx.decompress (feederSrc files) fuel st n ≠ .error (.oob s) :=
  (C02_cab_lzx_no_oob_of_run_eq_partial
    files L fuel st n h.1 ho (C02_cab_lzx_run_eq files L fuel st n h.2) s)

/-- **LZX in a cabinet, all fault kinds**: the iteration bound or an unbuilt decode table; the
    invariant holds again of the state returned, whose offset has grown by at most the request -/
theorem C02_cab_lzx_no_fault (files : Files) (L : Nat) (fuel : Nat) (st : Lzx.St Feeder) (n : Nat)
    (h : LzxLive files L st) (ho : st.offset + n < 2147483648) :
    (∀ f, Lzx.decompress (feederSrc files) fuel st n = .error f → f = .hang ∨ ∃ s, f = .uninit s) ∧
    (∀ o, Lzx.decompress (feederSrc files) fuel st n = .ok o →
      LzxLive files L o.st ∧ (o.st.error = .ok → o.st.offset ≤ st.offset + n)) := by
  obtain ⟨heq, hout⟩ := LzxThread.decompress_cg files L fuel st n h.2
  refine ⟨fun f hf => ?_, fun o hk => ?_⟩
  · rw [hf] at hout
    rw [heq] at hf
    rcases (C02_cab_lzx_faults_partial
      files L fuel st n h.1 ho f hf) with h1 | h1 | h1 | h1
    · exact Or.inl h1
    · exact Or.inr h1
    · exact absurd h1 (hout _)
    · exact absurd h1 (hout _)
  · rw [hk] at hout
    rw [heq] at hk
    have := Lzx.C02_lzx_inv_preserved (lenFiltered files L) L (lenFiltered_stable files L) fuel st n h.1 ho o hk
    exact ⟨⟨this.1, fun he => (hout he).1⟩, this.2⟩

/-- a status other than OK is sticky: if the state returned is still alive, the call returned OK -/
theorem C02_cab_lzx_status_sticky (files : Files) (L : Nat) (fuel : Nat) (st : Lzx.St Feeder) (n : Nat)
    (h : LzxLive files L st) (o : DecodeOut (Lzx.St Feeder))
    (hk : Lzx.decompress (feederSrc files) fuel st n = .ok o) (he : o.st.error = .ok) : o.err = .ok := by
  have hout := (LzxThread.decompress_cg files L fuel st n h.2).2
  rw [hk] at hout
  exact (hout he).2

/-- none of the undefined-behaviour outcomes other than `uninit` (property C11) -/
theorem C02_cab_lzx_no_ub (files : Files) (L : Nat) (fuel : Nat) (st : Lzx.St Feeder) (n : Nat)
    (h : LzxLive files L st) (ho : st.offset + n < 2147483648) :
    (∀ w, Lzx.decompress (feederSrc files) fuel st n ≠ .error (.oob w)) ∧
    (∀ w, Lzx.decompress (feederSrc files) fuel st n ≠ .error (.nullDeref w)) ∧
    Lzx.decompress (feederSrc files) fuel st n ≠ .error .divZero ∧
    Lzx.decompress (feederSrc files) fuel st n ≠ .error .shiftWidth := by
  have := (C02_cab_lzx_no_fault files L fuel st n h ho).1
  refine ⟨fun w hf => ?_, fun w hf => ?_, fun hf => ?_, fun hf => ?_⟩ <;>
    rcases this _ hf with h1 | ⟨_, h1⟩ <;> cases h1

/-- the decoder `cabd_extract` sets up for an LZX folder satisfies the invariant, for the `L` the
    folder's block headers add up to -/
theorem C02_cab_lzx_fresh (files : Files) (p : Params) (m : Member) (key : Nat) (ds : DState)
    (st : Lzx.St Feeder) (h : freshDState files p m key = .ok ds) (hd : ds.dec = some (.lzx st)) :
    ∃ L, LzxLive files L ({ st with src := ds.feeder } : Lzx.St Feeder) ∧ st.offset = 0 := by
  have hf := C02_cab_fresh_feeder files p m key ds h
  obtain ⟨L, hL⟩ := C02_cab_lzx_len_exists files ds.feeder hf.2.1
  refine ⟨L, ?_⟩
  unfold freshDState at h
  split at h
  · contradiction
  · split at h
    · contradiction
    · split at h
      · contradiction
      · rename_i dec hi
        simp only [Except.ok.injEq] at h
        subst h
        simp only [Option.some.injEq] at hd
        subst hd
        unfold initDec at hi
        split at hi
        · cases hi
        · cases hz : Zip.init nullFeeder p.bufSize p.fixMszip p.fill with
          | none => rw [hz] at hi; cases hi
          | some z => rw [hz] at hi; cases hi
        · split at hi
          · cases hq : Qtm.init nullFeeder ((m.compType >>> 8) &&& 0x1f) p.bufSize p.fill with
            | none => rw [hq] at hi; cases hi
            | some z => rw [hq] at hi; cases hi
          · cases hi
        · split at hi
          · cases hq : Lzx.init nullFeeder ((m.compType >>> 8) &&& 0x1f) 0 p.bufSize 0 false p.fill with
            | none => rw [hq] at hi; cases hi
            | some z =>
              rw [hq] at hi
              simp only [Option.map, Option.some.injEq, Dec.lzx.injEq] at hi
              subst hi
              have hinv := Lzx.C02_lzx_init_inv nullFeeder _ 0 p.bufSize 0 false p.fill z L (Or.inl rfl) hq
              have hoff := Lzx.init_offset nullFeeder _ 0 p.bufSize 0 false p.fill z hq
              refine ⟨⟨?_, fun _ => ⟨hf.1, hL⟩⟩, hoff⟩
              rcases hinv with he | hg
              · exact Or.inl he
              · exact Or.inr (Good_src _ hg)
          · cases hi
        · cases hi

end MsPack.CabLift
