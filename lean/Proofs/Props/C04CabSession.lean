import Proofs.Props.C04CabExtract
import Proofs.Lemmas.ZipSticky
import Proofs.Lemmas.LoopTermLzx2
/-!
# C04 for `cabd_extract`, all four methods, whole sessions — no hypothesis left but the static fuel condition

`C04CabExtract.lean` carried three named hypotheses.  They are discharged here:

* `ZipSticky_partial`: `Zip.ZipSticky.decompress_sticky` (`Proofs/Lemmas/ZipSticky.lean`; every source, strict and repair
  mode: a status other than OK leaves `zip->error` set);
* Quantum (`callOk_qtm`): `QtmTerm.decompress_T2` (`LoopTermQtm.lean`): a call that leaves the decoder alive keeps `Sync`
  and does not raise `stAvail`; a dead decoder returns at once;
* LZX (`callOk_lzx`): `Lzx.Term2.decompress_ok_M` (`LoopTermLzx2.lean`): an OK call does not raise `M`; a status other than
  OK is sticky (`C02_cab_lzx_status_sticky`).

Result: `C04_cab_extract_no_hang`, `C04_cab_session_no_hang` (any members, any methods, any order, from a fresh
decompressor; premises `1 ≤ p.bufSize` — `cabd_param` refuses less than 4 — and `StaticFuel` for each member), and
`C04_cab_session_no_hang_single` (every folder inside one cabinet file: no condition on the files at all).
-/
namespace MsPack.CabFuel
open MsPack MsPack.Generated MsPack.Cab MsPack.CabLift

variable {files : Files}

theorem zipSticky (files : Files) : ZipSticky_partial files :=
  fun fuel st n o h he => Zip.ZipSticky.decompress_sticky (feederSrc files) fuel st n o h he

/-- Quantum part of the fuel invariant -/
def PQ (files : Files) (st : Qtm.St Feeder) (fd : Feeder) : Prop :=
  st.error = .ok → QtmTerm.Sync st ∧
    QtmTerm.stAvail (feederLeft files) ({ st with src := fd } : Qtm.St Feeder) < 8 * decFuel files

/-- LZX part of the fuel invariant -/
def PL (files : Files) (st : Lzx.St Feeder) (fd : Feeder) : Prop :=
  st.error = .ok → Lzx.M (feederLeft files) ({ st with src := fd } : Lzx.St Feeder) + 3 ≤ decFuel files

theorem feeder_finite (files : Files) : (feederSrc files).Finite (feederLeft files) :=
  ⟨(feederSrc_ok files).shrink, (feederSrc_ok files).nohang⟩

theorem decFuel_ge (files : Files) : 100000 ≤ decFuel files := by unfold decFuel; omega

theorem callOk_qtm : CallOk files (FuelPair files (PQ files) (PL files)) fun d => ∃ st, d = .qtm st := by
  rintro dec fd off n ⟨st, rfl⟩ hj hn hP
  have hcap := lengthMax_lt
  have hle := zcc_decFuel_le_chainFuel files fd
  have hge := decFuel_ge files
  by_cases he : st.error = .ok
  · obtain ⟨hsy, hav⟩ := hP he
    have hI' : Qtm.StInv ({ st with src := fd } : Qtm.St Feeder) := ⟨hj.1.1, hj.1.2⟩
    have ht := QtmTerm.decompress_T2 (feeder_finite files) (chainFuel files fd) { st with src := fd } n hI'
      (fun _ => ⟨hsy.1, hsy.2, hsy.3, hsy.4⟩) (by omega) (by omega) (by omega)
    unfold Cab.decompress
    dsimp only
    split
    · rename_i f hf
      rw [hf] at ht
      exact ⟨fun h => (by cases h; exact ht rfl), fun o h => (by cases h)⟩
    · rename_i o ho
      rw [ho] at ht
      refine ⟨fun h => (by cases h), fun o' h => ?_⟩
      cases h
      intro heo
      obtain ⟨h1, h2⟩ := ht heo
      exact ⟨h1, Nat.lt_of_le_of_lt h2 hav⟩
  · have hd : Qtm.decompress (feederSrc files) (chainFuel files fd) { st with src := fd } n =
        .ok ⟨st.error, [], { st with src := fd }⟩ := by
      unfold Qtm.decompress
      rw [if_pos he]
    unfold Cab.decompress
    dsimp only
    rw [hd]
    exact ⟨fun h => (by cases h), fun o h => (by cases h; exact fun h' => absurd h' he)⟩

theorem callOk_lzx : CallOk files (FuelPair files (PQ files) (PL files)) fun d => ∃ st, d = .lzx st := by
  rintro dec fd off n ⟨st, rfl⟩ hj hn hP
  obtain ⟨L, hinv, hl⟩ := hj
  have hle := zcc_decFuel_le_chainFuel files fd
  by_cases he : st.error = .ok
  · have hm := hP he
    have hlive : LzxLive files L ({ st with src := fd } : Lzx.St Feeder) :=
      ⟨LzxInv_src fd hinv, fun _ => (hl he).1⟩
    have hnh := Lzx.Term2.no_hang_M (feederSrc files) (feederLeft files) (feeder_finite files) (chainFuel files fd)
      { st with src := fd } n (by omega)
    unfold Cab.decompress
    dsimp only
    split
    · rename_i f hf
      exact ⟨fun h => (by cases h; exact hnh hf), fun o h => (by cases h)⟩
    · rename_i o ho
      refine ⟨fun h => (by cases h), fun o' h => ?_⟩
      cases h
      intro heo
      have hs := C02_cab_lzx_status_sticky files L _ _ n hlive o ho heo
      have := Lzx.Term2.decompress_ok_M (feederSrc files) (feederLeft files) (feeder_finite files) (chainFuel files fd)
        { st with src := fd } n (by omega) o ho hs
      have e : ({ o.st with src := o.st.src } : Lzx.St Feeder) = o.st := rfl
      rw [e]
      omega
  · have hd : Lzx.decompress (feederSrc files) (chainFuel files fd) { st with src := fd } n =
        .ok ⟨st.error, [], { st with src := fd }⟩ := by
      unfold Lzx.decompress
      rw [if_pos he]
    unfold Cab.decompress
    dsimp only
    rw [hd]
    exact ⟨fun h => (by cases h), fun o h => (by cases h; exact fun h' => absurd h' he)⟩

/-- every `decompress` call of `cabd_extract`, whatever the method, keeps the fuel invariant and does not hang -/
theorem callOk_full : CallOk files (FuelPair files (PQ files) (PL files)) fun _ => True :=
  callOk_all (zipSticky files) callOk_qtm callOk_lzx

theorem lzx_init_fields {σ : Type} (src : σ) (wb ri ibs ol : Nat) (dl : Bool) (fill : UInt8) (st : Lzx.St σ)
    (h : Lzx.init src wb ri ibs ol dl fill = some st) :
    st.bits = [] ∧ st.inbuf = [] ∧ st.inputEnd = false ∧ st.error = .ok := by
  unfold Lzx.init at h
  dsimp only at h
  repeat' split at h
  all_goals first
    | (cases h; done)
    | (have := Option.some.inj h; subst this; exact ⟨rfl, rfl, rfl, rfl⟩)

theorem freshOk_full (p : Params) (m : Member) (hbs : 1 ≤ p.bufSize) (hsf : StaticFuel files p m) :
    FreshOk files (FuelPair files (PQ files) (PL files)) p m := by
  refine freshOk_pair p m hbs hsf (fun key ds st h hd => ?_) (fun key ds st h hd => ?_)
  · have hi := fresh_initDec p m key ds _ h hd
    have hs := hsf key ds h
    have hq : ∃ wb ibs fl, Qtm.init nullFeeder wb ibs fl = some st := by
      unfold initDec at hi
      split at hi
      · cases hi
      · cases hz : Zip.init nullFeeder p.bufSize p.fixMszip p.fill <;> rw [hz] at hi <;> simp at hi
      · split at hi
        · cases hq : Qtm.init nullFeeder ((m.compType >>> 8) &&& 0x1f) p.bufSize p.fill with
          | none => rw [hq] at hi; simp at hi
          | some z =>
            rw [hq] at hi
            simp only [Option.map_some, Option.some.injEq, Dec.qtm.injEq] at hi
            subst hi
            exact ⟨_, _, _, hq⟩
        · cases hi
      · split at hi
        · cases hq : Lzx.init nullFeeder ((m.compType >>> 8) &&& 0x1f) 0 p.bufSize 0 false p.fill <;> rw [hq] at hi <;> simp at hi
        · cases hi
      · cases hi
    obtain ⟨wb, ibs, fl, hq⟩ := hq
    obtain ⟨_, e2, e3, e4⟩ := C04_qtm_init_fields _ _ _ _ _ hq
    intro _
    refine ⟨(C04_qtm_init_sync _ _ _ _ _ hq).1, ?_⟩
    show st.bitsLeft + 8 * st.inbuf.length + 8 * feederLeft files ds.feeder + (if st.inputEnd then 0 else 16)
      < 8 * decFuel files
    rw [e2, e3, e4]
    simp only [List.length_nil, Bool.false_eq_true, if_false]
    omega
  · have hi := fresh_initDec p m key ds _ h hd
    have hs := hsf key ds h
    have hq : ∃ wb ri ibs ol dl fl, Lzx.init nullFeeder wb ri ibs ol dl fl = some st := by
      unfold initDec at hi
      split at hi
      · cases hi
      · cases hz : Zip.init nullFeeder p.bufSize p.fixMszip p.fill <;> rw [hz] at hi <;> simp at hi
      · split at hi
        · cases hq : Qtm.init nullFeeder ((m.compType >>> 8) &&& 0x1f) p.bufSize p.fill <;> rw [hq] at hi <;> simp at hi
        · cases hi
      · split at hi
        · cases hq : Lzx.init nullFeeder ((m.compType >>> 8) &&& 0x1f) 0 p.bufSize 0 false p.fill with
          | none => rw [hq] at hi; simp at hi
          | some z =>
            rw [hq] at hi
            simp only [Option.map_some, Option.some.injEq, Dec.lzx.injEq] at hi
            subst hi
            exact ⟨_, _, _, _, _, _, hq⟩
        · cases hi
      · cases hi
    obtain ⟨wb, ri, ibs, ol, dl, fl, hq⟩ := hq
    obtain ⟨e1, e2, e3, _⟩ := lzx_init_fields _ _ _ _ _ _ _ _ hq
    intro _
    show st.bits.length + 8 * st.inbuf.length + 8 * feederLeft files ds.feeder + (if st.inputEnd then 0 else 16) + 3
      ≤ decFuel files
    rw [e1, e2, e3]
    simp only [List.length_nil, Bool.false_eq_true, if_false]
    omega

/-- the invariant of the cached `self->d` -/
abbrev CacheOk (files : Files) (d : Option DState) : Prop :=
  ∀ ds, d = some ds → FuelState files (FuelPair files (PQ files) (PL files)) ds

/-- **C04 for `cabd_extract`**, any method: from no cache or a cache in the invariant, the call never runs out of fuel,
    and the cache it hands back is in the invariant again -/
theorem C04_cab_extract_no_hang (files : Files) (p : Params) (hbs : 1 ≤ p.bufSize) (d : Option DState) (m : Member)
    (hd : CacheOk files d) (hsf : StaticFuel files p m) :
    extract files p d m ≠ .fault .hang ∧ ∀ e w d', extract files p d m = .done e w d' → CacheOk files d' := by
  have h := extract_nh callOk_full p d m hd (freshOk_full p m hbs hsf)
  refine ⟨fun he => ?_, fun e w d' he => ?_⟩
  · rw [he] at h; exact h rfl
  · rw [he] at h; exact h

/-- **C04, whole sessions**: any list of `extract` calls — stored, MSZIP, Quantum and LZX folders mixed, any order,
    failing calls included — from a fresh decompressor: no call runs out of fuel -/
theorem C04_cab_session_no_hang (files : Files) (p : Params) (hbs : 1 ≤ p.bufSize) (ms : List Member)
    (hm : ∀ m ∈ ms, StaticFuel files p m) : extractSeq files p none ms ≠ some .hang :=
  session_nh callOk_full p ms none (fun _ h => by cases h) fun m hmem => freshOk_full p m hbs (hm m hmem)

/-- … for folders that lie inside one cabinet file: no condition on the files -/
theorem C04_cab_session_no_hang_single (files : Files) (p : Params) (hbs : 1 ≤ p.bufSize) (ms : List Member)
    (hm : ∀ m ∈ ms, ∃ part, m.parts = [part]) : extractSeq files p none ms ≠ some .hang :=
  C04_cab_session_no_hang files p hbs ms fun m hmem =>
    let ⟨part, hp⟩ := hm m hmem; staticFuel_single files p m part hp

/-! ## non-vacuity -/

/-- the MSZIP, Quantum and LZX demo members of `C02CabLift*.lean`, one session: the theorem applies outright -/
example : extractSeq (zipFiles ++ qtmFiles ++ lzxFiles) {} none [zipMember, qtmMember, lzxMember, zipMember] ≠ some .hang :=
  C04_cab_session_no_hang_single _ {} (by decide) _ (by
    intro m hm
    simp only [List.mem_cons, List.not_mem_nil, or_false] at hm
    rcases hm with rfl | rfl | rfl | rfl <;> exact ⟨_, rfl⟩)

end MsPack.CabFuel
