import Proofs.Lemmas.CabSet
/-!
# C13, first clause — joining the parts of a cabinet set in any order gives the same lists

Model: `MsPack/Cab/Set.lean` (`Heap.merge` = `cabd_merge`; `append(cab, next)` = `merge cab next`,
`prepend(cab, prev)` = `merge prev cab`).  Specification side (`Proofs/Lemmas/CabSet.lean`):

* `SetPart`: one opened part (cabinet id, cabinet node, folders with contents);
* `expected fo parts : Grp`: the expected shared lists of a run of consecutive parts, computed by
  `joinGrp`: concatenation, and at a boundary where a folder is split the two halves fused
  (`Heap.fuseNode`: data parts appended, block counts added minus one, the left half keeps id and
  `mergePrev`) and the files of the right half dropped;
* `joinGrp_assoc` (`merge_assoc` on lists) and `expected_append`: `expected (g1 ++ g2)` is the join of
  `expected g1` and `expected g2`, whatever the bracketing;
* `WellFormedSet h0 parts`: see there.  Its `joinable` clause asks, for every two adjacent runs of
  parts, what `cabd_merge` tests at their boundary (no folder split there, or `canMergeFolders`
  accepts the halves); it is necessary, as each such pair of runs is joined in some order.
* `merge_step`: on a heap where two adjacent groups carry their expected lists, `merge` of the last
  part of the left group with the first part of the right group returns OK and leaves the combined
  group with its expected lists (in every member cabinet), everything else untouched.

A sequence of joins is a list of `(t, viaAppend)`: join groups number `t` and `t+1` of the current
grouping (initially every part on its own), by `append(last part of left, first part of right)` or by
the equivalent `prepend(first part of right, last part of left)`.  Every way of connecting all parts
by joins of adjacent groups is such a sequence (`ValidOps`).
-/
set_option linter.unusedSimpArgs false
set_option linter.unusedVariables false
namespace MsPack.Cab
open MsPack

/-- `cabd_append(cab, nextcab)` -/
def Heap.append (h : Heap) (cab nextcab : Option CabId) : Err × Heap := h.merge cab nextcab
/-- `cabd_prepend(cab, prevcab)` -/
def Heap.prepend (h : Heap) (cab prevcab : Option CabId) : Err × Heap := h.merge prevcab cab

/-- one join: groups `t` and `t+1` of the grouping `gs` -/
def joinAt (h : Heap) (gs : List (List SetPart)) (t : Nat) (viaAppend : Bool) :
    Err × Heap × List (List SetPart) :=
  match gs.drop t with
  | g1 :: g2 :: post =>
    let a := g1.getLast?.map (·.cab)
    let b := g2.head?.map (·.cab)
    let r := if viaAppend then h.append a b else h.prepend b a
    (r.1, r.2, gs.take t ++ (g1 ++ g2) :: post)
  | _ => (.args, h, gs)

/-- a sequence of joins; returns the error codes, the final heap and the final grouping -/
def runJoins (h : Heap) (gs : List (List SetPart)) : List (Nat × Bool) → List Err × Heap × List (List SetPart)
  | [] => ([], h, gs)
  | (t, d) :: ops =>
    let r := joinAt h gs t d
    let r' := runJoins r.2.1 r.2.2 ops
    (r.1 :: r'.1, r'.2.1, r'.2.2)

/-- every operation joins two existing adjacent groups, and at the end one group is left -/
def ValidOps : Nat → List (Nat × Bool) → Prop
  | m, [] => m = 1
  | m, (t, _) :: ops => t + 2 ≤ m ∧ ValidOps (m - 1) ops

def ValidOps.dec : ∀ (m : Nat) (ops : List (Nat × Bool)), Decidable (ValidOps m ops)
  | m, [] => inferInstanceAs (Decidable (m = 1))
  | m, (t, _) :: ops =>
    have := ValidOps.dec (m - 1) ops
    inferInstanceAs (Decidable (t + 2 ≤ m ∧ ValidOps (m - 1) ops))

instance (m : Nat) (ops : List (Nat × Bool)) : Decidable (ValidOps m ops) := ValidOps.dec m ops

theorem joinAt_ok (h0 h : Heap) (parts : List SetPart) (gs : List (List SetPart)) (t : Nat) (d : Bool)
    (wf : WellFormedSet h0 parts) (hflat : gs.flatten = parts) (inv : SetInv h0 h gs) (ht : t + 2 ≤ gs.length) :
    (joinAt h gs t d).1 = .ok ∧ SetInv h0 (joinAt h gs t d).2.1 (joinAt h gs t d).2.2 ∧
    (joinAt h gs t d).2.2.flatten = parts ∧ (joinAt h gs t d).2.2.length + 1 = gs.length := by
  have hsplit := List.take_append_drop t gs
  have hlen : (gs.drop t).length = gs.length - t := List.length_drop
  have htk : (gs.take t).length = t := by rw [List.length_take]; omega
  cases hd : gs.drop t with
  | nil => rw [hd] at hlen; simp at hlen; omega
  | cons g1 rest =>
    cases rest with
    | nil => rw [hd] at hlen; simp at hlen; omega
    | cons g2 post =>
      rw [hd] at hsplit
      obtain ⟨h', hm, inv'⟩ := setInv_join h0 h parts (gs.take t) g1 g2 post wf (by rw [hsplit]; exact hflat)
        (by rw [hsplit]; exact inv)
      have e : joinAt h gs t d = (.ok, h', gs.take t ++ (g1 ++ g2) :: post) := by
        unfold joinAt
        rw [hd]
        cases d <;> simp [Heap.append, Heap.prepend, hm]
      rw [e]
      refine ⟨rfl, inv', ?_, ?_⟩
      · rw [← hflat]
        conv => rhs; rw [← hsplit]
        simp
      · conv => rhs; rw [← hsplit]
        simp only [List.length_append, List.length_cons]
        omega

theorem runJoins_ok (h0 : Heap) (parts : List SetPart) (wf : WellFormedSet h0 parts) :
    ∀ (ops : List (Nat × Bool)) (h : Heap) (gs : List (List SetPart)), gs.flatten = parts → SetInv h0 h gs →
      ValidOps gs.length ops →
      (∀ e ∈ (runJoins h gs ops).1, e = .ok) ∧ SetInv h0 (runJoins h gs ops).2.1 (runJoins h gs ops).2.2 ∧
      (runJoins h gs ops).2.2.flatten = parts ∧ (runJoins h gs ops).2.2.length = 1 := by
  intro ops
  induction ops with
  | nil =>
    intro h gs hflat inv hv
    exact ⟨fun e he => by simp [runJoins] at he, inv, hflat, hv⟩
  | cons op ops ih =>
    intro h gs hflat inv hv
    obtain ⟨t, d⟩ := op
    obtain ⟨ht, hv'⟩ := hv
    obtain ⟨h1, h2, h3, h4⟩ := joinAt_ok h0 h parts gs t d wf hflat inv ht
    have hl : (joinAt h gs t d).2.2.length = gs.length - 1 := by omega
    obtain ⟨i1, i2, i3, i4⟩ := ih (joinAt h gs t d).2.1 (joinAt h gs t d).2.2 h3 h2 (by rw [hl]; exact hv')
    refine ⟨?_, i2, i3, i4⟩
    intro e he
    simp only [runJoins, List.mem_cons] at he
    rcases he with he | he
    · rw [he]; exact h1
    · exact i1 e he

/-- **C13 (first clause).**  For a well-formed set of parts opened in the heap `h0`, every sequence of
    `append`/`prepend` calls that connects all parts by joining adjacent groups (in any order, in either
    direction): every call returns OK, and in the final heap every part's cabinet lists exactly the expected
    files and folders, and the folder table holds the expected (fused) folders. -/
theorem C13_join_order_independent (h0 : Heap) (parts : List SetPart) (wf : WellFormedSet h0 parts)
    (ops : List (Nat × Bool)) (hv : ValidOps parts.length ops) :
    (∀ e ∈ (runJoins h0 (parts.map ([·])) ops).1, e = .ok) ∧
    (∀ p ∈ parts, ∃ n, (runJoins h0 (parts.map ([·])) ops).2.1.cab? p.cab = some n ∧
        n.files = (expected h0.folderOf parts).files ∧
        n.folders = (expected h0.folderOf parts).nodes.map (·.1)) ∧
    (∀ x ∈ (expected h0.folderOf parts).nodes, (runJoins h0 (parts.map ([·])) ops).2.1.folder? x.1 = some x.2) := by
  have hflat : ∀ l : List SetPart, (l.map ([·])).flatten = l := by
    intro l
    induction l with
    | nil => rfl
    | cons p ps ih => simp [ih]
  have hflat := hflat parts
  obtain ⟨r1, r2, r3, r4⟩ := runJoins_ok h0 parts wf ops h0 (parts.map ([·])) hflat (setInv_init h0 parts wf)
    (by simpa using hv)
  generalize runJoins h0 (parts.map ([·])) ops = r at r1 r2 r3 r4
  obtain ⟨errs, hfin, gs⟩ := r
  dsimp only at r1 r2 r3 r4 ⊢
  have hgs : gs = [parts] := by
    cases gs with
    | nil => simp at r4
    | cons g rest =>
      cases rest with
      | nil => simp at r3; rw [r3]
      | cons _ _ => simp at r4
  subst hgs
  obtain ⟨_, hc, hf⟩ := r2.groups parts (by simp)
  refine ⟨r1, ?_, hf⟩
  intro p hp
  obtain ⟨i, hi, rfl⟩ := List.mem_iff_getElem.mp hp
  exact ⟨_, hc i parts[i] (by simp [hi]), rfl, rfl⟩

/-- two complete join sequences give every part the same lists -/
theorem C13_any_two_orders_agree (h0 : Heap) (parts : List SetPart) (wf : WellFormedSet h0 parts)
    (ops ops' : List (Nat × Bool)) (hv : ValidOps parts.length ops) (hv' : ValidOps parts.length ops') :
    ∀ p ∈ parts,
      ((runJoins h0 (parts.map ([·])) ops).2.1.cab? p.cab).map (fun n => (n.files, n.folders)) =
      ((runJoins h0 (parts.map ([·])) ops').2.1.cab? p.cab).map (fun n => (n.files, n.folders)) := by
  intro p hp
  obtain ⟨n, e, e1, e2⟩ := (C13_join_order_independent h0 parts wf ops hv).2.1 p hp
  obtain ⟨n', e', e1', e2'⟩ := (C13_join_order_independent h0 parts wf ops' hv').2.1 p hp
  rw [e, e']
  simp [e1, e2, e1', e2']


/-- the expected lists are what a left-to-right join computes (and, by `expected_append`, what any
    other bracketing computes) -/
theorem expected_left_to_right (h0 : Heap) (parts : List SetPart) (wf : WellFormedSet h0 parts) :
    ∀ (ps g pre post : List SetPart), g ≠ [] → parts = pre ++ (g ++ ps) ++ post →
      ps.foldl (fun G q => joinGrp h0.folderOf G q.grp) (expected h0.folderOf g) = expected h0.folderOf (g ++ ps) := by
  intro ps
  induction ps with
  | nil => intro g pre post _ _; simp
  | cons q qs ih =>
    intro g pre post hg e
    have e' : parts = pre ++ (g ++ [q]) ++ (qs ++ post) := by rw [e]; simp
    have hmem : ∀ p ∈ g ++ [q], p ∈ parts := fun p hp => by
      rw [e']; simp only [List.mem_append] at hp ⊢; exact .inl (.inr hp)
    have hfn : (fids (g ++ [q])).Nodup := by
      have := wf.folderNodup
      rw [e', fids_append, fids_append] at this
      exact nodup_mid' this
    have hstep : joinGrp h0.folderOf (expected h0.folderOf g) q.grp = expected h0.folderOf (g ++ [q]) := by
      rw [expected_append h0.folderOf g [q] hg (by simp) (fun p hp => wf.partOK p (hmem p hp)) hfn
        (fun pre' x y post' ex hx hy =>
          (wf.joinable (pre ++ pre') x y (post' ++ (qs ++ post)) (by rw [e', ex]; simp) hx hy).splitOK),
        expected_single]
    rw [List.foldl_cons, hstep, ih (g ++ [q]) pre post (by simp) (by rw [e]; simp)]
    simp

theorem expected_eq_foldl (h0 : Heap) (p : SetPart) (ps : List SetPart) (wf : WellFormedSet h0 (p :: ps)) :
    expected h0.folderOf (p :: ps) = ps.foldl (fun G q => joinGrp h0.folderOf G q.grp) p.grp := by
  have := expected_left_to_right h0 (p :: ps) wf ps [p] [] [] (by simp) (by simp)
  rw [expected_single] at this
  exact this.symm

/-! ## non-vacuity: a concrete three-part set with one split folder

Part A ends with a folder continued in part B (A's last file is `CONTINUED_TO_NEXT`, B's first file the
matching `CONTINUED_FROM_PREV` entry); B has a second folder; nothing is split between B and C. -/
namespace C13Example
def fileA1 : CFile := { (default : CFile) with length := 10, offset := 0, folder := 0, fidx := 0 }
def fileA2 : CFile := { (default : CFile) with length := 20, offset := 50, folder := 0, fidx := cffileCONTINUED_TO_NEXT }
def fileB1 : CFile := { (default : CFile) with length := 20, offset := 50, folder := 0, fidx := cffileCONTINUED_FROM_PREV }
def fileB2 : CFile := { (default : CFile) with length := 7, offset := 0, folder := 1, fidx := 1 }
def fileC1 : CFile := { (default : CFile) with length := 9, offset := 0, folder := 0, fidx := 0 }
def cabA : Cabinet := { (default : Cabinet) with folders := [⟨1, 2, 100⟩], files := [fileA1, fileA2] }
def cabB : Cabinet := { (default : Cabinet) with folders := [⟨1, 3, 60⟩, ⟨0, 1, 200⟩], files := [fileB1, fileB2] }
def cabC : Cabinet := { (default : Cabinet) with folders := [⟨0, 4, 80⟩], files := [fileC1] }
def h0 : Heap := ((((({} : Heap).addCabinet "a.cab" cabA).1).addCabinet "b.cab" cabB).1.addCabinet "c.cab" cabC).1

def view (h : Heap) : List (Option (List FileId × List FolderId)) :=
  [0, 4, 9].map fun c => (h.cab? c).map fun n => (n.files, n.folders)


def parts : List SetPart := [0, 4, 9].filterMap (SetPart.ofHeap h0)

/-- the set satisfies the hypotheses of the theorem -/
theorem wellFormed : WellFormedSet h0 parts := wellFormedb_sound (by decide)

/-- the expected lists: A's and B's halves fused into folder 1 (2 + 3 - 1 blocks, two data parts), B's copy
    of the continued file (7) dropped -/
example : (expected h0.folderOf parts).files = [2, 3, 8, 11] ∧
    (expected h0.folderOf parts).nodes.map (·.1) = [1, 6, 10] ∧
    ((expected h0.folderOf parts).nodes.head?.map fun x => (x.2.numBlocks, x.2.parts.length)) = some (4, 2) := by
  decide

/-- both join orders, evaluated: (A·B)·C by two `append`s, and A·(B·C) by a `prepend` and an `append` -/
example :
    (h0.append (some 0) (some 4)).1 = .ok ∧ ((h0.append (some 0) (some 4)).2.append (some 4) (some 9)).1 = .ok ∧
    (h0.prepend (some 9) (some 4)).1 = .ok ∧ ((h0.prepend (some 9) (some 4)).2.append (some 0) (some 4)).1 = .ok ∧
    view ((h0.append (some 0) (some 4)).2.append (some 4) (some 9)).2 =
      view ((h0.prepend (some 9) (some 4)).2.append (some 0) (some 4)).2 ∧
    view ((h0.append (some 0) (some 4)).2.append (some 4) (some 9)).2 =
      [some ([2, 3, 8, 11], [1, 6, 10]), some ([2, 3, 8, 11], [1, 6, 10]), some ([2, 3, 8, 11], [1, 6, 10])] := by
  decide

/-- the same two orders as instances of the theorem -/
example : ValidOps parts.length [(0, true), (0, true)] ∧ ValidOps parts.length [(1, false), (0, true)] := by
  decide

example := C13_any_two_orders_agree h0 parts wellFormed [(0, true), (0, true)] [(1, false), (0, true)]
  (by decide) (by decide)

end C13Example

/-! ## non-vacuity: one folder spanning three parts

A's only folder continues through B (one folder, its file entry `CONTINUED_PREV_AND_NEXT`) into C's first
folder; C has a second folder. -/
namespace C13Example3
def fileA1 : CFile := { (default : CFile) with length := 10, offset := 0, folder := 0, fidx := 0 }
def fileA2 : CFile := { (default : CFile) with length := 20, offset := 50, folder := 0, fidx := cffileCONTINUED_TO_NEXT }
def fileB1 : CFile := { (default : CFile) with length := 20, offset := 50, folder := 0, fidx := cffileCONTINUED_PREV_AND_NEXT }
def fileC1 : CFile := { (default : CFile) with length := 20, offset := 50, folder := 0, fidx := cffileCONTINUED_FROM_PREV }
def fileC2 : CFile := { (default : CFile) with length := 9, offset := 0, folder := 1, fidx := 1 }
def cabA : Cabinet := { (default : Cabinet) with folders := [⟨1, 2, 100⟩], files := [fileA1, fileA2] }
def cabB : Cabinet := { (default : Cabinet) with folders := [⟨1, 3, 60⟩], files := [fileB1] }
def cabC : Cabinet := { (default : Cabinet) with folders := [⟨1, 2, 70⟩, ⟨0, 1, 300⟩], files := [fileC1, fileC2] }
def h0 : Heap := ((((({} : Heap).addCabinet "a.cab" cabA).1).addCabinet "b.cab" cabB).1.addCabinet "c.cab" cabC).1
def parts : List SetPart := [0, 4, 7].filterMap (SetPart.ofHeap h0)

theorem wellFormed : WellFormedSet h0 parts := wellFormedb_sound (by decide)

def view (h : Heap) : List (Option (List FileId × List FolderId)) :=
  [0, 4, 7].map fun c => (h.cab? c).map fun n => (n.files, n.folders)

/-- expected: one folder of 2 + 3 - 1 + 2 - 1 blocks in three data parts, then C's second folder -/
example : (expected h0.folderOf parts).files = [2, 3, 11] ∧
    ((expected h0.folderOf parts).nodes.map fun x => (x.1, x.2.numBlocks, x.2.parts.length)) = [(1, 5, 3), (9, 1, 1)] := by
  decide

/-- (A·B)·C and A·(B·C), evaluated -/
example :
    (h0.append (some 0) (some 4)).1 = .ok ∧ ((h0.append (some 0) (some 4)).2.append (some 4) (some 7)).1 = .ok ∧
    (h0.prepend (some 7) (some 4)).1 = .ok ∧ ((h0.prepend (some 7) (some 4)).2.append (some 0) (some 4)).1 = .ok ∧
    view ((h0.append (some 0) (some 4)).2.append (some 4) (some 7)).2 =
      view ((h0.prepend (some 7) (some 4)).2.append (some 0) (some 4)).2 ∧
    view ((h0.append (some 0) (some 4)).2.append (some 4) (some 7)).2 =
      [some ([2, 3, 11], [1, 9]), some ([2, 3, 11], [1, 9]), some ([2, 3, 11], [1, 9])] := by
  decide

end C13Example3

end MsPack.Cab
