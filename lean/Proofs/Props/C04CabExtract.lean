import Proofs.Props.C02CabExtract
import Proofs.Props.C08MszipCab
import Proofs.Props.C04Loops
import Proofs.Props.C04Qtm
/-!
# C04 for `cabd_extract` — the fuel hypotheses of the CAB decoder theorems, carried as an invariant of the cache

`C04_cab_mszip_no_hang`, `C04_cab_qtm_no_hang` and the LZX theorem each assume "the bits still obtainable are below
`chainFuel files fd`" for the one call they are about.  Here that becomes an invariant of `self->d` (`FuelState` =
the C02 pair invariant `StateOk` + a fuel invariant `P` of the (decoder, feeder) pair), in the shape of
`C02CabExtract.lean`:

* skeleton, for any `P`: if every `decompress` call from a pair in `P` neither hangs nor leaves `P` (`CallOk`) and the
  decoder `cabd_extract` sets up for the member is in `P` (`FreshOk`), then `extract` never yields `.fault .hang` and
  hands back a cache in `FuelState` again (`extract_nh`); hence any session (`session_nh`).
* `FuelPair`: stored — `1 ≤ bufsize`; MSZIP — `error = OK → bitsLeft + 1 ≤ decFuel files` (the *static* bound
  `decFuel ≤ chainFuel fd` for every feeder, so a feeder that moves on to the next cabinet cannot break it); Quantum
  and LZX — parameters `PQ`, `PL`.
* `callOk_none`, `callOk_mszip`: proved (`decompress_none_no_hang`; `C04_zip_cab_no_hang` + `decompress_ok_bits`: an OK
  call does not raise the measure).  MSZIP needs one fact that is **not proved**: `ZipSticky_partial` (a status other
  than OK leaves `zip->error` set, after which every call returns at once).
* `freshOk_pair`: `freshDState` establishes `FuelPair` under `1 ≤ p.bufSize` and the static condition `StaticFuel`
  (8 × `feederLeft` of the fresh feeder + 19 ≤ `decFuel files`), which holds outright for every folder inside one
  cabinet file (`staticFuel_single`).  For chains that name one file in many parts it can fail in the model (fuel
  artefact, see `C04Loops.lean`).
* results: `C04_cab_session_stored_mszip(_single)` — stored and MSZIP members, any session from a fresh decompressor;
  `C04_cab_extract_no_hang_partial`, `C04_cab_session_no_hang_partial` — all four methods, with the Quantum and LZX
  "a call keeps the invariant" statements as named hypotheses (`hq`, `hl`: `CallOk … isQtm / isLzx`).

Not done: discharging `hq` (needs `decompress_T` of `LoopTermQtm.lean` extended by "an OK call does not raise `stAvail`";
the sticky error and `Sync` are already there), `hl` (the same for `LoopTermLzx`), and `ZipSticky_partial`.
-/
namespace MsPack.CabFuel
open MsPack MsPack.Generated MsPack.Cab MsPack.CabLift

/-! ## the skeleton: `extract` over an abstract fuel invariant `P` of the (decoder, feeder) pair -/

/-- one `decompress` from a pair in `P` (and in the C02 invariant `AllPair`) does not run out of fuel and leaves a
    pair in `P` — for the decoders selected by `sel` -/
def CallOk (files : Files) (P : Dec → Feeder → Prop) (sel : Dec → Prop) : Prop :=
  ∀ dec fd off n, sel dec → AllPair files dec fd off → off + n ≤ cabLENGTHMAX → P dec fd →
    Cab.decompress files dec fd n ≠ .error .hang ∧
    ∀ o, Cab.decompress files dec fd n = .ok (some o) → P o.dec o.feeder

/-- the cached `self->d`: the C02 invariant and the fuel invariant -/
def FuelState (files : Files) (P : Dec → Feeder → Prop) (ds : DState) : Prop :=
  StateOk files ds ∧ ∀ dec, ds.dec = some dec → P dec ds.feeder

variable {files : Files} {P : Dec → Feeder → Prop}

theorem runPhase_nh (hc : CallOk files P fun _ => True) (ds : DState) (dec : Dec) (n : Nat)
    (hj : AllPair files dec ds.feeder ds.offset) (hP : P dec ds.feeder) (hn : ds.offset + n ≤ cabLENGTHMAX) :
    runPhase files ds dec n ≠ .fault .hang ∧
    (∀ e w ds', runPhase files ds dec n = .ran e w ds' → FuelState files P ds' ∧ ds'.offset ≤ ds.offset + n) := by
  have hs := runPhase_safe files ds dec n hj hn
  have hk := hc dec ds.feeder ds.offset n trivial hj hn hP
  refine ⟨?_, fun e w ds' hr => ?_⟩
  · unfold runPhase
    split
    · rename_i f hf
      intro h; cases h; exact hk.1 hf
    · intro h; cases h
    · intro h; cases h
  · obtain ⟨h1, h2⟩ := hs.2 e w ds' hr
    refine ⟨⟨h1, ?_⟩, h2⟩
    unfold runPhase at hr
    split at hr
    · cases hr
    · cases hr
    · rename_i o ho
      simp only [PhaseResult.ran.injEq] at hr
      rw [← hr.2.2]
      intro dec' hd
      simp only [Option.some.injEq] at hd
      subst hd
      exact hk.2 o ho

/-- what `runPhases` / `extract` may end with -/
def ResNH (files : Files) (P : Dec → Feeder → Prop) : ExtractResult → Prop
  | .fault f => f ≠ .hang
  | .done _ _ d => ∀ ds, d = some ds → FuelState files P ds
  | .unsupported => True

theorem runPhases_nh (hc : CallOk files P fun _ => True) (ds : DState) (hds : FuelState files P ds) (m : Member)
    (filelen : Nat) (ho : ds.offset ≤ m.offset) (hm : m.offset + filelen ≤ cabLENGTHMAX) :
    ResNH files P (runPhases files ds m filelen) := by
  unfold runPhases
  split
  · intro ds' h; cases h; exact hds
  · rename_i dec hdec
    have hp := hds.1 _ hdec
    have hP := hds.2 _ hdec
    split
    · intro ds' h; cases h; exact hds
    · simp only
      split
      · have h1 := runPhase_nh hc ds dec filelen hp hP (by omega)
        split
        · rename_i f hr; intro hf; subst hf; exact h1.1 hr
        · trivial
        · rename_i e w ds' hr
          intro ds'' h; cases h; exact (h1.2 _ _ _ hr).1
      · have h1 := runPhase_nh hc ds dec (m.offset - ds.offset) hp hP (by omega)
        split
        · rename_i f hr; intro hf; subst hf; exact h1.1 hr
        · trivial
        · rename_i e1 w1 ds1 hr1
          obtain ⟨hk1, ho1⟩ := h1.2 _ _ _ hr1
          split
          · intro ds'' h; cases h; exact hk1
          · split
            · intro ds'' h; cases h; exact hk1
            · rename_i dec1 hdec1
              have h2 := runPhase_nh hc ds1 dec1 filelen (hk1.1 _ hdec1) (hk1.2 _ hdec1) (by omega)
              split
              · rename_i f hr; intro hf; subst hf; exact h2.1 hr
              · trivial
              · rename_i e w ds2 hr
                intro ds'' h; cases h; exact (h2.2 _ _ _ hr).1

/-- the decoder `cabd_extract` sets up for member `m` is in `P` -/
def FreshOk (files : Files) (P : Dec → Feeder → Prop) (p : Params) (m : Member) : Prop :=
  ∀ key ds dec, freshDState files p m key = .ok ds → ds.dec = some dec → P dec ds.feeder

theorem extract_nh (hc : CallOk files P fun _ => True) (p : Params) (d : Option DState) (m : Member)
    (hd : ∀ ds, d = some ds → FuelState files P ds) (hfresh : FreshOk files P p m) :
    ResNH files P (extract files p d m) := by
  unfold extract
  split
  · exact hd
  · rename_i filelen key hck
    have hcap := memberCheck_cap p m filelen key hck
    have fromFresh : ∀ ds, freshDState files p m key = .ok ds → ResNH files P (runPhases files ds m filelen) := by
      intro ds hob
      have := fresh_offset files p m key ds hob
      exact runPhases_nh hc ds ⟨fresh_stateOk files p m key ds hob, fun dec hdec => hfresh key ds dec hob hdec⟩ m filelen
        (by omega) hcap
    split
    · intro ds h; cases h
    · rename_i ds hob
      unfold obtainDState at hob
      split at hob
      · rename_i ds0
        split at hob
        · rename_i hcond
          cases hob
          exact runPhases_nh hc _ (hd _ rfl) m filelen (by have := hcond.2.1; omega) hcap
        · exact fromFresh ds hob
      · exact fromFresh ds hob

theorem session_nh (hc : CallOk files P fun _ => True) (p : Params) : ∀ (ms : List Member) (d : Option DState),
    (∀ ds, d = some ds → FuelState files P ds) → (∀ m ∈ ms, FreshOk files P p m) →
    extractSeq files p d ms ≠ some .hang
  | [], _, _, _ => by simp [extractSeq]
  | m :: ms, d, hd, hm => by
    rw [extractSeq]
    have hs := extract_nh hc p d m hd (hm m (List.mem_cons_self ..))
    have hrest : ∀ m' ∈ ms, FreshOk files P p m' := fun m' h' => hm m' (List.mem_cons_of_mem _ h')
    split
    · rename_i f he
      rw [he] at hs
      intro h; cases h; exact hs rfl
    · exact session_nh hc p ms d hd hrest
    · rename_i e w d' he
      rw [he] at hs
      exact session_nh hc p ms d' hs hrest

/-! ## the fuel invariant, by method -/

/-- **hypothesis not proved here** (MSZIP): a call that returns a status other than OK leaves the sticky error set
    (`return zip->error = …` at every error exit of mszipd.c); the decoder then returns at once on every later call -/
def ZipSticky_partial (files : Files) : Prop :=
  ∀ (fuel : Nat) (st : Zip.St Feeder) (n : Nat) (o : Zip.Out Feeder),
    Zip.decompress (feederSrc files) fuel st n = .ok o → o.err ≠ .ok → o.st.error ≠ .ok

/-- `PQ`, `PL`: the Quantum / LZX parts (parameters; see `FuelPairQ` below for Quantum) -/
def FuelPair (files : Files) (PQ : Qtm.St Feeder → Feeder → Prop) (PL : Lzx.St Feeder → Feeder → Prop) :
    Dec → Feeder → Prop
  | .none bs _, _ => 1 ≤ bs
  | .mszip st, fd => st.error = .ok → Zip.bitsLeft (feederLeft files) { st with src := fd } + 1 ≤ decFuel files
  | .qtm st, fd => PQ st fd
  | .lzx st, fd => PL st fd
  | .unsupported _, _ => True

theorem noned_dec (files : Files) (bs : Nat) : ∀ (fuel : Nat) (fd : Feeder) (bytes : Nat) (w : Bytes) (o : DecOut),
    nonedDecompress files bs fuel fd bytes w = .ok o → ∃ e, o.dec = .none bs e := by
  intro fuel
  induction fuel with
  | zero => intro fd bytes w o h; rw [nonedDecompress] at h; cases h
  | succ fuel ih =>
    intro fd bytes w o h
    rw [nonedDecompress] at h
    simp only at h
    repeat' split at h
    all_goals first
      | (cases h; done)
      | (cases h; exact ⟨_, rfl⟩)
      | exact ih _ _ _ _ h

variable {PQ : Qtm.St Feeder → Feeder → Prop} {PL : Lzx.St Feeder → Feeder → Prop}

theorem callOk_none : CallOk files (FuelPair files PQ PL) fun d => ∃ bs e, d = .none bs e := by
  rintro dec fd off n ⟨bs, e, rfl⟩ _ _ hP
  refine ⟨decompress_none_no_hang files bs hP e fd n, fun o ho => ?_⟩
  unfold Cab.decompress at ho
  simp only at ho
  split at ho
  · cases ho; exact hP
  · cases hn : nonedDecompress files bs (n / max bs 1 + 2) fd n [] with
    | error f => rw [hn] at ho; simp [Except.map] at ho
    | ok o' =>
      rw [hn] at ho
      simp only [Except.map, Except.ok.injEq, Option.some.injEq] at ho
      subst ho
      obtain ⟨e', he'⟩ := noned_dec files bs _ _ _ _ _ hn
      rw [he']
      exact hP

theorem callOk_mszip (hst : ZipSticky_partial files) :
    CallOk files (FuelPair files PQ PL) fun d => ∃ st, d = .mszip st := by
  rintro dec fd off n ⟨st, rfl⟩ hj _ hP
  have hS := feederSrc_ok files
  by_cases he : st.error = .ok
  · have hb := hP he
    have hf : Zip.bitsLeft (feederLeft files) ({ st with src := fd } : Zip.St Feeder) + 1 ≤ chainFuel files fd :=
      Nat.le_trans hb (zcc_decFuel_le_chainFuel files fd)
    refine ⟨Cab.C04_zip_cab_no_hang files st fd n hf, fun o ho => ?_⟩
    obtain ⟨Z, hz, hdec, hfd⟩ := ZipChunkCab.decompress_mszip_inv files st fd n o ho
    rw [hdec, hfd]
    intro heZ
    by_cases hok : o.err = .ok
    · rw [hok] at hz
      have := Zip.ZipChunkCab.decompress_ok_bits hS (chainFuel files fd) { st with src := fd } n o.written Z hj.1 hf hz
      have e : ({ Z with src := Z.src } : Zip.St Feeder) = Z := rfl
      rw [e]
      exact Nat.le_trans (Nat.add_le_add_right this 1) hb
    · exact absurd heZ (hst _ _ _ _ hz hok)
  · have hd : Cab.decompress files (.mszip st) fd n = .ok (some ⟨st.error, [], .mszip { st with src := fd }, fd⟩) := by
      rw [ZipChunkCab.decompress_mszip]
      unfold Zip.decompress
      rw [if_pos he]
    rw [hd]
    refine ⟨fun h => (by cases h), fun o ho => ?_⟩
    cases ho
    exact fun h => absurd h he

theorem callOk_all (hst : ZipSticky_partial files)
    (hq : CallOk files (FuelPair files PQ PL) fun d => ∃ st, d = .qtm st)
    (hl : CallOk files (FuelPair files PQ PL) fun d => ∃ st, d = .lzx st) :
    CallOk files (FuelPair files PQ PL) fun _ => True := by
  intro dec fd off n _ hj hn hP
  cases dec with
  | none bs e => exact callOk_none _ fd off n ⟨bs, e, rfl⟩ hj hn hP
  | mszip st => exact callOk_mszip hst _ fd off n ⟨st, rfl⟩ hj hn hP
  | qtm st => exact hq _ fd off n ⟨st, rfl⟩ hj hn hP
  | lzx st => exact hl _ fd off n ⟨st, rfl⟩ hj hn hP
  | unsupported k =>
    unfold Cab.decompress
    exact ⟨fun h => (by cases h), fun o h => (by cases h)⟩

/-! ## what `freshDState` establishes -/

theorem fresh_initDec (p : Params) (m : Member) (key : Nat) (ds : DState) (dec : Dec)
    (h : freshDState files p m key = .ok ds) (hd : ds.dec = some dec) : initDec p m.compType = some dec := by
  unfold freshDState at h
  split at h
  · cases h
  · split at h
    · cases h
    · split at h
      · cases h
      · rename_i dec' hi
        cases h
        simp only [Option.some.injEq] at hd
        rw [hi, hd]

/-- the static condition on a member's folder: the bytes its parts can still deliver from their data offsets (rest of
    the first cabinet + the later cabinets), times 8, plus 19, stay below `decFuel files` = 16 × (all file bytes) + 100000 -/
def StaticFuel (files : Files) (p : Params) (m : Member) : Prop :=
  ∀ key ds, freshDState files p m key = .ok ds → 8 * feederLeft files ds.feeder + 19 ≤ decFuel files

/-- a folder inside one cabinet meets it outright -/
theorem staticFuel_single (files : Files) (p : Params) (m : Member) (part : Part) (hp : m.parts = [part]) :
    StaticFuel files p m := by
  intro key ds h
  unfold freshDState at h
  rw [hp] at h
  simp only at h
  cases hl : files.lookup part.fname with
  | none => rw [hl] at h; simp at h
  | some b =>
    rw [hl] at h
    simp only [Option.map_some] at h
    split at h
    · cases h
    · cases h
      have hle := zcc_lookup_le part.fname b files 0 hl
      simp only [feederLeft, chainLeft, rdLeft, restLeft, List.tail_cons, List.length_nil, decFuel]
      omega

theorem freshOk_pair (p : Params) (m : Member) (hbs : 1 ≤ p.bufSize) (hsf : StaticFuel files p m)
    (hfq : ∀ key ds st, freshDState files p m key = .ok ds → ds.dec = some (.qtm st) → PQ st ds.feeder)
    (hfl : ∀ key ds st, freshDState files p m key = .ok ds → ds.dec = some (.lzx st) → PL st ds.feeder) :
    FreshOk files (FuelPair files PQ PL) p m := by
  intro key ds dec h hd
  have hi := fresh_initDec p m key ds dec h hd
  have hs := hsf key ds h
  cases dec with
  | none bs e =>
    unfold initDec at hi
    split at hi
    · cases hi; exact hbs
    · cases hz : Zip.init nullFeeder p.bufSize p.fixMszip p.fill <;> rw [hz] at hi <;> simp at hi
    · split at hi
      · cases hq : Qtm.init nullFeeder ((m.compType >>> 8) &&& 0x1f) p.bufSize p.fill <;> rw [hq] at hi <;> simp at hi
      · cases hi
    · split at hi
      · cases hq : Lzx.init nullFeeder ((m.compType >>> 8) &&& 0x1f) 0 p.bufSize 0 false p.fill <;> rw [hq] at hi <;> simp at hi
      · cases hi
    · cases hi
  | mszip st =>
    have hz : ∃ sz rp fl, Zip.init nullFeeder sz rp fl = some st := by
      unfold initDec at hi
      split at hi
      · cases hi
      · cases hz : Zip.init nullFeeder p.bufSize p.fixMszip p.fill with
        | none => rw [hz] at hi; simp at hi
        | some z =>
          rw [hz] at hi
          simp only [Option.map_some, Option.some.injEq, Dec.mszip.injEq] at hi
          subst hi
          exact ⟨_, _, _, hz⟩
      · split at hi
        · cases hq : Qtm.init nullFeeder ((m.compType >>> 8) &&& 0x1f) p.bufSize p.fill <;> rw [hq] at hi <;> simp at hi
        · cases hi
      · split at hi
        · cases hq : Lzx.init nullFeeder ((m.compType >>> 8) &&& 0x1f) 0 p.bufSize 0 false p.fill <;> rw [hq] at hi <;> simp at hi
        · cases hi
      · cases hi
    obtain ⟨sz, rp, fl, hz⟩ := hz
    obtain ⟨h1, h2, _, h4, _⟩ := Zip.init_fields hz
    intro _
    show st.bits.length + 8 * st.inbuf.length + 8 * feederLeft files ds.feeder + (if st.inputEnd then 0 else 16) + 1
      ≤ decFuel files
    rw [h1, h2, h4]
    simp only [List.length_nil, Bool.false_eq_true, if_false]
    omega
  | qtm st => exact hfq key ds st h hd
  | lzx st => exact hfl key ds st h hd
  | unsupported k => trivial

theorem initDec_mask (p : Params) (ct : Nat) (dec : Dec) (h : initDec p ct = some dec) :
    (∀ st, dec = .qtm st → compMask ct = 2) ∧ (∀ st, dec = .lzx st → compMask ct = 3) := by
  unfold initDec at h
  split at h
  · cases h; exact ⟨fun _ h => (by cases h), fun _ h => (by cases h)⟩
  · cases hz : Zip.init nullFeeder p.bufSize p.fixMszip p.fill with
    | none => rw [hz] at h; simp at h
    | some z =>
      rw [hz] at h
      simp only [Option.map_some, Option.some.injEq] at h
      subst h
      exact ⟨fun _ h => (by cases h), fun _ h => (by cases h)⟩
  · rename_i hm
    exact ⟨fun _ _ => hm, fun st hd => (by
      subst hd
      split at h
      · cases hq : Qtm.init nullFeeder ((ct >>> 8) &&& 0x1f) p.bufSize p.fill <;> rw [hq] at h <;> simp at h
      · cases h)⟩
  · rename_i hm
    exact ⟨fun st hd => (by
      subst hd
      split at h
      · cases hq : Lzx.init nullFeeder ((ct >>> 8) &&& 0x1f) 0 p.bufSize 0 false p.fill <;> rw [hq] at h <;> simp at h
      · cases h), fun _ _ => hm⟩
  · cases h

/-! ## `cabd_extract` and sessions -/

/-- **C04 for `cabd_extract`** over the fuel invariant `FuelPair` — with the Quantum and LZX parts `PQ`, `PL` and their
    "a call keeps it" statements as hypotheses, and `ZipSticky_partial` for MSZIP: the call does not run out of fuel and
    the cache it hands back satisfies the invariant again -/
theorem C04_cab_extract_no_hang_partial (hst : ZipSticky_partial files)
    (hq : CallOk files (FuelPair files PQ PL) fun d => ∃ st, d = .qtm st)
    (hl : CallOk files (FuelPair files PQ PL) fun d => ∃ st, d = .lzx st)
    (p : Params) (d : Option DState) (m : Member)
    (hd : ∀ ds, d = some ds → FuelState files (FuelPair files PQ PL) ds) (hbs : 1 ≤ p.bufSize)
    (hsf : StaticFuel files p m)
    (hfq : ∀ key ds st, freshDState files p m key = .ok ds → ds.dec = some (.qtm st) → PQ st ds.feeder)
    (hfl : ∀ key ds st, freshDState files p m key = .ok ds → ds.dec = some (.lzx st) → PL st ds.feeder) :
    extract files p d m ≠ .fault .hang ∧
    ∀ e w d', extract files p d m = .done e w d' → ∀ ds, d' = some ds → FuelState files (FuelPair files PQ PL) ds := by
  have h := extract_nh (callOk_all hst hq hl) p d m hd (freshOk_pair p m hbs hsf hfq hfl)
  refine ⟨fun he => ?_, fun e w d' he => ?_⟩
  · rw [he] at h; exact h rfl
  · rw [he] at h; exact h

/-- **stored and MSZIP folders, any session** from a fresh decompressor: members of stored / MSZIP folders that meet the
    static fuel condition, in any order — no call runs out of fuel (given `ZipSticky_partial`) -/
theorem C04_cab_session_stored_mszip (hst : ZipSticky_partial files) (p : Params) (hbs : 1 ≤ p.bufSize)
    (ms : List Member) (hm : ∀ m ∈ ms, compMask m.compType ≤ 1 ∧ StaticFuel files p m) :
    extractSeq files p none ms ≠ some .hang := by
  have hq : CallOk files (FuelPair files (fun _ _ => False) (fun _ _ => False)) fun d => ∃ st, d = .qtm st := by
    rintro dec fd off n ⟨st, rfl⟩ _ _ hP; exact hP.elim
  have hl : CallOk files (FuelPair files (fun _ _ => False) (fun _ _ => False)) fun d => ∃ st, d = .lzx st := by
    rintro dec fd off n ⟨st, rfl⟩ _ _ hP; exact hP.elim
  refine session_nh (callOk_all hst hq hl) p ms none (fun _ h => by cases h) fun m hmem => ?_
  obtain ⟨hmask, hsf⟩ := hm m hmem
  refine freshOk_pair p m hbs hsf (fun key ds st h hd => ?_) (fun key ds st h hd => ?_)
  · have := (initDec_mask p m.compType _ (fresh_initDec p m key ds _ h hd)).1 st rfl
    omega
  · have := (initDec_mask p m.compType _ (fresh_initDec p m key ds _ h hd)).2 st rfl
    omega

/-- … in particular for folders that lie inside one cabinet file: no side condition on the files at all -/
theorem C04_cab_session_stored_mszip_single (hst : ZipSticky_partial files) (p : Params) (hbs : 1 ≤ p.bufSize)
    (ms : List Member) (hm : ∀ m ∈ ms, compMask m.compType ≤ 1 ∧ ∃ part, m.parts = [part]) :
    extractSeq files p none ms ≠ some .hang :=
  C04_cab_session_stored_mszip hst p hbs ms fun m hmem =>
    ⟨(hm m hmem).1, let ⟨part, hp⟩ := (hm m hmem).2; staticFuel_single files p m part hp⟩

/-- **any session, all four methods**, under the hypotheses that are not discharged here -/
theorem C04_cab_session_no_hang_partial (hst : ZipSticky_partial files)
    (hq : CallOk files (FuelPair files PQ PL) fun d => ∃ st, d = .qtm st)
    (hl : CallOk files (FuelPair files PQ PL) fun d => ∃ st, d = .lzx st)
    (p : Params) (hbs : 1 ≤ p.bufSize) (ms : List Member)
    (hm : ∀ m ∈ ms, StaticFuel files p m ∧
      (∀ key ds st, freshDState files p m key = .ok ds → ds.dec = some (.qtm st) → PQ st ds.feeder) ∧
      (∀ key ds st, freshDState files p m key = .ok ds → ds.dec = some (.lzx st) → PL st ds.feeder)) :
    extractSeq files p none ms ≠ some .hang :=
  session_nh (callOk_all hst hq hl) p ms none (fun _ h => by cases h) fun m hmem =>
    freshOk_pair p m hbs (hm m hmem).1 (hm m hmem).2.1 (hm m hmem).2.2

/-! ## non-vacuity -/

/-- the demo members of `C02CabLift*.lean` (one cabinet each) meet the static condition -/
example : StaticFuel zipFiles {} zipMember := staticFuel_single _ _ _ _ rfl

/-- a fresh session over the MSZIP demo member, twice: the theorem applies (given the sticky-status hypothesis) -/
example (hst : ZipSticky_partial zipFiles) : extractSeq zipFiles {} none [zipMember, zipMember] ≠ some .hang :=
  C04_cab_session_stored_mszip_single hst {} (by decide) _ (by
    intro m hm
    simp only [List.mem_cons, List.not_mem_nil, or_false, or_self] at hm
    subst hm
    exact ⟨by decide, _, rfl⟩)

end MsPack.CabFuel
