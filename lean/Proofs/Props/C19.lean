import MsPack.Generated.Inventory
import MsPack.Cab.Extract
/-!
# C19 — separate instances are independent

What a Lean model can say (DESIGN.md §5 C19): (1) the *mechanism* — the library has no writable
object with static storage duration that any code path writes, re-proved against the inventory the
translator extracts from today's objects (`nm`) and sources; (2) given (1), an operation is a
function of its own instance state and read-only inputs, so every interleaving of per-instance
operation lists gives each instance its solo results (`instances_independent`, generic over any
per-instance step function, instantiated for the CAB extract model).  Data races themselves are
outside the model; the check runs the TSan build for those.
-/
namespace MsPack.C19
open MsPack.Generated

/-- every object the compiler placed in a writable section, today -/
theorem writable_statics_inventory :
    writableStatics =
      [("system.c", "msp_system"), ("system.c", "mspack_default_system"),
       ("szddd.c", "szdd_signature_expand"), ("szddd.c", "szdd_signature_qbasic")] := by decide

/-- … and every line of source that names one of them: definitions, `sys = mspack_default_system`
    (a read), `memcmp(buf, szdd_signature_*, 8)` (a read through `const void *`).  No assignment,
    no address taken except `&msp_system` in the initialiser of `mspack_default_system`. -/
theorem writable_statics_never_written :
    writableStaticUses =
      [("cabd.c", "mspack_default_system", "if (!sys) sys = mspack_default_system;"),
       ("chmd.c", "mspack_default_system", "if (!sys) sys = mspack_default_system;"),
       ("kwajd.c", "mspack_default_system", "if (!sys) sys = mspack_default_system;"),
       ("oabd.c", "mspack_default_system", "if (!sys) sys = mspack_default_system;"),
       ("system.c", "msp_system", "static struct mspack_system msp_system = {"),
       ("system.c", "msp_system", "struct mspack_system *mspack_default_system = &msp_system;"),
       ("system.c", "mspack_default_system", "struct mspack_system *mspack_default_system = &msp_system;"),
       ("system.c", "mspack_default_system", "struct mspack_system *mspack_default_system = NULL;"),
       ("szddd.c", "mspack_default_system", "if (!sys) sys = mspack_default_system;"),
       ("szddd.c", "szdd_signature_expand", "if ((memcmp(buf, szdd_signature_expand, 8) == 0)) {"),
       ("szddd.c", "szdd_signature_expand", "static unsigned char szdd_signature_expand[8] = {"),
       ("szddd.c", "szdd_signature_qbasic", "else if ((memcmp(buf, szdd_signature_qbasic, 8) == 0)) {"),
       ("szddd.c", "szdd_signature_qbasic", "static unsigned char szdd_signature_qbasic[8] = {")] := by
  decide

/-- libc entry points that keep no process-wide mutable state of their own (POSIX "MT-Safe" without the `race`,
    `const:locale` or `env` writer annotations): memory and string functions, the allocator, stdio on a `FILE *` the
    caller owns, wide-character classification (reads the locale, never sets it), integer helpers.  Deliberately
    absent: `setlocale`, `strtok`, `rand`/`srand`, `strerror`, `localtime`/`gmtime`/`ctime`/`asctime`, `getenv`/`setenv`/
    `putenv`, `tmpnam`, `signal`, `atexit`, `chdir`, `umask`, `readdir`, `basename`/`dirname`, `getpwnam`, … -/
def stateFreeLibc : List String :=
  ["memcmp", "memcpy", "memmove", "memset", "memchr", "strlen", "strcmp", "strncmp", "strcpy", "strncpy", "strcat",
   "strncat", "strchr", "strrchr", "strstr", "strnlen", "strdup", "strcasecmp", "strncasecmp",
   "malloc", "calloc", "realloc", "free",
   "fopen", "fclose", "fread", "fwrite", "fseek", "fseeko", "ftell", "ftello", "fflush", "ferror", "feof", "fputc", "fputs",
   "fprintf", "vfprintf", "snprintf", "vsnprintf", "sprintf", "stderr",
   "towlower", "towupper", "tolower", "toupper", "abs", "labs",
   "__stack_chk_fail", "__memcpy_chk", "__memset_chk", "__fprintf_chk", "__vfprintf_chk", "__fread_chk",
   "__strcpy_chk", "__strncpy_chk", "__snprintf_chk", "__sprintf_chk"]

/-- everything today's library objects import from outside the library is such a function: no call can reach
    process-wide state that another thread's instance also uses (the locale, `strtok`'s cursor, the environment, …) -/
theorem imports_state_free : ∀ s ∈ externalImports, s ∈ stateFreeLibc := by decide

/-! ## interleavings -/

inductive Tag (α : Type) | a (x : α) | b (x : α)

def Tag.getA {α} : Tag α → Option α | .a x => some x | .b _ => none
def Tag.getB {α} : Tag α → Option α | .a _ => none | .b x => some x

variable {S Op Out : Type} (step : S → Op → S × Out)

/-- one instance alone -/
def run (s : S) : List Op → List Out
  | [] => []
  | op :: ops => (step s op).2 :: run (step s op).1 ops

/-- two instances, operations arriving in any interleaved order -/
def run2 (sa sb : S) : List (Tag Op) → List (Tag Out)
  | [] => []
  | .a op :: ops => .a (step sa op).2 :: run2 (step sa op).1 sb ops
  | .b op :: ops => .b (step sb op).2 :: run2 sa (step sb op).1 ops

/-- whatever the interleaving, each instance sees exactly its solo results -/
theorem instances_independent (sa sb : S) (ops : List (Tag Op)) :
    (run2 step sa sb ops).filterMap Tag.getA = run step sa (ops.filterMap Tag.getA) ∧
    (run2 step sa sb ops).filterMap Tag.getB = run step sb (ops.filterMap Tag.getB) := by
  induction ops generalizing sa sb with
  | nil => simp [run2, run]
  | cons op ops ih =>
    cases op with
    | a x =>
      have := ih (step sa x).1 sb
      simp only [run2, List.filterMap_cons, Tag.getA, Tag.getB, run, this.1, this.2, and_self]
    | b x =>
      have := ih sa (step sb x).1
      simp only [run2, List.filterMap_cons, Tag.getA, Tag.getB, run, this.1, this.2, and_self]

/-- the CAB instance as such a step function: state = (parameters, cached decoder), input files
    are shared and read-only, an operation is "extract this member" -/
def cabStep (files : Cab.Files) (s : Cab.Params × Option Cab.DState) (m : Cab.Member) :
    (Cab.Params × Option Cab.DState) × (Option (Err × Option Bytes)) :=
  match Cab.extract files s.1 s.2 m with
  | .done e w d => ((s.1, d), some (e, w))
  | .unsupported => (s, none)
  | .fault _ => (s, none)

theorem cab_instances_independent (files : Cab.Files) (sa sb) (ops : List (Tag Cab.Member)) :
    (run2 (cabStep files) sa sb ops).filterMap Tag.getA = run (cabStep files) sa (ops.filterMap Tag.getA) ∧
    (run2 (cabStep files) sa sb ops).filterMap Tag.getB = run (cabStep files) sb (ops.filterMap Tag.getB) :=
  instances_independent _ sa sb ops

end MsPack.C19
