import Proofs.Lemmas.RelaxSimCab
import Proofs.Lemmas.RelaxSimLzx
import Proofs.Props.C18Decoders
/-!
# C18 — towards `cabd_extract`: one decoder call, and the parameter checks

What is proved here (lemmas: `Proofs/Lemmas/RelaxSimCab.lean`, `RelaxSimLzx.lean`):

* `C18_cab_decompress_relaxed`: one `self->d->decompress(state, n)` call of `cabd_extract` on a **stored or MSZIP**
  folder that returns MSPACK_ERR_OK in strict mode returns MSPACK_ERR_OK with the same bytes when the feeder has
  SALVAGE and/or FIXMSZIP set and the MSZIP state has `repair_mode` set; decoder states (`DecR`) and feeders (`FR`)
  stay related, so this composes along the skip phase, the output phase and from call to call.
* `C18_cab_memberCheck_relaxed`: the parameter checks at the top of `cabd_extract` — whatever strict mode lets
  through, every mode lets through with the same length and folder.
* LZX: the `Rel2 LR` walk over every helper of the decoder up to and including `blockLoop`
  (`lzx_blockLoop_rel`; `readInput` by hand, the rest `rel_auto`).

**Not done** (so there is no `C18_cab_extract_relaxed` / `C18_cab_session_relaxed` yet):
* LZX `frameBody` (the walk stops at the final `outSlice` match, where the two sides' discriminants differ only by
  the feeder inside the state — `lzx_outSlice_src` is the rewrite needed), `frameLoop`, `decompress`; Quantum: not
  started (same pattern, `QR a b := ∃ fd, FR a.st.src fd ∧ b = { a with st := { a.st with src := fd } }`);
* the assembly in `extract`: `freshDState` under the two parameter records gives `DecR`/`FR`-related states
  (the MSZIP states differ in `repair` only); `runPhase` needs "strict OK ⇒ the decoder's own status was OK", which
  is `C07_cab_read_means_feeder_failed` on `CabJAll`; then `runPhases` (two calls) and `extract`.
-/
namespace MsPack.Cab
open MsPack MsPack.CountLaws.Relax

/-- **C18, one decoder call inside `cabd_extract`, stored and MSZIP folders** -/
theorem C18_cab_decompress_relaxed (files : Files) (dec1 dec2 : Dec) (fd1 fd2 : Feeder) (n : Nat) (o1 : DecOut)
    (hd : DecR dec1 dec2) (hf : FR fd1 fd2) (h : decompress files dec1 fd1 n = .ok (some o1)) (he : o1.err = .ok) :
    ∃ o2, decompress files dec2 fd2 n = .ok (some o2) ∧ o2.err = .ok ∧ o2.written = o1.written ∧
      DecR o1.dec o2.dec ∧ FR o1.feeder o2.feeder :=
  decompress_rel files dec1 dec2 fd1 fd2 n o1 hd hf h he

/-- the stored-data decoder alone -/
theorem C18_stored_decompress_relaxed (files : Files) (bs fuel : Nat) (fd1 fd2 : Feeder) (bytes : Nat) (w : Bytes)
    (o1 : DecOut) (hf : FR fd1 fd2) (h : nonedDecompress files bs fuel fd1 bytes w = .ok o1) (he : o1.err = .ok) :
    ∃ o2, nonedDecompress files bs fuel fd2 bytes w = .ok o2 ∧ o2.err = .ok ∧ o2.written = o1.written ∧
      o2.dec = o1.dec ∧ FR o1.feeder o2.feeder := by
  obtain ⟨o2, h1, h2, h3, h4, h5, _⟩ := noned_rel files bs fuel fd1 fd2 bytes w o1 hf h he
  exact ⟨o2, h1, h2, h3, h4, h5⟩

/-- the parameter checks: strict OK ⇒ the same answer under any parameters -/
theorem C18_cab_memberCheck_relaxed (p p' : Params) (hs : p.salvage = false) (m : Member) (r : Nat × Nat)
    (h : memberCheck p m = .ok r) : memberCheck p' m = .ok r :=
  memberCheck_rel p p' hs m r h

end MsPack.Cab
