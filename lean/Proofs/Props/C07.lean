import Proofs.Lemmas.OabCount
import Proofs.Lemmas.Count
/-!
# C07 — OK means complete: output never exceeds, and on success equals, the declared size (CAB)

Generic over the stream decoders through two laws about one `decompress(state, n)` call:
`CountLaw` (L1: at most `n` bytes reach `write`; exactly `n` if it returns OK) and `ReadErrLaw`
(a decoder reporting READ has seen the feeder fail, so the `READ → read_error` substitution in
`cabd_extract` cannot produce OK).  `CountLaw` is proved for the stored-data decoder
(`countLaw_none`); for MSZIP/Quantum/LZX both laws are, for now, hypotheses of the theorems and
are covered by the correspondence only.
-/
namespace MsPack.Cab
open MsPack

/-- whatever the cabinet, the parameters (strict or salvage) and the cached decoder state:
    `extract` never hands more than the member's declared length to the output -/
theorem C07_written_le_declared (files : Files) (hL : ∀ dec, CountLaw files dec) (p : Params)
    (d : Option DState) (m : Member) (e : Err) (w : Bytes) (d' : Option DState)
    (h : extract files p d m = .done e (some w) d') : w.length ≤ m.length :=
  extract_written_le files hL p d m e w d' h

/-- strict mode: MSPACK_ERR_OK implies exactly the declared number of bytes
    (contrapositive: fewer bytes ⇒ a non-OK status) -/
theorem C07_ok_means_complete_partial (files : Files) (hL : ∀ dec, CountLaw files dec)
    (hR : ∀ dec, ReadErrLaw files dec) (p : Params) (hs : p.salvage = false)
    (d : Option DState) (m : Member) (w : Bytes) (d' : Option DState)
    (h : extract files p d m = .done .ok (some w) d') : w.length = m.length :=
  extract_ok_complete files hL hR p hs d m w d' h

/-- the counting law holds for the stored-data decoder in every state -/
theorem C07_count_law_stored (files : Files) (bs : Nat) (e : Err) : CountLaw files (.none bs e) :=
  countLaw_none files bs e

end MsPack.Cab

/-! ## OAB -/
namespace MsPack.Oab
open MsPack MsPack.Generated

/-- `oabd_decompress`, **every** input file: the bytes that reached the output never exceed the header's
    TargetSize, and MSPACK_ERR_OK means exactly TargetSize bytes — given the LZX decoder's counting law
    (`LzxCount`: `lzxd_decompress(lzx, n)` writes at most `n` bytes, exactly `n` on OK; stored blocks and
    `copy_fh` are proved) -/
theorem C07_oab_written_le_target (fuel bufSize : Nat) (hL : LzxCount fuel bufSize) (fill : UInt8) (file : Bytes)
    (outIsIn : Bool) (e : Err) (w : Bytes)
    (h : decompress fuel bufSize fill (some file) outIsIn = .ok ⟨e, some w⟩) :
    ∃ hdr infh, (⟨file, 0⟩ : Rd).readExact oabheadSIZEOF = some (hdr, infh) ∧
      w.length ≤ u32At hdr oabhead_TargetSize ∧ (e = .ok → w.length = u32At hdr oabhead_TargetSize) :=
  decompress_count fuel bufSize hL fill file outIsIn e w h

/-- the same for `oabd_decompress_incremental`, every patch and base file -/
theorem C07_oab_patch_written_le_target (fuel bufSize : Nat) (hL : LzxCount fuel bufSize) (fill : UInt8) (file : Bytes)
    (base : Option Bytes) (outIsIn outIsBase : Bool) (e : Err) (w : Bytes)
    (h : decompressIncremental fuel bufSize fill (some file) base outIsIn outIsBase = .ok ⟨e, some w⟩) :
    ∃ hdr infh, (⟨file, 0⟩ : Rd).readExact patchheadSIZEOF = some (hdr, infh) ∧
      w.length ≤ u32At hdr patchhead_TargetSize ∧ (e = .ok → w.length = u32At hdr patchhead_TargetSize) :=
  decompressIncremental_count fuel bufSize hL fill file base outIsIn outIsBase e w h

end MsPack.Oab
