import MsPack.Cab.Set
/-!
# C13 — cabinet sets join consistently; bad joins change nothing

Model: `MsPack/Cab/Set.lean` (`Heap.merge` = `cabd_merge`, split into its checking half
`mergeCheck` — every early `return self->error = …` — and its mutating half `mergeApply`).

Proved here: every refusal leaves the heap exactly as it was (so both cabinets keep their own
lists and can be closed independently), and each of the refusal conditions the property lists is
indeed refused.  Order-independence of successful joins is `C13_join_order_independent` in
`Proofs/Props/C13Order.lean` (and is checked by the correspondence `cab.sets`: all join orders and
directions, lists compared after every call).
-/
namespace MsPack.Cab
open MsPack

/-- a refused join changes nothing -/
theorem C13_refused_unchanged (h : Heap) (l r : Option CabId) :
    (h.merge l r).1 ≠ .ok → (h.merge l r).2 = h := by
  unfold Heap.merge
  split <;> simp

/-- … and a join that is not refused reports OK (there is no third outcome) -/
theorem C13_ok_or_unchanged (h : Heap) (l r : Option CabId) :
    (h.merge l r).1 = .ok ∨ (h.merge l r) = ((h.merge l r).1, h) := by
  unfold Heap.merge
  split <;> simp

/-- NULL arguments are refused with MSPACK_ERR_ARGS -/
theorem C13_refuses_null (h : Heap) (c : Option CabId) :
    h.merge none c = (.args, h) ∧ h.merge c none = (.args, h) := by
  constructor <;> (unfold Heap.merge Heap.mergeCheck; cases c <;> rfl)

/-- joining a cabinet with itself is refused -/
theorem C13_refuses_same (h : Heap) (c : CabId) : h.merge (some c) (some c) = (.args, h) := by
  simp [Heap.merge, Heap.mergeCheck]

/-- a left cabinet that already has a successor, or a right one that already has a predecessor,
    is refused -/
theorem C13_refuses_joined (h : Heap) (lc rc : CabId) (ln rn : CabNode)
    (hl : h.cab? lc = some ln) (hr : h.cab? rc = some rn)
    (hj : ln.next.isSome ∨ rn.prev.isSome) : h.merge (some lc) (some rc) = (.args, h) := by
  by_cases hne : lc = rc
  · subst hne; exact C13_refuses_same h lc
  · simp [Heap.merge, Heap.mergeCheck, hne, hl, hr, hj]

/-- a join that would close a cycle is refused -/
theorem C13_refuses_circular (h : Heap) (lc rc : CabId) (ln rn : CabNode)
    (hl : h.cab? lc = some ln) (hr : h.cab? rc = some rn)
    (hc : (h.prevChain lc).contains rc ∨ (h.nextChain rc).contains lc) :
    h.merge (some lc) (some rc) = (.args, h) := by
  by_cases hne : lc = rc
  · subst hne; exact C13_refuses_same h lc
  · by_cases hj : ln.next.isSome ∨ rn.prev.isSome
    · exact C13_refuses_joined h lc rc ln rn hl hr hj
    · have hc' : rc ∈ h.prevChain lc ∨ lc ∈ h.nextChain rc := by simpa using hc
      simp [Heap.merge, Heap.mergeCheck, hne, hl, hr, hj, hc']

/-- split folders that do not fit (`cabd_can_merge_folders` says no) are refused with
    MSPACK_ERR_DATAFORMAT -/
theorem C13_refuses_mismatch (h : Heap) (lc rc : CabId) (ln rn : CabNode) (lfid rfid : FolderId)
    (lf rf : FolderNode)
    (hne : lc ≠ rc) (hl : h.cab? lc = some ln) (hr : h.cab? rc = some rn)
    (hj : ¬ (ln.next.isSome ∨ rn.prev.isSome))
    (hc : ¬ ((h.prevChain lc).contains rc ∨ (h.nextChain rc).contains lc))
    (hlf : ln.folders.getLast? = some lfid) (hrf : rn.folders.head? = some rfid)
    (hlf' : h.folder? lfid = some lf) (hrf' : h.folder? rfid = some rf)
    (hm : ¬ (lf.mergeNext.isNone ∧ rf.mergePrev.isNone))
    (hcan : Heap.canMergeFolders h ln.files rn.files lf rf = false) :
    h.merge (some lc) (some rc) = (.dataformat, h) := by
  have hc' : ¬ (rc ∈ h.prevChain lc ∨ lc ∈ h.nextChain rc) := by simpa using hc
  have hm' : ¬ (lf.mergeNext = none ∧ rf.mergePrev = none) := by simpa using hm
  simp [Heap.merge, Heap.mergeCheck, hne, hl, hr, hj, hc', hlf, hrf, hlf', hrf', hm', hcan]

end MsPack.Cab
