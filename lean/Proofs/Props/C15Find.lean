import Proofs.Lemmas.ChmFind
import Proofs.Props.C03Headers
/-!
# C15 — `fast_find()` agrees with the listing on the directories a writer lays out

Property C15: "fast_find() returns, for each name that open() lists, the same section, offset and length, and
reports 'not found' for every name that differs from all directory entries by more than letter case".

Setting: `encodeChm s` (`MsPack/Spec/ChmEncode.lean`) is a CHM file with PMGL chunks only (index root -1), so the
model of `chmd_fast_find` (`MsPack/Chm/Find.lean`, unchanged) takes the chain-walk branch: chunks 0, 1, … through
`read_chunk` (with its cache) and `search_chunk`, until one of them reports the name.

Theorems
* `searchChunk_linear` (`Proofs/Lemmas/ChmFind.lean`): on a writer's chunk `search_chunk` is the linear scan with
  early exit (`scanFrom`), whether it goes through the degenerate one-group binary search or skips it.
* `C15_fastfind_found` / `C15_fastfind_found_gen`: every directory entry (listed file or not) is found under its name,
  with its section, offset, length; MSPACK_ERR_OK is returned and stored.  Names are arbitrary bytes without NUL.
* `C15_fastfind_notfound`: a name whose C string `compare` distinguishes from every entry is not found
  (MSPACK_ERR_OK, section NULL, offset 0, length 0).  Needs no order at all.
  Both are stated for any value of `self->error` before the call and any *consistent* chunk cache (`CacheOk`), and
  return a consistent cache: they apply to every call of any sequence of `fast_find` calls on the header.
* `C15_fastfind_roundtrip`: the two halves for the header `open()` returns (`realOpen … true`,
  `C03_open_roundtrip`), quantified over `hdr.files`.
* `C15_fastfind_roundtrip_ascii`, `C15_fastfind_anycase_ascii`: for ASCII names (1..0x7F) the order premise is
  "each entry compares below its successor" (`compare` is proved to be case-insensitive lexicographic byte order
  there: `compare_ascii`, antisymmetric and transitive), "differs by more than letter case" is `map lowerByte ≠`, and
  any spelling that differs in letter case only is found too.

Premises beyond `ChmSpec.wf`
* `sorted`: strictly increasing under the model's `compare` across all chunks, stated pairwise as
  `compare later earlier > 0` — the form the scan uses; no property of `compare` on non-ASCII bytes is needed.
* `noQuickrefs`: the writer's quick-reference area is the entry count alone.  `search_chunk` computes
  `qr_entries = ⌈n / qr_density⌉` groups and, when the free space has room for that many 16-bit slots, reads the
  offsets of groups 1.. out of what is zero padding here, lands on the first entry again and then scans only the
  remainder count: entries behind the first are missed (scratch `#eval`: density 0, three entries, 64-byte chunk →
  "/b" and "/c" are listed by `open()` but not found).  The premise asks that each chunk has a single group
  (`n ≤ 1 + 2^min(density,16)`) or too little free space for the slots (the C then ignores the area).  It is a
  property of the *writer* (`encodeChm` emits no offsets), not a defect of the C.
* no empty chunk (not-found half only): `search_chunk` refuses a chunk with `num_entries == 0`, and if that is the
  last chunk visited `fast_find` returns MSPACK_ERR_DATAFORMAT.
* names without NUL byte (found half): `fast_find` takes a C string.

Not covered: PMGI index chunks (`descend`), real quick-reference offsets with more than one group, system-file
names (excluded by `wf`), names that are not ASCII in the adjacent-order formulation.
-/
namespace MsPack.Chm
open MsPack MsPack.Generated

/-- the order the format requires of a directory, stated with the model's `compare`: every entry sorts strictly
    after every entry written before it — within a chunk and across chunks -/
def ChmSpec.sorted (s : ChmSpec) : Prop :=
  s.entries.Pairwise (fun a b => compare b.name a.name > 0)

/-- every chunk's quick-reference area is complete although the writer stores no offsets in it (`noQuickref`) -/
def ChmSpec.noQuickrefs (s : ChmSpec) : Prop :=
  ∀ c ∈ s.chunks, noQuickref s.chunkSize s.density c

theorem cString_of_nonzero : ∀ (b : Bytes), (∀ x ∈ b, x ≠ 0) → cString b = b
  | [], _ => rfl
  | x :: b, h => by
    have hx := h x (List.mem_cons_self ..)
    have ih := cString_of_nonzero b (fun y hy => h y (List.mem_cons_of_mem _ hy))
    unfold cString at ih ⊢
    rw [List.takeWhile_cons]
    simp only [ne_eq, hx, not_false_eq_true, decide_true, ↓reduceIte, ih]

/-- `chmd_fast_find` on a header without index chunk is the PMGL chain walk from chunk 0 -/
theorem fastFind_walk (s : ChmSpec) (hwf : s.wf) (filename : String) (err : Err) (cc : Option (List (Nat × Bytes)))
    (name : Bytes) :
    fastFind (some (encodeChm s)) ⟨err, withCache s filename cc⟩ name =
      walk (encodeChm s) (cString name) (s.numChunks + 1) 0 .bad ⟨err, withCache s filename cc⟩ := by
  have := (wf_numChunks s hwf).2
  unfold fastFind
  have h1 : (withCache s filename cc).indexRoot = 0xFFFFFFFF := rfl
  have h2 : (withCache s filename cc).numChunks = s.numChunks := rfl
  simp only [h1, h2]
  rw [if_neg (by omega)]
  rfl

theorem getD_mem (s : ChmSpec) (j : Nat) (hj : j < s.numChunks) : s.chunks.getD j [] ∈ s.chunks := by
  have hj' : j < s.chunks.length := hj
  have : s.chunks.getD j [] = s.chunks[j] := by simp [List.getD_eq_getElem?_getD, hj']
  rw [this]; exact List.getElem_mem hj'

/-- `search_chunk` on chunk `j` of the file, whatever the cache holds -/
theorem searchChunk_chunkOf (s : ChmSpec) (hwf : s.wf) (hqr : s.noQuickrefs) (filename : String) (fname : Bytes)
    (j : Nat) (hj : j < s.numChunks) (cc : Option (List (Nat × Bytes))) :
    searchChunk (withCache s filename cc) (chunkOf s j) fname =
      .ok (if s.chunks.getD j [] = [] then .bad
           else toSearch (20 + (encEntries (s.chunks.getD j [])).length) (scanFrom fname 20 (s.chunks.getD j []))) := by
  obtain ⟨hc1, hc2⟩ := wf_chunkSize s hwf
  by_cases hne : s.chunks.getD j [] = []
  · rw [if_pos hne]
    unfold chunkOf
    rw [hne]
    exact searchChunk_empty (withCache s filename cc) s.numChunks j fname hc1
  · rw [if_neg hne]
    exact searchChunk_linear (withCache s filename cc) s.numChunks j _ fname (chunkOf_fits s hwf j) hc2
      (wf_numChunks s hwf).2 hj hne (hqr _ (getD_mem s j hj))

/-- found, general form: a name whose C string `compare`s equal to the entry `en` and above everything `en` sorts
    above is found, with `en`'s section, offset and length -/
theorem C15_fastfind_found_gen (s : ChmSpec) (hwf : s.wf) (hsorted : s.sorted) (hqr : s.noQuickrefs) (filename : String)
    (en : EntrySpec) (hen : en ∈ s.entries) (name : Bytes) (heq : compare (cString name) en.name = 0)
    (hgt : ∀ x ∈ s.entries, compare en.name x.name > 0 → compare (cString name) x.name > 0)
    (err : Err) (cc : Option (List (Nat × Bytes))) (hok : CacheOk s cc) :
    ∃ cc', CacheOk s cc' ∧
      fastFind (some (encodeChm s)) ⟨err, withCache s filename cc⟩ name =
        .ok ⟨.ok, ⟨.ok, withCache s filename cc'⟩, ⟨some en.sec, Int.ofNat en.offset, Int.ofNat en.length⟩⟩ := by
  obtain ⟨c, hc, hec⟩ := List.mem_flatten.mp hen
  obtain ⟨A, B, hAB⟩ := List.append_of_mem hc
  obtain ⟨pre, post, hpp⟩ := List.append_of_mem hec
  have hk : A.length < s.numChunks := by unfold ChmSpec.numChunks; rw [hAB]; simp
  have hgetk : s.chunks.getD A.length [] = c := by rw [hAB]; simp [List.getD_eq_getElem?_getD]
  have hgetj : ∀ j, j < A.length → s.chunks.getD j [] ∈ A := by
    intro j hj
    rw [hAB]
    have : (A ++ c :: B).getD j [] = A[j] := by simp [List.getD_eq_getElem?_getD, List.getElem?_append_left hj, hj]
    rw [this]; exact List.getElem_mem hj
  -- what the order says about the entries before `en`
  have hent : s.entries = A.flatten ++ (pre ++ en :: (post ++ B.flatten)) := by
    unfold ChmSpec.entries; rw [hAB, hpp]; simp
  unfold ChmSpec.sorted at hsorted
  rw [hent, List.pairwise_append] at hsorted
  obtain ⟨_, hs2, hs3⟩ := hsorted
  rw [List.pairwise_append] at hs2
  have hbeforeA : ∀ x ∈ A.flatten, compare (cString name) x.name > 0 := fun x hx =>
    hgt x (by rw [hent]; simp [hx]) (hs3 x hx en (by simp))
  have hbeforeP : ∀ x ∈ pre, compare (cString name) x.name > 0 := fun x hx =>
    hgt x (by rw [hent]; simp [hx]) (hs2.2.2 x hx en (by simp))
  -- the chunk that holds it
  have hcfit := chunkOf_fits s hwf A.length
  rw [hgetk] at hcfit
  have hcne : c ≠ [] := by rw [hpp]; simp
  have hscan := scanFrom_found (cString name) en post heq pre 20 hbeforeP
  rw [← hpp] at hscan
  have hfound : ∀ cc, searchChunk (withCache s filename cc) (chunkOf s A.length) (cString name) =
      .ok (.found (20 + (encEntries pre).length + (putEncint en.name.length).length + en.name.length)
        (20 + (encEntries c).length)) := by
    intro cc
    rw [searchChunk_chunkOf s hwf hqr filename _ A.length hk cc, hgetk, if_neg hcne, hscan]
    rfl
  -- the chunks before it
  have hbefore : ∀ j, j < A.length → ∃ r, (r = Search.notFound ∨ r = Search.bad) ∧
      ∀ cc, searchChunk (withCache s filename cc) (chunkOf s j) (cString name) = .ok r := by
    intro j hj
    by_cases hne : s.chunks.getD j [] = []
    · exact ⟨.bad, Or.inr rfl, fun cc => by
        rw [searchChunk_chunkOf s hwf hqr filename _ j (by omega) cc, if_pos hne]⟩
    · refine ⟨.notFound, Or.inl rfl, fun cc => ?_⟩
      rw [searchChunk_chunkOf s hwf hqr filename _ j (by omega) cc, if_neg hne,
        scanFrom_none _ _ 20 (fun x hx => by
          have := hbeforeA x (List.mem_flatten.mpr ⟨_, hgetj j hj, hx⟩)
          omega)]
      rfl
  obtain ⟨cc', hok', hw⟩ := walk_found s hwf filename (cString name) A.length hk _ _ hfound hbefore A.length 0
    (s.numChunks + 1) (by omega) (by omega) .bad err cc hok
  refine ⟨cc', hok', ?_⟩
  rw [fastFind_walk s hwf, hw]
  -- the entry's data
  obtain ⟨_, _, tail, hbody⟩ := encChunk_fields s.chunkSize s.numChunks A.length c hcfit
  have hwfen : en.wf := (hwf.2.2.2.2.2.2.2.2 c hc).2 en hec
  have hencc : encEntries c = encEntries pre ++ (encEntry en ++ encEntries post) := by
    rw [hpp, encEntries_append, encEntries_cons]
  have hd1 : (chunkOf s A.length).drop 20 = encEntries pre ++ (encEntry en ++ (encEntries post ++ tail)) := by
    unfold chunkOf; rw [hgetk, hbody, hencc]; simp [List.append_assoc]
  have hd2 := Oab.drop_after _ _ _ _ hd1
  have hlenc : (encEntries c).length = (encEntries pre).length + ((encEntry en).length + (encEntries post).length) := by
    rw [hencc]; simp
  have hcs := (wf_chunkSize s hwf).2
  have hf1 := hcfit.1
  obtain ⟨_, _, hd3⟩ := entry_head (chunkOf s A.length) (20 + (encEntries pre).length) (20 + (encEntries c).length)
    (by omega) en _ hd2 (by omega)
  have hel := encEntry_length en
  rw [readFound_spec (chunkOf s A.length) _ _ _ en _ hwfen hd3 (by omega)]

/-- **found half**: every directory entry is found under its own name, with its section, offset and length; the
    call returns MSPACK_ERR_OK, sets `self->error` to it and leaves a consistent chunk cache (so any number of
    calls may follow one another) -/
theorem C15_fastfind_found (s : ChmSpec) (hwf : s.wf) (hsorted : s.sorted) (hqr : s.noQuickrefs) (filename : String)
    (en : EntrySpec) (hen : en ∈ s.entries) (hnul : ∀ b ∈ en.name, b ≠ 0)
    (err : Err) (cc : Option (List (Nat × Bytes))) (hok : CacheOk s cc) :
    ∃ cc', CacheOk s cc' ∧
      fastFind (some (encodeChm s)) ⟨err, withCache s filename cc⟩ en.name =
        .ok ⟨.ok, ⟨.ok, withCache s filename cc'⟩, ⟨some en.sec, Int.ofNat en.offset, Int.ofNat en.length⟩⟩ := by
  have hcs := cString_of_nonzero en.name hnul
  exact C15_fastfind_found_gen s hwf hsorted hqr filename en hen en.name (by rw [hcs]; exact C15_compare_refl _)
    (fun x _ h => by rw [hcs]; exact h) err cc hok

/-- **not-found half**: a name that `compare` distinguishes from every directory entry is reported as not found:
    MSPACK_ERR_OK, no section, offset and length 0 -/
theorem C15_fastfind_notfound (s : ChmSpec) (hwf : s.wf) (hqr : s.noQuickrefs) (hne : ∀ c ∈ s.chunks, c ≠ [])
    (filename : String) (name : Bytes) (hno : ∀ en ∈ s.entries, compare (cString name) en.name ≠ 0)
    (err : Err) (cc : Option (List (Nat × Bytes))) (hok : CacheOk s cc) :
    ∃ cc', CacheOk s cc' ∧
      fastFind (some (encodeChm s)) ⟨err, withCache s filename cc⟩ name =
        .ok ⟨.ok, ⟨.ok, withCache s filename cc'⟩, ⟨none, 0, 0⟩⟩ := by
  obtain ⟨hn1, hn2⟩ := wf_numChunks s hwf
  have hall : ∀ j, j < s.numChunks → ∀ cc, searchChunk (withCache s filename cc) (chunkOf s j) (cString name) =
      .ok .notFound := by
    intro j hj cc
    have hmem := getD_mem s j hj
    rw [searchChunk_chunkOf s hwf hqr filename _ j hj cc, if_neg (hne _ hmem),
      scanFrom_none _ _ 20 (fun x hx => hno x (List.mem_flatten.mpr ⟨_, hmem, hx⟩))]
    rfl
  obtain ⟨cc', hok', hw⟩ := walk_notFound s hwf filename (cString name) hall (s.numChunks - 1) 0 (s.numChunks + 1)
    (by omega) (by omega) .bad err cc hok
  exact ⟨cc', hok', by rw [fastFind_walk s hwf, hw]⟩

/-! ## the two halves together, for the header `open()` returns -/

/-- **C15**: for every well-formed specification whose directory is sorted (`sorted`: strictly increasing under the
    model's `compare`, across all chunks), whose chunks are not empty and need no quick-reference offsets
    (`noQuickrefs`) and whose names contain no NUL byte (they are handed to `fast_find` as C strings), `open()` on
    the written file succeeds, and with the header it returns and whatever `self->error` held

    * `fast_find` finds every name `open()` lists, with the same section, offset and length, returning and
      storing MSPACK_ERR_OK;
    * `fast_find` reports every name that `compare` distinguishes from all directory entries as not found:
      MSPACK_ERR_OK, no section, offset 0, length 0.

    Names are arbitrary bytes (UTF-8 or not); `C15_fastfind_roundtrip_ascii` restates both premises for ASCII. -/
theorem C15_fastfind_roundtrip (s : ChmSpec) (hwf : s.wf) (hsorted : s.sorted) (hqr : s.noQuickrefs)
    (hne : ∀ c ∈ s.chunks, c ≠ []) (hnul : ∀ en ∈ s.entries, ∀ b ∈ en.name, b ≠ 0) (filename : String) :
    ∃ hdr, realOpen filename (encodeChm s) true = .ok (.ok, some hdr) ∧
      hdr.files = (s.entries.filter EntrySpec.isFile).map EntrySpec.listed ∧
      ∀ err : Err,
        (∀ f ∈ hdr.files, ∃ st', st'.error = .ok ∧
          fastFind (some (encodeChm s)) ⟨err, hdr⟩ f.name = .ok ⟨.ok, st', ⟨some f.sec, f.offset, f.length⟩⟩) ∧
        (∀ name, (∀ en ∈ s.entries, compare (cString name) en.name ≠ 0) → ∃ st', st'.error = .ok ∧
          fastFind (some (encodeChm s)) ⟨err, hdr⟩ name = .ok ⟨.ok, st', ⟨none, 0, 0⟩⟩) := by
  refine ⟨s.listed filename, C03_open_roundtrip s hwf filename, rfl, fun err => ⟨?_, ?_⟩⟩
  · intro f hf
    have hf' : f ∈ (s.entries.filter EntrySpec.isFile).map EntrySpec.listed := hf
    obtain ⟨en, hen, rfl⟩ := List.mem_map.mp hf'
    have hen' := (List.mem_filter.mp hen).1
    obtain ⟨cc', _, h⟩ := C15_fastfind_found s hwf hsorted hqr filename en hen' (hnul en hen') err none (cacheOk_none s)
    exact ⟨_, rfl, h⟩
  · intro name hno
    obtain ⟨cc', _, h⟩ := C15_fastfind_notfound s hwf hqr hne filename name hno err none (cacheOk_none s)
    exact ⟨_, rfl, h⟩

/-! ## ASCII names: the premises in elementary terms -/

/-- adjacent entries strictly increasing under `compare` -/
def ascending : List EntrySpec → Prop
  | a :: b :: rest => compare a.name b.name < 0 ∧ ascending (b :: rest)
  | _ => True

def asciiName (n : Bytes) : Prop := ∀ x ∈ n, x.toNat < 0x80

instance (n : Bytes) : Decidable (asciiName n) := by unfold asciiName; exact inferInstance

/-- for ASCII names `compare` is a strict order, so increasing neighbours make the whole directory sorted -/
theorem pairwise_of_ascending : ∀ (l : List EntrySpec), (∀ en ∈ l, asciiName en.name) → ascending l →
    l.Pairwise (fun a b => compare a.name b.name < 0)
  | [], _, _ => List.Pairwise.nil
  | [a], _, _ => by simp
  | a :: b :: rest, hascii, hasc => by
    have ih := pairwise_of_ascending (b :: rest) (fun en hen => hascii en (List.mem_cons_of_mem _ hen)) hasc.2
    refine List.pairwise_cons.mpr ⟨?_, ih⟩
    intro x hx
    rcases List.mem_cons.mp hx with rfl | hx
    · exact hasc.1
    · have hbx := (List.pairwise_cons.mp ih).1 x hx
      have ha := hascii a (by simp)
      have hb := hascii b (by simp)
      have hxa := hascii x (by simp [hx])
      rw [compare_ascii _ _ ha hxa]
      rw [compare_ascii _ _ hb hxa] at hbx
      have hab := hasc.1
      rw [compare_ascii _ _ ha hb] at hab
      exact lexCmp_trans _ _ _ hab hbx

theorem sorted_of_ascending (s : ChmSpec) (hascii : ∀ en ∈ s.entries, asciiName en.name) (hasc : ascending s.entries) :
    s.sorted := by
  unfold ChmSpec.sorted
  refine List.Pairwise.imp_of_mem ?_ (pairwise_of_ascending s.entries hascii hasc)
  intro a b ha hb hab
  rw [compare_ascii _ _ (hascii a ha) (hascii b hb)] at hab
  rw [compare_ascii _ _ (hascii b hb) (hascii a ha), lexCmp_antisymm]
  omega

theorem toLower_lowerByte (x : UInt8) (h : x.toNat < 0x80) : toLower x.toNat = (lowerByte x).toNat := by
  have key : ∀ n : Fin 128, toLower (UInt8.ofNat n.val).toNat = (lowerByte (UInt8.ofNat n.val)).toNat := by decide
  have hx : x = UInt8.ofNat x.toNat := by simp
  have := key ⟨x.toNat, h⟩
  rw [← hx] at this; exact this

theorem foldKey_lower (a : Bytes) (ha : asciiName a) : foldKey a = (a.map lowerByte).map UInt8.toNat := by
  unfold foldKey
  rw [List.map_map]
  exact List.map_inj_left.mpr (fun x hx => toLower_lowerByte x (ha x hx))

/-- ASCII names that `compare` calls equal are equal up to letter case -/
theorem compare_ascii_eq_zero (a b : Bytes) (ha : asciiName a) (hb : asciiName b) (h : compare a b = 0) :
    a.map lowerByte = b.map lowerByte := by
  rw [compare_ascii a b ha hb] at h
  have hk := lexCmp_eq_zero _ _ h
  rw [foldKey_lower a ha, foldKey_lower b hb] at hk
  exact (List.map_inj_right (fun x y hxy => UInt8.toNat_inj.mp hxy)).mp hk

/-- ASCII names equal up to letter case compare alike against every ASCII name -/
theorem compare_ascii_congr (a b x : Bytes) (ha : asciiName a) (hb : asciiName b) (hx : asciiName x)
    (h : a.map lowerByte = b.map lowerByte) : compare a x = compare b x := by
  rw [compare_ascii a x ha hx, compare_ascii b x hb hx, foldKey_lower a ha, foldKey_lower b hb, h]

/-- letter case does not matter to `fast_find` (ASCII): any spelling of an entry's name that differs from it in
    letter case only is found, with that entry's section, offset and length -/
theorem C15_fastfind_anycase_ascii (s : ChmSpec) (hwf : s.wf) (hqr : s.noQuickrefs)
    (hascii : ∀ en ∈ s.entries, asciiName en.name) (hasc : ascending s.entries) (filename : String)
    (en : EntrySpec) (hen : en ∈ s.entries) (name : Bytes) (hna : asciiName name) (hnn : ∀ b ∈ name, b ≠ 0)
    (hcase : name.map lowerByte = en.name.map lowerByte)
    (err : Err) (cc : Option (List (Nat × Bytes))) (hok : CacheOk s cc) :
    ∃ cc', CacheOk s cc' ∧
      fastFind (some (encodeChm s)) ⟨err, withCache s filename cc⟩ name =
        .ok ⟨.ok, ⟨.ok, withCache s filename cc'⟩, ⟨some en.sec, Int.ofNat en.offset, Int.ofNat en.length⟩⟩ := by
  have hcs := cString_of_nonzero name hnn
  have hea := hascii en hen
  refine C15_fastfind_found_gen s hwf (sorted_of_ascending s hascii hasc) hqr filename en hen name ?_ ?_ err cc hok
  · rw [hcs, compare_ascii_congr name en.name en.name hna hea hea hcase]; exact C15_compare_refl _
  · intro x hx h
    rw [hcs, compare_ascii_congr name en.name x.name hna hea (hascii x hx) hcase]; exact h

/-- **C15 for ASCII names** (bytes 1..0x7F): the directory is sorted when each entry compares below its successor
    (`compare` is then case-insensitive lexicographic byte order, a strict order), and a name "differs by more
    than letter case" from an entry when their lower-cased bytes differ -/
theorem C15_fastfind_roundtrip_ascii (s : ChmSpec) (hwf : s.wf) (hqr : s.noQuickrefs) (hne : ∀ c ∈ s.chunks, c ≠ [])
    (hascii : ∀ en ∈ s.entries, asciiName en.name) (hnul : ∀ en ∈ s.entries, ∀ b ∈ en.name, b ≠ 0)
    (hasc : ascending s.entries) (filename : String) :
    ∃ hdr, realOpen filename (encodeChm s) true = .ok (.ok, some hdr) ∧
      hdr.files = (s.entries.filter EntrySpec.isFile).map EntrySpec.listed ∧
      ∀ err : Err,
        (∀ f ∈ hdr.files, ∃ st', st'.error = .ok ∧
          fastFind (some (encodeChm s)) ⟨err, hdr⟩ f.name = .ok ⟨.ok, st', ⟨some f.sec, f.offset, f.length⟩⟩) ∧
        (∀ name, asciiName name → (∀ b ∈ name, b ≠ 0) →
          (∀ en ∈ s.entries, name.map lowerByte ≠ en.name.map lowerByte) → ∃ st', st'.error = .ok ∧
          fastFind (some (encodeChm s)) ⟨err, hdr⟩ name = .ok ⟨.ok, st', ⟨none, 0, 0⟩⟩) := by
  obtain ⟨hdr, h1, h2, h3⟩ := C15_fastfind_roundtrip s hwf (sorted_of_ascending s hascii hasc) hqr hne hnul filename
  refine ⟨hdr, h1, h2, fun err => ⟨(h3 err).1, fun name hna hnn hdiff => (h3 err).2 name ?_⟩⟩
  intro en hen h0
  rw [cString_of_nonzero name hnn] at h0
  exact hdiff en hen (compare_ascii_eq_zero name en.name hna (hascii en hen) h0)

/-! ## the premises are satisfiable -/

/-- two chunks, four entries with mixed letter case: "/" (a directory entry, not listed by `open()`),
    "/Alpha.htm" | "/beta", "/Gamma"; density 2, i.e. up to 5 entries per quick-reference group -/
def findSpec : ChmSpec :=
  { version := 3, timestamp := 0x12345678, language := 0x409, chunkSize := 64, density := 2,
    chunks := [[⟨[0x2F], 0, 0, 0⟩, ⟨[0x2F, 0x41, 0x6C, 0x70, 0x68, 0x61, 0x2E, 0x68, 0x74, 0x6D], 1, 300, 70000⟩],
               [⟨[0x2F, 0x62, 0x65, 0x74, 0x61], 0, 5, 1⟩, ⟨[0x2F, 0x47, 0x61, 0x6D, 0x6D, 0x61], 1, 70300, 9⟩]],
    content := [1, 2, 3, 4, 5, 6] }

theorem findSpec_wf : findSpec.wf := by
  refine ⟨by decide, by decide, by decide, by decide, by decide, by simp [findSpec], by decide, by decide, ?_⟩
  intro c hc
  simp only [findSpec, List.mem_cons, List.not_mem_nil, or_false] at hc
  rcases hc with rfl | rfl
  · refine ⟨⟨by decide, by decide⟩, ?_⟩
    intro en hen
    simp only [List.mem_cons, List.not_mem_nil, or_false] at hen
    rcases hen with rfl | rfl <;> exact ⟨by decide, by decide, by decide, by decide⟩
  · refine ⟨⟨by decide, by decide⟩, ?_⟩
    intro en hen
    simp only [List.mem_cons, List.not_mem_nil, or_false] at hen
    rcases hen with rfl | rfl <;> exact ⟨by decide, by decide, by decide, by decide⟩

theorem findSpec_entries : findSpec.entries =
    [⟨[0x2F], 0, 0, 0⟩, ⟨[0x2F, 0x41, 0x6C, 0x70, 0x68, 0x61, 0x2E, 0x68, 0x74, 0x6D], 1, 300, 70000⟩,
     ⟨[0x2F, 0x62, 0x65, 0x74, 0x61], 0, 5, 1⟩, ⟨[0x2F, 0x47, 0x61, 0x6D, 0x6D, 0x61], 1, 70300, 9⟩] := rfl

theorem findSpec_noQuickrefs : findSpec.noQuickrefs := by
  intro c hc
  simp only [findSpec, List.mem_cons, List.not_mem_nil, or_false] at hc
  rcases hc with rfl | rfl <;> exact Or.inl (by decide)

theorem findSpec_nonempty : ∀ c ∈ findSpec.chunks, c ≠ [] := by
  intro c hc
  simp only [findSpec, List.mem_cons, List.not_mem_nil, or_false] at hc
  rcases hc with rfl | rfl <;> simp

theorem findSpec_ascii : ∀ en ∈ findSpec.entries, asciiName en.name := by
  intro en hen
  rw [findSpec_entries] at hen
  simp only [List.mem_cons, List.not_mem_nil, or_false] at hen
  rcases hen with rfl | rfl | rfl | rfl <;> (intro x hx; simp only [List.mem_cons, List.not_mem_nil, or_false] at hx) <;>
    (rcases hx with rfl | rfl | rfl | rfl | rfl | rfl | rfl | rfl | rfl | rfl) <;> decide

theorem findSpec_nonul : ∀ en ∈ findSpec.entries, ∀ b ∈ en.name, b ≠ 0 := by
  intro en hen b hb h0
  have := findSpec_ascii en hen
  rw [findSpec_entries] at hen
  simp only [List.mem_cons, List.not_mem_nil, or_false] at hen
  subst h0
  rcases hen with rfl | rfl | rfl | rfl <;> simp at hb

theorem findSpec_ascending : ascending findSpec.entries := by
  rw [findSpec_entries]
  exact ⟨by decide, by decide, by decide, trivial⟩

/-- all premises of `C15_fastfind_roundtrip_ascii` hold for it -/
example : ∃ hdr, realOpen "x.chm" (encodeChm findSpec) true = .ok (.ok, some hdr) ∧
      hdr.files = (findSpec.entries.filter EntrySpec.isFile).map EntrySpec.listed ∧
      ∀ err : Err,
        (∀ f ∈ hdr.files, ∃ st', st'.error = .ok ∧
          fastFind (some (encodeChm findSpec)) ⟨err, hdr⟩ f.name = .ok ⟨.ok, st', ⟨some f.sec, f.offset, f.length⟩⟩) ∧
        (∀ name, asciiName name → (∀ b ∈ name, b ≠ 0) →
          (∀ en ∈ findSpec.entries, name.map lowerByte ≠ en.name.map lowerByte) → ∃ st', st'.error = .ok ∧
          fastFind (some (encodeChm findSpec)) ⟨err, hdr⟩ name = .ok ⟨.ok, st', ⟨none, 0, 0⟩⟩) :=
  C15_fastfind_roundtrip_ascii findSpec findSpec_wf findSpec_noQuickrefs findSpec_nonempty findSpec_ascii findSpec_nonul
    findSpec_ascending "x.chm"

/-- what it says for "/Gamma", the second entry of the second chunk, looked up as "/gamma" … -/
example : ∃ cc', CacheOk findSpec cc' ∧
    fastFind (some (encodeChm findSpec)) ⟨.ok, findSpec.listed "x.chm"⟩ [0x2F, 0x67, 0x61, 0x6D, 0x6D, 0x61] =
      .ok ⟨.ok, ⟨.ok, withCache findSpec "x.chm" cc'⟩, ⟨some 1, 70300, 9⟩⟩ :=
  C15_fastfind_anycase_ascii findSpec findSpec_wf findSpec_noQuickrefs findSpec_ascii findSpec_ascending "x.chm"
    ⟨[0x2F, 0x47, 0x61, 0x6D, 0x6D, 0x61], 1, 70300, 9⟩ (by rw [findSpec_entries]; simp) _ (by decide) (by decide)
    (by decide) .ok none (cacheOk_none _)

/-- … and for "/alpha", which no entry matches -/
example : ∃ cc', CacheOk findSpec cc' ∧
    fastFind (some (encodeChm findSpec)) ⟨.ok, findSpec.listed "x.chm"⟩ [0x2F, 0x61, 0x6C, 0x70, 0x68, 0x61] =
      .ok ⟨.ok, ⟨.ok, withCache findSpec "x.chm" cc'⟩, ⟨none, 0, 0⟩⟩ :=
  C15_fastfind_notfound findSpec findSpec_wf findSpec_noQuickrefs findSpec_nonempty "x.chm" _
    (by rw [findSpec_entries]; decide) .ok none (cacheOk_none _)

end MsPack.Chm
