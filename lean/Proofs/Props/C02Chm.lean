import Proofs.Lemmas.ChmBounds
import Proofs.Props.C03Headers
import Proofs.Props.C15Find
/-!
# C02 — memory safety, CHM part (`chmd_read_headers`, `chmd_fast_find`, `chmd_extract`)

The CHM models render every access the C makes into a directory chunk (`read_encint`, the `*p++`
skipping loop and the quick-reference slots of `search_chunk`) and into the reset table
(`read_reset_table`) as a checked access with outcome `Fault.oob`, and every pointer the C dereferences
without a test (`sec->content`, `sec->control`, `sec->rtable`, `sec->spaninfo`, `d->infh`, the decoder's
input) as `Fault.nullDeref`.  The theorems say these outcomes are unreachable, for every file content:

* `readHeaders` (any bytes, either mode) returns no `Fault` at all, and the header it returns satisfies
  `HdrInv` (chunk size ≥ 22; every cached chunk is `chunk_size` bytes long);
* `fastFind` on a header satisfying `HdrInv` (any file bytes — also other ones than the header was read
  from —, any name, any `self->error`) returns no `Fault` at all (its loops' fuel suffices too), keeps
  `HdrInv` and changes nothing but the chunk cache (`SameDir`): the theorem composes over any sequence of calls;
* `extract` (any files, any instance/header satisfying the invariants, any member triple — listed in the
  directory or not —) has no fault outcome of its own: every `ExtractResult.fault f` it returns is a fault
  that `Lzx.decompress` itself returned, on a decoder state that came from `Lzx.init` through earlier
  `Lzx.decompress` calls.  The LZX decoder is outside this file's scope; its safety enters as the
  parameter `P` (`LzxInv P`: established by `init`, kept by `decompress`, insensitive to the input
  handle) and the hypothesis that under `P` the decoder does not return the fault in question.
  The model has no `shiftWidth` outcome left in `search_chunk` (the density is clamped: D14 repair) and
  no `divZero` one; the theorems for `readHeaders`/`fastFind` exclude every `Fault` anyway.
-/
namespace MsPack.Chm
open MsPack MsPack.Generated

/-! ## `chmd_read_headers` / `chmd_real_open` -/

/-- no input makes `chmd_read_headers` fault (out of bounds or otherwise) -/
theorem C02_readHeaders_no_fault (filename : String) (file : Bytes) (entire : Bool) (f : Fault) :
    readHeaders filename file entire ≠ .error f :=
  (readHeaders_postB filename file entire _ rfl).1 f

theorem C02_readHeaders_no_oob (filename : String) (file : Bytes) (entire : Bool) (s : String) :
    readHeaders filename file entire ≠ .error (.oob s) :=
  C02_readHeaders_no_fault _ _ _ _

/-- the header `chmd_read_headers` hands out satisfies the invariant the other entry points need -/
theorem C02_readHeaders_inv (filename : String) (file : Bytes) (entire : Bool) (p : Parsed)
    (h : readHeaders filename file entire = .ok (.ok p)) : HdrInv p.hdr :=
  (readHeaders_postB filename file entire _ rfl).2 p h

theorem C02_realOpen_no_fault (filename : String) (file : Bytes) (entire : Bool) (f : Fault) :
    realOpen filename file entire ≠ .error f := by
  unfold realOpen
  split
  · rename_i hq; exact absurd hq (C02_readHeaders_no_fault _ _ _ _)
  · simp
  · split
    · simp
    · split <;> simp

theorem C02_realOpen_inv (filename : String) (file : Bytes) (entire : Bool) (e : Err) (hdr : Header)
    (h : realOpen filename file entire = .ok (e, some hdr)) : HdrInv hdr := by
  unfold realOpen at h
  split at h
  · cases h
  · cases h
  · rename_i p hp
    have hi := C02_readHeaders_inv _ _ _ _ hp
    split at h
    · cases h; exact hi
    · split at h
      · cases h; exact hi
      · cases h

/-- non-vacuity: a two-chunk directory is read and listed -/
example : ∃ p, readHeaders "x.chm" (encodeChm exampleSpec) true = .ok (.ok p) ∧ p.err = .ok ∧
    p.hdr.files = [⟨[0x2F, 0x61, 0x2E, 0x68, 0x74, 0x6D], 1, 300, 70000⟩, ⟨[0x2F, 0x62], 0, 5, 1⟩] ∧
    HdrInv p.hdr :=
  ⟨_, C03_headers_roundtrip exampleSpec exampleSpec_wf "x.chm", rfl, by decide,
    C02_readHeaders_inv _ _ _ _ (C03_headers_roundtrip exampleSpec exampleSpec_wf "x.chm")⟩

/-! ## `chmd_fast_find` -/

/-- `chmd_fast_find` on a header satisfying the invariant never faults, whatever the file now contains -/
theorem C02_fastFind_no_fault (file : Option Bytes) (st : FF) (filename : Bytes) (hi : HdrInv st.hdr)
    (f : Fault) : fastFind file st filename ≠ .error f :=
  (fastFind_post file st filename hi).1 f

theorem C02_fastFind_no_oob (file : Option Bytes) (st : FF) (filename : Bytes) (hi : HdrInv st.hdr)
    (s : String) : fastFind file st filename ≠ .error (.oob s) :=
  C02_fastFind_no_fault _ _ _ hi _

/-- … and it keeps the invariant, changing the chunk cache only: the theorem applies to the next call -/
theorem C02_fastFind_inv (file : Option Bytes) (st : FF) (filename : Bytes) (hi : HdrInv st.hdr)
    (o : FindOut) (h : fastFind file st filename = .ok o) : HdrInv o.st.hdr ∧ SameDir st.hdr o.st.hdr :=
  (fastFind_post file st filename hi).2 o h

/-- the pieces used alone: `search_chunk` on any `chunk_size`-byte chunk, `read_encint` with `end` in the chunk -/
theorem C02_searchChunk_no_fault (h : Header) (chunk fname : Bytes) (hl : chunk.length = h.chunkSize)
    (f : Fault) : searchChunk h chunk fname ≠ .error f :=
  (searchChunk_post h chunk fname hl _ rfl).1 f

theorem C02_readEncint_no_fault (bs : Bytes) (p e : Nat) (he : e ≤ bs.length) (f : Fault) :
    readEncint bs p e ≠ .error f :=
  readEncint_ne_error bs p e he f

/-- non-vacuity: a lookup that reads a chunk, searches it and decodes the entry found -/
example : ∃ cc', CacheOk findSpec cc' ∧
    fastFind (some (encodeChm findSpec)) ⟨.ok, findSpec.listed "x.chm"⟩ [0x2F, 0x67, 0x61, 0x6D, 0x6D, 0x61] =
      .ok ⟨.ok, ⟨.ok, withCache findSpec "x.chm" cc'⟩, ⟨some 1, 70300, 9⟩⟩ :=
  C15_fastfind_anycase_ascii findSpec findSpec_wf findSpec_noQuickrefs findSpec_ascii findSpec_ascending "x.chm"
    ⟨[0x2F, 0x47, 0x61, 0x6D, 0x6D, 0x61], 1, 70300, 9⟩ (by rw [findSpec_entries]; simp) _ (by decide) (by decide)
    (by decide) .ok none (cacheOk_none _)

/-- the invariant does hold for that header -/
example : HdrInv (findSpec.listed "x.chm") := ⟨by decide, fun _ h => by cases h⟩

/-! ## `chmd_extract` -/

/-- a fresh decompressor instance satisfies the invariant -/
theorem C02_inst_init (P : Lzx.St Rd → Prop) : InstInv P {} := fun _ h => by cases h

/-- `chmd_close` keeps it -/
theorem C02_close_inv (P : Lzx.St Rd → Prop) (inst : Inst) (key : Nat) (h : InstInv P inst) :
    InstInv P (close inst key) := by
  intro d hd
  unfold close at hd
  simp only at hd
  split at hd
  · split at hd
    · cases hd
    · rename_i d' hid _
      cases hd
      exact h _ hid
  · cases hd

/-- every fault `chmd_extract` reports is one `lzxd_decompress` reported (on a state satisfying `P`):
    the CHM layer's own checked accesses — reset table, `sec->…` pointers, `d->infh` — all succeed -/
theorem C02_extract_faults_from_lzx {P : Lzx.St Rd → Prop} (L : LzxInv P) (files : Files) (fill : UInt8)
    (inst : Inst) (key : Nat) (hdr : Header) (sec : Nat) (offset length : Int)
    (hi : HdrInv hdr) (hinst : InstInv P inst) (f : Fault)
    (h : extract files fill inst key hdr sec offset length = .fault f) : LzxFault P f :=
  ((extract_post L files fill inst key hdr sec offset length hi hinst).1 f h).2

/-- `chmd_extract` keeps the invariants (header and instance), so the theorems apply to the next call -/
theorem C02_extract_inv {P : Lzx.St Rd → Prop} (L : LzxInv P) (files : Files) (fill : UInt8)
    (inst : Inst) (key : Nat) (hdr : Header) (sec : Nat) (offset length : Int)
    (hi : HdrInv hdr) (hinst : InstInv P inst) (ret : Err) (inst' : Inst) (hdr' : Header) (out : Option Bytes)
    (h : extract files fill inst key hdr sec offset length = .done ret inst' hdr' out) :
    HdrInv hdr' ∧ InstInv P inst' :=
  (extract_post L files fill inst key hdr sec offset length hi hinst).2.1 ret inst' hdr' out h

/-- given that the LZX decoder under its invariant `P` never returns the faults `bad`, neither does `chmd_extract` -/
theorem C02_extract_safe {P : Lzx.St Rd → Prop} (L : LzxInv P) (bad : Fault → Prop)
    (hsafe : ∀ fuel st n f, P st → Lzx.decompress rdSrc fuel st n = .error f → ¬ bad f)
    (files : Files) (fill : UInt8) (inst : Inst) (key : Nat) (hdr : Header) (sec : Nat) (offset length : Int)
    (hi : HdrInv hdr) (hinst : InstInv P inst) (f : Fault) (hb : bad f) :
    extract files fill inst key hdr sec offset length ≠ .fault f := by
  intro h
  obtain ⟨fuel, st, n, hP, hd⟩ := C02_extract_faults_from_lzx L files fill inst key hdr sec offset length hi hinst f h
  exact hsafe fuel st n f hP hd hb

theorem C02_extract_no_oob {P : Lzx.St Rd → Prop} (L : LzxInv P)
    (hsafe : ∀ fuel st n s, P st → Lzx.decompress rdSrc fuel st n ≠ .error (.oob s))
    (files : Files) (fill : UInt8) (inst : Inst) (key : Nat) (hdr : Header) (sec : Nat) (offset length : Int)
    (hi : HdrInv hdr) (hinst : InstInv P inst) (s : String) :
    extract files fill inst key hdr sec offset length ≠ .fault (.oob s) :=
  C02_extract_safe L (fun f => ∃ s, f = .oob s)
    (fun fuel st n f hP hd ⟨s, hs⟩ => hsafe fuel st n s hP (hs ▸ hd))
    files fill inst key hdr sec offset length hi hinst _ ⟨s, rfl⟩

theorem C02_extract_no_nullDeref {P : Lzx.St Rd → Prop} (L : LzxInv P)
    (hsafe : ∀ fuel st n s, P st → Lzx.decompress rdSrc fuel st n ≠ .error (.nullDeref s))
    (files : Files) (fill : UInt8) (inst : Inst) (key : Nat) (hdr : Header) (sec : Nat) (offset length : Int)
    (hi : HdrInv hdr) (hinst : InstInv P inst) (s : String) :
    extract files fill inst key hdr sec offset length ≠ .fault (.nullDeref s) :=
  C02_extract_safe L (fun f => ∃ s, f = .nullDeref s)
    (fun fuel st n f hP hd ⟨s, hs⟩ => hsafe fuel st n s hP (hs ▸ hd))
    files fill inst key hdr sec offset length hi hinst _ ⟨s, rfl⟩

/-- the trivial LZX invariant: with it the theorem reads "`chmd_extract` faults only where some
    `lzxd_decompress` call does" -/
theorem lzxInv_true : LzxInv (fun _ => True) := ⟨fun _ _ _ _ _ _ _ _ _ => trivial, fun _ _ _ => trivial, fun _ _ _ _ _ _ => trivial⟩

theorem C02_extract_chm_layer_no_fault (files : Files) (fill : UInt8) (inst : Inst) (key : Nat) (hdr : Header)
    (sec : Nat) (offset length : Int) (hi : HdrInv hdr) (f : Fault)
    (h : extract files fill inst key hdr sec offset length = .fault f) :
    ∃ fuel st n, Lzx.decompress rdSrc fuel st n = .error f := by
  obtain ⟨fuel, st, n, _, hd⟩ := C02_extract_faults_from_lzx lzxInv_true files fill inst key hdr sec offset length hi
    (fun _ _ _ _ => trivial) f h
  exact ⟨fuel, st, n, hd⟩

/-- an uncompressed (section 0) member is extracted without the LZX decoder: no fault, unconditionally -/
theorem C02_extract_sec0_no_fault (files : Files) (fill : UInt8) (inst : Inst) (key : Nat) (hdr : Header)
    (offset length : Int) (hi : HdrInv hdr) (f : Fault) :
    extract files fill inst key hdr 0 offset length ≠ .fault f := by
  intro h
  exact ((extract_post lzxInv_true files fill inst key hdr 0 offset length hi (fun _ _ _ _ => trivial)).1 f h).1 rfl


/-- what a finished `chmd_extract` call returned and wrote -/
def extractOutcome : ExtractResult → Option (Err × Option Bytes)
  | .done ret _ _ out => some (ret, out)
  | _ => none

/-- non-vacuity: a section-0 member of the example file is copied out (seek + copy loop) -/
example : extractOutcome (extract [("x.chm", encodeChm exampleSpec)] 0 {} 7 (exampleSpec.listed "x.chm") 0 2 3)
    = some (.ok, some [3, 4, 5]) := by decide +kernel

/-- … and a section-1 member makes `chmd_init_decomp` look up the system files through `chmd_fast_find`
    (reading and searching both directory chunks); the example file has none, so the call ends with
    MSPACK_ERR_DATAFORMAT and an empty output file — normally, without a fault -/
example : extractOutcome (extract [("x.chm", encodeChm exampleSpec)] 0 {} 7 (exampleSpec.listed "x.chm") 1 300 70000)
    = some (.dataformat, some []) := by decide +kernel

example : HdrInv (exampleSpec.listed "x.chm") := ⟨by decide, fun _ h => by cases h⟩

end MsPack.Chm
