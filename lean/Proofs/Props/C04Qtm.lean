import Proofs.Lemmas.LoopTermQtm
import Proofs.Lemmas.LoopTermZip
/-!
# C04 — the Quantum decoder cannot hang

`qtmd_decompress` (model `Qtm.decompress`) runs five fuel loops; `Proofs/Lemmas/LoopTermQtm.lean` shows that none of
them runs out:

* the renormalisation loop of `GET_SYMBOL` (`renorm`, on the caller's `fuel`) makes at most 16 rounds whatever the
  input is (after 16 shifts `L = 0`, `H = 0xFFFF`): `17 ≤ fuel`;
* the frame-trailer scan (`trailerScan`, on `fuel`) eats 8 bits per round: `stAvail rem st < 8 * fuel`, where
  `stAvail` = buffered bits + 8 × (buffered bytes + bytes left in the source) + 16 for the two zero bytes
  `read_input` makes up once (the second end of input is MSPACK_ERR_READ);
* `ensureBits` / `readManyLoop` / the model loops have fixed bounds; the symbol loop advances `window_posn`;
* the block loop gets `2 * out_bytes + 4` rounds and every round but a first one at the window's end delivers a byte.

What the block loop needs of the state is **more than `StInv`** (`QtmBounds.lean`): `QtmTerm.Sync` — `o_ptr ≤ o_end`,
`o_end = window + window_posn`, `1 ≤ frame_todo ≤ QTM_FRAME_SIZE`.  `qtmd_init` establishes it (`C04_qtm_init_sync`)
and every call that returns keeps it unless it records an error, after which `decompress` returns at once
(`C04_qtm_sync_kept`), so it holds in every state a client can reach.  It is needed: see the `#guard_msgs` block at the
end (a `StInv` state with `o_ptr > o_end` does run out of the block loop's rounds).

And the request must satisfy `out_bytes + 2^21 < 2^32`.  This premise is about the C as much as about the model:
`frame_end` is an `unsigned int`, `frame_end = window_posn + (out_bytes - (o_end - o_ptr))` is truncated to 32 bits,
so for `out_bytes = 2^32` (a legal `off_t` on LP64) `frame_end = window_posn`, the symbol loop is not entered, nothing
changes and `while ((o_end - o_ptr) < out_bytes)` spins for ever (`C04_qtm_stuck_4G` below: the model returns `hang`
for every fuel).  cabd.c, the only caller, never asks for more than `CAB_LENGTHMAX` < 2^31 bytes.
-/
namespace MsPack
open MsPack MsPack.Generated

/-- **C04 (Quantum), no hang.**  Over any finite source, from any state in `StInv` and (unless a previous call failed)
    `Sync`, for every request below `2^32 - 2^21` bytes: `hang` is unreachable once `fuel ≥ 17` and `8 * fuel` exceeds
    the bits still obtainable. -/
theorem C04_qtm_no_hang {σ : Type} (S : Src σ) (rem : σ → Nat) (hS : S.Finite rem) (fuel : Nat) (st : Qtm.St σ) (n : Nat)
    (hI : Qtm.StInv st) (hs : st.error = .ok → QtmTerm.Sync st) (hn : n + 2097152 < 4294967296) (hf : 17 ≤ fuel)
    (ha : st.bitsLeft + 8 * st.inbuf.length + 8 * rem st.src + (if st.inputEnd then 0 else 16) < 8 * fuel) :
    Qtm.decompress S fuel st n ≠ .error .hang := by
  have h := QtmTerm.decompress_T hS fuel st n hI hs hn hf ha
  intro he
  rw [he] at h
  exact h rfl

/-- the same with one explicit bound: bytes left + buffered bytes + 23 -/
theorem C04_qtm_no_hang' {σ : Type} (S : Src σ) (rem : σ → Nat) (hS : S.Finite rem) (fuel : Nat) (st : Qtm.St σ) (n : Nat)
    (hI : Qtm.StInv st) (hs : st.error = .ok → QtmTerm.Sync st) (hn : n + 2097152 < 4294967296)
    (hf : rem st.src + st.inbuf.length + 23 ≤ fuel) : Qtm.decompress S fuel st n ≠ .error .hang := by
  apply C04_qtm_no_hang S rem hS fuel st n hI hs hn (by omega)
  have := hI.1.bl
  split <;> omega

/-- `qtmd_init` establishes `Sync` (and `StInv`: `Qtm.init_StInv`) -/
theorem C04_qtm_init_sync {σ : Type} (src : σ) (wb ibs : Nat) (fill : UInt8) (st : Qtm.St σ)
    (h : Qtm.init src wb ibs fill = some st) : QtmTerm.Sync st ∧ st.error = .ok := by
  unfold Qtm.init at h
  by_cases hwb : wb < 10 ∨ wb > 21
  · simp [hwb] at h
  · by_cases hsz : (ibs + 1) / 2 * 2 < 2
    · simp [hwb, hsz] at h
    · simp only [hwb, hsz, if_false] at h
      cases h
      exact ⟨⟨Nat.le_refl _, rfl, by show 1 ≤ qtmFRAME_SIZE; decide, by show qtmFRAME_SIZE ≤ 32768; decide⟩, rfl⟩

/-- every call that returns leaves a state in `Sync`, unless it (or an earlier call) recorded an error — and then the
    next call returns that error at once.  With `Qtm.decompress_spec` (`StInv` is kept): the premises of
    `C04_qtm_no_hang` hold for every call of a session that starts with `qtmd_init`. -/
theorem C04_qtm_sync_kept {σ : Type} (S : Src σ) (rem : σ → Nat) (hS : S.Finite rem) (fuel : Nat) (st : Qtm.St σ) (n : Nat)
    (hI : Qtm.StInv st) (hs : st.error = .ok → QtmTerm.Sync st) (hn : n + 2097152 < 4294967296) (hf : 17 ≤ fuel)
    (ha : st.bitsLeft + 8 * st.inbuf.length + 8 * rem st.src + (if st.inputEnd then 0 else 16) < 8 * fuel)
    (o : DecodeOut (Qtm.St σ)) (ho : Qtm.decompress S fuel st n = .ok o) :
    Qtm.StInv o.st ∧ (o.st.error = .ok → QtmTerm.Sync o.st) := by
  have h := QtmTerm.decompress_T hS fuel st n hI hs hn hf ha
  have h2 := Qtm.decompress_spec S fuel st n hI
  rw [ho] at h h2
  exact ⟨h2, h⟩

/-- **C04 (CAB Quantum), no hang**: a Quantum folder as `Cab.decompress` runs it — over the cabinet-set feeder, with
    the fuel `chainFuel files fd` — whenever `8 × chainFuel` is above the bits still obtainable (`feederLeft` counts a
    file once per part of the set that names it; cf. `C04_cab_mszip_no_hang`) -/
theorem C04_cab_qtm_no_hang (files : Cab.Files) (st : Qtm.St Cab.Feeder) (fd : Cab.Feeder) (bytes : Nat)
    (hI : Qtm.StInv st) (hs : st.error = .ok → QtmTerm.Sync st) (hn : bytes + 2097152 < 4294967296)
    (hf : st.bitsLeft + 8 * st.inbuf.length + 8 * Cab.feederLeft files fd + (if st.inputEnd then 0 else 16)
            < 8 * Cab.chainFuel files fd) :
    Cab.decompress files (.qtm st) fd bytes ≠ .error .hang := by
  have hfin : (Cab.feederSrc files).Finite (Cab.feederLeft files) :=
    ⟨(Cab.feederSrc_ok files).shrink, (Cab.feederSrc_ok files).nohang⟩
  have hI' : Qtm.StInv { st with src := fd } := ⟨hI.1, hI.2⟩
  have hs' : ({ st with src := fd } : Qtm.St Cab.Feeder).error = .ok → QtmTerm.Sync { st with src := fd } :=
    fun he => let s := hs he; ⟨s.1, s.2, s.3, s.4⟩
  have h17 : 17 ≤ Cab.chainFuel files fd := by unfold Cab.chainFuel Cab.decFuel; omega
  have h := C04_qtm_no_hang (Cab.feederSrc files) (Cab.feederLeft files) hfin (Cab.chainFuel files fd)
    { st with src := fd } bytes hI' hs' hn h17 hf
  unfold Cab.decompress
  dsimp only []
  split
  · next f heq => intro he; cases he; exact h heq
  · simp

/-! ## the premises are needed, and can be met -/

/-- a request of 2^32 bytes on a stream that stands inside a frame with nothing stored up never returns: the model
    reports `hang` for **every** fuel, and qtmd.c spins (`frame_end` truncated to `unsigned int`) -/
theorem C04_qtm_stuck_4G {σ : Type} (S : Src σ) (fuel : Nat) (st : Qtm.St σ) (he : st.error = .ok)
    (h1 : st.headerRead = true) (h2 : st.oPtr = st.windowPosn) (h3 : st.oEnd = st.windowPosn)
    (h5 : 1 ≤ st.frameTodo) (h6 : st.frameTodo ≤ 32768) (h7 : st.windowPosn < st.windowSize)
    (h8 : st.windowSize ≤ 2097152) : Qtm.decompress S fuel st 4294967296 = .error .hang :=
  QtmTerm.decompress_stuck S fuel st he h1 h2 h3 h5 h6 h7 h8

theorem C04_qtm_init_fields {σ : Type} (src : σ) (wb ibs : Nat) (fill : UInt8) (st : Qtm.St σ)
    (h : Qtm.init src wb ibs fill = some st) :
    st.src = src ∧ st.inbuf = [] ∧ st.bitsLeft = 0 ∧ st.inputEnd = false := by
  unfold Qtm.init at h
  by_cases hwb : wb < 10 ∨ wb > 21
  · simp [hwb] at h
  · by_cases hsz : (ibs + 1) / 2 * 2 < 2
    · simp [hwb, hsz] at h
    · simp only [hwb, hsz, if_false] at h
      cases h
      exact ⟨rfl, rfl, rfl, rfl⟩

/-- non-vacuity: a fresh decoder on any file meets every premise with `file length + 23` rounds of fuel -/
example (file : Bytes) (wb ibs : Nat) (fill : UInt8) (st : Qtm.St Rd) (h : Qtm.init ⟨file, 0⟩ wb ibs fill = some st)
    (n : Nat) (hn : n + 2097152 < 4294967296) : Qtm.decompress Rd.src (file.length + 23) st n ≠ .error .hang := by
  obtain ⟨e1, e2, _, _⟩ := C04_qtm_init_fields _ _ _ _ _ h
  apply C04_qtm_no_hang' Rd.src Rd.left Rd.src_finite _ st n (Qtm.init_StInv _ _ _ _ _ h)
    (fun _ => (C04_qtm_init_sync _ _ _ _ _ h).1) hn
  rw [e1, e2]
  simp [Rd.left]

/-- non-vacuity (CAB): a fresh decoder state on a feeder with nothing left meets the fuel hypothesis -/
example (files : Cab.Files) (wb ibs : Nat) (fill : UInt8) (st : Qtm.St Cab.Feeder)
    (h : Qtm.init Cab.nullFeeder wb ibs fill = some st) :
    st.bitsLeft + 8 * st.inbuf.length + 8 * Cab.feederLeft files Cab.nullFeeder + (if st.inputEnd then 0 else 16)
      < 8 * Cab.chainFuel files Cab.nullFeeder := by
  obtain ⟨_, e2, e3, e4⟩ := C04_qtm_init_fields _ _ _ _ _ h
  rw [e2, e3, e4]
  simp [Cab.feederLeft, Cab.chainLeft, Cab.rdLeft, Cab.restLeft, Cab.nullFeeder, Cab.decFuel, Cab.chainFuel]
  omega

/-- `StInv` alone is not enough: it says nothing about `o_ptr`, and a state with `o_ptr` beyond `o_end` (in C: a
    negative pointer difference; unreachable from `qtmd_init`) makes every round of the block loop decode a byte
    without ever satisfying `o_end - o_ptr ≥ out_bytes`: a request of 1 byte runs out of its 6 rounds -/
def C04_qtm_demo (oPtr : Nat) : String :=
  let file : Bytes := (List.range 600).map fun i => UInt8.ofNat ((i * 37 + 11) % 256)
  match Qtm.init (⟨file, 0⟩ : Rd) 10 4096 0 with
  | none => "init failed"
  | some st =>
    match Qtm.decompress Rd.src 1000000 { st with oPtr := oPtr } 1 with
    | .error .hang => "FAULT hang"
    | .error _ => "FAULT other"
    | .ok o => s!"status {o.err.code}, {o.written.length} byte(s)"

/-- info: "status 0, 1 byte(s)" -/
#guard_msgs in #eval C04_qtm_demo 0
/-- info: "FAULT hang" -/
#guard_msgs in #eval C04_qtm_demo 5000

example (st : Qtm.St Rd) (h : Qtm.StInv st) (p : Nat) : Qtm.StInv { st with oPtr := p } := ⟨h.1, h.2⟩

end MsPack
