import Proofs.Lemmas.FeederThreadQtm
import Proofs.Props.C02CabLift2
/-!
# C02 — Quantum folders of a cabinet: no fault of any kind but the loop bound

The Quantum counterpart of `C02CabLift2.lean`: the reachable-state invariant

  `StInv st ∧ (st.error = .ok → FeederLive st.src)`

is threaded through every helper of the Quantum model (`Proofs/Lemmas/FeederThreadQtm.lean`), so
one `Qtm.decompress` over the CAB feeder from a state satisfying it raises no fault but `hang`
and returns a state satisfying it again (`C02_cab_qtm_no_fault`); hence every sequence of
`decompress` calls of `cabd_extract` on the decoder it sets up for a folder
(`C02_cab_qtm_calls_no_fault`, `C02_cab_qtm_fresh_no_fault`).
-/
namespace MsPack.CabLift
open MsPack MsPack.Generated MsPack.Cab

/-- the invariant of a Quantum decoder state under the CAB feeder, between calls -/
def QtmLive (st : Qtm.St Feeder) : Prop := Qtm.StInv st ∧ (st.error = .ok → FeederLive st.src)

/-- **Quantum in a cabinet, all fault kinds, unconditional on the source** -/
theorem C02_cab_qtm_no_fault (files : Files) (fuel : Nat) (st : Qtm.St Feeder) (n : Nat) (h : QtmLive st) :
    (∀ f, Qtm.decompress (feederSrc files) fuel st n = .error f → f = .hang) ∧
    (∀ o, Qtm.decompress (feederSrc files) fuel st n = .ok o → QtmLive o.st) := by
  have ht := QtmThread.decompress_thr files fuel st n h.2
  refine ⟨fun f hf => ?_, fun o ho => ?_⟩
  · rw [hf] at ht
    rcases (C02_cab_qtm_no_fault_partial
      files fuel st n h.1 f hf) with h1 | h1 | h1
    · exact h1
    · exact absurd h1 (ht _)
    · exact absurd h1 (ht _)
  · rw [ho] at ht
    exact ⟨Qtm.C02_qtm_preserved (feederSrc files) fuel st n h.1 o ho, ht⟩

/-- in particular none of the undefined-behaviour outcomes -/
theorem C02_cab_qtm_no_ub_all (files : Files) (fuel : Nat) (st : Qtm.St Feeder) (n : Nat) (h : QtmLive st) :
    (∀ w, Qtm.decompress (feederSrc files) fuel st n ≠ .error (.oob w)) ∧
    (∀ w, Qtm.decompress (feederSrc files) fuel st n ≠ .error (.uninit w)) ∧
    (∀ w, Qtm.decompress (feederSrc files) fuel st n ≠ .error (.nullDeref w)) ∧
    Qtm.decompress (feederSrc files) fuel st n ≠ .error .divZero ∧
    Qtm.decompress (feederSrc files) fuel st n ≠ .error .shiftWidth := by
  have := (C02_cab_qtm_no_fault files fuel st n h).1
  refine ⟨fun w hf => ?_, fun w hf => ?_, fun w hf => ?_, fun hf => ?_, fun hf => ?_⟩ <;> cases this _ hf

/-- the decoder/feeder pair `cabd_extract` keeps for a Quantum folder, between calls -/
def QtmPair : Dec → Feeder → Prop
  | .qtm st, fd => Qtm.StInv st ∧ (st.error = .ok → FeederLive fd)
  | _, _ => False

/-- one `decompress` of `cabd_extract` on a Quantum folder -/
theorem C02_cab_qtm_decompress_no_fault (files : Files) (st : Qtm.St Feeder) (fd : Feeder) (n : Nat)
    (h : QtmPair (.qtm st) fd) :
    (∀ f, Cab.decompress files (.qtm st) fd n = .error f → f = .hang) ∧
    (∀ o, Cab.decompress files (.qtm st) fd n = .ok (some o) → QtmPair o.dec o.feeder) ∧
    Cab.decompress files (.qtm st) fd n ≠ .ok none := by
  have hl : QtmLive ({ st with src := fd } : Qtm.St Feeder) := ⟨Qtm.StInv_src st fd h.1, h.2⟩
  have hz := C02_cab_qtm_no_fault files (chainFuel files fd) { st with src := fd } n hl
  unfold Cab.decompress
  simp only
  split
  · rename_i f hf
    refine ⟨fun f' h' => ?_, fun o h' => ?_, fun h' => ?_⟩
    · cases h'; exact hz.1 _ hf
    · cases h'
    · cases h'
  · rename_i o ho
    refine ⟨fun f' h' => ?_, fun o' h' => ?_, fun h' => ?_⟩
    · cases h'
    · cases h'
      exact hz.2 _ ho
    · cases h'

/-- **any number of calls** -/
theorem C02_cab_qtm_calls_no_fault (files : Files) : ∀ (ns : List Nat) (dec : Dec) (fd : Feeder) (f : Fault),
    QtmPair dec fd → cabCalls files dec fd ns = .error f → f = .hang
  | [], _, _, _, _, h => by simp only [cabCalls] at h; contradiction
  | n :: ns, dec, fd, f, hinv, h => by
    cases dec with
    | qtm st =>
      rw [cabCalls] at h
      have hd := C02_cab_qtm_decompress_no_fault files st fd n hinv
      cases hc : Cab.decompress files (.qtm st) fd n with
      | error f' =>
        rw [hc] at h
        simp only [Except.error.injEq] at h
        subst h
        exact hd.1 _ hc
      | ok r =>
        rw [hc] at h
        cases r with
        | none => simp only at h; contradiction
        | some o =>
          simp only at h
          exact C02_cab_qtm_calls_no_fault files ns o.dec o.feeder f (hd.2.1 o hc) h
    | none bs e => exact hinv.elim
    | mszip st => exact hinv.elim
    | lzx st => exact hinv.elim
    | unsupported m => exact hinv.elim

/-- the decoder `cabd_extract` sets up for a Quantum folder satisfies the invariant -/
theorem C02_cab_qtm_fresh (files : Files) (p : Params) (m : Member) (key : Nat) (ds : DState)
    (st : Qtm.St Feeder) (h : freshDState files p m key = .ok ds) (hd : ds.dec = some (.qtm st)) :
    QtmPair (.qtm st) ds.feeder := by
  have hl := (C02_cab_fresh_feeder files p m key ds h).1
  refine ⟨?_, fun _ => hl⟩
  unfold freshDState at h
  split at h
  · contradiction
  · split at h
    · contradiction
    · split at h
      · contradiction
      · rename_i dec hi
        simp only [Except.ok.injEq] at h
        subst h
        simp only [Option.some.injEq] at hd
        subst hd
        unfold initDec at hi
        split at hi
        · cases hi
        · cases hz : Zip.init nullFeeder p.bufSize p.fixMszip p.fill with
          | none => rw [hz] at hi; cases hi
          | some z => rw [hz] at hi; cases hi
        · split at hi
          · cases hq : Qtm.init nullFeeder ((m.compType >>> 8) &&& 0x1f) p.bufSize p.fill with
            | none => rw [hq] at hi; cases hi
            | some z =>
              rw [hq] at hi
              simp only [Option.map, Option.some.injEq, Dec.qtm.injEq] at hi
              subst hi
              exact Qtm.C02_qtm_init nullFeeder _ p.bufSize p.fill z hq
          · cases hi
        · split at hi
          · cases hq : Lzx.init nullFeeder ((m.compType >>> 8) &&& 0x1f) 0 p.bufSize 0 false p.fill with
            | none => rw [hq] at hi; cases hi
            | some z => rw [hq] at hi; cases hi
          · cases hi
        · cases hi

/-- **from the folder's fresh decoder, any sequence of calls**: no fault but the bound -/
theorem C02_cab_qtm_fresh_no_fault (files : Files) (p : Params) (m : Member) (key : Nat) (ds : DState)
    (st : Qtm.St Feeder) (h : freshDState files p m key = .ok ds) (hd : ds.dec = some (.qtm st))
    (ns : List Nat) (f : Fault) (hf : cabCalls files (.qtm st) ds.feeder ns = .error f) : f = .hang :=
  C02_cab_qtm_calls_no_fault files ns _ _ f (C02_cab_qtm_fresh files p m key ds st h hd) hf

/-! ## non-vacuity -/

/-- a Quantum folder: one block with the 24 input bytes of `C02Qtm.exampleInput`, 24 bytes out -/
def qtmCab : Bytes := [0, 0, 0, 0, 24, 0, 24, 0] ++ Qtm.exampleInput
def qtmFiles : Files := [("q.cab", qtmCab)]
def qtmMember : Member :=
  { length := 24, offset := 0, folderKey := some 0, mergePrev := false, numBlocks := 1,
    compType := 2 + 10 * 256, parts := [⟨"q.cab", 0, 0⟩] }

/-- fresh decoder (window 2^10), two calls (10 + 14 bytes): both return OK; the 24 bytes of `C02Qtm`'s example come out -/
example : (match freshDState qtmFiles {} qtmMember 0 with
    | .ok ds =>
      (match ds.dec with
       | some (.qtm st) =>
         (match Cab.decompress qtmFiles (.qtm st) ds.feeder 10 with
          | .ok (some o1) =>
            (match Cab.decompress qtmFiles o1.dec o1.feeder 14 with
             | .ok (some o2) => o1.err == .ok && o2.err == .ok && o1.written ++ o2.written ==
                 [50, 15, 13, 22, 0, 0, 0, 15, 13, 15, 7, 62, 7, 62, 7, 44, 58, 3, 52, 3, 52, 3, 56, 61]
             | _ => false)
          | _ => false)
       | _ => false)
    | .error _ => false) = true := by decide +kernel

end MsPack.CabLift
