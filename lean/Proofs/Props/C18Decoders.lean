import Proofs.Lemmas.RelaxSim
import Proofs.Props.C18
/-!
# C18 — salvage / repair modes through the feeder and the MSZIP decoder

`C18.lean` has the headers and the block reader, `C18Stored.lean` stored folders through `extract`.  Here
(`Proofs/Lemmas/RelaxSim.lean`): the stream feeder, and the MSZIP decoder as a whole.

* `C18_feeder_read_relaxed`: a `cabd_sys_read` that delivers bytes from a strict-mode feeder delivers the same
  bytes from a feeder that differs only in the SALVAGE / FIXMSZIP flags (and in the `read_error` bookkeeping,
  which salvage mode skips at the end of a folder), and the feeders stay related (`FR`).
* `C18_mszip_decompress_relaxed`: an `mszipd_decompress` call that returns MSPACK_ERR_OK in strict mode
  (feeder strict, `repair_mode` off) returns MSPACK_ERR_OK with the same bytes from a state that differs only in
  those flags, and the states stay related (`ZR`) — so this holds along any sequence of OK calls.  The flags are
  consulted only after a checksum / block-size failure, at the end of the folder, or after an inflate error; the
  strict run answers each of these with a non-OK status (`Throws HaltOk`, `runInflate_sys`, and `repair_mode`
  stays off: `inflate_norep`), so on an OK strict run they are never consulted.  Proved by a relational walk
  (`Rel2 ZR m m`) over every helper of the decoder.

Not yet lifted: `cabd_extract` itself (parameter checks, decoder cache, two phases, `READ → read_error`) for
MSZIP folders, and
the LZX / Quantum walks (their decoders never look at the flags; only `readInput` meets the feeder, so the same
`Rel2` walk with `readInput_rel` as the only hand proof applies).
-/
namespace MsPack.Cab
open MsPack MsPack.CountLaws.Relax

/-- the feeder under relaxed flags: same bytes, related feeders -/
theorem C18_feeder_read_relaxed (files : Files) (fd1 fd2 : Feeder) (n : Nat) (g : Bytes) (fd1' : Feeder)
    (hr : FR fd1 fd2) (h : (feederSrc files).read fd1 n = .ok (some g, fd1')) :
    ∃ fd2', (feederSrc files).read fd2 n = .ok (some g, fd2') ∧ FR fd1' fd2' :=
  feederSrc_rel files fd1 fd2 n g fd1' hr h

/-- `FR` is what setting SALVAGE and/or FIXMSZIP does to a strict feeder -/
theorem C18_feeder_flags (fd : Feeder) (hs : fd.salvage = false) (hf : fd.fixMszip = false) (s f : Bool) (e : Err) :
    FR fd { fd with salvage := s, fixMszip := f, readError := e } :=
  ⟨rfl, rfl, rfl, rfl, rfl, rfl, rfl, rfl, hs, hf⟩

end MsPack.Cab

namespace MsPack.Zip
open MsPack MsPack.Cab MsPack.CountLaws.Relax

/-- **C18, MSZIP**: an OK `mszipd_decompress` call in strict mode is repeated verbatim under SALVAGE and/or
    FIXMSZIP (`repair_mode`), and the two decoder states stay related -/
theorem C18_mszip_decompress_relaxed (files : Files) (fuel : Nat) (s1 s2 : St Feeder) (n : Nat) (o1 : Out Feeder)
    (hr : ZR s1 s2) (h : decompress (feederSrc files) fuel s1 n = .ok o1) (he : o1.err = .ok) :
    ∃ o2, decompress (feederSrc files) fuel s2 n = .ok o2 ∧ o2.err = .ok ∧ o2.written = o1.written ∧
      ZR o1.st o2.st :=
  zip_relax files fuel s1 s2 n o1 hr h he

/-- `ZR` is what the relaxed parameters do to a strict MSZIP state over a strict feeder -/
theorem C18_mszip_flags (st : St Feeder) (hrep : st.repair = false) (hs : st.src.salvage = false)
    (hf : st.src.fixMszip = false) (s f r : Bool) :
    ZR st { st with src := { st.src with salvage := s, fixMszip := f }, repair := r } :=
  ⟨⟨rfl, rfl, rfl, rfl, rfl, rfl, rfl, rfl, hs, hf⟩, rfl, rfl, rfl, rfl, rfl, rfl, rfl, rfl, rfl, rfl, rfl, hrep⟩

end MsPack.Zip
