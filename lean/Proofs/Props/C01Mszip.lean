import Proofs.Lemmas.DeflateRound
/-!
# C01 — MSZIP: a frame written by the specification writer is inflated to exactly its data

`MsPack/Spec/Deflate.lean` is the specification of the MSZIP frame format as far as these theorems
go: `encFrame blocks` = 'C', 'K', then the deflate blocks, each either *stored* (BFINAL, BTYPE 00,
padding to the byte boundary, LEN, NLEN, the bytes) or *fixed Huffman* (BTYPE 01, literal/length and
distance symbols in the RFC 1951 fixed codes with their extra bits, end-of-block); stored and
fixed blocks may be mixed in one frame, the last block carries BFINAL.  `blocksData` is what the
blocks mean (`expand` = the LZ77 reference semantics of the tokens).

The theorems are about `Zip.decompress` (the model of `mszipd_decompress`) on a freshly initialised
stream, for every input buffer size `mszipd_init` accepts, every source that hands out the file in
pieces of any size (`Feeds`; `Rd.src`, the plain file handle, is one, `chunkSrc` with an arbitrary
list of piece sizes another), whatever follows the frame in the file:

* `C01_mszip_stored_roundtrip`: `data` (1..32768 bytes) cut into any number of stored blocks
  (each ≤ 65535 bytes, empty ones allowed): the call asking for `data.length` bytes returns OK and
  has written exactly `data`.
* `C01_mszip_fixed_literals_roundtrip`: `data` as one fixed-Huffman block of literals.
* `C01_mszip_fixed_roundtrip`: one fixed-Huffman block of literals and matches (lengths 3..258,
  distances 1..32768 reaching back no further than the start of the frame, overlapping copies
  included): exactly `expand toks []` is written.
* `C01_mszip_blocks_roundtrip` (`…_src` for any `Feeds` source, `…_chunked`): any non-empty list of
  stored and fixed blocks in one frame, stored blocks starting at any bit position.

Not covered: dynamic-Huffman blocks (BTYPE 10), matches that reach into the previous frame's
window, several frames in one call, the KWAJ entry point, repair mode (never entered here).
-/
namespace MsPack.Zip
open MsPack MsPack.Generated

/-! ## sources -/

/-- the plain file handle delivers the file -/
theorem Rd.src_feeds : Feeds Rd.src (fun r => r.file.drop r.pos) := by
  constructor
  intro s n hn
  refine ⟨(s.file.drop s.pos).take n, { s with pos := s.pos + ((s.file.drop s.pos).take n).length }, rfl, ?_, ?_⟩
  · show List.take n (List.drop s.pos s.file) ++ List.drop (s.pos + _) s.file = _
    rw [← List.drop_drop, List.length_take]
    by_cases h : n ≤ (List.drop s.pos s.file).length
    · rw [Nat.min_eq_left h, List.take_append_drop]
    · rw [Nat.min_eq_right (by omega), List.drop_length, List.append_nil, List.take_of_length_le (by omega)]
  · intro h
    cases hd : List.drop s.pos s.file with
    | nil => rfl
    | cons x xs =>
      obtain ⟨m, rfl⟩ : ∃ m, n = m + 1 := ⟨n - 1, by omega⟩
      rw [hd] at h; simp at h

/-- a source that hands out the rest of its data in pieces of prescribed sizes (at least one byte
    each, whatever was asked for; once the sizes are used up, everything that is left) -/
def chunkSrc : Src (List Nat × Bytes) where
  read s _ :=
    let k := match s.1 with | [] => s.2.length | k :: _ => k + 1
    .ok (some (s.2.take k), (s.1.tail, s.2.drop k))

theorem chunkSrc_feeds : Feeds chunkSrc (fun s => s.2) := by
  constructor
  intro s n _
  refine ⟨_, _, rfl, List.take_append_drop .., ?_⟩
  intro h
  cases hs : s.1 with
  | nil => rw [hs] at h; simpa using h
  | cons k ks =>
    rw [hs] at h
    cases hd : s.2 with
    | nil => rfl
    | cons x xs => rw [hd] at h; simp at h

/-! ## initial state -/

theorem init_fresh {σ : Type} (src : σ) (n : Nat) (repair : Bool) (fill : UInt8) (st : St σ)
    (h : init src n repair fill = some st) :
    st.src = src ∧ st.error = .ok ∧ st.pending = [] ∧ st.bits = [] ∧ st.inbuf = [] ∧ st.inputEnd = false ∧
    1 ≤ st.inbufSize ∧ st.window.size = zipFRAME_SIZE := by
  unfold init at h
  dsimp only at h
  split at h
  · cases h
  · rename_i hsz
    simp only [Option.some.injEq] at h
    subst h
    exact ⟨rfl, rfl, rfl, rfl, rfl, rfl, by show 1 ≤ (n + 1) / 2 * 2; omega, Array.size_replicate ..⟩

/-! ## stored blocks -/

theorem stored_blocksData : ∀ (chunks : List Bytes) (out : Bytes),
    Deflate.blocksData (chunks.map Deflate.Block.stored) out = out ++ chunks.flatten
  | [], out => by simp [Deflate.blocksData]
  | c :: cs, out => by
    rw [List.map_cons, Deflate.blocksData, List.foldl_cons]
    exact (stored_blocksData cs (out ++ c)).trans (by simp)

theorem stored_blocksWF : ∀ (chunks : List Bytes) (out : Bytes), (∀ c ∈ chunks, c.length ≤ 65535) →
    Deflate.BlocksWF out (chunks.map Deflate.Block.stored)
  | [], _, _ => trivial
  | c :: cs, _, h => ⟨h c (List.mem_cons_self ..), stored_blocksWF cs _ (fun c' hc' => h c' (List.mem_cons_of_mem _ hc'))⟩

/-- **stored blocks, any source.**  `data` cut into stored blocks `chunks`, the frame anywhere a
    `Feeds` source delivers it (followed by anything): one `decompress` call for `data.length`
    bytes returns OK and has written `data`. -/
theorem C01_mszip_stored_roundtrip_src {σ : Type} (S : Src σ) (content : σ → Bytes) (hF : Feeds S content)
    (chunks : List Bytes) (data extra : Bytes) (hdata : chunks.flatten = data)
    (hchunk : ∀ c ∈ chunks, c.length ≤ 65535) (h1 : 1 ≤ data.length) (h2 : data.length ≤ 32768)
    (src : σ) (hsrc : content src = Deflate.encFrame (chunks.map .stored) ++ extra)
    (inputBufferSize : Nat) (repair : Bool) (fill : UInt8) (st : St σ)
    (hinit : init src inputBufferSize repair fill = some st)
    (fuel : Nat) (hfuel : chunks.length + 2 ≤ fuel) :
    ∃ st', decompress S fuel st data.length = .ok ⟨.ok, data, st'⟩ := by
  obtain ⟨i1, i2, i3, i4, i5, i6, i7, i8⟩ := init_fresh src inputBufferSize repair fill st hinit
  obtain ⟨f, rfl⟩ : ∃ f, fuel = f + 2 := ⟨fuel - 2, by omega⟩
  have hd : Deflate.blocksData (chunks.map Deflate.Block.stored) [] = data := by
    rw [stored_blocksData, List.nil_append, hdata]
  have hne : chunks.map Deflate.Block.stored ≠ [] := by
    intro h
    rw [List.map_eq_nil_iff] at h
    rw [h] at hdata
    rw [← hdata] at h1
    simp at h1
  have := decompress_frame hF (chunks.map .stored) extra f st hne ?_ ?_ (stored_blocksWF chunks [] hchunk)
    (by rw [hd]; exact h2) (by rw [hd]; exact h1) i2 i3 i4 i5 i6 i7 i8 (by rw [i1]; exact hsrc)
  · rw [hd] at this; exact this
  · intro b hb
    obtain ⟨c, _, rfl⟩ := List.mem_map.mp hb
    rw [List.length_map]
    show chunks.length + 0 ≤ f + 2
    omega
  · intro toks ht
    obtain ⟨c, _, hc⟩ := List.mem_map.mp ht
    cases hc

/-- **C01, MSZIP, stored blocks** on the file handle: wherever the frame sits in the file -/
theorem C01_mszip_stored_roundtrip (chunks : List Bytes) (data extra : Bytes) (hdata : chunks.flatten = data)
    (hchunk : ∀ c ∈ chunks, c.length ≤ 65535) (h1 : 1 ≤ data.length) (h2 : data.length ≤ 32768)
    (file : Bytes) (pos : Nat) (hfile : file.drop pos = Deflate.encFrame (chunks.map .stored) ++ extra)
    (inputBufferSize : Nat) (repair : Bool) (fill : UInt8) (st : St Rd)
    (hinit : init (⟨file, pos⟩ : Rd) inputBufferSize repair fill = some st)
    (fuel : Nat) (hfuel : chunks.length + 2 ≤ fuel) :
    ∃ st', decompress Rd.src fuel st data.length = .ok ⟨.ok, data, st'⟩ :=
  C01_mszip_stored_roundtrip_src Rd.src _ Rd.src_feeds chunks data extra hdata hchunk h1 h2 ⟨file, pos⟩ hfile
    inputBufferSize repair fill st hinit fuel hfuel

/-- the same on a source that delivers the file in pieces of arbitrary prescribed sizes -/
theorem C01_mszip_stored_roundtrip_chunked (chunks : List Bytes) (data extra : Bytes) (hdata : chunks.flatten = data)
    (hchunk : ∀ c ∈ chunks, c.length ≤ 65535) (h1 : 1 ≤ data.length) (h2 : data.length ≤ 32768)
    (sizes : List Nat)
    (inputBufferSize : Nat) (repair : Bool) (fill : UInt8) (st : St (List Nat × Bytes))
    (hinit : init (sizes, Deflate.encFrame (chunks.map .stored) ++ extra) inputBufferSize repair fill = some st)
    (fuel : Nat) (hfuel : chunks.length + 2 ≤ fuel) :
    ∃ st', decompress chunkSrc fuel st data.length = .ok ⟨.ok, data, st'⟩ :=
  C01_mszip_stored_roundtrip_src chunkSrc _ chunkSrc_feeds chunks data extra hdata hchunk h1 h2 _ rfl
    inputBufferSize repair fill st hinit fuel hfuel

/-! ## any mix of stored and fixed-Huffman blocks -/

/-- **any blocks, any source** -/
theorem C01_mszip_blocks_roundtrip_src {σ : Type} (S : Src σ) (content : σ → Bytes) (hF : Feeds S content)
    (blocks : List Deflate.Block) (extra : Bytes) (hne : blocks ≠ []) (hwf : Deflate.BlocksWF [] blocks)
    (h1 : 1 ≤ (Deflate.blocksData blocks []).length) (h2 : (Deflate.blocksData blocks []).length ≤ 32768)
    (src : σ) (hsrc : content src = Deflate.encFrame blocks ++ extra)
    (inputBufferSize : Nat) (repair : Bool) (fill : UInt8) (st : St σ)
    (hinit : init src inputBufferSize repair fill = some st)
    (fuel : Nat) (hfuel2 : 2 ≤ fuel) (hfuel : ∀ b ∈ blocks, blocks.length + blockCost b ≤ fuel) :
    ∃ st', decompress S fuel st (Deflate.blocksData blocks []).length =
      .ok ⟨.ok, Deflate.blocksData blocks [], st'⟩ := by
  obtain ⟨i1, i2, i3, i4, i5, i6, i7, i8⟩ := init_fresh src inputBufferSize repair fill st hinit
  exact decompress_blocks hF blocks extra fuel st hne hfuel2 hfuel hwf h2 h1 i2 i3 i4 i5 i6 i7 i8
    (by rw [i1]; exact hsrc)

/-- **C01, MSZIP, stored and fixed-Huffman blocks** on the file handle -/
theorem C01_mszip_blocks_roundtrip (blocks : List Deflate.Block) (extra : Bytes) (hne : blocks ≠ [])
    (hwf : Deflate.BlocksWF [] blocks)
    (h1 : 1 ≤ (Deflate.blocksData blocks []).length) (h2 : (Deflate.blocksData blocks []).length ≤ 32768)
    (file : Bytes) (pos : Nat) (hfile : file.drop pos = Deflate.encFrame blocks ++ extra)
    (inputBufferSize : Nat) (repair : Bool) (fill : UInt8) (st : St Rd)
    (hinit : init (⟨file, pos⟩ : Rd) inputBufferSize repair fill = some st)
    (fuel : Nat) (hfuel2 : 2 ≤ fuel) (hfuel : ∀ b ∈ blocks, blocks.length + blockCost b ≤ fuel) :
    ∃ st', decompress Rd.src fuel st (Deflate.blocksData blocks []).length =
      .ok ⟨.ok, Deflate.blocksData blocks [], st'⟩ :=
  C01_mszip_blocks_roundtrip_src Rd.src _ Rd.src_feeds blocks extra hne hwf h1 h2 ⟨file, pos⟩ hfile
    inputBufferSize repair fill st hinit fuel hfuel2 hfuel

/-- the same on a source that delivers the file in pieces of arbitrary prescribed sizes -/
theorem C01_mszip_blocks_roundtrip_chunked (blocks : List Deflate.Block) (extra : Bytes) (hne : blocks ≠ [])
    (hwf : Deflate.BlocksWF [] blocks)
    (h1 : 1 ≤ (Deflate.blocksData blocks []).length) (h2 : (Deflate.blocksData blocks []).length ≤ 32768)
    (sizes : List Nat) (inputBufferSize : Nat) (repair : Bool) (fill : UInt8) (st : St (List Nat × Bytes))
    (hinit : init (sizes, Deflate.encFrame blocks ++ extra) inputBufferSize repair fill = some st)
    (fuel : Nat) (hfuel2 : 2 ≤ fuel) (hfuel : ∀ b ∈ blocks, blocks.length + blockCost b ≤ fuel) :
    ∃ st', decompress chunkSrc fuel st (Deflate.blocksData blocks []).length =
      .ok ⟨.ok, Deflate.blocksData blocks [], st'⟩ :=
  C01_mszip_blocks_roundtrip_src chunkSrc _ chunkSrc_feeds blocks extra hne hwf h1 h2 _ rfl
    inputBufferSize repair fill st hinit fuel hfuel2 hfuel

/-! ## one fixed-Huffman block -/

/-- **C01, MSZIP, fixed-Huffman block of literals and matches**: the frame is inflated to the LZ77
    expansion of its tokens -/
theorem C01_mszip_fixed_roundtrip (toks : List Deflate.Tok) (extra : Bytes) (hwf : Deflate.WF [] toks)
    (h1 : 1 ≤ (Deflate.expand toks []).length) (h2 : (Deflate.expand toks []).length ≤ 32768)
    (file : Bytes) (pos : Nat) (hfile : file.drop pos = Deflate.encFrame [.fixed toks] ++ extra)
    (inputBufferSize : Nat) (repair : Bool) (fill : UInt8) (st : St Rd)
    (hinit : init (⟨file, pos⟩ : Rd) inputBufferSize repair fill = some st)
    (fuel : Nat) (hfuel : toks.length + 2 ≤ fuel) :
    ∃ st', decompress Rd.src fuel st (Deflate.expand toks []).length =
      .ok ⟨.ok, Deflate.expand toks [], st'⟩ := by
  refine C01_mszip_blocks_roundtrip [.fixed toks] extra (by simp) ⟨hwf, trivial⟩ h1 h2 file pos hfile
    inputBufferSize repair fill st hinit fuel (by omega) ?_
  intro b hb
  rw [List.mem_singleton] at hb
  subst hb
  show 1 + (toks.length + 1) ≤ fuel
  omega

theorem expand_lits : ∀ (data out : Bytes), Deflate.expand (data.map Deflate.Tok.lit) out = out ++ data
  | [], out => by simp [Deflate.expand]
  | b :: bs, out => by
    rw [List.map_cons, Deflate.expand, List.foldl_cons]
    exact (expand_lits bs (out ++ [b])).trans (by simp)

theorem wf_lits : ∀ (data out : Bytes), Deflate.WF out (data.map Deflate.Tok.lit)
  | [], _ => trivial
  | _ :: bs, _ => ⟨trivial, wf_lits bs _⟩

/-- **C01, MSZIP, fixed-Huffman block of literals** -/
theorem C01_mszip_fixed_literals_roundtrip (data extra : Bytes) (h1 : 1 ≤ data.length) (h2 : data.length ≤ 32768)
    (file : Bytes) (pos : Nat) (hfile : file.drop pos = Deflate.encFrame [.fixed (data.map .lit)] ++ extra)
    (inputBufferSize : Nat) (repair : Bool) (fill : UInt8) (st : St Rd)
    (hinit : init (⟨file, pos⟩ : Rd) inputBufferSize repair fill = some st)
    (fuel : Nat) (hfuel : data.length + 2 ≤ fuel) :
    ∃ st', decompress Rd.src fuel st data.length = .ok ⟨.ok, data, st'⟩ := by
  have he : Deflate.expand (data.map Deflate.Tok.lit) [] = data := by rw [expand_lits, List.nil_append]
  have := C01_mszip_fixed_roundtrip (data.map .lit) extra (wf_lits data []) (by rw [he]; exact h1) (by rw [he]; exact h2)
    file pos hfile inputBufferSize repair fill st hinit fuel (by rw [List.length_map]; exact hfuel)
  rw [he] at this
  exact this

/-! ## the premises are satisfiable, and the writer's output is what the model reads -/

/-- literals, a plain match, an overlapping match (distance 1, run), the longest length, a long distance code -/
def sampleToks : List Deflate.Tok :=
  [.lit 0x61, .lit 0x62, .lit 200, .mat 3 3, .mat 10 1, .mat 258 7, .lit 0, .mat 4 270]

example : Deflate.WF [] sampleToks := by
  simp [sampleToks, Deflate.WF, Deflate.Tok.wf, Deflate.Tok.apply, copyFrom_length]

/-- stored and fixed blocks mixed: the stored blocks start at bit positions 0 and 5 -/
def sampleBlocks : List Deflate.Block :=
  [.stored [1, 2, 3], .fixed [.lit 9, .mat 3 2], .stored [], .stored [4, 5], .fixed [.mat 5 4]]

example : Deflate.BlocksWF [] sampleBlocks := by
  simp [sampleBlocks, Deflate.BlocksWF, Deflate.Block.wf, Deflate.Block.apply, Deflate.WF, Deflate.Tok.wf,
    Deflate.expand, Deflate.Tok.apply, Deflate.copyFrom]

example : Deflate.encFrame [.stored [0x78, 0x79, 0x7A]] = [0x43, 0x4B, 0x01, 0x03, 0x00, 0xFC, 0xFF, 0x78, 0x79, 0x7A] := by
  decide +kernel

/-- the hand-made sample of C02Zip (`abc` + match 3/3 in a fixed block) is what the writer produces -/
example : Deflate.encFrame [.fixed [.lit 0x61, .lit 0x62, .lit 0x63, .mat 3 3]] =
    [0x43, 0x4B, 0x4b, 0x4c, 0x4a, 0x06, 0x22, 0x00] := by decide +kernel

/-- the model on the writer's output, 1-byte reads (buffer size 2 is the smallest `init` makes) -/
example : ((init (σ := Rd) ⟨Deflate.encFrame sampleBlocks, 0⟩ 1 false 0).map fun st =>
    match decompress Rd.src 100 st (Deflate.blocksData sampleBlocks []).length with
    | .ok o => some (o.err, o.written)
    | .error _ => none) = some (some (.ok, Deflate.blocksData sampleBlocks [])) := by decide +kernel

example : Deflate.blocksData sampleBlocks [] = [1, 2, 3, 9, 3, 9, 3, 4, 5, 9, 3, 4, 5, 9] := by decide +kernel

end MsPack.Zip
