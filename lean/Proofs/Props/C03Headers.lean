import Proofs.Lemmas.ChmEncode
/-!
# C03 — CHM listing: `open()` reproduces the directory a writer laid out

`encodeChm` (`MsPack/Spec/ChmEncode.lean`) is the specification of a CHM file as a writer lays it out: ITSF
header, header section table (version 2 or 3), header section 0 (file length), header section 1 = ITSP header
followed by PMGL chunks (no index chunks: index root -1, depth 1) whose entries are ENCINT-coded, and content
section 0.

`C03_headers_roundtrip`: on the model of `chmd_read_headers` in the `entire = true` mode `open()` uses, for every
well-formed specification — version 2 or 3, any timestamp / language / density, any chunk size up to 8192 that
holds the entries, 1..100000 chunks, any number of entries per chunk, any names, sections 0/1, any offsets and
lengths below 2^63 (1..9-byte ENCINTs), any section-0 content — the result is `MSPACK_ERR_OK` and the header
returned is exactly `s.listed`: every header field is the specified one, and the file list is the specification's
entries in order, minus exactly those the C skips (names shorter than two bytes or with a NUL among the first two,
and directory entries: offset 0, length 0, trailing '/').

Not covered: system files (names starting with "::", which go to `sysfiles` and the four `sec1` pointers — `wf`
excludes them), PMGI index chunks, non-minimal ENCINT codings in entries (`C03_encint_roundtrip` covers those for a
single number), chunks with a quick-reference area larger than the entry count.
-/
namespace MsPack.Chm
open MsPack MsPack.Generated
open MsPack.Oab (enc32 read_prefix readExact_prefix drop_after)
open MsPack.Cab (enc16)

theorem C03_headers_roundtrip (s : ChmSpec) (hwf : s.wf) (filename : String) :
    readHeaders filename (encodeChm s) true = .ok (.ok ⟨.ok, s.listed filename⟩) := by
  obtain ⟨⟨r1, d1⟩, ⟨r2, d2⟩, ⟨r3, d3⟩, ⟨r4, d4⟩, d5⟩ := chm_layout s
  obtain ⟨a_len, a_sig, a_ver, a_ts, a_lang, a_guid⟩ := itsf_fields s hwf
  obtain ⟨b_len, b_hs0, b_hs1, b_cs0⟩ := hst_fields s hwf
  obtain ⟨c_len, c_flen⟩ := hs0_fields s hwf
  obtain ⟨d_len, d_cs, d_den, d_depth, d_root, d_first, d_last, d_num⟩ := itsp_fields s hwf
  have hre1 := readExact_prefix _ 0 _ _ d1
  rw [a_len] at hre1
  have hre2 := readExact_prefix _ 56 _ _ d2
  rw [b_len] at hre2
  have hre3 := readExact_prefix _ _ _ _ d3
  rw [c_len] at hre3
  have hre4 := readExact_prefix _ _ _ _ d4
  rw [d_len] at hre4
  have hchunks := readChunks_spec s.chunkSize s.numChunks hwf.2.2.2.2.1 (encodeChm s) s.chunks 0 s.dirOffset {} s.content
    hwf.2.2.2.2.2.2.2.2 rfl d5
  generalize encodeChm s = file at *
  generalize encItsf s = b1 at *
  generalize hstBuf s = b2 at *
  generalize encHs0 s = b3 at *
  generalize encItsp s = b4 at *
  unfold readHeaders
  have hre1' : Rd.readExact ⟨file, 0⟩ chmheadSIZEOF = some (b1, ⟨file, 56⟩) := hre1
  rw [matchRead_some _ _ _ hre1']
  have a_sig' : u32At b1 chmhead_Signature = 1179866185 := a_sig
  have a_guid' : List.map UInt8.toNat (List.take 32 (List.drop chmhead_GUID1 b1)) = chmGuids := a_guid
  rw [a_sig', a_guid', if_neg (by decide : ¬ (1179866185 ≠ 1179866185)), if_neg (fun h => h rfl : ¬ (chmGuids ≠ chmGuids))]
  zeta_head
  have hre2' : Rd.readExact ⟨file, 56⟩ chmhst3SIZEOF = some (b2, ⟨file, 96⟩) := hre2
  rw [matchRead_some _ _ _ hre2']
  zeta_head
  have b_hs0' : i64At b2 chmhst_OffsetHS0 = Int.ofNat s.hs0Offset := b_hs0
  have b_hs1' : i64At b2 chmhst_OffsetHS1 = Int.ofNat s.hs1Offset := b_hs1
  rw [b_hs0', b_hs1', matchSeek_some _ _ (seekAbs_nat _ _ _)]
  have hre3' : Rd.readExact ⟨file, s.hs0Offset⟩ chmhs0SIZEOF = some (b3, ⟨file, s.hs1Offset⟩) := hre3
  rw [matchRead_some _ _ _ hre3']
  zeta_head
  rw [matchSeek_some _ _ (seekAbs_nat _ _ _)]
  have hre4' : Rd.readExact ⟨file, s.hs1Offset⟩ chmhs1SIZEOF = some (b4, ⟨file, s.dirOffset⟩) := hre4
  rw [matchRead_some _ _ _ hre4']
  zeta_head
  -- the fields
  have a_ver' : u32At b1 chmhead_Version = s.version := a_ver
  have a_ts' : u32BEAt b1 chmhead_Timestamp = s.timestamp := a_ts
  have a_lang' : u32At b1 chmhead_LanguageID = s.language := a_lang
  have c_flen' : i64At b3 chmhs0_FileLen = Int.ofNat s.fileLength := c_flen
  have d_cs' : u32At b4 chmhs1_ChunkSize = s.chunkSize := d_cs
  have d_den' : u32At b4 chmhs1_Density = s.density := d_den
  have d_depth' : u32At b4 chmhs1_Depth = 1 := d_depth
  have d_root' : u32At b4 chmhs1_IndexRoot = 4294967295 := d_root
  have d_first' : u32At b4 chmhs1_FirstPMGL = 0 := d_first
  have d_last' : u32At b4 chmhs1_LastPMGL = s.numChunks - 1 := d_last
  have d_num' : u32At b4 chmhs1_NumChunks = s.numChunks := d_num
  have hpos : Rd.pos ⟨file, s.dirOffset⟩ = s.dirOffset := rfl
  rw [a_ver', a_ts', a_lang', c_flen', d_cs', d_den', d_depth', d_root', d_first', d_last', d_num', hpos]
  have b_cs0' : s.version = 3 → i64At b2 chmhst3_OffsetCS0 = Int.ofNat s.sec0Offset := b_cs0
  rw [sec0_value s hwf _ b_cs0']
  -- the checks
  obtain ⟨hn1, hn2⟩ := wf_numChunks s hwf
  obtain ⟨hc1, hc2⟩ := wf_chunkSize s hwf
  obtain ⟨hm, hs0, hfl⟩ := wf_sizes s hwf
  have k1 : ¬ (Int.ofNat s.sec0Offset > Int.ofNat s.fileLength) := by
    unfold ChmSpec.fileLength; simp only [Int.ofNat_eq_natCast]; omega
  have k2 : ¬ (s.chunkSize < pmgl_Entries + 2) := by unfold pmgl_Entries; omega
  have k3 : ¬ (s.numChunks = 0) := by omega
  have k4 : ¬ (s.numChunks > 100000) := by omega
  have k5 : ¬ (s.chunkSize > 8192) := by omega
  have k6 : ¬ (Int.ofNat (s.chunkSize * s.numChunks) > Int.ofNat s.fileLength) := by
    unfold ChmSpec.fileLength ChmSpec.sec0Offset; simp only [Int.ofNat_eq_natCast]; omega
  have k7 : ¬ (0 > s.numChunks - 1) := by omega
  have k8 : ¬ (4294967295 ≠ 4294967295 ∧ 4294967295 ≥ s.numChunks) := fun h => h.1 rfl
  rw [if_neg k1, if_neg k2, if_neg k3, if_neg k4, if_neg k5, if_neg k6, if_neg k7, if_neg k8]
  zeta_head
  rw [if_neg (by decide : ¬ ((!true) = true))]
  zeta_head
  have hcount : (s.numChunks - 1 - 0 + 1) % 4294967296 = s.chunks.length := by
    unfold ChmSpec.numChunks at hn1 hn2 ⊢; omega
  rw [if_neg (by decide : ¬ ((0 : Nat) ≠ 0)), hcount, matchChunks_ok _ _ hchunks]
  zeta_head
  simp [Walk.add, ChmSpec.listed, ChmSpec.entries]

/-- `chmd_real_open` (what `open()` returns): no error, and the header above -/
theorem C03_open_roundtrip (s : ChmSpec) (hwf : s.wf) (filename : String) :
    realOpen filename (encodeChm s) true = .ok (.ok, some (s.listed filename)) := by
  unfold realOpen
  rw [C03_headers_roundtrip s hwf filename]
  rfl

/-- the header fields, one by one -/
theorem C03_header_fields (s : ChmSpec) (hwf : s.wf) (filename : String) :
    ∃ p, readHeaders filename (encodeChm s) true = .ok (.ok p) ∧ p.err = .ok ∧
      p.hdr.version = s.version ∧ p.hdr.timestamp = s.timestamp ∧ p.hdr.language = s.language ∧
      p.hdr.chunkSize = s.chunkSize ∧ p.hdr.density = s.density ∧ p.hdr.numChunks = s.chunks.length ∧
      p.hdr.firstPmgl = 0 ∧ p.hdr.lastPmgl = s.chunks.length - 1 ∧ p.hdr.depth = 1 ∧ p.hdr.indexRoot = 0xFFFFFFFF ∧
      p.hdr.length = Int.ofNat (encodeChm s).length ∧
      p.hdr.dirOffset = Int.ofNat ((if s.version = 3 then 96 else 88) + 24 + 84) ∧
      p.hdr.sec0Offset = Int.ofNat ((if s.version = 3 then 96 else 88) + 24 + 84 + s.chunkSize * s.chunks.length) ∧
      p.hdr.sysfiles = [] ∧
      p.hdr.files = (s.chunks.flatten.filter EntrySpec.isFile).map EntrySpec.listed :=
  ⟨_, C03_headers_roundtrip s hwf filename, rfl, rfl, rfl, rfl, rfl, rfl, rfl, rfl, rfl, rfl, rfl,
    by rw [encodeChm_length s hwf]; rfl, rfl, rfl, rfl, rfl⟩

/-- when every entry is an ordinary file the listing is the list of entries itself -/
theorem C03_headers_roundtrip_files (s : ChmSpec) (hwf : s.wf) (hfiles : ∀ c ∈ s.chunks, ∀ en ∈ c, en.isFile = true)
    (filename : String) :
    ∃ p, readHeaders filename (encodeChm s) true = .ok (.ok p) ∧ p.err = .ok ∧
      p.hdr.files = s.chunks.flatten.map EntrySpec.listed := by
  refine ⟨_, C03_headers_roundtrip s hwf filename, rfl, ?_⟩
  have : s.entries.filter EntrySpec.isFile = s.entries := by
    apply List.filter_eq_self.mpr
    intro en hen
    obtain ⟨c, hc, hec⟩ := List.mem_flatten.mp hen
    exact hfiles c hc en hec
  simp only [ChmSpec.listed, this]
  rfl

/-! ## the premises are satisfiable -/

/-- two chunks, three entries: a directory entry (skipped by the listing), a file in the compressed section with a
    2-byte ENCINT offset (300) and a 3-byte ENCINT length (70000), and a file in section 0 -/
def exampleSpec : ChmSpec :=
  { version := 3, timestamp := 0x12345678, language := 0x409, chunkSize := 64, density := 2,
    chunks := [[⟨[0x2F], 0, 0, 0⟩, ⟨[0x2F, 0x61, 0x2E, 0x68, 0x74, 0x6D], 1, 300, 70000⟩], [⟨[0x2F, 0x62], 0, 5, 1⟩]],
    content := [1, 2, 3, 4, 5, 6] }

theorem exampleSpec_wf : exampleSpec.wf := by
  refine ⟨by decide, by decide, by decide, by decide, by decide, by simp [exampleSpec], by decide, by decide, ?_⟩
  intro c hc
  simp only [exampleSpec, List.mem_cons, List.not_mem_nil, or_false] at hc
  rcases hc with rfl | rfl
  · refine ⟨⟨by decide, by decide⟩, ?_⟩
    intro en hen
    simp only [List.mem_cons, List.not_mem_nil, or_false] at hen
    rcases hen with rfl | rfl <;> exact ⟨by decide, by decide, by decide, by decide⟩
  · refine ⟨⟨by decide, by decide⟩, ?_⟩
    intro en hen
    simp only [List.mem_cons, List.not_mem_nil, or_false] at hen
    rcases hen with rfl
    exact ⟨by decide, by decide, by decide, by decide⟩

example : exampleSpec.wf := exampleSpec_wf

example : putEncint 300 = [0x82, 0x2C] := by decide

/-- what the theorem says for it: the directory entry is dropped, the two files are listed in order -/
example : ∃ p, readHeaders "x.chm" (encodeChm exampleSpec) true = .ok (.ok p) ∧ p.err = .ok ∧
    p.hdr.files = [⟨[0x2F, 0x61, 0x2E, 0x68, 0x74, 0x6D], 1, 300, 70000⟩, ⟨[0x2F, 0x62], 0, 5, 1⟩] :=
  ⟨_, C03_headers_roundtrip exampleSpec exampleSpec_wf "x.chm", rfl, by decide⟩

end MsPack.Chm
