import MsPack.Generated.Tables
import MsPack.Generated.Consts
import MsPack.Spec.Tables
/-!
# Obligations on the tables and constants extracted from today's source

Each theorem says: the table the translator found in `/repo` *now* equals the closed form the
specifications use, and has the length its declaration and the models' bounds arguments assume.
All are closed by kernel evaluation (`decide +kernel`), so a changed entry, a shrunk array or a
changed constant breaks a proof here before any test input is needed.
-/
namespace MsPack.TableObligations
open MsPack.Generated MsPack.Spec

theorem lzx_extra_bits : lzxExtraBits = (List.range 36).map lzxExtra := by decide +kernel
theorem lzx_position_base : lzxPositionBase = (List.range 290).map lzxBase := by decide +kernel
/-- the slot count for window `2^(15+k)` is where `position_base` reaches the window size -/
theorem lzx_position_slots :
    lzxPositionSlots.length = 11 ∧
    ∀ k, k < 11 → lzxBase (lzxPositionSlots.getD k 0) = 2 ^ (15 + k) := by decide +kernel
theorem lzx_dims : lzxPositionSlotsDim = 11 ∧ lzxExtraBitsDim = 36 ∧ lzxPositionBaseDim = 290 := by decide

theorem qtm_extra_bits : qtmExtraBits = (List.range 42).map slotExtra := by decide +kernel
theorem qtm_position_base : qtmPositionBase = (List.range 42).map qtmBase := by decide +kernel
theorem qtm_length_extra : qtmLengthExtra = (List.range 27).map qtmLenExtra := by decide +kernel
theorem qtm_length_base : qtmLengthBase = (List.range 27).map qtmLenBase := by decide +kernel
theorem qtm_dims : qtmPositionBaseDim = 42 ∧ qtmExtraBitsDim = 42 ∧ qtmLengthBaseDim = 27 ∧
    qtmLengthExtraDim = 27 := by decide

theorem zip_lit_lengths : zipLitLengths = (List.range 29).map zipLenBase := by decide +kernel
theorem zip_lit_extrabits : zipLitExtrabits = (List.range 29).map zipLenExtra := by decide +kernel
theorem zip_dist_offsets : zipDistOffsets = (List.range 30).map zipDistBase := by decide +kernel
theorem zip_dist_extrabits : zipDistExtrabits = (List.range 30).map zipDistExtra := by decide +kernel
theorem zip_bitlen_order : MsPack.Generated.zipBitlenOrder = MsPack.Spec.zipBitlenOrder := by decide
theorem zip_dims : zipLitLengthsDim = 29 ∧ zipDistOffsetsDim = 30 ∧ zipLitExtrabitsDim = 29 ∧
    zipDistExtrabitsDim = 30 ∧ zipBitlenOrderDim = 19 := by decide

theorem lsb_bit_mask : lsbBitMask = (List.range 17).map (fun n => 2 ^ n - 1) := by decide +kernel

/-- `crc32_table` is the table of the reflected polynomial 0xEDB88320 -/
theorem crc32_table_is_crc32 : crc32Table = (List.range 256).map crcEntry := by decide +kernel

theorem szdd_signatures :
    szddSignatureExpand = [0x53, 0x5A, 0x44, 0x44, 0x88, 0xF0, 0x27, 0x33] ∧
    szddSignatureQbasic = [0x53, 0x5A, 0x20, 0x88, 0xF0, 0x27, 0x33, 0xD1] := by decide

/-- status codes and callback modes as documented in mspack.h -/
theorem api_constants :
    errOk = 0 ∧ errArgs = 1 ∧ errOpen = 2 ∧ errRead = 3 ∧ errWrite = 4 ∧ errSeek = 5 ∧
    errNomemory = 6 ∧ errSignature = 7 ∧ errDataformat = 8 ∧ errChecksum = 9 ∧ errCrunch = 10 ∧
    errDecrunch = 11 ∧ sysOpenRead = 0 ∧ sysOpenWrite = 1 ∧ sysSeekStart = 0 ∧ sysSeekCur = 1 ∧
    sysSeekEnd = 2 := by decide

/-- CAB record layout the header model hard-codes -/
theorem cab_layout :
    cfheadSignature = 0 ∧ cfheadCabinetSize = 8 ∧ cfheadNumFolders = 0x1A ∧ cfheadNumFiles = 0x1C ∧
    cfheadFlags = 0x1E ∧ cfheadSetID = 0x20 ∧ cfheadCabinetIndex = 0x22 ∧ cfheadSIZEOF = 36 ∧
    cfheadextHeaderReserved = 0 ∧ cfheadextFolderReserved = 2 ∧ cfheadextDataReserved = 3 ∧
    cfheadextSIZEOF = 4 ∧ cffoldDataOffset = 0 ∧ cffoldNumBlocks = 4 ∧ cffoldCompType = 6 ∧
    cffoldSIZEOF = 8 ∧ cffileUncompressedSize = 0 ∧ cffileFolderOffset = 4 ∧ cffileFolderIndex = 8 ∧
    cffileDate = 10 ∧ cffileTime = 12 ∧ cffileAttribs = 14 ∧ cffileSIZEOF = 16 ∧
    cfdataCheckSum = 0 ∧ cfdataCompressedSize = 4 ∧ cfdataUncompressedSize = 6 ∧ cfdataSIZEOF = 8 ∧
    cfheadPREV_CABINET = 1 ∧ cfheadNEXT_CABINET = 2 ∧ cfheadRESERVE_PRESENT = 4 ∧
    cffileCONTINUED_FROM_PREV_ = 0xFFFD ∧ cffileCONTINUED_TO_NEXT_ = 0xFFFE ∧
    cffileCONTINUED_PREV_AND_NEXT_ = 0xFFFF := by decide

/-- the block reader's buffer holds the largest block either mode lets through, plus Quantum's
    trailer byte (`cab_block_fits`, C02) -/
theorem cab_block_fits :
    cabINPUTMAX + 1 ≤ cabInputDim ∧ cabINPUTMAX_SALVAGE + 1 ≤ cabInputDim ∧
    cabINPUTBUF = cabInputDim ∧ cabINPUTMAX = 32768 + 6144 ∧ cabINPUTMAX_SALVAGE = 65535 ∧
    cabBLOCKMAX = 32768 := by decide

end MsPack.TableObligations
