import Proofs.Lemmas.QtmChunk
/-!
# C08, Quantum: does asking for `a` and then `b` bytes equal asking for `a + b`?

For MSZIP the answer is yes in both directions (`C08Mszip.lean`).  For `qtmd_decompress` (model: `Qtm.decompress`):

* **The converse law (`a + b` OK ⇒ `a` OK then `b` OK) is FALSE**, of the model and — the model follows qtmd.c line by
  line here — of the C.  `frame_end` depends on `out_bytes`; when a match crosses the end of the window the C has to
  flush `o_ptr .. window end` in the middle of the match and bails out with MSPACK_ERR_DECRUNCH if that is more than
  the bytes still asked for ("this should not happen, but if it does then this code can't handle the situation").
  It does happen when a request ends shortly before the window end and the match decoded there wraps.  Witness
  (evaluated with `#eval`, interpreter; the same statement by `decide +kernel` did not finish in the time available,
  so it is recorded here and not as a theorem): stream `QtmChunk.witness` (3000 bytes of an LCG, seed 1), window
  2^10, buffer 4096, fuel 100000:
  ```
  open MsPack MsPack.Qtm MsPack.Qtm.QtmChunk in
  #eval (init (⟨witness, 0⟩ : Rd) 10 4096 0).map fun st =>
    (view (decompress Rd.src 100000 st 1200), view (decompress Rd.src 100000 st 1000))
  -- some (some (MsPack.Err.ok, 1200), some (MsPack.Err.decrunch, 0))
  ```
  one call for 1200 bytes returns OK with 1200 bytes; a call for 1000 bytes on the same fresh state returns
  MSPACK_ERR_DECRUNCH with nothing written (so do calls for 1001 … 1023 bytes; from 1024 on they are OK again; the
  one call for `a + 200` bytes is OK for all of them).  So whether the first 1200 bytes of a Quantum folder can be
  extracted depends on where the request boundaries (member boundaries, skip/extract phases of `cabd_extract`) fall.
* **The forward law restricted to OK results** (`a` OK, then `b` OK ⇒ `a + b` OK with `w1 ++ w2` and the same state)
  held in every one of ≈ 490 evaluated (stream, a, b) combinations with both calls OK (12 pseudo-random streams,
  `a` ∈ {1, 5, 100, 500, 1000, 1020, 1023, 1024, 1025, 2000, 2047, 2048, 3000}, `b` ∈ {1, 30, 1000, 1024}, comparing
  status, bytes, `o_ptr`, `o_end`, `window_posn`, `frame_todo`).  It is **not proved here**.  With a non-OK second
  status it cannot hold for the bytes: the single call writes only at the end (or at a window wrap), the two calls
  have already written `w1`.
* Proved: the bookkeeping of the stored-up bytes — a request inside `o_ptr .. o_end` is served from them without
  decoding, and two such requests are one (`C08_qtm_pending_exact`, `C08_qtm_chunk_law_pending`).

What a proof of the forward law needs (none of it in the tree yet): (1) `written` is append-only and never read
(a relational pass over all `QM` helpers; `get` hands the whole `Run` to its continuation, so this is not a one-line
frame rule); (2) `symbolLoop fe₁` followed by `symbolLoop fe₂` is `symbolLoop fe₂` for `fe₁ ≤ fe₂` as long as no
wrapping match is met, and at a wrapping match the test `fl > out_bytes` has the same outcome in both runs
(`fl - out_bytes` is invariant under handing out bytes); (3) the store/restore of the local state between the calls
is the identity on reachable states (`bitsLeft < 256`, `LoopTermQtm.Sync`).
-/
namespace MsPack.Qtm
open MsPack

variable {σ : Type} (S : Src σ)

/-- a request inside the stored-up bytes: handed out from the window, nothing decoded, only `o_ptr` moves -/
theorem C08_qtm_pending_exact (fuel : Nat) (st : St σ) (he : st.error = .ok) (a : Nat)
    (ha : a ≤ st.oEnd - st.oPtr) (hb : st.oEnd ≤ st.window.size) :
    decompress S fuel st a =
      .ok ⟨.ok, (st.window.extract st.oPtr (st.oPtr + a)).toList, { st with oPtr := st.oPtr + a }⟩ :=
  QtmChunk.pend_exact S fuel st he a ha hb

/-- **chunking law, stored-up bytes**: `a` then `b` is `a + b` (status, bytes, state) when both fit into the bytes
    already decoded -/
theorem C08_qtm_chunk_law_pending (fuel : Nat) (st : St σ) (he : st.error = .ok) (a b : Nat)
    (hab : a + b ≤ st.oEnd - st.oPtr) (hb : st.oEnd ≤ st.window.size) :
    ∃ w1 st1 w2 st2, decompress S fuel st a = .ok ⟨.ok, w1, st1⟩ ∧ decompress S fuel st1 b = .ok ⟨.ok, w2, st2⟩ ∧
      decompress S fuel st (a + b) = .ok ⟨.ok, w1 ++ w2, st2⟩ :=
  QtmChunk.pend_join S fuel st he a b hab hb

end MsPack.Qtm
