import Proofs.Lemmas.OabBlocks
/-!
# C06 — OAB files decompress to the exact target

`encFull` is the specification of a full OAB file: the 16-byte header, then per block a 16-byte
block header and the payload.  `C06_full_roundtrip`: on the model of `oabd_decompress`, every such
file whose blocks are well formed decompresses to the concatenation of the blocks' data with
status OK — for any number of blocks, any block sizes, any mix of stored and LZX blocks, any
`block_max` ≥ the largest block, any DECOMPBUF ≥ 1, any trailing bytes after the last block.

Stored blocks are proved outright (incl. `copy_fh`'s chunking for every buffer size).  For an LZX
block the statement takes the block's *decoder law* as a hypothesis (`LzxLaw`): "the LZX DELTA
decoder, started on this payload with the window size oabd.c derives, delivers the block's data,
leaves the input at the end of the payload, and the CRC matches".  That law is what an LZX
encoder's correctness proof would supply; here it is validated by differential runs against
lzxd.c on generated streams (checks/c06.py), not proved.  For files of stored blocks only the
hypothesis is vacuous and the theorem is unconditional (`C06_stored_roundtrip`).

`C06_window_bits`: the window size oabd.c derives is the smallest 2^17..2^25 that holds the size
it was derived from (or 2^25 if none does).
-/
namespace MsPack.Oab
open MsPack MsPack.Generated

/-! ## the window size rule -/

theorem C06_window_bits (size : Nat) :
    17 ≤ windowBits size ∧ windowBits size ≤ 25 ∧
    (size ≤ 2 ^ windowBits size ∨ windowBits size = 25) ∧
    (17 < windowBits size → 2 ^ (windowBits size - 1) < size) := by
  unfold windowBits
  simp only [windowBitsLoop]
  repeat' split
  all_goals (simp only [Nat.reduceAdd, Nat.reduceSub, Nat.reducePow, or_true, true_and] at *; omega)

/-- **C06, full files** (LZX blocks under their decoder law): `oabd_decompress` of a well-formed
    full file returns OK and the output file is exactly the blocks' data in order — for every block
    list, `block_max`, DECOMPBUF ≥ 1, fill byte, decoder fuel, and whatever follows the last block -/
theorem C06_full_roundtrip (fuel bufSize : Nat) (hb : 0 < bufSize) (fill : UInt8) (blockMax : Nat)
    (hbm : blockMax < 4294967296) (bs : List Blk) (trailing : Bytes)
    (htot : total bs < 4294967296)
    (hwf : ∀ b ∈ bs, b.wf fuel bufSize fill blockMax) :
    (decompress fuel bufSize fill (some (encFull blockMax bs ++ trailing))) =
      .ok ⟨.ok, some (plain bs)⟩ := by
  obtain ⟨hlen, f0, f1, f2, f3⟩ := hdr_fields 3 1 blockMax (total bs) (by omega) (by omega) hbm htot
  have hd1 : (encFull blockMax bs ++ trailing).drop 0 =
      (enc32 3 ++ enc32 1 ++ enc32 blockMax ++ enc32 (total bs)) ++ (bs.flatMap encBlk ++ trailing) := by
    simp [encFull, List.append_assoc]
  have hre := readExact_prefix _ 0 _ _ hd1
  rw [hlen] at hre
  have hd2 := drop_after _ 0 _ _ hd1
  rw [hlen] at hd2
  have hn : bs.length ≤ (encFull blockMax bs ++ trailing).length / 16 + 1 := by
    have := flatMap_encBlk_length bs
    have h2 : (encFull blockMax bs ++ trailing).length = 16 + (bs.flatMap encBlk).length + trailing.length := by
      simp [encFull, enc32]; omega
    rw [h2]; omega
  have hloop := fullLoop_spec fuel bufSize hb fill blockMax hbm _ bs _ (0 + 16) trailing [] hd2 hn hwf
  exact decompress_of_header fuel bufSize fill _ _ blockMax (total bs) (.ok, [] ++ plain bs) hre f0 f1 f2 f3 hloop

/-- a file of stored blocks only: unconditional -/
theorem C06_stored_roundtrip (fuel bufSize : Nat) (hb : 0 < bufSize) (fill : UInt8) (blockMax : Nat)
    (hbm : blockMax < 4294967296) (datas : List Bytes) (crcs : Nat → Nat) (trailing : Bytes)
    (hfit : ∀ d ∈ datas, d.length ≤ blockMax) (htot : (datas.map List.length).sum < 4294967296)
    (hcrc : ∀ i, crcs i < 4294967296) :
    let bs := datas.zipIdx.map fun (d, i) => (⟨false, d, d, crcs i⟩ : Blk)
    decompress fuel bufSize fill (some (encFull blockMax bs ++ trailing)) = .ok ⟨.ok, some datas.flatten⟩ := by
  intro bs
  have hpl : plain bs = datas.flatten := by
    simp only [bs, plain, List.flatMap_map]
    have : ∀ (l : List Bytes) (k : Nat), (l.zipIdx k).flatMap (fun x => x.1) = l.flatten := by
      intro l; induction l with
      | nil => intro k; rfl
      | cons a l ih => intro k; simp [List.zipIdx_cons, ih]
    exact this datas 0
  have htl : total bs = (datas.map List.length).sum := by
    simp only [bs, total, List.map_map]
    have : ∀ (l : List Bytes) (k : Nat), ((l.zipIdx k).map ((fun b : Blk => b.data.length) ∘ fun x => (⟨false, x.1, x.1, crcs x.2⟩ : Blk))).sum = (l.map List.length).sum := by
      intro l; induction l with
      | nil => intro k; rfl
      | cons a l ih => intro k; simp [List.zipIdx_cons, ih]
    exact this datas 0
  rw [← hpl]
  apply C06_full_roundtrip fuel bufSize hb fill blockMax hbm bs trailing (by rw [htl]; exact htot)
  intro b hbmem
  simp only [bs, List.mem_map] at hbmem
  obtain ⟨⟨d, i⟩, hmem, rfl⟩ := hbmem
  have hd : d ∈ datas := (List.mem_zipIdx hmem).2.2 ▸ List.getElem_mem _
  have := hfit d hd
  exact ⟨this, by simp only; omega, hcrc i, by simp⟩

/-- non-vacuity / sanity: a concrete two-block stored file, odd buffer size, wrong CRC fields, junk after -/
example : decompress 0 17 0xa5 (some (encFull 40 [⟨false, [1,2,3], [1,2,3], 0xDEADBEEF⟩, ⟨false, [], [], 0⟩, ⟨false, [9], [9], 7⟩] ++ [0xff, 0xee]))
    = .ok ⟨.ok, some [1,2,3,9]⟩ :=
  C06_stored_roundtrip 0 17 (by decide) 0xa5 40 (by decide) [[1,2,3], [], [9]] (fun i => if i = 0 then 0xDEADBEEF else if i = 1 then 0 else 7)
    [0xff, 0xee] (by decide) (by decide) (by intro i; split <;> (try split) <;> omega)

/-- **C06, patches** (under the blocks' decoder law): `oabd_decompress_incremental` of a well-formed
    patch applied to a base file that starts with the blocks' reference data returns OK and writes
    exactly the target; the header's SourceSize / SourceCRC / TargetCRC fields are arbitrary (the
    code never reads them), as is anything after the last block or after the used part of the base -/
theorem C06_patch_roundtrip (fuel bufSize : Nat) (fill : UInt8) (blockMax sourceSize sourceCrc targetCrc : Nat)
    (hbm : blockMax < 4294967296) (bs : List PBlk) (trailing baseTrailing : Bytes)
    (htot : ptotal bs < 4294967296)
    (hwf : ∀ b ∈ bs, b.wf fuel bufSize fill (if blockMax < 16 then 16 else blockMax)) :
    decompressIncremental fuel bufSize fill (some (encPatch blockMax sourceSize sourceCrc targetCrc bs ++ trailing))
        (some (pbase bs ++ baseTrailing)) = .ok ⟨.ok, some (pplain bs)⟩ := by
  obtain ⟨hlen, f0, f1, f2, f4⟩ := patch_hdr_fields 3 2 blockMax sourceSize (ptotal bs) sourceCrc targetCrc (by omega) (by omega) hbm htot
  have hd1 : (encPatch blockMax sourceSize sourceCrc targetCrc bs ++ trailing).drop 0 =
      (enc32 3 ++ enc32 2 ++ enc32 blockMax ++ enc32 sourceSize ++ (enc32 (ptotal bs) ++ enc32 sourceCrc ++ enc32 targetCrc))
        ++ (bs.flatMap encPBlk ++ trailing) := by
    simp [encPatch, List.append_assoc]
  have hre := readExact_prefix _ 0 _ _ hd1
  rw [hlen] at hre
  have hd2 := drop_after _ 0 _ _ hd1
  rw [hlen] at hd2
  have hbm' : (if blockMax < 16 then 16 else blockMax) < 4294967296 := by split <;> omega
  have hn : bs.length ≤ (encPatch blockMax sourceSize sourceCrc targetCrc bs ++ trailing).length / 16 + 1 := by
    have := flatMap_encPBlk_length bs
    have h2 : (encPatch blockMax sourceSize sourceCrc targetCrc bs ++ trailing).length = 28 + (bs.flatMap encPBlk).length + trailing.length := by
      simp [encPatch, enc32]; omega
    rw [h2]; omega
  have hb0 : (pbase bs ++ baseTrailing).drop 0 = pbase bs ++ baseTrailing := rfl
  have hloop := patchLoop_spec fuel bufSize fill _ hbm' _ _ bs _ (0 + 28) 0 trailing baseTrailing [] hd2 hb0 hn hwf
  exact decompressIncremental_of_header fuel bufSize fill _ _ _ blockMax (ptotal bs) (.ok, [] ++ pplain bs) hre f0 f1 f2 f4 hloop

end MsPack.Oab
