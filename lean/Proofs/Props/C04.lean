import Proofs.Lemmas.FeederTerm
import Proofs.Props.C14
/-!
# C04 — every call terminates after bounded work (CAB container part)

Every model function is total: structural recursion, or well-founded recursion whose decrease Lean
checks (`scanChunks`, `findLoop`), or recursion on a `fuel` argument with an explicit `hang`
outcome when the fuel runs out.  Proved here: for the stream feeder (`cabd_sys_read`) the fuel the
callers pass (`feederFuel`, linear in the number of blocks left) always suffices, so `hang` is
unreachable there, whatever the cabinet contains; and (in `Proofs/Props/C14`) the restart loop of
`cabd_find` always advances.  The bit-level decoders' fuel (16 × input bytes + 100000) is not yet
proved sufficient; the correspondence shows where the model would hang and the implementation's
edge counts are checked against a linear budget.
-/
namespace MsPack.Cab
open MsPack

/-- `cabd_sys_read` needs at most two loop iterations per remaining block, plus one -/
theorem C04_feeder_fuel_suffices (files : Files) (fd : Feeder) (todo : Nat) :
    feederRead files (feederFuel fd) fd todo [] ≠ .error .hang := by
  apply feederRead_terminates
  left
  unfold feederMeasure feederFuel
  split <;> omega

end MsPack.Cab
