import Proofs.Props.C01
/-!
# C08 for stored folders: any sequence of extractions gives every member its fresh-instance bytes

`cabd_extract` keeps the folder's decoder between calls and re-uses it when the next member starts at or after
the position it has reached.  For a stored folder (blocks as in `C01_stored_extract`) the cached state after any
successful call is again "the feeder stands at plaintext position `offset` of the folder", so by induction over the
call list every call — forward (re-using the cache), backward (rebuilding it), repeated, in any order — returns OK
with exactly bytes `[offset, offset+length)` of the folder's data: what a fresh decompressor returns.
-/
namespace MsPack.Cab
open MsPack MsPack.Generated

/-- the cached `self->d` between calls: nothing, or this folder's stored-data decoder at some position -/
def StoredCache (L : Lay) (key bs : Nat) (plain : Bytes) (d : Option DState) : Prop :=
  d = none ∨ ∃ ds blks, d = some ds ∧ ds.folder = key ∧ ds.dec = some (.none bs .ok) ∧
    FeedInv L ds.feeder blks (plain.drop ds.offset) ∧ ds.offset ≤ plain.length

/-- both phases of `cabd_extract` from a decoder standing at or before the member -/
theorem runPhases_stored (files : Files) (L : Lay) (bs : Nat) (hbs : 0 < bs) (plain : Bytes) (ds : DState) (blks : List DataBlk)
    (hdec : ds.dec = some (.none bs .ok)) (inv : FeedInv L ds.feeder blks (plain.drop ds.offset))
    (m : Member) (l : Nat) (hoff : ds.offset ≤ m.offset) (hfit : m.offset + l ≤ plain.length) :
    ∃ ds' blks', runPhases files ds m l = .done .ok (some ((plain.drop m.offset).take l)) (some ds') ∧
      ds'.folder = ds.folder ∧ ds'.dec = some (.none bs .ok) ∧ FeedInv L ds'.feeder blks' (plain.drop ds'.offset) ∧
      ds'.offset ≤ plain.length := by
  unfold runPhases
  rw [hdec]; simp only
  by_cases hl0 : l = 0
  · subst hl0
    exact ⟨ds, blks, by simp, rfl, hdec, inv, by omega⟩
  · rw [if_neg hl0]
    by_cases hsk : m.offset - ds.offset = 0
    · have ho : m.offset = ds.offset := by omega
      rw [if_pos hsk]
      obtain ⟨ds', blks', e, inv', hdec', hoff', _, _, hfol⟩ := runPhase_stored files L ds bs hbs blks (plain.drop ds.offset) inv l
        (by rw [List.length_drop]; omega)
      rw [e]
      refine ⟨ds', blks', by rw [ho], hfol, hdec', ?_, by omega⟩
      rw [List.drop_drop] at inv'; rw [hoff']; exact inv'
    · rw [if_neg hsk]
      obtain ⟨ds1, blks1, e1, inv1, hdec1, hoff1, _, _, hfol1⟩ := runPhase_stored files L ds bs hbs blks (plain.drop ds.offset) inv
        (m.offset - ds.offset) (by rw [List.length_drop]; omega)
      rw [e1]
      simp only [ne_eq, not_true_eq_false, ↓reduceIte, hdec1]
      have ho1 : ds1.offset = m.offset := by omega
      rw [List.drop_drop] at inv1
      have hsum : ds.offset + (m.offset - ds.offset) = m.offset := by omega
      rw [hsum] at inv1
      obtain ⟨ds2, blks2, e2, inv2, hdec2, hoff2, _, _, hfol2⟩ := runPhase_stored files L ds1 bs hbs blks1 (plain.drop m.offset) inv1 l
        (by rw [List.length_drop]; omega)
      rw [e2]
      refine ⟨ds2, blks2, rfl, hfol2.trans hfol1, hdec2, ?_, by omega⟩
      rw [List.drop_drop] at inv2; rw [hoff2, ho1]; exact inv2

/-- one `extract()` with whatever the previous calls left in the cache -/
theorem extract_stored_cached (files : Files) (fname : String) (bytes : Bytes) (hlook : files.lookup fname = some bytes)
    (off : Nat) (blks : List DataBlk) (hwf : ∀ b ∈ blks, b.wf) (rest : Bytes)
    (hd : bytes.drop off = blks.flatMap encData ++ rest)
    (p : Params) (hbs : 0 < p.bufSize) (key : Nat) (ctHigh : Nat) (hct : compMask (ctHigh * 16) = 0)
    (nblocks : Nat) (hnb : blks.length ≤ nblocks)
    (d : Option DState) (hcache : StoredCache ⟨bytes, rest, blks.length⟩ key p.bufSize (plainOf blks) d)
    (o l : Nat) (hfit : o + l ≤ (plainOf blks).length) (hmax : o + l ≤ cabLENGTHMAX) :
    ∃ d', extract files p d (storedMember fname off nblocks key o l ctHigh) =
        .done .ok (some (((plainOf blks).drop o).take l)) d' ∧
      StoredCache ⟨bytes, rest, blks.length⟩ key p.bufSize (plainOf blks) d' := by
  have hpl := plain_length_le blks hwf
  have hcheck : memberCheck p (storedMember fname off nblocks key o l ctHigh) = .ok (l, key) := by
    simp only [cabLENGTHMAX] at hmax
    have hnb' : blks.length * 32768 ≤ nblocks * 32768 := Nat.mul_le_mul_right _ hnb
    have a1 : ¬(o > 2147450880) := by omega
    have a2 : ¬(l > 2147450880 - o) := by omega
    have a3 : ¬(o > nblocks * 32768) := by omega
    have a4 : ¬(l > nblocks * 32768 - o) := by omega
    simp only [memberCheck, storedMember, cabLENGTHMAX, cabBLOCKMAX, a1, a2, a3, a4, ↓reduceIte, decide_false, Bool.false_eq_true,
      false_and, or_self, and_false]
  let fd0 : Feeder := { rd := some ⟨bytes, off⟩, parts := [⟨fname, 0, off⟩], block := 0, numBlocks := nblocks, outlen := 0, buf := [],
                        compType := ctHigh * 16, readError := .ok, lzxLen := none, salvage := p.salvage, fixMszip := p.fixMszip }
  let ds0 : DState := { folder := key, offset := 0, dec := some (.none p.bufSize .ok), feeder := fd0 }
  have hfresh : freshDState files p (storedMember fname off nblocks key o l ctHigh) key = .ok ds0 := by
    unfold freshDState storedMember
    simp only [hlook, Option.map_some, initDec, hct]
    rfl
  have inv0 : FeedInv ⟨bytes, rest, blks.length⟩ ds0.feeder blks ((plainOf blks).drop ds0.offset) :=
    ⟨⟨off, rfl, hd⟩, ⟨⟨fname, 0, off⟩, [], rfl, rfl⟩, ⟨by simp [ds0, fd0], hnb⟩, hct, hwf, by simp [ds0, fd0]⟩
  -- from the fresh state
  have fromFresh : ∃ d', runPhases files ds0 (storedMember fname off nblocks key o l ctHigh) l =
        .done .ok (some (((plainOf blks).drop o).take l)) d' ∧
      StoredCache ⟨bytes, rest, blks.length⟩ key p.bufSize (plainOf blks) d' := by
    obtain ⟨ds', blks', e, hfol, hdec', inv', hle⟩ := runPhases_stored files _ p.bufSize hbs (plainOf blks) ds0 blks rfl inv0
      (storedMember fname off nblocks key o l ctHigh) l (Nat.zero_le _) hfit
    exact ⟨some ds', e, Or.inr ⟨ds', blks', rfl, hfol, hdec', inv', hle⟩⟩
  unfold extract
  rw [hcheck]; simp only
  rcases hcache with rfl | ⟨ds, cblks, rfl, hfol, hdec, inv, hle⟩
  · simp only [obtainDState, hfresh]; exact fromFresh
  · unfold obtainDState
    simp only
    by_cases hre : ds.folder = key ∧ ¬ ds.offset > (storedMember fname off nblocks key o l ctHigh).offset ∧ ds.dec.isSome = true
    · rw [if_pos hre]; simp only
      obtain ⟨ds', blks', e, hfol', hdec', inv', hle'⟩ := runPhases_stored files _ p.bufSize hbs (plainOf blks) ds cblks hdec inv
        (storedMember fname off nblocks key o l ctHigh) l (by have := hre.2.1; simp only [storedMember] at this ⊢; omega) hfit
      exact ⟨some ds', e, Or.inr ⟨ds', blks', rfl, hfol'.trans hfol, hdec', inv', hle'⟩⟩
    · rw [if_neg hre, hfresh]; exact fromFresh

/-- a client's sequence of `extract()` calls on members of one stored folder, the cache threaded through -/
def runSeq (files : Files) (p : Params) (fname : String) (off nblocks key ctHigh : Nat) :
    List (Nat × Nat) → Option DState → List (Err × Option Bytes)
  | [], _ => []
  | (o, l) :: rest, d =>
    match extract files p d (storedMember fname off nblocks key o l ctHigh) with
    | .done e w d' => (e, w) :: runSeq files p fname off nblocks key ctHigh rest d'
    | _ => []

/-- **history independence, stored folders**: whatever members were extracted before, in whatever order (forward
    through the cached decoder, backward through a rebuilt one, the same member twice), every call returns OK with
    exactly the member's bytes — the result of a fresh decompressor (`C01_stored_extract`) -/
theorem C08_stored_any_order (files : Files) (fname : String) (bytes : Bytes) (hlook : files.lookup fname = some bytes)
    (off : Nat) (blks : List DataBlk) (hwf : ∀ b ∈ blks, b.wf) (rest : Bytes)
    (hd : bytes.drop off = blks.flatMap encData ++ rest)
    (p : Params) (hbs : 0 < p.bufSize) (key : Nat) (ctHigh : Nat) (hct : compMask (ctHigh * 16) = 0)
    (nblocks : Nat) (hnb : blks.length ≤ nblocks) (hmax : (plainOf blks).length ≤ cabLENGTHMAX)
    (ms : List (Nat × Nat)) (hms : ∀ m ∈ ms, m.1 + m.2 ≤ (plainOf blks).length) :
    runSeq files p fname off nblocks key ctHigh ms none =
      ms.map fun m => (.ok, some (((plainOf blks).drop m.1).take m.2)) := by
  suffices h : ∀ (ms : List (Nat × Nat)) (d : Option DState), StoredCache ⟨bytes, rest, blks.length⟩ key p.bufSize (plainOf blks) d →
      (∀ m ∈ ms, m.1 + m.2 ≤ (plainOf blks).length) →
      runSeq files p fname off nblocks key ctHigh ms d = ms.map fun m => (.ok, some (((plainOf blks).drop m.1).take m.2)) from
    h ms none (Or.inl rfl) hms
  intro ms
  induction ms with
  | nil => intro _ _ _; rfl
  | cons m ms ih =>
    intro d hc hm
    obtain ⟨o, l⟩ := m
    have hfit := hm (o, l) (List.mem_cons_self ..)
    obtain ⟨d', e, hc'⟩ := extract_stored_cached files fname bytes hlook off blks hwf rest hd p hbs key ctHigh hct nblocks hnb d hc o l
      hfit (by simp only at hfit; omega)
    simp only [runSeq, e, List.map_cons]
    rw [ih d' hc' (fun x hx => hm x (List.mem_cons_of_mem _ hx))]

end MsPack.Cab
