import MsPack.Chm.Extract
import Proofs.Lemmas.ChmPost
import Proofs.Props.C03Headers
/-!
# C07 for CHM — extract never writes more than declared; for stored (section 0) members OK means complete,
and the bytes are the right ones (C03 for stored members)

On the model of `chmd_extract` (`MsPack/Chm/Extract.lean`, fault-free host), for **every** content of the CHM file,
every header, every cached decompressor state and every entry `(section, offset, length)`:

* section 0 (`C07_chm_sec0_written_le`, `C07_chm_sec0_ok_complete`, `C03_chm_sec0_bytes`, `C07_chm_sec0_returns`):
  at most `length` bytes reach the output; MSPACK_ERR_OK ⇒ exactly `length` bytes, and they are the bytes of the input
  file at `sec0.offset + offset` (the sum as the C computes it, in `off_t`), all inside the file; the call always
  returns.  The copy loop's budget (`file.length / 512 + 2` rounds) is shown sufficient, so "OK" is never the
  model running out of fuel.
* `open_listed_nonneg`: every file `open()` lists has offset ≥ 0, length ≥ 0, section 0 or 1 — so `length.toNat` in
  the statements above is the declared length for every listed file; `C07_chm_open_extract_sec0` puts open and
  extract together.
* section 1 (`C07_chm_sec1_written_le`, `C07_chm_written_le`): the bound `≤ length`, given the LZX decoder's counting
  law `LzxBound` (hypothesis, as for CAB/OAB).  "OK ⇒ complete" is *not* stated for compressed members.
-/
namespace MsPack.Chm
open MsPack MsPack.Generated

/-- what the section-0 copy loop leaves behind, relative to the handle it started with -/
def CopyPost (fuel : Nat) (r : Rd) (length : Int) (acc : Bytes) (res : Option Err × Bytes × Rd) : Prop :=
  ∃ k, k ≤ length.toNat ∧ res.2.1 = acc ++ (r.file.drop r.pos).take k ∧ r.pos + k ≤ max r.pos r.file.length ∧
    (res.1 = none ∨ res.1 = some .read) ∧
    (res.1 = none → (r.file.length - r.pos) / 512 + 2 ≤ fuel → k = length.toNat)

theorem copyLoop_spec : ∀ (fuel : Nat) (r : Rd) (length : Int) (acc : Bytes),
    CopyPost fuel r length acc (copyLoop fuel r length acc) := by
  intro fuel
  induction fuel with
  | zero =>
    intro r length acc
    rw [copyLoop.eq_1]
    exact ⟨0, by omega, by simp, by omega, .inl rfl, fun _ h => by omega⟩
  | succ fuel ih =>
    intro r length acc
    rw [copyLoop.eq_2]
    by_cases hl : length ≤ 0
    · rw [if_pos hl]
      exact ⟨0, by omega, by simp, by omega, .inl rfl, fun _ _ => by omega⟩
    · rw [if_neg hl]
      generalize hrun : (if (512 : Int) > length then length.toNat else 512) = run
      have hrun1 : run ≤ length.toNat ∧ run ≤ 512 ∧ (run < 512 → length - Int.ofNat run = 0) ∧ 0 < run := by
        rw [← hrun]; split <;> simp only [Int.ofNat_eq_natCast] <;> omega
      show CopyPost (fuel + 1) r length acc
        (if ((r.file.drop r.pos).take run).length ≠ run then
            (some Err.read, acc, { r with pos := r.pos + ((r.file.drop r.pos).take run).length })
         else copyLoop fuel { r with pos := r.pos + ((r.file.drop r.pos).take run).length }
                (length - Int.ofNat run) (acc ++ (r.file.drop r.pos).take run))
      by_cases hg : ((r.file.drop r.pos).take run).length = run
      · rw [if_neg (by simpa using hg), hg]
        have hfit : r.pos + run ≤ r.file.length := by
          simp only [List.length_take, List.length_drop] at hg; omega
        obtain ⟨k, hk1, hk2, hk3, hk4, hk5⟩ := ih { r with pos := r.pos + run } (length - Int.ofNat run)
          (acc ++ (r.file.drop r.pos).take run)
        simp only at hk2 hk3 hk5
        refine ⟨run + k, by simp only [Int.ofNat_eq_natCast] at hk1; omega, ?_, by omega, hk4, ?_⟩
        · rw [hk2, List.append_assoc, List.take_add, List.drop_drop]
        · intro hn hf
          rcases Nat.lt_or_ge run 512 with hlt | hge
          · have := hrun1.2.2.1 hlt
            simp only [Int.ofNat_eq_natCast] at this hk1
            omega
          · have h512 : run = 512 := by omega
            have := hk5 hn (by subst h512; omega)
            simp only [Int.ofNat_eq_natCast] at this
            omega
      · rw [if_pos hg]
        exact ⟨0, by omega, by simp, by omega, .inr rfl, fun h => by cases h⟩

/-- the contents of the file `chmd_extract` reads from: the handle cached in the decompressor if it belongs to
    this header (`d->chm == chm`), else the file opened under `chm->filename` -/
def sec0Input (files : Files) (inst : Inst) (key : Nat) (hdr : Header) : Bytes :=
  match inst.d with
  | none => (files.lookup hdr.filename).getD []
  | some d =>
    match d.infh with
    | none => (files.lookup hdr.filename).getD []
    | some h => if d.chm = key then (files.lookup h.name).getD [] else (files.lookup hdr.filename).getD []

/-- postcondition of `extract` on a section-0 member: `src` the input file, `pos` the absolute offset -/
def Sec0Post (src : Bytes) (pos length : Int) : ExtractResult → Prop
  | .done e _ _ (some w) =>
      ∃ k, k ≤ length.toNat ∧ w = (src.drop pos.toNat).take k ∧ w.length = k ∧ (e = .ok → k = length.toNat)
  | .done e _ _ none => e = .open_
  | .unsupported _ _ => False
  | .fault _ => False

/-- `chmd_extract` from "open file for output" on, for a section-0 member, with the decompressor state `d`
    (a copy of that part of `extract`; `extract_sec0_spec` shows `extract` runs it) -/
def sec0Tail (files : Files) (hdr : Header) (d : DState) (offset length : Int) : ExtractResult :=
  if length = 0 then .done .ok { error := .ok, d := some d } hdr (some []) else
  let x : X := { error := .ok, hdr := hdr, d := d }
  let finish (x : X) (out : Bytes) : ExtractResult := .done x.error { error := x.error, d := some x.d } x.hdr (some out)
  match x.d.infh with
  | none => .fault (.nullDeref "chmd_extract: d->infh")
  | some h =>
  let file := infhBytes files x
  match seekAbs ⟨file, h.pos⟩ (wrapI64 (hdr.sec0Offset + offset)) with
  | none => finish { x with error := .seek } []
  | some r =>
    let (err, out, r') := copyLoop (file.length / 512 + 2) r length []
    let x := { x with d := { x.d with infh := some { h with pos := r'.pos } } }
    finish (match err with | some e => { x with error := e } | none => x) out

theorem sec0Tail_spec (files : Files) (hdr : Header) (d : DState) (h : InFh) (hd : d.infh = some h)
    (offset length : Int) :
    Sec0Post ((files.lookup h.name).getD []) (wrapI64 (hdr.sec0Offset + offset)) length
      (sec0Tail files hdr d offset length) := by
  unfold sec0Tail
  by_cases hl : length = 0
  · rw [if_pos hl]
    exact ⟨0, by omega, by simp, rfl, fun _ => by omega⟩
  · rw [if_neg hl]
    simp only [hd, infhBytes]
    generalize (files.lookup h.name).getD [] = file
    generalize wrapI64 (hdr.sec0Offset + offset) = pos
    unfold seekAbs
    by_cases hp : pos < 0
    · rw [if_pos hp]
      exact ⟨0, by omega, by simp, rfl, fun h => by cases h⟩
    · rw [if_neg hp]
      simp only [Rd.seekStart]
      have hs := copyLoop_spec (file.length / 512 + 2) ⟨file, pos.toNat⟩ length []
      generalize copyLoop (file.length / 512 + 2) ⟨file, pos.toNat⟩ length [] = res at hs
      obtain ⟨err, out, r'⟩ := res
      obtain ⟨k, hk1, hk2, hk3, hk4, hk5⟩ := hs
      simp only [List.nil_append] at hk2 hk3 hk4 hk5
      subst hk2
      refine ⟨k, hk1, rfl, ?_, ?_⟩
      · simp only [List.length_take, List.length_drop]; omega
      · intro he
        rcases hk4 with rfl | rfl
        · exact hk5 rfl (by
            have : (file.length - pos.toNat) / 512 ≤ file.length / 512 := Nat.div_le_div_right (by omega)
            omega)
        · cases he

theorem extract_sec0_spec (files : Files) (fill : UInt8) (inst : Inst) (key : Nat) (hdr : Header)
    (offset length : Int) :
    Sec0Post (sec0Input files inst key hdr) (wrapI64 (hdr.sec0Offset + offset)) length
      (extract files fill inst key hdr 0 offset length) := by
  unfold extract
  obtain ⟨ierr, id⟩ := inst
  cases id with
  | none =>
    simp only [sec0Input, Option.isNone_none, true_or, ↓reduceIte]
    cases hlk : files.lookup hdr.filename with
    | none => simp only [Sec0Post]
    | some file =>
      simp only [Option.getD_some]
      have := sec0Tail_spec files hdr
        { chm := key, length := wrapI64 (Int.ofNat (fill.toNat * 0x0101010101010101)), offset := 0,
          inoffset := wrapI64 (Int.ofNat (fill.toNat * 0x0101010101010101)), state := none,
          infh := some ⟨hdr.filename, 0⟩ } ⟨hdr.filename, 0⟩ rfl offset length
      simp only [hlk, Option.getD_some] at this
      exact this
  | some d0 =>
    obtain ⟨chm0, len0, off0, inoff0, st0, infh0⟩ := d0
    have reopenCase : ∀ (hre : (infh0.isNone ∨ chm0 ≠ key)),
        sec0Input files ⟨ierr, some ⟨chm0, len0, off0, inoff0, st0, infh0⟩⟩ key hdr = (files.lookup hdr.filename).getD [] := by
      intro hre
      unfold sec0Input
      cases infh0 with
      | none => rfl
      | some h0 =>
        have : chm0 ≠ key := by simpa using hre
        simp only [this, ↓reduceIte]
    by_cases hre : (infh0.isNone ∨ chm0 ≠ key)
    · rw [reopenCase hre]
      simp only [hre, ↓reduceIte]
      cases hlk : files.lookup hdr.filename with
      | none => simp only [Sec0Post]
      | some file =>
        simp only [Option.getD_some]
        have := sec0Tail_spec files hdr
          { chm := key, length := len0, offset := 0, inoffset := inoff0, state := none,
            infh := some ⟨hdr.filename, 0⟩ } ⟨hdr.filename, 0⟩ rfl offset length
        simp only [hlk, Option.getD_some] at this
        exact this
    · simp only [hre, ↓reduceIte]
      cases infh0 with
      | none => exact absurd (.inl rfl) hre
      | some h0 =>
        have hk : chm0 = key := by
          simp only [Option.isNone_some, Bool.false_eq_true, ne_eq, false_or, Decidable.not_not] at hre
          exact hre
        have hin : sec0Input files ⟨ierr, some ⟨chm0, len0, off0, inoff0, st0, some h0⟩⟩ key hdr =
            (files.lookup h0.name).getD [] := by
          simp only [sec0Input, hk, ↓reduceIte]
        rw [hin]
        exact sec0Tail_spec files hdr ⟨chm0, len0, off0, inoff0, st0, some h0⟩ h0 rfl offset length

/-! ## section 0: the theorems -/

/-- whatever the file contents, the decompressor's cached state and the header: extracting a section-0 member
    never hands more than its declared length to the output (`length.toNat`: a negative `off_t` length, which no
    directory entry can produce, counts as 0) -/
theorem C07_chm_sec0_written_le (files : Files) (fill : UInt8) (inst : Inst) (key : Nat) (hdr : Header)
    (offset length : Int) (e : Err) (inst' : Inst) (hdr' : Header) (w : Bytes)
    (h : extract files fill inst key hdr 0 offset length = .done e inst' hdr' (some w)) :
    w.length ≤ length.toNat := by
  have := extract_sec0_spec files fill inst key hdr offset length
  rw [h] at this
  obtain ⟨k, hk, _, hw, _⟩ := this
  omega

/-- MSPACK_ERR_OK means complete: exactly the declared number of bytes were written
    (contrapositive: fewer bytes — a truncated file, a member reaching beyond the end — give a non-OK status) -/
theorem C07_chm_sec0_ok_complete (files : Files) (fill : UInt8) (inst : Inst) (key : Nat) (hdr : Header)
    (offset length : Int) (inst' : Inst) (hdr' : Header) (w : Bytes)
    (h : extract files fill inst key hdr 0 offset length = .done .ok inst' hdr' (some w)) :
    w.length = length.toNat := by
  have := extract_sec0_spec files fill inst key hdr offset length
  rw [h] at this
  obtain ⟨k, _, _, hw, hk⟩ := this
  have := hk rfl
  omega

/-- the same with the length as the `off_t` it is, for the non-negative lengths directory entries have
    (`listed_nonneg` below) -/
theorem C07_chm_sec0_ok_complete_int (files : Files) (fill : UInt8) (inst : Inst) (key : Nat) (hdr : Header)
    (offset length : Int) (hlen : 0 ≤ length) (inst' : Inst) (hdr' : Header) (w : Bytes)
    (h : extract files fill inst key hdr 0 offset length = .done .ok inst' hdr' (some w)) :
    Int.ofNat w.length = length := by
  have := C07_chm_sec0_ok_complete files fill inst key hdr offset length inst' hdr' w h
  simp only [Int.ofNat_eq_natCast]
  omega

/-- content correctness for stored members: on MSPACK_ERR_OK the output is exactly the `length` bytes of the input
    file at `sec0.offset + file->offset` (the sum in `off_t`), and all of them lie inside the file -/
theorem C03_chm_sec0_bytes (files : Files) (fill : UInt8) (inst : Inst) (key : Nat) (hdr : Header)
    (offset length : Int) (inst' : Inst) (hdr' : Header) (w : Bytes)
    (h : extract files fill inst key hdr 0 offset length = .done .ok inst' hdr' (some w)) :
    w = ((sec0Input files inst key hdr).drop (wrapI64 (hdr.sec0Offset + offset)).toNat).take length.toNat ∧
    (0 < length → (wrapI64 (hdr.sec0Offset + offset)).toNat + length.toNat ≤ (sec0Input files inst key hdr).length) := by
  have := extract_sec0_spec files fill inst key hdr offset length
  rw [h] at this
  obtain ⟨k, _, hw, hwl, hk⟩ := this
  have hk := hk rfl
  subst hk
  refine ⟨hw, fun hne => ?_⟩
  rw [hw] at hwl
  simp only [List.length_take, List.length_drop] at hwl
  omega

/-- a fresh decompressor (or one whose cached handle belongs to another header) reads the file named in the header -/
theorem sec0Input_fresh (files : Files) (e : Err) (key : Nat) (hdr : Header) :
    sec0Input files { error := e, d := none } key hdr = (files.lookup hdr.filename).getD [] := rfl

/-- with no `off_t` wrap-around in `sec0.offset + file->offset` the position is the plain sum -/
theorem wrapI64_id (x : Int) (h0 : 0 ≤ x) (h1 : x < 9223372036854775808) : wrapI64 x = x := by
  unfold wrapI64; omega

/-- the section-0 branch of `extract` always returns (no undefined behaviour, nothing unmodelled), and it returns
    without an output file only when the CHM file cannot be opened -/
theorem C07_chm_sec0_returns (files : Files) (fill : UInt8) (inst : Inst) (key : Nat) (hdr : Header)
    (offset length : Int) :
    ∃ e inst' hdr' out, extract files fill inst key hdr 0 offset length = .done e inst' hdr' out ∧
      (out = none → e = .open_) := by
  have := extract_sec0_spec files fill inst key hdr offset length
  generalize extract files fill inst key hdr 0 offset length = res at this
  cases res with
  | done e i h out =>
    refine ⟨e, i, h, out, rfl, ?_⟩
    rintro rfl
    exact this
  | unsupported _ _ => exact this.elim
  | fault _ => exact this.elim


/-! ## what the listing guarantees about its entries -/

/-- offsets and lengths of listed files are non-negative `off_t`s, their section is 0 or 1 -/
def FilesNonneg (l : List CFile) : Prop := ∀ f ∈ l, 0 ≤ f.offset ∧ 0 ≤ f.length ∧ f.sec ≤ 1

theorem addEntry_nonneg (w : Walk) (name : Bytes) (nameLen sec : Nat) (offset length : Int)
    (ho : 0 ≤ offset) (hl : 0 ≤ length) (hw : FilesNonneg w.filesRev) :
    FilesNonneg (addEntry w name nameLen sec offset length).filesRev := by
  unfold addEntry
  repeat' split
  all_goals first
    | exact hw
    | (intro f hf
       simp only [List.mem_cons] at hf
       rcases hf with rfl | hf
       · exact ⟨ho, hl, by first | (simp only; omega) | (simp only; split <;> omega)⟩
       · exact hw f hf)

theorem readEntries_nonneg (chunk : Bytes) (e : Nat) : ∀ (n p : Nat) (w w' : Walk) (bad : Bool),
    FilesNonneg w.filesRev → readEntries chunk e n p w = .ok (w', bad) → FilesNonneg w'.filesRev := by
  intro n
  induction n with
  | zero =>
    intro p w w' bad hw h
    rw [readEntries.eq_1] at h
    cases h; exact hw
  | succ n ih =>
    intro p w w' bad hw h
    rw [readEntries.eq_2] at h
    simp +zeta only at h
    repeat' split at h
    all_goals first
      | (cases h; done)
      | (cases h; exact hw)
      | (refine ih _ _ _ _ ?_ h
         exact addEntry_nonneg _ _ _ _ _ _ (by simp) (by simp) hw)

theorem readChunks_nonneg (cs : Nat) : ∀ (n : Nat) (r : Rd) (w w' : Walk),
    FilesNonneg w.filesRev → readChunks cs n r w = .ok (.ok w') → FilesNonneg w'.filesRev := by
  intro n
  induction n with
  | zero =>
    intro r w w' hw h
    rw [readChunks.eq_1] at h
    cases h; exact hw
  | succ n ih =>
    intro r w w' hw h
    rw [readChunks.eq_2] at h
    split at h
    · cases h
    · split at h
      · exact ih _ _ _ hw h
      · simp +zeta only at h
        split at h
        · cases h
        · rename_i w1 bad hre
          refine ih _ _ _ ?_ h
          have := readEntries_nonneg _ _ _ _ _ _ _ hw hre
          split <;> exact this
/-- what `chmd_read_headers` guarantees about a header it returns -/
def ListedPost (filename : String) : Except Fault (Except Err Parsed) → Prop
  | .ok (.ok p) => FilesNonneg p.hdr.files ∧ p.hdr.filename = filename
  | _ => True

theorem post_err (filename : String) (e : Err) : ListedPost filename (.ok (.error e)) := True.intro

theorem readHeaders_post (filename : String) (file : Bytes) (entire : Bool) :
    ListedPost filename (readHeaders filename file entire) := by
  unfold readHeaders
  apply post_read (Q := ListedPost filename) _ _ _ (post_err _ _); intro b1 r1
  apply post_ite (Q := ListedPost filename) _ _ _ (post_err _ _)
  apply post_ite (Q := ListedPost filename) _ _ _ (post_err _ _)
  zeta_arg
  apply post_read (Q := ListedPost filename) _ _ _ (post_err _ _); intro b2 r2
  zeta_arg
  generalize seekAbs r2 (i64At b2 chmhst_OffsetHS0) = sk1
  apply post_seek (Q := ListedPost filename) _ _ _ (post_err _ _); intro r3
  apply post_read (Q := ListedPost filename) _ _ _ (post_err _ _); intro b3 r4
  zeta_arg
  generalize seekAbs r4 (i64At b2 chmhst_OffsetHS1) = sk2
  apply post_seek (Q := ListedPost filename) _ _ _ (post_err _ _); intro r5
  apply post_read (Q := ListedPost filename) _ _ _ (post_err _ _); intro b4 r6
  zeta_arg
  generalize u32At b1 chmhead_Version = version
  generalize u32BEAt b1 chmhead_Timestamp = timestamp
  generalize u32At b1 chmhead_LanguageID = language
  generalize i64At b2 chmhst3_OffsetCS0 = sec0Offset0
  generalize i64At b3 chmhs0_FileLen = length
  generalize u32At b4 chmhs1_ChunkSize = chunkSize
  generalize u32At b4 chmhs1_Density = density
  generalize u32At b4 chmhs1_Depth = depth
  generalize u32At b4 chmhs1_IndexRoot = indexRoot
  generalize u32At b4 chmhs1_NumChunks = numChunks
  generalize u32At b4 chmhs1_FirstPMGL = firstPmgl
  generalize u32At b4 chmhs1_LastPMGL = lastPmgl
  apply post_ite (Q := ListedPost filename) _ _ _ (post_err _ _)
  apply post_ite (Q := ListedPost filename) _ _ _ (post_err _ _)
  apply post_ite (Q := ListedPost filename) _ _ _ (post_err _ _)
  apply post_ite (Q := ListedPost filename) _ _ _ (post_err _ _)
  apply post_ite (Q := ListedPost filename) _ _ _ (post_err _ _)
  apply post_ite (Q := ListedPost filename) _ _ _ (post_err _ _)
  apply post_ite (Q := ListedPost filename) _ _ _ (post_err _ _)
  apply post_ite (Q := ListedPost filename) _ _ _ (post_err _ _)
  zeta_arg
  apply post_ite (Q := ListedPost filename)
  · exact ⟨(fun f hf => nomatch hf), rfl⟩
  zeta_arg
  generalize hrc : readChunks _ _ _ _ = rc
  apply post_chunks (Q := ListedPost filename)
  · intro f _; exact True.intro
  · intro e _; exact post_err _ _
  · intro w hw
    subst hw
    zeta_arg
    refine ⟨?_, rfl⟩
    have := readChunks_nonneg _ _ _ _ _ (by intro f hf; cases hf) hrc
    intro f hf
    exact this f (by simpa using hf)

theorem readHeaders_listed (filename : String) (file : Bytes) (entire : Bool) (p : Parsed)
    (h : readHeaders filename file entire = .ok (.ok p)) :
    FilesNonneg p.hdr.files ∧ p.hdr.filename = filename := by
  have := readHeaders_post filename file entire
  rw [h] at this
  exact this

/-- `chmd_real_open` returns a header only if `chmd_read_headers` produced it -/
theorem realOpen_some (filename : String) (file : Bytes) (entire : Bool) (e : Err) (hdr : Header)
    (h : realOpen filename file entire = .ok (e, some hdr)) :
    ∃ p, readHeaders filename file entire = .ok (.ok p) ∧ p.hdr = hdr := by
  unfold realOpen at h
  generalize readHeaders filename file entire = res at h ⊢
  split at h
  · cases h
  · cases h
  · rename_i p
    refine ⟨p, rfl, ?_⟩
    split at h
    · cases h; rfl
    · split at h
      · cases h; rfl
      · cases h

/-- every file `open()` lists has a non-negative offset and length and lives in section 0 or 1, and the header
    carries the name it was opened under — for every file content -/
theorem open_listed_nonneg (filename : String) (file : Bytes) (entire : Bool) (e : Err) (hdr : Header)
    (h : realOpen filename file entire = .ok (e, some hdr)) :
    FilesNonneg hdr.files ∧ hdr.filename = filename := by
  obtain ⟨p, hp, rfl⟩ := realOpen_some filename file entire e hdr h
  exact readHeaders_listed filename file entire p hp

/-! ## section 1 (MSCompressed): the bound, generically over the LZX decoder's counting law -/

/-- counting law of `lzxd_decompress(lzx, n)` as chmd.c uses it (input = the CHM file handle): at most `n` bytes are
    handed to `chmd_sys_write` (hypothesis; the same law the CAB and OAB theorems assume, its `≤` half) -/
def LzxBound : Prop :=
  ∀ (fuel : Nat) (st : Lzx.St Rd) (n : Nat) (o : DecodeOut (Lzx.St Rd)),
    Lzx.decompress rdSrc fuel st n = .ok o → o.written.length ≤ n

theorem lzxCall_bound (hL : LzxBound) (files : Files) (x : X) (bytes : Int) (e : Err) (w : Bytes) (x' : X)
    (h : lzxCall files x bytes = .ok (some (e, w, x'))) : w.length ≤ bytes.toNat := by
  unfold lzxCall at h
  split at h
  · cases h; simp
  · cases h
  · split at h
    · cases h; simp
    · split at h
      · cases h
      · simp +zeta only at h
        split at h
        · cases h
        · rename_i o ho
          cases h
          exact hL _ _ _ _ ho

def WrittenLe (length : Int) : ExtractResult → Prop
  | .done _ _ _ (some w) => w.length ≤ length.toNat
  | _ => True

theorem extract_sec1_le (hL : LzxBound) (files : Files) (fill : UInt8) (inst : Inst) (key : Nat) (hdr : Header)
    (sec : Nat) (hsec : sec ≠ 0) (offset length : Int) :
    WrittenLe length (extract files fill inst key hdr sec offset length) := by
  unfold extract
  simp only [hsec, ↓reduceIte]
  repeat' split
  all_goals try (simp only [WrittenLe]; done)
  all_goals try (simp only [WrittenLe, List.length_nil]; omega)
  all_goals (
    have hph2 := ‹_ = Except.ok (some (_, _))›
    simp only [WrittenLe]
    split at hph2
    · cases hph2; simp
    · split at hph2
      · cases hph2
      · cases hph2
      · rename_i hcall
        cases hph2
        have := lzxCall_bound hL _ _ _ _ _ _ hcall
        split at this <;> omega)

/-- `chmd_extract` on a member of the compressed section, **every** input and decompressor state: given the LZX
    counting law, never more than the declared length reaches the output.  (No "OK ⇒ complete" here: it needs more
    than a counting law — when `length > d->length - offset` the C asks the decoder for fewer bytes than declared and
    relies on the decoder failing.) -/
theorem C07_chm_sec1_written_le (hL : LzxBound) (files : Files) (fill : UInt8) (inst : Inst) (key : Nat) (hdr : Header)
    (sec : Nat) (hsec : sec ≠ 0) (offset length : Int) (e : Err) (inst' : Inst) (hdr' : Header) (w : Bytes)
    (h : extract files fill inst key hdr sec offset length = .done e inst' hdr' (some w)) :
    w.length ≤ length.toNat := by
  have := extract_sec1_le hL files fill inst key hdr sec hsec offset length
  rw [h] at this
  exact this

/-- either section -/
theorem C07_chm_written_le (hL : LzxBound) (files : Files) (fill : UInt8) (inst : Inst) (key : Nat) (hdr : Header)
    (sec : Nat) (offset length : Int) (e : Err) (inst' : Inst) (hdr' : Header) (w : Bytes)
    (h : extract files fill inst key hdr sec offset length = .done e inst' hdr' (some w)) :
    w.length ≤ length.toNat := by
  by_cases hsec : sec = 0
  · subst hsec
    exact C07_chm_sec0_written_le files fill inst key hdr offset length e inst' hdr' w h
  · exact C07_chm_sec1_written_le hL files fill inst key hdr sec hsec offset length e inst' hdr' w h

/-! ## open + extract -/

/-- the statement end to end: whatever bytes the file `name` holds, if `open()` returns a header, `f` is one of its
    listed files and lives in section 0, then extracting it with a fresh decompressor writes at most `f.length` bytes;
    and if the status is MSPACK_ERR_OK it wrote exactly `f.length` bytes, which are the bytes of the file at
    `sec0.offset + f.offset` (in `off_t` arithmetic) -/
theorem C07_chm_open_extract_sec0 (files : Files) (name : String) (file : Bytes) (hfile : files.lookup name = some file)
    (fill : UInt8) (ierr : Err) (key : Nat) (oe : Err) (hdr : Header)
    (hopen : realOpen name file true = .ok (oe, some hdr))
    (f : CFile) (hf : f ∈ hdr.files) (hsec : f.sec = 0)
    (e : Err) (inst' : Inst) (hdr' : Header) (w : Bytes)
    (h : extract files fill { error := ierr, d := none } key hdr f.sec f.offset f.length = .done e inst' hdr' (some w)) :
    Int.ofNat w.length ≤ f.length ∧
    (e = .ok → Int.ofNat w.length = f.length ∧
      w = (file.drop (wrapI64 (hdr.sec0Offset + f.offset)).toNat).take f.length.toNat) := by
  obtain ⟨hnn, hname⟩ := open_listed_nonneg name file true oe hdr hopen
  obtain ⟨_, hlen, _⟩ := hnn f hf
  rw [hsec] at h
  have hle := C07_chm_sec0_written_le _ _ _ _ _ _ _ _ _ _ _ h
  refine ⟨by simp only [Int.ofNat_eq_natCast]; omega, ?_⟩
  rintro rfl
  refine ⟨C07_chm_sec0_ok_complete_int _ _ _ _ _ _ _ hlen _ _ _ h, ?_⟩
  have := (C03_chm_sec0_bytes _ _ _ _ _ _ _ _ _ _ h).1
  rw [sec0Input_fresh, hname, hfile] at this
  exact this

/-! ## the premises are satisfiable -/

/-- a member inside the file: OK and the three bytes at `sec0.offset + offset` = 2 + 1 -/
example : ∃ inst' hdr', extract [("x.chm", [9, 9, 1, 2, 3, 4, 5])] 0 {} 0 { filename := "x.chm", sec0Offset := 2 } 0 1 3
    = .done .ok inst' hdr' (some [2, 3, 4]) := ⟨_, _, rfl⟩

/-- a member reaching beyond the end of the file: MSPACK_ERR_READ, and the short run is not written -/
example : ∃ inst' hdr', extract [("x.chm", [9, 9, 1, 2, 3, 4, 5])] 0 {} 0 { filename := "x.chm", sec0Offset := 2 } 0 1 10
    = .done .read inst' hdr' (some []) := ⟨_, _, rfl⟩

set_option maxRecDepth 100000 in
/-- end to end on the CHM file of `C03Headers.lean`: `open()` lists "/b" (section 0, offset 5, length 1) and
    extracting it gives OK and the sixth content byte — the hypotheses of `C07_chm_open_extract_sec0` hold together -/
example : ∃ hdr f inst' hdr', realOpen "x.chm" (encodeChm exampleSpec) true = .ok (.ok, some hdr) ∧
    f ∈ hdr.files ∧ f.sec = 0 ∧
    extract [("x.chm", encodeChm exampleSpec)] 0 {} 0 hdr f.sec f.offset f.length = .done .ok inst' hdr' (some [6]) :=
  ⟨_, ⟨[0x2F, 0x62], 0, 5, 1⟩, _, _, C03_open_roundtrip exampleSpec exampleSpec_wf "x.chm", by decide, rfl, rfl⟩

end MsPack.Chm
