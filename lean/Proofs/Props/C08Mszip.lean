import Proofs.Lemmas.ZipChunk
import Proofs.Lemmas.LoopTermZip
import Proofs.Props.C02Zip
import Proofs.Props.C01Mszip
/-!
# C08 for MSZIP, decoder level: the chunking law of `Zip.decompress` and what follows from it

`mszipd_decompress(zip, n)` hands out the not yet delivered bytes of the current frame (`pending`) and inflates the
next `CK` frame when they run out.  Here (lemmas: `Proofs/Lemmas/ZipChunk.lean`), for every source, every state
with `ZipInv` (the window is the 32 KiB frame — what `init` establishes and every call keeps, `C02Zip`), every
input, repair mode on or off:

* `C08_mszip_chunk_law` — **asking for `a` and then for `b` is asking for `a + b`**: if the `a`-call returns OK
  with `w1`, and the `b`-call from the state it left returns status `e2` with `w2`, then the single `a + b`-call
  returns `e2` with `w1 ++ w2` and leaves *exactly the same state* (all fields; nothing has to be quotiented out).
  Fuel: `fuel` bounds the inner loops (`scanCK`, `inflate`) and, in `decompress`, also the number of block rounds;
  a round count that suffices for the single call is the sum of the two (`decompressN S fuel (fuel + fuel)`,
  inner bound unchanged); with the round count `fuel` the single call gives that result or `hang`, and for a
  source with a byte budget (`SrcOK`, e.g. the CAB feeder) and `fuel` above the bits still obtainable it is not
  `hang` (`C08_mszip_chunk_law_src`).
* `C08_mszip_chunk_split` — the converse, with no condition on the fuel: an `a + b`-call that returns OK with `w`
  is an `a`-call returning OK with `w.take a` followed by a `b`-call returning OK with `w.drop a`, same final state.
* `C08_mszip_calls` — any way of cutting `N` into call sizes gives the bytes of the single `N`-call, piece by piece,
  and ends in the same state.
* `C08_mszip_any_order_model` — history independence for a *decoder-level model of `cabd_extract`'s cache* (keep
  the decoder with the offset it has reached; re-use it iff the next member does not start before that offset,
  otherwise start again from the fresh state; skip, then extract): if the fresh state can deliver `[0, N)` in one
  call with OK and data `D`, every list of member requests inside `[0, N)`, in any order, returns OK with the
  member's slice of `D`.

What makes the law true (and would break it): a frame step that ends the call early must carry a real error —
`inflate`/`scanCK` raise `sys e` only with `e = read ≠ ok`; and the sticky `error` field must still be `ok` after a
frame that was delivered — it is written only immediately before a `sys` exception (`ZipChunk.K`, one lemma per
helper).  The frame itself has `bytesOutput ≤ 32768 = window.size` bytes (`ZipBounds`), so the C's
`min(out_bytes, bytes_output)` is the number of bytes actually taken.

Further: `C08_mszip_fuel_mono` / `C08_mszip_fuel_irrelevant` (more fuel never changes a result that is not `hang`),
`C08_mszip_chunk_law_fuel` (the law for plain `decompress` with any fuel ≥ twice the one that sufficed for the two
calls), and `Cab.C08_mszip_cab_chunk` (the law for the call `Cab.decompress files (.mszip st) fd n` that `runPhase`
makes, where the fuel `chainFuel files fd` changes with the feeder).

Not here: the lift to `Cab.extract` itself (cache invariant "the cached decoder is the fresh one after one OK call
for `offset` bytes" through `obtainDState`/`runPhases`, and the fuel inequality of `C04_zip_cab_no_hang` for the
states reached, which `C08_mszip_cab_chunk` takes as the hypothesis "the single call is not `hang`").
-/
namespace MsPack.Zip
open MsPack MsPack.Generated
open MsPack.Zip.ZipChunk (decompressN)

variable {σ : Type} (S : Src σ)

/-! ## the law -/

/-- **chunking law** (`a` then `b` ⇒ `a + b`) -/
theorem C08_mszip_chunk_law (fuel : Nat) (st : St σ) (hst : ZipInv st) (a b : Nat)
    (w1 : Bytes) (st1 : St σ) (e2 : Err) (w2 : Bytes) (st2 : St σ)
    (h1 : decompress S fuel st a = .ok ⟨.ok, w1, st1⟩)
    (h2 : decompress S fuel st1 b = .ok ⟨e2, w2, st2⟩) :
    decompressN S fuel (fuel + fuel) st (a + b) = .ok ⟨e2, w1 ++ w2, st2⟩ ∧
    (decompress S fuel st (a + b) ≠ .error .hang →
      decompress S fuel st (a + b) = .ok ⟨e2, w1 ++ w2, st2⟩) := by
  have hj := ZipChunk.chunk_joinN S fuel fuel st a w1 st1 hst h1 fuel b e2 w2 st2 h2
  refine ⟨hj, fun hnh => ?_⟩
  rw [ZipChunk.decompress_eq] at hnh ⊢
  rw [← ZipChunk.decompressN_mono S fuel fuel fuel st (a + b) hnh]
  exact hj

/-- the round count is a parameter of its own in the law: `n` rounds for `a`, `m` for `b`, `n + m` for `a + b` -/
theorem C08_mszip_chunk_lawN (fuel n m : Nat) (st : St σ) (hst : ZipInv st) (a b : Nat)
    (w1 : Bytes) (st1 : St σ) (e2 : Err) (w2 : Bytes) (st2 : St σ)
    (h1 : decompressN S fuel n st a = .ok ⟨.ok, w1, st1⟩)
    (h2 : decompressN S fuel m st1 b = .ok ⟨e2, w2, st2⟩) :
    decompressN S fuel (n + m) st (a + b) = .ok ⟨e2, w1 ++ w2, st2⟩ :=
  ZipChunk.chunk_joinN S fuel n st a w1 st1 hst h1 m b e2 w2 st2 h2

/-- `decompressN` with the round count `fuel` is `decompress` -/
theorem C08_mszip_decompressN_eq (fuel : Nat) (st : St σ) (n : Nat) :
    decompressN S fuel fuel st n = decompress S fuel st n := rfl

/-- the law with one fuel for a source with a byte budget: `fuel` above the bits still obtainable -/
theorem C08_mszip_chunk_law_src {rem : σ → Nat} (hS : SrcOK S rem) (fuel : Nat) (st : St σ) (hst : ZipInv st)
    (hf : bitsLeft rem st + 1 ≤ fuel) (a b : Nat)
    (w1 : Bytes) (st1 : St σ) (e2 : Err) (w2 : Bytes) (st2 : St σ)
    (h1 : decompress S fuel st a = .ok ⟨.ok, w1, st1⟩)
    (h2 : decompress S fuel st1 b = .ok ⟨e2, w2, st2⟩) :
    decompress S fuel st (a + b) = .ok ⟨e2, w1 ++ w2, st2⟩ :=
  (C08_mszip_chunk_law S fuel st hst a b w1 st1 e2 w2 st2 h1 h2).2
    (C04_zip_decompress_no_hang hS fuel st (a + b) hf)

/-- more fuel never changes a result that is not `hang` (inner loops and block rounds alike) -/
theorem C08_mszip_fuel_mono (fuel k : Nat) (st : St σ) (n : Nat) (h : decompress S fuel st n ≠ .error .hang) :
    decompress S (fuel + k) st n = decompress S fuel st n :=
  ZipChunk.decompress_fuel_mono S fuel k st n h

/-- two fuels that both suffice give the same answer and the same state -/
theorem C08_mszip_fuel_irrelevant (f1 f2 : Nat) (st : St σ) (n : Nat) (o1 o2 : Out σ)
    (h1 : decompress S f1 st n = .ok o1) (h2 : decompress S f2 st n = .ok o2) : o1 = o2 := by
  rcases Nat.le_total f1 f2 with h | h
  · obtain ⟨k, rfl⟩ := Nat.exists_eq_add_of_le h
    rw [C08_mszip_fuel_mono S f1 k st n (by rw [h1]; exact fun hc => nomatch hc), h1] at h2
    exact Except.ok.inj h2
  · obtain ⟨k, rfl⟩ := Nat.exists_eq_add_of_le h
    rw [C08_mszip_fuel_mono S f2 k st n (by rw [h2]; exact fun hc => nomatch hc), h2] at h1
    exact (Except.ok.inj h1).symm

/-- **chunking law, one fuel, no side condition**: whatever fuel sufficed for the two calls, twice that (or more)
    suffices for the single call, which returns the second status, `w1 ++ w2` and the same state -/
theorem C08_mszip_chunk_law_fuel (fuel : Nat) (st : St σ) (hst : ZipInv st) (a b : Nat)
    (w1 : Bytes) (st1 : St σ) (e2 : Err) (w2 : Bytes) (st2 : St σ)
    (h1 : decompress S fuel st a = .ok ⟨.ok, w1, st1⟩)
    (h2 : decompress S fuel st1 b = .ok ⟨e2, w2, st2⟩)
    (fuel' : Nat) (hf : fuel + fuel ≤ fuel') :
    decompress S fuel' st (a + b) = .ok ⟨e2, w1 ++ w2, st2⟩ := by
  have g1 : decompressN S (fuel + fuel) fuel st a = .ok ⟨.ok, w1, st1⟩ := by
    rw [ZipChunk.decompressN_fuel_mono S fuel fuel fuel st a (by
      rw [C08_mszip_decompressN_eq, h1]; exact fun hc => nomatch hc)]
    exact h1
  have g2 : decompressN S (fuel + fuel) fuel st1 b = .ok ⟨e2, w2, st2⟩ := by
    rw [ZipChunk.decompressN_fuel_mono S fuel fuel fuel st1 b (by
      rw [C08_mszip_decompressN_eq, h2]; exact fun hc => nomatch hc)]
    exact h2
  have hj : decompress S (fuel + fuel) st (a + b) = .ok ⟨e2, w1 ++ w2, st2⟩ :=
    ZipChunk.chunk_joinN S (fuel + fuel) fuel st a w1 st1 hst g1 fuel b e2 w2 st2 g2
  obtain ⟨k, rfl⟩ := Nat.exists_eq_add_of_le hf
  rw [C08_mszip_fuel_mono S (fuel + fuel) k st (a + b) (by rw [hj]; exact fun hc => nomatch hc), hj]

/-- **the converse** (`a + b` ⇒ `a` then `b`), same fuel -/
theorem C08_mszip_chunk_split (fuel : Nat) (st : St σ) (hst : ZipInv st) (a b : Nat) (w : Bytes) (st2 : St σ)
    (h : decompress S fuel st (a + b) = .ok ⟨.ok, w, st2⟩) :
    ∃ st1, decompress S fuel st a = .ok ⟨.ok, w.take a, st1⟩ ∧ ZipInv st1 ∧
      decompress S fuel st1 b = .ok ⟨.ok, w.drop a, st2⟩ ∧ w.length = a + b := by
  obtain ⟨w1, st1, w2, k1, k2, rfl⟩ := ZipChunk.chunk_splitN S fuel fuel st a b w st2 hst h
  have hl := ZipChunk.ok_length S fuel fuel st a w1 st1 hst k1
  have hst1 : ZipInv st1 := C02_zip_decompress_inv S fuel st a hst _ k1
  have hl2 := ZipChunk.ok_length S fuel fuel st1 b w2 st2 hst1 k2
  refine ⟨st1, ?_, hst1, ?_, by rw [List.length_append, hl, hl2]⟩
  · have t : (w1 ++ w2).take a = w1 := by rw [← hl]; exact List.take_left ..
    rw [t]; exact k1
  · have t : (w1 ++ w2).drop a = w2 := by rw [← hl]; exact List.drop_left ..
    rw [t]; exact k2

/-- an OK answer has the length asked for -/
theorem C08_mszip_ok_length (fuel : Nat) (st : St σ) (hst : ZipInv st) (n : Nat) (w : Bytes) (st1 : St σ)
    (h : decompress S fuel st n = .ok ⟨.ok, w, st1⟩) : w.length = n :=
  ZipChunk.ok_length S fuel fuel st n w st1 hst h

/-! ## any split of `N` into call sizes -/

/-- a client's sequence of `decompress` calls of the given sizes, the decoder state threaded through: what each
    call returned, and the state at the end (a fault ends the sequence) -/
def mszipCalls (fuel : Nat) : List Nat → St σ → List (Err × Bytes) × St σ
  | [], st => ([], st)
  | c :: cs, st =>
    match decompress S fuel st c with
    | .ok o => let r := mszipCalls fuel cs o.st; ((o.err, o.written) :: r.1, r.2)
    | .error _ => ([], st)

/-- `D` cut into pieces of the given sizes, each with status OK -/
def okSlices : Bytes → List Nat → List (Err × Bytes)
  | _, [] => []
  | D, c :: cs => (.ok, D.take c) :: okSlices (D.drop c) cs

/-- **any split of `N` into call sizes gives `D`**: piece by piece, and the same final state -/
theorem C08_mszip_calls (fuel : Nat) : ∀ (cs : List Nat) (st : St σ) (D : Bytes) (stN : St σ), ZipInv st →
    decompress S fuel st cs.sum = .ok ⟨.ok, D, stN⟩ →
    mszipCalls S fuel cs st = (okSlices D cs, stN) := by
  intro cs
  induction cs with
  | nil =>
    intro st D stN _ h
    have he := ZipChunk.decompressN_err_ok S fuel fuel st _ D stN h
    have := ZipChunk.pend_exact S fuel fuel st he 0 (Nat.zero_le _)
    rw [List.sum_nil, ZipChunk.decompress_eq, this] at h
    simp only [Except.ok.injEq, Out.mk.injEq, true_and] at h
    obtain ⟨_, rfl⟩ := h
    rfl
  | cons c cs ih =>
    intro st D stN hst h
    rw [List.sum_cons] at h
    obtain ⟨st1, k1, hst1, k2, _⟩ := C08_mszip_chunk_split S fuel st hst c cs.sum D stN h
    simp only [mszipCalls, k1, okSlices]
    rw [ih st1 (D.drop c) stN hst1 k2]

/-- the pieces put together are `D` -/
theorem okSlices_flatten : ∀ (cs : List Nat) (D : Bytes), D.length = cs.sum →
    ((okSlices D cs).map (·.2)).flatten = D := by
  intro cs
  induction cs with
  | nil => intro D h; rw [List.sum_nil] at h; rw [List.eq_nil_of_length_eq_zero h]; rfl
  | cons c cs ih =>
    intro D h
    rw [List.sum_cons] at h
    simp only [okSlices, List.map_cons, List.flatten_cons]
    rw [ih (D.drop c) (by rw [List.length_drop]; omega), List.take_append_drop]

/-! ## history independence, decoder-level model of the `cabd_extract` cache -/

/-- the decoder `extract` works with: the cached one iff it has not passed `o`, otherwise the fresh state -/
def cachePick (st0 : St σ) (cache : Option (St σ × Nat)) (o : Nat) : St σ × Nat :=
  match cache with
  | some (st, off) => if off ≤ o then (st, off) else (st0, 0)
  | none => (st0, 0)

/-- one `extract(offset o, length l)` against a cached decoder `(state, offset reached)`: re-use it iff it has not
    passed `o`, otherwise the fresh state `st0`; nothing to do for an empty member; skip phase (output discarded)
    unless already there; output phase.  (`Cab.extract` / `obtainDState` / `runPhases` with the CAB bookkeeping
    taken away and one fuel for all calls.) -/
def cacheExtract (fuel : Nat) (st0 : St σ) (cache : Option (St σ × Nat)) (o l : Nat) :
    Except Fault (Err × Bytes × (St σ × Nat)) :=
  let c : St σ × Nat := cachePick st0 cache o
  if l = 0 then .ok (.ok, [], c) else
  let skip := o - c.2
  if skip = 0 then
    match decompress S fuel c.1 l with
    | .error f => .error f
    | .ok r => .ok (r.err, r.written, (r.st, c.2 + r.written.length))
  else
    match decompress S fuel c.1 skip with
    | .error f => .error f
    | .ok r1 =>
      if r1.err ≠ .ok then .ok (r1.err, [], (r1.st, c.2 + r1.written.length)) else
      match decompress S fuel r1.st l with
      | .error f => .error f
      | .ok r => .ok (r.err, r.written, (r.st, c.2 + r1.written.length + r.written.length))

/-- a list of member requests, the cache threaded through -/
def cacheSeq (fuel : Nat) (st0 : St σ) : List (Nat × Nat) → Option (St σ × Nat) → List (Err × Bytes)
  | [], _ => []
  | (o, l) :: rest, c =>
    match cacheExtract S fuel st0 c o l with
    | .ok (e, w, c') => (e, w) :: cacheSeq fuel st0 rest (some c')
    | .error _ => []

/-- the cache invariant: the decoder at offset `off` can still deliver `[off, N)` in one call -/
def CacheOk (fuel : Nat) (N : Nat) (D : Bytes) (stN : St σ) (c : St σ × Nat) : Prop :=
  ZipInv c.1 ∧ c.2 ≤ N ∧ decompress S fuel c.1 (N - c.2) = .ok ⟨.ok, D.drop c.2, stN⟩

/-- going `k` bytes forward keeps the invariant and delivers the slice -/
theorem cache_advance (fuel N : Nat) (D : Bytes) (stN : St σ) (c : St σ × Nat) (hc : CacheOk S fuel N D stN c)
    (k : Nat) (hk : c.2 + k ≤ N) :
    ∃ st1, decompress S fuel c.1 k = .ok ⟨.ok, (D.drop c.2).take k, st1⟩ ∧ ((D.drop c.2).take k).length = k ∧
      CacheOk S fuel N D stN (st1, c.2 + k) := by
  obtain ⟨h1, h2, h3⟩ := hc
  have e : N - c.2 = k + (N - (c.2 + k)) := by omega
  rw [e] at h3
  obtain ⟨st1, k1, hst1, k2, _⟩ := C08_mszip_chunk_split S fuel c.1 h1 k _ _ stN h3
  refine ⟨st1, k1, C08_mszip_ok_length S fuel c.1 h1 k _ st1 k1, hst1, hk, ?_⟩
  rw [List.drop_drop] at k2
  exact k2

/-- one request inside `[0, N)`, whatever the cache holds -/
theorem cacheExtract_ok (fuel N : Nat) (D : Bytes) (st0 stN : St σ) (h0 : CacheOk S fuel N D stN (st0, 0))
    (cache : Option (St σ × Nat)) (hcache : ∀ c, cache = some c → CacheOk S fuel N D stN c)
    (o l : Nat) (hfit : o + l ≤ N) :
    ∃ c', cacheExtract S fuel st0 cache o l = .ok (.ok, (D.drop o).take l, c') ∧ CacheOk S fuel N D stN c' := by
  unfold cacheExtract
  -- the decoder picked
  have hpick : ∃ c : St σ × Nat, cachePick st0 cache o = c ∧ CacheOk S fuel N D stN c ∧ c.2 ≤ o := by
    cases cache with
    | none => exact ⟨_, rfl, h0, Nat.zero_le _⟩
    | some c =>
      obtain ⟨st, off⟩ := c
      by_cases hle : off ≤ o
      · exact ⟨(st, off), by simp only [cachePick, if_pos hle], hcache _ rfl, hle⟩
      · exact ⟨(st0, 0), by simp only [cachePick, if_neg hle], h0, Nat.zero_le _⟩
  obtain ⟨c, hc, hok, hle⟩ := hpick
  rw [hc]
  dsimp only
  by_cases hl : l = 0
  · subst hl
    exact ⟨c, by simp, hok⟩
  · rw [if_neg hl]
    by_cases hs : o - c.2 = 0
    · rw [if_pos hs]
      have ho : c.2 = o := by omega
      obtain ⟨st1, k1, kl, kc⟩ := cache_advance S fuel N D stN c hok l (by omega)
      rw [k1]
      dsimp only
      rw [kl, ← ho]
      exact ⟨_, rfl, kc⟩
    · rw [if_neg hs]
      obtain ⟨st1, k1, kl, kc⟩ := cache_advance S fuel N D stN c hok (o - c.2) (by omega)
      rw [k1]
      dsimp only
      rw [if_neg (fun h => h rfl), kl]
      have ho : c.2 + (o - c.2) = o := by omega
      rw [ho] at kc ⊢
      obtain ⟨st2, k2, kl2, kc2⟩ := cache_advance S fuel N D stN (st1, o) kc l hfit
      dsimp only at k2 kl2 kc2
      rw [k2]
      dsimp only
      rw [kl2]
      exact ⟨_, rfl, kc2⟩

/-- **history independence, MSZIP, decoder-level cache model**: if the fresh decoder state can deliver `[0, N)` in
    one call with OK and data `D`, then whatever members were requested before and in whatever order (forward
    through the cached decoder, backward through a fresh one, the same member twice), every request `(o, l)` inside
    `[0, N)` returns OK with exactly `D[o, o + l)` -/
theorem C08_mszip_any_order_model (fuel N : Nat) (D : Bytes) (st0 stN : St σ) (hst : ZipInv st0)
    (hfresh : decompress S fuel st0 N = .ok ⟨.ok, D, stN⟩)
    (ms : List (Nat × Nat)) (hms : ∀ m ∈ ms, m.1 + m.2 ≤ N) :
    cacheSeq S fuel st0 ms none = ms.map fun m => (.ok, (D.drop m.1).take m.2) := by
  have h0 : CacheOk S fuel N D stN (st0, 0) := ⟨hst, Nat.zero_le _, hfresh⟩
  suffices h : ∀ (ms : List (Nat × Nat)) (cache : Option (St σ × Nat)),
      (∀ c, cache = some c → CacheOk S fuel N D stN c) → (∀ m ∈ ms, m.1 + m.2 ≤ N) →
      cacheSeq S fuel st0 ms cache = ms.map fun m => (.ok, (D.drop m.1).take m.2) from
    h ms none (fun _ hc => nomatch hc) hms
  intro ms
  induction ms with
  | nil => intro _ _ _; rfl
  | cons m ms ih =>
    intro cache hc hm
    obtain ⟨o, l⟩ := m
    obtain ⟨c', e, hc'⟩ := cacheExtract_ok S fuel N D st0 stN h0 cache hc o l (hm (o, l) (List.mem_cons_self ..))
    simp only [cacheSeq, e, List.map_cons]
    rw [ih (some c') (fun c hcc => by cases hcc; exact hc') (fun x hx => hm x (List.mem_cons_of_mem _ hx))]

/-! ## the premises are satisfiable -/

/-- one frame (two stored blocks), premise from the round-trip theorem `C01_mszip_stored_roundtrip`: three calls
    of sizes 2, 1, 2 return the three pieces -/
example (st : St Rd)
    (hinit : init (⟨Deflate.encFrame [.stored [1, 2, 3], .stored [4, 5]], 0⟩ : Rd) 1 false 0 = some st) :
    (mszipCalls Rd.src 100 [2, 1, 2] st).1 = [(.ok, [1, 2]), (.ok, [3]), (.ok, [4, 5])] := by
  obtain ⟨stN, h⟩ := C01_mszip_stored_roundtrip [[1, 2, 3], [4, 5]] [1, 2, 3, 4, 5] [] rfl (by simp) (by simp) (by simp)
    _ 0 (by simp) 1 false 0 st hinit 100 (by simp)
  have hst := C02_zip_init_inv _ _ _ _ st hinit
  rw [C08_mszip_calls Rd.src 100 [2, 1, 2] st _ stN hst h]
  rfl

/-- two `CK` frames of 3 and 2 bytes, 1-byte reads -/
def twoFrames : Bytes := Deflate.encFrame [.stored [1, 2, 3]] ++ Deflate.encFrame [.stored [4, 5]]

/-- the model itself (no theorem involved): one call for 5 bytes goes through both frames … -/
example : ((init (σ := Rd) ⟨twoFrames, 0⟩ 1 false 0).map fun st =>
    match decompress Rd.src 100 st 5 with
    | .ok o => some (o.err, o.written)
    | .error _ => none) = some (some (.ok, [1, 2, 3, 4, 5])) := by decide +kernel

/-- … and so do calls of sizes 2, 2, 1 (the second one crosses the frame boundary) -/
example : ((init (σ := Rd) ⟨twoFrames, 0⟩ 1 false 0).map fun st => (mszipCalls Rd.src 100 [2, 2, 1] st).1) =
    some [(.ok, [1, 2]), (.ok, [3, 4]), (.ok, [5])] := by decide +kernel

/-- status and bytes of a call (the state left out, so that results can be compared by evaluation) -/
def outView {σ : Type} : Except Fault (Out σ) → Option (Err × Bytes)
  | .ok o => some (o.err, o.written)
  | .error _ => none

theorem ok_of_view {σ : Type} (r : Except Fault (Out σ)) (D : Bytes)
    (h : outView r = some (.ok, D)) : ∃ stN, r = .ok ⟨.ok, D, stN⟩ := by
  cases r with
  | error f => cases h
  | ok o =>
    obtain ⟨e, w, st⟩ := o
    simp only [outView, Option.some.injEq, Prod.mk.injEq] at h
    obtain ⟨rfl, rfl⟩ := h
    exact ⟨st, rfl⟩

/-- the cache model on the two frames, premise by evaluation: members requested backward, forward, overlapping and
    twice all get their slice -/
example (st : St Rd) (hinit : init (⟨twoFrames, 0⟩ : Rd) 1 false 0 = some st) :
    cacheSeq Rd.src 100 st [(3, 2), (0, 2), (1, 3), (1, 3), (4, 0), (2, 3)] none =
      [(.ok, [4, 5]), (.ok, [1, 2]), (.ok, [2, 3, 4]), (.ok, [2, 3, 4]), (.ok, []), (.ok, [3, 4, 5])] := by
  have hv : ((init (σ := Rd) ⟨twoFrames, 0⟩ 1 false 0).map fun st => outView (decompress Rd.src 100 st 5)) =
      some (some (.ok, [1, 2, 3, 4, 5])) := by decide +kernel
  rw [hinit] at hv
  simp only [Option.map_some, Option.some.injEq] at hv
  obtain ⟨stN, h⟩ := ok_of_view _ _ hv
  rw [C08_mszip_any_order_model Rd.src 100 5 [1, 2, 3, 4, 5] st stN (C02_zip_init_inv _ _ _ _ st hinit) h _ (by decide)]
  rfl

/-- the same list evaluated directly -/
example : ((init (σ := Rd) ⟨twoFrames, 0⟩ 1 false 0).map fun st =>
    cacheSeq Rd.src 100 st [(3, 2), (0, 2), (1, 3), (1, 3), (4, 0), (2, 3)] none) =
    some [(.ok, [4, 5]), (.ok, [1, 2]), (.ok, [2, 3, 4]), (.ok, [2, 3, 4]), (.ok, []), (.ok, [3, 4, 5])] := by
  decide +kernel

end MsPack.Zip

/-! ## the law for the CAB decoder call -/
namespace MsPack.Cab
open MsPack MsPack.Generated

/-- **chunking law for `Cab.decompress` on an MSZIP folder** (the call `runPhase` makes; the fuel there is
    `chainFuel files fd`, which differs from call to call): a call for `a` bytes that returned OK followed by a call
    for `b` bytes with the decoder and feeder it left is a single call for `a + b` bytes — status, bytes, decoder
    state and feeder — provided the single call does not run out of fuel. -/
theorem C08_mszip_cab_chunk (files : Files) (st : Zip.St Feeder) (fd : Feeder) (hst : Zip.ZipInv st) (a b : Nat)
    (w1 : Bytes) (st1 : Zip.St Feeder) (fd1 : Feeder) (o2 : DecOut)
    (h1 : decompress files (.mszip st) fd a = .ok (some ⟨.ok, w1, .mszip st1, fd1⟩))
    (h2 : decompress files (.mszip st1) fd1 b = .ok (some o2))
    (hnh : decompress files (.mszip st) fd (a + b) ≠ .error .hang) :
    decompress files (.mszip st) fd (a + b) = .ok (some ⟨o2.err, w1 ++ o2.written, o2.dec, o2.feeder⟩) := by
  simp only [decompress] at h1 h2 hnh ⊢
  have hsta : Zip.ZipInv { st with src := fd } := hst
  cases z1 : Zip.decompress (feederSrc files) (chainFuel files fd) { st with src := fd } a with
  | error f => rw [z1] at h1; cases h1
  | ok o =>
    rw [z1] at h1
    obtain ⟨e, w, s⟩ := o
    simp only [Except.ok.injEq, Option.some.injEq, DecOut.mk.injEq, Dec.mszip.injEq] at h1
    obtain ⟨rfl, rfl, rfl, rfl⟩ := h1
    cases z2 : Zip.decompress (feederSrc files) (chainFuel files s.src) { s with src := s.src } b with
    | error f => rw [z2] at h2; cases h2
    | ok o' =>
      rw [z2] at h2
      simp only [Except.ok.injEq, Option.some.injEq] at h2
      subst h2
      have z2' : Zip.decompress (feederSrc files) (chainFuel files s.src) s b = .ok o' := z2
      have za := Zip.C08_mszip_fuel_mono (feederSrc files) (chainFuel files fd) (chainFuel files s.src)
        { st with src := fd } a (by rw [z1]; exact fun hc => nomatch hc)
      rw [z1] at za
      have zb := Zip.C08_mszip_fuel_mono (feederSrc files) (chainFuel files s.src) (chainFuel files fd) s b
        (by rw [z2']; exact fun hc => nomatch hc)
      rw [z2', Nat.add_comm] at zb
      obtain ⟨e2, w2, s2⟩ := o'
      have hj := Zip.C08_mszip_chunk_law_fuel (feederSrc files) _ { st with src := fd } hsta a b w s e2 w2 s2 za zb
        (chainFuel files fd + (chainFuel files s.src + chainFuel files fd + chainFuel files s.src)) (by omega)
      cases z3 : Zip.decompress (feederSrc files) (chainFuel files fd) { st with src := fd } (a + b) with
      | error f =>
        rw [z3] at hnh
        have hf : f ≠ .hang := fun hc => hnh (by rw [hc])
        have := Zip.C08_mszip_fuel_mono (feederSrc files) (chainFuel files fd)
          (chainFuel files s.src + chainFuel files fd + chainFuel files s.src) { st with src := fd } (a + b)
          (by rw [z3]; exact fun hc => hf (Except.error.inj hc))
        rw [hj, z3] at this
        cases this
      | ok o3 =>
        have := Zip.C08_mszip_fuel_mono (feederSrc files) (chainFuel files fd)
          (chainFuel files s.src + chainFuel files fd + chainFuel files s.src) { st with src := fd } (a + b)
          (by rw [z3]; exact fun hc => nomatch hc)
        rw [hj, z3] at this
        cases this
        rfl

/-- … and it does not run out of fuel when `chainFuel` is above the bits still obtainable (`C04_zip_cab_no_hang`) -/
theorem C08_mszip_cab_chunk_fuel (files : Files) (st : Zip.St Feeder) (fd : Feeder) (hst : Zip.ZipInv st) (a b : Nat)
    (w1 : Bytes) (st1 : Zip.St Feeder) (fd1 : Feeder) (o2 : DecOut)
    (hf : st.bits.length + 8 * st.inbuf.length + 8 * feederLeft files fd
            + (if st.inputEnd then 0 else 16) + 1 ≤ chainFuel files fd)
    (h1 : decompress files (.mszip st) fd a = .ok (some ⟨.ok, w1, .mszip st1, fd1⟩))
    (h2 : decompress files (.mszip st1) fd1 b = .ok (some o2)) :
    decompress files (.mszip st) fd (a + b) = .ok (some ⟨o2.err, w1 ++ o2.written, o2.dec, o2.feeder⟩) :=
  C08_mszip_cab_chunk files st fd hst a b w1 st1 fd1 o2 h1 h2 (C04_zip_cab_no_hang files st fd (a + b) hf)

end MsPack.Cab
