import MsPack.Chm.Encint
/-!
# C03 — CHM listing and extraction (first theorem: the ENCINT round trip)

`encodeEncint j n` is the specification of a `j+1`-byte ENCINT (7-bit groups, most significant
first, continuation bit on all but the last; leading zero groups allowed, i.e. every legal
coding).  `C03_encint_roundtrip`: wherever such a coding sits in a chunk, the model of
`read_encint` returns `n`, advances exactly over it and does not fail — for every `n < 2^63`
representable in the chosen length.  Directory, header and LZX round trips are not theorems yet.
-/
namespace MsPack.Chm
open MsPack

/-- `(result << 7) | (c & 0x7F)` is `result * 128 + c mod 128` -/
theorem enc_step (r : Nat) (c : UInt8) : (r <<< 7) ||| (c.toNat &&& 0x7F) = r * 128 + c.toNat % 128 := by
  have h1 : c.toNat &&& 0x7F = c.toNat % 2^7 := Nat.and_two_pow_sub_one_eq_mod c.toNat 7
  have h2 : c.toNat % 2^7 < 2^7 := Nat.mod_lt _ (by decide)
  rw [h1, ← Nat.shiftLeft_add_eq_or_of_lt h2, Nat.shiftLeft_eq]

/-- the specification: `k` groups of 7 bits, most significant first, every byte but the last
    carries the continuation bit (leading zero groups allowed: every legal coding) -/
def encintDigits : Nat → Nat → List Nat
  | 0, _ => []
  | k + 1, n => encintDigits k (n / 128) ++ [n % 128]

/-- `j + 1` bytes -/
def encodeEncint (j n : Nat) : Bytes :=
  (encintDigits j (n / 128)).map (fun d => UInt8.ofNat (d + 128)) ++ [UInt8.ofNat (n % 128)]

theorem digits_length (k n : Nat) : (encintDigits k n).length = k := by
  induction k generalizing n with
  | zero => rfl
  | succ k ih => simp [encintDigits, ih]

theorem digits_lt (k n : Nat) : ∀ d ∈ encintDigits k n, d < 128 := by
  induction k generalizing n with
  | zero => simp [encintDigits]
  | succ k ih =>
    intro d hd
    simp only [encintDigits, List.mem_append, List.mem_singleton] at hd
    rcases hd with h | h
    · exact ih _ _ h
    · omega

theorem digits_value (k n : Nat) (h : n < 128 ^ k) :
    (encintDigits k n).foldl (fun r d => r * 128 + d) 0 = n := by
  induction k generalizing n with
  | zero => simp [encintDigits] at *; omega
  | succ k ih =>
    have h' : n / 128 < 128 ^ k := by
      rw [Nat.pow_succ] at h; exact Nat.div_lt_of_lt_mul (by rw [Nat.mul_comm]; exact h)
    simp only [encintDigits, List.foldl_append, List.foldl_cons, List.foldl_nil, ih _ h']
    omega

theorem getElem?_of_drop {bs : Bytes} {p : Nat} {x : UInt8} {xs : Bytes} (h : bs.drop p = x :: xs) :
    bs[p]? = some x := by
  have := congrArg List.head? h
  simpa [List.head?_drop] using this

theorem drop_succ_of_drop {bs : Bytes} {p : Nat} {x : UInt8} {xs : Bytes} (h : bs.drop p = x :: xs) :
    bs.drop (p + 1) = xs := by
  have : bs.drop (p + 1) = (bs.drop p).drop 1 := by rw [List.drop_drop]
  rw [this, h]; rfl

theorem encLoop_run (bs : Bytes) (e : Nat) : ∀ (cont : Bytes) (last : UInt8) (rest : Bytes) (fuel i p r : Nat) (c : UInt8),
    bs.drop p = cont ++ last :: rest → (∀ x ∈ cont, x &&& 0x80 ≠ 0) → last &&& 0x80 = 0 → c &&& 0x80 ≠ 0 →
    i + cont.length < 9 → p + cont.length < e → cont.length + 2 ≤ fuel →
    encLoop bs e fuel i p r c =
      .ok ⟨false, i + cont.length + 1, p + cont.length + 1,
           (cont ++ [last]).foldl (fun r x => r * 128 + x.toNat % 128) r, last⟩ := by
  intro cont
  induction cont with
  | nil =>
    intro last rest fuel i p r c hd _ hl hc hi hp hf
    simp only [List.nil_append, List.length_nil, Nat.add_zero] at *
    match fuel, hf with
    | fuel + 2, _ =>
      have hget := getElem?_of_drop hd
      rw [encLoop]
      simp only [hc, ↓reduceIte, encintMaxBytes, hi, not_true_eq_false, Nat.not_le.mpr hp, hget]
      rw [encLoop]
      simp [hl, enc_step]
  | cons x xs ih =>
    intro last rest fuel i p r c hd hall hl hc hi hp hf
    simp only [List.cons_append, List.length_cons] at *
    match fuel, hf with
    | fuel + 1, hf =>
      have hget := getElem?_of_drop hd
      have hx : x &&& 0x80 ≠ 0 := hall x (by simp)
      rw [encLoop]
      have hi' : i < encintMaxBytes := by unfold encintMaxBytes; omega
      have hp' : ¬ p ≥ e := by omega
      simp only [hc, ↓reduceIte, hi', not_true_eq_false, hp', hget]
      rw [ih last rest fuel (i + 1) (p + 1) _ x (drop_succ_of_drop hd) (fun y hy => hall y (by simp [hy])) hl hx
        (by omega) (by omega) (by omega)]
      simp only [enc_step, List.foldl_cons]
      congr 2 <;> omega


theorem cont_byte (d : Nat) (h : d < 128) :
    UInt8.ofNat (d + 128) &&& 0x80 ≠ 0 ∧ (UInt8.ofNat (d + 128)).toNat % 128 = d := by
  have : ∀ d : Fin 128, UInt8.ofNat (d.val + 128) &&& 0x80 ≠ 0 ∧ (UInt8.ofNat (d.val + 128)).toNat % 128 = d.val := by decide
  exact this ⟨d, h⟩

theorem last_byte (d : Nat) (h : d < 128) :
    UInt8.ofNat d &&& 0x80 = 0 ∧ (UInt8.ofNat d).toNat % 128 = d := by
  have : ∀ d : Fin 128, UInt8.ofNat d.val &&& 0x80 = 0 ∧ (UInt8.ofNat d.val).toNat % 128 = d.val := by decide
  exact this ⟨d, h⟩

theorem foldl_cont (ds : List Nat) (hds : ∀ d ∈ ds, d < 128) (r : Nat) :
    (ds.map (fun d => UInt8.ofNat (d + 128))).foldl (fun r x => r * 128 + x.toNat % 128) r =
      ds.foldl (fun r d => r * 128 + d) r := by
  induction ds generalizing r with
  | nil => rfl
  | cons d ds ih =>
    simp only [List.map_cons, List.foldl_cons]
    rw [(cont_byte d (hds d (by simp))).2]
    exact ih (fun x hx => hds x (by simp [hx])) _

/-- **ENCINT round trip**: every legal coding of `n` (1 to 9 bytes, leading zero groups allowed)
    placed anywhere in a chunk decodes to `n`, consumes exactly its bytes and does not fail -/
theorem C03_encint_roundtrip (pre rest : Bytes) (j n e : Nat) (hj : j < 9) (hn : n < 128 ^ (j + 1))
    (he : pre.length + j < e) :
    readEncint (pre ++ encodeEncint j n ++ rest) pre.length e = .ok ⟨n, pre.length + j + 1, false⟩ := by
  have hdl := digits_length j (n / 128)
  have hdlt := digits_lt j (n / 128)
  have hnd : n / 128 < 128 ^ j := by
    rw [Nat.pow_succ] at hn; exact Nat.div_lt_of_lt_mul (by rw [Nat.mul_comm]; exact hn)
  have hdrop : (pre ++ encodeEncint j n ++ rest).drop pre.length =
      (encintDigits j (n / 128)).map (fun d => UInt8.ofNat (d + 128)) ++ UInt8.ofNat (n % 128) :: rest := by
    simp [encodeEncint, List.append_assoc]
  have hmod : n % 128 < 128 := Nat.mod_lt _ (by decide)
  have hrun := encLoop_run (pre ++ encodeEncint j n ++ rest) e
    ((encintDigits j (n / 128)).map (fun d => UInt8.ofNat (d + 128))) (UInt8.ofNat (n % 128)) rest
    (encintMaxBytes + 1) 0 pre.length 0 0x80 hdrop
    (by intro x hx; simp only [List.mem_map] at hx; obtain ⟨d, hd, rfl⟩ := hx; exact (cont_byte d (hdlt d hd)).1)
    (last_byte _ hmod).1 (by decide)
    (by simp [hdl]; omega) (by simp [hdl]; omega) (by simp [hdl, encintMaxBytes]; omega)
  unfold readEncint
  rw [hrun]
  simp only [List.length_map, hdl, List.foldl_append, List.foldl_cons, List.foldl_nil]
  rw [foldl_cont _ hdlt, digits_value _ _ hnd, (last_byte _ hmod).2]
  have hv : n / 128 * 128 + n % 128 = n := by omega
  simp only [hv, Bool.false_eq_true, ↓reduceIte]
  -- the bad-last-byte test
  have hl := (last_byte _ hmod).1
  split
  · rename_i hbad
    exfalso
    have : (UInt8.ofNat (n % 128)).toNat &&& encintBadLastByte = 0 := by
      have h2 : ((UInt8.ofNat (n % 128)) &&& 0x80).toNat = 0 := by rw [hl]; rfl
      simpa [encintBadLastByte, UInt8.toNat_and] using h2
    exact hbad.2 this
  · congr 2 <;> omega

-- non-vacuity: 300 = 0x82 0x2c
example : encodeEncint 1 300 = [0x82, 0x2c] := by decide
example : readEncint ([7] ++ encodeEncint 1 300 ++ [9]) 1 3 = .ok ⟨300, 3, false⟩ :=
  C03_encint_roundtrip [7] [9] 1 300 3 (by decide) (by decide) (by decide)

end MsPack.Chm
