import Proofs.Lemmas.BlockBounds
/-!
# C02 — memory safety (CAB container part)

`d->input[CAB_INPUTBUF]` is the one fixed buffer file data is read into.  The model's block
reader has an explicit `fault (oob "d->input")` outcome where a read would not fit the buffer
size extracted from today's `cab.h` (`cabInputDim`); the theorems say that outcome is unreachable
for every file content, every parameter setting and every split-block chain, because of the size
checks the code makes — a removed or loosened check, or a shrunk buffer, breaks them.
-/
namespace MsPack.Cab
open MsPack MsPack.Generated

/-- every block the reader delivers leaves room for the Quantum trailer byte the feeder appends -/
theorem C02_block_fits_buffer (files : Files) (ignoreCksum ignoreBlocksize : Bool) (fuel : Nat)
    (rd : Option Rd) (parts : List Part) (acc p : Bytes) (out : Nat) (rd' : Option Rd) (parts' : List Part)
    (h : readBlock files ignoreCksum ignoreBlocksize fuel rd parts acc = .ok p out rd' parts') :
    p.length + 1 ≤ cabInputDim :=
  readBlock_fits files ignoreCksum ignoreBlocksize fuel rd parts acc p out rd' parts' h

/-- the block reader never reads past the input buffer -/
theorem C02_readBlock_no_oob (files : Files) (ignoreCksum ignoreBlocksize : Bool) (fuel : Nat)
    (rd : Option Rd) (parts : List Part) (acc : Bytes) (s : String) :
    readBlock files ignoreCksum ignoreBlocksize fuel rd parts acc ≠ .fault (.oob s) :=
  readBlock_no_oob files ignoreCksum ignoreBlocksize fuel rd parts acc s

/-- … and neither does the stream feeder built on it -/
theorem C02_feeder_no_oob (files : Files) (fuel : Nat) (fd : Feeder) (todo : Nat) (got : Bytes) (s : String) :
    feederRead files fuel fd todo got ≠ .error (.oob s) :=
  feederRead_no_oob files fuel fd todo got s

end MsPack.Cab
