import Proofs.Props.C11
import Proofs.Props.C11Decoders
import Proofs.Props.C02CabExtract
/-!
# C11 — `cabd_extract`: status and output do not depend on what fresh memory contained

The models hand every fresh allocation (`struct`s, windows, tables) the byte `p.fill`
(`Params.fill`).  `C11.lean` shows that stored and MSZIP extraction does not depend on it (the states
are literally equal); `C11Decoders.lean` shows by two-run simulation that the LZX and Quantum decoders'
statuses and output do not depend on it, although their states do (cells never read before written).
This file lifts both through `cabd_extract`:

* `decompress_R`: one `decompress` call of `cabd_extract` from related decoders (`DecR`: equal, or
  Quantum/LZX states related by the decoders' simulation relations) and the same feeder gives the
  same fault, or the same status, bytes and feeder, and related decoders again;
* `C11_cab_extract_fill_independent`: `extract` with two parameter sets differing only in `fill`, from
  no cache or related caches (`DStateR`): same fault, or same status and same bytes, related caches;
* `C11_cab_session_fill_independent`: any list of `extract` calls threaded through the cache from a
  fresh decompressor: the same observations, for every cabinet set, well-formed or not.

What had to be added to the decoder theorems: `Qtm.TS` forgets, after a status return, that the two
structs are still related (it keeps only "same sticky error"), so the input handles could differ —
and `cabd_extract` reads `read_error` from the feeder.  `Q.TS` / `Q.decompress_sim` below keep
`StSim` in that case (the proof is the decoder file's own, `body_sim` unchanged).  `Lzx.Fill.TS`
already keeps `Sim`.  Both relations are insensitive to the input handle, which the CAB layer
swaps in before each call (`TS.swap`).
-/
namespace MsPack.CabFill
open MsPack MsPack.Generated MsPack.Cab MsPack.FillSim

/-! ## Quantum: the two-run relation with the states related also after a status return -/
namespace Q
open MsPack.Qtm
variable {σ : Type}

/-- between calls: in step, or both dead (sticky error) with the structs still related — unlike
    `Qtm.TS` this keeps the input handles equal after a status return, which the CAB layer needs
    (it reads `read_error` from the feeder) -/
def TS (a b : Qtm.St σ) : Prop := StSimH a b ∨ (StSim a b ∧ a.error ≠ .ok)

def OutR : Except Fault (DecodeOut (Qtm.St σ)) → Except Fault (DecodeOut (Qtm.St σ)) → Prop
  | .ok o1, .ok o2 => o1.err = o2.err ∧ o1.written = o2.written ∧ TS o1.st o2.st
  | .error f1, .error f2 => f1 = f2
  | _, _ => False

theorem finish_sim {x1 x2 : Except Qtm.Halt Unit × Run σ} (h : Post2 (EqR RSW) EE x1 x2) :
    OutR
      (match (generalizing := false) x1 with
        | (.error (.fault f), _) => .error f
        | (.error (.sys e), r) => .ok ⟨e, r.written.toList, r.st⟩
        | (.ok (), r) =>
          .ok ⟨.ok, r.written.toList,
               { r.st with inbuf := r.inbuf, bitBuffer := r.bitBuffer, bitsLeft := r.bitsLeft % 256,
                           windowPosn := r.windowPosn, frameTodo := r.frameTodo,
                           H := r.H, L := r.L, C := r.C }⟩)
      (match (generalizing := false) x2 with
        | (.error (.fault f), _) => .error f
        | (.error (.sys e), r) => .ok ⟨e, r.written.toList, r.st⟩
        | (.ok (), r) =>
          .ok ⟨.ok, r.written.toList,
               { r.st with inbuf := r.inbuf, bitBuffer := r.bitBuffer, bitsLeft := r.bitsLeft % 256,
                           windowPosn := r.windowPosn, frameTodo := r.frameTodo,
                           H := r.H, L := r.L, C := r.C }⟩) := by
  obtain ⟨r1, t1⟩ := x1
  obtain ⟨r2, t2⟩ := x2
  cases r1 with
  | ok u1 =>
    cases r2 with
    | error e2 => exact h.elim
    | ok u2 =>
      obtain ⟨_, ht⟩ := h
      rs_split ht
      refine ⟨rfl, rfl, Or.inl ⟨⟨rfl, ht.st.ms⟩, fun hh => ?_⟩⟩
      have hh' : t1.st.headerRead = true := hh
      obtain ⟨e1, e2⟩ := ht.hl hh'
      exact ⟨e1, e2, ht.c hh'⟩
  | error e1 =>
    cases r2 with
    | ok u2 => exact h.elim
    | error e2 =>
      obtain ⟨rfl, ht, hok⟩ := h
      rs_split ht
      cases e1 with
      | fault f => exact rfl
      | sys e => exact ⟨rfl, rfl, Or.inr ⟨⟨rfl, ht.st.ms⟩, hok⟩⟩

theorem decompress_sim (S : Src σ) (fuel : Nat) {a b : Qtm.St σ} (h : TS a b) (n : Nat) :
    OutR (Qtm.decompress S fuel a n) (Qtm.decompress S fuel b n) := by
  rcases h with h | ⟨hs, hne⟩
  · obtain ⟨sH, sL, sC, m0, m1, m2, m3, m4, m5, m6, m6l, m7, rfl⟩ := h.1.split
    unfold Qtm.decompress
    simp only
    generalize (if a.oEnd - a.oPtr > n then n else a.oEnd - a.oPtr) = i
    split
    · exact ⟨rfl, rfl, Or.inl h⟩
    · split
      · exact rfl
      · split
        · exact ⟨rfl, rfl, Or.inl ⟨⟨rfl, h.1.ms⟩, h.2⟩⟩
        · refine finish_sim (x1 := (body S fuel).run.run _) (x2 := (body S fuel).run.run _) ?_
          apply body_sim S fuel
          exact ⟨rfl, ⟨rfl, h.1.ms⟩, fun hh => ⟨(h.2 hh).1, (h.2 hh).2.1⟩, fun hh => (h.2 hh).2.2⟩
  · obtain ⟨sH, sL, sC, m0, m1, m2, m3, m4, m5, m6, m6l, m7, rfl⟩ := hs.split
    unfold Qtm.decompress
    rw [if_pos hne, if_pos hne]
    exact ⟨rfl, rfl, Or.inr ⟨hs, hne⟩⟩

theorem TS_of {a b : Qtm.St σ} (h : Qtm.TS a b) (hd : a.error ≠ .ok → StSim a b) : TS a b := by
  rcases h with h | ⟨_, hne⟩
  · exact Or.inl h
  · exact Or.inr ⟨hd hne, hne⟩

theorem TS.src {a b : Qtm.St σ} (h : TS a b) : a.src = b.src := by
  rcases h with h | ⟨h, _⟩
  · obtain ⟨sH, sL, sC, m0, m1, m2, m3, m4, m5, m6, m6l, m7, rfl⟩ := h.1.split; rfl
  · obtain ⟨sH, sL, sC, m0, m1, m2, m3, m4, m5, m6, m6l, m7, rfl⟩ := h.split; rfl

theorem StSim.swap {τ : Type} {a b : Qtm.St σ} (h : StSim a b) (x : τ) :
    StSim ({ a with src := x } : Qtm.St τ) ({ b with src := x } : Qtm.St τ) := by
  obtain ⟨sH, sL, sC, m0, m1, m2, m3, m4, m5, m6, m6l, m7, rfl⟩ := h.split
  exact ⟨rfl, h.ms⟩

theorem TS.swap {τ : Type} {a b : Qtm.St σ} (h : TS a b) (x : τ) :
    TS ({ a with src := x } : Qtm.St τ) ({ b with src := x } : Qtm.St τ) := by
  rcases h with h | ⟨h, hne⟩
  · exact Or.inl ⟨StSim.swap h.1 x, h.2⟩
  · exact Or.inr ⟨StSim.swap h x, hne⟩

end Q

/-! ## LZX: the relation survives the swap of the input handle -/
namespace X
open MsPack.Lzx MsPack.Lzx.Fill
variable {σ : Type}

theorem Sim.src {μ} {a b : Lzx.St σ} (h : Sim μ a b) : a.src = b.src := by
  obtain ⟨bl0, le0, p0, m0, l0, al0, eb0, rfl⟩ := h.split; rfl

theorem Sim.swap {τ : Type} {μ} {a b : Lzx.St σ} (h : Sim μ a b) (x : τ) :
    Sim μ ({ a with src := x } : Lzx.St τ) ({ b with src := x } : Lzx.St τ) := by
  obtain ⟨bl0, le0, p0, m0, l0, al0, eb0, rfl⟩ := h.split
  exact ⟨rfl, h.pre, h.ali, h.main, h.len, h.nOff, h.e8sz, h.e8, h.bl, h.le⟩

theorem TS.src {a b : Lzx.St σ} (h : TS a b) : a.src = b.src := by
  rcases h with h | ⟨⟨bt, h⟩, _⟩
  · exact Sim.src h
  · exact Sim.src h

theorem TS.swap {τ : Type} {a b : Lzx.St σ} (h : TS a b) (x : τ) :
    TS ({ a with src := x } : Lzx.St τ) ({ b with src := x } : Lzx.St τ) := by
  rcases h with h | ⟨⟨bt, h⟩, hne⟩
  · exact Or.inl (Sim.swap h x)
  · exact Or.inr ⟨⟨bt, Sim.swap h x⟩, hne⟩

end X

/-! ## the CAB layer -/

/-- decoder states of the two runs: identical, or Quantum / LZX states related by the simulation -/
def DecR (d1 d2 : Dec) : Prop :=
  d1 = d2 ∨ (∃ a b, d1 = .qtm a ∧ d2 = .qtm b ∧ Q.TS a b) ∨ (∃ a b, d1 = .lzx a ∧ d2 = .lzx b ∧ Lzx.Fill.TS a b)

def OptR {α : Type} (R : α → α → Prop) : Option α → Option α → Prop
  | some a, some b => R a b
  | none, none => True
  | _, _ => False

/-- what two `decompress` calls of `cabd_extract` deliver -/
def CallR : Except Fault (Option DecOut) → Except Fault (Option DecOut) → Prop
  | .error f1, .error f2 => f1 = f2
  | .ok none, .ok none => True
  | .ok (some o1), .ok (some o2) =>
    o1.err = o2.err ∧ o1.written = o2.written ∧ o1.feeder = o2.feeder ∧ DecR o1.dec o2.dec
  | _, _ => False

theorem CallR.refl (r : Except Fault (Option DecOut)) : CallR r r := by
  cases r with
  | error f => exact rfl
  | ok o =>
    cases o with
    | none => trivial
    | some o => exact ⟨rfl, rfl, rfl, Or.inl rfl⟩

/-- **one `decompress` call**: related decoders, the same feeder → same fault, or same status, same
    bytes, same feeder afterwards, related decoders -/
theorem decompress_R (files : Files) (dec1 dec2 : Dec) (fd : Feeder) (n : Nat) (h : DecR dec1 dec2) :
    CallR (Cab.decompress files dec1 fd n) (Cab.decompress files dec2 fd n) := by
  rcases h with rfl | ⟨a, b, rfl, rfl, hts⟩ | ⟨a, b, rfl, rfl, hts⟩
  · exact CallR.refl _
  · have hs := Q.decompress_sim (feederSrc files) (chainFuel files fd) (Q.TS.swap hts fd) n
    unfold Cab.decompress
    simp only
    generalize Qtm.decompress (feederSrc files) (chainFuel files fd) { a with src := fd } n = r1 at hs
    generalize Qtm.decompress (feederSrc files) (chainFuel files fd) { b with src := fd } n = r2 at hs
    cases r1 with
    | error f1 =>
      cases r2 with
      | error f2 => exact hs
      | ok o2 => exact hs.elim
    | ok o1 =>
      cases r2 with
      | error f2 => exact hs.elim
      | ok o2 => exact ⟨hs.1, hs.2.1, Q.TS.src hs.2.2, Or.inr (Or.inl ⟨_, _, rfl, rfl, hs.2.2⟩)⟩
  · have hs := Lzx.Fill.decompress_sim (feederSrc files) (chainFuel files fd) (X.TS.swap hts fd) n
    unfold Cab.decompress
    simp only
    generalize Lzx.decompress (feederSrc files) (chainFuel files fd) { a with src := fd } n = r1 at hs
    generalize Lzx.decompress (feederSrc files) (chainFuel files fd) { b with src := fd } n = r2 at hs
    cases r1 with
    | error f1 =>
      cases r2 with
      | error f2 => exact hs
      | ok o2 => exact hs.elim
    | ok o1 =>
      cases r2 with
      | error f2 => exact hs.elim
      | ok o2 => exact ⟨hs.1, hs.2.1, X.TS.src hs.2.2, Or.inr (Or.inr ⟨_, _, rfl, rfl, hs.2.2⟩)⟩

/-- the cached `self->d` of the two runs: same folder, offset, feeder; related decoders -/
structure DStateR (d1 d2 : DState) : Prop where
  folder : d1.folder = d2.folder
  offset : d1.offset = d2.offset
  feeder : d1.feeder = d2.feeder
  dec : OptR DecR d1.dec d2.dec

def PhaseR : PhaseResult → PhaseResult → Prop
  | .ran e1 w1 d1, .ran e2 w2 d2 => e1 = e2 ∧ w1 = w2 ∧ DStateR d1 d2
  | .unsupported, .unsupported => True
  | .fault f1, .fault f2 => f1 = f2
  | _, _ => False

theorem runPhase_R (files : Files) (ds1 ds2 : DState) (dec1 dec2 : Dec) (n : Nat)
    (hf : ds1.folder = ds2.folder) (ho : ds1.offset = ds2.offset) (hfd : ds1.feeder = ds2.feeder)
    (hd : DecR dec1 dec2) : PhaseR (runPhase files ds1 dec1 n) (runPhase files ds2 dec2 n) := by
  have hc := decompress_R files dec1 dec2 ds1.feeder n hd
  unfold runPhase
  rw [← hfd]
  generalize Cab.decompress files dec1 ds1.feeder n = r1 at hc
  generalize Cab.decompress files dec2 ds1.feeder n = r2 at hc
  cases r1 with
  | error f1 =>
    cases r2 with
    | error f2 => exact hc
    | ok o2 => cases o2 <;> exact hc.elim
  | ok o1 =>
    cases o1 with
    | none =>
      cases r2 with
      | error f2 => exact hc.elim
      | ok o2 =>
        cases o2 with
        | none => trivial
        | some o2 => exact hc.elim
    | some o1 =>
      cases r2 with
      | error f2 => exact hc.elim
      | ok o2 =>
        cases o2 with
        | none => exact hc.elim
        | some o2 =>
          obtain ⟨h1, h2, h3, h4⟩ := hc
          refine ⟨?_, h2, ⟨hf, ?_, h3, h4⟩⟩
          · show (if o1.err = .read then o1.feeder.readError else o1.err) =
              (if o2.err = .read then o2.feeder.readError else o2.err)
            rw [h1, h3]
          · show ds1.offset + o1.written.length = ds2.offset + o2.written.length
            rw [ho, h2]

/-- results of `runPhases` / `extract` in the two runs: the same observable (fault, or status and
    bytes), and related caches -/
def ExtractR : ExtractResult → ExtractResult → Prop
  | .done e1 w1 d1, .done e2 w2 d2 => e1 = e2 ∧ w1 = w2 ∧ OptR DStateR d1 d2
  | .unsupported, .unsupported => True
  | .fault f1, .fault f2 => f1 = f2
  | _, _ => False

theorem runPhases_R (files : Files) (ds1 ds2 : DState) (h : DStateR ds1 ds2) (m : Member) (filelen : Nat) :
    ExtractR (runPhases files ds1 m filelen) (runPhases files ds2 m filelen) := by
  obtain ⟨hf, ho, hfd, hd⟩ := h
  unfold runPhases
  rw [← ho]
  cases hd1 : ds1.dec with
  | none =>
    cases hd2 : ds2.dec with
    | none => exact ⟨rfl, rfl, ⟨hf, ho, hfd, by rw [hd1, hd2]; trivial⟩⟩
    | some dec2 => rw [hd1, hd2] at hd; exact hd.elim
  | some dec1 =>
    cases hd2 : ds2.dec with
    | none => rw [hd1, hd2] at hd; exact hd.elim
    | some dec2 =>
      have hdr : DecR dec1 dec2 := by rw [hd1, hd2] at hd; exact hd
      have hds : DStateR ds1 ds2 := ⟨hf, ho, hfd, by rw [hd1, hd2]; exact hdr⟩
      simp only
      by_cases h0 : filelen = 0
      · rw [if_pos h0, if_pos h0]
        exact ⟨rfl, rfl, hds⟩
      · rw [if_neg h0, if_neg h0]
        by_cases hs : m.offset - ds1.offset = 0
        · rw [if_pos hs, if_pos hs]
          have hp := runPhase_R files ds1 ds2 dec1 dec2 filelen hf ho hfd hdr
          generalize runPhase files ds1 dec1 filelen = r1 at hp
          generalize runPhase files ds2 dec2 filelen = r2 at hp
          cases r1 <;> cases r2 <;> first | exact hp.elim | exact hp | skip
          exact ⟨hp.1, by rw [hp.2.1], hp.2.2⟩
        · rw [if_neg hs, if_neg hs]
          have hp := runPhase_R files ds1 ds2 dec1 dec2 (m.offset - ds1.offset) hf ho hfd hdr
          generalize runPhase files ds1 dec1 (m.offset - ds1.offset) = r1 at hp
          generalize runPhase files ds2 dec2 (m.offset - ds1.offset) = r2 at hp
          cases r1 <;> cases r2 <;> first | exact hp.elim | exact hp | skip
          rename_i e1 w1 da e2 w2 db
          obtain ⟨he, hw, hdd⟩ := hp
          subst he
          simp only
          by_cases hne : e1 ≠ .ok
          · rw [if_pos hne, if_pos hne]
            exact ⟨rfl, rfl, hdd⟩
          · rw [if_neg hne, if_neg hne]
            obtain ⟨hf', ho', hfd', hd'⟩ := hdd
            cases hda : da.dec with
            | none =>
              cases hdb : db.dec with
              | none => exact ⟨rfl, rfl, ⟨hf', ho', hfd', by rw [hda, hdb]; trivial⟩⟩
              | some x => rw [hda, hdb] at hd'; exact hd'.elim
            | some x1 =>
              cases hdb : db.dec with
              | none => rw [hda, hdb] at hd'; exact hd'.elim
              | some x2 =>
                have hx : DecR x1 x2 := by rw [hda, hdb] at hd'; exact hd'
                simp only
                have hp2 := runPhase_R files da db x1 x2 filelen hf' ho' hfd' hx
                generalize runPhase files da x1 filelen = r1 at hp2
                generalize runPhase files db x2 filelen = r2 at hp2
                cases r1 <;> cases r2 <;> first | exact hp2.elim | exact hp2 | skip
                exact ⟨hp2.1, by rw [hp2.2.1], hp2.2.2⟩

/-! ## fresh decoders -/

theorem initDec_R (p : Params) (ct : Nat) (f1 f2 : UInt8) :
    OptR DecR (initDec { p with fill := f1 } ct) (initDec { p with fill := f2 } ct) := by
  unfold initDec
  split
  · exact Or.inl rfl
  · simp only
    rw [C11.mszip_init_fill_independent nullFeeder p.bufSize p.fixMszip f1 f2]
    cases Zip.init nullFeeder p.bufSize p.fixMszip f2 with
    | none => trivial
    | some z => exact Or.inl rfl
  · simp only
    split
    · have hi := Qtm.init_sim nullFeeder ((ct >>> 8) &&& 0x1f) p.bufSize f1 f2
      generalize Qtm.init nullFeeder ((ct >>> 8) &&& 0x1f) p.bufSize f1 = i1 at hi
      generalize Qtm.init nullFeeder ((ct >>> 8) &&& 0x1f) p.bufSize f2 = i2 at hi
      cases i1 <;> cases i2 <;> first | exact hi.elim | trivial | skip
      exact Or.inr (Or.inl ⟨_, _, rfl, rfl, Or.inl hi⟩)
    · exact Or.inl rfl
  · simp only
    split
    · have hi := Lzx.Fill.init_sim nullFeeder ((ct >>> 8) &&& 0x1f) 0 p.bufSize 0 false f1 f2
      generalize Lzx.init nullFeeder ((ct >>> 8) &&& 0x1f) 0 p.bufSize 0 false f1 = i1 at hi
      generalize Lzx.init nullFeeder ((ct >>> 8) &&& 0x1f) 0 p.bufSize 0 false f2 = i2 at hi
      cases i1 <;> cases i2 <;> first | exact hi.elim | trivial | skip
      exact Or.inr (Or.inr ⟨_, _, rfl, rfl, hi⟩)
    · exact Or.inl rfl
  · trivial

def FreshR : Except Err DState → Except Err DState → Prop
  | .ok a, .ok b => DStateR a b
  | .error e1, .error e2 => e1 = e2
  | _, _ => False

theorem freshDState_R (files : Files) (p : Params) (m : Member) (key : Nat) (f1 f2 : UInt8) :
    FreshR (freshDState files { p with fill := f1 } m key) (freshDState files { p with fill := f2 } m key) := by
  have hi := initDec_R p m.compType f1 f2
  unfold freshDState
  split
  · exact rfl
  · split
    · exact rfl
    · generalize initDec { p with fill := f1 } m.compType = i1 at hi
      generalize initDec { p with fill := f2 } m.compType = i2 at hi
      cases i1 <;> cases i2 <;> first | exact hi.elim | exact rfl | skip
      exact ⟨rfl, rfl, rfl, hi⟩

/-- **`cabd_extract`**: two runs that differ only in the fill byte of fresh memory, from no cache or
    related caches: the same fault, or the same status and the same bytes, and related caches -/
theorem C11_cab_extract_fill_independent (files : Files) (p : Params) (f1 f2 : UInt8) (d1 d2 : Option DState)
    (hd : OptR DStateR d1 d2) (m : Member) :
    ExtractR (extract files { p with fill := f1 } d1 m) (extract files { p with fill := f2 } d2 m) := by
  unfold extract
  have hc : memberCheck { p with fill := f1 } m = memberCheck { p with fill := f2 } m := by
    unfold memberCheck; rfl
  rw [hc]
  cases memberCheck { p with fill := f2 } m with
  | error e => exact ⟨rfl, rfl, hd⟩
  | ok v =>
    obtain ⟨filelen, key⟩ := v
    simp only
    have hfr := freshDState_R files p m key f1 f2
    have key2 : FreshR (obtainDState files { p with fill := f1 } d1 m key)
        (obtainDState files { p with fill := f2 } d2 m key) := by
      unfold obtainDState
      cases d1 with
      | none =>
        cases d2 with
        | none => exact hfr
        | some b => exact hd.elim
      | some a =>
        cases d2 with
        | none => exact hd.elim
        | some b =>
          have hab : DStateR a b := hd
          simp only
          have hsome : a.dec.isSome = b.dec.isSome := by
            have := hab.dec
            cases ha : a.dec <;> cases hb : b.dec <;> rw [ha, hb] at this <;> first | rfl | exact this.elim
          rw [← hab.folder, ← hab.offset, ← hsome]
          split
          · exact hab
          · exact hfr
    generalize obtainDState files { p with fill := f1 } d1 m key = o1 at key2
    generalize obtainDState files { p with fill := f2 } d2 m key = o2 at key2
    cases o1 with
    | error e1 =>
      cases o2 with
      | error e2 => exact ⟨key2, rfl, trivial⟩
      | ok b => exact key2.elim
    | ok a =>
      cases o2 with
      | error e2 => exact key2.elim
      | ok b => exact runPhases_R files a b key2 m filelen

/-! ## sessions -/

/-- what the caller of `extract` sees -/
def obs : ExtractResult → Except Fault (Option (Err × Option Bytes))
  | .fault f => .error f
  | .unsupported => .ok none
  | .done e w _ => .ok (some (e, w))

theorem obs_eq {r1 r2 : ExtractResult} (h : ExtractR r1 r2) : obs r1 = obs r2 := by
  cases r1 <;> cases r2 <;> first | exact h.elim | rfl | skip
  · obtain ⟨rfl, rfl, _⟩ := h; rfl
  · cases h; rfl

/-- the observations of a session: `extract` calls threaded through the cache (a fault ends it) -/
def sessionObs (files : Files) (p : Params) : Option DState → List Member →
    List (Except Fault (Option (Err × Option Bytes)))
  | _, [] => []
  | d, m :: ms =>
    obs (extract files p d m) ::
      (match extract files p d m with
       | .fault _ => []
       | .unsupported => sessionObs files p d ms
       | .done _ _ d' => sessionObs files p d' ms)

theorem sessionObs_R (files : Files) (p : Params) (f1 f2 : UInt8) : ∀ (ms : List Member) (d1 d2 : Option DState),
    OptR DStateR d1 d2 →
    sessionObs files { p with fill := f1 } d1 ms = sessionObs files { p with fill := f2 } d2 ms
  | [], _, _, _ => rfl
  | m :: ms, d1, d2, hd => by
    have h := C11_cab_extract_fill_independent files p f1 f2 d1 d2 hd m
    rw [sessionObs, sessionObs, obs_eq h]
    congr 1
    generalize extract files { p with fill := f1 } d1 m = r1 at h
    generalize extract files { p with fill := f2 } d2 m = r2 at h
    cases r1 <;> cases r2 <;> first | exact h.elim | rfl | skip
    · exact sessionObs_R files p f1 f2 ms _ _ h.2.2
    · exact sessionObs_R files p f1 f2 ms d1 d2 hd

/-- **a whole session from a fresh decompressor**: every status and every byte is the same whatever
    fresh memory contained — stored, MSZIP, Quantum and LZX folders, well-formed or not -/
theorem C11_cab_session_fill_independent (files : Files) (p : Params) (f1 f2 : UInt8) (ms : List Member) :
    sessionObs files { p with fill := f1 } none ms = sessionObs files { p with fill := f2 } none ms :=
  sessionObs_R files p f1 f2 ms none none trivial

/-! ## non-vacuity -/

open MsPack.CabLift in
/-- the session of the MSZIP, Quantum and LZX demo folders does real work (three OK results with
    bytes), with fill byte 0 … -/
example : (sessionObs (zipFiles ++ qtmFiles ++ lzxFiles) { fill := 0 } none [zipMember, qtmMember, lzxMember]).map
    (fun r => match r with
      | .ok (some (e, some w)) => e == .ok && w.length > 0
      | _ => false) = [true, true, true] := by decide +kernel

open MsPack.CabLift in
/-- … while the decoder states the two runs start from do differ (Quantum: `H` holds the fill pattern) -/
example : ((initDec { fill := 0 } qtmMember.compType).map fun d => match d with | .qtm st => st.H | _ => 0) ≠
    ((initDec { fill := 1 } qtmMember.compType).map fun d => match d with | .qtm st => st.H | _ => 0) := by
  decide +kernel

end MsPack.CabFill

#print axioms MsPack.CabFill.C11_cab_extract_fill_independent
#print axioms MsPack.CabFill.C11_cab_session_fill_independent
