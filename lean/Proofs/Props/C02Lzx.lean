import Proofs.Lemmas.LzxFrame
/-!
# C02 — memory safety of the LZX decoder model (`Lzx.decompress`)

Every array access of `lzxd.c` is a checked access in `MsPack/Lzx/Decoder.lean`; the out-of-bounds
outcome is `Fault.oob "<site>"`.  The theorems below say that `Lzx.decompress` never takes it:

* for **every** source `S : Src σ` whose own `read` does not report an oob fault
  (the CAB feeder: `C02_feeder_no_oob`) and whose announcements of the output length
  (`S.lzxLength`, = `lzxd_set_output_length` called from inside `cabd_sys_read`) are *stable*
  (`LenStable S L₀`: every announcement is `0` or the one value `L₀`; plain sources never announce);
* for every fuel, every requested byte count, every state satisfying the invariant `LzxInv L₀`
  (established by `Lzx.init`, preserved by `Lzx.decompress` and `Lzx.setReferenceData`);
* as long as fewer than 2 GiB have been asked for in total (`st.offset + outBytes < 2^31`).

All twenty-odd sites are covered (window: literal / match source / match destination / raw copy /
E8 copy / write; `inbuf`; `buf`; `PRETREE_len`, `MAINTREE_len`, `LENGTH_len`, `ALIGNED_len`, `lens`;
`extra_bits`, `position_base`; `e8_buf`, `e8_buf (write)`).  The two side conditions are needed on the
model — see the report / the `#eval` witnesses at the end of this file:

* beyond 2 GiB of output `match_offset - window_posn` no longer fits an `int` and the model's
  `oob "window (match source)"` branch of `copyMatch` is reachable;
* a source (or a caller of `setOutputLength`) that changes the announced length after a short
  last frame un-aligns `frame_posn`, and the next full frame runs over the end of the window.

The model has no `nullDeref` / `shiftWidth` / `divZero` sites; `C02_lzx_faults_benign` shows that
*every* fault of `decompress` is fuel exhaustion, a read of a decode table that was never built
(`Fault.uninit`, property C11), or a fault handed up by the source.
-/
namespace MsPack.Lzx
open MsPack MsPack.Generated
variable {σ : Type}

/-- announcements of the output length made by the source from inside `read` never change value -/
def LenStable (S : Src σ) (L₀ : Nat) : Prop :=
  ∀ x n got x' m, S.read x n = .ok (got, x') → S.lzxLength x' = some m → m = 0 ∨ m = L₀

/-- a source that never announces a length (every source but the CAB feeder) is stable for any `L₀` -/
theorem lenStable_of_none (S : Src σ) (h : ∀ x, S.lzxLength x = none) (L₀ : Nat) : LenStable S L₀ := by
  intro x n got x' m _ hm; rw [h] at hm; contradiction

/-- every fault of `decompress` is benign: fuel, an unbuilt table, or a fault of the source itself -/
theorem C02_lzx_faults_benign (S : Src σ) (L₀ : Nat) (hL : LenStable S L₀) (fuel : Nat) (st : St σ)
    (outBytes : Nat) (hinv : LzxInv L₀ st) (ho : st.offset + outBytes < 2147483648) (f : Fault)
    (h : decompress S fuel st outBytes = .error f) :
    f = .hang ∨ (∃ s, f = .uninit s) ∨ (∃ x n, S.read x n = .error f) := by
  have := decompress_spec S L₀ hL fuel st outBytes hinv ho
  rw [h] at this
  exact this

/-- **C02 (LZX)**: no out-of-bounds access -/
theorem C02_lzx_no_oob (S : Src σ) (L₀ : Nat) (hL : LenStable S L₀)
    (hS : ∀ x n s, S.read x n ≠ .error (.oob s)) (fuel : Nat) (st : St σ) (outBytes : Nat)
    (hinv : LzxInv L₀ st) (ho : st.offset + outBytes < 2147483648) (s : String) :
    decompress S fuel st outBytes ≠ .error (.oob s) := by
  intro h
  rcases C02_lzx_faults_benign S L₀ hL fuel st outBytes hinv ho _ h with h1 | ⟨_, h1⟩ | ⟨x, n, h1⟩
  · contradiction
  · contradiction
  · exact hS x n s h1

theorem C02_lzx_no_nullDeref (S : Src σ) (L₀ : Nat) (hL : LenStable S L₀)
    (hS : ∀ x n s, S.read x n ≠ .error (.nullDeref s)) (fuel : Nat) (st : St σ) (outBytes : Nat)
    (hinv : LzxInv L₀ st) (ho : st.offset + outBytes < 2147483648) (s : String) :
    decompress S fuel st outBytes ≠ .error (.nullDeref s) := by
  intro h
  rcases C02_lzx_faults_benign S L₀ hL fuel st outBytes hinv ho _ h with h1 | ⟨_, h1⟩ | ⟨x, n, h1⟩
  · contradiction
  · contradiction
  · exact hS x n s h1

theorem C02_lzx_no_shiftWidth (S : Src σ) (L₀ : Nat) (hL : LenStable S L₀)
    (hS : ∀ x n, S.read x n ≠ .error .shiftWidth) (fuel : Nat) (st : St σ) (outBytes : Nat)
    (hinv : LzxInv L₀ st) (ho : st.offset + outBytes < 2147483648) :
    decompress S fuel st outBytes ≠ .error .shiftWidth := by
  intro h
  rcases C02_lzx_faults_benign S L₀ hL fuel st outBytes hinv ho _ h with h1 | ⟨_, h1⟩ | ⟨x, n, h1⟩
  · contradiction
  · contradiction
  · exact hS x n h1

theorem C02_lzx_no_divZero (S : Src σ) (L₀ : Nat) (hL : LenStable S L₀)
    (hS : ∀ x n, S.read x n ≠ .error .divZero) (fuel : Nat) (st : St σ) (outBytes : Nat)
    (hinv : LzxInv L₀ st) (ho : st.offset + outBytes < 2147483648) :
    decompress S fuel st outBytes ≠ .error .divZero := by
  intro h
  rcases C02_lzx_faults_benign S L₀ hL fuel st outBytes hinv ho _ h with h1 | ⟨_, h1⟩ | ⟨x, n, h1⟩
  · contradiction
  · contradiction
  · exact hS x n h1

/-- `lzxd_init` establishes the invariant -/
theorem C02_lzx_init_inv (src : σ) (windowBits resetInterval inputBufferSize outputLength : Nat)
    (isDelta : Bool) (fill : UInt8) (st : St σ) (L₀ : Nat) (hl : outputLength = 0 ∨ outputLength = L₀)
    (h : init src windowBits resetInterval inputBufferSize outputLength isDelta fill = some st) :
    LzxInv L₀ st :=
  init_inv src windowBits resetInterval inputBufferSize outputLength isDelta fill st L₀ hl h

/-- `lzxd_decompress` preserves the invariant, and `offset` grows by at most what was asked for -/
theorem C02_lzx_inv_preserved (S : Src σ) (L₀ : Nat) (hL : LenStable S L₀) (fuel : Nat) (st : St σ)
    (outBytes : Nat) (hinv : LzxInv L₀ st) (ho : st.offset + outBytes < 2147483648) (o : DecodeOut (St σ))
    (h : decompress S fuel st outBytes = .ok o) :
    LzxInv L₀ o.st ∧ (o.st.error = .ok → o.st.offset ≤ st.offset + outBytes) := by
  have := decompress_spec S L₀ hL fuel st outBytes hinv ho
  rw [h] at this
  rcases this with h1 | ⟨h1, h2⟩
  · exact ⟨Or.inl h1, fun e => absurd e h1⟩
  · exact ⟨Or.inr h1, fun _ => h2⟩

/-- `lzxd_set_reference_data` preserves the invariant -/
theorem C02_lzx_setReferenceData_inv (L₀ : Nat) (st : St σ) (length : Nat) (ref : Option Bytes)
    (h : LzxInv L₀ st) : LzxInv L₀ (setReferenceData st length ref).2 :=
  setReferenceData_inv L₀ st length ref h

/-- a sequence of `lzxd_decompress` calls on one stream -/
def decompressSeq (S : Src σ) (fuel : Nat) : St σ → List Nat → Except Fault (St σ)
  | st, [] => .ok st
  | st, n :: ns =>
    match decompress S fuel st n with
    | .error f => .error f
    | .ok o => decompressSeq S fuel o.st ns

/-- **C02 (LZX), any number of calls**: from a state satisfying the invariant, no sequence of requests
    adding up to less than 2 GiB makes the decoder touch memory out of bounds -/
theorem C02_lzx_seq_no_oob (S : Src σ) (L₀ : Nat) (hL : LenStable S L₀)
    (hS : ∀ x n s, S.read x n ≠ .error (.oob s)) (fuel : Nat) :
    ∀ (ns : List Nat) (st : St σ), LzxInv L₀ st → (st.error = .ok → st.offset + ns.sum < 2147483648) →
      ∀ s, decompressSeq S fuel st ns ≠ .error (.oob s)
  | [], st, _, _, s => by simp [decompressSeq]
  | n :: ns, st, hinv, ho, s => by
    rw [decompressSeq]
    by_cases he : st.error = .ok
    · have ho' := ho he
      simp only [List.sum_cons] at ho'
      split
      · rename_i f hf
        intro hc
        simp only [Except.error.injEq] at hc
        subst hc
        exact C02_lzx_no_oob S L₀ hL hS fuel st n hinv (by omega) s hf
      · rename_i o hok
        obtain ⟨hi', hoff⟩ := C02_lzx_inv_preserved S L₀ hL fuel st n hinv (by omega) o hok
        exact C02_lzx_seq_no_oob S L₀ hL hS fuel ns o.st hi' (fun e => by have := hoff e; omega) s
    · have hd : decompress S fuel st n = .ok ⟨st.error, [], st⟩ := by
        unfold decompress; rw [if_pos he]
      rw [hd]
      exact C02_lzx_seq_no_oob S L₀ hL hS fuel ns st hinv (fun e => absurd e he) s

/-- … in particular from `lzxd_init`, for a source that makes no length announcements -/
theorem C02_lzx_from_init_no_oob (S : Src σ) (hN : ∀ x, S.lzxLength x = none)
    (hS : ∀ x n s, S.read x n ≠ .error (.oob s)) (fuel : Nat)
    (src : σ) (windowBits resetInterval inputBufferSize outputLength : Nat) (isDelta : Bool) (fill : UInt8)
    (st : St σ) (h : init src windowBits resetInterval inputBufferSize outputLength isDelta fill = some st)
    (ns : List Nat) (hs : ns.sum < 2147483648) (s : String) :
    decompressSeq S fuel st ns ≠ .error (.oob s) := by
  have hinv := C02_lzx_init_inv src windowBits resetInterval inputBufferSize outputLength isDelta fill st
    outputLength (Or.inr rfl) h
  have hoff : st.offset = 0 :=
    init_offset src windowBits resetInterval inputBufferSize outputLength isDelta fill st h
  exact C02_lzx_seq_no_oob S outputLength (lenStable_of_none S hN _) hS fuel ns st hinv
    (fun _ => by rw [hoff]; omega) s

/-! ## non-vacuity -/

/-- a plain in-memory source: never faults, never announces a length -/
def listSrc : Src Bytes := { read := fun bs n => .ok (some (bs.take n), bs.drop n) }

/-- an LZX stream: intel header bit 0, one UNCOMPRESSED block of 5 bytes (R0 = R1 = R2 = 1), "hello" -/
def helloStream : Bytes :=
  [0x00, 0x30, 0x50, 0x00, 1, 0, 0, 0, 1, 0, 0, 0, 1, 0, 0, 0, 104, 101, 108, 108, 111]

def runHello : Option (Err × Bytes) :=
  match init (σ := Bytes) helloStream 15 0 4096 5 false 0 with
  | none => none
  | some st =>
    match decompress listSrc 1000 st 5 with
    | .error _ => none
    | .ok o => some (o.err, o.written)

/-- the entry point does real work on a state produced by `init` and returns normally -/
theorem C02_lzx_example_runs : runHello = some (.ok, [104, 101, 108, 108, 111]) := by decide +kernel

/-- the hypotheses of the theorems are satisfiable: for the in-memory source every call sequence from
    `init` (any parameters, any bytes, any fuel) asking for less than 2 GiB is free of oob outcomes -/
example (bs : Bytes) (wb ri ibs ol : Nat) (d : Bool) (fill : UInt8) (st : St Bytes)
    (h : init bs wb ri ibs ol d fill = some st) (fuel : Nat) (ns : List Nat) (hs : ns.sum < 2147483648)
    (s : String) : decompressSeq listSrc fuel st ns ≠ .error (.oob s) :=
  C02_lzx_from_init_no_oob listSrc (fun _ => rfl) (fun _ _ _ h => by simp [listSrc] at h) fuel bs wb ri ibs ol d
    fill st h ns hs s

/-- why the 2 GiB bound is a hypothesis: with `lzx->offset ≥ 2^31` a match offset just above
    `window_posn + 2^31` passes both checks of "copy match" and the model's
    `oob "window (match source)"` branch is taken (`j = match_offset - window_posn` is negative as an `int`) -/
def matchBeyond2G : Option Fault :=
  match init (σ := Bytes) [] 15 0 4096 0 false 0 with
  | none => none
  | some st =>
    match ((copyMatch (σ := Bytes) ⟨none, none, none, false, false, false, 32768, 0, 2147483648 + 10⟩
        (2147483648 + 1) 3).run.run st).1 with
    | .error (.fault f) => some f
    | _ => none

example : matchBeyond2G = some (.oob "window (match source)") := by decide +kernel

end MsPack.Lzx
