import Proofs.Lemmas.OutName
/-
C16 — "cabextract never writes outside the destination directory": the name-level part.

The theorems are about the model of `create_output_name` (MsPack/Cabx/OutName.lean), which the
`prim.outname` family of checks/c16.py compares with the real function byte for byte.  What the
file system then does with the name (`can_write`, `ensure_filepath`, `fopen`, symlinks) is not a
Lean matter; checks/c16.py observes it on the real binary (family `fs`).

What the code guarantees about the archive-controlled part `body` of the output name
(`out = dir ++ "/" ++ body`, or `out = body` without -d):
  * it does not start with '/' or '\';
  * it contains no "../" and no "..\" anywhere (not only at component boundaries), hence no
    component other than the LAST one is "..";
  * it contains no NUL byte.
What it does NOT guarantee (proved below on concrete inputs): the last component may be ".."
(`final_dotdot_survives`), and the whole body may be ".." (`lone_dotdot_survives`).  Such a name
can only be opened as a directory, so `fopen(name, "wb")` fails; it is not a way out of the
destination, but it is not excluded at the name level either.
-/
namespace MsPack.C16
open MsPack MsPack.Cabx

/-- For every lower-casing function (any locale), every name, flag combination and directory:
    the output is the directory prefix followed by a body that has no leading slash of either
    kind, no `..` + slash anywhere, and no `..` component except possibly the last. -/
theorem name_sanitised_any_locale (tolow : Nat → Nat) (fname : Bytes) (dir : Option Bytes)
    (lower isunix utf8 : Bool) (out : Bytes)
    (h : createOutputNameWith tolow fname dir lower isunix utf8 = some out) :
    ∃ body, out = dirPrefix dir ++ body ∧
      (∀ c t, body = c :: t → c ≠ 0x2F ∧ c ≠ 0x5C) ∧
      (∀ pre post c, (c = 0x2F ∨ c = 0x5C) → body ≠ pre ++ 0x2E :: 0x2E :: c :: post) ∧
      (∀ comp ∈ (splitSlash body).dropLast, comp ≠ [0x2E, 0x2E]) := by
  unfold createOutputNameWith at h
  injection h with h
  refine ⟨sanitize (convName tolow fname lower isunix utf8), h.symm, ?_, ?_, ?_⟩
  · intro c t e
    have := sanitize_noLead _ c t e
    simp only [isSlash, Bool.or_eq_false_iff, beq_eq_false_iff_ne] at this
    exact this
  · intro pre post c hc
    apply no_dotdot_slash_of_hasDDS (sanitize_noDDS _)
    rcases hc with hc | hc <;> subst hc <;> decide
  · exact dotdot_not_component (sanitize_noDDS _)

-- a "locale" whose lower-casing maps a to b
example : createOutputNameWith (fun x => if x = 0x61 then 0x62 else x) [0x5C, 0x2E, 0x2E, 0x5C, 0x61] (some [0x64]) true false false
    = some [0x64, 0x2F, 0x78, 0x78, 0x2F, 0x62] := by decide

/-- The C-locale function (`prim outname`): as above, and the output contains no NUL byte. -/
theorem name_sanitised (fname : Bytes) (dir : Option Bytes) (lower isunix utf8 : Bool) (out : Bytes)
    (h : createOutputName fname dir lower isunix utf8 = some out) :
    ∃ body, out = dirPrefix dir ++ body ∧
      (∀ c t, body = c :: t → c ≠ 0x2F ∧ c ≠ 0x5C) ∧
      (∀ b ∈ out, b ≠ 0) ∧
      (∀ pre post c, (c = 0x2F ∨ c = 0x5C) → body ≠ pre ++ 0x2E :: 0x2E :: c :: post) ∧
      (∀ comp ∈ (splitSlash body).dropLast, comp ≠ [0x2E, 0x2E]) := by
  obtain ⟨body, hb, h1, h2, h3⟩ := name_sanitised_any_locale lowerC fname dir lower isunix utf8 out h
  refine ⟨body, hb, h1, ?_, h2, h3⟩
  unfold createOutputName createOutputNameWith at h
  injection h with h
  intro b hb'
  rw [← h, List.mem_append] at hb'
  rcases hb' with hb' | hb'
  · cases dir with
    | none => simp [dirPrefix] at hb'
    | some d =>
      simp only [dirPrefix, List.mem_append, List.mem_singleton] at hb'
      rcases hb' with hb' | hb'
      · exact cstr_no_nul d b hb'
      · rw [hb']; decide
  · rcases sanitize_mem hb' with hm | hm
    · exact convName_no_nul _ _ _ _ b hm
    · rw [hm]; decide

-- "..\..\etc\passwd" with -d d  ->  "d/xx/xx/etc/passwd"
example : createOutputName [0x2E,0x2E,0x5C,0x2E,0x2E,0x5C,0x65,0x74,0x63,0x5C,0x70,0x61,0x73,0x73,0x77,0x64]
    (some [0x64]) false false false
    = some [0x64,0x2F,0x78,0x78,0x2F,0x78,0x78,0x2F,0x65,0x74,0x63,0x2F,0x70,0x61,0x73,0x73,0x77,0x64] := by decide
-- "/tmp/x" in a cabinet with UNIX separators, no -d  ->  "tmp/x"
example : createOutputName [0x2F,0x74,0x6D,0x70,0x2F,0x78] none false true false
    = some [0x74,0x6D,0x70,0x2F,0x78] := by decide
-- UTF-8 flag, overlong ". . \" (C0 AE is rejected byte-wise, E0 80 AE and F0 80 80 AE decode to '.'):
-- E0 80 AE  F0 80 80 AE  5C  41   with -L  ->  "xx/a"
example : createOutputName [0xE0,0x80,0xAE,0xF0,0x80,0x80,0xAE,0x5C,0x41] none true false true
    = some [0x78,0x78,0x2F,0x61] := by decide
-- a name of slashes only  ->  "x"
example : createOutputName [0x5C,0x2F,0x5C] (some []) false false false = some [0x2F,0x78] := by decide

/-- NOT guaranteed: the last component can be "..".  `a\..` with -d d gives `d/a/..`. -/
theorem final_dotdot_survives :
    createOutputName [0x61, 0x5C, 0x2E, 0x2E] (some [0x64]) false false false
      = some [0x64, 0x2F, 0x61, 0x2F, 0x2E, 0x2E] := by decide

/-- NOT guaranteed: the whole archive-controlled part can be "..". -/
theorem lone_dotdot_survives :
    createOutputName [0x2E, 0x2E] none false false false = some [0x2E, 0x2E] := by decide

/-- The allocation `malloc(dirlen + 4*filelen + 2)` is large enough, for every locale: neither the
    conversion loop (`dirlen + |converted name| + 1` bytes incl. the NUL) nor the final string
    (`|out| + 1`) nor the `strcpy(o, "x")` (`dirlen + 2`) exceeds it. -/
theorem createOutputName_fits (tolow : Nat → Nat) (fname : Bytes) (dir : Option Bytes)
    (lower isunix utf8 : Bool) (out : Bytes)
    (h : createOutputNameWith tolow fname dir lower isunix utf8 = some out) :
    let dirlen := (dirPrefix dir).length
    let alloc := dirlen + 4 * (cstr fname).length + 2
    dirlen + (convName tolow fname lower isunix utf8).length + 1 ≤ alloc ∧
    out.length + 1 ≤ alloc ∧ dirlen + 2 ≤ alloc := by
  unfold createOutputNameWith at h
  injection h with h
  have h1 := convName_length tolow fname lower isunix utf8
  have h2 := sanitize_length (convName tolow fname lower isunix utf8)
  simp only [← h, List.length_append]
  omega

-- the bound is met with slack 1: a 1-byte name that becomes U+FFFD (3 bytes)
example : (createOutputName [0xFF] none false false true).map List.length = some 3 := by decide

end MsPack.C16
