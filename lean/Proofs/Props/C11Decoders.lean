import Proofs.Lemmas.FillSimLzh
import Proofs.Lemmas.FillSimLzx
import Proofs.Lemmas.FillSimQtm
/-!
# C11 on the decoder models: no result depends on what fresh memory contained

The models take the allocator's fill byte as a parameter of `init`, exactly where the C leaves
memory uninitialised.  Proved here, for every input source, every fuel and any two fill bytes: the
observable results (status and bytes handed to `write`, or the fault) of the decoder calls are the
same.  The proofs are two-run simulations (`Proofs/Lemmas/FillSim*.lean`): a relation between the
two states that lets the never-read cells differ is preserved by every helper of the model, and
related states give equal results.

* KWAJ LZH: `inbuf` (read only below `i_end`) and the ring (set by `lzh_decompress` before use).
* LZX: the 64 spare entries of the main/length length arrays, the pretree and aligned length arrays
  (written before each use), `block_length` (read only when `block_type == 3`, i.e. after a header
  has set it), `LENGTH_empty` (read only in verbatim/aligned blocks, whose header sets it), `e8_buf`
  (read only below what the E8 pass has just copied in).
* Quantum: `H`, `L`, `C` (set by the frame header before the first symbol) and the model-array
  cells above `entries`.
-/
namespace MsPack.C11
open MsPack

/-- KWAJ LZH (`lzh_init` + `lzh_decompress`) -/
theorem C11_lzh_fill_independent {σ : Type} (S : Src σ) (fuel : Nat) (src : σ) (f1 f2 : UInt8) :
    Kwaj.Lzh.observe (Kwaj.Lzh.decompress S fuel (Kwaj.Lzh.init src f1)) =
    Kwaj.Lzh.observe (Kwaj.Lzh.decompress S fuel (Kwaj.Lzh.init src f2)) :=
  Kwaj.Lzh.decompress_sim0 S fuel (Kwaj.Lzh.init_sim0 src f1 f2)

/-- LZX / LZX DELTA: `lzxd_init` succeeds or fails regardless of the fill byte, and any sequence of
    `lzxd_decompress`, `lzxd_set_output_length` and `lzxd_set_reference_data` calls on the fresh
    stream gives the same statuses and the same bytes -/
theorem C11_lzx_fill_independent {σ : Type} (S : Src σ) (fuel : Nat) (src : σ)
    (windowBits resetInterval inputBufferSize outputLength : Nat) (isDelta : Bool) (f1 f2 : UInt8)
    (calls : List Lzx.Fill.Call) :
    (Lzx.init src windowBits resetInterval inputBufferSize outputLength isDelta f1).map
        (fun st => Lzx.Fill.trace S fuel st calls) =
    (Lzx.init src windowBits resetInterval inputBufferSize outputLength isDelta f2).map
        (fun st => Lzx.Fill.trace S fuel st calls) :=
  Lzx.Fill.lzx_fill_independent S fuel src windowBits resetInterval inputBufferSize outputLength isDelta f1 f2 calls

/-- Quantum: `qtmd_init` succeeds or fails regardless of the fill byte, and any sequence of
    `qtmd_decompress` calls on the fresh stream gives the same statuses and the same bytes -/
theorem C11_qtm_fill_independent {σ : Type} (S : Src σ) (fuel : Nat) (src : σ)
    (windowBits inputBufferSize : Nat) (f1 f2 : UInt8) (calls : List Nat) :
    (Qtm.init src windowBits inputBufferSize f1).map (fun st => Qtm.trace S fuel st calls) =
    (Qtm.init src windowBits inputBufferSize f2).map (fun st => Qtm.trace S fuel st calls) :=
  Qtm.C11_qtm_fill_independent S fuel src windowBits inputBufferSize f1 f2 calls

/-! ## non-vacuity: the initial states do differ with the fill byte -/

example : (Kwaj.Lzh.init () 0).inbuf ≠ (Kwaj.Lzh.init () 1).inbuf := by
  intro h
  have := congrArg (fun a => a[0]?) h
  simp [Kwaj.Lzh.init, MsPack.Generated.kwajINPUT_SIZE] at this

example : (Lzx.init () 15 0 2 0 false 0).map (·.blockLength) ≠ (Lzx.init () 15 0 2 0 false 1).map (·.blockLength) := by
  decide

example : (Lzx.init () 15 0 2 0 false 0).map (·.lengthEmpty) ≠ (Lzx.init () 15 0 2 0 false 1).map (·.lengthEmpty) := by
  decide

example : (Qtm.init () 10 2 0).map (·.H) ≠ (Qtm.init () 10 2 1).map (·.H) := by decide

/-- and `init` does succeed for these parameters, so the theorems are not about `none = none` -/
example : ((Lzx.init () 15 0 2 0 false 0).map fun _ => ()) = some () := by decide
example : ((Qtm.init () 10 2 0).map fun _ => ()) = some () := by decide

end MsPack.C11

#print axioms MsPack.C11.C11_lzh_fill_independent
#print axioms MsPack.C11.C11_lzx_fill_independent
#print axioms MsPack.C11.C11_qtm_fill_independent
