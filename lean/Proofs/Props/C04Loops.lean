import Proofs.Lemmas.LoopTerm
import Proofs.Lemmas.LoopTermSys
import Proofs.Lemmas.LoopTermOab
import Proofs.Lemmas.LoopTermOabSys
import Proofs.Lemmas.LoopTermChm
import Proofs.Lemmas.LoopTermLzh
import Proofs.Lemmas.LoopTermZip
import Proofs.Lemmas.LoopTermKwaj
import Proofs.Lemmas.LoopTermCab
import Proofs.Lemmas.LoopTermLzx
import MsPack.Driver.OabSys
import MsPack.Driver.Szdd
import MsPack.Driver.Kwaj
import MsPack.Driver.Oab
import MsPack.Driver.SzddSys
/-!
# C04 — every call terminates after bounded work: the fuel loops

Every model loop that is not structurally recursive runs on a `fuel` argument and reports
"out of fuel" as `Fault.hang` (pure models) or `none` (effect models over `Sys.M`).  Proved here:
with the fuel the entry points pass — a bound computed from the input size — that outcome is
unreachable, for every input.  The pattern is that of `Proofs/Props/C04.lean` (CAB feeder) and
`C14_never_hangs`: a measure every iteration decreases (input bytes left, 16-byte block headers
left, bytes still to copy) and induction on the fuel.

Sources: the decoders read from an abstract `Src σ`.  What is assumed of one is `Src.Finite S rem`
(`Proofs/Lemmas/LoopTerm.lean`): a bound `rem s` on the bytes still to come that every successful
`read` lowers by at least what it delivers, and `read` itself never reports `hang`.  The file-backed
source `Rd.src` is finite with `rem r = r.file.length - r.pos` (`Rd.src_finite`).
-/
namespace MsPack
open MsPack MsPack.Generated

/-! ## 1. LZSS (`lzss_decompress`; SZDD and KWAJ method 2) -/

/-- `lzss_decompress` over any finite source: more fuel than bytes left suffices — every round of
    the main loop consumes at least the control byte.  Measure: buffered bytes + `rem src`. -/
theorem C04_lzss_no_hang {σ : Type} (S : Src σ) (rem : σ → Nat) (hS : S.Finite rem) (fuel : Nat) (src : σ)
    (bufSize mode : Nat) (h : rem src + 1 ≤ fuel) : Lzss.decompress S fuel src bufSize mode ≠ .error .hang :=
  Lzss.decompress_no_hang S rem hS fuel src bufSize mode h

/-- non-vacuity: the file-backed source is finite; and `hang` is a real outcome of the model when the fuel is
    too small (one round of fuel, two rounds of input; a 16-byte ring is enough for eight literals) -/
example : Src.Finite Rd.src Rd.left := Rd.src_finite
example : (match Lzss.mainLoop Rd.src 0 1
      { src := ⟨[0xFF, 1, 2, 3, 4, 5, 6, 7, 8, 0xFF, 9], 0⟩, inbufSize := 16, window := Array.replicate 16 0, pos := 0 } with
    | .fault .hang => true | _ => false) = true := by decide

/-- `szddd_extract` with the fuel the driver passes (`16 × file length + 100000`) -/
theorem C04_szdd_extract_no_hang (h : Szdd.Handle) :
    Szdd.extract (Driver.Szdd.fuelFor h.rd.file.length) h ≠ .error .hang :=
  Szdd.extract_no_hang _ h (by unfold Driver.Szdd.fuelFor; omega)

/-- `szddd_decompress` with the fuel the driver passes -/
theorem C04_szdd_decompress_no_hang (file : Option Bytes) :
    Szdd.decompress (Driver.Szdd.fuelFor (file.getD []).length) file ≠ .error .hang :=
  Szdd.decompress_no_hang _ file (by unfold Driver.Szdd.fuelFor; omega)

/-- the KWAJ copy loop (methods NONE / XOR): every round moves at least one byte -/
theorem C04_kwaj_copy_no_hang (xor : Bool) (r : Rd) (w : Array UInt8) (fuel : Nat) (h : r.left + 1 ≤ fuel) :
    Kwaj.copyLoop xor fuel r w ≠ .error .hang :=
  Kwaj.copyLoop_no_hang xor fuel r w h

/-! ### the effect models (`Sys.M`): every world — any files, any fault plan -/

/-- `lzss_decompress` over the instrumented system: more fuel than the input handle has bytes left
    (`Sys.inLeft`) suffices, whatever the files, the handle table and the planned failures are -/
theorem C04_lzss_sys_no_hang (inFh outFh bufsize : Nat) (qb : Bool) (fuel : Nat) (w : Sys.World)
    (h : Sys.inLeft w inFh + 1 ≤ fuel) : (Szdd.Api.lzss inFh outFh bufsize qb fuel w).1 ≠ none :=
  Szdd.Api.lzss_no_hang inFh outFh bufsize qb fuel w h

/-- `szddd_decompress` (effect model) with the fuel `mspack-driver --sys` passes: file length + 16 -/
theorem C04_szdd_sys_decompress_no_hang (i : Szdd.Api.Inst) (input output : String) (w : Sys.World) :
    (Szdd.Api.decompress i input output (Driver.SzddSys.fuelFor w input) w).1 ≠ none :=
  Szdd.Api.decompress_no_hang i input output _ w (by unfold Driver.SzddSys.fuelFor; omega)

/-- `szddd_extract` (effect model) with the driver's fuel: the length of the file the handle reads -/
theorem C04_szdd_sys_extract_no_hang (i : Szdd.Api.Inst) (h : Szdd.Api.Hdr) (out : String) (w : Sys.World) :
    (Szdd.Api.extract i h out
      (Driver.SzddSys.fuelFor w (((w.liveHandles.find? (·.id = h.fh)).map (·.name)).getD "")) w).1 ≠ none := by
  apply Szdd.Api.extract_no_hang
  unfold Driver.SzddSys.fuelFor Sys.inSize Sys.findHandle
  cases w.liveHandles.find? (fun x => decide (x.id = h.fh)) with
  | none => simp
  | some hd =>
    simp only [Option.map_some, Option.getD_some, Sys.hSize]
    split <;> omega

/-- `kwajd_extract` (effect model: stored, XOR and SZDD methods run their loops; the LZH and MSZIP
    bodies are parameters that return) with the driver's fuel -/
theorem C04_kwaj_sys_extract_no_hang (d : Kwaj.Api.Decoders) (i : Kwaj.Api.Inst) (h : Kwaj.Api.Hdr) (out : String)
    (w : Sys.World) :
    (Kwaj.Api.extract d i h out
      (Driver.SzddSys.fuelFor w (((w.liveHandles.find? (·.id = h.fh)).map (·.name)).getD "")) w).1 ≠ none := by
  apply Kwaj.Api.extract_no_hang
  unfold Driver.SzddSys.fuelFor Sys.inSize Sys.findHandle
  cases w.liveHandles.find? (fun x => decide (x.id = h.fh)) with
  | none => simp
  | some hd =>
    simp only [Option.map_some, Option.getD_some, Sys.hSize]
    split <;> omega

/-- `kwajd_decompress` (effect model) with the driver's fuel -/
theorem C04_kwaj_sys_decompress_no_hang (d : Kwaj.Api.Decoders) (i : Kwaj.Api.Inst) (input output : String)
    (w : Sys.World) : (Kwaj.Api.decompress d i input output (Driver.SzddSys.fuelFor w input) w).1 ≠ none :=
  Kwaj.Api.decompress_no_hang d i input output _ w (by unfold Driver.SzddSys.fuelFor; omega)

/-! ## 2. OAB container loops -/

/-- `copy_fh`: `bytes_to_copy` rounds suffice when the buffer has at least one byte (`oabd_param`
    refuses less than 16: `Oab.param_bufSize`).  Measure: bytes still to copy. -/
theorem C04_oab_copyFh_no_hang (toOut : Bool) (rd : Rd) (n bufSize : Nat) (hb : 1 ≤ bufSize) :
    Oab.copyFh toOut rd n bufSize ≠ .error .hang :=
  Oab.copyFh_no_hang toOut rd n bufSize hb

/-- with `buf_size = 0` the C's `copy_fh` spins for ever, and so does the model: the premise is needed -/
example : (match Oab.copyFh false ⟨[1, 2, 3], 0⟩ 2 0 with | .error .hang => true | _ => false) = true := by decide

/-- `oabd_decompress`, every input file: neither `copy_fh` nor the block loop (`file length / 16 + 1`
    rounds; measure: 16-byte headers that still fit into the rest of the file) runs out of fuel —
    for every LZX decoder fuel with which the decoder, started with empty buffers on the file the input
    handle reads (the input file, or nothing if the output has truncated it), does not hang itself and
    leaves the handle where it was or further on (`Oab.LzxTerm`) -/
theorem C04_oab_decompress_no_hang (fuel bufSize : Nat) (hb : 1 ≤ bufSize) (fill : UInt8)
    (input : Option Bytes) (outIsIn : Bool) (hL : Oab.LzxTerm fuel (if outIsIn then [] else input.getD [])) :
    Oab.decompress fuel bufSize fill input outIsIn ≠ .error .hang :=
  Oab.decompress_no_hang fuel bufSize hb fill input outIsIn hL

/-- `oabd_decompress_incremental`, every patch and base file -/
theorem C04_oab_decompressIncremental_no_hang (fuel bufSize : Nat) (hb : 1 ≤ bufSize)
    (fill : UInt8) (input base : Option Bytes) (outIsIn outIsBase : Bool)
    (hL : Oab.LzxTerm fuel (if outIsIn then [] else input.getD [])) :
    Oab.decompressIncremental fuel bufSize fill input base outIsIn outIsBase ≠ .error .hang :=
  Oab.decompressIncremental_no_hang fuel bufSize hb fill input base outIsIn outIsBase hL

/-- `oabd_decompress` with the fuel the driver passes, **unconditionally** (every input file, every buffer size
    ≥ 1): the hypothesis above is discharged by the LZX termination theorem `C04_lzx_oab_term` -/
theorem C04_oab_decompress_driver_no_hang (bufSize : Nat) (hb : 1 ≤ bufSize) (fill : UInt8) (input : Option Bytes)
    (outIsIn : Bool) :
    Oab.decompress (Driver.Oab.fuelFor (input.getD []).length) bufSize fill input outIsIn ≠ .error .hang :=
  Oab.decompress_driver_no_hang _ bufSize hb fill input outIsIn (by unfold Driver.Oab.fuelFor; omega)

theorem C04_oab_decompressIncremental_driver_no_hang (bufSize : Nat) (hb : 1 ≤ bufSize) (fill : UInt8)
    (input base : Option Bytes) (outIsIn outIsBase : Bool) :
    Oab.decompressIncremental (Driver.Oab.fuelFor (input.getD []).length) bufSize fill input base outIsIn outIsBase
      ≠ .error .hang :=
  Oab.decompressIncremental_driver_no_hang _ bufSize hb fill input base outIsIn outIsBase
    (by unfold Driver.Oab.fuelFor; omega)

/-- stored blocks need nothing of the LZX decoder: the loops themselves are the subject.  The two block loops
    with their `file length / 16 + 1` rounds, for any handle -/
theorem C04_oab_fullLoop_no_hang (fuel bufSize : Nat) (hb : 1 ≤ bufSize) (fill : UInt8) (blockMax : Nat) (rd : Rd)
    (t : Nat) (w : Bytes) (hL : Oab.LzxTerm fuel rd.file) :
    Oab.fullLoop fuel bufSize fill blockMax (rd.file.length / 16 + 1) rd t w ≠ .error .hang :=
  Oab.fullLoop_no_hang fuel bufSize hb fill blockMax _ rd t w hL
    (by have : rd.left / 16 ≤ rd.file.length / 16 := Nat.div_le_div_right (by unfold Rd.left; omega); omega)

theorem C04_oab_patchLoop_no_hang (fuel bufSize lzxBuf : Nat) (hb : 1 ≤ bufSize) (fill : UInt8) (blockMax : Nat)
    (base : Bytes) (ob : Bool) (rd : Rd) (bp t : Nat) (w : Bytes) (hL : Oab.LzxTerm fuel rd.file) :
    Oab.patchLoop fuel bufSize lzxBuf fill blockMax base ob (rd.file.length / 16 + 1) rd bp t w ≠ .error .hang :=
  Oab.patchLoop_no_hang fuel bufSize lzxBuf hb fill blockMax base ob _ rd bp t w hL
    (by have : rd.left / 16 ≤ rd.file.length / 16 := Nat.div_le_div_right (by unfold Rd.left; omega); omega)

/-- the buffer-size premise holds for every decompressor a client can configure -/
example (p v : Int) : 16 ≤ (Oab.param {} p v).2.bufSize := Oab.param_bufSize {} p v (by decide)

/-! ### the effect model (`Sys.M`): the LZX block decoder is a parameter (`Body`) -/

/-- `oabd_decompress` (effect model) with the fuel `mspack-driver --sys` passes (file length + 16), for every
    world and every decoder body that does not give the input handle more to read (`BodyFwd`).  Measure:
    `Sys.inLeft w inFh`; `copy_fh` and the block loop both get `fuel` rounds. -/
theorem C04_oab_sys_decompress_no_hang (body : Oab.Api.Body) (hB : Oab.Api.BodyFwd body) (i : Oab.Api.Inst)
    (hb : 1 ≤ i.bufSize) (input output : String) (w : Sys.World) :
    (Oab.Api.decompress body i input output (Driver.SzddSys.fuelFor w input) w).1 ≠ none :=
  Oab.Api.decompress_no_hang body hB i input output _ hb w (by unfold Driver.SzddSys.fuelFor; omega)

/-- `oabd_decompress_incremental` (effect model) with the driver's fuel -/
theorem C04_oab_sys_decompressIncremental_no_hang (body : Oab.Api.Body) (hB : Oab.Api.BodyFwd body)
    (i : Oab.Api.Inst) (hb : 1 ≤ i.bufSize) (input base output : String) (w : Sys.World) :
    (Oab.Api.decompressIncremental body i input base output (Driver.SzddSys.fuelFor w input) w).1 ≠ none :=
  Oab.Api.decompressIncremental_no_hang body hB i input base output _ hb w (by unfold Driver.SzddSys.fuelFor; omega)

/-- non-vacuity: the driver's stand-in body, and a body that really reads its block from the input handle and
    writes to the output handle, satisfy `BodyFwd`; the instance `create` returns has a 4096-byte buffer -/
example : Oab.Api.BodyFwd Driver.OabSys.sentinelBody := fun _ _ _ => Sys.NonInc.pure _ _
example : Oab.Api.BodyFwd (fun a inFh outFh => do
    let got ← Sys.read inFh a.available
    let _ ← Sys.write outFh (got.getD [])
    pure ⟨.ok, 0, 0⟩) :=
  fun _ _ _ => Sys.NonInc.bind (Sys.NonInc.read _ _ _) fun _ => Sys.NonInc.bind (Sys.NonInc.write _ _ _) fun _ =>
    Sys.NonInc.pure _ _

/-! ## 3. CHM

`Proofs/Lemmas/LoopTermChm.lean` (theorems `Chm.C04_chm_*`): `read_encint` (fuel 10, measure `9 - i`), the name
comparison (`l1 + 1`), the chunk search (`bsearch`: `R - L`; `skipEncint`: `e - p`), `descend` / `walk` (their
fuel-0 case is the C's `visits++ > num_chunks` exit with MSPACK_ERR_DATAFORMAT, so `hang` is unreachable for every
fuel), `chmd_fast_find`, `chmd_read_headers` / `readChunks`, the reset-table and span-info lookups, the section-0
copy loop (`file length / 512 + 2` rounds) and `chmd_extract` for section 0; for section 1 `hang` can only come out
of the LZX decoder call.  Restated here for the entry points. -/

theorem C04_chm_fast_find_no_hang (file : Option Bytes) (st : Chm.FF) (filename : Bytes) :
    Chm.fastFind file st filename ≠ .error .hang :=
  Chm.C04_chm_fast_find_no_hang file st filename

theorem C04_chm_descend_walk_no_hang (file fname : Bytes) (fuel n : Nat) (last : Chm.Search) (st : Chm.FF) :
    Chm.descend file fname fuel n st ≠ .error .hang ∧ Chm.walk file fname fuel n last st ≠ .error .hang :=
  Chm.C04_chm_descend_walk_no_hang file fname fuel n last st

theorem C04_chm_read_headers_no_hang (filename : String) (file : Bytes) (entire : Bool) :
    Chm.readHeaders filename file entire ≠ .error .hang ∧ Chm.realOpen filename file entire ≠ .error .hang :=
  Chm.C04_chm_read_headers_no_hang filename file entire

theorem C04_chm_init_decomp_no_hang (files : Chm.Files) (fill : UInt8) (x : Chm.X) (entry : Nat) (fileOffset : Int) :
    Chm.readResetTable files x entry ≠ .error .hang ∧ Chm.readSpaninfo files x ≠ .error .hang ∧
    Chm.initDecomp files fill x fileOffset ≠ .error .hang :=
  Chm.C04_chm_init_decomp_no_hang files fill x entry fileOffset

/-- the section-0 copy loop: its out-of-fuel result is not a separate value (`none` = "no error"), so the statement
    is that the `file length / 512 + 2` rounds `chmd_extract` passes are as good as any larger number … -/
theorem C04_chm_copy_no_hang (r : Rd) (length : Int) (acc : Bytes) (fuel : Nat) (h : r.file.length / 512 + 2 ≤ fuel) :
    Chm.copyLoop fuel r length acc = Chm.copyLoop (r.file.length / 512 + 2) r length acc :=
  Chm.C04_chm_copy_no_hang r length acc fuel h

/-- … and that a run which ends without an error has copied exactly the bytes asked for -/
theorem C04_chm_copy_complete (r : Rd) (length : Int) (acc : Bytes)
    (h : (Chm.copyLoop (r.file.length / 512 + 2) r length acc).1 = none) :
    (Chm.copyLoop (r.file.length / 512 + 2) r length acc).2.1 = acc ++ (r.file.drop r.pos).take length.toNat :=
  Chm.C04_chm_copy_complete r length acc h

theorem C04_chm_extract_sec0_no_hang (files : Chm.Files) (fill : UInt8) (inst : Chm.Inst) (key : Nat)
    (hdr : Chm.Header) (offset length : Int) : Chm.extract files fill inst key hdr 0 offset length ≠ .fault .hang :=
  Chm.C04_chm_extract_sec0_no_hang files fill inst key hdr offset length

/-- `chmd_extract` of a compressed member: `hang` can only come out of an `lzxd_decompress` call -/
theorem C04_chm_extract_no_hang (files : Chm.Files) (fill : UInt8) (inst : Chm.Inst) (key : Nat) (hdr : Chm.Header)
    (sec : Nat) (offset length : Int) (h : Chm.extract files fill inst key hdr sec offset length = .fault .hang) :
    sec ≠ 0 ∧ ∃ x bytes, Chm.lzxCall files x bytes = .error .hang :=
  Chm.C04_chm_extract_no_hang files fill inst key hdr sec offset length h

/-! ## 4a. KWAJ LZH (`Proofs/Lemmas/LoopTermLzh.lean`) -/

/-- `lzh_decompress` over any finite source: `8 × bytes left + 2` rounds suffice (every round of the main loop
    consumes at least one real input bit, or notes the end of input, after which the next round leaves) -/
theorem C04_lzh_no_hang {σ : Type} (S : Src σ) (rem : σ → Nat) (hS : S.Finite rem) (fuel : Nat) (st : Kwaj.Lzh.St σ)
    (hf : 8 * rem st.src + 2 ≤ fuel) : Kwaj.Lzh.decompress S fuel st ≠ .error .hang :=
  Kwaj.Lzh.C04_lzh_no_hang S ⟨hS.read_le, hS.no_hang⟩ fuel st hf

/-- … with the fuel the driver passes, on the handle `kwajd_extract` has positioned -/
theorem C04_lzh_driver_no_hang (rd : Rd) (off : Nat) (fill : UInt8) :
    Kwaj.Lzh.decompress Rd.src (Driver.Kwaj.fuelFor rd.file.length) (Kwaj.Lzh.init (rd.seekStart off) fill)
      ≠ .error .hang :=
  Kwaj.Lzh.C04_lzh_extract_fuel_no_hang rd off fill

/-! ## 4b. MSZIP inflate (`Proofs/Lemmas/LoopTermZip.lean`)

Measure `Zip.bitsLeft rem st` = bits still obtainable: buffered bits + 8 × (buffered bytes + bytes left in the source)
+ 16 for the two zero bytes `read_input` makes up at the first end of input.  Every `inflate` round consumes the
3 header bits, every `huffBlock` round a Huffman code of at least one bit, `readLensLoop` adds at least one length
per round (`total + 1` rounds), `copyStored` moves at least one byte per round (`length + 2` rounds; needs the
window position inside the frame, which the callers establish), every block-loop round at least 8 / 16 bits. -/

theorem C04_zip_inflate_no_hang {σ : Type} (S : Src σ) (rem : σ → Nat) (hS : S.Finite rem) (fuel : Nat) (st : Zip.St σ)
    (hw : st.windowPosn < zipFRAME_SIZE) (hf : Zip.bitsLeft rem st + 1 ≤ fuel) :
    Zip.runInflate S fuel st ≠ .error .hang :=
  Zip.C04_zip_inflate_no_hang ⟨hS.read_le, hS.no_hang⟩ fuel st hw hf

/-- `mszipd_decompress` (CAB MSZIP), any `out_bytes`, either repair mode -/
theorem C04_zip_decompress_no_hang {σ : Type} (S : Src σ) (rem : σ → Nat) (hS : S.Finite rem) (fuel : Nat)
    (st : Zip.St σ) (outBytes : Nat) (hf : Zip.bitsLeft rem st + 1 ≤ fuel) :
    Zip.decompress S fuel st outBytes ≠ .error .hang :=
  Zip.C04_zip_decompress_no_hang ⟨hS.read_le, hS.no_hang⟩ fuel st outBytes hf

/-- `mszipd_decompress_kwaj` -/
theorem C04_zip_decompressKwaj_no_hang {σ : Type} (S : Src σ) (rem : σ → Nat) (hS : S.Finite rem) (fuel : Nat)
    (st : Zip.St σ) (hf : Zip.bitsLeft rem st + 1 ≤ fuel) : Zip.decompressKwaj S fuel st ≠ .error .hang :=
  Zip.C04_zip_decompressKwaj_no_hang ⟨hS.read_le, hS.no_hang⟩ fuel st hf

/-- … as `kwajd_extract` runs it, with the driver's fuel -/
theorem C04_zip_kwaj_driver_no_hang (r : Rd) (fill : UInt8) (z : Zip.St Rd)
    (h : Zip.init r kwajINPUT_SIZE false fill = some z) :
    Zip.decompressKwaj Rd.src (Driver.Kwaj.fuelFor r.file.length) z ≠ .error .hang :=
  Zip.C04_zip_decompressKwaj_driver_no_hang r fill z h

/-! ## LZX (beyond the list; `Proofs/Lemmas/LoopTermLzx.lean`)

Measure: bits the decoder can still consume = buffered bits + 8 × (buffered bytes + bytes left in the source) + 16
for the two bytes `read_input` makes up at the first end of input.  `readBits n` lowers it by `n`, a Huffman symbol
by at least 1, a raw byte by 8; every round of `readLensLoop`, `decodeRun`, `copyRaw`, `blockLoop` consumes input
(a zero-length block costs its header bits); `e8Loop` gets the frame size; `ensureBits` (fuel 3) is asked for at
most 17 bits. -/

/-- `lzxd_decompress` over any finite source, from any decoder state -/
theorem C04_lzx_no_hang {σ : Type} (S : Src σ) (rem : σ → Nat) (hS : S.Finite rem) (fuel : Nat) (st : Lzx.St σ) (n : Nat)
    (hf : st.bits.length + 8 * st.inbuf.length + 8 * rem st.src + 19 ≤ fuel) :
    Lzx.decompress S fuel st n ≠ .error .hang :=
  Lzx.C04_lzx_no_hang S rem hS fuel st n hf

/-- the LZX decoder as oabd.c runs it: `Oab.LzxTerm` holds for the driver's fuel -/
theorem C04_lzx_oab_term (fuel : Nat) (file : Bytes) (hf : 16 * file.length + 100000 ≤ fuel) : Oab.LzxTerm fuel file :=
  Oab.C04_lzx_oab_term fuel file hf

/-- one `lzxd_decompress` call of `chmd_extract` with its budget `lzxFuel file` (16 × file bytes + 100000): no `hang`
    when the cached decoder state holds no more buffered input than that budget leaves room for (a fresh state holds
    none; a used one at most its input buffer and a few dozen bits - that invariant of the cache is not proved here) -/
theorem C04_chm_lzx_call_no_hang (file : Bytes) (st : Lzx.St Rd) (pos n : Nat)
    (hbuf : st.bits.length + 8 * st.inbuf.length + 19 ≤ 8 * file.length + 100000) :
    Lzx.decompress Chm.rdSrc (Chm.lzxFuel file) { st with src := ⟨file, pos⟩ } n ≠ .error .hang := by
  have hfin : Src.Finite Chm.rdSrc Rd.left :=
    ⟨fun s n c s' h => by
        simp only [Chm.rdSrc, Except.ok.injEq, Prod.mk.injEq, Option.some.injEq] at h
        have := Rd.read_left s n
        rw [← h.1, ← h.2]; omega,
     fun s n h => by simp [Chm.rdSrc] at h⟩
  apply Lzx.C04_lzx_no_hang Chm.rdSrc Rd.left hfin
  simp only [Lzx.fuelBound, Rd.left, Chm.lzxFuel]
  omega

/-! ## KWAJ as a whole (pure model): all five methods, the driver's fuel, every file -/

theorem C04_kwaj_extract_no_hang (fill : UInt8) (h : Kwaj.Handle) :
    Kwaj.extract fill (Driver.Kwaj.fuelFor h.rd.file.length) h ≠ .error .hang :=
  Kwaj.extract_no_hang fill h

theorem C04_kwaj_decompress_no_hang (fill : UInt8) (err : Err) (file : Option Bytes) :
    Kwaj.decompress fill (Driver.Kwaj.fuelFor (file.getD []).length) err file ≠ .error .hang :=
  Kwaj.decompress_no_hang fill err file

/-! ## CAB stored folders (beyond the list: the one container loop of `cabd.c` next to the feeder) -/

/-- `noned_decompress` with the `bytes / bufsize + 2` rounds `decompress` passes, buffer size ≥ 1
    (`cabd_param` refuses DECOMPBUF < 4).  Measure: bytes still to copy. -/
theorem C04_cab_noned_no_hang (files : Cab.Files) (bs : Nat) (hb : 1 ≤ bs) (e : Err) (fd : Cab.Feeder) (bytes : Nat) :
    Cab.decompress files (.none bs e) fd bytes ≠ .error .hang :=
  Cab.decompress_none_no_hang files bs hb e fd bytes

/-- the CAB stream feeder (`cabd_sys_read` as a decoder source) is finite: `Cab.feederLeft` = buffered block bytes
    + the rest of the current cabinet file + the later cabinets of the set from their data offsets -/
theorem C04_cab_feeder_finite (files : Cab.Files) : (Cab.feederSrc files).Finite (Cab.feederLeft files) :=
  ⟨(Cab.feederSrc_ok files).shrink, (Cab.feederSrc_ok files).nohang⟩

/-- CAB MSZIP with the fuel `decompress` passes (`chainFuel files fd` = 16 × (all file bytes + the bytes of the files the
    folder chain still names, once per part) + 100000; raised from `decFuel files` after the finding below): no `hang`
    whenever that is above the bits still obtainable.  The premise is needed: `feederLeft` counts a file once per
    part of the set that names it, `decFuel` once, and a set made by appending ~140 opens of the same 1 KB cabinet
    (split blocks make the reader re-enter the file) does run out of `decFuel` although the input is finite —
    `Scratch/CabFuelSet.lean`, `Scratch/CabFuel.lean` (`#eval`: `FAULT hang`; the same input with more fuel ends
    with MSPACK_ERR_DATAFORMAT).  A finding about the model's bound, not about the C. -/
theorem C04_cab_mszip_no_hang (files : Cab.Files) (st : Zip.St Cab.Feeder) (fd : Cab.Feeder) (bytes : Nat)
    (hf : st.bits.length + 8 * st.inbuf.length + 8 * Cab.feederLeft files fd
            + (if st.inputEnd then 0 else 16) + 1 ≤ Cab.chainFuel files fd) :
    Cab.decompress files (.mszip st) fd bytes ≠ .error .hang :=
  Cab.C04_zip_cab_no_hang files st fd bytes hf

end MsPack
