import Proofs.Lemmas.Lzss
import Proofs.Lemmas.OabBlocks
import MsPack.Szdd.Decompress
/-!
# C05 — SZDD: headers are reported and payloads expanded exactly (LZSS round trip)

`Tok`, `expand` and `encode` (Proofs/Lemmas/Lzss.lean) are the specification of the LZSS format
lzssd.c decodes: tokens are literals or (ring position, length 3..18) copies, coded in groups of
eight behind a control byte; `expand` is the reference semantics on the 4096-byte ring.

* `C05_lzss_roundtrip`: on the model of `lzss_decompress`, for **every** token list, every input
  buffer size ≥ 1 (i.e. wherever buffer refills fall inside tokens), both ring start positions, and
  wherever the coded stream sits in a file: the decoder returns OK and has written exactly
  `expand toks`.
* `C05_szdd_roundtrip`: a well-formed SZDD file (signature, 'A', missing character, 32-bit length,
  LZSS stream) is opened with exactly those header values, and `decompress` writes exactly the
  expansion of its tokens.

* `C05_szdd_qbasic_roundtrip`: the same for the QBasic variant (other signature, data at 12, ring start 18 below the end).

Not covered: KWAJ
headers and its other compression methods (validated by differential runs, checks/c05.py).
-/
namespace MsPack.Lzss
open MsPack MsPack.Generated

theorem initRing_ok (mode : Nat) : (initRing mode).ok := by
  refine ⟨by simp [initRing], ?_⟩
  simp only [initRing]; split <;> decide

theorem C05_lzss_roundtrip (toks : List Tok) (hwf : ∀ t ∈ toks, t.wf) (file : Bytes) (pos bufSize : Nat)
    (hb : 1 ≤ bufSize) (mode : Nat) (hmode : mode = lzssMODE_EXPAND ∨ mode = lzssMODE_QBASIC)
    (fuel : Nat) (hfuel : toks.length + 1 ≤ fuel) (hfile : file.drop pos = encode toks) :
    ∃ src', decompress Rd.src fuel (⟨file, pos⟩ : Rd) bufSize mode =
      .ok ⟨.ok, (expand toks (initRing mode)).out.toList, src'⟩ := by
  have hring : ring (initSt (⟨file, pos⟩ : Rd) bufSize mode) = initRing mode := rfl
  obtain ⟨st', e, r⟩ := mainLoop_spec toks.length toks (Nat.le_refl _) fuel (initSt ⟨file, pos⟩ bufSize mode) hfuel hwf
    (hring ▸ initRing_ok mode) hb (by simpa [rem, initSt] using hfile)
  refine ⟨st'.src, ?_⟩
  unfold decompress
  have h1 : ¬(bufSize < 1 ∨ (mode ≠ lzssMODE_EXPAND ∧ mode ≠ lzssMODE_MSHELP ∧ mode ≠ lzssMODE_QBASIC)) := by
    rcases hmode with h | h <;> simp [h, lzssMODE_EXPAND, lzssMODE_QBASIC] <;> omega
  have h2 : (if mode = lzssMODE_MSHELP then 0xFFFFFFFF else 0) = 0 := by
    rcases hmode with h | h <;> simp [h, lzssMODE_EXPAND, lzssMODE_QBASIC, lzssMODE_MSHELP]
  rw [if_neg h1]
  simp only [h2, e]
  have : st'.out = (expand toks (initRing mode)).out := by
    have := congrArg Ring.out r
    rw [hring] at this; exact this
  rw [this]

end MsPack.Lzss

namespace MsPack.Szdd
open MsPack MsPack.Generated MsPack.Lzss

open MsPack.Oab (enc32 readExact_prefix drop_after)

/-- a well-formed SZDD file of the common variant -/
def encodeSzdd (missing : UInt8) (length : Nat) (toks : List Tok) : Bytes :=
  szddSignatureExpand.map UInt8.ofNat ++ ([0x41, missing] ++ enc32 length) ++ encode toks

theorem sig_roundtrip : sigMatches (szddSignatureExpand.map UInt8.ofNat) szddSignatureExpand = true := by decide

theorem C05_szdd_roundtrip (missing : UInt8) (length : Nat) (hlen : length < 4294967296) (toks : List Tok)
    (hwf : ∀ t ∈ toks, t.wf) (fuel : Nat) (hfuel : toks.length + 1 ≤ fuel) :
    (∃ rd, open_ (some (encodeSzdd missing length toks)) = (some ⟨⟨fmtNORMAL, length, missing⟩, rd⟩, .ok)) ∧
    decompress fuel (some (encodeSzdd missing length toks)) =
      .ok ⟨.ok, some (expand toks (initRing lzssMODE_EXPAND)).out.toList⟩ := by
  -- the two header reads
  have hd0 : (encodeSzdd missing length toks).drop 0 =
      szddSignatureExpand.map UInt8.ofNat ++ (([0x41, missing] ++ enc32 length) ++ encode toks) := by
    simp [encodeSzdd, List.append_assoc]
  have hr0 := readExact_prefix _ 0 _ _ hd0
  have hl0 : (szddSignatureExpand.map UInt8.ofNat).length = 8 := by decide
  rw [hl0] at hr0
  have hd8 := drop_after _ 0 _ _ hd0
  rw [hl0] at hd8
  have hr8 := readExact_prefix _ (0 + 8) _ _ hd8
  have hl8 : ([0x41, missing] ++ enc32 length).length = 6 := rfl
  rw [hl8] at hr8
  have hd14 := drop_after _ (0 + 8) _ _ hd8
  rw [hl8] at hd14
  -- the fields
  have hA : byteAt ([0x41, missing] ++ enc32 length) 0 = 0x41 := rfl
  have hM : byteAt ([0x41, missing] ++ enc32 length) 1 = missing := rfl
  have hL : u32At ([0x41, missing] ++ enc32 length) 2 = length := by
    simp only [u32At, byteAt, enc32, le32, List.cons_append, List.nil_append, List.getD_cons_zero, List.getD_cons_succ]
    rw [Oab.ofNat_toNat_lt _ (Nat.mod_lt _ (by decide)), Oab.ofNat_toNat_lt _ (Nat.mod_lt _ (by decide)),
        Oab.ofNat_toNat_lt _ (Nat.mod_lt _ (by decide)), Oab.ofNat_toNat_lt _ (Nat.mod_lt _ (by decide))]
    omega
  have hopen : open_ (some (encodeSzdd missing length toks)) =
      (some ⟨⟨fmtNORMAL, length, missing⟩, ⟨encodeSzdd missing length toks, 0 + 8 + 6⟩⟩, .ok) := by
    unfold open_ readHeaders
    simp only [hr0, sig_roundtrip, ↓reduceIte, hr8]
    generalize [0x41, missing] ++ enc32 length = hdr at hA hM hL
    simp only [hA, hM, hL, ne_eq, not_true_eq_false, ↓reduceIte]
  refine ⟨⟨_, hopen⟩, ?_⟩
  obtain ⟨src', hdec⟩ := C05_lzss_roundtrip toks hwf (encodeSzdd missing length toks) 14 szddINPUT_SIZE (by decide)
    lzssMODE_EXPAND (Or.inl rfl) fuel hfuel hd14
  unfold decompress
  rw [hopen]
  simp only [extract, fmtNORMAL, ↓reduceIte, Rd.seekStart, hdec]

/-- the QBasic 4.5 variant: other signature, no 'A' / missing-character bytes, data from offset 12, ring start 18 below the end -/
def encodeSzddQbasic (length : Nat) (toks : List Tok) : Bytes :=
  szddSignatureQbasic.map UInt8.ofNat ++ enc32 length ++ encode toks

theorem sig_qbasic_roundtrip : sigMatches (szddSignatureQbasic.map UInt8.ofNat) szddSignatureQbasic = true := by decide
theorem sig_qbasic_not_expand : sigMatches (szddSignatureQbasic.map UInt8.ofNat) szddSignatureExpand = false := by decide

theorem C05_szdd_qbasic_roundtrip (length : Nat) (hlen : length < 4294967296) (toks : List Tok)
    (hwf : ∀ t ∈ toks, t.wf) (fuel : Nat) (hfuel : toks.length + 1 ≤ fuel) :
    (∃ rd, open_ (some (encodeSzddQbasic length toks)) = (some ⟨⟨fmtQBASIC, length, 0⟩, rd⟩, .ok)) ∧
    decompress fuel (some (encodeSzddQbasic length toks)) =
      .ok ⟨.ok, some (expand toks (initRing lzssMODE_QBASIC)).out.toList⟩ := by
  have hd0 : (encodeSzddQbasic length toks).drop 0 =
      szddSignatureQbasic.map UInt8.ofNat ++ (enc32 length ++ encode toks) := by
    simp [encodeSzddQbasic, List.append_assoc]
  have hr0 := readExact_prefix _ 0 _ _ hd0
  have hl0 : (szddSignatureQbasic.map UInt8.ofNat).length = 8 := by decide
  rw [hl0] at hr0
  have hd8 := drop_after _ 0 _ _ hd0
  rw [hl0] at hd8
  have hr8 := readExact_prefix _ (0 + 8) _ _ hd8
  have hl8 : (enc32 length).length = 4 := rfl
  rw [hl8] at hr8
  have hd12 := drop_after _ (0 + 8) _ _ hd8
  rw [hl8] at hd12
  have hL : u32At (enc32 length) 0 = length := by
    simp only [u32At, byteAt, enc32, le32, List.getD_cons_zero, List.getD_cons_succ]
    rw [Oab.ofNat_toNat_lt _ (Nat.mod_lt _ (by decide)), Oab.ofNat_toNat_lt _ (Nat.mod_lt _ (by decide)),
        Oab.ofNat_toNat_lt _ (Nat.mod_lt _ (by decide)), Oab.ofNat_toNat_lt _ (Nat.mod_lt _ (by decide))]
    omega
  have hopen : open_ (some (encodeSzddQbasic length toks)) =
      (some ⟨⟨fmtQBASIC, length, 0⟩, ⟨encodeSzddQbasic length toks, 0 + 8 + 4⟩⟩, .ok) := by
    unfold open_ readHeaders
    simp only [hr0, sig_qbasic_roundtrip, sig_qbasic_not_expand, Bool.false_eq_true, ↓reduceIte, hr8]
    generalize enc32 length = hdr at hL
    simp only [hL]
  refine ⟨⟨_, hopen⟩, ?_⟩
  obtain ⟨src', hdec⟩ := C05_lzss_roundtrip toks hwf (encodeSzddQbasic length toks) 12 szddINPUT_SIZE (by decide)
    lzssMODE_QBASIC (Or.inr rfl) fuel hfuel hd12
  unfold decompress
  rw [hopen]
  simp only [extract, fmtQBASIC, fmtNORMAL, Nat.succ_ne_zero, ↓reduceIte, Rd.seekStart, hdec]

end MsPack.Szdd

/-- the premises are satisfiable by non-trivial streams (a literal run, an overlapping match into the
    initial spaces region, a full group followed by a short one) -/
example : ∀ t ∈ [MsPack.Lzss.Tok.lit 65, .lit 66, .mat 4080 5, .lit 67, .mat 0 18, .lit 1, .lit 2, .lit 3, .lit 4, .mat 4095 3],
    MsPack.Lzss.Tok.wf t := by
  intro t ht
  simp only [List.mem_cons, List.not_mem_nil, or_false] at ht
  rcases ht with rfl | rfl | rfl | rfl | rfl | rfl | rfl | rfl | rfl | rfl <;> simp [MsPack.Lzss.Tok.wf]
