import MsPack.Cabx.Modes
/-
C17 — "cabextract's modes agree with the archive and with each other": the mechanism.

The member loop of `process_cabinet` (model: MsPack/Cabx/Modes.lean) decides which members are
acted upon BEFORE it looks at the mode, and the filter sees the output name without the -d prefix.
Hence, for every fnmatch function: all four modes act on the same members in the same order
(`filter_same_members`), without -F every member is acted upon exactly once in cabinet order
(`list_each_once`), with -F the members acted upon are a sub-sequence of the cabinet's
(`selected_sublist`), the choice does not depend on -d (`selection_dir_independent`), and what
-p writes is the concatenation of the selected members' contents in order (`pipe_concat`).
What the theorems do not reach: that `cabd->extract` delivers `m.data` (C01/C07's subject), the
printf formats, MD5, mktime/chmod/utime and the exit status; those are checked on the real binary
by checks/c17.py against a specification computed from the plan.
-/
namespace MsPack.C17
open MsPack MsPack.Cabx

theorem createOutputName_isSome (fname : Bytes) (dir : Option Bytes) (lower isunix utf8 : Bool) :
    ∃ n, createOutputName fname dir lower isunix utf8 = some n := ⟨_, rfl⟩

theorem selected_map_fst_filter (fnm : Bytes → Bytes → Bool) (a : Args) (isunix : Bool) (ms : List Member) :
    (ms.filterMap fun m => (selectName fnm a isunix m).map fun n => (m, n)).map (·.1)
      = ms.filter fun m => (selectName fnm a isunix m).isSome := by
  induction ms with
  | nil => rfl
  | cons m ms ih =>
    cases h : selectName fnm a isunix m with
    | none => simp [h, ih]
    | some n => simp [h, ih]

/-- all modes act on the same members, in the same order -/
theorem filter_same_members (fnm : Bytes → Bytes → Bool) (a : Args) (ms : List Member) (m1 m2 : Mode) :
    (processCabinet fnm m1 a ms).map Event.member = (processCabinet fnm m2 a ms).map Event.member := by
  have key : ∀ mode, (processCabinet fnm mode a ms).map Event.member = (selected fnm a ms).map (·.1) := by
    intro mode
    unfold processCabinet
    rw [List.map_map]
    apply List.map_congr_left
    intro x _
    cases mode <;> rfl
  rw [key m1, key m2]

example : (processCabinet globMatch .test { filters := [[0x2A, 0x2E, 0x63]] }
            [{ name := [0x61, 0x2E, 0x43], utf8 := false, data := [1] }, { name := [0x62], utf8 := false, data := [2] }]).map Event.member
        = [{ name := [0x61, 0x2E, 0x43], utf8 := false, data := [1] }] := by decide

/-- without -F every member is acted upon exactly once, in cabinet order (here for -l: one line
    per member; by `filter_same_members` the same holds for -t, -p and extraction) -/
theorem list_each_once (fnm : Bytes → Bytes → Bool) (a : Args) (hf : a.filters = []) (ms : List Member) :
    (processCabinet fnm .list a ms).map Event.member = ms := by
  unfold processCabinet selected
  rw [List.map_map]
  simp only []
  generalize unixPathSeparators (ms.map (·.name)) = isunix
  induction ms with
  | nil => rfl
  | cons m ms ih =>
    have : selectName fnm a isunix m = createOutputName m.name a.dir a.lower isunix m.utf8 := by
      unfold selectName
      obtain ⟨n, hn⟩ := createOutputName_isSome m.name a.dir a.lower isunix m.utf8
      simp [hn, hf]
    obtain ⟨n, hn⟩ := createOutputName_isSome m.name a.dir a.lower isunix m.utf8
    simp only [List.filterMap_cons, this, hn, Option.map_some, List.map_cons, Function.comp, act, Event.member]
    exact congrArg _ ih

example : (processCabinet globMatch .list {} [{ name := [0x61], utf8 := false, data := [1] }, { name := [0x61], utf8 := false, data := [] }]).length = 2 := by decide

/-- with -F the members acted upon are a sub-sequence of the cabinet's members: nobody twice, nobody invented, order kept -/
theorem selected_sublist (fnm : Bytes → Bytes → Bool) (mode : Mode) (a : Args) (ms : List Member) :
    List.Sublist ((processCabinet fnm mode a ms).map Event.member) ms := by
  rw [filter_same_members fnm a ms mode .list]
  unfold processCabinet selected
  rw [List.map_map]
  have : (Event.member ∘ act Mode.list) = (fun x : Member × Bytes => x.1) := by
    funext x; rfl
  rw [this, selected_map_fst_filter]
  exact List.filter_sublist

/-- -p: stdout is the concatenation of the selected members' contents, in order -/
theorem pipe_concat (fnm : Bytes → Bytes → Bool) (a : Args) (ms : List Member) :
    pipeStdout (processCabinet fnm .pipe a ms) = ((selected fnm a ms).map (·.1.data)).flatten := by
  unfold pipeStdout processCabinet
  rw [List.map_map]
  rfl

example : pipeStdout (processCabinet globMatch .pipe { filters := [[0x3F]] }
            [{ name := [0x61], utf8 := false, data := [1, 2] }, { name := [0x62, 0x62], utf8 := false, data := [9] },
             { name := [0x63], utf8 := false, data := [3] }]) = [1, 2, 3] := by decide

/-- the filter sees the name without the -d prefix, so -d does not change which members are selected -/
theorem selection_dir_independent (fnm : Bytes → Bytes → Bool) (a : Args) (d : Bytes) (ms : List Member) :
    (selected fnm { a with dir := some d } ms).map (·.1) = (selected fnm { a with dir := none } ms).map (·.1) := by
  unfold selected
  simp only []
  rw [selected_map_fst_filter, selected_map_fst_filter]
  apply List.filter_congr
  intro m _
  unfold selectName createOutputName createOutputNameWith fnameOffset dirPrefix
  simp only [List.append_assoc, List.nil_append, List.drop_zero]
  have : ∀ (x : Bytes), (cstr d ++ ([0x2F] ++ x)).drop ((cstr d).length + 1) = x := by
    intro x
    rw [← List.append_assoc]
    have : (cstr d ++ [0x2F]).length = (cstr d).length + 1 := by simp
    rw [← this, List.drop_left]
  rw [this]
  split <;> simp

example : (selected globMatch { dir := some [0x64, 0x2F, 0x65], filters := [[0x61, 0x2A]] } [{ name := [0x41, 0x31], utf8 := false, data := [] }]).map (·.2)
        = [[0x64, 0x2F, 0x65, 0x2F, 0x41, 0x31]] := by decide

end MsPack.C17
