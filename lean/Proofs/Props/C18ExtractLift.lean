import Proofs.Props.C18Extract
import Proofs.Props.C07Decoders
/-!
# C18 — `cabd_extract` under SALVAGE / FIXMSZIP, stored and MSZIP folders

`C18_cab_extract_relaxed`: for strict parameters `p` and `p' = { p with salvage := s, fixMszip := f }`, a member of a
stored or MSZIP folder, and related decoder caches (none/none, or what earlier related calls left): if the strict
`extract` returns MSPACK_ERR_OK with bytes `w`, the relaxed one returns MSPACK_ERR_OK with the same `w`, and the
caches handed back are related again.  `C18_cab_session_relaxed`: hence over any sequence of `extract` calls on such
folders, as long as the strict session's calls are OK.

Ingredients: `memberCheck_rel`, `decompress_rel` (`RelaxSimCab.lean`), and "strict OK ⇒ the decoder's own status was
OK" from the joint invariant `CabJAll` (`C07_cab_read_means_feeder_failed`).
-/
namespace MsPack.Cab
open MsPack MsPack.CountLaws.Relax MsPack.CountLaws.CabJoint

def OptDecR : Option Dec → Option Dec → Prop
  | some a, some b => DecR a b
  | none, none => True
  | _, _ => False

/-- the relaxed run's decompressor state: the strict one's up to the flags; the strict one is in `CabJAll` -/
structure DSR (a b : DState) : Prop where
  folder : b.folder = a.folder
  offset : b.offset = a.offset
  feeder : FR a.feeder b.feeder
  dec : OptDecR a.dec b.dec
  ok : StateOk CabJAll a

def CacheR : Option DState → Option DState → Prop
  | some a, some b => DSR a b
  | none, none => True
  | _, _ => False

theorem runPhase_rel (files : Files) (ds1 ds2 : DState) (dec1 dec2 : Dec) (n : Nat) (hf : FR ds1.feeder ds2.feeder)
    (ho : ds2.offset = ds1.offset) (hfo : ds2.folder = ds1.folder)
    (hd : DecR dec1 dec2) (hj : CabJAll dec1 ds1.feeder) (w : Bytes) (ds1' : DState)
    (h : runPhase files ds1 dec1 n = .ran .ok w ds1') :
    ∃ ds2', runPhase files ds2 dec2 n = .ran .ok w ds2' ∧ DSR ds1' ds2' := by
  have hok := (CountLaws.CabJoint.runPhase_ok files CabJAll (cabJAll_callOk files) ds1 dec1 n hj .ok w ds1' h).1
  unfold runPhase at h ⊢
  split at h
  · contradiction
  · contradiction
  · rename_i o1 ho1
    simp only [PhaseResult.ran.injEq] at h
    obtain ⟨he, hw, hds⟩ := h
    have hnr : o1.err ≠ .read := by
      intro hr
      rw [if_pos hr] at he
      exact C07_cab_read_means_feeder_failed files dec1 ds1.feeder n o1 hj ho1 hr he
    rw [if_neg hnr] at he
    obtain ⟨o2, h2, e2, w2, d2, f2⟩ := decompress_rel files dec1 dec2 _ _ n o1 hd hf ho1 he
    rw [h2]
    dsimp only
    have hnr2 : o2.err ≠ .read := by rw [e2]; intro hc; cases hc
    rw [if_neg hnr2, e2, w2, hw]
    refine ⟨_, rfl, ?_⟩
    subst hds
    exact ⟨hfo, by show ds2.offset + w.length = ds1.offset + o1.written.length; rw [ho, hw], f2, d2, hok⟩

theorem runPhases_rel (files : Files) (ds1 ds2 : DState) (hr : DSR ds1 ds2) (m : Member) (filelen : Nat)
    (w : Bytes) (d1' : Option DState)
    (h : runPhases files ds1 m filelen = .done .ok (some w) d1') :
    ∃ d2', runPhases files ds2 m filelen = .done .ok (some w) d2' ∧ CacheR d1' d2' := by
  unfold runPhases at h ⊢
  cases hd1 : ds1.dec with
  | none => rw [hd1] at h; simp at h
  | some dec1 =>
    cases hd2 : ds2.dec with
    | none => have := hr.dec; rw [hd1, hd2] at this; exact absurd this id
    | some dec2 =>
      have hdr : DecR dec1 dec2 := by have := hr.dec; rw [hd1, hd2] at this; exact this
      have hj : CabJAll dec1 ds1.feeder := hr.ok dec1 hd1
      rw [hd1] at h
      dsimp only at h ⊢
      split at h
      · rename_i h0
        rw [if_pos h0]
        simp only [ExtractResult.done.injEq, Option.some.injEq, true_and] at h
        obtain ⟨hw, hd'⟩ := h
        subst hw hd'
        exact ⟨_, rfl, hr⟩
      · rename_i h0
        rw [if_neg h0, hr.offset]
        split at h
        · rename_i hs0
          rw [if_pos hs0]
          split at h
          · contradiction
          · contradiction
          · rename_i e w' ds' hrp
            simp only [ExtractResult.done.injEq, Option.some.injEq] at h
            obtain ⟨he, hw, hd'⟩ := h
            subst he hw hd'
            obtain ⟨ds2', h2, hr2⟩ := runPhase_rel files ds1 ds2 dec1 dec2 filelen hr.feeder hr.offset hr.folder hdr hj _ _ hrp
            rw [h2]
            exact ⟨_, rfl, hr2⟩
        · rename_i hs0
          rw [if_neg hs0]
          split at h
          · contradiction
          · contradiction
          · rename_i e1 w1 ds1a hrp1
            split at h
            · rename_i hne
              simp only [ExtractResult.done.injEq] at h
              exact absurd h.1 hne
            · rename_i hne
              have he1 : e1 = .ok := Decidable.not_not.mp hne
              subst he1
              obtain ⟨ds2a, h2, hr2⟩ := runPhase_rel files ds1 ds2 dec1 dec2 _ hr.feeder hr.offset hr.folder hdr hj _ _ hrp1
              rw [h2]
              dsimp only
              rw [if_neg (by simp)]
              cases hd1a : ds1a.dec with
              | none => rw [hd1a] at h; simp at h
              | some dec1a =>
                cases hd2a : ds2a.dec with
                | none => have := hr2.dec; rw [hd1a, hd2a] at this; exact absurd this id
                | some dec2a =>
                  have hdra : DecR dec1a dec2a := by have := hr2.dec; rw [hd1a, hd2a] at this; exact this
                  rw [hd1a] at h
                  dsimp only at h ⊢
                  split at h
                  · contradiction
                  · contradiction
                  · rename_i e w' ds' hrp
                    simp only [ExtractResult.done.injEq, Option.some.injEq] at h
                    obtain ⟨he, hw, hd'⟩ := h
                    subst he hw hd'
                    obtain ⟨ds2', h3, hr3⟩ := runPhase_rel files ds1a ds2a dec1a dec2a filelen hr2.feeder hr2.offset
                      hr2.folder hdra (hr2.ok dec1a hd1a) _ _ hrp
                    rw [h3]
                    exact ⟨_, rfl, hr3⟩

/-- the relaxed parameter record: the strict one with SALVAGE and/or FIXMSZIP set -/
def relaxed (p : Params) (s f : Bool) : Params := { p with salvage := s, fixMszip := f }

theorem initDec_rel (p : Params) (hf : p.fixMszip = false) (s f : Bool) (ct : Nat) (hct : compMask ct ≤ 1)
    (dec1 : Dec) (h : initDec p ct = some dec1) :
    ∃ dec2, initDec (relaxed p s f) ct = some dec2 ∧ DecR dec1 dec2 := by
  unfold initDec at h ⊢
  split at h
  · rename_i h0
    try simp only [h0]
    cases h
    exact ⟨_, rfl, rfl, rfl⟩
  · rename_i h1
    try simp only [h1]
    unfold Zip.init at h ⊢
    dsimp only [relaxed] at h ⊢
    split at h
    · cases h
    · rename_i hsz
      rw [if_neg hsz]
      simp only [Option.map_some, Option.some.injEq] at h ⊢
      subst h
      refine ⟨_, rfl, ?_⟩
      intro fd1 fd2 hfd
      exact ⟨hfd, rfl, rfl, rfl, rfl, rfl, rfl, rfl, rfl, rfl, rfl, rfl, hf⟩
  · rename_i h2; omega
  · rename_i h3; omega
  · rename_i h0 h1 _ _
    exfalso
    have : compMask ct = 0 ∨ compMask ct = 1 := by omega
    rcases this with h | h
    · exact h0 h
    · exact h1 h

theorem fresh_rel (files : Files) (p : Params) (hs : p.salvage = false) (hf : p.fixMszip = false) (s f : Bool)
    (m : Member) (hct : compMask m.compType ≤ 1) (key : Nat) (ds1 : DState)
    (h : freshDState files p m key = .ok ds1) :
    ∃ ds2, freshDState files (relaxed p s f) m key = .ok ds2 ∧ DSR ds1 ds2 := by
  have hok := freshAll_stateOk files p hs m key ds1 h
  unfold freshDState at h ⊢
  split at h
  · cases h
  · split at h
    · cases h
    · split at h
      · cases h
      · rename_i dec1 hi
        obtain ⟨dec2, h2, hdr⟩ := initDec_rel p hf s f m.compType hct dec1 hi
        rw [h2]
        cases h
        refine ⟨_, rfl, rfl, rfl, ?_, hdr, hok⟩
        exact ⟨rfl, rfl, rfl, rfl, rfl, rfl, rfl, rfl, hs, hf⟩

/-- **C18, `cabd_extract`, stored and MSZIP folders**: strict parameters `p`, relaxed `p' = relaxed p s f`,
    related caches: what the strict call extracts with MSPACK_ERR_OK the relaxed call extracts with MSPACK_ERR_OK,
    byte for byte, and the caches handed back are related again -/
theorem C18_cab_extract_relaxed_cached (files : Files) (p : Params) (hs : p.salvage = false) (hf : p.fixMszip = false)
    (s f : Bool) (d1 d2 : Option DState) (hc : CacheR d1 d2) (m : Member) (hct : compMask m.compType ≤ 1)
    (w : Bytes) (d1' : Option DState)
    (h : extract files p d1 m = .done .ok (some w) d1') :
    ∃ d2', extract files (relaxed p s f) d2 m = .done .ok (some w) d2' ∧ CacheR d1' d2' := by
  unfold extract at h ⊢
  split at h
  · simp at h
  · rename_i filelen key hmc
    rw [memberCheck_rel p (relaxed p s f) hs m _ hmc]
    dsimp only
    split at h
    · simp at h
    · rename_i ds1 hob
      have key_lemma : ∃ ds2, obtainDState files (relaxed p s f) d2 m key = .ok ds2 ∧ DSR ds1 ds2 := by
        unfold obtainDState at hob ⊢
        cases d1 with
        | none =>
          cases d2 with
          | none => exact fresh_rel files p hs hf s f m hct key ds1 hob
          | some b => exact absurd hc id
        | some a =>
          cases d2 with
          | none => exact absurd hc id
          | some b =>
            have hab : DSR a b := hc
            dsimp only at hob ⊢
            have hcond : (b.folder = key ∧ ¬b.offset > m.offset ∧ b.dec.isSome = true) ↔
                (a.folder = key ∧ ¬a.offset > m.offset ∧ a.dec.isSome = true) := by
              rw [hab.folder, hab.offset]
              have hd := hab.dec
              cases ha : a.dec <;> cases hb : b.dec <;> rw [ha, hb] at hd <;> first | exact absurd hd id | simp
            split at hob
            · rename_i hc1
              rw [if_pos (hcond.mpr hc1)]
              cases hob
              exact ⟨b, rfl, hab⟩
            · rename_i hc1
              rw [if_neg (fun hx => hc1 (hcond.mp hx))]
              exact fresh_rel files p hs hf s f m hct key ds1 hob
      obtain ⟨ds2, h2, hr⟩ := key_lemma
      rw [h2]
      exact runPhases_rel files ds1 ds2 hr m filelen w d1' h

/-- … with no cached decoder on either side -/
theorem C18_cab_extract_relaxed (files : Files) (p : Params) (hs : p.salvage = false) (hf : p.fixMszip = false)
    (s f : Bool) (m : Member) (hct : compMask m.compType ≤ 1) (w : Bytes) (d1' : Option DState)
    (h : extract files p none m = .done .ok (some w) d1') :
    ∃ d2', extract files (relaxed p s f) none m = .done .ok (some w) d2' ∧ CacheR d1' d2' :=
  C18_cab_extract_relaxed_cached files p hs hf s f none none trivial m hct w d1' h

/-- what a session whose calls all return MSPACK_ERR_OK looks like: member, OK, its bytes -/
def okSession (ms : List Member) (outs : List Bytes) : List (Member × Err × Option Bytes) :=
  (ms.zip outs).map fun x => (x.1, Err.ok, some x.2)

/-- **C18 over sessions, stored and MSZIP folders**: any sequence of `extract` calls (any members of such folders,
    any order, the decoder cache threaded through): if every call of the strict session returns MSPACK_ERR_OK, the
    session under SALVAGE and/or FIXMSZIP returns MSPACK_ERR_OK for every call with the same bytes -/
theorem C18_cab_session_relaxed_cached (files : Files) (p : Params) (hs : p.salvage = false) (hf : p.fixMszip = false)
    (s f : Bool) : ∀ (ms : List Member) (outs : List Bytes) (d1 d2 : Option DState), CacheR d1 d2 →
      (∀ m ∈ ms, compMask m.compType ≤ 1) → outs.length = ms.length →
      runMembers files p ms d1 = okSession ms outs →
      runMembers files (relaxed p s f) ms d2 = okSession ms outs := by
  intro ms
  induction ms with
  | nil => intro outs d1 d2 _ _ _ _; rfl
  | cons m rest ih =>
    intro outs d1 d2 hc hm hl h
    cases outs with
    | nil => simp at hl
    | cons w outs' =>
      unfold runMembers at h ⊢
      simp only [okSession, List.zip_cons_cons, List.map_cons] at h ⊢
      split at h
      · rename_i e w' d1' hx
        simp only [List.cons.injEq, Prod.mk.injEq, true_and] at h
        obtain ⟨⟨he, hw⟩, htail⟩ := h
        subst he hw
        obtain ⟨d2', h2, hc'⟩ := C18_cab_extract_relaxed_cached files p hs hf s f d1 d2 hc m
          (hm m (List.mem_cons_self ..)) w d1' hx
        rw [h2]
        simp only [List.cons.injEq, true_and]
        exact ih outs' d1' d2' hc' (fun x hx => hm x (List.mem_cons_of_mem _ hx))
          (by simpa using hl) htail
      · simp at h

theorem C18_cab_session_relaxed (files : Files) (p : Params) (hs : p.salvage = false) (hf : p.fixMszip = false)
    (s f : Bool) (ms : List Member) (outs : List Bytes) (hm : ∀ m ∈ ms, compMask m.compType ≤ 1)
    (hl : outs.length = ms.length) (h : runMembers files p ms none = okSession ms outs) :
    runMembers files (relaxed p s f) ms none = okSession ms outs :=
  C18_cab_session_relaxed_cached files p hs hf s f ms outs none none trivial hm hl h

/-- non-vacuity: the MSZIP member of `C07Decoders.lean`, twice: the strict session is an all-OK session (statuses
    and bytes compared; `Member` has no decidable equality), and so is the one with both flags set -/
example : (runMembers [("a.cab", MsPack.C07Decoders.cabFile)] {} [MsPack.C07Decoders.cabMember 3, MsPack.C07Decoders.cabMember 3] none).map
      (fun r => (r.2.1, r.2.2))
    = (okSession [MsPack.C07Decoders.cabMember 3, MsPack.C07Decoders.cabMember 3] [[0x78, 0x79, 0x7A], [0x78, 0x79, 0x7A]]).map
      (fun r => (r.2.1, r.2.2)) ∧
    (runMembers [("a.cab", MsPack.C07Decoders.cabFile)] (relaxed {} true true)
      [MsPack.C07Decoders.cabMember 3, MsPack.C07Decoders.cabMember 3] none).map (fun r => (r.2.1, r.2.2))
    = [(.ok, some [0x78, 0x79, 0x7A]), (.ok, some [0x78, 0x79, 0x7A])] := by
  decide +kernel

end MsPack.Cab
