import Proofs.Props.C08ChmSession
import Proofs.Props.C04CabSession
import Proofs.Props.C02ChmExtract
import Proofs.Lemmas.LoopTermChm
/-!
# C04 for CHM, whole sessions — `chmd_extract` never runs out of fuel

`C04_chm_extract_no_hang` (`C04Loops.lean`) leaves one way for `hang`: an `lzxd_decompress` call, and
`C04_chm_lzx_call_no_hang` excludes it under a bound on the input the cached decoder has buffered.  Here that bound is an
invariant of the decompressor instance:

* `C04StOk files st h pos`: `Lzx.M` of the cached state, taken at file position `pos` of its handle's file, is at most
  `8 × file length + 16` — the decoder has buffered no more than the file has delivered up to `pos`;
  `C04InstOk`: that, at the saved position `d->inoffset` (where `chmd_extract` seeks before it resumes the decoder).
* a fresh instance has it; a decoder `chmd_init_decomp` has just set up has it (`initDecomp_post` with "holds no input");
  an OK `lzxd_decompress` call keeps it (`Lzx.Term2.decompress_ok_M`; the handle's file does not change:
  `C04_lzx_src_forward`); a call with another status makes `chmd_extract` drop the decoder; section-0 calls move only the
  handle.  With the invariant `M + 3 ≤ lzxFuel file = 16 × length + 100000` (`Lzx.Term2.no_hang_M`).
* `C04_chm_extract_no_hang_inv`: every call (either section, any outcome) on a header with `HdrInv` (what `open` /
  `fast_find` return) yields no `hang` and keeps the invariant; `C04_chm_session_no_hang`, `…_fresh_…`: any `chmRun`.
-/
namespace MsPack.Chm
open MsPack MsPack.Generated MsPack.ChmLift

/-- the file behind a CHM input handle -/
def c04File (files : Files) (h : InFh) : Bytes := (files.lookup h.name).getD []

/-- the cached LZX state holds no more input than the file has delivered up to position `pos`: the bits it can still
    obtain (`Lzx.M`: buffered bits + 8 × (buffered bytes + bytes of the file beyond `pos`) + the 16 made-up bits) are
    at most 8 × file length + 16 -/
def C04StOk (files : Files) (st : Lzx.St Rd) (h : InFh) (pos : Nat) : Prop :=
  Lzx.M Rd.left ({ st with src := ⟨c04File files h, pos⟩ } : Lzx.St Rd) ≤ 8 * (c04File files h).length + 16

/-- during a call: relative to the handle's position -/
def C04DI (files : Files) (d : DState) : Prop :=
  ∀ st h, d.state = some st → d.infh = some h → C04StOk files st h h.pos
/-- between calls: relative to the saved `d->inoffset` -/
def C04DJ (files : Files) (d : DState) : Prop :=
  ∀ st h, d.state = some st → d.infh = some h → C04StOk files st h d.inoffset.toNat

theorem c04_rdSrc_finite : Src.Finite rdSrc Rd.left :=
  ⟨fun s n c s' h => by
      simp only [rdSrc, Except.ok.injEq, Prod.mk.injEq, Option.some.injEq] at h
      have := Rd.read_left s n
      rw [← h.1, ← h.2]; omega,
   fun s n h => by simp [rdSrc] at h⟩

/-- one `lzxd_decompress` call of `chmd_extract` from a state in the invariant: no `hang`, never "not modelled", and
    an OK call leaves the invariant -/
theorem c04_lzxCall (files : Files) (x : X) (b : Int) (hx : C04DI files x.d) :
    lzxCall files x b ≠ .error .hang ∧ lzxCall files x b ≠ .ok none ∧
    ∀ e w x', lzxCall files x b = .ok (some (e, w, x')) → e = .ok → C04DI files x'.d := by
  unfold lzxCall
  split
  · exact ⟨fun h => (by cases h), fun h => (by cases h), fun e w x' h => (by cases h; exact fun _ => hx)⟩
  · exact ⟨fun h => (by cases h), fun h => (by cases h), fun e w x' h => (by cases h)⟩
  · rename_i st h hst hin
    split
    · exact ⟨fun h => (by cases h), fun h => (by cases h), fun e w x' h => (by cases h; exact fun _ => hx)⟩
    · have himp : (!Lzx.implemented) = false := rfl
      rw [himp]
      simp only [Bool.false_eq_true, if_false]
      have hfile : infhBytes files x = c04File files h := by simp only [infhBytes, hin, c04File]
      rw [hfile]
      have hm := hx st h hst hin
      unfold C04StOk at hm
      have hfuel : Lzx.M Rd.left ({ st with src := ⟨c04File files h, h.pos⟩ } : Lzx.St Rd) + 3 ≤ lzxFuel (c04File files h) := by
        unfold lzxFuel; omega
      split
      · rename_i f hf
        refine ⟨fun hc => ?_, fun hc => (by cases hc), fun e w x' hc => (by cases hc)⟩
        cases hc
        exact Lzx.Term2.no_hang_M rdSrc Rd.left c04_rdSrc_finite _ _ _ hfuel hf
      · rename_i o ho
        refine ⟨fun hc => (by cases hc), fun hc => (by cases hc), fun e w x' hc heok => ?_⟩
        simp only [Except.ok.injEq, Option.some.injEq, Prod.mk.injEq] at hc
        obtain ⟨rfl, _, rfl⟩ := hc
        have hmono := Lzx.Term2.decompress_ok_M rdSrc Rd.left c04_rdSrc_finite _ _ _ hfuel o ho heok
        have hsrc : o.st.src.file = c04File files h :=
          Lzx.C04_lzx_src_forward rdSrc (fun a b => b.file = a.file) (fun _ => rfl) (fun _ _ _ h1 h2 => h2.trans h1)
            (fun s n x s' hr => by
              simp only [rdSrc, Except.ok.injEq, Prod.mk.injEq] at hr
              rw [← hr.2]; rfl) _ _ _ o ho
        intro st' h' hst' hin'
        cases hst'
        cases hin'
        unfold C04StOk
        have e : ({ o.st with src := ⟨c04File files h, o.st.src.pos⟩ } : Lzx.St Rd) = o.st := by
          have : (⟨c04File files h, o.st.src.pos⟩ : Rd) = o.st.src := by rw [← hsrc]
          rw [this]
        show Lzx.M Rd.left ({ o.st with src := ⟨c04File files h, o.st.src.pos⟩ } : Lzx.St Rd) ≤
          8 * (c04File files h).length + 16
        rw [e]
        omega

/-- a decoder `lzxd_init` has just made holds no input -/
def C04Fresh (st : Lzx.St Rd) : Prop := st.bits = [] ∧ st.inbuf = [] ∧ st.inputEnd = false

theorem c04_fresh_ok (files : Files) (st : Lzx.St Rd) (hf : C04Fresh st) (h : InFh) (pos : Nat) :
    C04StOk files st h pos := by
  obtain ⟨h1, h2, h3⟩ := hf
  unfold C04StOk
  simp only [Lzx.M, h1, h2, h3, List.length_nil, Rd.left, Bool.false_eq_true, if_false]
  omega

theorem C04DJ.nostate {files : Files} {d : DState} (h : d.state = none) : C04DJ files d :=
  fun st _ hst _ => by rw [h] at hst; cases hst

/-- the invariant of the instance between calls -/
def C04InstOk (files : Files) (inst : Inst) : Prop := ∀ d, inst.d = some d → C04DJ files d

def C04Res (files : Files) : ExtractResult → Prop
  | .done _ inst' _ _ => C04InstOk files inst'
  | .unsupported inst' _ => C04InstOk files inst'
  | .fault f => f ≠ .hang

theorem C04Res.finish {files : Files} (x : X) (out : Bytes) (hd : C04DJ files x.d) :
    C04Res files (.done x.error { error := x.error, d := some x.d } x.hdr (some out)) :=
  fun d hd' => by cases hd'; exact hd

theorem c04_extract_sec0 (files : Files) (fill : UInt8) (inst : Inst) (key : Nat) (hdr : Header)
    (offset length : Int) (hinst : C04InstOk files inst) :
    C04Res files (extract files fill inst key hdr 0 offset length) := by
  unfold extract
  extract_lets fillWord d0 reopen d1 opened finish
  clear_value fillWord
  have hd0 : C04DJ files d0 := by
    unfold d0
    split
    · rename_i d hid; exact hinst d hid
    · exact C04DJ.nostate rfl
  have hd1 : C04DJ files d1 := by
    unfold d1
    split
    · exact C04DJ.nostate rfl
    · exact hd0
  have hop : ∀ d, opened = some d → C04DJ files d := by
    intro d hd
    unfold opened at hd
    split at hd
    · rename_i hre
      split at hd
      · cases hd
        have : d1.state = none := by unfold d1; rw [if_pos hre]
        exact C04DJ.nostate this
      · cases hd
    · cases hd; exact hd1
  clear_value opened d1 reopen d0
  split
  · exact fun d hd' => by cases hd'; exact hd1
  rename_i _ d
  have hdd := hop d rfl
  split
  · exact fun d' hd' => by cases hd'; exact hdd
  simp only [↓reduceIte]
  split
  · intro hc; cases hc
  rename_i h hh
  generalize seekAbs _ _ = sk
  cases sk with
  | none => exact C04Res.finish _ _ (fun st h hst hh => hdd st h hst hh)
  | some r =>
    simp only
    generalize copyLoop _ _ _ _ = cl
    obtain ⟨err, out, r'⟩ := cl
    cases err <;> exact C04Res.finish _ _ (fun st h' hst hh' => (by cases hh'; exact hdd st h hst hh))

theorem c04_extract_sec1 (files : Files) (fill : UInt8) (inst : Inst) (key : Nat) (hdr : Header) (hi : HdrInv hdr)
    (sec : Nat) (hsec : sec ≠ 0) (offset length : Int) (hinst : C04InstOk files inst) :
    C04Res files (extract files fill inst key hdr sec offset length) := by
  unfold extract
  extract_lets fillWord d0 reopen d1 opened finish
  clear_value fillWord
  have hd0 : C04DJ files d0 := by
    unfold d0
    split
    · rename_i d hid; exact hinst d hid
    · exact C04DJ.nostate rfl
  have hd1 : C04DJ files d1 := by
    unfold d1
    split
    · exact C04DJ.nostate rfl
    · exact hd0
  have hop : ∀ d, opened = some d → C04DJ files d := by
    intro d hd
    unfold opened at hd
    split at hd
    · rename_i hre
      split at hd
      · cases hd
        have : d1.state = none := by unfold d1; rw [if_pos hre]
        exact C04DJ.nostate this
      · cases hd
    · cases hd; exact hd1
  clear_value opened d1 reopen d0
  split
  · exact fun d hd' => by cases hd'; exact hd1
  rename_i _ d
  have hdd := hop d rfl
  split
  · exact fun d' hd' => by cases hd'; exact hdd
  simp only
  generalize hin : (if d.state.isNone = true ∨ offset < d.offset then _ else _ : Except Fault (Bool × X)) = inited
  have hinited : (∀ f, inited = .error f → f ≠ .hang) ∧ ∀ b x', inited = .ok (b, x') → C04DJ files x'.d := by
    rw [← hin]
    split
    · have hp := initDecomp_post C04Fresh
        (fun r wb ri ibs ol dl fl st hh => by
          obtain ⟨a, b, c, _⟩ := MsPack.CabFuel.lzx_init_fields _ _ _ _ _ _ _ _ hh
          exact ⟨a, b, c⟩)
        files fill { error := .ok, hdr := hdr, d := { d with state := none } } offset hi (fun st hs => (by cases hs))
      split
      · rename_i f hq; exact absurd hq (hp.1 _)
      · rename_i ret x' hq
        have := (hp.2 _ _ hq).2.1
        refine ⟨fun _ hf => (by cases hf), fun _ _ hr => ?_⟩
        cases hr
        intro st h hst hh
        exact c04_fresh_ok files st (this st hst) h _
    · exact ⟨fun _ hf => (by cases hf), fun _ _ hr => (by cases hr; exact hdd)⟩
  clear hin
  split
  · rename_i _ f; exact hinited.1 f rfl
  · rename_i _ x1
    exact C04Res.finish _ _ (hinited.2 _ _ rfl)
  rename_i _ x1
  have hd1' := hinited.2 _ _ rfl
  split
  · exact C04Res.finish _ _ (fun st h hst hh => hd1' st h hst hh)
  split
  · intro hc; cases hc
  rename_i h hh
  split
  · exact C04Res.finish _ _ (fun st h hst hh => hd1' st h hst hh)
  -- the handle is moved to `inoffset`
  have hdx : C04DI files (DState.mk x1.d.chm x1.d.length x1.d.offset x1.d.inoffset x1.d.state
      (some ⟨h.name, x1.d.inoffset.toNat⟩)) := by
    intro st h' hst hh'
    cases hh'
    exact hd1' st h hst hh
  generalize hp1 : (if wrapI64 (offset - x1.d.offset) = 0 then _ else _ : Except Fault (Option X)) = ph1
  have hph1 : (∀ f, ph1 = .error f → f ≠ .hang) ∧ ph1 ≠ .ok none ∧
      ∀ x', ph1 = .ok (some x') → x'.error = .ok → C04DI files x'.d := by
    rw [← hp1]
    split
    · exact ⟨fun _ hf => (by cases hf), fun hc => (by cases hc), fun _ hr _ => (by cases hr; exact hdx)⟩
    · have hc := c04_lzxCall files (X.mk x1.error x1.hdr (DState.mk x1.d.chm x1.d.length x1.d.offset
          x1.d.inoffset x1.d.state (some ⟨h.name, x1.d.inoffset.toNat⟩))) (wrapI64 (offset - x1.d.offset)) hdx
      split
      · rename_i f hq
        exact ⟨fun _ hf => (by cases hf; intro hh; subst hh; exact hc.1 hq), fun hc' => (by cases hc'),
          fun _ hr => (by cases hr)⟩
      · rename_i hq; exact absurd hq hc.2.1
      · rename_i e w x' hq
        exact ⟨fun _ hf => (by cases hf), fun hc' => (by cases hc'),
          fun _ hr he => (by cases hr; exact hc.2.2 e w x' hq he)⟩
  clear hp1
  split
  · rename_i _ f; exact hph1.1 f rfl
  · exact absurd rfl hph1.2.1
  rename_i _ x2
  have hd2 := hph1.2.2 _ rfl
  generalize hp2 : (if x2.error ≠ Err.ok then _ else _ : Except Fault (Option (X × Bytes))) = ph2
  have hph2 : (∀ f, ph2 = .error f → f ≠ .hang) ∧ ph2 ≠ .ok none ∧
      ∀ x' out, ph2 = .ok (some (x', out)) → x'.error = .ok → C04DI files x'.d := by
    rw [← hp2]
    split
    · rename_i hne
      exact ⟨fun _ hf => (by cases hf), fun hc => (by cases hc), fun _ _ hr he => (by cases hr; exact absurd he hne)⟩
    · rename_i hok
      have hc := c04_lzxCall files x2
        (if length > wrapI64 (x2.d.length - offset) then wrapI64 (x2.d.length - offset) + 1 else length)
        (hd2 (Decidable.not_not.mp hok))
      split
      · rename_i f hq
        exact ⟨fun _ hf => (by cases hf; intro hh; subst hh; exact hc.1 hq), fun hc' => (by cases hc'),
          fun _ _ hr => (by cases hr)⟩
      · rename_i hq; exact absurd hq hc.2.1
      · rename_i e w x' hq
        exact ⟨fun _ hf => (by cases hf), fun hc' => (by cases hc'),
          fun _ _ hr he => (by cases hr; exact hc.2.2 e w x' hq he)⟩
  clear hp2
  split
  · rename_i _ f; exact hph2.1 f rfl
  · exact absurd rfl hph2.2.1
  rename_i _ x3 out
  have hd3 := hph2.2.2 _ _ rfl
  cases hinf : x3.d.infh with
  | none =>
    simp only
    split
    · exact C04Res.finish _ _ (C04DJ.nostate rfl)
    · exact C04Res.finish _ _ (fun st h hst hh => (by rw [hinf] at hh; cases hh))
  | some h3 =>
    simp only
    split
    · exact C04Res.finish _ _ (C04DJ.nostate rfl)
    · rename_i hok
      refine C04Res.finish _ _ (fun st h' hst hh' => ?_)
      have := hd3 (Decidable.not_not.mp hok) st h3 hst hinf
      cases hh'
      show C04StOk files st h3 (Int.ofNat h3.pos).toNat
      exact this

/-- **every `chmd_extract` call** (either section, succeeding or failing) on a header `open` / `fast_find` returned:
    no `hang`, and the instance it leaves is in the invariant again -/
theorem C04_chm_extract_no_hang_inv (files : Files) (fill : UInt8) (inst : Inst) (key : Nat) (hdr : Header)
    (hi : HdrInv hdr) (sec : Nat) (offset length : Int) (hinst : C04InstOk files inst) :
    C04Res files (extract files fill inst key hdr sec offset length) := by
  by_cases hsec : sec = 0
  · subst hsec; exact c04_extract_sec0 files fill inst key hdr offset length hinst
  · exact c04_extract_sec1 files fill inst key hdr hi sec hsec offset length hinst

theorem C04InstOk.fresh (files : Files) (e : Err) : C04InstOk files ⟨e, none⟩ := fun _ h => by cases h

/-- **C04 (CHM), whole sessions**: any list of `extract` calls on opened headers, stored and compressed members
    mixed, from any instance in the invariant (a fresh one is): no call runs out of fuel -/
theorem C04_chm_session_no_hang (files : Files) (fill : UInt8) :
    ∀ (calls : List (Nat × Header × Nat × Int × Int)) (inst : Inst), C04InstOk files inst →
    (∀ c ∈ calls, HdrInv c.2.1) → chmRun files fill calls inst ≠ some .hang
  | [], _, _, _ => by simp [chmRun]
  | (key, hdr, sec, offset, length) :: rest, inst, hinst, hc => by
    rw [chmRun]
    have h := C04_chm_extract_no_hang_inv files fill inst key hdr (hc _ (List.mem_cons_self ..)) sec offset length hinst
    have hrest : ∀ c ∈ rest, HdrInv c.2.1 := fun c hm => hc c (List.mem_cons_of_mem _ hm)
    split
    · rename_i e inst' hdr' out he
      rw [he] at h
      exact C04_chm_session_no_hang files fill rest inst' h hrest
    · rename_i inst' hdr' he
      rw [he] at h
      exact C04_chm_session_no_hang files fill rest inst' h hrest
    · rename_i f he
      rw [he] at h
      intro hh; cases hh; exact h rfl

/-- … from a fresh decompressor -/
theorem C04_chm_session_fresh_no_hang (files : Files) (fill : UInt8) (calls : List (Nat × Header × Nat × Int × Int))
    (hc : ∀ c ∈ calls, HdrInv c.2.1) : chmRun files fill calls {} ≠ some .hang :=
  C04_chm_session_no_hang files fill calls {} (C04InstOk.fresh files .ok) hc

/-- non-vacuity: the example header of `C02Chm.lean`, a compressed member then stored ones -/
example : chmRun [("x.chm", encodeChm exampleSpec)] 0
    [(7, exampleSpec.listed "x.chm", 1, 300, 70000), (7, exampleSpec.listed "x.chm", 0, 2, 3)] {} ≠ some .hang :=
  C04_chm_session_fresh_no_hang _ _ _ (by
    intro c hc
    simp only [List.mem_cons, List.not_mem_nil, or_false] at hc
    rcases hc with rfl | rfl <;> exact ⟨by decide, fun _ h => by cases h⟩)

end MsPack.Chm
