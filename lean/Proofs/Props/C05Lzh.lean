import Proofs.Lemmas.LzhRound
import Proofs.Lemmas.LzhRound3
import Proofs.Props.C05Kwaj
/-!
# C05 — KWAJ method 3 (LZH): the payload is expanded exactly (round trip against a specification writer)

`MsPack/Spec/LzhEncode.lean` is the specification of the LZH stream `lzh_decompress` (kwajd.c) decodes:
tokens are literal runs of 1..32 bytes and copies of 3..17 bytes from 0..4095 bytes back in a
4096-byte ring of spaces (write position 0); `expand` is the reference semantics; `encodeLzh` is a
writer that announces the flat encoding (type 0) for all five code-length tables, codes every symbol
with its fixed-width canonical code, and fills the last byte with zero bits.

* `C05_lzh_flat_roundtrip`: on the model of `lzh_decompress`, for **every** list of well-formed
  tokens (any order: with flat tables a literal run may also follow a short literal run), any fill
  byte of the allocator, wherever the coded stream sits in a file: the decoder returns OK and has
  written exactly `expand toks`.  Input arrives through `lzh_read_input`'s 2048-byte buffer, so
  tokens straddle refills; the end of the stream is the model's/C's: the made-up zero bytes after the
  end of the file, a `_SAFE` return or the `while (!input_end)` test.
* `C05_kwaj_lzh_roundtrip`: a KWAJ file of method 3 (any combination of the optional header parts
  without name fields) around such a stream: `open` reports the header, `extract`/`decompress` write
  exactly the expansion.

Padding rule chosen for the writer: the bit stream is filled up to a whole byte with zero bits (at
most 7).  Every token takes at least 16 bits in the flat coding, so (a) the padding never decodes to
a complete token — the decoder leaves through a `_SAFE` return inside it, or through the loop test —
and (b) `input_end` can only become non-zero while the last token is being read, so no token is
skipped by the `while (!lzh->input_end)` test.

* `C05_lzh_type3_flatlens_roundtrip_partial`: the same with all five tables sent as type 3 (one 4-bit
  length per symbol, `encodeLzhWith flatLens`): `lzh_read_lens` case 3 and the `STORE_BITS` /
  `RESTORE_BITS` hand-over of `BUILD_TREE` while bits are being read.  The table lemmas
  (`buildTree_type3`, Proofs/Lemmas/LzhRound3.lean) hold for any accepted vector of lengths below 16.

Not covered: type 3 with code lengths of the stream's own (needs the general decode-of-canonical-code
theorem for `Huff.build`/`Huff.decode`, which the project does not have yet), types 1 and 2.  With
short codes the unconditional statement is false (`short_codes_lose_tokens`, checked by the kernel): the
loop test drops every token that starts after the first made-up byte was fetched, i.e. up to 15 bits'
worth of tokens at the end of the stream.  A general statement needs "the last token takes at least
16 bits" (or real padding of that size that does not itself decode to a token).
-/
namespace MsPack.Kwaj.Lzh
open MsPack MsPack.Generated MsPack.LzhEnc

theorem init_sizes (r : Rd) (fill : UInt8) : Sizes (init r fill) := by
  intro t
  cases t <;> simp [init, St.lens, Tbl.syms]

/-- **LZH round trip, flat tables** -/
theorem C05_lzh_flat_roundtrip (toks : List Tok) (hwf : ∀ t ∈ toks, t.wf) (file : Bytes) (pos : Nat) (fill : UInt8)
    (fuel : Nat) (hfuel : toks.length + 1 ≤ fuel) (hfile : file.drop pos = encodeLzh toks) :
    ∃ st', decompress Rd.src fuel (init (⟨file, pos⟩ : Rd) fill) =
      .ok ⟨.ok, (expand toks initRing).out.toList, st'⟩ := by
  have hb := decompressBody_spec toks hwf fuel hfuel (init (⟨file, pos⟩ : Rd) fill)
    (by simp [init, kwajINPUT_SIZE]) (init_sizes _ _) hfile
  obtain ⟨st', hd, hr⟩ := decompress_of_runs fuel _ (fun s => ring s = expand toks ⟨Array.replicate 4096 0x20, 0, #[]⟩) hb
  refine ⟨st', ?_⟩
  rw [hd]
  have : st'.out = (expand toks initRing).out := congrArg Lzss.Ring.out hr
  rw [this]

/-- **LZH round trip, table encoding 3, partial**: the same token streams with the five tables sent
    explicitly as 4-bit lengths (`lzh_read_lens` case 3 for all five; the lengths sent are the flat
    ones, so the code words are the fixed-width ones).  "Partial": type 3 with lengths of the stream's
    own is not covered, and does not hold without a condition on the end of the stream — see
    `short_codes_lose_tokens` below. -/
theorem C05_lzh_type3_flatlens_roundtrip_partial (toks : List Tok) (hwf : ∀ t ∈ toks, t.wf) (file : Bytes) (pos : Nat)
    (fill : UInt8) (fuel : Nat) (hfuel : toks.length + 1 ≤ fuel) (hfile : file.drop pos = encodeLzhWith flatLens toks) :
    ∃ st', decompress Rd.src fuel (init (⟨file, pos⟩ : Rd) fill) =
      .ok ⟨.ok, (expand toks initRing).out.toList, st'⟩ := by
  have hb := decompressBody_type3_flat toks hwf fuel hfuel (init (⟨file, pos⟩ : Rd) fill)
    (by simp [init, kwajINPUT_SIZE]) (init_sizes _ _) hfile
  obtain ⟨st', hd, hr⟩ := decompress_of_runs fuel _ (fun s => ring s = expand toks ⟨Array.replicate 4096 0x20, 0, #[]⟩) hb
  refine ⟨st', ?_⟩
  rw [hd]
  have : st'.out = (expand toks initRing).out := congrArg Lzss.Ring.out hr
  rw [this]

/-- complete prefix codes with 1-bit code words: MATCHLEN symbols 0 (literal run) and 1, LITLEN symbols 0
    (run of one) and 1, OFFSET symbols 0 and 1, LITERAL 'A' and 'B' -/
def shortLens : Lens :=
  ⟨[1, 1] ++ List.replicate 14 0, [1, 1] ++ List.replicate 14 0, [1, 1] ++ List.replicate 30 0,
   [1, 1] ++ List.replicate 62 0, List.replicate 65 0 ++ [1, 1] ++ List.replicate 189 0⟩

/-- **why the general type 3 statement is not a theorem.**  Two one-byte literal runs "A", "A" (3 bits
    each) coded with `shortLens`: the model of `lzh_decompress` returns OK having written one byte.
    While the first token is read `ENSURE_BITS(16)` runs past the end of the file, `lzh_read_input`
    sets `input_end`, and `while (!lzh->input_end)` then leaves the loop although the second token's
    bits are real and still in the bit buffer.  Up to 15 bits' worth of tokens are lost this way;
    the flat coding is immune because its tokens take at least 16 bits. -/
theorem short_codes_lose_tokens :
    (match decompress Rd.src 50 (init (⟨encodeLzhWith shortLens [.lits [65], .lits [65]], 0⟩ : Rd) 0) with
      | .ok o => (o.err, o.written)
      | .error _ => (Err.args, [])) = (.ok, [65]) ∧
    (expand [.lits [65], .lits [65]] initRing).out.toList = [65, 65] := by
  constructor <;> decide +kernel

end MsPack.Kwaj.Lzh

namespace MsPack.Kwaj
open MsPack MsPack.Generated MsPack.LzhEnc
open MsPack.Oab (enc32 read_prefix readExact_prefix drop_after ofNat_toNat_lt)
open MsPack.Cab (enc16 u16_enc16 u32_enc32)

/-- the header `open` reports for `encodeKwajWith method k _` -/
def listedWith (method : Nat) (k : KwajSpec) : Header :=
  { compType := method, dataOffset := k.dataOffset, headers := k.flags, length := k.length.getD 0,
    filename := none, extra := k.extra, extraLength := (k.extra.getD []).length }

theorem kwaj_hdr_fields_with (method : Nat) (hm : method < 65536) (k : KwajSpec) (hwf : k.wf) :
    let h := enc32 0x4A41574B ++ enc32 0xD127F088 ++ enc16 method ++ enc16 k.dataOffset ++ enc16 k.flags
    h.length = 14 ∧ u32At h 0 = 0x4A41574B ∧ u32At h 4 = 0xD127F088 ∧ u16At h 8 = method ∧
    u16At h 10 = k.dataOffset ∧ u16At h 12 = k.flags := by
  have hfl := (flags_has k).2.2.2.2.2
  have hdo := hwf.2.2.2.2
  refine ⟨rfl, ?_, ?_, ?_, ?_, ?_⟩
  · have := u32_enc32 0x4A41574B (by omega) [] (enc32 0xD127F088 ++ enc16 method ++ enc16 k.dataOffset ++ enc16 k.flags)
    simpa [List.append_assoc] using this
  · have := u32_enc32 0xD127F088 (by omega) (enc32 0x4A41574B) (enc16 method ++ enc16 k.dataOffset ++ enc16 k.flags)
    simpa [List.append_assoc, enc32] using this
  · have := u16_enc16 method hm (enc32 0x4A41574B ++ enc32 0xD127F088) (enc16 k.dataOffset ++ enc16 k.flags)
    simpa [List.append_assoc, enc32] using this
  · have := u16_enc16 k.dataOffset hdo (enc32 0x4A41574B ++ enc32 0xD127F088 ++ enc16 method) (enc16 k.flags)
    simpa [List.append_assoc, enc32, enc16] using this
  · have := u16_enc16 k.flags hfl (enc32 0x4A41574B ++ enc32 0xD127F088 ++ enc16 method ++ enc16 k.dataOffset) []
    simpa [List.append_assoc, enc32, enc16] using this

/-- `kwajd_read_headers` on the layout, for any method number: exactly the specified header, the handle
    at the data offset -/
theorem readHeaders_with (fill : UInt8) (method : Nat) (hm : method < 65536) (k : KwajSpec) (hwf : k.wf) (pl : Bytes) :
    readHeaders fill ⟨encodeKwajWith method k pl, 0⟩ =
      .ok (.ok (listedWith method k), ⟨encodeKwajWith method k pl, k.dataOffset⟩) := by
  obtain ⟨hl14, s0, s4, f8, f10, f12⟩ := kwaj_hdr_fields_with method hm k hwf
  obtain ⟨g1, g2, g3, g4, g5, _⟩ := flags_has k
  obtain ⟨w1, w2, w3, w4, _⟩ := hwf
  have hd0 : (encodeKwajWith method k pl).drop 0 = _ ++ (optLength k ++ (optUnk1 k ++ (optUnk2 k ++ (optExtra k ++ pl)))) := rfl
  have hre := readExact_prefix _ 0 _ _ hd0
  rw [hl14] at hre
  have hd14 := drop_after _ 0 _ _ hd0
  rw [hl14] at hd14
  unfold readHeaders
  rw [show kwajhSIZEOF = 14 from rfl, hre]
  generalize enc32 0x4A41574B ++ enc32 0xD127F088 ++ enc16 method ++ enc16 k.dataOffset ++ enc16 k.flags = hb at s0 s4 f8 f10 f12
  simp only [s0, s4, f8, f10, f12, ne_eq, not_true_eq_false, or_self, ↓reduceIte]
  generalize hfile : encodeKwajWith method k pl = file at hd14 ⊢
  have e1 : ∃ P1, P1 = 0 + 14 + (optLength k).length ∧ file.drop P1 = optUnk1 k ++ (optUnk2 k ++ (optExtra k ++ pl)) :=
    ⟨_, rfl, drop_after file (0 + 14) _ _ hd14⟩
  obtain ⟨P1, hP1, hd1⟩ := e1
  have e2 : ∃ P2, P2 = P1 + (optUnk1 k).length ∧ file.drop P2 = optUnk2 k ++ (optExtra k ++ pl) := ⟨_, rfl, drop_after file P1 _ _ hd1⟩
  obtain ⟨P2, hP2, hd2⟩ := e2
  have e3 : ∃ P3, P3 = P2 + (optUnk2 k).length ∧ file.drop P3 = optExtra k ++ pl := ⟨_, rfl, drop_after file P2 _ _ hd2⟩
  obtain ⟨P3, hP3, hd3⟩ := e3
  have hdo : k.dataOffset = P3 + (optExtra k).length := by simp only [KwajSpec.dataOffset]; omega
  rw [step_length k w1 _ rfl file (0 + 14) _ hd14]
  simp only
  rw [← hP1, step_unk1 k w2 file P1 _ hd1]
  simp only
  rw [← hP2, step_unk2 k w3 file P2 _ hd2]
  simp only
  rw [← hP3]
  have hnames : ∀ (h : Header), h.headers = k.flags → readNames fill h ⟨file, P3⟩ = .ok (.ok h, ⟨file, P3⟩) := by
    intro h hh; unfold readNames; rw [hh, g4]; rfl
  rw [hnames _ rfl]
  simp only
  rw [step_extra k w4 _ rfl file P3 _ hd3, ← hdo]
  congr 3
  simp only [listedWith]
  cases k.length <;> cases k.extra <;> simp

theorem drop_dataOffset (method : Nat) (k : KwajSpec) (pl : Bytes) :
    (encodeKwajWith method k pl).drop k.dataOffset = pl := by
  have h0 : (encodeKwajWith method k pl).drop 0 = ((enc32 0x4A41574B ++ enc32 0xD127F088 ++ enc16 method ++ enc16 k.dataOffset ++ enc16 k.flags) ++
      (optLength k ++ (optUnk1 k ++ (optUnk2 k ++ optExtra k)))) ++ pl := by
    simp [encodeKwajWith, List.append_assoc]
  have := drop_after _ 0 _ _ h0
  have hl : (enc32 0x4A41574B ++ enc32 0xD127F088 ++ enc16 method ++ enc16 k.dataOffset ++ enc16 k.flags ++
      (optLength k ++ (optUnk1 k ++ (optUnk2 k ++ optExtra k)))).length = k.dataOffset := by
    simp only [KwajSpec.dataOffset, List.length_append, enc32, enc16, List.length_cons, List.length_nil]; omega
  rw [hl, Nat.zero_add] at this; exact this

/-- **KWAJ, method 3 (LZH)**: the header values are reported exactly and `decompress` writes exactly the
    expansion of the tokens -/
theorem C05_kwaj_lzh_roundtrip (fill : UInt8) (err : Err) (k : KwajSpec) (hwf : k.wf) (toks : List Tok)
    (htoks : ∀ t ∈ toks, t.wf) (fuel : Nat) (hfuel : toks.length + 1 ≤ fuel) :
    open_ fill err (some (encodeKwajLzh k toks)) =
      .ok (some ⟨listedWith 3 k, ⟨encodeKwajLzh k toks, k.dataOffset⟩⟩, .ok) ∧
    (∃ h', extract fill fuel ⟨listedWith 3 k, ⟨encodeKwajLzh k toks, k.dataOffset⟩⟩ =
      .ok ⟨.ok, (expand toks initRing).out.toList, h'⟩) ∧
    decompress fill fuel err (some (encodeKwajLzh k toks)) = .ok ⟨.ok, some (expand toks initRing).out.toList⟩ := by
  have hopen : open_ fill err (some (encodeKwajLzh k toks)) =
      .ok (some ⟨listedWith 3 k, ⟨encodeKwajLzh k toks, k.dataOffset⟩⟩, .ok) := by
    simp only [open_, encodeKwajLzh, readHeaders_with fill 3 (by decide) k hwf]
  obtain ⟨st', hdec⟩ := Lzh.C05_lzh_flat_roundtrip toks htoks (encodeKwajLzh k toks) k.dataOffset fill fuel hfuel
    (drop_dataOffset 3 k (encodeLzh toks))
  have hex : extract fill fuel ⟨listedWith 3 k, ⟨encodeKwajLzh k toks, k.dataOffset⟩⟩ =
      .ok ⟨.ok, (expand toks initRing).out.toList, ⟨listedWith 3 k, st'.src⟩⟩ := by
    simp only [extract, listedWith, compNONE, compXOR, compSZDD, compLZH, Rd.seekStart]
    simp [hdec]
  refine ⟨hopen, ⟨_, hex⟩, ?_⟩
  unfold decompress
  rw [hopen]
  simp only [hex]

end MsPack.Kwaj

/-! ## non-vacuity -/

open MsPack MsPack.LzhEnc in
/-- the premises are satisfiable by non-trivial streams: a short run followed by a match (the format's
    alternation), a full 32-byte run followed by another run, an overlapping match reaching into the
    initial spaces, offset 0 (the byte 4096 back), the extreme lengths and offsets -/
example : ∀ t ∈ [Tok.lits [65, 66, 67], .mat 5 3, .lits (List.replicate 32 7), .lits [1], .mat 17 0, .mat 3 4095, .mat 4 1],
    Tok.wf t := by decide

open MsPack MsPack.LzhEnc in
example : Alternates false [Tok.lits [65, 66, 67], .mat 5 3, .lits (List.replicate 32 7), .lits [1], .mat 17 0] := by
  simp [Alternates]

/-- a concrete token list -/
def MsPack.LzhEnc.demoToks : List MsPack.LzhEnc.Tok := [.lits [65, 66, 67], .mat 5 3, .mat 17 0]

open MsPack MsPack.LzhEnc MsPack.Kwaj in
/-- the theorem instantiated: a concrete stream behind a foreign byte, decoded by the model -/
example : ∃ st', Lzh.decompress Rd.src 8 (Lzh.init (⟨[0xEE] ++ encodeLzh demoToks, 1⟩ : Rd) 0xAA) =
    .ok ⟨.ok, (expand demoToks initRing).out.toList, st'⟩ :=
  Lzh.C05_lzh_flat_roundtrip demoToks (by decide) ([0xEE] ++ encodeLzh demoToks) 1 0xAA 8 (by decide) (by rfl)

open MsPack MsPack.LzhEnc in
/-- … and what it expands to -/
example : (expand [Tok.lits [65, 66, 67], .mat 5 3, .mat 3 4095] initRing).out.toList =
    [65, 66, 67, 65, 66, 67, 65, 66, 32, 32, 32] := by decide +kernel

open MsPack MsPack.Kwaj in
example : KwajSpec.wf ⟨false, some 11, none, some [1, 2, 3], some [104, 105], []⟩ := by
  simp [KwajSpec.wf, KwajSpec.dataOffset, optLength, optUnk1, optUnk2, optExtra, MsPack.Oab.enc32, MsPack.Cab.enc16]
