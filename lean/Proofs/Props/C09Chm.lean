import Proofs.Lemmas.ChmApiLedger
import MsPack.Spec.ChmEncode
/-
C09 (everything acquired is released, on every path) and the handle half of C20 (callbacks only on
live handles, in the mode they were opened with; nothing freed or closed twice) for the CHM
decompressor, proved on the effect model `MsPack/Chm/Api.lean` (chmd.c + `mspack_sys_filelen` + the
allocation skeleton of lzxd_init / lzxd_free, over the instrumented system `MsPack/Sys.lean`).

Quantifiers: every program a client can write against one decompressor (`Op` lists: `open`,
`fast_open`, `close`, `extract`, `fast_find` in any order and number, on any of the headers it holds,
with any `struct mschmd_file` contents — section 0 or 1, any offset and length, so both list entries
and `fast_find` results are covered — after which it closes the headers it still holds and destroys
the decompressor), every world — any file contents, any open handles and live blocks of the client's
own, and *any fault plan* (any set of failing alloc / open / read / write / seek calls) — every
value of the parsing parameter `Parse` (how many directory entries a chunk yields and of which kind,
what `search_chunk` answers, what ControlData / ResetTable / SpanInfo say), and every LZX decoder
(`lzxd_decompress` over `self->d->sys`, with any private state carried from one `extract` to the
next) that satisfies the frame law `Lawful`.

There is no "if it returns" premise: every loop of the model is bounded by a quantity the C bounds it
with too (`num_chunks` of the header, `visits`, the entry list, `file->length`), so `program` is total.
-/
namespace MsPack.Chm
open MsPack MsPack.Sys MsPack.Chm.Api
open MsPack.Szdd.Api (Frame)
open MsPack.Kwaj.Api (Keeps)

/-- create; any client program; close what is still held; destroy: the ledger is back where it
    started and no misuse of the interface was recorded on the way -/
theorem C09_chm_ledger_restored {σ : Type} (D : Decoder σ) (hD : Lawful D) (P : Parse) (ops : List Op) (w : World)
    (hok : w.view.ok) :
    (program D P ops w).2.liveAllocs = w.liveAllocs ∧
    (program D P ops w).2.liveHandles.map (fun h => (h.id, h.mode)) = w.liveHandles.map (fun h => (h.id, h.mode)) ∧
    (program D P ops w).2.misuse = w.misuse := by
  have p := program_spec (v := w.view) D hD P ops w (Own.of_view_eq hok rfl)
  have f := Own.frame hok p
  exact ⟨f.allocs, f.handles, f.misuse⟩

/-- from an empty ledger (a fresh process): nothing is live afterwards, nothing was misused -/
theorem C09_chm_nothing_left {σ : Type} (D : Decoder σ) (hD : Lawful D) (P : Parse) (ops : List Op)
    (files : List (String × Bytes)) (plan : List (Kind × Nat)) :
    (program D P ops { files := files, plan := plan }).2.liveAllocs = [] ∧
    (program D P ops { files := files, plan := plan }).2.liveHandles = [] ∧
    (program D P ops { files := files, plan := plan }).2.misuse = [] := by
  have hok : ({ files := files, plan := plan } : World).view.ok :=
    ⟨fun _ h => (nomatch h), fun _ h => (nomatch h), List.nodup_nil⟩
  obtain ⟨h1, h2, h3⟩ := C09_chm_ledger_restored D hD P ops _ hok
  exact ⟨h1, by simpa using h2, h3⟩

/-- the same for a client that stops at any point without closing: what is live then is exactly what
    the session still owns (decoder cache, the headers held, the decompressor), nothing was misused -/
theorem C09_chm_session_owns {σ : Type} (D : Decoder σ) (hD : Lawful D) (P : Parse) (ops : List Op)
    (self : Nat) (w : World) (hok : w.view.ok) (hself : (alloc w).1 = some self) :
    let r := runOps D P ops ⟨self, ⟨none, .ok⟩, []⟩ (alloc w).2
    r.2.liveAllocs.Perm (decBlocks r.1.inst.d ++ (hdrsBlocks r.1.hdrs ++ [self]) ++ w.liveAllocs) ∧
    r.2.misuse = w.misuse := by
  intro r
  have hw : Own w.view [] [] w := Own.of_view_eq hok rfl
  have p0 : SessOwn w.view (⟨self, ⟨none, .ok⟩, []⟩ : Sess σ) (alloc w).2 := hw.alloc_some hself
  have p := runOps_spec D hD P ops _ _ p0
  have hs : r.1.self = self := p.2
  have p1 := p.1
  unfold SessOwn at p1
  rw [hs] at p1
  exact ⟨p1.perm, p1.misuse⟩

/-! ## the hypotheses can be met, and the model does what it says -/

/-- a decoder that does nothing (consumes no input, produces no output) satisfies the frame law -/
def trivialDecoder : Decoder Unit := ⟨fun _ => (), fun _ _ _ _ => pure ⟨.ok, 0, ()⟩⟩

theorem trivialDecoder_lawful : Lawful trivialDecoder := fun _ _ _ _ w _ _ _ => Frame.refl w

/-- one read of the input, one write of what was read if `d->outfh` is set, the number of calls so far -/
def pumpRun (n : Nat) (bytes : Int) (inFh : Nat) (outFh : Option Nat) : M (LzxOut Nat) := do
  match ← read inFh bytes.toNat with
  | none => return ⟨.read, 0, n + 1⟩
  | some bs =>
    match outFh with
    | none => return ⟨.ok, bs.length, n + 1⟩
    | some o =>
      match ← write o bs with
      | none => return ⟨.write, bs.length, n + 1⟩
      | some _ => return ⟨.ok, bs.length, n + 1⟩

/-- so does one that really uses its handles the way `self->d->sys` does, and keeps a state -/
def pumpDecoder : Decoder Nat := ⟨fun _ => 0, pumpRun⟩

theorem pumpDecoder_lawful : Lawful pumpDecoder := by
  intro n bytes inFh outFh w hok hin hout
  have hk : Keeps w.view (pumpRun n bytes inFh outFh) := by
    unfold pumpRun
    refine Keeps.bind (Keeps.read hok inFh _ hin) fun r => ?_
    cases r with
    | none => exact Keeps.pure _
    | some bs =>
      cases outFh with
      | none => exact Keeps.pure _
      | some o =>
        refine Keeps.bind (Keeps.write hok o _ (hout o rfl)) fun r2 => ?_
        cases r2 <;> exact Keeps.pure _
  exact Frame.of_view_eq (hk w rfl)

/-- a parsing parameter for the examples: every PMGL chunk lists a normal file, the ControlData system
    file and one more system file; `search_chunk` finds Content, ControlData (28 bytes at offset 0 of
    section 0) and SpanInfo (8 bytes at offset 4), does not find the ResetTable, reports a damaged
    chunk for the name "bad", and finds every other name in section 1 -/
def demoParse : Parse where
  entries := fun _ _ _ => ([.file, .sys (some .control) ⟨0, 0, 28⟩, .sys none ⟨0, 0, 0⟩], false, false)
  search := fun _ _ _ name =>
    if name = Special.content.name then .hit true none (some ⟨0, 0, 40⟩)
    else if name = Special.control.name then .hit true none (some ⟨0, 0, 28⟩)
    else if name = Special.spaninfo.name then .hit true none (some ⟨0, 4, 8⟩)
    else if name = Special.rtable.name then .miss
    else if name = "bad" then .bad
    else .hit true none (some ⟨1, 0, 5⟩)
  control := fun _ _ => .ok ⟨16, 32768, 0⟩
  resetEntry := fun _ _ _ => none
  spanLength := fun _ => .ok 1000
  place := fun _ s0 co _ span => .ok ({ offset := 0, length := span, inoffset := s0 + co }, span)

/-- a real CHM file (the writer of `MsPack/Spec/ChmEncode.lean`): version 3, two PMGL chunks of 64
    bytes, 64 bytes of content -/
def demoChm : Bytes :=
  encodeChm { version := 3, timestamp := 0, language := 0x409, chunkSize := 64, density := 2,
              chunks := [[], []], content := (List.range 64).map (·.toUInt8) }

def demoOps : List Op :=
  [.open_ "a.chm", .fastOpen "a.chm", .fastFind 0 "x", .fastFind 0 "bad",
   .extract 0 ⟨1, 0, 5⟩ "o1", .extract 0 ⟨0, 3, 7⟩ "o0", .extract 1 ⟨1, 0, 5⟩ "o2", .extract 1 ⟨1, 2, 3⟩ "o3",
   .open_ "missing", .close 0, .extract 0 ⟨1, 0, 0⟩ "o4"]

/-- the state half way through `demoOps`, fault-free -/
def demoMid : Sess Nat × World :=
  runOps pumpDecoder demoParse (demoOps.take 8) ⟨0, ⟨none, .ok⟩, []⟩
    { files := [("a.chm", demoChm)], nextId := 1, liveAllocs := [0] }

/-- mid-session both headers are held (the listing allocations of `open`: 3 entries for each of the 2
    chunks; the chunk cache with both chunks of each header; the system file entries `find_sys_file`
    added), the decoder cache with its LZX stream and its input handle are live, the section-0 member
    and the LZX outputs were written (the last one after a re-initialisation: `file->offset` 2 lies
    before `d->offset` 5) -/
example :
    demoMid.2.liveAllocs.length = 24 ∧ demoMid.2.liveHandles.length = 1 ∧ demoMid.2.misuse = [] ∧
    demoMid.1.hdrs.length = 2 ∧ (demoMid.1.inst.d.map fun d => d.state.isSome) = some true ∧
    demoMid.2.files.lookup "o0" = some [3, 4, 5, 6, 7, 8, 9] ∧
    demoMid.2.files.lookup "o1" = some [0, 1, 2, 3, 4] ∧ demoMid.2.files.lookup "o3" = some [2, 3, 4] := by
  decide +kernel

/-- the whole program with faults planned in four layers, all of which are reached (the call counters
    at the end say so): nothing is left -/
example :
    let w := (program pumpDecoder demoParse demoOps
      { files := [("a.chm", demoChm)], plan := [(.alloc, 20), (.read, 14), (.seek, 16), (.open_, 9)] }).2
    w.liveAllocs = [] ∧ w.liveHandles.length = 0 ∧ w.misuse = [] ∧
    w.counts.alloc ≥ 20 ∧ w.counts.read ≥ 14 ∧ w.counts.seek ≥ 16 ∧ w.counts.open_ ≥ 9 := by
  decide +kernel

/-- `fast_open` then one `extract` from section 1, with one planned fault: what `self->error` is, how
    many blocks are live afterwards (1 = only the decompressor), whether `d->infh` is open, `d->state` -/
def afterFault (kind : Kind) (k : Nat) : Err × Nat × Nat × Option Bool :=
  let r := runOps pumpDecoder demoParse [.fastOpen "a.chm", .extract 0 ⟨1, 0, 5⟩ "o1"] ⟨0, ⟨none, .ok⟩, []⟩
             { files := [("a.chm", demoChm)], nextId := 1, liveAllocs := [0], plan := [(kind, k)] }
  (r.1.inst.error, r.2.liveAllocs.length, r.2.liveHandles.length, r.1.inst.d.map fun d => d.state.isSome)

example :
    -- no fault: header, decoder cache, chunk cache + 2 chunks, 3 system file entries, 3 LZX blocks
    [afterFault .alloc 0,
     -- the header of `fast_open` / the decoder cache / the chunk cache array / a chunk
     afterFault .alloc 1, afterFault .alloc 2, afterFault .alloc 3, afterFault .alloc 4,
     -- the entry `find_sys_file` allocates / the ControlData buffer of `read_sys_file`
     afterFault .alloc 5, afterFault .alloc 7,
     -- the second chunk, wanted while looking for the ResetTable: the SpanInfo fallback still works
     afterFault .alloc 8,
     -- the LZX state block / the window (the input buffer is still asked for) / the input buffer
     afterFault .alloc 11, afterFault .alloc 12, afterFault .alloc 13]
    = [(.ok, 12, 1, some true),
       (.nomemory, 1, 0, none), (.nomemory, 2, 0, none), (.dataformat, 3, 1, some false), (.dataformat, 4, 1, some false),
       (.nomemory, 5, 1, some false), (.nomemory, 7, 1, some false),
       (.ok, 11, 1, some true),
       (.nomemory, 9, 1, some false), (.nomemory, 9, 1, some false), (.nomemory, 9, 1, some false)] := by
  decide +kernel

example :
    -- reads: a fixed header of `fast_open` / a chunk in `read_chunk` / ControlData / SpanInfo
    [afterFault .read 2, afterFault .read 5, afterFault .read 6, afterFault .read 8,
     -- seeks: the two of `mspack_sys_filelen` are forgiven; `read_chunk`; `read_sys_file`; the LZX input
     afterFault .seek 2, afterFault .seek 3, afterFault .seek 5, afterFault .seek 6, afterFault .seek 9,
     -- opens: `fast_open` / `d->infh` / the output / the handle of a `chmd_fast_find`
     afterFault .open_ 1, afterFault .open_ 2, afterFault .open_ 3, afterFault .open_ 4]
    = [(.read, 1, 0, none), (.dataformat, 4, 1, some false), (.read, 7, 1, some false), (.read, 9, 1, some false),
       (.ok, 12, 1, some true), (.ok, 12, 1, some true), (.dataformat, 4, 1, some false), (.seek, 7, 1, some false),
       (.seek, 12, 1, some true),
       (.open_, 1, 0, none), (.open_, 3, 0, some false), (.open_, 3, 1, some false), (.dataformat, 3, 1, some false)] := by
  decide +kernel

/-! The stale-error path the proof work exposed (D27, repaired in the C: `chmd_init_decomp` used to end in
`return self->error` after a tolerated reset-table failure): a listing whose ResetTable entry claims section 1 now
extracts at the first call. -/

def staleParse : Parse :=
  { demoParse with
    entries := fun _ _ _ =>
      ([.sys (some .content) ⟨0, 0, 40⟩, .sys (some .control) ⟨0, 0, 28⟩, .sys (some .spaninfo) ⟨0, 4, 8⟩,
        .sys (some .rtable) ⟨1, 0, 48⟩], false, false) }

example :
    let w0 : World := { files := [("a.chm", demoChm)], nextId := 1, liveAllocs := [0] }
    let r1 := runOps pumpDecoder staleParse [.open_ "a.chm", .extract 0 ⟨1, 0, 5⟩ "o"] ⟨0, ⟨none, .ok⟩, []⟩ w0
    r1.1.inst.error = .ok ∧ r1.2.files.lookup "o" = some [0, 1, 2, 3, 4] := by
  decide +kernel

end MsPack.Chm
