import Proofs.Lemmas.KwajApiLedger
/-
C09 (everything acquired is released, on every path) and the handle half of C20 (callbacks only on
live handles, in the mode they were opened with; nothing freed or closed twice) for the KWAJ
decompressor, proved on the effect model `MsPack/Kwaj/Api.lean` (kwajd.c + lzssd.c + the allocation
skeletons of lzh_init/lzh_free and mszipd_init/mszipd_free, over the instrumented system
`MsPack/Sys.lean`).

Quantifiers: every program a client can write against one decompressor (`Op` lists: one-shot
decompress, or open / any number of extracts / close), every world — any file contents (hence any
header: any combination of the optional fields, any compression method, any junk), any open handles
and live blocks of the client's own, and *any fault plan* (any set of failing alloc / open / read /
write / seek calls) — every fuel, and every pair of bit-level decoder bodies (`lzh_decompress`,
`mszipd_decompress_kwaj`) that satisfy the frame law `Decoders.Lawful`: run with a live input and a
live output handle they leave the ledger as it was.  `some ()` excludes only runs whose copy loop or
LZSS loop ran out of fuel, which is not a return of the C function (termination is C04's business).
-/
namespace MsPack.Kwaj
open MsPack MsPack.Sys MsPack.Kwaj.Api
open MsPack.Szdd.Api (Frame ok_add_alloc)

/-- create; any client program; destroy: the ledger is back where it started and no misuse of the
    interface was recorded on the way -/
theorem C09_kwaj_ledger_restored (d : Decoders) (hd : d.Lawful) (fuel : Nat) (ops : List Op) (w : World)
    (hok : w.view.ok) (hret : (program d fuel ops w).1 = some ()) :
    (program d fuel ops w).2.liveAllocs = w.liveAllocs ∧
    (program d fuel ops w).2.liveHandles.map (fun h => (h.id, h.mode)) = w.liveHandles.map (fun h => (h.id, h.mode)) ∧
    (program d fuel ops w).2.misuse = w.misuse := by
  suffices h : Frame w.view (program d fuel ops w).2 from ⟨h.allocs, h.handles, h.misuse⟩
  unfold program at hret ⊢
  simp only [bind_apply] at hret ⊢
  unfold create
  simp only [bind_apply]
  rcases alloc_spec w with ⟨a1, a2⟩ | ⟨a1, a2⟩
  · rw [a1]; simp only [pure_apply]; exact Frame.of_view_eq a2
  · unfold create at hret
    simp only [bind_apply] at hret
    rw [a1] at hret ⊢
    simp only [pure_apply, bind_apply] at hret ⊢
    have hok1 : (alloc w).2.view.ok := by rw [a2]; exact ok_add_alloc hok
    have hr := runOps_spec d hd fuel ops (alloc w).2.view hok1 ⟨w.nextId, .ok⟩ (alloc w).2 rfl
    generalize runOps d fuel ops ⟨w.nextId, .ok⟩ (alloc w).2 = p at hr hret
    obtain ⟨r1, w1⟩ := p
    simp only at hr hret ⊢
    match r1 with
    | none => simp only [pure_apply] at hret; cases hret
    | some i1 =>
      simp only [bind_apply, pure_apply]
      have f1 := hr _ rfl
      unfold destroy
      have hmem : w.nextId ∈ w1.view.allocs := by rw [f1.allocs, a2]; simp
      have hf := free_live_view w1 w.nextId hmem
      refine ⟨?_, ?_, ?_, ?_⟩
      · show (free (some w.nextId) w1).2.view.allocs = _
        rw [hf]; simp only; rw [f1.allocs, a2]; simp
      · show (free (some w.nextId) w1).2.view.handles = _
        rw [hf]; simp only; rw [f1.handles, a2]
      · show (free (some w.nextId) w1).2.view.misuse = _
        rw [hf]; simp only; rw [f1.misuse, a2]
      · show _ ≤ (free (some w.nextId) w1).2.view.nextId
        rw [hf]; simp only
        have := f1.nextId; rw [a2] at this; simp only at this
        have h0 : w.view.nextId = w.nextId := rfl
        omega

/-- from an empty ledger (a fresh process): nothing is live afterwards, nothing was misused -/
theorem C09_kwaj_nothing_left (d : Decoders) (hd : d.Lawful) (fuel : Nat) (ops : List Op)
    (files : List (String × Bytes)) (plan : List (Kind × Nat))
    (hret : (program d fuel ops { files := files, plan := plan }).1 = some ()) :
    (program d fuel ops { files := files, plan := plan }).2.liveAllocs = [] ∧
    (program d fuel ops { files := files, plan := plan }).2.liveHandles = [] ∧
    (program d fuel ops { files := files, plan := plan }).2.misuse = [] := by
  have hok : ({ files := files, plan := plan } : World).view.ok :=
    ⟨fun _ h => (nomatch h), fun _ h => (nomatch h), List.nodup_nil⟩
  obtain ⟨h1, h2, h3⟩ := C09_kwaj_ledger_restored d hd fuel ops _ hok hret
  exact ⟨h1, by simpa using h2, h3⟩

/-! ## the hypotheses can be met -/

/-- decoder bodies that do nothing satisfy the frame law -/
def trivialDecoders : Decoders := ⟨fun _ _ => pure .ok, fun _ _ => pure .ok⟩

theorem trivialDecoders_lawful : trivialDecoders.Lawful :=
  ⟨fun _ _ w _ _ _ => Frame.refl w, fun _ _ w _ _ _ => Frame.refl w⟩

/-- so do bodies that really use their handles: read a buffer, write what was read, report -/
def pumpOnce (inFh outFh : Nat) : M Err := do
  match ← read inFh 2048 with
  | none => return .read
  | some bs =>
    match ← write outFh bs with
    | none => return .write
    | some _ => return .ok

theorem pumpOnce_frameLaw : FrameLaw pumpOnce := by
  intro inFh outFh w hok hin hout
  have hk : Keeps w.view (pumpOnce inFh outFh) := by
    unfold pumpOnce
    refine Keeps.bind (Keeps.read hok inFh _ hin) fun r => ?_
    cases r with
    | none => exact Keeps.pure _
    | some bs =>
      refine Keeps.bind (Keeps.write hok outFh _ hout) fun r2 => ?_
      cases r2 <;> exact Keeps.pure _
  exact Frame.of_view_eq (hk w rfl)

/-- a KWAJ file with every optional header field: length, unknown1, unknown2 (3 bytes skipped),
    name "ab", extension "tx", extra text "xyz"; then five data bytes -/
def sampleFile (method : UInt8) : Bytes :=
  [0x4B, 0x57, 0x41, 0x4A, 0x88, 0xF0, 0x27, 0xD1, method, 0, 36, 0, 0x3F, 0,
   5, 0, 0, 0,   7, 7,   3, 0, 9, 9, 9,   0x61, 0x62, 0,   0x74, 0x78, 0,   3, 0, 0x78, 0x79, 0x7A,
   1, 2, 3, 4, 5]

/-- non-vacuity: a program over all five methods that returns, on a world where faults are planned
    and fire: the 3rd allocation is the name block of the first `open` (NOMEMORY with the header
    block live), the 2nd write is in the XOR copy loop of "o3", the 50th read is inside the LZSS
    decoder of the last step -/
example : (program trivialDecoders 100
            [.decompress "x" "o1", .session "x" ["o2", "o3"], .decompress "n" "o4", .decompress "l" "o5",
             .session "z" ["o6"], .decompress "q" "o7"]
            { files := [("n", sampleFile 0), ("x", sampleFile 1), ("q", sampleFile 2), ("l", sampleFile 3),
                        ("z", sampleFile 4)],
              plan := [(.alloc, 3), (.write, 2), (.read, 50)] }).1 = some () := by decide +kernel

/-- and on the fault-free world the header really is parsed with its name and extra blocks, which
    are live while the file is open -/
example : ((Api.open_ ⟨0, .ok⟩ "x" { files := [("x", sampleFile 1)], nextId := 1 }).1.2.map
            fun h => (h.f.filename, h.f.extra, h.f.name, h.f.extraText, h.f.dataOffset)) =
          some (some 3, some 4, [0x61, 0x62, 0x2E, 0x74, 0x78], [0x78, 0x79, 0x7A], 36) ∧
          (Api.open_ ⟨0, .ok⟩ "x" { files := [("x", sampleFile 1)], nextId := 1 }).2.liveAllocs = [4, 3, 2] := by
  decide +kernel

end MsPack.Kwaj
