import Proofs.Lemmas.Find
import Proofs.Lemmas.Headers
/-!
# C14 — search() finds every embedded cabinet, at any offset, with any buffer size

Model: `MsPack/Cab/Find.lean` (`find n salvage file` = `cabd_find` with `searchbuf_size = n` on a
fault-free file).  `cabd_param` refuses SEARCHBUF < 4, so `n ≥ 4` in every reachable call; the
theorems need only `n ≥ 1`.
-/
namespace MsPack.Cab
open MsPack

/-- the result does not depend on the search-buffer size (scanner state persists over refills) -/
theorem C14_chunk_independent (n m : Nat) (hn : 1 ≤ n) (hm : 1 ≤ m) (sv : Bool) (file : Bytes) :
    find n sv file = find m sv file :=
  findLoop_chunk_independent n m hn hm sv file 0 []

/-- the restart logic always advances: `cabd_find` terminates (the `hang` outcome is unreachable) -/
theorem C14_never_hangs (n : Nat) (hn : 1 ≤ n) (sv : Bool) (file : Bytes) :
    (find n sv file).2 = .done :=
  findLoop_never_hangs n hn sv file 0 []

/-- nothing is reported that does not parse as a cabinet at the reported offset; data that only
    resembles a header (signature, plausible lengths) is never reported -/
theorem C14_sound (n : Nat) (sv : Bool) (file : Bytes) :
    ∀ c ∈ (find n sv file).1, readHeaders file c.baseOffset sv = .ok c := by
  apply findLoop_sound n sv file 0 [] (fun c => readHeaders file c.baseOffset sv = .ok c)
  · intro c hc; cases hc
  · intro off c h
    have := (readHeaders_fields file off sv c h).1
    rw [this]; exact h

-- non-vacuity: behind the filler "MM" the scanner (fixed as of the D8 repair) reports the candidate
-- at offset 2 with the right length fields, and the 62-byte stored cabinet there parses
def exampleCab : Bytes :=
  [0x4D,0x53,0x43,0x46, 0,0,0,0, 62,0,0,0, 0,0,0,0, 44,0,0,0, 0,0,0,0, 3,1, 1,0, 1,0, 0,0, 0x34,0x12, 0,0,
   61,0,0,0, 1,0, 0,0,
   1,0,0,0, 0,0,0,0, 0,0, 0x6c,0x22, 0xba,0x59, 0x20,0, 0x61,0]

example : scanAll ([0x4D, 0x4D] ++ exampleCab) 0 {} = some ⟨2, 62, 44⟩ := by decide
example : (readHeaders ([0x4D, 0x4D] ++ exampleCab) 2 false).toOption.map (·.files.length) = some 1 := by
  decide

end MsPack.Cab
