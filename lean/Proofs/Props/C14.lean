import Proofs.Lemmas.Find
import Proofs.Lemmas.Headers
import Proofs.Lemmas.FindPlanted
/-!
# C14 — search() finds every embedded cabinet, at any offset, with any buffer size

Model: `MsPack/Cab/Find.lean` (`find n salvage file` = `cabd_find` with `searchbuf_size = n` on a
fault-free file).  `cabd_param` refuses SEARCHBUF < 4, so `n ≥ 4` in every reachable call; the
theorems need only `n ≥ 1`.
-/
namespace MsPack.Cab
open MsPack

/-- the result does not depend on the search-buffer size (scanner state persists over refills) -/
theorem C14_chunk_independent (n m : Nat) (hn : 1 ≤ n) (hm : 1 ≤ m) (sv : Bool) (file : Bytes) :
    find n sv file = find m sv file :=
  findLoop_chunk_independent n m hn hm sv file 0 []

/-- the restart logic always advances: `cabd_find` terminates (the `hang` outcome is unreachable) -/
theorem C14_never_hangs (n : Nat) (hn : 1 ≤ n) (sv : Bool) (file : Bytes) :
    (find n sv file).2 = .done :=
  findLoop_never_hangs n hn sv file 0 []

/-- nothing is reported that does not parse as a cabinet at the reported offset; data that only
    resembles a header (signature, plausible lengths) is never reported -/
theorem C14_sound (n : Nat) (sv : Bool) (file : Bytes) :
    ∀ c ∈ (find n sv file).1, readHeaders file c.baseOffset sv = .ok c := by
  apply findLoop_sound n sv file 0 [] (fun c => readHeaders file c.baseOffset sv = .ok c)
  · intro c hc; cases hc
  · intro off c h
    have := (readHeaders_fields file off sv c h).1
    rw [this]; exact h

/-- **completeness**: a cabinet planted behind any bytes that do not contain the four signature bytes "MSCF" (they may
    contain any prefix of it, also directly in front of the cabinet) and whose two length fields pass the scanner's
    "likely cabinet" test is the first thing `search()` reports — for every search-buffer size, strict or salvage,
    whatever follows the cabinet's header area -/
theorem C14_finds_planted (n : Nat) (hn : 1 ≤ n) (sv : Bool) (junk rest : Bytes)
    (hj : ¬ sig <:+: junk) (c : Cabinet) (hc : readHeaders (junk ++ rest) junk.length sv = .ok c)
    (hpl : plausible (junk ++ rest).length sv ⟨junk.length, u32At rest 8, u32At rest 16⟩ = true) :
    ∃ tail, (find n sv (junk ++ rest)).1 = c :: tail := by
  -- the header bytes
  obtain ⟨_, buf, r, hrd, hsig, _⟩ := readHeaders_fields _ _ _ _ hc
  have hd : (junk ++ rest).drop junk.length = rest := List.drop_left ..
  have hbuf : buf = rest.take 36 ∧ 36 ≤ rest.length := by
    simp only [Rd.readExact, Rd.read, hd] at hrd
    by_cases hl : (rest.take 36).length = 36
    · rw [if_pos hl] at hrd
      simp only [Option.some.injEq, Prod.mk.injEq] at hrd
      rw [List.length_take] at hl
      exact ⟨hrd.1.symm, by omega⟩
    · rw [if_neg hl] at hrd; contradiction
  have hsig' : u32At rest 0 = 0x4643534D := by
    rw [← hsig, hbuf.1]
    simp only [u32At, byteAt, List.getD_eq_getElem?_getD, List.getElem?_take]
    simp
  -- the scan: junk, then the header
  obtain ⟨st', hs1, hst'⟩ := scan_junk junk 0 {} (by simp) (by simpa using hj)
  have hs2 := scan_header rest (by omega) hsig' junk.length st' hst'
  have hscan : scanChunks n (junk ++ rest) 0 {} = some ⟨junk.length, u32At rest 8, u32At rest 16⟩ := by
    rw [scanChunks_eq_scanAll n hn]
    unfold scanAll
    rw [List.drop_zero, scanBuf_append, hs1]
    simp only [hs2, Nat.zero_add]
  have hat : (atHit sv (junk ++ rest) ⟨junk.length, u32At rest 8, u32At rest 16⟩ []).2 = [c] := by
    unfold atHit
    simp only [hpl, ↓reduceIte, hc]
  obtain ⟨tail, ht⟩ := findLoop_hit n sv (junk ++ rest) 0 [] _ hscan
  rw [hat] at ht
  exact ⟨tail, ht⟩

-- non-vacuity: behind the filler "MM" the scanner (fixed as of the D8 repair) reports the candidate
-- at offset 2 with the right length fields, and the 62-byte stored cabinet there parses
def exampleCab : Bytes :=
  [0x4D,0x53,0x43,0x46, 0,0,0,0, 62,0,0,0, 0,0,0,0, 44,0,0,0, 0,0,0,0, 3,1, 1,0, 1,0, 0,0, 0x34,0x12, 0,0,
   61,0,0,0, 1,0, 0,0,
   1,0,0,0, 0,0,0,0, 0,0, 0x6c,0x22, 0xba,0x59, 0x20,0, 0x61,0]

example : scanAll ([0x4D, 0x4D] ++ exampleCab) 0 {} = some ⟨2, 62, 44⟩ := by decide
example : (readHeaders ([0x4D, 0x4D] ++ exampleCab) 2 false).toOption.map (·.files.length) = some 1 := by
  decide

-- … and the completeness theorem's premises hold for it: the filler "MM" contains no signature, the cabinet parses, its
-- length fields are plausible
example : ¬ sig <:+: ([0x4D, 0x4D] : Bytes) ∧ (readHeaders ([0x4D, 0x4D] ++ exampleCab) 2 false).toOption.isSome = true ∧
    plausible ([0x4D, 0x4D] ++ exampleCab).length false ⟨2, u32At exampleCab 8, u32At exampleCab 16⟩ = true := by
  refine ⟨?_, by decide, by decide⟩
  rintro ⟨s, t, h⟩
  have := congrArg List.length h
  simp [sig] at this
  omega

end MsPack.Cab
