import Proofs.Lemmas.OabApiLedger
/-
C09 (everything acquired is released, on every path) and the handle half of C20 (callbacks only on
live handles, in the mode they were opened with; nothing freed or closed twice) for the OAB
decompressor, proved on the effect model `MsPack/Oab/Api.lean` (oabd.c + the allocation skeleton of
lzxd_init / lzxd_free + the read of lzxd_set_reference_data, over the instrumented system
`MsPack/Sys.lean`).

Quantifiers: every program a client can write against one decompressor (`Op` lists: `decompress`,
`decompress_incremental`, `set_param` in any order and number), every world — any file contents
(hence any header, any sequence of stored and LZX blocks, any junk, missing files, input = base =
output), any open handles and live blocks of the client's own, and *any fault plan* (any set of
failing alloc / open / read / write calls) — every fuel, and every LZX decoder body
(`lzxd_decompress` over `oabd_sys`) that satisfies the frame law `Lawful`: run with a live input
and a live output handle it leaves the ledger as it was, whatever it returns for its status, for
`in_ofh.available` and for `out_ofh.crc`.  `some ()` excludes only runs in which a loop ran out of
fuel, which is not a return of the C function (termination is C04's business).
-/
namespace MsPack.Oab
open MsPack MsPack.Sys MsPack.Oab.Api
open MsPack.Szdd.Api (Frame ok_add_alloc)
open MsPack.Kwaj.Api (FrameLaw Keeps)

/-- create; any client program; destroy: the ledger is back where it started and no misuse of the
    interface was recorded on the way -/
theorem C09_oab_ledger_restored (body : Body) (hb : Lawful body) (fuel : Nat) (ops : List Op) (w : World)
    (hok : w.view.ok) (hret : (program body fuel ops w).1 = some ()) :
    (program body fuel ops w).2.liveAllocs = w.liveAllocs ∧
    (program body fuel ops w).2.liveHandles.map (fun h => (h.id, h.mode)) = w.liveHandles.map (fun h => (h.id, h.mode)) ∧
    (program body fuel ops w).2.misuse = w.misuse := by
  suffices h : Frame w.view (program body fuel ops w).2 from ⟨h.allocs, h.handles, h.misuse⟩
  have p : Plus w.view [] [] w := Plus.of_view_eq hok rfl
  unfold program at hret ⊢
  unfold create at hret ⊢
  simp only [bind_apply] at hret ⊢
  cases ha : (alloc w).1 with
  | none =>
    simp only [pure_apply]
    exact (p.alloc_none ha).frame
  | some a =>
    rw [ha] at hret
    simp only [pure_apply, bind_apply] at hret ⊢
    have p1 := p.alloc_some ha
    have hr := runOps_spec body hb fuel ops (alloc w).2.view p1.ok ⟨a, 4096⟩ (alloc w).2 rfl
    generalize runOps body fuel ops ⟨a, 4096⟩ (alloc w).2 = q at hr hret
    obtain ⟨r1, w1⟩ := q
    simp only at hr hret ⊢
    match r1 with
    | none => simp only [pure_apply] at hret; cases hret
    | some i1 =>
      simp only [bind_apply, pure_apply]
      have p2 : Plus (alloc w).2.view [] [] w1 := hr
      exact ((p1.step p2.frame).free_top).frame

/-- from an empty ledger (a fresh process): nothing is live afterwards, nothing was misused -/
theorem C09_oab_nothing_left (body : Body) (hb : Lawful body) (fuel : Nat) (ops : List Op)
    (files : List (String × Bytes)) (plan : List (Kind × Nat))
    (hret : (program body fuel ops { files := files, plan := plan }).1 = some ()) :
    (program body fuel ops { files := files, plan := plan }).2.liveAllocs = [] ∧
    (program body fuel ops { files := files, plan := plan }).2.liveHandles = [] ∧
    (program body fuel ops { files := files, plan := plan }).2.misuse = [] := by
  have hok : ({ files := files, plan := plan } : World).view.ok :=
    ⟨fun _ h => (nomatch h), fun _ h => (nomatch h), List.nodup_nil⟩
  obtain ⟨h1, h2, h3⟩ := C09_oab_ledger_restored body hb fuel ops _ hok hret
  exact ⟨h1, by simpa using h2, h3⟩

/-! ## the hypotheses can be met -/

/-- a body that does nothing (consumes no input, produces no output, CRC 0) satisfies the frame law -/
def trivialBody : Body := fun a _ _ => pure ⟨.ok, a.available, 0⟩

theorem trivialBody_lawful : Lawful trivialBody := fun _ _ _ w _ _ _ => Frame.refl w

/-- so does a body that really uses its handles the way `oabd_sys_read` / `oabd_sys_write` do: one
    clamped read of the input, one write of what was read, CRC of the accepted bytes -/
def pumpBody : Body := fun a inFh outFh => do
  match ← read inFh (if a.inbufSize > a.available then a.available else a.inbufSize) with
  | none => return ⟨.read, a.available, 0xffffffff⟩
  | some bs =>
    match ← write outFh bs with
    | none => return ⟨.write, a.available - bs.length, 0xffffffff⟩
    | some _ => return ⟨.ok, a.available - bs.length, crc32 0xffffffff bs⟩

theorem pumpBody_lawful : Lawful pumpBody := by
  intro a inFh outFh w hok hin hout
  have hk : Keeps w.view (do let r ← pumpBody a inFh outFh; pure r.err) := by
    refine Keeps.bind ?_ fun _ => Keeps.pure _
    unfold pumpBody
    refine Keeps.bind (Keeps.read hok inFh _ hin) fun r => ?_
    cases r with
    | none => exact Keeps.pure _
    | some bs =>
      refine Keeps.bind (Keeps.write hok outFh _ hout) fun r2 => ?_
      cases r2 <;> exact Keeps.pure _
  exact Frame.of_view_eq (hk w rfl)

def w32 (n : Nat) : Bytes := [n % 256, n / 256 % 256, n / 65536 % 256, n / 16777216 % 256].map (·.toUInt8)

/-- a full-download OAB file (block_max 100, target size 7) with two stored blocks: 1 2 3 4 and 5 6 7 -/
def storedFile : Bytes :=
  w32 3 ++ w32 1 ++ w32 100 ++ w32 7 ++
  w32 0 ++ w32 4 ++ w32 4 ++ w32 0 ++ [1, 2, 3, 4] ++
  w32 0 ++ w32 3 ++ w32 3 ++ w32 0 ++ [5, 6, 7]

/-- a full-download OAB file with one LZX block (4 bytes compressed, 7 bytes target, CRC field 0) -/
def lzxFile : Bytes :=
  w32 3 ++ w32 1 ++ w32 100 ++ w32 7 ++
  w32 1 ++ w32 4 ++ w32 7 ++ w32 0 ++ [9, 9, 9, 9]

/-- a patch file (version 3.2, block_max 100, target size 7) with one block: 4 bytes of patch,
    7 bytes of target, 4 bytes of source, CRC field 0 -/
def patchFile : Bytes :=
  w32 3 ++ w32 2 ++ w32 100 ++ w32 4 ++ w32 7 ++ w32 0 ++ w32 0 ++
  w32 4 ++ w32 7 ++ w32 4 ++ w32 0 ++ [9, 9, 9, 9]

/-- non-vacuity: a program over both API functions that returns, on a world where faults are planned
    and fire: the 2nd write is the second stored block of the first step (MSPACK_ERR_WRITE with both
    handles and `buf` live), the 5th allocation is the LZX window of the third step (`lzxd_init`
    still asks for the input buffer, then frees what it got), the 10th read is the reference data of
    the patch block (`lzxd_set_reference_data` fails with the stream live: it is freed at `out:`),
    and the last step names a file that does not exist -/
example : (program trivialBody 100
            [.decompress "x" "o1", .setParam 0 16, .decompress "l" "o2", .decompressIncremental "p" "x" "o3",
             .decompress "x" "o4", .decompressIncremental "p" "x" "x", .decompress "missing" "o5"]
            { files := [("x", storedFile), ("l", lzxFile), ("p", patchFile)],
              plan := [(.write, 2), (.alloc, 5), (.read, 10)] }).1 = some () := by decide +kernel

/-- the three planned faults are met where the comment above says: the statuses of the single calls -/
example :
    (Api.decompress trivialBody ⟨0, 4096⟩ "x" "o" 100 { files := [("x", storedFile)], nextId := 1, plan := [(.write, 2)] }).1
      = some .write ∧
    (Api.decompress trivialBody ⟨0, 4096⟩ "l" "o" 100 { files := [("l", lzxFile)], nextId := 1, plan := [(.alloc, 3)] }).1
      = some .nomemory ∧
    (Api.decompressIncremental trivialBody ⟨0, 4096⟩ "p" "x" "o" 100
      { files := [("x", storedFile), ("p", patchFile)], nextId := 1, plan := [(.read, 3)] }).1 = some .read ∧
    (Api.decompress pumpBody ⟨0, 4096⟩ "l" "o" 100 { files := [("l", lzxFile)], nextId := 1 }).1 = some .checksum := by
  decide +kernel

/-- and on the fault-free world the stored blocks really are copied, with `buf` and the two handles
    live during the loop (here: what `lzxd_init` leaves on top of them for an LZX block) -/
example :
    (Api.decompress trivialBody ⟨0, 4096⟩ "x" "o" 100 { files := [("x", storedFile)], nextId := 1 }).1 = some .ok ∧
    (Api.decompress trivialBody ⟨0, 4096⟩ "x" "o" 100 { files := [("x", storedFile)], nextId := 1 }).2.files.lookup "o"
      = some [1, 2, 3, 4, 5, 6, 7] ∧
    (lzxdInit 17 4096 { nextId := 4, liveAllocs := [3] }).2.liveAllocs = [6, 5, 4, 3] := by
  decide +kernel

end MsPack.Oab
