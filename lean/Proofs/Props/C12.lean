import Proofs.Lemmas.Checksum
/-!
# C12 — checksummed data is never accepted after being altered (CAB part, block level)

`blockCheck ck sizes payload` is the test `cabd_sys_read_block` applies (model in
`MsPack/Cab/Checksum.lean`, tied to `cabd_checksum` by the `prim cksum` correspondence and to the
block reader by the `cab.corrupt` family).  Strict mode lets a block through iff it is `true`.
-/
namespace MsPack.Cab
open MsPack

/-- one altered payload byte ⇒ the block is refused -/
theorem C12_payload_altered (ck : Nat) (sizes payload : Bytes) (i : Nat) (v : UInt8)
    (hck : ck ≠ 0) (hok : blockCheck ck sizes payload = true)
    (h : i < payload.length) (hv : v ≠ payload[i]) :
    blockCheck ck sizes (payload.set i v) = false := by
  simp only [blockCheck, Bool.or_eq_true, beq_iff_eq, Bool.or_eq_false_iff, beq_eq_false_iff_ne] at *
  refine ⟨hck, ?_⟩
  rcases hok with h0 | hok
  · exact absurd h0 hck
  · intro hc
    rw [← hok, cksum_seed sizes, cksum_seed sizes (cksum payload 0)] at hc
    exact cksum_set_ne payload i v 0 h hv (xor_right_cancel hc)

/-- one altered byte of the size fields (this covers both bytes of the uncompressed-size field,
    `sizes[2]`, `sizes[3]`; the payload read is the same) ⇒ the block is refused -/
theorem C12_sizes_altered (ck : Nat) (sizes payload : Bytes) (i : Nat) (v : UInt8)
    (hck : ck ≠ 0) (hok : blockCheck ck sizes payload = true)
    (h : i < sizes.length) (hv : v ≠ sizes[i]) :
    blockCheck ck (sizes.set i v) payload = false := by
  simp only [blockCheck, Bool.or_eq_true, beq_iff_eq, Bool.or_eq_false_iff, beq_eq_false_iff_ne] at *
  refine ⟨hck, ?_⟩
  rcases hok with h0 | hok
  · exact absurd h0 hck
  · intro hc
    rw [← hok] at hc
    exact cksum_set_ne sizes i v _ h hv hc

/-- an altered stored checksum is either refused, or it became 0 ("no checksum") — in which case
    the data handed on is the untouched original -/
theorem C12_stored_altered (ck ck' : Nat) (sizes payload : Bytes)
    (hck : ck ≠ 0) (hok : blockCheck ck sizes payload = true) (hne : ck' ≠ ck) :
    blockCheck ck' sizes payload = true → ck' = 0 := by
  simp only [blockCheck, Bool.or_eq_true, beq_iff_eq] at *
  rcases hok with h0 | hok
  · exact absurd h0 hck
  · rintro (h | h)
    · exact h
    · exact absurd (h.symm.trans hok) hne

/-- the raw statement about `cabd_checksum` itself, every seed -/
theorem C12_cksum_single_byte (d : Bytes) (i : Nat) (v : UInt8) (seed : Nat)
    (h : i < d.length) (hv : v ≠ d[i]) : cksum (d.set i v) seed ≠ cksum d seed :=
  cksum_set_ne d i v seed h hv

-- non-vacuity: a concrete checksummed block passes, so the hypotheses are satisfiable
example : blockCheck (cksum [5, 0, 5, 0] (cksum [1, 2, 3, 4, 5] 0)) [5, 0, 5, 0] [1, 2, 3, 4, 5] = true
    ∧ cksum [5, 0, 5, 0] (cksum [1, 2, 3, 4, 5] 0) ≠ 0 := by decide

end MsPack.Cab
