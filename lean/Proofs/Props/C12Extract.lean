import Proofs.Props.C12
import Proofs.Props.C01
import Proofs.Lemmas.CabDamaged
/-!
# C12 at the level of `extract()`, stored folders

A stored folder whose first blocks are intact and whose next block fails the block reader's test (in particular:
a checksummed block with one byte of its payload, of its uncompressed-size field or of its stored checksum
altered, `C12_payload_altered` / `C12_sizes_altered` / `C12_stored_altered`).  In strict mode `extract()` of any
member either lies wholly in the intact blocks and yields exactly its original bytes, or reports an error: the
refusal of the block reader travels through the feeder, the stored decoder and both phases of `cabd_extract`
to the caller.  It never returns MSPACK_ERR_OK with other content.
-/
namespace MsPack.Cab
open MsPack MsPack.Generated
open MsPack.Oab (enc32 read_prefix readExact_prefix drop_after ofNat_toNat_lt)

/-- the block reader on a block that fails `blockCheck` (or whose uncompressed-size field is out of range):
    refused, with CHECKSUM or DATAFORMAT, before anything else is looked at -/
theorem badTail_of_refused (files : Files) (L : Lay) (ck : Nat) (us payload rest : Bytes)
    (hck : ck < 4294967296) (hus : us.length = 2) (hpl : payload.length ≤ 32768)
    (htail : L.tail = enc32 ck ++ (enc16 payload.length ++ us) ++ payload ++ rest)
    (href : blockCheck ck (enc16 payload.length ++ us) payload = false) :
    ∃ e, e ≠ .ok ∧ BadTail files L e := by
  have hdrf : (enc32 ck ++ (enc16 payload.length ++ us)).length = 8 := by simp [enc32, enc16, hus]
  have f0 : u32At (enc32 ck ++ (enc16 payload.length ++ us)) 0 = ck := by
    have := u32_enc32 ck hck [] (enc16 payload.length ++ us)
    simpa using this
  have f4 : u16At (enc32 ck ++ (enc16 payload.length ++ us)) 4 = payload.length := by
    have := u16_enc16 payload.length (by omega) (enc32 ck) us
    simpa [enc32, List.append_assoc] using this
  have fdrop : (enc32 ck ++ (enc16 payload.length ++ us)).drop 4 = enc16 payload.length ++ us := rfl
  simp only [blockCheck, Bool.or_eq_false_iff, beq_eq_false_iff_ne] at href
  by_cases hbig : u16At (enc32 ck ++ (enc16 payload.length ++ us)) 6 > cabBLOCKMAX
  · refine ⟨.dataformat, by decide, ?_⟩
    intro pos fuel part more hres hd
    have hd1 : L.file.drop pos = (enc32 ck ++ (enc16 payload.length ++ us)) ++ (payload ++ rest) := by
      rw [hd, htail]; simp [List.append_assoc]
    have hre := readExact_prefix L.file pos _ _ hd1
    rw [hdrf] at hre
    rw [readBlock.eq_def]
    simp only [hre, hres, ne_eq, not_true_eq_false, ↓reduceIte]
    generalize enc32 ck ++ (enc16 payload.length ++ us) = hdr at f0 f4 fdrop hbig
    simp only [f4, List.length_nil, Nat.zero_add]
    have c2 : ¬(payload.length > cabINPUTMAX ∧ (True ∨ payload.length > cabINPUTMAX_SALVAGE)) := by
      simp only [cabINPUTMAX]; omega
    simp only [↓reduceIte, hbig, Bool.not_false, and_self]
    rw [if_neg c2]
    exact ⟨_, _, rfl⟩
  · refine ⟨.checksum, by decide, ?_⟩
    intro pos fuel part more hres hd
    have hd1 : L.file.drop pos = (enc32 ck ++ (enc16 payload.length ++ us)) ++ (payload ++ rest) := by
      rw [hd, htail]; simp [List.append_assoc]
    have hre := readExact_prefix L.file pos _ _ hd1
    rw [hdrf] at hre
    have hd2 := drop_after L.file pos _ _ hd1
    rw [hdrf] at hd2
    have hre2 := readExact_prefix L.file (pos + 8) payload rest hd2
    rw [readBlock.eq_def]
    simp only [hre, hres, ne_eq, not_true_eq_false, ↓reduceIte]
    generalize enc32 ck ++ (enc16 payload.length ++ us) = hdr at f0 f4 fdrop hbig
    simp only [f0, f4, fdrop, List.length_nil, Nat.zero_add, hre2]
    have c2 : ¬(payload.length > cabINPUTMAX ∧ (True ∨ payload.length > cabINPUTMAX_SALVAGE)) := by
      simp only [cabINPUTMAX]; omega
    have c3 : ¬(payload.length > cabInputDim) := by simp only [cabInputDim]; omega
    have c4 : ck ≠ 0 ∧ (!false) = true ∧ cksum (enc16 payload.length ++ us) (cksum payload 0) ≠ ck := ⟨href.1, rfl, href.2⟩
    simp only [c3, c4, hbig, ↓reduceIte, Bool.not_false, and_self, and_true, not_false_eq_true]
    rw [if_neg c2]
    exact ⟨_, _, rfl⟩

/-- **strict mode, stored folder, a refused block after `pre` intact ones**: a member that needs bytes beyond the
    intact blocks is answered with an error -/
theorem C12_stored_extract_beyond (files : Files) (fname : String) (bytes : Bytes) (hlook : files.lookup fname = some bytes)
    (off : Nat) (pre : List DataBlk) (hwf : ∀ b ∈ pre, b.wf) (tail : Bytes)
    (hd : bytes.drop off = pre.flatMap encData ++ tail)
    (e : Err) (he : e ≠ .ok) (hbad : BadTail files ⟨bytes, tail, pre.length⟩ e)
    (p : Params) (hbs : 0 < p.bufSize) (hstrict : p.salvage = false) (key o l : Nat) (nblocks : Nat) (hnb : pre.length < nblocks)
    (hmax : o + l ≤ cabLENGTHMAX) (hdecl : o + l ≤ nblocks * cabBLOCKMAX) (hl : 0 < l)
    (hbeyond : (plainOf pre).length < o + l)
    (ctHigh : Nat) (hct : compMask (ctHigh * 16) = 0) :
    ∃ w d', extract files p none (storedMember fname off nblocks key o l ctHigh) = .done e w d' := by
  have hcheck : memberCheck p (storedMember fname off nblocks key o l ctHigh) = .ok (l, key) := by
    simp only [cabLENGTHMAX] at hmax
    simp only [cabBLOCKMAX] at hdecl
    have a1 : ¬(o > 2147450880) := by omega
    have a2 : ¬(l > 2147450880 - o) := by omega
    have a3 : ¬(o > nblocks * 32768) := by omega
    have a4 : ¬(l > nblocks * 32768 - o) := by omega
    simp only [memberCheck, storedMember, cabLENGTHMAX, cabBLOCKMAX, a1, a2, a3, a4, ↓reduceIte, decide_false, Bool.false_eq_true,
      false_and, or_self, and_false]
  let fd0 : Feeder := { rd := some ⟨bytes, off⟩, parts := [⟨fname, 0, off⟩], block := 0, numBlocks := nblocks, outlen := 0, buf := [],
                        compType := ctHigh * 16, readError := .ok, lzxLen := none, salvage := p.salvage, fixMszip := p.fixMszip }
  have hfresh : obtainDState files p none (storedMember fname off nblocks key o l ctHigh) key =
      .ok { folder := key, offset := 0, dec := some (.none p.bufSize .ok), feeder := fd0 } := by
    unfold obtainDState freshDState storedMember
    simp only [hlook, Option.map_some, initDec, hct]
    rfl
  have inv0 : FeedInv ⟨bytes, tail, pre.length⟩ fd0 pre (plainOf pre) :=
    ⟨⟨off, rfl, hd⟩, ⟨⟨fname, 0, off⟩, [], rfl, rfl⟩, ⟨by simp [fd0], Nat.le_of_lt hnb⟩, hct, hwf, by simp [fd0]⟩
  unfold extract
  rw [hcheck]; simp only; rw [hfresh]; simp only
  unfold runPhases
  simp only [storedMember]
  rw [if_neg (by omega)]
  simp only [Nat.sub_zero]
  by_cases ho : o = 0
  · subst ho
    obtain ⟨w, ds', h⟩ := runPhase_bad files _ e hbad { folder := key, offset := 0, dec := some (.none p.bufSize .ok), feeder := fd0 }
      p.bufSize hbs pre (plainOf pre) inv0 hstrict hnb l (by omega)
    simp only [↓reduceIte, h]
    exact ⟨_, _, rfl⟩
  · simp only [ho, ↓reduceIte]
    by_cases hskip : o ≤ (plainOf pre).length
    · obtain ⟨ds1, blks1, e1, inv1, hdec1, _, hn1, hs1, _⟩ := runPhase_stored files _ { folder := key, offset := 0, dec := some (.none p.bufSize .ok), feeder := fd0 }
        p.bufSize hbs pre (plainOf pre) inv0 o hskip
      rw [e1]
      simp only [ne_eq, not_true_eq_false, ↓reduceIte, hdec1]
      obtain ⟨w, ds2, h⟩ := runPhase_bad files _ e hbad ds1 p.bufSize hbs blks1 ((plainOf pre).drop o) inv1 (hs1.trans hstrict)
        (by rw [hn1]; exact hnb) l (by rw [List.length_drop]; omega)
      rw [h]
      exact ⟨_, _, rfl⟩
    · obtain ⟨w, ds1, h⟩ := runPhase_bad files _ e hbad { folder := key, offset := 0, dec := some (.none p.bufSize .ok), feeder := fd0 }
        p.bufSize hbs pre (plainOf pre) inv0 hstrict hnb o (by omega)
      rw [h]
      simp only [ne_eq, he, not_false_eq_true, ↓reduceIte]
      exact ⟨_, _, rfl⟩

theorem slice_of_prefix (A B : Bytes) (o l : Nat) (h : o + l ≤ A.length) : ((A ++ B).drop o).take l = (A.drop o).take l := by
  rw [List.drop_append_of_le_length (by omega), List.take_append_of_le_length (by rw [List.length_drop]; omega)]

/-- **C12 for stored folders, at the API**: `pre` intact blocks, then a block that fails the block reader's test,
    then anything.  Strict mode, any DECOMPBUF ≥ 1, any member whose declared extent the folder's block count admits:
    `extract()` answers OK with exactly the member's original bytes (it lies in the intact blocks) or answers with
    an error.  `orig` is what the folder held before the damage: the intact payloads, then anything. -/
theorem C12_stored_extract_refused (files : Files) (fname : String) (bytes : Bytes) (hlook : files.lookup fname = some bytes)
    (off : Nat) (pre : List DataBlk) (hwf : ∀ b ∈ pre, b.wf) (ck : Nat) (us payload rest more : Bytes)
    (hck : ck < 4294967296) (hus : us.length = 2) (hpl : payload.length ≤ 32768)
    (hd : bytes.drop off = pre.flatMap encData ++ (enc32 ck ++ (enc16 payload.length ++ us) ++ payload ++ rest))
    (href : blockCheck ck (enc16 payload.length ++ us) payload = false)
    (p : Params) (hbs : 0 < p.bufSize) (hstrict : p.salvage = false) (key o l : Nat) (nblocks : Nat) (hnb : pre.length < nblocks)
    (hmax : o + l ≤ cabLENGTHMAX) (hdecl : o + l ≤ nblocks * cabBLOCKMAX)
    (ctHigh : Nat) (hct : compMask (ctHigh * 16) = 0) :
    (∃ d', extract files p none (storedMember fname off nblocks key o l ctHigh) =
        .done .ok (some (((plainOf pre ++ more).drop o).take l)) d') ∨
    (∃ e w d', e ≠ .ok ∧ extract files p none (storedMember fname off nblocks key o l ctHigh) = .done e w d') := by
  by_cases hin : o + l ≤ (plainOf pre).length
  · left
    obtain ⟨d', h⟩ := C01_stored_extract files fname bytes hlook off pre hwf _ hd p hbs key o l hin hmax ctHigh hct nblocks (Nat.le_of_lt hnb)
    exact ⟨d', by rw [h, slice_of_prefix _ _ _ _ hin]⟩
  · by_cases hl : l = 0
    · -- nothing to extract: OK with no bytes, which is the member
      subst hl; left
      have hcheck : memberCheck p (storedMember fname off nblocks key o 0 ctHigh) = .ok (0, key) := by
        simp only [cabLENGTHMAX] at hmax
        simp only [cabBLOCKMAX] at hdecl
        have a1 : ¬(o > 2147450880) := by omega
        have a3 : ¬(o > nblocks * 32768) := by omega
        simp only [memberCheck, storedMember, cabLENGTHMAX, cabBLOCKMAX, a1, a3, ↓reduceIte, Bool.false_eq_true,
          false_and, or_self, and_false, Nat.not_lt_zero, gt_iff_lt]
      have hfresh : ∃ fd0, obtainDState files p none (storedMember fname off nblocks key o 0 ctHigh) key =
          .ok { folder := key, offset := 0, dec := some (.none p.bufSize .ok), feeder := fd0 } := by
        unfold obtainDState freshDState storedMember
        simp only [hlook, Option.map_some, initDec, hct]
        exact ⟨_, rfl⟩
      obtain ⟨fd0, hfresh⟩ := hfresh
      unfold extract
      rw [hcheck]; simp only; rw [hfresh]; simp only
      unfold runPhases
      simp
    · right
      obtain ⟨e, he, hbad⟩ := badTail_of_refused files ⟨bytes, _, pre.length⟩ ck us payload rest hck hus hpl rfl href
      obtain ⟨w, d', h⟩ := C12_stored_extract_beyond files fname bytes hlook off pre hwf _ hd e he hbad p hbs hstrict key o l nblocks hnb
        hmax hdecl (by omega) (by omega) ctHigh hct
      exact ⟨e, w, d', he, h⟩

theorem blockCheck_of_wf (b : DataBlk) (hb : b.wf) (hck : b.ck ≠ 0) :
    blockCheck b.ck (enc16 b.payload.length ++ enc16 b.payload.length) b.payload = true := by
  rcases hb.2.2.2 with h | h
  · exact absurd h hck
  · simp only [blockCheck, Bool.or_eq_true, beq_iff_eq]; right; exact h.symm

/-- one altered payload byte of a checksummed block of a stored folder: every `extract()` in strict mode yields the
    member's original bytes or an error -/
theorem C12_extract_payload_byte (files : Files) (fname : String) (bytes : Bytes) (hlook : files.lookup fname = some bytes)
    (off : Nat) (pre : List DataBlk) (hwf : ∀ b ∈ pre, b.wf) (b : DataBlk) (hb : b.wf) (hbck : b.ck ≠ 0)
    (i : Nat) (v : UInt8) (hi : i < b.payload.length) (hv : v ≠ b.payload[i]) (rest more : Bytes)
    (hd : bytes.drop off = pre.flatMap encData ++ (encData ⟨b.payload.set i v, b.ck⟩ ++ rest))
    (p : Params) (hbs : 0 < p.bufSize) (hstrict : p.salvage = false) (key o l : Nat) (nblocks : Nat) (hnb : pre.length < nblocks)
    (hmax : o + l ≤ cabLENGTHMAX) (hdecl : o + l ≤ nblocks * cabBLOCKMAX)
    (ctHigh : Nat) (hct : compMask (ctHigh * 16) = 0) :
    (∃ d', extract files p none (storedMember fname off nblocks key o l ctHigh) =
        .done .ok (some (((plainOf pre ++ (b.payload ++ more)).drop o).take l)) d') ∨
    (∃ e w d', e ≠ .ok ∧ extract files p none (storedMember fname off nblocks key o l ctHigh) = .done e w d') := by
  have hlen : (b.payload.set i v).length = b.payload.length := List.length_set ..
  have href := C12_payload_altered b.ck (enc16 b.payload.length ++ enc16 b.payload.length) b.payload i v hbck
    (blockCheck_of_wf b hb hbck) hi hv
  refine C12_stored_extract_refused files fname bytes hlook off pre hwf b.ck (enc16 b.payload.length) (b.payload.set i v) rest _
    hb.2.2.1 (by simp [enc16]) (by rw [hlen]; exact hb.2.1) ?_ (by rw [hlen]; exact href) p hbs hstrict key o l nblocks hnb hmax hdecl ctHigh hct
  rw [hd]; simp only [encData, hlen, List.append_assoc]

/-- one altered byte of the uncompressed-size field -/
theorem C12_extract_usize_byte (files : Files) (fname : String) (bytes : Bytes) (hlook : files.lookup fname = some bytes)
    (off : Nat) (pre : List DataBlk) (hwf : ∀ b ∈ pre, b.wf) (b : DataBlk) (hb : b.wf) (hbck : b.ck ≠ 0)
    (j : Nat) (v : UInt8) (hj : j < 2) (hv : v ≠ (enc16 b.payload.length)[j]'(by simpa [enc16] using hj)) (rest more : Bytes)
    (hd : bytes.drop off = pre.flatMap encData ++
      (enc32 b.ck ++ (enc16 b.payload.length ++ (enc16 b.payload.length).set j v) ++ b.payload ++ rest))
    (p : Params) (hbs : 0 < p.bufSize) (hstrict : p.salvage = false) (key o l : Nat) (nblocks : Nat) (hnb : pre.length < nblocks)
    (hmax : o + l ≤ cabLENGTHMAX) (hdecl : o + l ≤ nblocks * cabBLOCKMAX)
    (ctHigh : Nat) (hct : compMask (ctHigh * 16) = 0) :
    (∃ d', extract files p none (storedMember fname off nblocks key o l ctHigh) =
        .done .ok (some (((plainOf pre ++ (b.payload ++ more)).drop o).take l)) d') ∨
    (∃ e w d', e ≠ .ok ∧ extract files p none (storedMember fname off nblocks key o l ctHigh) = .done e w d') := by
  have h2 : (enc16 b.payload.length).length = 2 := by simp [enc16]
  have href := C12_sizes_altered b.ck (enc16 b.payload.length ++ enc16 b.payload.length) b.payload (2 + j) v hbck
    (blockCheck_of_wf b hb hbck) (by simp [enc16]; omega)
    (by rw [List.getElem_append_right (by omega)]; simpa [h2] using hv)
  have hset : (enc16 b.payload.length ++ enc16 b.payload.length).set (2 + j) v =
      enc16 b.payload.length ++ (enc16 b.payload.length).set j v := by
    rw [List.set_append_right _ _ (by omega)]; simp [h2]
  rw [hset] at href
  exact C12_stored_extract_refused files fname bytes hlook off pre hwf b.ck ((enc16 b.payload.length).set j v) b.payload rest _
    hb.2.2.1 (by simp [enc16]) hb.2.1 hd href p hbs hstrict key o l nblocks hnb hmax hdecl ctHigh hct

/-- the premises are satisfiable: one intact block, then a checksummed block with its third payload byte altered -/
example : (⟨[1, 2, 3, 4, 5], cksum (enc16 5 ++ enc16 5) (cksum [1, 2, 3, 4, 5] 0)⟩ : DataBlk).wf ∧
    cksum (enc16 5 ++ enc16 5) (cksum [1, 2, 3, 4, 5] 0) ≠ 0 ∧ (9 : UInt8) ≠ ([1, 2, 3, 4, 5] : Bytes)[2] := by
  refine ⟨⟨by decide, by decide, by decide, Or.inr rfl⟩, by decide, by decide⟩

end MsPack.Cab
