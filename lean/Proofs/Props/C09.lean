import Proofs.Lemmas.SzddApiLedger
/-
C09 (everything acquired is released, on every path) and the handle half of C20 (callbacks only on
live handles, in the mode they were opened with; nothing freed or closed twice) for the SZDD
decompressor, proved on the effect model `MsPack/Szdd/Api.lean` (szddd.c + lzssd.c over the
instrumented system `MsPack/Sys.lean`).

Quantifiers: every program a client can write against one decompressor (`Op` lists: one-shot
decompress, or open / any number of extracts / close), every world — any file contents, any open
handles and live blocks of the client's own, and *any fault plan* (any set of failing alloc / open /
read / write / seek calls) — and every fuel.  `some ()` excludes only runs whose LZSS loop ran out of
fuel, which is not a return of the C function (termination is C04's business).
-/
namespace MsPack.Szdd
open MsPack MsPack.Sys MsPack.Szdd.Api

/-- create; any client program; destroy: the ledger is back where it started and no misuse of the
    interface was recorded on the way -/
theorem C09_szdd_ledger_restored (fuel : Nat) (ops : List Op) (w : World) (hok : w.view.ok)
    (hret : (program fuel ops w).1 = some ()) :
    (program fuel ops w).2.liveAllocs = w.liveAllocs ∧
    (program fuel ops w).2.liveHandles.map (fun h => (h.id, h.mode)) = w.liveHandles.map (fun h => (h.id, h.mode)) ∧
    (program fuel ops w).2.misuse = w.misuse := by
  suffices h : Frame w.view (program fuel ops w).2 from ⟨h.allocs, h.handles, h.misuse⟩
  unfold program at hret ⊢
  simp only [bind_apply] at hret ⊢
  unfold create
  simp only [bind_apply]
  rcases alloc_spec w with ⟨a1, a2⟩ | ⟨a1, a2⟩
  · rw [a1]; simp only [pure_apply]; exact Frame.of_view_eq a2
  · unfold create at hret
    simp only [bind_apply] at hret
    rw [a1] at hret ⊢
    simp only [pure_apply, bind_apply] at hret ⊢
    have hok1 : (alloc w).2.view.ok := by rw [a2]; exact ok_add_alloc hok
    have hr := runOps_spec fuel ops (alloc w).2.view hok1 ⟨w.nextId, .ok⟩ (alloc w).2 rfl
    generalize runOps fuel ops ⟨w.nextId, .ok⟩ (alloc w).2 = p at hr hret
    obtain ⟨r1, w1⟩ := p
    simp only at hr hret ⊢
    match r1 with
    | none => simp only [pure_apply] at hret; cases hret
    | some i1 =>
      simp only [bind_apply, pure_apply]
      have f1 := hr _ rfl
      unfold destroy
      have hmem : w.nextId ∈ w1.view.allocs := by rw [f1.allocs, a2]; simp
      have hf := free_live_view w1 w.nextId hmem
      refine ⟨?_, ?_, ?_, ?_⟩
      · show (free (some w.nextId) w1).2.view.allocs = _
        rw [hf]; simp only; rw [f1.allocs, a2]; simp
      · show (free (some w.nextId) w1).2.view.handles = _
        rw [hf]; simp only; rw [f1.handles, a2]
      · show (free (some w.nextId) w1).2.view.misuse = _
        rw [hf]; simp only; rw [f1.misuse, a2]
      · show _ ≤ (free (some w.nextId) w1).2.view.nextId
        rw [hf]; simp only
        have := f1.nextId; rw [a2] at this; simp only at this
        have h0 : w.view.nextId = w.nextId := rfl
        omega

/-- from an empty ledger (a fresh process): nothing is live afterwards, nothing was misused -/
theorem C09_szdd_nothing_left (fuel : Nat) (ops : List Op) (files : List (String × Bytes)) (plan : List (Kind × Nat))
    (hret : (program fuel ops { files := files, plan := plan }).1 = some ()) :
    (program fuel ops { files := files, plan := plan }).2.liveAllocs = [] ∧
    (program fuel ops { files := files, plan := plan }).2.liveHandles = [] ∧
    (program fuel ops { files := files, plan := plan }).2.misuse = [] := by
  have hok : ({ files := files, plan := plan } : World).view.ok :=
    ⟨fun _ h => (nomatch h), fun _ h => (nomatch h), List.nodup_nil⟩
  obtain ⟨h1, h2, h3⟩ := C09_szdd_ledger_restored fuel ops _ hok hret
  exact ⟨h1, by simpa using h2, h3⟩

/-- non-vacuity: a program that returns, on a world where a fault is planned and fires -/
example : (program 100 [.decompress "a" "b", .session "a" ["c", "d"]]
            { files := [("a", (Generated.szddSignatureExpand.map UInt8.ofNat) ++ [0x41, 0, 3, 0, 0, 0, 0xFF, 1, 2, 3])],
              plan := [(.write, 5)] }).1 = some () := by decide +kernel

end MsPack.Szdd
