import Lean
import Proofs.Props.C18ExtractLift
/-!
# C18 — the LZX decoder under relaxed feeder flags

`Lzx.C18_lzx_decompress_relaxed`: an `lzxd_decompress` call that returns MSPACK_ERR_OK over a strict-mode CAB feeder
returns MSPACK_ERR_OK with the same bytes over a feeder that differs only in the SALVAGE / FIXMSZIP flags (and the
`read_error` bookkeeping); the decoder states stay related (`LR`: equal up to the feeder inside), so this holds along
any sequence of OK calls.  Completes the `Rel2 LR` walk of `RelaxSimLzx.lean` (`frameBody`, `frameLoop`,
`decompress`).

Not done here: extending `DecR` (`RelaxSimCab.lean`) to `.lzx` and re-running the `extract` plumbing of
`C18ExtractLift.lean` so that `C18_cab_extract_relaxed` / `C18_cab_session_relaxed` cover LZX folders (their
`compMask m.compType ≤ 1` enters only through `initDec_rel` and `DecR`); Quantum: no walk yet.
-/
set_option linter.unusedSimpArgs false
namespace MsPack.CountLaws.Relax
open MsPack MsPack.Cab MsPack.Lzx
variable (files : Files)
local notation "LS" => feederSrc files
local notation "LL" => Rel2 LR

open Lean Elab Tactic Meta in
/-- `lr_norm`, and `outSlice` of the second state rewritten to the first's -/
elab "lr_norm2" : tactic => withMainContext do
  for d in (← getLCtx).decls.toList.reverse.filterMap id do
    if d.isImplementationDetail then continue
    let ty ← instantiateMVars d.type
    if ty.isAppOf ``LR && ty.appArg!.isFVar then
      let h ← Term.exprToSyntax d.toExpr
      evalTactic (← `(tactic| (obtain ⟨_, _, h'⟩ := $h; subst h'; try dsimp -zeta only)))
      evalTactic (← `(tactic| try simp -zeta only [lzx_outSlice_src]))
      return
  throwError "lr_norm2: no LR hypothesis"

macro_rules | `(tactic| rel_norm) => `(tactic| lr_norm2)

attribute [local irreducible] Lzx.resetState in
theorem lzx_frameBody_rel (fuel outBytes : Nat) : LL (frameBody LS fuel outBytes) (frameBody LS fuel outBytes) := by
  unfold frameBody
  rel_auto [lzx_ensureBits_rel files, lzx_removeBits_rel, lzx_readBits_rel files, lzx_readInput_rel files,
    lzx_blockLoop_rel files, lzx_fail_rel, lzx_resetState_rel]
  all_goals (try simp_all)
  all_goals (first | exact Rel2.pure _ _ | skip)

def LSame (o1 : DecodeOut (Lzx.St Feeder)) (r : Except Fault (DecodeOut (Lzx.St Feeder))) : Prop :=
  ∃ o2, r = .ok o2 ∧ o2.err = .ok ∧ o2.written = o1.written ∧ LR o1.st o2.st

theorem lzx_frameLoop_relax (fuel endFrame : Nat) : ∀ (n : Nat) (s1 s2 : Lzx.St Feeder) (outBytes : Nat)
    (acc : Array UInt8) (o1 : DecodeOut (Lzx.St Feeder)), LR s1 s2 →
    frameLoop LS fuel endFrame n s1 outBytes acc = .ok o1 → o1.err = .ok →
    LSame o1 (frameLoop LS fuel endFrame n s2 outBytes acc) := by
  intro n
  induction n with
  | zero =>
    intro s1 s2 outBytes acc o1 hr h he
    obtain ⟨fd, hf, rfl⟩ := hr
    rw [frameLoop.eq_1] at h ⊢
    dsimp only at h ⊢
    split at h
    · cases h
    · rename_i h1
      rw [if_neg h1]
      split at h
      · cases h; cases he
      · rename_i h2
        rw [if_neg h2]
        cases h
        exact ⟨_, rfl, rfl, rfl, fd, hf, rfl⟩
  | succ n ih =>
    intro s1 s2 outBytes acc o1 hr h he
    have hr' := hr
    obtain ⟨fd, hf, rfl⟩ := hr
    rw [frameLoop.eq_2] at h ⊢
    dsimp only at h ⊢
    split at h
    · rename_i hc
      rw [if_pos hc]
      split at h
      · cases h
      · rename_i e s heq
        cases h
        exact absurd he ((CountLaws.Lzx.frameBody_throws LS fuel outBytes).out _ _ _ heq)
      · rename_i chunk t1 heq
        obtain ⟨t2, h2, hrt⟩ := (lzx_frameBody_rel files fuel outBytes).out _ _ hr' _ _ heq
        rw [h2]
        exact ih _ _ _ _ _ hrt h he
    · rename_i hc
      rw [if_neg hc]
      split at h
      · cases h; cases he
      · rename_i h2
        rw [if_neg h2]
        cases h
        exact ⟨_, rfl, rfl, rfl, fd, hf, rfl⟩

/-- **LZX under relaxed feeder flags**: an OK call of the decoder over a strict feeder is repeated verbatim over
    an `FR`-related feeder -/
theorem lzx_relax (fuel : Nat) (s1 s2 : Lzx.St Feeder) (n : Nat) (o1 : DecodeOut (Lzx.St Feeder)) (hr : LR s1 s2)
    (h : Lzx.decompress LS fuel s1 n = .ok o1) (he : o1.err = .ok) : LSame o1 (Lzx.decompress LS fuel s2 n) := by
  obtain ⟨fd, hf, rfl⟩ := hr
  unfold Lzx.decompress at h ⊢
  dsimp only at h ⊢
  simp only [lzx_outSlice_src]
  split at h
  · rename_i hne; cases h; exact absurd he hne
  · rename_i hne
    rw [if_neg hne]
    split at h
    · cases h
    · rename_i chunk heq
      try rw [heq]
      try dsimp only at h ⊢
      split at h
      · rename_i h0
        rw [if_pos h0]
        cases h
        exact ⟨_, rfl, rfl, rfl, fd, hf, rfl⟩
      · rename_i h0
        rw [if_neg h0]
        refine lzx_frameLoop_relax files fuel _ _ _ _ _ _ _ ?_ h he
        exact ⟨fd, hf, rfl⟩

end MsPack.CountLaws.Relax

namespace MsPack.Lzx
open MsPack MsPack.Cab MsPack.CountLaws.Relax

/-- **C18, LZX**: an OK `lzxd_decompress` call over a strict feeder is repeated verbatim over a relaxed one -/
theorem C18_lzx_decompress_relaxed (files : Files) (fuel : Nat) (s1 s2 : St Feeder) (n : Nat)
    (o1 : DecodeOut (St Feeder)) (hr : LR s1 s2) (h : decompress (feederSrc files) fuel s1 n = .ok o1)
    (he : o1.err = .ok) :
    ∃ o2, decompress (feederSrc files) fuel s2 n = .ok o2 ∧ o2.err = .ok ∧ o2.written = o1.written ∧ LR o1.st o2.st :=
  lzx_relax files fuel s1 s2 n o1 hr h he

end MsPack.Lzx
