import Proofs.Lemmas.CountLaws
import Proofs.Lemmas.CountLawsQtm
import Proofs.Lemmas.CountLawsRead
import Proofs.Lemmas.CountLawsReadLzx
import Proofs.Lemmas.CountLawsReadQtm
import Proofs.Props.C02Qtm
import Proofs.Props.C07
import Proofs.Props.C07Chm
import Proofs.Props.C02Zip
import Proofs.Props.C02Lzx
/-!
# C07 — the counting laws of the stream decoders

"never more than asked; OK means exactly as many as asked" for one `decompress(state, n)` call:

* **MSZIP** (`Zip.decompress`, the CAB entry point): `≤ n` for every source, fuel and state;
  `= n` on MSPACK_ERR_OK for every state satisfying `ZipInv` (window = the 32 KiB frame; without it
  a frame can be shorter than `bytes_output` says and an OK call comes out short).
* **LZX** (`Lzx.decompress`): both halves for every source, fuel and state — no invariant needed.
* **Quantum** (`Qtm.decompress`): both halves for every source, fuel and state — no invariant needed.

What the laws rest on (`Proofs/Lemmas/CountLaws.lean`, `CountLawsQtm.lean`): the decoders hand a
thrown status back as the call's result, and no `throw`/`fail`/`read_input` site of the models carries
MSPACK_ERR_OK (`Throws HaltOk`, proved by walking every helper of the three decoders); the rest is the
arithmetic of the output loops (Quantum: `Bal T` — written + owed = request — is kept by every step,
the two `writeOut n; out_bytes -= n` sites taken as one step each).

Consequences:
* `cabd_extract` (`C07.lean` is generic over `∀ dec, CountLaw files dec`, which MSZIP does not
  satisfy in *every* state): re-proved over a decoder invariant that `initDec` establishes and
  `decompress` keeps (`CabInv.extract_written_le`), and instantiated with `CabDecOk` (an MSZIP state
  has its window; nothing asked of the others) for **every** compression type.  The upper bound is
  unconditional.  "OK ⇒ complete" (strict mode) needs `ReadErrLaw` (a decoder reporting READ has seen
  the feeder fail), which is a joint property of decoder and feeder; it is proved for **every
  compression type** over the joint invariant `CabJAll` (feeder not in salvage mode, a sticky READ goes
  with `readError ≠ OK`, a real input buffer; `Proofs/Lemmas/CountLawsRead.lean`, `…ReadLzx.lean`,
  `…ReadQtm.lean`): `C07_cab_ok_complete` has no hypothesis on the decoders left, `C07_cab_cache_kept`
  shows the invariant is kept by every `extract`, `C07_cab_fresh_ok_complete` is the no-cache case.
  (`C07_cab_mszip_ok_complete`, over `CabJ`, is the earlier stored + MSZIP instance;
  `C07_cab_ok_complete_partial` the version with `ReadErrLaw` as a hypothesis.)
* `chmd_extract`: `LzxBound` of `C07Chm.lean` is discharged (`C07_chm_written_le_unconditional`).
* `oabd_decompress` / `_incremental`: `LzxCount` of `OabCount.lean` is discharged.
-/

/-! ## MSZIP -/
namespace MsPack.Zip
open MsPack MsPack.CountLaws
variable {σ : Type} (S : Src σ)

/-- (a) `mszipd_decompress(zip, n)` hands at most `n` bytes to `write` — every source, fuel, state -/
theorem C07_mszip_written_le (fuel : Nat) (st : St σ) (n : Nat) (o : Out σ)
    (h : decompress S fuel st n = .ok o) : o.written.length ≤ n :=
  (CountLaws.Zip.decompress_count S fuel st n o h).1

/-- (b) … and exactly `n` if it returns MSPACK_ERR_OK, from every state satisfying the invariant -/
theorem C07_mszip_ok_complete (fuel : Nat) (st : St σ) (n : Nat) (hst : ZipInv st) (o : Out σ)
    (h : decompress S fuel st n = .ok o) (he : o.err = .ok) : o.written.length = n :=
  (CountLaws.Zip.decompress_count S fuel st n o h).2 hst he

/-- contrapositive: a short output is never reported as OK -/
theorem C07_mszip_short_not_ok (fuel : Nat) (st : St σ) (n : Nat) (hst : ZipInv st) (o : Out σ)
    (h : decompress S fuel st n = .ok o) (hl : o.written.length < n) : o.err ≠ .ok :=
  fun he => by have := C07_mszip_ok_complete S fuel st n hst o h he; omega

/-- the status a failed `read_input`/`inflate` hands back is never OK -/
theorem C07_mszip_status_not_ok (fuel : Nat) (st s : St σ) (e : Err)
    (h : (inflate S fuel).run.run st = (.error (.sys e), s)) : e ≠ .ok :=
  (CountLaws.Zip.inflate_throws S fuel).out _ _ _ h

end MsPack.Zip

/-! ## LZX -/
namespace MsPack.Lzx
open MsPack MsPack.CountLaws
variable {σ : Type} (S : Src σ)

/-- (a) `lzxd_decompress(lzx, n)` hands at most `n` bytes to `write` — every source, fuel, state -/
theorem C07_lzx_written_le (fuel : Nat) (st : St σ) (n : Nat) (o : DecodeOut (St σ))
    (h : decompress S fuel st n = .ok o) : o.written.length ≤ n :=
  (CountLaws.Lzx.decompress_count S fuel st n o h).1

/-- (b) … and exactly `n` if it returns MSPACK_ERR_OK — every source, fuel, state -/
theorem C07_lzx_ok_complete (fuel : Nat) (st : St σ) (n : Nat) (o : DecodeOut (St σ))
    (h : decompress S fuel st n = .ok o) (he : o.err = .ok) : o.written.length = n :=
  (CountLaws.Lzx.decompress_count S fuel st n o h).2 he

theorem C07_lzx_short_not_ok (fuel : Nat) (st : St σ) (n : Nat) (o : DecodeOut (St σ))
    (h : decompress S fuel st n = .ok o) (hl : o.written.length < n) : o.err ≠ .ok :=
  fun he => by have := C07_lzx_ok_complete S fuel st n o h he; omega

end MsPack.Lzx

/-! ## Quantum -/
namespace MsPack.Qtm
open MsPack MsPack.CountLaws
variable {σ : Type} (S : Src σ)

/-- (a) `qtmd_decompress(qtm, n)` hands at most `n` bytes to `write` — every source, fuel, state -/
theorem C07_qtm_written_le (fuel : Nat) (st : St σ) (n : Nat) (o : DecodeOut (St σ))
    (h : decompress S fuel st n = .ok o) : o.written.length ≤ n :=
  (CountLaws.Qtm.decompress_count S fuel st n o h).1

/-- (b) … and exactly `n` if it returns MSPACK_ERR_OK — every source, fuel, state -/
theorem C07_qtm_ok_complete (fuel : Nat) (st : St σ) (n : Nat) (o : DecodeOut (St σ))
    (h : decompress S fuel st n = .ok o) (he : o.err = .ok) : o.written.length = n :=
  (CountLaws.Qtm.decompress_count S fuel st n o h).2 he

theorem C07_qtm_short_not_ok (fuel : Nat) (st : St σ) (n : Nat) (o : DecodeOut (St σ))
    (h : decompress S fuel st n = .ok o) (hl : o.written.length < n) : o.err ≠ .ok :=
  fun he => by have := C07_qtm_ok_complete S fuel st n o h he; omega

/-- a status return out of the body of `qtmd_decompress` never carries MSPACK_ERR_OK -/
theorem C07_qtm_status_not_ok (fuel : Nat) (r r' : Run σ) (e : Err)
    (h : (body S fuel).run.run r = (.error (.sys e), r')) : e ≠ .ok :=
  (CountLaws.Qtm.body_throws S fuel).out _ _ _ h

end MsPack.Qtm

/-! ## CAB: every compression type -/
namespace MsPack.Cab
open MsPack MsPack.CountLaws MsPack.CountLaws.CabInv

/-- the decoder states `cabd_extract` meets: an MSZIP state has its 32 KiB window (`ZipInv`); the
    other decoders' counting laws hold in every state -/
def CabDecOk : Dec → Prop
  | .mszip st => Zip.ZipInv st
  | _ => True

theorem C07_count_law_mszip (files : Files) (st : Zip.St Feeder) (hst : Zip.ZipInv st) :
    CountLaw files (.mszip st) := by
  intro fd n o h
  unfold decompress at h
  simp only at h
  split at h
  · cases h
  · rename_i zo hz
    simp only [Except.ok.injEq, Option.some.injEq] at h
    subst h
    have := CountLaws.Zip.decompress_count (feederSrc files) _ _ n zo hz
    exact ⟨this.1, this.2 hst⟩

theorem C07_count_law_lzx (files : Files) (st : Lzx.St Feeder) : CountLaw files (.lzx st) := by
  intro fd n o h
  unfold decompress at h
  simp only at h
  split at h
  · cases h
  · rename_i zo hz
    simp only [Except.ok.injEq, Option.some.injEq] at h
    subst h
    exact CountLaws.Lzx.decompress_count (feederSrc files) _ _ n zo hz

theorem C07_count_law_qtm (files : Files) (st : Qtm.St Feeder) : CountLaw files (.qtm st) := by
  intro fd n o h
  unfold decompress at h
  simp only at h
  split at h
  · cases h
  · rename_i zo hz
    simp only [Except.ok.injEq, Option.some.injEq] at h
    subst h
    exact CountLaws.Qtm.decompress_count (feederSrc files) _ _ n zo hz

theorem C07_count_law_decOk (files : Files) (dec : Dec) (h : CabDecOk dec) : CountLaw files dec := by
  cases dec with
  | none bs e => exact countLaw_none files bs e
  | mszip st => exact C07_count_law_mszip files st h
  | qtm st => exact C07_count_law_qtm files st
  | lzx st => exact C07_count_law_lzx files st
  | unsupported k =>
    intro fd n o h'
    unfold decompress at h'
    cases h'

/-- every `decompress` call keeps `CabDecOk` -/
theorem C07_decOk_kept (files : Files) : Kept files CabDecOk := by
  intro dec fd n o hp h
  cases dec with
  | none bs e =>
    unfold decompress at h
    simp only at h
    split at h
    · cases h; exact hp
    · cases hd : nonedDecompress files bs (n / max bs 1 + 2) fd n [] with
      | error f => simp [hd, Except.map] at h
      | ok o' =>
        simp only [hd, Except.map, Except.ok.injEq, Option.some.injEq] at h
        subst h
        have key : ∀ fuel fd bytes w o, nonedDecompress files bs fuel fd bytes w = .ok o → CabDecOk o.dec := by
          intro fuel
          induction fuel with
          | zero => intro fd bytes w o h; simp [nonedDecompress] at h
          | succ fuel ih =>
            intro fd bytes w o h
            unfold nonedDecompress at h
            by_cases hb : bytes = 0
            · simp only [hb, ↓reduceIte, Except.ok.injEq] at h; subst h; trivial
            · simp only [hb, ↓reduceIte] at h
              generalize (if bytes > bs then bs else bytes) = run at h
              split at h
              · contradiction
              · simp only [Except.ok.injEq] at h; subst h; trivial
              · rename_i got fd' hr
                by_cases hlen : got.length ≠ run
                · rw [if_pos hlen] at h; simp only [Except.ok.injEq] at h; subst h; trivial
                · rw [if_neg hlen] at h
                  exact ih _ _ _ _ h
        exact key _ _ _ _ _ hd
  | mszip st =>
    unfold decompress at h
    simp only at h
    split at h
    · cases h
    · rename_i zo hz
      simp only [Except.ok.injEq, Option.some.injEq] at h
      subst h
      refine Zip.C02_zip_decompress_inv (feederSrc files) _ _ n ?_ zo hz
      exact hp
  | qtm st =>
    unfold decompress at h
    simp only at h
    split at h
    · cases h
    · simp only [Except.ok.injEq, Option.some.injEq] at h
      subst h
      trivial
  | lzx st =>
    unfold decompress at h
    simp only at h
    split at h
    · cases h
    · simp only [Except.ok.injEq, Option.some.injEq] at h
      subst h
      trivial
  | unsupported k =>
    unfold decompress at h
    cases h

/-- `cabd_init_decomp` sets up a decoder in `CabDecOk` -/
theorem C07_initDec_decOk (p : Params) (ct : Nat) (dec : Dec)
    (h : initDec p ct = some dec) : CabDecOk dec := by
  unfold initDec at h
  split at h
  · cases h; trivial
  · cases hi : Zip.init nullFeeder p.bufSize p.fixMszip p.fill with
    | none => simp [hi] at h
    | some st =>
      simp only [hi, Option.map_some, Option.some.injEq] at h
      subst h
      exact Zip.C02_zip_init_inv _ _ _ _ _ hi
  · split at h
    · cases hi : Qtm.init nullFeeder ((ct >>> 8) &&& 0x1f) p.bufSize p.fill with
      | none => simp [hi] at h
      | some st =>
        simp only [hi, Option.map_some, Option.some.injEq] at h
        subst h
        trivial
    · cases h; trivial
  · split at h
    · cases hi : Lzx.init nullFeeder ((ct >>> 8) &&& 0x1f) 0 p.bufSize 0 false p.fill with
      | none => simp [hi] at h
      | some st =>
        simp only [hi, Option.map_some, Option.some.injEq] at h
        subst h
        trivial
    · cases h; trivial
  · cases h

/-- **C07, every compression type, no hypothesis on the decoders left**: whatever the cabinet
    files, the parameters (strict or salvage) and a cached decoder in `CabDecOk` (none, or what an
    earlier `extract` left — see the second half), `cabd_extract` never hands more than the member's
    declared length to the output; and the cache it leaves is in `CabDecOk` again -/
theorem C07_cab_written_le (files : Files) (p : Params) (d : Option DState) (m : Member)
    (hd : CacheOk CabDecOk d) (e : Err) (w : Bytes) (d' : Option DState)
    (h : extract files p d m = .done e (some w) d') : w.length ≤ m.length ∧ CacheOk CabDecOk d' :=
  CabInv.extract_written_le files CabDecOk (C07_count_law_decOk files) (C07_decOk_kept files) p d m hd
    (C07_initDec_decOk p m.compType) e w d' h

/-- the same under the name the MSZIP instance was asked for -/
theorem C07_cab_mszip_written_le (files : Files) (p : Params) (d : Option DState) (m : Member)
    (hd : CacheOk CabDecOk d) (e : Err) (w : Bytes) (d' : Option DState)
    (h : extract files p d m = .done e (some w) d') : w.length ≤ m.length ∧ CacheOk CabDecOk d' :=
  C07_cab_written_le files p d m hd e w d' h

/-- … in particular with no cached decoder: `C07_written_le_declared` of `C07.lean` without its hypothesis -/
theorem C07_cab_fresh_written_le (files : Files) (p : Params) (m : Member)
    (e : Err) (w : Bytes) (d' : Option DState)
    (h : extract files p none m = .done e (some w) d') : w.length ≤ m.length :=
  (C07_cab_written_le files p none m (fun _ _ h => by cases h) e w d' h).1

/-- strict mode, every compression type: MSPACK_ERR_OK implies exactly the declared number of bytes.
    The counting law is discharged; what is left as a hypothesis (as in `C07_ok_means_complete_partial`)
    is `ReadErrLaw`, now only for the states in `CabDecOk`. -/
theorem C07_cab_ok_complete_partial (files : Files) (hR : ∀ dec, CabDecOk dec → ReadErrLaw files dec)
    (p : Params) (hs : p.salvage = false) (d : Option DState) (m : Member)
    (hd : CacheOk CabDecOk d) (w : Bytes) (d' : Option DState)
    (h : extract files p d m = .done .ok (some w) d') : w.length = m.length :=
  CabInv.extract_ok_complete files CabDecOk (C07_count_law_decOk files) hR (C07_decOk_kept files) p hs d m hd
    (C07_initDec_decOk p m.compType) w d' h

open MsPack.CountLaws.CabJoint in
/-- **C07, OK means complete, stored and MSZIP folders, no hypothesis on the decoders left**: in strict
    mode, whatever the cabinet files, with no cached decoder or one in `CabJ` (what a strict-mode
    `extract` on such a folder sets up and every `decompress` call keeps: feeder not in salvage mode, a
    sticky READ goes with a failed feeder, an MSZIP state has its window and input buffer),
    MSPACK_ERR_OK implies exactly the declared number of bytes -/
theorem C07_cab_mszip_ok_complete (files : Files) (p : Params) (hs : p.salvage = false)
    (d : Option DState) (m : Member) (hct : compMask m.compType ≤ 1)
    (hd : ∀ ds, d = some ds → StateOk CabJ ds) (w : Bytes) (d' : Option DState)
    (h : extract files p d m = .done .ok (some w) d') : w.length = m.length :=
  CabJoint.extract_ok_complete files CabJ (cabJ_callOk files) p hs d m hd
    (fun key ds hf => fresh_stateOk files p hs m hct key ds hf) w d' h

open MsPack.CountLaws.CabJoint in
/-- the hypothesis on the cache is an invariant of strict-mode sessions on such folders: the cache
    `extract` hands back, whatever the status, is in `CabJ` again -/
theorem C07_cab_mszip_cache_kept (files : Files) (p : Params) (hs : p.salvage = false)
    (d : Option DState) (m : Member) (hct : compMask m.compType ≤ 1)
    (hd : ∀ ds, d = some ds → StateOk CabJ ds) (e : Err) (w : Option Bytes) (ds' : DState)
    (h : extract files p d m = .done e w (some ds')) : StateOk CabJ ds' :=
  CabJoint.extract_stateOk files CabJ (cabJ_callOk files) p d m hd
    (fun key ds hf => fresh_stateOk files p hs m hct key ds hf) e w ds' h

/-- … in particular with no cached decoder: no hypothesis but strict mode and the folder's method -/
theorem C07_cab_mszip_fresh_ok_complete (files : Files) (p : Params) (hs : p.salvage = false)
    (m : Member) (hct : compMask m.compType ≤ 1) (w : Bytes) (d' : Option DState)
    (h : extract files p none m = .done .ok (some w) d') : w.length = m.length :=
  C07_cab_mszip_ok_complete files p hs none m hct (fun _ h => by cases h) w d' h

/-- the decoder's own READ report is backed by the feeder: `ReadErrLaw` of `C07.lean`, pointwise on `CabJ` -/
theorem C07_cab_mszip_read_means_feeder_failed (files : Files) (dec : Dec) (fd : Feeder) (n : Nat) (o : DecOut)
    (hj : CountLaws.CabJoint.CabJ dec fd) (h : decompress files dec fd n = .ok (some o)) (he : o.err = .read) :
    o.feeder.readError ≠ .ok :=
  (CountLaws.CabJoint.cabJ_callOk files dec fd n o hj h).2.2 he

/-! ### OK means complete, every compression type -/
section all
open MsPack.CountLaws.CabJoint MsPack.CountLaws.ReadErr MsPack.CountLaws.ReadErrLzx MsPack.CountLaws.ReadErrQtm

/-- the joint decoder/feeder invariant of strict-mode sessions, every compression type: the feeder
    is not in salvage mode, a sticky READ in the decoder goes with a failed feeder, the decoder has a
    real input buffer (and an MSZIP state its window) -/
def CabJAll : Dec → Feeder → Prop
  | .none _ e, fd => fd.salvage = false ∧ (e = .read → fd.readError ≠ .ok)
  | .mszip st, fd => fd.salvage = false ∧ st.inbufSize ≠ 0 ∧ Zip.WinOk st ∧ (st.error = .read → fd.readError ≠ .ok)
  | .lzx st, fd => fd.salvage = false ∧ st.inbufSize ≠ 0 ∧ (st.error = .read → fd.readError ≠ .ok)
  | .qtm st, fd => fd.salvage = false ∧ st.inbufSize ≠ 0 ∧ (st.error = .read → fd.readError ≠ .ok)
  | .unsupported _, _ => True

theorem CabJAll_of_CabJ (dec : Dec) (fd : Feeder) (h : CabJ dec fd) : CabJAll dec fd := by
  cases dec with
  | none bs e => exact h
  | mszip st => exact h
  | qtm st => exact absurd h id
  | lzx st => exact absurd h id
  | unsupported k => trivial

theorem cabJAll_callOk (files : Files) : CallOk files CabJAll := by
  intro dec fd n o hj h
  cases dec with
  | none bs e =>
    obtain ⟨h1, h2, h3⟩ := cabJ_callOk files (.none bs e) fd n o hj h
    exact ⟨CabJAll_of_CabJ _ _ h1, h2, h3⟩
  | mszip st =>
    obtain ⟨h1, h2, h3⟩ := cabJ_callOk files (.mszip st) fd n o hj h
    exact ⟨CabJAll_of_CabJ _ _ h1, h2, h3⟩
  | lzx st =>
    obtain ⟨hs, hb, hr⟩ := hj
    unfold decompress at h
    simp only at h
    split at h
    · cases h
    · rename_i zo hz
      simp only [Except.ok.injEq, Option.some.injEq] at h
      subst h
      have hlj : LJ ({ st with src := fd } : Lzx.St Feeder) := ⟨hs, hb, hr⟩
      obtain ⟨⟨z1, z2, z3⟩, z4⟩ := lzx_readErr files _ _ n zo hlj hz
      exact ⟨⟨z1, z2, z3⟩, (CountLaws.Lzx.decompress_count (feederSrc files) _ _ n zo hz).2, z4⟩
  | qtm st =>
    obtain ⟨hs, hb, hr⟩ := hj
    unfold decompress at h
    simp only at h
    split at h
    · cases h
    · rename_i zo hz
      simp only [Except.ok.injEq, Option.some.injEq] at h
      subst h
      have hqj : QJ ({ st with src := fd } : Qtm.St Feeder) := ⟨hs, hb, hr⟩
      obtain ⟨⟨z1, z2, z3⟩, z4⟩ := qtm_readErr files _ _ n zo hqj hz
      exact ⟨⟨z1, z2, z3⟩, (CountLaws.Qtm.decompress_count (feederSrc files) _ _ n zo hz).2, z4⟩
  | unsupported k =>
    unfold decompress at h
    cases h

/-- a decoder freshly set up by a strict-mode `extract` is in `CabJAll`, whatever the method -/
theorem freshAll_stateOk (files : Files) (p : Params) (hs : p.salvage = false) (m : Member)
    (key : Nat) (ds : DState) (h : freshDState files p m key = .ok ds) : StateOk CabJAll ds := by
  unfold freshDState at h
  split at h
  · cases h
  · split at h
    · cases h
    · split at h
      · cases h
      · rename_i dec0 hi
        cases h
        intro dec hdec
        simp only [Option.some.injEq] at hdec
        subst hdec
        unfold initDec at hi
        split at hi
        · cases hi
          exact ⟨hs, fun hc => by cases hc⟩
        · cases hz : Zip.init nullFeeder p.bufSize p.fixMszip p.fill with
          | none => simp [hz] at hi
          | some st =>
            simp only [hz, Option.map_some, Option.some.injEq] at hi
            subst hi
            have h1 := zipInit_ok _ _ _ _ _ hz
            exact ⟨hs, h1.1, Zip.init_winOk _ _ _ _ _ hz, fun hc => by rw [h1.2] at hc; cases hc⟩
        · split at hi
          · cases hz : Qtm.init nullFeeder ((m.compType >>> 8) &&& 0x1f) p.bufSize p.fill with
            | none => simp [hz] at hi
            | some st =>
              simp only [hz, Option.map_some, Option.some.injEq] at hi
              subst hi
              have h1 := qtmInit_ok _ _ _ _ _ hz
              exact ⟨hs, h1.1, fun hc => by rw [h1.2] at hc; cases hc⟩
          · cases hi; trivial
        · split at hi
          · cases hz : Lzx.init nullFeeder ((m.compType >>> 8) &&& 0x1f) 0 p.bufSize 0 false p.fill with
            | none => simp [hz] at hi
            | some st =>
              simp only [hz, Option.map_some, Option.some.injEq] at hi
              subst hi
              have h1 := lzxInit_ok _ _ _ _ _ _ _ _ hz
              exact ⟨hs, h1.1, fun hc => by rw [h1.2] at hc; cases hc⟩
          · cases hi; trivial
        · cases hi

/-- **C07, OK means complete, every compression type, no hypothesis on the decoders left**: in strict
    mode, whatever the cabinet files, with no cached decoder or one in `CabJAll` (what a strict-mode
    `extract` sets up and every `decompress` call keeps, see `C07_cab_cache_kept`), MSPACK_ERR_OK
    implies exactly the declared number of bytes -/
theorem C07_cab_ok_complete (files : Files) (p : Params) (hs : p.salvage = false)
    (d : Option DState) (m : Member) (hd : ∀ ds, d = some ds → StateOk CabJAll ds)
    (w : Bytes) (d' : Option DState)
    (h : extract files p d m = .done .ok (some w) d') : w.length = m.length :=
  CabJoint.extract_ok_complete files CabJAll (cabJAll_callOk files) p hs d m hd
    (fun key ds hf => freshAll_stateOk files p hs m key ds hf) w d' h

/-- the hypothesis on the cache is an invariant of strict-mode sessions: the cache `extract` hands
    back, whatever the status, is in `CabJAll` again -/
theorem C07_cab_cache_kept (files : Files) (p : Params) (hs : p.salvage = false)
    (d : Option DState) (m : Member) (hd : ∀ ds, d = some ds → StateOk CabJAll ds)
    (e : Err) (w : Option Bytes) (ds' : DState)
    (h : extract files p d m = .done e w (some ds')) : StateOk CabJAll ds' :=
  CabJoint.extract_stateOk files CabJAll (cabJAll_callOk files) p d m hd
    (fun key ds hf => freshAll_stateOk files p hs m key ds hf) e w ds' h

/-- with no cached decoder: `C07_ok_means_complete_partial` of `C07.lean` without its two hypotheses -/
theorem C07_cab_fresh_ok_complete (files : Files) (p : Params) (hs : p.salvage = false)
    (m : Member) (w : Bytes) (d' : Option DState)
    (h : extract files p none m = .done .ok (some w) d') : w.length = m.length :=
  C07_cab_ok_complete files p hs none m (fun _ h => by cases h) w d' h

/-- the decoder's own READ report is backed by the feeder: `ReadErrLaw` of `C07.lean`, pointwise on `CabJAll` -/
theorem C07_cab_read_means_feeder_failed (files : Files) (dec : Dec) (fd : Feeder) (n : Nat) (o : DecOut)
    (hj : CabJAll dec fd) (h : decompress files dec fd n = .ok (some o)) (he : o.err = .read) :
    o.feeder.readError ≠ .ok :=
  (cabJAll_callOk files dec fd n o hj h).2.2 he

/-- the joint invariant implies the one the upper bound runs on -/
theorem CabDecOk_of_CabJAll (dec : Dec) (fd : Feeder) (h : CabJAll dec fd) : CabDecOk dec := by
  cases dec with
  | mszip st => exact h.2.2.1
  | none bs e => trivial
  | qtm st => trivial
  | lzx st => trivial
  | unsupported k => trivial

/-- what C07 says about one `extract` call's result -/
def Counts (m : Member) (e : Err) (w : Option Bytes) : Prop :=
  ∀ w', w = some w' → w'.length ≤ m.length ∧ (e = .ok → w'.length = m.length)

/-- the cache is absent or in the joint invariant -/
def CacheJAll (d : Option DState) : Prop := ∀ ds, d = some ds → StateOk CabJAll ds

/-- **C07 for `cabd_extract`, all in one**: strict mode, every compression type, every cabinet
    content, cache absent or in `CabJAll`: never more than the declared length is written, MSPACK_ERR_OK
    means exactly the declared length, and the cache handed back is in `CabJAll` again -/
theorem C07_cab_extract_counts (files : Files) (p : Params) (hs : p.salvage = false)
    (d : Option DState) (m : Member) (hd : CacheJAll d) (e : Err) (w : Option Bytes) (d' : Option DState)
    (h : extract files p d m = .done e w d') : Counts m e w ∧ CacheJAll d' := by
  refine ⟨fun w' hw => ?_, fun ds' hds => ?_⟩
  · subst hw
    have hc : CacheOk CabDecOk d := fun ds dec h1 h2 => CabDecOk_of_CabJAll _ _ (hd ds h1 dec h2)
    refine ⟨(C07_cab_written_le files p d m hc e w' d' h).1, fun he => ?_⟩
    subst he
    exact C07_cab_ok_complete files p hs d m hd w' d' h
  · subst hds
    exact C07_cab_cache_kept files p hs d m hd e w ds' h

/-- a client's sequence of `extract()` calls, the decoder cache threaded through; each call's member,
    status and output (the sequence ends at a fault or an unsupported method) -/
def runMembers (files : Files) (p : Params) : List Member → Option DState → List (Member × Err × Option Bytes)
  | [], _ => []
  | m :: rest, d =>
    match extract files p d m with
    | .done e w d' => (m, e, w) :: runMembers files p rest d'
    | _ => []

/-- **C07 over whole sessions**: strict mode, any members of any folders in any order, starting
    without a cache (or with one in `CabJAll`): every call writes at most its member's declared
    length, and exactly that if it returns MSPACK_ERR_OK -/
theorem C07_cab_session_counts (files : Files) (p : Params) (hs : p.salvage = false) :
    ∀ (ms : List Member) (d : Option DState), CacheJAll d →
      ∀ r ∈ runMembers files p ms d, Counts r.1 r.2.1 r.2.2 := by
  intro ms
  induction ms with
  | nil => intro d _ r hr; cases hr
  | cons m rest ih =>
    intro d hd r hr
    unfold runMembers at hr
    split at hr
    · rename_i e w d' hx
      have hc := C07_cab_extract_counts files p hs d m hd e w d' hx
      rcases List.mem_cons.mp hr with rfl | hr
      · exact hc.1
      · exact ih d' hc.2 r hr
    · cases hr

theorem C07_cab_session_counts_fresh (files : Files) (p : Params) (hs : p.salvage = false) (ms : List Member) :
    ∀ r ∈ runMembers files p ms none, Counts r.1 r.2.1 r.2.2 :=
  C07_cab_session_counts files p hs ms none (fun _ h => by cases h)

/-! ### salvage mode: what survives -/

/-- the length `cabd_extract` actually asks for: the declared one, clamped (salvage mode only; strict mode
    refuses) to what fits below `CAB_LENGTHMAX` -/
theorem memberCheck_filelen (p : Params) (m : Member) (filelen key : Nat)
    (h : memberCheck p m = .ok (filelen, key)) :
    filelen = min m.length (Generated.cabLENGTHMAX - m.offset) := by
  unfold memberCheck at h
  simp only at h
  repeat' split at h
  all_goals first
    | contradiction
    | (simp only [Except.ok.injEq, Prod.mk.injEq] at h
       omega)

/-- **either mode** (salvage included): the upper bound needs nothing (`C07_cab_written_le`); "OK ⇒ exactly
    the length asked for" holds in either mode *given* `ReadErrLaw` — and that is precisely what salvage mode
    gives up: at the end of a folder the feeder delivers a short read without recording an error, the decoder
    reports READ, `cabd_extract` substitutes the feeder's (OK) `read_error`, and the call returns OK with a
    short output (the example below).  In strict mode `ReadErrLaw` is a theorem (`C07_cab_ok_complete`). -/
theorem C07_cab_anymode_ok_len_partial (files : Files) (hR : ∀ dec, CabDecOk dec → ReadErrLaw files dec)
    (p : Params) (d : Option DState) (m : Member) (hd : CacheOk CabDecOk d) (w : Bytes) (d' : Option DState)
    (h : extract files p d m = .done .ok (some w) d') :
    w.length = min m.length (Generated.cabLENGTHMAX - m.offset) := by
  unfold extract at h
  split at h
  · simp at h
  · rename_i filelen key hc
    split at h
    · simp at h
    · rename_i ds hob
      rw [← memberCheck_filelen p m filelen key hc]
      exact CabInv.runPhases_ok files CabDecOk (C07_count_law_decOk files) hR (C07_decOk_kept files) ds
        (CabInv.obtain_ok files CabDecOk p d m key hd (C07_initDec_decOk p m.compType) ds hob) m filelen w d' h

end all

end MsPack.Cab

/-! ## CHM: `LzxBound` discharged -/
namespace MsPack.Chm
open MsPack

theorem C07_lzxBound : LzxBound :=
  fun fuel st n o h => Lzx.C07_lzx_written_le rdSrc fuel st n o h

/-- `chmd_extract`, either section, **every** input and decompressor state, no hypothesis left:
    never more than the declared length reaches the output -/
theorem C07_chm_written_le_unconditional (files : Files) (fill : UInt8) (inst : Inst) (key : Nat) (hdr : Header)
    (sec : Nat) (offset length : Int) (e : Err) (inst' : Inst) (hdr' : Header) (w : Bytes)
    (h : extract files fill inst key hdr sec offset length = .done e inst' hdr' (some w)) :
    w.length ≤ length.toNat :=
  C07_chm_written_le C07_lzxBound files fill inst key hdr sec offset length e inst' hdr' w h

end MsPack.Chm

/-! ## OAB: `LzxCount` discharged -/
namespace MsPack.Oab
open MsPack MsPack.Generated

theorem C07_lzxCount (fuel bufSize : Nat) : LzxCount fuel bufSize := by
  intro lzx n crc b h
  unfold lzxBlockTail at h
  split at h
  · cases h
  · rename_i o ho
    have hc := CountLaws.Lzx.decompress_count sysRead fuel lzx n o ho
    simp only at h
    split at h
    · rename_i hne
      cases h
      exact ⟨hc.1, fun he => absurd he hne⟩
    · rename_i hok
      simp only [Decidable.not_not] at hok
      split at h
      · cases h
      · split at h
        · rename_i hne; cases h; exact ⟨hc.1, fun he => absurd he hne⟩
        · split at h
          · cases h; exact ⟨hc.1, fun he => by cases he⟩
          · cases h; exact ⟨hc.1, fun _ => hc.2 hok⟩

/-- `oabd_decompress`, **every** input file, no hypothesis left: the output never exceeds the
    header's TargetSize, and MSPACK_ERR_OK means exactly TargetSize bytes -/
theorem C07_oab_written_le_target_unconditional (fuel bufSize : Nat) (fill : UInt8) (file : Bytes)
    (outIsIn : Bool) (e : Err) (w : Bytes)
    (h : decompress fuel bufSize fill (some file) outIsIn = .ok ⟨e, some w⟩) :
    ∃ hdr infh, (⟨file, 0⟩ : Rd).readExact oabheadSIZEOF = some (hdr, infh) ∧
      w.length ≤ u32At hdr oabhead_TargetSize ∧ (e = .ok → w.length = u32At hdr oabhead_TargetSize) :=
  C07_oab_written_le_target fuel bufSize (C07_lzxCount fuel bufSize) fill file outIsIn e w h

/-- the same for `oabd_decompress_incremental` -/
theorem C07_oab_patch_written_le_target_unconditional (fuel bufSize : Nat) (fill : UInt8) (file : Bytes)
    (base : Option Bytes) (outIsIn outIsBase : Bool) (e : Err) (w : Bytes)
    (h : decompressIncremental fuel bufSize fill (some file) base outIsIn outIsBase = .ok ⟨e, some w⟩) :
    ∃ hdr infh, (⟨file, 0⟩ : Rd).readExact patchheadSIZEOF = some (hdr, infh) ∧
      w.length ≤ u32At hdr patchhead_TargetSize ∧ (e = .ok → w.length = u32At hdr patchhead_TargetSize) :=
  C07_oab_patch_written_le_target fuel bufSize (C07_lzxCount fuel bufSize) fill file base outIsIn outIsBase e w h

end MsPack.Oab

/-! ## the theorems are about runs that happen -/
namespace MsPack.C07Decoders
open MsPack MsPack.Cab

def zipRun (stream : Bytes) (n : Nat) : Option (Err × Bytes) :=
  (Zip.init (σ := Rd) ⟨stream, 0⟩ 4096 false 0).bind fun st =>
    match Zip.decompress Rd.src 1000 st n with
    | .ok o => some (o.err, o.written)
    | .error _ => none

/-- MSZIP, a 6-byte frame: asked for 6 — OK and 6 bytes; asked for 4 — OK and 4 (the rest stays pending);
    asked for 9 — the 6 there are, and the status is not OK -/
example : zipRun Zip.sampleHuff 6 = some (.ok, [0x61, 0x62, 0x63, 0x61, 0x62, 0x63]) ∧
    zipRun Zip.sampleHuff 4 = some (.ok, [0x61, 0x62, 0x63, 0x61]) ∧
    zipRun Zip.sampleHuff 9 = some (.read, [0x61, 0x62, 0x63, 0x61, 0x62, 0x63]) := by decide +kernel

/-- `ZipInv` cannot be dropped from (b): on a state whose window is not the 32 KiB frame the stored
    block's three bytes fall outside it (the model's `copyStored` ignores stores beyond the array),
    `bytes_output` still says 3, and the call returns OK having written nothing -/
example : ((Zip.init (σ := Rd) ⟨Zip.sampleStored, 0⟩ 4096 false 0).bind fun st =>
    match Zip.decompress Rd.src 1000 { st with window := #[] } 3 with
    | .ok o => some (o.err, o.written)
    | .error _ => none) = some (.ok, []) := by decide +kernel

def lzxRun (n : Nat) : Option (Err × Bytes) :=
  (Lzx.init (σ := Bytes) Lzx.helloStream 15 0 4096 5 false 0).bind fun st =>
    match Lzx.decompress Lzx.listSrc 1000 st n with
    | .ok o => some (o.err, o.written)
    | .error _ => none

/-- LZX, a 5-byte stream: 5 — OK and 5 bytes; 3 — OK and 3; 9 — the 5 there are and DECRUNCH -/
example : lzxRun 5 = some (.ok, [104, 101, 108, 108, 111]) ∧ lzxRun 3 = some (.ok, [104, 101, 108]) ∧
    lzxRun 9 = some (.decrunch, [104, 101, 108, 108, 111]) := by decide +kernel

def qtmRun (n : Nat) : Option (Err × Nat) :=
  (Qtm.init (⟨Qtm.exampleInput, 0⟩ : Rd) 10 16 0xAA).bind fun st =>
    match Qtm.decompress Rd.src 200 st n with
    | .ok o => some (o.err, o.written.length)
    | .error _ => none

/-- Quantum, 24 input bytes: asked for 24 — OK and 24 bytes; asked for 10 — OK and 10 -/
example : qtmRun 24 = some (.ok, 24) ∧ qtmRun 10 = some (.ok, 10) := by decide +kernel

/-- a one-block MSZIP folder: CFDATA header (checksum 0 = not checked, 10 compressed, 3 uncompressed bytes)
    and the frame `CK` + one stored block `x y z` -/
def cabFile : Bytes := [0, 0, 0, 0, 10, 0, 3, 0] ++ Zip.sampleStored

def cabMember (len : Nat) : Member :=
  { length := len, offset := 0, folderKey := some 0, mergePrev := false, numBlocks := 1, compType := 1,
    parts := [⟨"a.cab", 0, 0⟩] }

def runCab (len : Nat) : Option (Err × Option Bytes) :=
  match extract [("a.cab", cabFile)] {} none (cabMember len) with
  | .done e w _ => some (e, w)
  | _ => none

/-- `cabd_extract` on the MSZIP folder (no cache): a member declared 3 long — OK, 3 bytes; declared 5 — the 3 there are, and not OK -/
example : runCab 3 = some (.ok, some [0x78, 0x79, 0x7A]) ∧
    runCab 5 = some (.dataformat, some [0x78, 0x79, 0x7A]) := by decide +kernel

/-- a session on the MSZIP folder: the same member twice (the second time through a rebuilt decoder, the
    cached one having passed the offset), each time OK and the three bytes -/
example : (runMembers [("a.cab", cabFile)] {} [cabMember 3, cabMember 3] none).map (fun r => (r.2.1, r.2.2)) =
    [(.ok, some [0x78, 0x79, 0x7A]), (.ok, some [0x78, 0x79, 0x7A])] := by decide +kernel

/-- a stored folder of one 3-byte block and a member declared 5 long -/
def storedFile : Bytes := [0, 0, 0, 0, 3, 0, 3, 0, 7, 8, 9]
def storedMember5 : Member :=
  { length := 5, offset := 0, folderKey := some 0, mergePrev := false, numBlocks := 1, compType := 0,
    parts := [⟨"s.cab", 0, 0⟩] }
def runStored (salv : Bool) : Option (Err × Option Bytes) :=
  match extract [("s.cab", storedFile)] { salvage := salv } none storedMember5 with
  | .done e w _ => some (e, w)
  | _ => none

/-- "OK ⇒ complete" does **not** survive salvage mode, by design: the folder ends before the member does;
    strict mode answers DATAFORMAT, salvage mode answers OK having written 0 of the 5 declared bytes -/
example : runStored false = some (.dataformat, some []) ∧ runStored true = some (.ok, some []) := by
  decide +kernel

/-- a one-block LZX folder (window bits 15): CFDATA header and the stream of `C02Lzx.lean` -/
def lzxCabFile : Bytes := [0, 0, 0, 0, 21, 0, 5, 0] ++ Lzx.helloStream

def lzxMember (len : Nat) : Member :=
  { length := len, offset := 0, folderKey := some 0, mergePrev := false, numBlocks := 1, compType := 0x0F03,
    parts := [⟨"l.cab", 0, 0⟩] }

def runLzxCab (len : Nat) : Option (Err × Option Bytes) :=
  match extract [("l.cab", lzxCabFile)] {} none (lzxMember len) with
  | .done e w _ => some (e, w)
  | _ => none

/-- `cabd_extract` on the LZX folder, strict mode, no cache (the hypotheses of `C07_cab_fresh_ok_complete`):
    a member declared 5 long — OK, 5 bytes; declared 7 — the 5 there are, and not OK -/
example : ({} : Params).salvage = false ∧ runLzxCab 5 = some (.ok, some [104, 101, 108, 108, 111]) ∧
    runLzxCab 7 = some (.decrunch, some [104, 101, 108, 108, 111]) := by decide +kernel

end MsPack.C07Decoders
