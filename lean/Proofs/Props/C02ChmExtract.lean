import Proofs.Lemmas.LzxMildFaults
import Proofs.Props.C02Chm
import Proofs.Props.C02Lzx
/-!
# C02 — `chmd_extract` end to end: what is unconditional and what is not

`C02Chm.lean` shows that `readHeaders`, `fastFind` and the CHM layer of `extract` raise no fault of
their own: every fault of `Chm.extract` is one a `lzxd_decompress` call over the file handle
(`Chm.rdSrc`) reported.  This file adds the decoder side for that source:

* `rdSrc` never faults and never announces a length, so both side conditions of `C02Lzx.lean`
  (`hS`, `LenStable`) hold outright (`C02_chm_lzx_no_oob`: no out-of-bounds access from a state
  satisfying `LzxInv` while `offset + n < 2^31`);
* **unconditionally** — every file, fill byte, decompressor instance (no invariant needed), header
  satisfying `HdrInv` (every header `open`/`fast_find` return does), member — `Chm.extract` never
  yields a null dereference, a division by zero or an over-wide shift: its faults are `oob`, `uninit`
  or `hang` only (`C02_chm_extract_faults_mild`, `C02_chm_extract_no_ub_but_oob`), because the LZX
  model raises no other kind from any state (`Proofs/Lemmas/LzxMildFaults.lean`); so for any list of
  `extract` calls threaded through the instance (`C02_chm_session_no_ub_but_oob`);
* the `oob` outcome is NOT excluded here.  See the note at the end: the 2 GiB premise of the LZX
  theorem cannot be attached through the interface `C02_extract_faults_from_lzx` offers.
-/
namespace MsPack.ChmLift
open MsPack MsPack.Generated MsPack.Chm MsPack.CabLift.LzxMild

/-- the CHM file handle as a decoder source never faults … -/
theorem rdSrc_no_fault (x : Rd) (n : Nat) (f : Fault) : Chm.rdSrc.read x n ≠ .error f := by
  intro h; simp [Chm.rdSrc] at h

/-- … and never announces a length: `LenStable` holds for every `L₀` -/
theorem rdSrc_lenStable (L₀ : Nat) : Lzx.LenStable Chm.rdSrc L₀ :=
  Lzx.lenStable_of_none Chm.rdSrc (fun _ => rfl) L₀

/-- **LZX over the CHM handle**: from a state satisfying the decoder invariant, no out-of-bounds
    access while fewer than 2 GiB have been asked for — no side condition on the source left -/
theorem C02_chm_lzx_no_oob (L₀ : Nat) (fuel : Nat) (st : Lzx.St Rd) (n : Nat) (hinv : Lzx.LzxInv L₀ st)
    (ho : st.offset + n < 2147483648) (s : String) :
    Lzx.decompress Chm.rdSrc fuel st n ≠ .error (.oob s) :=
  Lzx.C02_lzx_no_oob Chm.rdSrc L₀ (rdSrc_lenStable L₀) (fun x k _ => rdSrc_no_fault x k _) fuel st n hinv ho s

/-- every fault of `lzxd_decompress` over the CHM handle, from ANY state: `oob`, `uninit` or `hang` -/
theorem C02_chm_lzx_faults_mild (fuel : Nat) (st : Lzx.St Rd) (n : Nat) (f : Fault)
    (h : Lzx.decompress Chm.rdSrc fuel st n = .error f) : Mild f :=
  decompress_mild Chm.rdSrc rdSrc_no_fault fuel st n f h

/-- the undefined-behaviour outcomes excluded unconditionally -/
def Bad3 (f : Fault) : Prop := (∃ w, f = .nullDeref w) ∨ f = .divZero ∨ f = .shiftWidth

theorem Mild.not_bad3 {f : Fault} (h : Mild f) : ¬ Bad3 f := by
  rintro (⟨w, hw⟩ | hw | hw)
  · exact h.not_nullDeref w hw
  · exact h.not_divZero hw
  · exact h.not_shiftWidth hw

/-- every decompressor instance satisfies the instance invariant for the trivial decoder predicate -/
theorem instInv_true (inst : Inst) : InstInv (fun _ => True) inst := fun _ _ _ _ => trivial

/-- **every fault of `chmd_extract`** — any files, fill, instance, member; header with `HdrInv` — is `oob`,
    `uninit` or `hang`, and is raised only for members of the compressed section -/
theorem C02_chm_extract_faults_mild (files : Files) (fill : UInt8) (inst : Inst) (key : Nat) (hdr : Header)
    (sec : Nat) (offset length : Int) (hi : HdrInv hdr) (f : Fault)
    (h : extract files fill inst key hdr sec offset length = .fault f) : Mild f ∧ sec ≠ 0 := by
  obtain ⟨fuel, st, n, hd⟩ := C02_extract_chm_layer_no_fault files fill inst key hdr sec offset length hi f h
  refine ⟨C02_chm_lzx_faults_mild fuel st n f hd, fun h0 => ?_⟩
  subst h0
  exact C02_extract_sec0_no_fault files fill inst key hdr offset length hi f h

/-- **C02 for `chmd_extract` (all kinds but `oob`)**: no null dereference, no division by zero,
    no over-wide shift; the header handed back satisfies the invariant again -/
theorem C02_chm_extract_no_ub_but_oob (files : Files) (fill : UInt8) (inst : Inst) (key : Nat) (hdr : Header)
    (sec : Nat) (offset length : Int) (hi : HdrInv hdr) :
    (∀ w, extract files fill inst key hdr sec offset length ≠ .fault (.nullDeref w)) ∧
    extract files fill inst key hdr sec offset length ≠ .fault .divZero ∧
    extract files fill inst key hdr sec offset length ≠ .fault .shiftWidth ∧
    (∀ ret inst' hdr' out, extract files fill inst key hdr sec offset length = .done ret inst' hdr' out →
      HdrInv hdr') := by
  refine ⟨fun w h => ?_, fun h => ?_, fun h => ?_, fun ret inst' hdr' out h => ?_⟩
  · exact (C02_chm_extract_faults_mild files fill inst key hdr sec offset length hi _ h).1.not_nullDeref w rfl
  · exact (C02_chm_extract_faults_mild files fill inst key hdr sec offset length hi _ h).1.not_divZero rfl
  · exact (C02_chm_extract_faults_mild files fill inst key hdr sec offset length hi _ h).1.not_shiftWidth rfl
  · exact (C02_extract_inv lzxInv_true files fill inst key hdr sec offset length hi (instInv_true inst)
      ret inst' hdr' out h).1

/-- uncompressed members: no fault at all -/
theorem C02_chm_extract_sec0_no_fault (files : Files) (fill : UInt8) (inst : Inst) (key : Nat) (hdr : Header)
    (offset length : Int) (hi : HdrInv hdr) (f : Fault) :
    extract files fill inst key hdr 0 offset length ≠ .fault f :=
  C02_extract_sec0_no_fault files fill inst key hdr offset length hi f

/-- a client's `extract` calls `(key, hdr, section, offset, length)`, the decompressor threaded through;
    the first fault met, if any -/
def chmRun (files : Files) (fill : UInt8) : List (Nat × Header × Nat × Int × Int) → Inst → Option Fault
  | [], _ => none
  | (key, hdr, sec, offset, length) :: rest, inst =>
    match extract files fill inst key hdr sec offset length with
    | .done _ inst' _ _ => chmRun files fill rest inst'
    | .unsupported inst' _ => chmRun files fill rest inst'
    | .fault f => some f

/-- **a whole session** of `extract` calls on headers that `open` / `fast_find` returned (`HdrInv`:
    `C02_realOpen_inv`, `C02_fastFind_inv`), from any instance: no null dereference, division by zero
    or over-wide shift; a fault is `oob`, `uninit` or `hang` -/
theorem C02_chm_session_no_ub_but_oob (files : Files) (fill : UInt8) :
    ∀ (calls : List (Nat × Header × Nat × Int × Int)) (inst : Inst) (f : Fault),
    (∀ c ∈ calls, HdrInv c.2.1) → chmRun files fill calls inst = some f → Mild f ∧ ¬ Bad3 f
  | [], _, _, _, h => by simp only [chmRun] at h; contradiction
  | (key, hdr, sec, offset, length) :: rest, inst, f, hc, h => by
    have hi : HdrInv hdr := hc (key, hdr, sec, offset, length) (by simp)
    have hrest : ∀ c ∈ rest, HdrInv c.2.1 := fun c hm => hc c (by simp [hm])
    rw [chmRun] at h
    split at h
    · exact C02_chm_session_no_ub_but_oob files fill rest _ f hrest h
    · exact C02_chm_session_no_ub_but_oob files fill rest _ f hrest h
    · rename_i f' he
      cases h
      have := (C02_chm_extract_faults_mild files fill inst key hdr sec offset length hi _ he).1
      exact ⟨this, Mild.not_bad3 this⟩

/-- `open` and `fast_find` themselves raise no fault (restated from `C02Chm.lean` for the session reader) -/
theorem C02_chm_open_find_no_fault (filename : String) (file : Bytes) (entire : Bool) (f : Fault) :
    realOpen filename file entire ≠ .error f ∧
    ∀ (fl : Option Bytes) (st : FF) (name : Bytes), HdrInv st.hdr → fastFind fl st name ≠ .error f :=
  ⟨C02_realOpen_no_fault filename file entire f, fun fl st name hi => C02_fastFind_no_fault fl st name hi f⟩

/-! ## non-vacuity -/

/-- a session that does real work: the section-0 member and the section-1 member of the example file,
    one after the other through one instance, end without a fault -/
example : chmRun [("x.chm", encodeChm exampleSpec)] 0
    [(7, exampleSpec.listed "x.chm", 0, 2, 3), (7, exampleSpec.listed "x.chm", 1, 300, 70000)] {} = none := by
  decide +kernel

/-!
## Why `oob` is not excluded here (what is missing)

`Lzx.C02_lzx_no_oob` needs `st.offset + n < 2^31` for each call.  The CHM layer's fault theorem
(`C02_extract_faults_from_lzx`, over an invariant `P` of the decoder state alone, `LzxInv P` with
`step : ∀ fuel st n o, P st → decompress … st n = .ok o → P o.st`) quantifies over every request
size `n`, and the fault it hands up is `∃ fuel st n, P st ∧ decompress … st n = .error f` with no
relation between `n`, `st.offset` and the member.  No predicate on the decoder state alone is kept by
calls of arbitrary size and excludes `oob`.  What is needed in `ChmBounds.lean` (`lzxCall_post`,
`initDecomp_post`, `extract_post`): an invariant of the pair (`DState`, decoder state) —
`st.offset + entry·32768 = d.offset` while the decoder is alive (from the counting law: every byte
the decoder outputs goes through `chmd_sys_write`, which adds to `d->offset`), the requests being
`offset - d.offset` and `≤ length`, under the premise `offset + length < 2^31` on the member (CHM
offsets are 64-bit; the premise cannot be discharged from the format).
-/

end MsPack.ChmLift
