import MsPack.Chm.Encint
/-!
# C15 — fast_find agrees with the listing (first theorems: the name comparison)

`compare` (chmd.c) orders directory entries for the chunk search.  Proved: a name compares equal
to itself, and ASCII letter case is ignored (for names of ASCII bytes; `towlower` is the C
locale's).  The chain walk and `search_chunk` on a writer's directory are in `C15Find.lean`
(`C15_fastfind_roundtrip`); the multi-group quick-reference binary search and the index descent are
covered by the lookup oracle and model agreement, not yet by theorems.
-/
namespace MsPack.Chm
open MsPack

theorem compareGo_self : ∀ (fuel : Nat) (s : Bytes), compareGo fuel s s = none := by
  intro fuel
  induction fuel with
  | zero => intro s; rfl
  | succ fuel ih =>
    intro s
    unfold compareGo
    split
    · rfl
    · simp only [↓reduceIte]; exact ih _

/-- a name is equal to itself under `compare` -/
theorem C15_compare_refl (s : Bytes) : compare s s = 0 := by
  unfold compare; rw [compareGo_self]; simp

/-- ASCII letter case is ignored: an ASCII name and the same name with its letters lower-cased
    compare equal -/
def lowerByte (b : UInt8) : UInt8 := if 0x41 ≤ b.toNat ∧ b.toNat ≤ 0x5A then b + 0x20 else b

theorem lowerByte_spec (b : UInt8) (h : b.toNat < 0x80) :
    (lowerByte b).toNat < 0x80 ∧ toLower (lowerByte b).toNat = toLower b.toNat := by
  have key : ∀ n : Fin 128, (lowerByte (UInt8.ofNat n.val)).toNat < 0x80 ∧
      toLower (lowerByte (UInt8.ofNat n.val)).toNat = toLower (UInt8.ofNat n.val).toNat := by decide
  have hb : b = UInt8.ofNat b.toNat := by simp
  have := key ⟨b.toNat, h⟩
  rw [← hb] at this; exact this

theorem compareGo_ascii_case : ∀ (s : Bytes) (fuel : Nat), (∀ b ∈ s, b.toNat < 0x80) → s.length < fuel →
    compareGo fuel (s.map lowerByte) s = none := by
  intro s
  induction s with
  | nil => intro fuel _ hf; cases fuel <;> simp [compareGo]
  | cons b bs ih =>
    intro fuel hall hf
    match fuel, hf with
    | fuel + 1, hf =>
      have hb := lowerByte_spec b (hall b (by simp))
      have hbl : b.toNat < 0x80 := hall b (by simp)
      unfold compareGo
      simp only [List.map_cons, List.isEmpty_cons, Bool.false_eq_true, or_self, ↓reduceIte]
      simp only [getUtf8Char, hb.1, hbl, ↓reduceIte]
      have hrec := ih fuel (fun x hx => hall x (by simp [hx])) (by simpa using hf)
      split
      · exact hrec
      · simp only [hb.2, ne_eq, not_true_eq_false, ↓reduceIte]; exact hrec

theorem C15_compare_ascii_case (s : Bytes) (h : ∀ b ∈ s, b.toNat < 0x80) :
    compare (s.map lowerByte) s = 0 := by
  unfold compare
  rw [List.length_map, compareGo_ascii_case s (s.length + 1) h (by omega)]
  simp

end MsPack.Chm
