import Proofs.Lemmas.CabApiLedger
/-
C09 (everything acquired is released, on every path) and the handle half of C20 (callbacks only on
live handles, in the mode they were opened with; nothing freed or closed twice) for the CAB
decompressor, proved on the effect model `MsPack/Cab/Api.lean` (cabd.c + the allocation skeletons of
noned / mszipd / qtmd / lzxd init and free, over the instrumented system `MsPack/Sys.lean`).

Quantifiers: every program a client can write against one decompressor (`Op` lists: `open`,
`search`, `close`, `extract`, `append` / `prepend` (`join`), `set_param`, in any order and number,
followed by the `close` of whatever the client still holds and `destroy`), every world — any file
contents, any open handles and live blocks of the client's own, and *any fault plan* (any set of
failing alloc / open / read / seek calls) — every value of the model's parameters (scanner
scripts, the Booleans of `extract`, merge kinds), and every decoder body that satisfies the switch
law `BodyLaw`: it leaves live blocks and the misuse record alone and, as far as handles go, may only
replace the cabinet handle it was given by a fresh one (`cabd_sys_read_block` moving on to the next
cabinet of a split folder) or lose it (that `open` failing).

Client discipline assumed (it is the documented one): a group — the result of `open`, or the whole
`next` list `search` returned — is closed once, through its head; a set that is not part of a longer
`next` list may be closed through any member; `append` / `prepend` join sets of two *different*
groups of which at least one consists of a single set.  Without the last condition cabd.c has no
correct way to release the result (see the report).
-/
namespace MsPack.Cab
open MsPack MsPack.Sys MsPack.Cab.Api
open MsPack.Szdd.Api (Frame)

theorem create_spec {v : View} {bl : List Nat} {hs : List (Nat × Mode)} :
    Triple (Own v bl hs) create
      (fun r w => match r with
        | none => Own v bl hs w
        | some i => i.d = none ∧ Own v (i.self :: bl) hs w) := by
  unfold create
  refine Triple.bind T.alloc fun a => ?_
  cases a with
  | none => exact Triple.pure fun w o => o
  | some m => exact Triple.pure fun w o => ⟨rfl, o⟩

/-- the whole client program as a triple: from a ledger that is `v`, to a ledger that is `v` -/
theorem program_spec (body : Body) (hb : BodyLaw body) (ops : List Op) (v : View) :
    Triple (Own v [] []) (program body ops) (fun _ => Own v [] []) := by
  unfold program
  refine Triple.bind create_spec fun r => ?_
  cases r with
  | none => exact Triple.pure fun w o => o
  | some i0 =>
    dsimp only
    refine Triple.bind (R := fun s => SessInv v s) ?_ fun s => ?_
    · refine (runOps_spec hb ops { inst := i0 }).pre fun w ⟨hd, o⟩ => ?_
      show Own v (groupsBlocks [] ++ (dBlocks i0.d ++ [i0.self])) (dHandles i0.d ++ []) w
      rw [hd]
      exact o
    · refine Triple.bind (closeAll_spec (bl := [s.inst.self]) (hs := []) s.groups s.inst) fun i => ?_
      refine (destroy_spec (bl := []) (hs := []) i).pre fun w ⟨e, o⟩ => ?_
      rw [e]
      exact o

/-- create; any client program; close of what is still held; destroy: the ledger is back where it
    started and no misuse of the interface was recorded on the way -/
theorem C09_cab_ledger_restored (body : Body) (hb : BodyLaw body) (ops : List Op) (w : World) (hok : w.view.ok) :
    (program body ops w).2.liveAllocs = w.liveAllocs ∧
    (program body ops w).2.liveHandles.map (fun h => (h.id, h.mode)) = w.liveHandles.map (fun h => (h.id, h.mode)) ∧
    (program body ops w).2.misuse = w.misuse := by
  have h : Frame w.view (program body ops w).2 :=
    (program_spec body hb ops w.view w (Own.of_view_eq hok rfl)).frame
  exact ⟨h.allocs, h.handles, h.misuse⟩

/-- from an empty ledger (a fresh process): nothing is live afterwards, nothing was misused -/
theorem C09_cab_nothing_left (body : Body) (hb : BodyLaw body) (ops : List Op)
    (files : List (String × Bytes)) (plan : List (Kind × Nat)) :
    (program body ops { files := files, plan := plan }).2.liveAllocs = [] ∧
    (program body ops { files := files, plan := plan }).2.liveHandles = [] ∧
    (program body ops { files := files, plan := plan }).2.misuse = [] := by
  have hok : ({ files := files, plan := plan } : World).view.ok :=
    ⟨fun _ h => (nomatch h), fun _ h => (nomatch h), List.nodup_nil⟩
  obtain ⟨h1, h2, h3⟩ := C09_cab_ledger_restored body hb ops _ hok
  exact ⟨h1, by simpa using h2, h3⟩

/-- the same for a session that is cut short anywhere: after any prefix of the client's steps the
    session owns exactly the decompressor, `self->d` and the groups it holds (so a client that stops
    there and closes / destroys leaves nothing) -/
theorem C09_cab_session_invariant (body : Body) (hb : BodyLaw body) (ops : List Op) (s : Sess) (v : View) (w : World)
    (h : SessInv v s w) : SessInv v (runOps body ops s w).1 (runOps body ops s w).2 :=
  runOps_spec hb ops s w h

/-! ## the hypotheses can be met -/

/-- a body that does nothing satisfies the switch law -/
def trivialBody : Body := fun _ inFh _ => pure ⟨.ok, inFh, none⟩

theorem trivialBody_lawful : BodyLaw trivialBody := fun _ _ _ _ _ _ _ =>
  ⟨rfl, rfl, Nat.le_refl _, Or.inl ⟨rfl, rfl⟩⟩

/-- a body that does what `cabd_sys_read_block` does at the end of a cabinet: close the current
    cabinet's handle, open the next cabinet (`name`), go on or give up -/
def switchBody (name : String) : Body := fun _ inFh _ =>
  match inFh with
  | none => pure ⟨.read, none, none⟩
  | some h => do
    close h
    let n ← Sys.open_ name .read
    pure ⟨if n.isSome then .ok else .open_, n, none⟩

theorem switchBody_lawful (name : String) : BodyLaw (switchBody name) := by
  intro a inFh outFh w hok hin _
  cases inFh with
  | none => exact ⟨rfl, rfl, Nat.le_refl _, Or.inl ⟨rfl, rfl⟩⟩
  | some h =>
    have hc := close_live_view w hok h .read (hin h rfl)
    unfold switchBody
    simp only [bind_apply, pure_apply]
    generalize close h w = q at hc
    obtain ⟨_, w1⟩ := q
    dsimp only at hc ⊢
    have hn1 : w1.nextId = w.nextId := by
      have : w1.view.nextId = w.view.nextId := by rw [hc]
      exact this
    rcases open_spec name .read w1 with ⟨o1, o2⟩ | ⟨o1, o2⟩
    · rw [o1]
      refine ⟨by rw [o2, hc], by rw [o2, hc], by rw [o2, hc]; exact Nat.le_refl _, Or.inr ⟨h, rfl, ?_, ?_⟩⟩
      · rw [o2, hc]; rfl
      · intro x hx; cases hx
    · rw [o1]
      refine ⟨by rw [o2, hc], by rw [o2, hc], ?_, Or.inr ⟨h, rfl, ?_, ?_⟩⟩
      · rw [o2, hc]; show w.nextId ≤ w1.nextId + 1; omega
      · rw [o2, hc]; rfl
      · intro x hx
        cases hx
        rw [o2]
        show w.nextId ≤ w1.nextId ∧ w1.nextId < w1.nextId + 1
        omega

def w16 (n : Nat) : Bytes := [n % 256, n / 256 % 256].map (·.toUInt8)
def w32 (n : Nat) : Bytes := [n % 256, n / 256 % 256, n / 65536 % 256, n / 16777216 % 256].map (·.toUInt8)

/-- a cabinet with one stored folder (one data block: 1 2 3) and one file "a" of 3 bytes -/
def tinyCab : Bytes :=
  [0x4D, 0x53, 0x43, 0x46] ++ w32 0 ++ w32 73 ++ w32 0 ++ w32 44 ++ w32 0 ++ [3, 1] ++ w16 1 ++ w16 1 ++ w16 0 ++
    w16 7 ++ w16 0 ++
  w32 62 ++ w16 1 ++ w16 0 ++
  w32 3 ++ w32 0 ++ w16 0 ++ w16 0 ++ w16 0 ++ w16 0x20 ++ [0x61, 0] ++
  w32 0 ++ w16 3 ++ w16 3 ++ [1, 2, 3]

/-- `open` really builds the cabinet: four blocks (cabinet, folder, file, name), no handle left -/
example :
    (open_ { self := 0 } "c" { files := [("c", tinyCab)], nextId := 1, liveAllocs := [0] }).2.liveAllocs = [5, 4, 3, 2, 0] := by
  decide +kernel

example :
    ((open_ { self := 0 } "c" { files := [("c", tinyCab)], nextId := 1, liveAllocs := [0] }).1.2.map
      (fun c => (c.folders.length, c.files.length))) = some (1, 1) := by decide +kernel

/-- a session with planned faults that fire -/
def demoWorld : World := { files := [("c", tinyCab), ("d", tinyCab)], plan := [(.alloc, 6), (.open_, 9)] }

/-- two cabinets opened (the second `open` fails first: the 6th allocation is the file's name, so
    `cabd_close` has a half-built cabinet to free), a folder merge (new data part; the right folder and
    its file entry freed), an extract whose body moves on to the next cabinet file twice, a search
    that reads one candidate and then meets a short read, an extract that has to reset the folder and
    cannot reopen the cabinet (9th `open`), the close of the joined set (which also drops `self->d`),
    an `open` of a missing file -/
def demoOps : List Op :=
  [.open_ "c", .open_ "d", .open_ "d", .join 0 0 1 0 .folders, .extract 0 0 0 true false false true "o1",
   .search "c" [⟨73, some ⟨true, 0, 73, false, false⟩⟩, ⟨10, some ⟨true, 4, 73, true, true⟩⟩],
   .extract 0 0 0 true true false false "o2", .close 1 0, .open_ "missing"]

/-- before the final clean-up the session holds: the decompressor (0) and the cabinet `search` found -/
example :
    (runOps (switchBody "d") demoOps { inst := { self := 0 } } { demoWorld with nextId := 1, liveAllocs := [0] }).2.liveAllocs
      = [26, 25, 24, 23, 0] := by decide +kernel

/-- during it: after the first extract `self->d` (14), the two blocks of the stored decoder (17, 16)
    and the handle of the cabinet file the body switched to (20) are live -/
example :
    (runOps (switchBody "d") (demoOps.take 5) { inst := { self := 0 } } { demoWorld with nextId := 1, liveAllocs := [0] }).2.liveAllocs
      = [17, 16, 14, 13, 12, 11, 10, 9, 2, 0] := by decide +kernel

example :
    (runOps (switchBody "d") (demoOps.take 5) { inst := { self := 0 } } { demoWorld with nextId := 1, liveAllocs := [0] }).2.liveHandles.map
      (fun h => (h.id, h.mode)) = [(20, Mode.read)] := by decide +kernel

/-- and the whole program leaves nothing -/
example : (program (switchBody "d") demoOps demoWorld).2.liveAllocs = [] := by decide +kernel

end MsPack.Cab
