import Proofs.Lemmas.FindMulti
import Proofs.Props.C14
/-!
# C14 — search() finds EVERY embedded cabinet: several planted cabinets

A file of the shape `junk_0 ++ cab_1 ++ junk_1 ++ cab_2 ++ … ++ cab_k ++ junk_k` (`layout segs last`; `segs` lists
`(junk_{i-1}, cab_i, c_i)`, `last = junk_k`).  Premises, per planted cabinet (`SegOk`):
* the junk piece in front of it does not contain the four signature bytes "MSCF" (any proper prefix of it may stand
  directly in front of the cabinet) — needed per piece, because the scan restarts in state 0 behind each cabinet;
* the cabinet parses at its offset in the whole file, to `c_i`;
* its length field (header bytes 8..11) is the number of bytes it occupies, so that the restart `caboff + cablen`
  lands on the first byte of the next junk piece; and it is at least 20 bytes long, i.e. the two header fields the
  scanner reads (8..11, 16..19) are the cabinet's own bytes — without this the brief's premises can be met by a
  9-byte "cabinet" whose length field is completed by the following junk, and the scan then restarts elsewhere
  (see the `#eval` witness recorded at the end);
* its two length fields pass the scanner's "likely cabinet" test.
`junk_k` contains no signature either.  Then, for every search-buffer size ≥ 1, strict or salvage, `search()`
reports exactly `[c_1, …, c_k]`: every planted cabinet, in file order, and nothing else.
-/
namespace MsPack.Cab
open MsPack

/-- **completeness for several cabinets**, premises in recursive form -/
theorem C14_finds_all_planted_rec (n : Nat) (hn : 1 ≤ n) (sv : Bool) (segs : List Planted) (last : Bytes)
    (hlast : ¬ sig <:+: last) (hp : PlantedAt sv (layout segs last) 0 segs) :
    find n sv (layout segs last) = (segs.map (·.parsed), .done) := by
  have h1 := findLoop_planted n hn sv (layout segs last) last hlast segs [] [] rfl hp
  have h2 := C14_never_hangs n hn sv (layout segs last)
  simp only [List.length_nil, List.reverse_nil, List.nil_append] at h1
  exact Prod.ext h1 h2

/-- **completeness for several cabinets**: in `junk_0 ++ cab_1 ++ junk_1 ++ … ++ cab_k ++ junk_k`, where no junk
    piece contains the signature and every `cab_i` parses at its offset `off_i` (`cabOffsets`, characterised by
    `cabOffsets_spec` / `layout_split`), occupies exactly `cablen` (≥ 20) bytes and passes the "likely cabinet" test,
    `search()` returns exactly the planted cabinets in order — for every buffer size, strict or salvage -/
theorem C14_finds_all_planted (n : Nat) (hn : 1 ≤ n) (sv : Bool) (segs : List Planted) (last : Bytes)
    (hlast : ¬ sig <:+: last)
    (hsegs : ∀ p ∈ segs.zip (cabOffsets 0 segs),
      ¬ sig <:+: p.1.junk ∧ 20 ≤ p.1.cab.length ∧ u32At p.1.cab 8 = p.1.cab.length ∧
      readHeaders (layout segs last) p.2 sv = .ok p.1.parsed ∧
      plausible (layout segs last).length sv ⟨p.2, u32At p.1.cab 8, u32At p.1.cab 16⟩ = true) :
    (find n sv (layout segs last)).1 = segs.map (·.parsed) := by
  rw [C14_finds_all_planted_rec n hn sv segs last hlast (plantedAt_of_forall sv _ segs 0 hsegs)]

/-- in particular every planted cabinet is found -/
theorem C14_finds_all_planted_mem (n : Nat) (hn : 1 ≤ n) (sv : Bool) (segs : List Planted) (last : Bytes)
    (hlast : ¬ sig <:+: last) (hp : PlantedAt sv (layout segs last) 0 segs) :
    ∀ s ∈ segs, s.parsed ∈ (find n sv (layout segs last)).1 := by
  intro s hs
  rw [C14_finds_all_planted_rec n hn sv segs last hlast hp]
  exact List.mem_map.mpr ⟨s, hs, rfl⟩

/-! ## non-vacuity: "MM" ++ exampleCab ++ "MSC" ++ exampleCab ++ "MS" -/

def exJunk0 : Bytes := [0x4D, 0x4D]
def exJunk1 : Bytes := [0x4D, 0x53, 0x43]
def exLast  : Bytes := [0x4D, 0x53]
def exFile2 : Bytes := exJunk0 ++ (exampleCab ++ (exJunk1 ++ (exampleCab ++ exLast)))

theorem no_sig_of_short (j : Bytes) (h : j.length < 4) : ¬ sig <:+: j := by
  rintro ⟨s, t, h'⟩
  have := congrArg List.length h'
  simp [sig] at this
  omega

-- the two copies parse at offsets 2 and 67 of the 131-byte file
set_option maxRecDepth 100000 in
example : exFile2.length = 131 ∧ (readHeaders exFile2 2 false).toOption.isSome = true ∧
    (readHeaders exFile2 67 false).toOption.isSome = true := by decide

-- the side premises of the two planted copies
theorem exJunk_ok : exJunk0.length < 4 ∧ exJunk1.length < 4 ∧ exLast.length < 4 := by decide
set_option maxRecDepth 100000 in
theorem exCab_ok : 20 ≤ exampleCab.length ∧ u32At exampleCab 8 = exampleCab.length ∧
    plausible exFile2.length false ⟨0 + exJunk0.length, u32At exampleCab 8, u32At exampleCab 16⟩ = true ∧
    plausible exFile2.length false
      ⟨0 + exJunk0.length + exampleCab.length + exJunk1.length, u32At exampleCab 8, u32At exampleCab 16⟩ = true := by
  decide

set_option maxRecDepth 100000 in
/-- the instantiated theorem: with any buffer size the search reports exactly the two planted copies, the ones that
    `readHeaders` yields at offsets 2 and 67 -/
theorem C14_two_planted (n : Nat) (hn : 1 ≤ n) :
    ∃ c1 c2, readHeaders exFile2 2 false = .ok c1 ∧ readHeaders exFile2 67 false = .ok c2 ∧
      c1.baseOffset = 2 ∧ c2.baseOffset = 67 ∧ find n false exFile2 = ([c1, c2], .done) := by
  have h1 : (readHeaders exFile2 2 false).toOption.isSome = true := by decide
  have h2 : (readHeaders exFile2 67 false).toOption.isSome = true := by decide
  cases hc1 : readHeaders exFile2 2 false with
  | error e => rw [hc1] at h1; cases h1
  | ok c1 =>
    cases hc2 : readHeaders exFile2 67 false with
    | error e => rw [hc2] at h2; cases h2
    | ok c2 =>
      refine ⟨c1, c2, rfl, rfl, (readHeaders_fields _ _ _ _ hc1).1, (readHeaders_fields _ _ _ _ hc2).1, ?_⟩
      have hfile : exFile2 = layout [⟨exJunk0, exampleCab, c1⟩, ⟨exJunk1, exampleCab, c2⟩] exLast := rfl
      rw [hfile]
      apply C14_finds_all_planted_rec n hn false _ exLast (no_sig_of_short _ exJunk_ok.2.2)
      rw [← hfile]
      exact ⟨⟨no_sig_of_short _ exJunk_ok.1, exCab_ok.1, exCab_ok.2.1, hc1, exCab_ok.2.2.1⟩,
        ⟨no_sig_of_short _ exJunk_ok.2.1, exCab_ok.1, exCab_ok.2.1, hc2, exCab_ok.2.2.2⟩, trivial⟩

/-! ## why `20 ≤ cab.length` is a premise

Without it the other premises can be met by a 9-byte "cabinet" whose length field (bytes 8..11) is completed by the
junk behind it: `u32At cab 8 = 9 = cab.length`, but the scanner reads 9 + 256 from the file and restarts there.
```
def cab1  : Bytes := [0x4D,0x53,0x43,0x46,0,0,0,0,9]
def junk1 : Bytes := [1] ++ exampleCab.drop 10                 -- no "MSCF"
def wfile : Bytes := cab1 ++ junk1 ++ exampleCab ++ List.replicate 120 0      -- 244 bytes
#eval (readHeaders wfile 0 false).toOption.map (fun c => (c.baseOffset, c.length))    -- some (0, 265)
#eval (readHeaders wfile 62 false).toOption.map (fun c => (c.baseOffset, c.length))   -- some (62, 62)
#eval plausible wfile.length false ⟨0, u32At cab1 8, u32At cab1 16⟩                   -- true
#eval plausible wfile.length false ⟨62, u32At exampleCab 8, u32At exampleCab 16⟩      -- true
#eval (find 4 false wfile).1.map (·.baseOffset)     -- [0]: the copy at 62 lies inside the 265 bytes that are skipped
```
(The C code does the same: it restarts at `caboff + cablen` with `cablen` as read from the file.)
-/

end MsPack.Cab
