import Proofs.Lemmas.RefusedWalk
import Proofs.Props.C08MszipCab
/-!
# C12 through the decoders: a block the block reader refused makes `extract` fail — every compression type

`Proofs/Props/C12.lean`: `readBlock` refuses a CFDATA block with a wrong checksum, a short block, a missing
continuation.  `C12Extract.lean`: for stored folders the refusal reaches the caller.  Here, for stored, MSZIP, Quantum
and LZX alike (`Proofs/Lemmas/RefusedWalk.lean`: one `Tri` walk per decoder):

* `C12_cab_feeder_error_refused`: if the feeder an `extract` call hands back is in the state "the block reader refused
  a block" (`¬ NR`: an error is recorded and it is not the end-of-folder DATAFORMAT) and the feeder it started from was
  not, the call's status is not OK.  Any mode (strict, salvage, repair), any parameters, any cache.
* `C12_cab_checksum_refused`: in particular a recorded MSPACK_ERR_CHECKSUM (which only `readBlock`'s checksum test
  produces) never goes with an OK status; likewise READ (truncated block) and OPEN (missing continuation cabinet).

**The literal statement "`readError ≠ OK` in the feeder handed back ⇒ status not OK" is false**, of the model and of
cabd.c: when a decoder's `read_input` asks for more after the folder's last block, `cabd_sys_read` records
MSPACK_ERR_DATAFORMAT (strict mode) and delivers what it has; the decoder goes on with those bytes (and the two zero
bytes `read_input` fakes), and the extraction ends with OK.  With a 4096-byte input buffer that happens on every small
folder (example at the end: status OK, `readError = DATAFORMAT`, `block > numBlocks`).  `NR` is `readError = OK` or
exactly that situation; what the theorem excludes is an OK status after a *block* error.

How it goes: a feeder read that meets a refused block returns `none` (everything else keeps `NR`, `feederRead_nr`);
`read_input` of each decoder turns `none` into the status exception READ; no status exception of the three decoders
carries OK and each ends the call with that status; so a call that returns OK has only made reads that keep `NR`
(`decompress_nr`).  `runPhase`'s `READ → read_error` substitution yields the recorded error, which is not OK when the
feeder is `¬ NR`.
-/
namespace MsPack.Cab
open MsPack MsPack.Generated MsPack.RefusedWalk

/-- one decoder call of `cabd_extract`: status OK ⇒ the feeder is still `NR` -/
theorem C12_runPhase_nr (files : Files) (ds : DState) (dec : Dec) (n : Nat) (e : Err) (w : Bytes) (ds' : DState)
    (hn : NR ds.feeder) (h : runPhase files ds dec n = .ran e w ds') (he : e = .ok) : NR ds'.feeder := by
  unfold runPhase at h
  split at h
  · cases h
  · cases h
  · rename_i o ho
    simp only [PhaseResult.ran.injEq] at h
    obtain ⟨h1, _, h3⟩ := h
    subst h3
    dsimp only
    by_cases hr : o.err = .read
    · rw [if_pos hr] at h1
      exact Or.inl (h1.trans he)
    · rw [if_neg hr] at h1
      exact decompress_nr files dec ds.feeder n o hn ho (h1.trans he)

/-- both phases -/
theorem C12_runPhases_nr (files : Files) (ds : DState) (m : Member) (filelen : Nat) (e : Err) (w : Option Bytes)
    (ds' : DState) (hn : NR ds.feeder) (h : runPhases files ds m filelen = .done e w (some ds')) (he : e = .ok) :
    NR ds'.feeder := by
  unfold runPhases at h
  split at h
  · simp only [ExtractResult.done.injEq] at h; rw [← h.1] at he; cases he
  · rename_i dec hdec
    split at h
    · simp only [ExtractResult.done.injEq, Option.some.injEq] at h
      rw [← h.2.2]; exact hn
    · simp only at h
      split at h
      · split at h
        · cases h
        · cases h
        · rename_i e1 w1 ds1 hr
          simp only [ExtractResult.done.injEq, Option.some.injEq] at h
          obtain ⟨h1, _, h3⟩ := h
          subst h3
          exact C12_runPhase_nr files ds dec _ _ _ _ hn hr (h1.trans he)
      · split at h
        · cases h
        · cases h
        · rename_i e1 w1 ds1 hr1
          split at h
          · rename_i hne
            simp only [ExtractResult.done.injEq] at h
            exact absurd (h.1.trans he) hne
          · rename_i heq
            have he1 : e1 = .ok := Decidable.not_not.mp heq
            have hn1 := C12_runPhase_nr files ds dec _ _ _ _ hn hr1 he1
            split at h
            · simp only [ExtractResult.done.injEq] at h; rw [← h.1] at he; cases he
            · rename_i dec1 hdec1
              split at h
              · cases h
              · cases h
              · rename_i e2 w2 ds2 hr2
                simp only [ExtractResult.done.injEq, Option.some.injEq] at h
                obtain ⟨h1, _, h3⟩ := h
                subst h3
                exact C12_runPhase_nr files ds1 dec1 _ _ _ _ hn1 hr2 (h1.trans he)

/-- the fresh feeder has no error recorded -/
theorem C12_fresh_nr (files : Files) (p : Params) (m : Member) (key : Nat) (ds : DState)
    (h : freshDState files p m key = .ok ds) : NR ds.feeder := by
  unfold freshDState at h
  split at h
  · cases h
  · split at h
    · cases h
    · split at h
      · cases h
      · simp only [Except.ok.injEq] at h
        subst h
        exact Or.inl rfl

/-- **C12, every compression type**: an `extract` call that starts from no cache, or from a cached feeder whose last
    event was not a refused block, and returns OK hands back a feeder whose last event was not a refused block.
    Contrapositive (`C12_cab_feeder_error_refused`): a block error recorded during the call ⇒ status not OK. -/
theorem C12_cab_ok_keeps_nr (files : Files) (p : Params) (d : Option DState) (m : Member)
    (hd : ∀ ds, d = some ds → NR ds.feeder) (e : Err) (w : Option Bytes) (ds' : DState)
    (h : extract files p d m = .done e w (some ds')) (he : e = .ok) : NR ds'.feeder := by
  unfold extract at h
  split at h
  · simp only [ExtractResult.done.injEq] at h
    obtain ⟨_, _, h3⟩ := h
    exact hd _ h3
  · rename_i filelen key hc
    split at h
    · cases h
    · rename_i ds hob
      have hn : NR ds.feeder := by
        unfold obtainDState at hob
        split at hob
        · rename_i ds0
          split at hob
          · simp only [Except.ok.injEq] at hob
            subst hob
            exact hd _ rfl
          · exact C12_fresh_nr files p m key ds hob
        · exact C12_fresh_nr files p m key ds hob
      exact C12_runPhases_nr files ds m filelen e w ds' hn h he

/-- **a block error recorded during the call ⇒ the call's status is not OK** -/
theorem C12_cab_feeder_error_refused (files : Files) (p : Params) (d : Option DState) (m : Member)
    (hd : ∀ ds, d = some ds → NR ds.feeder) (e : Err) (w : Option Bytes) (ds' : DState)
    (h : extract files p d m = .done e w (some ds')) (hbad : ¬ NR ds'.feeder) : e ≠ .ok :=
  fun he => hbad (C12_cab_ok_keeps_nr files p d m hd e w ds' h he)

/-- `¬ NR` in plain terms -/
theorem C12_not_nr_iff (fd : Feeder) :
    ¬ NR fd ↔ fd.readError ≠ .ok ∧ (fd.block ≤ fd.numBlocks ∨ fd.readError ≠ .dataformat) := by
  unfold NR
  constructor
  · intro h
    refine ⟨fun hc => h (Or.inl hc), ?_⟩
    by_cases hb : fd.block ≤ fd.numBlocks
    · exact Or.inl hb
    · exact Or.inr (fun hc => h (Or.inr ⟨by omega, hc⟩))
  · rintro ⟨h1, h2⟩ (hc | ⟨hc1, hc2⟩)
    · exact h1 hc
    · rcases h2 with h2 | h2
      · omega
      · exact h2 hc2

/-- **a recorded checksum / read / open error never goes with an OK status** (fresh instance, or a cache whose feeder
    had no block error): `readBlock` is the only place that records CHECKSUM (stored checksum does not match), READ
    (block truncated) or OPEN (continuation cabinet missing) -/
theorem C12_cab_checksum_refused (files : Files) (p : Params) (d : Option DState) (m : Member)
    (hd : ∀ ds, d = some ds → NR ds.feeder) (e : Err) (w : Option Bytes) (ds' : DState)
    (h : extract files p d m = .done e w (some ds'))
    (hbad : ds'.feeder.readError = .checksum ∨ ds'.feeder.readError = .read ∨ ds'.feeder.readError = .open_) :
    e ≠ .ok := by
  refine C12_cab_feeder_error_refused files p d m hd e w ds' h ((C12_not_nr_iff _).mpr ?_)
  rcases hbad with hb | hb | hb <;> rw [hb] <;> exact ⟨by decide, Or.inr (by decide)⟩

/-- the invariant is kept along a session as long as the calls return OK; after a failed call the cache may hold a
    refused feeder, and `NR` of the cache is then simply not assumed for the next call's theorem -/
theorem C12_cab_ok_cache_nr (files : Files) (p : Params) (d : Option DState) (m : Member)
    (hd : ∀ ds, d = some ds → NR ds.feeder) (w : Option Bytes) (d' : Option DState)
    (h : extract files p d m = .done .ok w d') : ∀ ds, d' = some ds → NR ds.feeder := by
  intro ds hds
  subst hds
  exact C12_cab_ok_keeps_nr files p d m hd .ok w ds h rfl

/-! ## evaluation (the two-block MSZIP folder of `C08MszipCab`, 5 bytes) -/

/-- what a caller and the next call see: status, bytes, the feeder's recorded error, "past the last block" -/
def c12View : ExtractResult → Option (Err × Option Bytes × Err × Bool)
  | .done e w (some ds) => some (e, w, ds.feeder.readError, decide (ds.feeder.numBlocks < ds.feeder.block))
  | _ => none

/-- the end-of-folder situation: the whole folder extracted with OK, and the feeder has DATAFORMAT recorded -/
example : c12View (extract zccFiles {} none (mszipMember [zccPart] 2 7 1 0 5)) =
    some (.ok, some [1, 2, 3, 4, 5], .dataformat, true) := by decide +kernel

/-- the same file with the stored checksum of the second block set to 1 (it was 0 = "not checked") -/
def zccBadFile : Bytes :=
  [9, 9, 9] ++ zccBlock (Deflate.encFrame [.stored [1, 2, 3]]) 3 ++
    ([1, 0, 0, 0] ++ (zccBlock (Deflate.encFrame [.stored [4, 5]]) 2).drop 4)

/-- … is refused with MSPACK_ERR_CHECKSUM as soon as the decoder's first read reaches that block -/
example : c12View (extract [("a.cab", zccBadFile)] {} none (mszipMember [zccPart] 2 7 1 0 5)) =
    some (.checksum, some [], .checksum, false) := by decide +kernel

end MsPack.Cab
