import Proofs.Lemmas.FeederFaults
import Proofs.Props.C02Lzx
import Proofs.Props.C02Qtm
import Proofs.Props.C02Zip
/-!
# C02 — lifting the decoder memory-safety theorems through the CAB layer

The decoder theorems (`C02Lzx`, `C02Qtm`, `C02Zip`) are conditional on the *source*: `hS`
("the source's own `read` raises no fault of kind …") and, for LZX, `LenStable S L₀`.  In CAB
extraction the source is the block feeder `Cab.feederSrc files`.  This file discharges what can be
discharged from the feeder side (`Proofs/Lemmas/FeederFaults.lean`):

* **the feeder's faults** (`C02_cab_feeder_fault_kinds`): for EVERY feeder state the only faults
  of `feederSrc.read` are the two null dereferences of `cabd_sys_read_block` (`d->infh`,
  `d->data`); never `oob`, `uninit`, `divZero`, `shiftWidth`, and — with the fuel `feederSrc`
  passes — never `hang`.  From a live feeder (`FeederLive`: handle open, part list non-empty)
  there is no fault at all (`C02_cab_feeder_no_fault`); liveness is kept by every read that
  delivers bytes; a read returning -1 may close the handle and records `readError ≠ ok`.
* **Quantum, MSZIP** (`C02_cab_qtm_no_fault_partial`, `C02_cab_mszip_no_fault_partial`): under
  the decoders' own invariants a CAB decode call can end only in `hang` or one of those two null
  dereferences — so no `oob`, `uninit`, `divZero`, `shiftWidth`, for every feeder state.
* **stored folders** (`C02_cab_none_no_fault`): from a live feeder, no fault but the loop bound.
* **LZX**: `LenStable (feederSrc files) L₀` is FALSE as stated, for every `L₀` and every `files`
  (`C02_cab_lenStable_fails`): the hypothesis quantifies over all source states, and feeder
  states that were never reached from a fresh folder announce whatever is in `lzxLen`.  What holds
  is the restricted form (`C02_cab_lzx_lenStable_on`): the states satisfying `FeederLen files L`
  are closed under `read` and announce only `L`; a fresh feeder satisfies it for
  `L = totalOut …` (the folder's total uncompressed size as the block headers give it).
  `C02_cab_lzx_no_oob_partial` is the decoder theorem for the source that differs from the
  feeder only by ignoring announcements other than `L`.

What is missing (see the report): the `nullDeref` outcome for Quantum/MSZIP and every outcome for
LZX need the decoder proofs to carry a *source-state invariant* (`st.error = .ok → I st.src`)
through every helper; the hypotheses of the existing decoder theorems are global in the source
state and cannot express it.
-/
namespace MsPack.CabLift
open MsPack MsPack.Generated MsPack.Cab

/-! ## the feeder -/

/-- every fault of the feeder, in any state: one of the two null dereferences of the block reader -/
theorem C02_cab_feeder_fault_kinds (files : Files) (fd : Feeder) (n : Nat) (f : Fault)
    (h : (feederSrc files).read fd n = .error f) : f = ndInfh ∨ f = ndData :=
  feederSrc_read_fault_kinds files fd n f h

/-- a live feeder raises no fault -/
theorem C02_cab_feeder_no_fault (files : Files) (fd : Feeder) (n : Nat) (f : Fault) (hl : FeederLive fd) :
    (feederSrc files).read fd n ≠ .error f :=
  feederSrc_read_no_fault files fd n f hl

/-- … stays live when it delivers bytes … -/
theorem C02_cab_feeder_live (files : Files) (fd : Feeder) (n : Nat) (g : Bytes) (fd' : Feeder)
    (hl : FeederLive fd) (h : (feederSrc files).read fd n = .ok (some g, fd')) : FeederLive fd' :=
  feederSrc_read_live files fd n g fd' hl h

/-- … and has recorded an error when it returns -1 -/
theorem C02_cab_feeder_none (files : Files) (fd : Feeder) (n : Nat) (fd' : Feeder)
    (h : (feederSrc files).read fd n = .ok (none, fd')) : fd'.readError ≠ .ok :=
  feederSrc_read_none files fd n fd' h

/-- the feeder `cabd_extract` sets up for a folder is live and has announced nothing -/
theorem C02_cab_fresh_feeder (files : Files) (p : Params) (m : Member) (key : Nat) (ds : DState)
    (h : freshDState files p m key = .ok ds) :
    FeederLive ds.feeder ∧ ds.feeder.lzxLen = none ∧ ds.feeder.block = 0 ∧ ds.feeder.outlen = 0 := by
  unfold freshDState at h
  split at h
  · contradiction
  · rename_i part rest hp
    split at h
    · contradiction
    · split at h
      · contradiction
      · simp only [Except.ok.injEq] at h
        subst h
        exact ⟨⟨rfl, by rw [hp]; simp⟩, rfl, rfl, rfl⟩

/-- the liveness invariant is not preserved by a read that returns -1: a split block whose chain
    of cabinets ends closes the handle (so safety after a read error rests on the decoders'
    sticky error) -/
def deadFile : Bytes := [0, 0, 0, 0, 1, 0, 0, 0, 65]   -- one block, 1 byte, `out = 0` (split), no next cabinet
def deadFiles : Files := [("a.cab", deadFile)]
def deadFeeder : Feeder :=
  { rd := some ⟨deadFile, 0⟩, parts := [⟨"a.cab", 0, 0⟩], block := 0, numBlocks := 2, outlen := 0, buf := [],
    compType := 1, readError := .ok, lzxLen := none, salvage := false, fixMszip := false }

def deadAfterError : Bool :=
  match (feederSrc deadFiles).read deadFeeder 1 with
  | .ok (none, fd') =>
    fd'.rd.isNone && fd'.readError == .dataformat &&
      (match (feederSrc deadFiles).read fd' 1 with
       | .error (.nullDeref _) => true
       | _ => false)
  | _ => false

example : deadAfterError = true := by decide +kernel

/-! ## Quantum and MSZIP folders -/

/-- **Quantum in a cabinet, all fault kinds**: under the decoder invariant a call ends, if in a
    fault at all, in the iteration bound or in one of the block reader's two null dereferences —
    for every feeder state; in particular never `oob`, `uninit`, `divZero`, `shiftWidth` -/
theorem C02_cab_qtm_no_fault_partial (files : Files) (fuel : Nat) (st : Qtm.St Feeder) (n : Nat)
    (h : Qtm.StInv st) (f : Fault) (hf : Qtm.decompress (feederSrc files) fuel st n = .error f) :
    f = .hang ∨ f = ndInfh ∨ f = ndData := by
  rcases Qtm.C02_qtm_fault_origin (feederSrc files) fuel st n h f hf with hh | ⟨s, k, hr⟩
  · exact Or.inl hh
  · exact Or.inr (feederSrc_read_fault_kinds files s k f hr)

theorem C02_cab_qtm_no_ub (files : Files) (fuel : Nat) (st : Qtm.St Feeder) (n : Nat) (h : Qtm.StInv st) :
    (∀ w, Qtm.decompress (feederSrc files) fuel st n ≠ .error (.oob w)) ∧
    (∀ w, Qtm.decompress (feederSrc files) fuel st n ≠ .error (.uninit w)) ∧
    Qtm.decompress (feederSrc files) fuel st n ≠ .error .divZero ∧
    Qtm.decompress (feederSrc files) fuel st n ≠ .error .shiftWidth := by
  refine ⟨fun w hf => ?_, fun w hf => ?_, fun hf => ?_, fun hf => ?_⟩ <;>
    rcases C02_cab_qtm_no_fault_partial files fuel st n h _ hf with h1 | h1 | h1 <;> cases h1

/-- **MSZIP in a cabinet, all fault kinds**: the same -/
theorem C02_cab_mszip_no_fault_partial (files : Files) (fuel : Nat) (st : Zip.St Feeder) (n : Nat)
    (h : Zip.ZipInv st) (f : Fault) (hf : Zip.decompress (feederSrc files) fuel st n = .error f) :
    f = .hang ∨ f = ndInfh ∨ f = ndData := by
  cases Zip.C02_zip_decompress_faults (feederSrc files) fuel st n h f hf with
  | hang => exact Or.inl rfl
  | src s k _ hr => exact Or.inr (feederSrc_read_fault_kinds files s k f hr)

theorem C02_cab_mszip_no_ub (files : Files) (fuel : Nat) (st : Zip.St Feeder) (n : Nat) (h : Zip.ZipInv st) :
    (∀ w, Zip.decompress (feederSrc files) fuel st n ≠ .error (.oob w)) ∧
    (∀ w, Zip.decompress (feederSrc files) fuel st n ≠ .error (.uninit w)) ∧
    Zip.decompress (feederSrc files) fuel st n ≠ .error .divZero ∧
    Zip.decompress (feederSrc files) fuel st n ≠ .error .shiftWidth := by
  refine ⟨fun w hf => ?_, fun w hf => ?_, fun hf => ?_, fun hf => ?_⟩ <;>
    rcases C02_cab_mszip_no_fault_partial files fuel st n h _ hf with h1 | h1 | h1 <;> cases h1

/-! ## stored folders -/

theorem nonedDecompress_no_fault (files : Files) (bs : Nat) : ∀ (fuel : Nat) (fd : Feeder) (bytes : Nat)
    (w : Bytes) (f : Fault), FeederLive fd → nonedDecompress files bs fuel fd bytes w = .error f → f = .hang := by
  intro fuel
  induction fuel with
  | zero => intro fd bytes w f _ h; simp only [nonedDecompress, Except.error.injEq] at h; exact h.symm
  | succ fuel ih =>
    intro fd bytes w f hl h
    unfold nonedDecompress at h
    split at h
    · contradiction
    · simp only at h
      generalize (if bytes > bs then bs else bytes) = run at h
      split at h
      · rename_i f' hr
        exact absurd hr (feederSrc_read_no_fault files fd _ f' hl)
      · contradiction
      · rename_i got fd' hr
        split at h
        · contradiction
        · exact ih _ _ _ _ (feederSrc_read_live files fd _ got fd' hl hr) h

/-- **stored (`none`) folders**: from a live feeder, a `decompress` call of `cabd_extract` ends in no
    fault but its own loop bound -/
theorem C02_cab_none_no_fault (files : Files) (bs : Nat) (e : Err) (fd : Feeder) (n : Nat) (f : Fault)
    (hl : FeederLive fd) (h : Cab.decompress files (.none bs e) fd n = .error f) : f = .hang := by
  unfold Cab.decompress at h
  simp only at h
  split at h
  · contradiction
  · cases hn : nonedDecompress files bs (n / max bs 1 + 2) fd n [] with
    | ok o => rw [hn] at h; contradiction
    | error f' =>
      rw [hn] at h
      simp only [Except.map, Except.error.injEq] at h
      subst h
      exact nonedDecompress_no_fault files bs _ fd n [] f' hl hn

/-- what a stored-folder call returns: the decoder carries the status it returned, and after `OK` the
    feeder is still live -/
def NoneOut (bs : Nat) (o : DecOut) : Prop := o.dec = .none bs o.err ∧ (o.err = .ok → FeederLive o.feeder)

theorem nonedDecompress_out (files : Files) (bs : Nat) : ∀ (fuel : Nat) (fd : Feeder) (bytes : Nat)
    (w : Bytes) (o : DecOut), FeederLive fd → nonedDecompress files bs fuel fd bytes w = .ok o → NoneOut bs o := by
  intro fuel
  induction fuel with
  | zero => intro fd bytes w o _ h; simp only [nonedDecompress] at h; contradiction
  | succ fuel ih =>
    intro fd bytes w o hl h
    unfold nonedDecompress at h
    split at h
    · simp only [Except.ok.injEq] at h
      subst h
      exact ⟨rfl, fun _ => hl⟩
    · simp only at h
      generalize (if bytes > bs then bs else bytes) = run at h
      split at h
      · contradiction
      · simp only [Except.ok.injEq] at h
        subst h
        exact ⟨rfl, fun e => by cases e⟩
      · rename_i got fd' hr
        split at h
        · simp only [Except.ok.injEq] at h
          subst h
          exact ⟨rfl, fun e => by cases e⟩
        · exact ih _ _ _ _ (feederSrc_read_live files fd _ got fd' hl hr) h

/-- between the calls on a stored folder: the sticky status is set, or the feeder is live -/
def NoneInv : Dec → Feeder → Prop
  | .none _ e, fd => e = .ok → FeederLive fd
  | _, _ => False

/-- any number of `decompress` calls of `cabd_extract` on one folder (skip phases, output phases, the
    members of the folder one after the other) -/
def cabCalls (files : Files) : Dec → Feeder → List Nat → Except Fault (Dec × Feeder)
  | dec, fd, [] => .ok (dec, fd)
  | dec, fd, n :: ns =>
    match Cab.decompress files dec fd n with
    | .error f => .error f
    | .ok none => .ok (dec, fd)
    | .ok (some o) => cabCalls files o.dec o.feeder ns

/-- **stored folders, any number of calls**: from a live feeder (`C02_cab_fresh_feeder`) no sequence of
    calls ends in a fault other than the loop bound — read errors included, because the status is
    sticky -/
theorem C02_cab_none_calls_no_fault (files : Files) : ∀ (ns : List Nat) (dec : Dec) (fd : Feeder) (f : Fault),
    NoneInv dec fd → cabCalls files dec fd ns = .error f → f = .hang
  | [], _, _, _, _, h => by simp only [cabCalls] at h; contradiction
  | n :: ns, dec, fd, f, hinv, h => by
    cases dec with
    | none bs e =>
      rw [cabCalls] at h
      by_cases he : e = .ok
      · have hl : FeederLive fd := hinv he
        cases hd : Cab.decompress files (.none bs e) fd n with
        | error f' =>
          rw [hd] at h
          simp only [Except.error.injEq] at h
          subst h
          exact C02_cab_none_no_fault files bs e fd n f' hl hd
        | ok r =>
          rw [hd] at h
          cases r with
          | none => simp only at h; contradiction
          | some o =>
            simp only at h
            refine C02_cab_none_calls_no_fault files ns o.dec o.feeder f ?_ h
            unfold Cab.decompress at hd
            simp only at hd
            rw [if_neg (by simpa using he)] at hd
            cases hn : nonedDecompress files bs (n / max bs 1 + 2) fd n [] with
            | error f' => rw [hn] at hd; simp only [Except.map] at hd; contradiction
            | ok o' =>
              rw [hn] at hd
              simp only [Except.map, Except.ok.injEq, Option.some.injEq] at hd
              subst hd
              have ho := nonedDecompress_out files bs _ fd n [] o' hl hn
              rw [ho.1]
              exact ho.2
      · have hd : Cab.decompress files (.none bs e) fd n = .ok (some ⟨e, [], .none bs e, fd⟩) := by
          unfold Cab.decompress
          simp only
          rw [if_pos he]
        rw [hd] at h
        simp only at h
        exact C02_cab_none_calls_no_fault files ns (.none bs e) fd f (fun e' => absurd e' he) h
    | mszip st => exact hinv.elim
    | qtm st => exact hinv.elim
    | lzx st => exact hinv.elim
    | unsupported m => exact hinv.elim

/-- one `decompress` of `cabd_extract`, Quantum / MSZIP / stored / not-built decoders: every fault
    is the bound or one of the two null dereferences -/
def DecInv : Dec → Prop
  | .none _ _ => True
  | .mszip st => Zip.ZipInv st
  | .qtm st => Qtm.StInv st
  | .lzx _ => False
  | .unsupported _ => True

theorem nonedDecompress_fault_kinds (files : Files) (bs : Nat) : ∀ (fuel : Nat) (fd : Feeder) (bytes : Nat)
    (w : Bytes) (f : Fault), nonedDecompress files bs fuel fd bytes w = .error f →
    f = .hang ∨ f = ndInfh ∨ f = ndData := by
  intro fuel
  induction fuel with
  | zero => intro fd bytes w f h; simp only [nonedDecompress, Except.error.injEq] at h; exact Or.inl h.symm
  | succ fuel ih =>
    intro fd bytes w f h
    unfold nonedDecompress at h
    split at h
    · contradiction
    · simp only at h
      generalize (if bytes > bs then bs else bytes) = run at h
      split at h
      · rename_i f' hr
        simp only [Except.error.injEq] at h
        subst h
        exact Or.inr (feederSrc_read_fault_kinds files fd _ f' hr)
      · contradiction
      · split at h
        · contradiction
        · exact ih _ _ _ _ h

theorem C02_cab_decompress_fault_kinds (files : Files) (dec : Dec) (fd : Feeder) (n : Nat) (f : Fault)
    (hd : DecInv dec) (h : Cab.decompress files dec fd n = .error f) : f = .hang ∨ f = ndInfh ∨ f = ndData := by
  unfold Cab.decompress at h
  cases dec with
  | none bs e =>
    simp only at h
    split at h
    · contradiction
    · cases hn : nonedDecompress files bs (n / max bs 1 + 2) fd n [] with
      | ok o => rw [hn] at h; contradiction
      | error f' =>
        rw [hn] at h
        simp only [Except.map, Except.error.injEq] at h
        subst h
        exact nonedDecompress_fault_kinds files bs _ fd n [] f' hn
  | mszip st =>
    simp only at h
    split at h
    · rename_i f' hz
      simp only [Except.error.injEq] at h
      subst h
      exact C02_cab_mszip_no_fault_partial files _ { st with src := fd } n hd f' hz
    · contradiction
  | qtm st =>
    simp only at h
    split at h
    · rename_i f' hz
      simp only [Except.error.injEq] at h
      subst h
      exact C02_cab_qtm_no_fault_partial files _ { st with src := fd } n (Qtm.StInv_src st fd hd) f' hz
    · contradiction
  | lzx st => exact hd.elim
  | unsupported m => simp only at h; contradiction

/-! ## LZX folders: the announced length -/

/-- `LenStable` does not hold for the feeder, whatever `L₀` and `files`: the hypothesis ranges over
    all source states, and a feeder state that holds `lzxLen = some 7` announces 7 (after a read of
    0 bytes), another one 9 -/
theorem C02_cab_lenStable_fails (files : Files) (L₀ : Nat) : ¬ Lzx.LenStable (feederSrc files) L₀ := by
  intro h
  have h7 := h { nullFeeder with lzxLen := some 7 } 0 (some []) { nullFeeder with lzxLen := some 7 } 7 rfl rfl
  have h9 := h { nullFeeder with lzxLen := some 9 } 0 (some []) { nullFeeder with lzxLen := some 9 } 9 rfl rfl
  omega

/-- **`LenStable` restricted to the feeders of one folder**: the states satisfying `FeederLen files L`
    are closed under `read` (whatever it returns), and every announcement made from them is `L` -/
theorem C02_cab_lzx_lenStable_on (files : Files) (L : Nat) (fd : Feeder) (n : Nat) (r : Option Bytes)
    (fd' : Feeder) (hL : FeederLen files L fd) (h : (feederSrc files).read fd n = .ok (r, fd')) :
    FeederLen files L fd' ∧ ∀ m, (feederSrc files).lzxLength fd' = some m → m = L :=
  feederSrc_len_stable files L fd n r fd' hL h

/-- a feeder that has announced nothing satisfies the invariant for exactly one `L`: the sum of the
    uncompressed sizes in the headers of the blocks still to come (+ `outlen`) -/
theorem C02_cab_lzx_len_exists (files : Files) (fd : Feeder) (h : fd.lzxLen = none) :
    ∃ L, FeederLen files L fd :=
  ⟨_, feederLen_exists files fd h⟩

/-- the feeder, deaf to announcements other than `L` -/
def lenFiltered (files : Files) (L : Nat) : Src Feeder :=
  { read := (feederSrc files).read
    lzxLength := fun fd => if fd.lzxLen = some L then some L else none }

theorem lenFiltered_stable (files : Files) (L : Nat) : Lzx.LenStable (lenFiltered files L) L := by
  intro x n got x' m _ hm
  simp only [lenFiltered] at hm
  split at hm
  · exact Or.inr (Option.some.inj hm).symm
  · contradiction

/-- on the states of one folder the filter changes nothing -/
theorem lenFiltered_agrees (files : Files) (L : Nat) (fd : Feeder) (hL : FeederLen files L fd) :
    (lenFiltered files L).lzxLength fd = (feederSrc files).lzxLength fd := by
  show (if fd.lzxLen = some L then some L else none) = fd.lzxLen
  rcases hL.1 with h | h
  · rw [h]; simp
  · rw [h]; simp

/-- **LZX in a cabinet (partial)**: for the filtered feeder — which reads exactly like the feeder and
    agrees with it on every state of the folder (`lenFiltered_agrees`, `C02_cab_lzx_lenStable_on`) —
    no out-of-bounds outcome below 2 GiB.  The step from here to `feederSrc files` itself (the two
    runs coincide from a state whose source satisfies `FeederLen files L`) is not proved. -/
theorem C02_cab_lzx_no_oob_partial (files : Files) (L : Nat) (fuel : Nat) (st : Lzx.St Feeder) (n : Nat)
    (hinv : Lzx.LzxInv L st) (ho : st.offset + n < 2147483648) (s : String) :
    Lzx.decompress (lenFiltered files L) fuel st n ≠ .error (.oob s) :=
  Lzx.C02_lzx_no_oob (lenFiltered files L) L (lenFiltered_stable files L)
    (fun x k s => feederRead_no_oob files _ x k [] s) fuel st n hinv ho s

/-- … and every fault of that run is the bound, an unbuilt table, or one of the two null dereferences -/
theorem C02_cab_lzx_faults_partial (files : Files) (L : Nat) (fuel : Nat) (st : Lzx.St Feeder) (n : Nat)
    (hinv : Lzx.LzxInv L st) (ho : st.offset + n < 2147483648) (f : Fault)
    (h : Lzx.decompress (lenFiltered files L) fuel st n = .error f) :
    f = .hang ∨ (∃ s, f = .uninit s) ∨ f = ndInfh ∨ f = ndData := by
  rcases Lzx.C02_lzx_faults_benign (lenFiltered files L) L (lenFiltered_stable files L) fuel st n hinv ho f h
    with h1 | h1 | ⟨x, k, h1⟩
  · exact Or.inl h1
  · exact Or.inr (Or.inl h1)
  · exact Or.inr (Or.inr (feederSrc_read_fault_kinds files x k f h1))

/-- the missing step made explicit: IF the run over the feeder coincides with the run over the filtered
    feeder (which is what a source-invariant-aware walk through the decoder would give from
    `FeederLen files L st.src`, by `lenFiltered_agrees` and `C02_cab_lzx_lenStable_on`), then the CAB LZX
    call has no out-of-bounds outcome -/
theorem C02_cab_lzx_no_oob_of_run_eq_partial (files : Files) (L : Nat) (fuel : Nat) (st : Lzx.St Feeder) (n : Nat)
    (hinv : Lzx.LzxInv L st) (ho : st.offset + n < 2147483648)
    (hrun : Lzx.decompress (feederSrc files) fuel st n = Lzx.decompress (lenFiltered files L) fuel st n)
    (s : String) : Lzx.decompress (feederSrc files) fuel st n ≠ .error (.oob s) := by
  rw [hrun]
  exact C02_cab_lzx_no_oob_partial files L fuel st n hinv ho s

/-! ## the interface the decoder proofs would need -/

/-- a source-state invariant in the form a decoder proof can thread (`st.error = .ok → I st.src`): no
    fault from a state satisfying it, kept by every read that delivers bytes, announcements only `L` -/
structure SrcInvOK {σ : Type} (S : Src σ) (I : σ → Prop) (L : Nat) : Prop where
  no_fault : ∀ x n f, I x → S.read x n ≠ .error f
  keep : ∀ x n g x', I x → S.read x n = .ok (some g, x') → I x'
  len : ∀ x n r x' m, I x → S.read x n = .ok (r, x') → S.lzxLength x' = some m → m = L

/-- the feeder provides it, for the states of one folder -/
theorem C02_cab_feeder_srcInv (files : Files) (L : Nat) :
    SrcInvOK (feederSrc files) (fun fd => FeederLive fd ∧ FeederLen files L fd) L where
  no_fault := fun x n f hi => feederSrc_read_no_fault files x n f hi.1
  keep := fun x n g x' hi h =>
    ⟨feederSrc_read_live files x n g x' hi.1 h, (feederSrc_len_stable files L x n _ x' hi.2 h).1⟩
  len := fun x n r x' m hi h hm => (feederSrc_len_stable files L x n r x' hi.2 h).2 m hm

/-! ## non-vacuity -/

/-- a one-block LZX folder: header (no checksum, 3 bytes in, 3 bytes out) + payload -/
def demoFile : Bytes := [0, 0, 0, 0, 3, 0, 3, 0, 10, 20, 30]
def demoFiles : Files := [("a.cab", demoFile)]
def demoFeeder : Feeder :=
  { rd := some ⟨demoFile, 0⟩, parts := [⟨"a.cab", 0, 0⟩], block := 0, numBlocks := 1, outlen := 0, buf := [],
    compType := 3, readError := .ok, lzxLen := none, salvage := false, fixMszip := false }

/-- the demo feeder is live, and `FeederLen … 3` holds of it -/
example : FeederLive demoFeeder := ⟨rfl, by simp [demoFeeder]⟩
example : FeederLen demoFiles 3 demoFeeder := ⟨Or.inl rfl, fun _ => by decide +kernel⟩

/-- a read from it delivers the block's bytes and announces the folder's length, 3 -/
example : (match (feederSrc demoFiles).read demoFeeder 2 with
    | .ok (some g, fd') => g == [10, 20] && fd'.lzxLen == some 3 && fd'.buf == [30]
    | _ => false) = true := by decide +kernel

/-- a stored folder: `decompress` through `Cab.decompress` returns the bytes -/
example : (match Cab.decompress demoFiles (.none 4096 .ok) { demoFeeder with compType := 0 } 3 with
    | .ok (some o) => o.err == .ok && o.written == [10, 20, 30]
    | _ => false) = true := by decide +kernel

/-- two calls on a stored folder -/
example : (match cabCalls demoFiles (.none 4096 .ok) { demoFeeder with compType := 0 } [1, 2] with
    | .ok (.none _ e, fd) => e == .ok && fd.block == 1
    | _ => false) = true := by decide +kernel

end MsPack.CabLift
