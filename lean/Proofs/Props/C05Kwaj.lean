import Proofs.Lemmas.CabEncode
import MsPack.Kwaj.Extract
import MsPack.Spec.Kwaj
/-!
# C05 — KWAJ: header fields and stored / xor payloads

`encodeKwaj` lays out a KWAJ file without a name or extension field (those go through `kwajd.c`'s
pointer arithmetic over a 13-byte buffer and are covered by differential runs only): signature, method
(0 = stored, 1 = xor 0xFF), data offset, flags, then the optional parts the flags announce — unpacked
length, a 2-byte field, a length-prefixed blob, length-prefixed extra text — then the payload.

`C05_kwaj_plain_roundtrip`: for all 16 combinations of those optional parts, any field values, any
payload, both methods: `open()` reports exactly the method, data offset, flag word, length and extra
text, and `decompress()` returns OK and writes exactly the data.
-/
namespace MsPack.Kwaj
open MsPack MsPack.Generated
open MsPack.Oab (enc32 read_prefix readExact_prefix drop_after ofNat_toNat_lt)
open MsPack.Cab (enc16 u16_enc16 u32_enc32)

def KwajSpec.wf (k : KwajSpec) : Prop :=
  (∀ n, k.length = some n → n < 4294967296) ∧ (∀ n, k.unk1 = some n → n < 65536) ∧
  (∀ b, k.unk2 = some b → b.length < 65536) ∧ (∀ b, k.extra = some b → b.length < 65536) ∧ k.dataOffset < 65536

theorem flags_has (k : KwajSpec) :
    hasFlag k.flags hdrHASLENGTH = k.length.isSome ∧ hasFlag k.flags hdrHASUNKNOWN1 = k.unk1.isSome ∧
    hasFlag k.flags hdrHASUNKNOWN2 = k.unk2.isSome ∧ hasFlag k.flags (hdrHASFILENAME ||| hdrHASFILEEXT) = false ∧
    hasFlag k.flags hdrHASEXTRATEXT = k.extra.isSome ∧ k.flags < 65536 := by
  unfold KwajSpec.flags
  cases k.length.isSome <;> cases k.unk1.isSome <;> cases k.unk2.isSome <;> cases k.extra.isSome <;> decide

def KwajSpec.listed (k : KwajSpec) : Header :=
  { compType := if k.xor then 1 else 0, dataOffset := k.dataOffset, headers := k.flags, length := k.length.getD 0,
    filename := none, extra := k.extra, extraLength := (k.extra.getD []).length }

theorem kwaj_hdr_fields (k : KwajSpec) (hwf : k.wf) :
    let h := enc32 0x4A41574B ++ enc32 0xD127F088 ++ enc16 (if k.xor then 1 else 0) ++ enc16 k.dataOffset ++ enc16 k.flags
    h.length = 14 ∧ u32At h 0 = 0x4A41574B ∧ u32At h 4 = 0xD127F088 ∧ u16At h 8 = (if k.xor then 1 else 0) ∧
    u16At h 10 = k.dataOffset ∧ u16At h 12 = k.flags := by
  have hfl := (flags_has k).2.2.2.2.2
  have hdo := hwf.2.2.2.2
  have hm : (if k.xor then 1 else 0 : Nat) < 65536 := by split <;> omega
  refine ⟨rfl, ?_, ?_, ?_, ?_, ?_⟩
  · have := u32_enc32 0x4A41574B (by omega) [] (enc32 0xD127F088 ++ enc16 (if k.xor then 1 else 0) ++ enc16 k.dataOffset ++ enc16 k.flags)
    simpa [List.append_assoc] using this
  · have := u32_enc32 0xD127F088 (by omega) (enc32 0x4A41574B) (enc16 (if k.xor then 1 else 0) ++ enc16 k.dataOffset ++ enc16 k.flags)
    simpa [List.append_assoc, enc32] using this
  · have := u16_enc16 (if k.xor then 1 else 0) hm (enc32 0x4A41574B ++ enc32 0xD127F088) (enc16 k.dataOffset ++ enc16 k.flags)
    simpa [List.append_assoc, enc32] using this
  · have := u16_enc16 k.dataOffset hdo (enc32 0x4A41574B ++ enc32 0xD127F088 ++ enc16 (if k.xor then 1 else 0)) (enc16 k.flags)
    simpa [List.append_assoc, enc32, enc16] using this
  · have := u16_enc16 k.flags hfl (enc32 0x4A41574B ++ enc32 0xD127F088 ++ enc16 (if k.xor then 1 else 0) ++ enc16 k.dataOffset) []
    simpa [List.append_assoc, enc32, enc16] using this

theorem u16_enc16_at0 (n : Nat) (h : n < 65536) : u16At (enc16 n) 0 = n := by
  have := u16_enc16 n h [] []; simpa using this

theorem u32_enc32_at0 (n : Nat) (h : n < 4294967296) : u32At (enc32 n) 0 = n := by
  have := u32_enc32 n h [] []; simpa using this

theorem step_length (k : KwajSpec) (hw : ∀ n, k.length = some n → n < 4294967296) (hdr : Header) (hh : hdr.headers = k.flags)
    (file : Bytes) (pos : Nat) (rest : Bytes) (hd : file.drop pos = optLength k ++ rest) :
    readOptLength hdr ⟨file, pos⟩ = (.ok { hdr with length := if k.length.isSome then k.length.getD 0 else hdr.length },
                                     ⟨file, pos + (optLength k).length⟩) := by
  unfold readOptLength
  rw [hh, (flags_has k).1]
  cases hl : k.length with
  | none => simp [optLength, hl]; cases hdr; simp_all
  | some n =>
    have hd' : file.drop pos = enc32 n ++ rest := by simpa [optLength, hl] using hd
    have hre := readExact_prefix file pos _ _ hd'
    have : (enc32 n).length = 4 := rfl
    rw [this] at hre
    simp only [Option.isSome_some, ↓reduceIte, hre, optLength, hl, u32_enc32_at0 n (hw n hl), Option.getD_some, this]

theorem step_unk1 (k : KwajSpec) (hw : ∀ n, k.unk1 = some n → n < 65536) (file : Bytes) (pos : Nat) (rest : Bytes)
    (hd : file.drop pos = optUnk1 k ++ rest) :
    skipUnknown1 k.flags ⟨file, pos⟩ = (.ok (), ⟨file, pos + (optUnk1 k).length⟩) := by
  unfold skipUnknown1
  rw [(flags_has k).2.1]
  cases hl : k.unk1 with
  | none => simp [optUnk1, hl]
  | some n =>
    have hd' : file.drop pos = enc16 n ++ rest := by simpa [optUnk1, hl] using hd
    have hre := readExact_prefix file pos _ _ hd'
    have : (enc16 n).length = 2 := rfl
    rw [this] at hre
    simp only [Option.isSome_some, ↓reduceIte, hre, optUnk1, hl, this]

theorem step_unk2 (k : KwajSpec) (hw : ∀ b, k.unk2 = some b → b.length < 65536) (file : Bytes) (pos : Nat) (rest : Bytes)
    (hd : file.drop pos = optUnk2 k ++ rest) :
    skipUnknown2 k.flags ⟨file, pos⟩ = (.ok (), ⟨file, pos + (optUnk2 k).length⟩) := by
  unfold skipUnknown2
  rw [(flags_has k).2.2.1]
  cases hl : k.unk2 with
  | none => simp [optUnk2, hl]
  | some b =>
    have hd' : file.drop pos = enc16 b.length ++ (b ++ rest) := by simpa [optUnk2, hl, List.append_assoc] using hd
    have hre := readExact_prefix file pos _ _ hd'
    have : (enc16 b.length).length = 2 := rfl
    rw [this] at hre
    simp only [Option.isSome_some, ↓reduceIte, hre, optUnk2, hl, u16_enc16_at0 _ (hw b hl), Rd.seekCur, List.length_append, this]
    congr 2; omega

theorem step_extra (k : KwajSpec) (hw : ∀ b, k.extra = some b → b.length < 65536) (hdr : Header) (hh : hdr.headers = k.flags)
    (file : Bytes) (pos : Nat) (rest : Bytes) (hd : file.drop pos = optExtra k ++ rest) :
    readExtra hdr ⟨file, pos⟩ = (.ok { hdr with extra := if k.extra.isSome then k.extra else hdr.extra,
                                                extraLength := if k.extra.isSome then (k.extra.getD []).length else hdr.extraLength },
                                 ⟨file, pos + (optExtra k).length⟩) := by
  unfold readExtra
  rw [hh, (flags_has k).2.2.2.2.1]
  cases hl : k.extra with
  | none => simp [optExtra, hl]; cases hdr; simp_all
  | some b =>
    have hd' : file.drop pos = enc16 b.length ++ (b ++ rest) := by simpa [optExtra, hl, List.append_assoc] using hd
    have hre := readExact_prefix file pos _ _ hd'
    have h2 : (enc16 b.length).length = 2 := rfl
    rw [h2] at hre
    have hd2 := drop_after file pos _ _ hd'
    rw [h2] at hd2
    have hre2 := readExact_prefix file (pos + 2) b rest hd2
    simp only [Option.isSome_some, ↓reduceIte, hre, u16_enc16_at0 _ (hw b hl), hre2, optExtra, hl, Option.getD_some,
      List.length_append, h2]
    congr 2; omega

/-- `kwajd_read_headers` on the layout: exactly the specified header, the handle at the data offset -/
theorem readHeaders_spec (fill : UInt8) (k : KwajSpec) (hwf : k.wf) :
    readHeaders fill ⟨encodeKwaj k, 0⟩ = .ok (.ok k.listed, ⟨encodeKwaj k, k.dataOffset⟩) := by
  obtain ⟨hl14, s0, s4, f8, f10, f12⟩ := kwaj_hdr_fields k hwf
  obtain ⟨g1, g2, g3, g4, g5, _⟩ := flags_has k
  obtain ⟨w1, w2, w3, w4, _⟩ := hwf
  have hd0 : (encodeKwaj k).drop 0 = _ ++ (optLength k ++ (optUnk1 k ++ (optUnk2 k ++ (optExtra k ++ payload k)))) := rfl
  have hre := readExact_prefix _ 0 _ _ hd0
  rw [hl14] at hre
  have hd14 := drop_after _ 0 _ _ hd0
  rw [hl14] at hd14
  unfold readHeaders
  rw [show kwajhSIZEOF = 14 from rfl, hre]
  generalize enc32 0x4A41574B ++ enc32 0xD127F088 ++ enc16 (if k.xor then 1 else 0) ++ enc16 k.dataOffset ++ enc16 k.flags = hb at s0 s4 f8 f10 f12
  simp only [s0, s4, f8, f10, f12, ne_eq, not_true_eq_false, or_self, ↓reduceIte]
  -- the optional parts, one after the other; `P` = position reached
  generalize hfile : encodeKwaj k = file at hd14 ⊢
  -- length
  have e1 : ∃ P1, P1 = 0 + 14 + (optLength k).length ∧ file.drop P1 = optUnk1 k ++ (optUnk2 k ++ (optExtra k ++ payload k)) :=
    ⟨_, rfl, drop_after file (0 + 14) _ _ hd14⟩
  obtain ⟨P1, hP1, hd1⟩ := e1
  have e2 : ∃ P2, P2 = P1 + (optUnk1 k).length ∧ file.drop P2 = optUnk2 k ++ (optExtra k ++ payload k) := ⟨_, rfl, drop_after file P1 _ _ hd1⟩
  obtain ⟨P2, hP2, hd2⟩ := e2
  have e3 : ∃ P3, P3 = P2 + (optUnk2 k).length ∧ file.drop P3 = optExtra k ++ payload k := ⟨_, rfl, drop_after file P2 _ _ hd2⟩
  obtain ⟨P3, hP3, hd3⟩ := e3
  have hdo : k.dataOffset = P3 + (optExtra k).length := by simp only [KwajSpec.dataOffset]; omega
  rw [step_length k w1 _ rfl file (0 + 14) _ hd14]
  simp only
  rw [← hP1, step_unk1 k w2 file P1 _ hd1]
  simp only
  rw [← hP2, step_unk2 k w3 file P2 _ hd2]
  simp only
  rw [← hP3]
  have hnames : ∀ (h : Header), h.headers = k.flags → readNames fill h ⟨file, P3⟩ = .ok (.ok h, ⟨file, P3⟩) := by
    intro h hh; unfold readNames; rw [hh, g4]; rfl
  rw [hnames _ rfl]
  simp only
  rw [step_extra k w4 _ rfl file P3 _ hd3, ← hdo]
  congr 3
  simp only [KwajSpec.listed]
  cases k.length <;> cases k.extra <;> simp

theorem xor_ff_twice (b : UInt8) : (b ^^^ 0xFF) ^^^ 0xFF = b := by
  rw [UInt8.xor_assoc, UInt8.xor_self, UInt8.xor_zero]

/-- the copy loop of methods NONE / XOR moves everything up to the end of the file, in chunks of 2048 -/
theorem copyLoop_spec (xor : Bool) (file : Bytes) : ∀ (fuel pos : Nat) (P : Bytes) (w : Array UInt8),
    file.drop pos = P → ((P = [] ∧ 1 ≤ fuel) ∨ P.length / 2048 + 2 ≤ fuel) →
    ∃ r, copyLoop xor fuel ⟨file, pos⟩ w = .ok (w ++ (if xor then P.map (· ^^^ 0xFF) else P).toArray, r) := by
  intro fuel
  induction fuel with
  | zero =>
    intro pos P w _ hf
    have := Nat.zero_le (P.length / 2048)
    rcases hf with ⟨_, h⟩ | h <;> omega
  | succ fuel ih =>
    intro pos P w hd hf
    rw [copyLoop.eq_2]
    simp only [Rd.read, hd, show kwajINPUT_SIZE = 2048 from rfl]
    by_cases hP : P = []
    · subst hP; simp
    · have hf : P.length / 2048 + 2 ≤ fuel + 1 := by
        rcases hf with ⟨h, _⟩ | h
        · exact absurd h hP
        · exact h
      have hne : (P.take 2048).isEmpty = false := by
        cases P with
        | nil => exact absurd rfl hP
        | cons a as => rfl
      simp only [hne, Bool.false_eq_true, ↓reduceIte]
      have hd' : file.drop (pos + (P.take 2048).length) = P.drop 2048 := by
        rw [← List.drop_drop, hd, List.length_take]
        by_cases h : 2048 ≤ P.length
        · rw [Nat.min_eq_left h]
        · have : P.length ≤ 2048 := by omega
          rw [Nat.min_eq_right this, List.drop_of_length_le (Nat.le_refl _), List.drop_of_length_le this]
      have hf' : (P.drop 2048 = [] ∧ 1 ≤ fuel) ∨ (P.drop 2048).length / 2048 + 2 ≤ fuel := by
        by_cases h : 2048 ≤ P.length
        · right
          rw [List.length_drop]
          have := Nat.div_eq_sub_div (by decide : 0 < 2048) h; omega
        · left
          have := Nat.zero_le (P.length / 2048)
          exact ⟨List.drop_of_length_le (by omega), by omega⟩
      obtain ⟨r, e⟩ := ih _ (P.drop 2048) _ hd' hf'
      refine ⟨r, ?_⟩
      rw [e]
      congr 1
      cases xor with
      | false =>
        simp only [Bool.false_eq_true, ↓reduceIte, Array.append_assoc]
        congr 1
        simp [List.take_append_drop]
      | true =>
        simp only [↓reduceIte, Array.append_assoc]
        congr 1
        simp [← List.map_append, List.take_append_drop]

theorem extract_plain (fill : UInt8) (fuel : Nat) (h : Handle) (xor : Bool) (hct : h.hdr.compType = if xor then 1 else 0)
    (w : Array UInt8) (r : Rd) (hcopy : copyLoop xor fuel (h.rd.seekStart h.hdr.dataOffset) #[] = .ok (w, r)) :
    extract fill fuel h = .ok ⟨.ok, w.toList, { h with rd := r }⟩ := by
  have c : h.hdr.compType = compNONE ∨ h.hdr.compType = compXOR := by rw [hct]; cases xor <;> simp [compNONE, compXOR]
  have d : decide (h.hdr.compType = compXOR) = xor := by rw [hct]; cases xor <;> simp [compXOR]
  unfold extract
  simp only [c, ↓reduceIte, d, hcopy]

/-- **KWAJ, stored and xor methods**: the header values are reported exactly and `decompress` writes exactly the data -/
theorem C05_kwaj_plain_roundtrip (fill : UInt8) (err : Err) (k : KwajSpec) (hwf : k.wf) (fuel : Nat)
    (hfuel : k.data.length / 2048 + 2 ≤ fuel) :
    open_ fill err (some (encodeKwaj k)) = .ok (some ⟨k.listed, ⟨encodeKwaj k, k.dataOffset⟩⟩, .ok) ∧
    decompress fill fuel err (some (encodeKwaj k)) = .ok ⟨.ok, some k.data⟩ := by
  have hopen : open_ fill err (some (encodeKwaj k)) = .ok (some ⟨k.listed, ⟨encodeKwaj k, k.dataOffset⟩⟩, .ok) := by
    simp only [open_, readHeaders_spec fill k hwf]
  refine ⟨hopen, ?_⟩
  have hdrop : (encodeKwaj k).drop k.dataOffset = payload k := by
    have h0 : (encodeKwaj k).drop 0 = ((enc32 0x4A41574B ++ enc32 0xD127F088 ++ enc16 (if k.xor then 1 else 0) ++ enc16 k.dataOffset ++ enc16 k.flags) ++
        (optLength k ++ (optUnk1 k ++ (optUnk2 k ++ optExtra k)))) ++ payload k := by
      simp [encodeKwaj, List.append_assoc]
    have := drop_after _ 0 _ _ h0
    have hl : (enc32 0x4A41574B ++ enc32 0xD127F088 ++ enc16 (if k.xor then 1 else 0) ++ enc16 k.dataOffset ++ enc16 k.flags ++
        (optLength k ++ (optUnk1 k ++ (optUnk2 k ++ optExtra k)))).length = k.dataOffset := by
      simp only [KwajSpec.dataOffset, List.length_append, enc32, enc16, List.length_cons, List.length_nil]; omega
    rw [hl, Nat.zero_add] at this; exact this
  have hplen : (payload k).length = k.data.length := by unfold payload; split <;> simp
  obtain ⟨r, e⟩ := copyLoop_spec k.xor (encodeKwaj k) fuel k.dataOffset (payload k) #[] hdrop (Or.inr (by rw [hplen]; exact hfuel))
  have hex := extract_plain fill fuel ⟨k.listed, ⟨encodeKwaj k, k.dataOffset⟩⟩ k.xor rfl _ r e
  unfold decompress
  rw [hopen]
  simp only [hex, Array.empty_append, List.toList_toArray]
  have hid : (if k.xor = true then List.map (fun x => x ^^^ 255) (payload k) else payload k) = k.data := by
    unfold payload
    cases k.xor with
    | false => simp
    | true =>
      simp only [↓reduceIte, List.map_map]
      have : ((fun x : UInt8 => x ^^^ 255) ∘ fun x => x ^^^ 255) = id := by
        funext b; exact xor_ff_twice b
      rw [this, List.map_id]
  rw [hid]

end MsPack.Kwaj
