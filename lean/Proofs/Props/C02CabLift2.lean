import Proofs.Lemmas.FeederThread
import Proofs.Props.C02CabLift
/-!
# C02 — MSZIP folders of a cabinet: no fault of any kind but the loop bound

`C02CabLift.lean` left one outcome open for MSZIP in a cabinet: the two null dereferences of the
block reader, reachable only from a feeder whose handle is closed — which a read error can leave
behind.  Here the reachable-state invariant

  `ZipInv st ∧ (st.error = .ok → FeederLive st.src)`

is threaded through every helper of the MSZIP model (`Proofs/Lemmas/FeederThread.lean`: the only
helper that touches `src` is `readInput`; a read that fails sets the sticky error before it
throws).  Result: one `Zip.decompress` over the CAB feeder from a state satisfying the invariant
raises no fault but `hang`, and the state it returns satisfies the invariant again
(`C02_cab_mszip_no_fault`); so does every sequence of `decompress` calls of `cabd_extract` on the
decoder `cabd_extract` sets up for a folder (`C02_cab_mszip_calls_no_fault`,
`C02_cab_mszip_fresh_no_fault`).
-/
namespace MsPack.CabLift
open MsPack MsPack.Generated MsPack.Cab

/-- the invariant of an MSZIP decoder state under the CAB feeder, between calls -/
def MszipLive (st : Zip.St Feeder) : Prop := Zip.ZipInv st ∧ (st.error = .ok → FeederLive st.src)

/-- **MSZIP in a cabinet, all fault kinds, unconditional on the source**: from a state satisfying
    the invariant a call ends in no fault but the iteration bound, and the invariant holds again
    of the state it returns -/
theorem C02_cab_mszip_no_fault (files : Files) (fuel : Nat) (st : Zip.St Feeder) (n : Nat) (h : MszipLive st) :
    (∀ f, Zip.decompress (feederSrc files) fuel st n = .error f → f = .hang) ∧
    (∀ o, Zip.decompress (feederSrc files) fuel st n = .ok o → MszipLive o.st) := by
  have ht := ZipThread.decompress_thr files fuel st n h.2
  refine ⟨fun f hf => ?_, fun o ho => ?_⟩
  · rw [hf] at ht
    rcases C02_cab_mszip_no_fault_partial files fuel st n h.1 f hf with h1 | h1 | h1
    · exact h1
    · exact absurd h1 (ht _)
    · exact absurd h1 (ht _)
  · rw [ho] at ht
    exact ⟨Zip.C02_zip_decompress_inv (feederSrc files) fuel st n h.1 o ho, ht⟩

/-- in particular none of the undefined-behaviour outcomes -/
theorem C02_cab_mszip_no_ub_all (files : Files) (fuel : Nat) (st : Zip.St Feeder) (n : Nat) (h : MszipLive st) :
    (∀ w, Zip.decompress (feederSrc files) fuel st n ≠ .error (.oob w)) ∧
    (∀ w, Zip.decompress (feederSrc files) fuel st n ≠ .error (.uninit w)) ∧
    (∀ w, Zip.decompress (feederSrc files) fuel st n ≠ .error (.nullDeref w)) ∧
    Zip.decompress (feederSrc files) fuel st n ≠ .error .divZero ∧
    Zip.decompress (feederSrc files) fuel st n ≠ .error .shiftWidth := by
  have := (C02_cab_mszip_no_fault files fuel st n h).1
  refine ⟨fun w hf => ?_, fun w hf => ?_, fun w hf => ?_, fun hf => ?_, fun hf => ?_⟩ <;> cases this _ hf

/-- the decoder/feeder pair `cabd_extract` keeps for an MSZIP folder, between calls -/
def MszipPair : Dec → Feeder → Prop
  | .mszip st, fd => Zip.ZipInv st ∧ (st.error = .ok → FeederLive fd)
  | _, _ => False

/-- one `decompress` of `cabd_extract` on an MSZIP folder -/
theorem C02_cab_mszip_decompress_no_fault (files : Files) (st : Zip.St Feeder) (fd : Feeder) (n : Nat)
    (h : MszipPair (.mszip st) fd) :
    (∀ f, Cab.decompress files (.mszip st) fd n = .error f → f = .hang) ∧
    (∀ o, Cab.decompress files (.mszip st) fd n = .ok (some o) → MszipPair o.dec o.feeder) ∧
    Cab.decompress files (.mszip st) fd n ≠ .ok none := by
  have hl : MszipLive ({ st with src := fd } : Zip.St Feeder) := ⟨h.1, h.2⟩
  have hz := C02_cab_mszip_no_fault files (chainFuel files fd) { st with src := fd } n hl
  unfold Cab.decompress
  simp only
  split
  · rename_i f hf
    refine ⟨fun f' h' => ?_, fun o h' => ?_, fun h' => ?_⟩
    · cases h'; exact hz.1 _ hf
    · cases h'
    · cases h'
  · rename_i o ho
    refine ⟨fun f' h' => ?_, fun o' h' => ?_, fun h' => ?_⟩
    · cases h'
    · cases h'
      exact hz.2 _ ho
    · cases h'

/-- **any number of calls**: skip phases, output phases, the members of the folder one after the other -/
theorem C02_cab_mszip_calls_no_fault (files : Files) : ∀ (ns : List Nat) (dec : Dec) (fd : Feeder) (f : Fault),
    MszipPair dec fd → cabCalls files dec fd ns = .error f → f = .hang
  | [], _, _, _, _, h => by simp only [cabCalls] at h; contradiction
  | n :: ns, dec, fd, f, hinv, h => by
    cases dec with
    | mszip st =>
      rw [cabCalls] at h
      have hd := C02_cab_mszip_decompress_no_fault files st fd n hinv
      cases hc : Cab.decompress files (.mszip st) fd n with
      | error f' =>
        rw [hc] at h
        simp only [Except.error.injEq] at h
        subst h
        exact hd.1 _ hc
      | ok r =>
        rw [hc] at h
        cases r with
        | none => simp only at h; contradiction
        | some o =>
          simp only at h
          exact C02_cab_mszip_calls_no_fault files ns o.dec o.feeder f (hd.2.1 o hc) h
    | none bs e => exact hinv.elim
    | qtm st => exact hinv.elim
    | lzx st => exact hinv.elim
    | unsupported m => exact hinv.elim

/-- the decoder `cabd_extract` sets up for an MSZIP folder satisfies the invariant -/
theorem C02_cab_mszip_fresh (files : Files) (p : Params) (m : Member) (key : Nat) (ds : DState)
    (st : Zip.St Feeder) (h : freshDState files p m key = .ok ds) (hd : ds.dec = some (.mszip st)) :
    MszipPair (.mszip st) ds.feeder := by
  have hl := (C02_cab_fresh_feeder files p m key ds h).1
  refine ⟨?_, fun _ => hl⟩
  unfold freshDState at h
  split at h
  · contradiction
  · split at h
    · contradiction
    · split at h
      · contradiction
      · rename_i dec hi
        simp only [Except.ok.injEq] at h
        subst h
        simp only [Option.some.injEq] at hd
        subst hd
        unfold initDec at hi
        split at hi
        · cases hi
        · cases hz : Zip.init nullFeeder p.bufSize p.fixMszip p.fill with
          | none => rw [hz] at hi; cases hi
          | some z =>
            rw [hz] at hi
            simp only [Option.map, Option.some.injEq, Dec.mszip.injEq] at hi
            subst hi
            exact Zip.C02_zip_init_inv nullFeeder p.bufSize p.fixMszip p.fill z hz
        · split at hi
          · cases hq : Qtm.init nullFeeder ((m.compType >>> 8) &&& 0x1f) p.bufSize p.fill with
            | none => rw [hq] at hi; cases hi
            | some z => rw [hq] at hi; cases hi
          · cases hi
        · split at hi
          · cases hq : Lzx.init nullFeeder ((m.compType >>> 8) &&& 0x1f) 0 p.bufSize 0 false p.fill with
            | none => rw [hq] at hi; cases hi
            | some z => rw [hq] at hi; cases hi
          · cases hi
        · cases hi

/-- **from the folder's fresh decoder, any sequence of calls**: no fault but the bound -/
theorem C02_cab_mszip_fresh_no_fault (files : Files) (p : Params) (m : Member) (key : Nat) (ds : DState)
    (st : Zip.St Feeder) (h : freshDState files p m key = .ok ds) (hd : ds.dec = some (.mszip st))
    (ns : List Nat) (f : Fault) (hf : cabCalls files (.mszip st) ds.feeder ns = .error f) : f = .hang :=
  C02_cab_mszip_calls_no_fault files ns _ _ f (C02_cab_mszip_fresh files p m key ds st h hd) hf

/-! ## non-vacuity -/

/-- an MSZIP folder: one block `CK` + stored deflate block `x y z` -/
def zipPayload : Bytes := [0x43, 0x4B, 0x01, 0x03, 0x00, 0xFC, 0xFF, 0x78, 0x79, 0x7A]
def zipCab : Bytes := [0, 0, 0, 0, 10, 0, 3, 0] ++ zipPayload
def zipFiles : Files := [("z.cab", zipCab)]
def zipMember : Member :=
  { length := 3, offset := 0, folderKey := some 0, mergePrev := false, numBlocks := 1, compType := 1,
    parts := [⟨"z.cab", 0, 0⟩] }

/-- fresh decoder, two calls (1 byte, 2 bytes): the folder's three bytes come out, status OK -/
example : (match freshDState zipFiles {} zipMember 0 with
    | .ok ds =>
      (match ds.dec with
       | some (.mszip st) =>
         (match Cab.decompress zipFiles (.mszip st) ds.feeder 1 with
          | .ok (some o1) =>
            (match Cab.decompress zipFiles o1.dec o1.feeder 2 with
             | .ok (some o2) => o1.err == .ok && o2.err == .ok && o1.written ++ o2.written == [0x78, 0x79, 0x7A]
             | _ => false)
          | _ => false)
       | _ => false)
    | .error _ => false) = true := by decide +kernel

end MsPack.CabLift
