import Proofs.Props.C02CabLift4
import Proofs.Props.C07Decoders
/-!
# C02 — `cabd_extract`, end to end

The per-method results of `C02CabLift.lean` … `C02CabLift4.lean` (stored, MSZIP, Quantum, LZX under
the CAB block feeder) are joined here into statements about `Cab.extract` itself:

* `C02_cab_lzx_calls_no_fault`, `C02_cab_lzx_fresh_no_fault`: any sequence of `decompress` calls on an
  LZX folder whose requests add up to at most `cabLENGTHMAX` (< 2 GiB, which is what `memberCheck`
  enforces) ends in no fault but the iteration bound or an unbuilt decode table (`uninit`, C11);
* `C02_cab_extract_no_ub`: for every `files`, parameters, member and every cached decoder that is
  absent or satisfies the pair invariant `AllPair` (`StateOk`), `extract` never yields an
  out-of-bounds access, a null dereference, a division by zero or an over-wide shift — in the
  container layer, the block feeder or any of the four decoders — and the cache it hands back
  satisfies the invariant again;
* `C02_cab_session_no_ub`: hence any number of `extract` calls threaded through the cache, starting
  from no cache at all.

The 2 GiB premise of the LZX theorems is discharged by `memberCheck` (`offset + filelen ≤
cabLENGTHMAX = 0x7FFF8000`), through the invariant `st.offset ≤ d->offset` of the LZX pair
(`LzxPair`), which needs that a status other than OK is sticky (`C02_cab_lzx_status_sticky`) and the
counting law (`C07Decoders`).
-/
namespace MsPack.CabLift
open MsPack MsPack.Generated MsPack.Cab

/-- the undefined-behaviour outcomes C02 is about -/
def Bad (f : Fault) : Prop := (∃ w, f = .oob w) ∨ (∃ w, f = .nullDeref w) ∨ f = .divZero ∨ f = .shiftWidth

theorem not_bad_hang : ¬ Bad .hang := by
  rintro (⟨_, h⟩ | ⟨_, h⟩ | h | h) <;> cases h
theorem not_bad_uninit (s : String) : ¬ Bad (.uninit s) := by
  rintro (⟨_, h⟩ | ⟨_, h⟩ | h | h) <;> cases h

theorem lengthMax_lt : cabLENGTHMAX < 2147483648 := by decide

/-! ## LZX: the pair invariant with the offset bound -/

/-- decoder/feeder pair of an LZX folder, with `d->offset`: the decoder's own count of bytes produced
    never exceeds it (while the decoder is alive) -/
def LzxPair (files : Files) : Dec → Feeder → Nat → Prop
  | .lzx st, fd, off =>
    ∃ L, Lzx.LzxInv L st ∧ (st.error = .ok → (FeederLive fd ∧ FeederLen files L fd) ∧ st.offset ≤ off)
  | _, _, _ => False

theorem LzxInv_src {σ τ : Type} {L : Nat} {st : Lzx.St σ} (x : τ) (h : Lzx.LzxInv L st) :
    Lzx.LzxInv L ({ st with src := x } : Lzx.St τ) := by
  rcases h with he | hg
  · exact Or.inl he
  · exact Or.inr (Good_src x hg)

/-- one `decompress` of `cabd_extract` on an LZX folder, asked for no more than the length cap -/
theorem C02_cab_lzx_decompress_no_fault (files : Files) (st : Lzx.St Feeder) (fd : Feeder) (off n : Nat)
    (h : LzxPair files (.lzx st) fd off) (hn : off + n ≤ cabLENGTHMAX) :
    (∀ f, Cab.decompress files (.lzx st) fd n = .error f → f = .hang ∨ ∃ s, f = .uninit s) ∧
    (∀ o, Cab.decompress files (.lzx st) fd n = .ok (some o) →
      LzxPair files o.dec o.feeder (off + o.written.length)) ∧
    Cab.decompress files (.lzx st) fd n ≠ .ok none := by
  obtain ⟨L, hinv, hl⟩ := h
  have hlt := lengthMax_lt
  have key : (∀ f, Lzx.decompress (feederSrc files) (chainFuel files fd) { st with src := fd } n = .error f →
        f = .hang ∨ ∃ s, f = .uninit s) ∧
      (∀ o, Lzx.decompress (feederSrc files) (chainFuel files fd) { st with src := fd } n = .ok o →
        LzxPair files (.lzx o.st) o.st.src (off + o.written.length)) := by
    by_cases he : st.error = .ok
    · have hlive : LzxLive files L ({ st with src := fd } : Lzx.St Feeder) :=
        ⟨LzxInv_src fd hinv, fun _ => (hl he).1⟩
      have ho : ({ st with src := fd } : Lzx.St Feeder).offset + n < 2147483648 := by
        have := (hl he).2
        show st.offset + n < 2147483648
        omega
      have hz := C02_cab_lzx_no_fault files L (chainFuel files fd) _ n hlive ho
      refine ⟨hz.1, fun o hk => ?_⟩
      obtain ⟨hlv, hoff⟩ := hz.2 o hk
      refine ⟨L, hlv.1, fun heo => ⟨hlv.2 heo, ?_⟩⟩
      have hs := C02_cab_lzx_status_sticky files L _ _ n hlive o hk heo
      have hc := (CountLaws.Lzx.decompress_count (feederSrc files) _ _ n o hk).2 hs
      have h1 := hoff heo
      have h2 := (hl he).2
      have h3 : ({ st with src := fd } : Lzx.St Feeder).offset = st.offset := rfl
      omega
    · have hd : Lzx.decompress (feederSrc files) (chainFuel files fd) { st with src := fd } n =
          .ok ⟨st.error, [], { st with src := fd }⟩ := by
        unfold Lzx.decompress
        rw [if_pos he]
      rw [hd]
      refine ⟨fun f hf => ?_, fun o hk => ?_⟩
      · cases hf
      cases hk
      exact ⟨L, LzxInv_src fd hinv, fun heo => absurd heo he⟩
  unfold Cab.decompress
  simp only
  split
  · rename_i f hf
    refine ⟨fun f' h' => ?_, fun o h' => ?_, fun h' => ?_⟩
    · cases h'; exact key.1 _ hf
    · cases h'
    · cases h'
  · rename_i o ho
    refine ⟨fun f' h' => ?_, fun o' h' => ?_, fun h' => ?_⟩
    · cases h'
    · cases h'
      exact key.2 _ ho
    · cases h'

/-- **LZX, any number of calls** whose requests add up to no more than the length cap -/
theorem C02_cab_lzx_calls_no_fault (files : Files) : ∀ (ns : List Nat) (dec : Dec) (fd : Feeder) (off : Nat)
    (f : Fault), LzxPair files dec fd off → off + ns.sum ≤ cabLENGTHMAX →
    cabCalls files dec fd ns = .error f → f = .hang ∨ ∃ s, f = .uninit s
  | [], _, _, _, _, _, _, h => by simp only [cabCalls] at h; contradiction
  | n :: ns, dec, fd, off, f, hinv, hsum, h => by
    cases dec with
    | lzx st =>
      rw [cabCalls] at h
      simp only [List.sum_cons] at hsum
      have hd := C02_cab_lzx_decompress_no_fault files st fd off n hinv (by omega)
      cases hc : Cab.decompress files (.lzx st) fd n with
      | error f' =>
        rw [hc] at h
        simp only [Except.error.injEq] at h
        subst h
        exact hd.1 _ hc
      | ok r =>
        rw [hc] at h
        cases r with
        | none => simp only at h; contradiction
        | some o =>
          simp only at h
          have hw := (Cab.C07_count_law_lzx files st fd n o hc).1
          exact C02_cab_lzx_calls_no_fault files ns o.dec o.feeder _ f (hd.2.1 o hc) (by omega) h
    | none bs e => exact hinv.elim
    | mszip st => exact hinv.elim
    | qtm st => exact hinv.elim
    | unsupported m => exact hinv.elim

/-- the decoder `cabd_extract` sets up for an LZX folder satisfies the pair invariant at offset 0 -/
theorem C02_cab_lzx_fresh_pair (files : Files) (p : Params) (m : Member) (key : Nat) (ds : DState)
    (st : Lzx.St Feeder) (h : freshDState files p m key = .ok ds) (hd : ds.dec = some (.lzx st)) :
    LzxPair files (.lzx st) ds.feeder 0 := by
  obtain ⟨L, hl, hoff⟩ := C02_cab_lzx_fresh files p m key ds st h hd
  refine ⟨L, ?_, fun he => ⟨hl.2 he, by omega⟩⟩
  have := LzxInv_src (st := ({ st with src := ds.feeder } : Lzx.St Feeder)) st.src hl.1
  exact this

/-- **LZX from the folder's fresh decoder** -/
theorem C02_cab_lzx_fresh_no_fault (files : Files) (p : Params) (m : Member) (key : Nat) (ds : DState)
    (st : Lzx.St Feeder) (h : freshDState files p m key = .ok ds) (hd : ds.dec = some (.lzx st))
    (ns : List Nat) (hs : ns.sum ≤ cabLENGTHMAX) (f : Fault)
    (hf : cabCalls files (.lzx st) ds.feeder ns = .error f) : f = .hang ∨ ∃ s, f = .uninit s :=
  C02_cab_lzx_calls_no_fault files ns _ _ 0 f (C02_cab_lzx_fresh_pair files p m key ds st h hd) (by omega) hf

/-- an LZX folder: one block holding `C02Lzx.helloStream` (an uncompressed LZX block, 5 bytes out) -/
def lzxCab : Bytes := [0, 0, 0, 0, 21, 0, 5, 0] ++ Lzx.helloStream
def lzxFiles : Files := [("l.cab", lzxCab)]
def lzxMember : Member :=
  { length := 5, offset := 0, folderKey := some 0, mergePrev := false, numBlocks := 1,
    compType := 3 + 15 * 256, parts := [⟨"l.cab", 0, 0⟩] }

/-- fresh decoder (window 2^15), two calls (2 + 3 bytes): both return OK, "hello" comes out, and the
    feeder has announced the folder's length 5 -/
example : (match freshDState lzxFiles {} lzxMember 0 with
    | .ok ds =>
      (match ds.dec with
       | some (.lzx st) =>
         (match Cab.decompress lzxFiles (.lzx st) ds.feeder 2 with
          | .ok (some o1) =>
            (match Cab.decompress lzxFiles o1.dec o1.feeder 3 with
             | .ok (some o2) => o1.err == .ok && o2.err == .ok &&
                 o1.written ++ o2.written == [104, 101, 108, 108, 111] && o2.feeder.lzxLen == some 5
             | _ => false)
          | _ => false)
       | _ => false)
    | .error _ => false) = true := by decide +kernel

/-! ## all methods: the pair invariant of `self->d` -/

/-- what `cabd_extract` keeps between calls, by method (`off` = `d->offset`) -/
def AllPair (files : Files) : Dec → Feeder → Nat → Prop
  | .none _ e, fd, _ => e = .ok → FeederLive fd
  | .mszip st, fd, _ => Zip.ZipInv st ∧ (st.error = .ok → FeederLive fd)
  | .qtm st, fd, _ => Qtm.StInv st ∧ (st.error = .ok → FeederLive fd)
  | .lzx st, fd, off => LzxPair files (.lzx st) fd off
  | .unsupported _, _, _ => True

theorem allPair_of_none {files : Files} {dec : Dec} {fd : Feeder} (off : Nat) (h : NoneInv dec fd) :
    AllPair files dec fd off := by
  cases dec <;> first | exact h | exact h.elim
theorem allPair_of_mszip {files : Files} {dec : Dec} {fd : Feeder} (off : Nat) (h : MszipPair dec fd) :
    AllPair files dec fd off := by
  cases dec <;> first | exact h | exact h.elim
theorem allPair_of_qtm {files : Files} {dec : Dec} {fd : Feeder} (off : Nat) (h : QtmPair dec fd) :
    AllPair files dec fd off := by
  cases dec <;> first | exact h | exact h.elim
theorem allPair_of_lzx {files : Files} {dec : Dec} {fd : Feeder} {off : Nat} (h : LzxPair files dec fd off) :
    AllPair files dec fd off := by
  cases dec <;> first | exact h | exact h.elim

theorem allPair_decOk {files : Files} {dec : Dec} {fd : Feeder} {off : Nat} (h : AllPair files dec fd off) :
    Cab.CabDecOk dec := by
  cases dec with
  | mszip st => exact h.1
  | none bs e => trivial
  | qtm st => trivial
  | lzx st => trivial
  | unsupported k => trivial

/-- one `decompress` on a stored folder -/
theorem none_call (files : Files) (bs : Nat) (e : Err) (fd : Feeder) (n : Nat) (h : e = .ok → FeederLive fd) :
    (∀ f, Cab.decompress files (.none bs e) fd n = .error f → f = .hang) ∧
    (∀ o, Cab.decompress files (.none bs e) fd n = .ok (some o) → NoneInv o.dec o.feeder) := by
  by_cases he : e = .ok
  · have hl := h he
    refine ⟨fun f hf => C02_cab_none_no_fault files bs e fd n f hl hf, fun o hd => ?_⟩
    unfold Cab.decompress at hd
    simp only at hd
    rw [if_neg (by simpa using he)] at hd
    cases hn : nonedDecompress files bs (n / max bs 1 + 2) fd n [] with
    | error f' => rw [hn] at hd; simp only [Except.map] at hd; contradiction
    | ok o' =>
      rw [hn] at hd
      simp only [Except.map, Except.ok.injEq, Option.some.injEq] at hd
      subst hd
      have ho := nonedDecompress_out files bs _ fd n [] o' hl hn
      rw [ho.1]
      exact ho.2
  · have hd : Cab.decompress files (.none bs e) fd n = .ok (some ⟨e, [], .none bs e, fd⟩) := by
      unfold Cab.decompress
      simp only
      rw [if_pos he]
    rw [hd]
    refine ⟨fun f hf => ?_, fun o ho => ?_⟩
    · cases hf
    · cases ho
      exact fun e' => absurd e' he

/-- **one `decompress` call of `cabd_extract`, any method**: no undefined-behaviour outcome; the pair
    invariant holds again at the new `d->offset`; no more bytes than asked for -/
theorem allPair_call (files : Files) (dec : Dec) (fd : Feeder) (off n : Nat)
    (h : AllPair files dec fd off) (hn : off + n ≤ cabLENGTHMAX) :
    (∀ f, Cab.decompress files dec fd n = .error f → ¬ Bad f) ∧
    (∀ o, Cab.decompress files dec fd n = .ok (some o) →
      AllPair files o.dec o.feeder (off + o.written.length) ∧ o.written.length ≤ n) := by
  have hcount := Cab.C07_count_law_decOk files dec (allPair_decOk h)
  refine ⟨fun f hf => ?_, fun o ho => ⟨?_, (hcount fd n o ho).1⟩⟩
  · cases dec with
    | none bs e => rw [(none_call files bs e fd n h).1 f hf]; exact not_bad_hang
    | mszip st => rw [(C02_cab_mszip_decompress_no_fault files st fd n h).1 f hf]; exact not_bad_hang
    | qtm st => rw [(C02_cab_qtm_decompress_no_fault files st fd n h).1 f hf]; exact not_bad_hang
    | lzx st =>
      rcases (C02_cab_lzx_decompress_no_fault files st fd off n h hn).1 f hf with h1 | ⟨s, h1⟩
      · rw [h1]; exact not_bad_hang
      · rw [h1]; exact not_bad_uninit s
    | unsupported k => unfold Cab.decompress at hf; cases hf
  · cases dec with
    | none bs e => exact allPair_of_none _ ((none_call files bs e fd n h).2 o ho)
    | mszip st => exact allPair_of_mszip _ ((C02_cab_mszip_decompress_no_fault files st fd n h).2.1 o ho)
    | qtm st => exact allPair_of_qtm _ ((C02_cab_qtm_decompress_no_fault files st fd n h).2.1 o ho)
    | lzx st => exact allPair_of_lzx ((C02_cab_lzx_decompress_no_fault files st fd off n h hn).2.1 o ho)
    | unsupported k => unfold Cab.decompress at ho; cases ho

/-! ## `cabd_extract` -/

/-- the cached `self->d` satisfies the pair invariant -/
def StateOk (files : Files) (ds : DState) : Prop := ∀ dec, ds.dec = some dec → AllPair files dec ds.feeder ds.offset

theorem runPhase_safe (files : Files) (ds : DState) (dec : Dec) (n : Nat)
    (hj : AllPair files dec ds.feeder ds.offset) (hn : ds.offset + n ≤ cabLENGTHMAX) :
    (∀ f, runPhase files ds dec n = .fault f → ¬ Bad f) ∧
    (∀ e w ds', runPhase files ds dec n = .ran e w ds' → StateOk files ds' ∧ ds'.offset ≤ ds.offset + n) := by
  have hc := allPair_call files dec ds.feeder ds.offset n hj hn
  unfold runPhase
  split
  · rename_i f hf
    refine ⟨fun f' h' => ?_, fun e w ds' h' => ?_⟩
    · cases h'; exact hc.1 _ hf
    · cases h'
  · refine ⟨fun f' h' => ?_, fun e w ds' h' => ?_⟩
    · cases h'
    · cases h'
  · rename_i o ho
    refine ⟨fun f' h' => ?_, fun e w ds' h' => ?_⟩
    · cases h'
    · simp only [PhaseResult.ran.injEq] at h'
      obtain ⟨h1, h2⟩ := hc.2 o ho
      rw [← h'.2.2]
      refine ⟨fun dec' hd => ?_, ?_⟩
      · simp only [Option.some.injEq] at hd
        subst hd
        exact h1
      · show ds.offset + o.written.length ≤ ds.offset + n
        omega

/-- what a result of `runPhases`/`extract` must be: no undefined-behaviour fault; a cache handed
    back satisfies the invariant -/
def ResOk (files : Files) : ExtractResult → Prop
  | .fault f => ¬ Bad f
  | .done _ _ d => ∀ ds, d = some ds → StateOk files ds
  | .unsupported => True

theorem runPhases_safe (files : Files) (ds : DState) (hds : StateOk files ds) (m : Member) (filelen : Nat)
    (ho : ds.offset ≤ m.offset) (hm : m.offset + filelen ≤ cabLENGTHMAX) :
    ResOk files (runPhases files ds m filelen) := by
  unfold runPhases
  split
  · intro ds' h; cases h; exact hds
  · rename_i dec hdec
    have hp := hds _ hdec
    split
    · intro ds' h; cases h; exact hds
    · simp only
      split
      · rename_i hskip
        have h1 := runPhase_safe files ds dec filelen hp (by omega)
        split
        · rename_i f hr; exact h1.1 _ hr
        · trivial
        · rename_i e w ds' hr
          intro ds'' h; cases h; exact (h1.2 _ _ _ hr).1
      · have h1 := runPhase_safe files ds dec (m.offset - ds.offset) hp (by omega)
        split
        · rename_i f hr; exact h1.1 _ hr
        · trivial
        · rename_i e1 w1 ds1 hr1
          obtain ⟨hk1, ho1⟩ := h1.2 _ _ _ hr1
          split
          · intro ds'' h; cases h; exact hk1
          · split
            · intro ds'' h; cases h; exact hk1
            · rename_i dec1 hdec1
              have h2 := runPhase_safe files ds1 dec1 filelen (hk1 _ hdec1) (by omega)
              split
              · rename_i f hr; exact h2.1 _ hr
              · trivial
              · rename_i e w ds2 hr
                intro ds'' h; cases h; exact (h2.2 _ _ _ hr).1

theorem memberCheck_cap (p : Params) (m : Member) (filelen key : Nat) (h : memberCheck p m = .ok (filelen, key)) :
    m.offset + filelen ≤ cabLENGTHMAX := by
  unfold memberCheck at h
  simp only at h
  repeat' split at h
  all_goals first
    | contradiction
    | (simp only [Except.ok.injEq, Prod.mk.injEq] at h; omega)

theorem fresh_offset (files : Files) (p : Params) (m : Member) (key : Nat) (ds : DState)
    (h : freshDState files p m key = .ok ds) : ds.offset = 0 := by
  unfold freshDState at h
  split at h
  · cases h
  · split at h
    · cases h
    · split at h
      · cases h
      · cases h; rfl

/-- the decoder `cabd_extract` sets up for a folder satisfies the invariant, whatever the method -/
theorem fresh_stateOk (files : Files) (p : Params) (m : Member) (key : Nat) (ds : DState)
    (h : freshDState files p m key = .ok ds) : StateOk files ds := by
  intro dec hd
  rw [fresh_offset files p m key ds h]
  cases dec with
  | none bs e => exact fun _ => (C02_cab_fresh_feeder files p m key ds h).1
  | mszip st => exact C02_cab_mszip_fresh files p m key ds st h hd
  | qtm st => exact C02_cab_qtm_fresh files p m key ds st h hd
  | lzx st => exact C02_cab_lzx_fresh_pair files p m key ds st h hd
  | unsupported k => trivial

/-- **`cabd_extract`**: from no cache or a cache satisfying the invariant, the result is never an
    undefined-behaviour fault, and the cache handed back satisfies the invariant again -/
theorem C02_cab_extract_safe (files : Files) (p : Params) (d : Option DState) (m : Member)
    (hd : ∀ ds, d = some ds → StateOk files ds) : ResOk files (extract files p d m) := by
  unfold extract
  split
  · exact hd
  · rename_i filelen key hc
    have hcap := memberCheck_cap p m filelen key hc
    split
    · intro ds h; cases h
    · rename_i ds hob
      unfold obtainDState at hob
      split at hob
      · rename_i ds0
        split at hob
        · rename_i hcond
          cases hob
          exact runPhases_safe files _ (hd _ rfl) m filelen (by have := hcond.2.1; omega) hcap
        · have := fresh_offset files p m key ds hob
          exact runPhases_safe files ds (fresh_stateOk files p m key ds hob) m filelen (by omega) hcap
      · have := fresh_offset files p m key ds hob
        exact runPhases_safe files ds (fresh_stateOk files p m key ds hob) m filelen (by omega) hcap

/-- **C02 for `cabd_extract`**: no out-of-bounds access, null dereference, division by zero or
    over-wide shift, in any layer -/
theorem C02_cab_extract_no_ub (files : Files) (p : Params) (d : Option DState) (m : Member)
    (hd : ∀ ds, d = some ds → StateOk files ds) :
    (∀ w, extract files p d m ≠ .fault (.oob w)) ∧ (∀ w, extract files p d m ≠ .fault (.nullDeref w)) ∧
    extract files p d m ≠ .fault .divZero ∧ extract files p d m ≠ .fault .shiftWidth := by
  have h := C02_cab_extract_safe files p d m hd
  refine ⟨fun w he => ?_, fun w he => ?_, fun he => ?_, fun he => ?_⟩ <;> rw [he] at h
  · exact h (Or.inl ⟨w, rfl⟩)
  · exact h (Or.inr (Or.inl ⟨w, rfl⟩))
  · exact h (Or.inr (Or.inr (Or.inl rfl)))
  · exact h (Or.inr (Or.inr (Or.inr rfl)))

/-- a session: `extract` calls threaded through the cache; the first fault met, if any -/
def extractSeq (files : Files) (p : Params) : Option DState → List Member → Option Fault
  | _, [] => none
  | d, m :: ms =>
    match extract files p d m with
    | .fault f => some f
    | .unsupported => extractSeq files p d ms
    | .done _ _ d' => extractSeq files p d' ms

/-- **a whole session**, any members in any order, any parameters, any files: no undefined behaviour -/
theorem C02_cab_session_no_ub (files : Files) (p : Params) : ∀ (ms : List Member) (d : Option DState)
    (f : Fault), (∀ ds, d = some ds → StateOk files ds) → extractSeq files p d ms = some f → ¬ Bad f
  | [], _, _, _, h => by simp only [extractSeq] at h; contradiction
  | m :: ms, d, f, hd, h => by
    rw [extractSeq] at h
    have hs := C02_cab_extract_safe files p d m hd
    split at h
    · rename_i f' he
      rw [he] at hs
      cases h
      exact hs
    · exact C02_cab_session_no_ub files p ms d f hd h
    · rename_i e w d' he
      rw [he] at hs
      exact C02_cab_session_no_ub files p ms d' f hs h

/-- … in particular from a fresh instance (no cache) -/
theorem C02_cab_session_fresh_no_ub (files : Files) (p : Params) (ms : List Member) (f : Fault)
    (h : extractSeq files p none ms = some f) : ¬ Bad f :=
  C02_cab_session_no_ub files p ms none f (fun _ h => by cases h) h

/-- the session does real work: the stored, MSZIP, Quantum and LZX demo members, one after the other
    through one cache, end without any fault -/
example : extractSeq (zipFiles ++ qtmFiles ++ lzxFiles) {} none [zipMember, qtmMember, lzxMember] = none := by
  decide +kernel

end MsPack.CabLift
