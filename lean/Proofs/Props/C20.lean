import MsPack.Generated.Inventory
import MsPack.Generated.Consts
/-!
# C20 — the caller's mspack_system is used as documented (open modes and names)

The translator lists every call `…->open(sys, NAME, MODE)` in the library's translation units
(`Generated.openCallSites`, regenerated from today's sources).  Proved here: the list is exactly
the eighteen known call sites; each passes either a filename parameter of the public API function
it sits in (`filename`, `input`, `output`, `base`) or the filename stored at open time in a cabinet
/ helpfile structure (`…->filename`), and a literal mode: READ for archives, patches and bases,
WRITE only where the argument is an output name.  The remaining clauses of C20 (liveness, sizes,
buffers, copy, free) are checked dynamically.
-/
namespace MsPack.C20
open MsPack.Generated

theorem open_call_sites :
    openCallSites =
      [("cabd.c", "filename", "MSPACK_SYS_OPEN_READ"),
       ("cabd.c", "filename", "MSPACK_SYS_OPEN_READ"),
       ("cabd.c", "fol->data.cab->base.filename", "MSPACK_SYS_OPEN_READ"),
       ("cabd.c", "filename", "MSPACK_SYS_OPEN_WRITE"),
       ("cabd.c", "d->incab->base.filename", "MSPACK_SYS_OPEN_READ"),
       ("chmd.c", "filename", "MSPACK_SYS_OPEN_READ"),
       ("chmd.c", "chm->filename", "MSPACK_SYS_OPEN_READ"),
       ("chmd.c", "chm->filename", "MSPACK_SYS_OPEN_READ"),
       ("chmd.c", "filename", "MSPACK_SYS_OPEN_WRITE"),
       ("kwajd.c", "filename", "MSPACK_SYS_OPEN_READ"),
       ("kwajd.c", "filename", "MSPACK_SYS_OPEN_WRITE"),
       ("szddd.c", "filename", "MSPACK_SYS_OPEN_READ"),
       ("szddd.c", "filename", "MSPACK_SYS_OPEN_WRITE"),
       ("oabd.c", "input", "MSPACK_SYS_OPEN_READ"),
       ("oabd.c", "output", "MSPACK_SYS_OPEN_WRITE"),
       ("oabd.c", "input", "MSPACK_SYS_OPEN_READ"),
       ("oabd.c", "base", "MSPACK_SYS_OPEN_READ"),
       ("oabd.c", "output", "MSPACK_SYS_OPEN_WRITE")] := by decide

/-- every call site uses one of the two documented modes, stored archive names are only ever
    opened for reading, and the numeric values are those of mspack.h -/
theorem open_modes_fixed :
    (∀ s ∈ openCallSites, s.2.2 = "MSPACK_SYS_OPEN_READ" ∨ s.2.2 = "MSPACK_SYS_OPEN_WRITE") ∧
    (∀ s ∈ openCallSites, s.2.1 ≠ "filename" → s.2.1 ≠ "output" → s.2.2 = "MSPACK_SYS_OPEN_READ") ∧
    (∀ s ∈ openCallSites, s.2.1 = "output" → s.2.2 = "MSPACK_SYS_OPEN_WRITE") ∧
    sysOpenRead = 0 ∧ sysOpenWrite = 1 := by decide

end MsPack.C20
