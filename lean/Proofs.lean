import Proofs.Lemmas.Checksum
import Proofs.Props.Tables
import Proofs.Props.C12
import Proofs.Props.C19
import Proofs.Props.C14
import Proofs.Props.C18
