import Proofs.Lemmas.Checksum
import Proofs.Props.C12
