import Proofs.Lemmas.Checksum
import Proofs.Props.Tables
import Proofs.Props.C12
