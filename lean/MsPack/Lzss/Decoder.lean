import MsPack.Basic
import MsPack.IO
import MsPack.Generated.Consts
/-
lzssd.c: `lzss_decompress(system, input, output, input_buffer_size, mode)`.

One allocation holds the 4096-byte ring (set to 0x20) followed by the input buffer.  The model
keeps the ring as an `Array UInt8` and the unread part of the input buffer (`i_ptr .. i_end`) as a
list.  The only exits of the C's `for (;;)` are inside its two macros:

  ENSURE_BYTES  buffer empty → `read(input, inbuf, input_buffer_size)`; a result ≤ 0 returns
                `MSPACK_ERR_READ` (< 0) or `MSPACK_ERR_OK` (= 0) — wherever in a token that happens
  WRITE_BYTE    one `write(output, &window[pos], 1)`; never fails on the model's host

The model renders "the function returns code e here" as the result `Res.ret e st`; `st` (in particular
what has been written) is the state reached at that point.
-/
namespace MsPack

/-- the fault-free read handle as a decoder source: `read` delivers what the file has -/
def Rd.src : Src Rd where
  read r n := .ok (let (c, r') := r.read n; (some c, r'))

end MsPack

namespace MsPack.Lzss
open MsPack MsPack.Generated

structure St (σ : Type) where
  src       : σ
  inbufSize : Nat                  -- `input_buffer_size`
  inbuf     : Bytes := []          -- `i_ptr .. i_end`
  window    : Array UInt8          -- `window[0 .. LZSS_WINDOW_SIZE)`
  pos       : Nat                  -- `pos`
  out       : Array UInt8 := #[]   -- everything `write` has accepted, in order

/-- what a piece of the decoder did: `ret e st` = the C function has executed `return e;` in state
    `st` (in particular with `st.out` written); `ok a st` = fell through with value `a`.
    (Explicit state passing rather than a monad stack: the round-trip proof unfolds these.) -/
inductive Res (σ α : Type) where
  | ret (e : Err) (st : St σ)
  | fault (f : Fault)
  | ok (a : α) (st : St σ)

variable {σ : Type} (S : Src σ)

/-- `ENSURE_BYTES; … *i_ptr++`: buffer empty → `read(input, inbuf, input_buffer_size)`; a result
    ≤ 0 returns `MSPACK_ERR_READ` (< 0) or `MSPACK_ERR_OK` (= 0) — wherever in a token that happens -/
def nextByte (st : St σ) : Res σ UInt8 :=
  match st.inbuf with
  | b :: rest => .ok b { st with inbuf := rest }
  | [] =>
    match S.read st.src st.inbufSize with
    | .error f => .fault f
    | .ok (none, src) => .ret .read { st with src := src }        -- read < 0
    | .ok (some [], src) => .ret .ok { st with src := src }       -- read == 0
    | .ok (some (b :: rest), src) => .ok b { st with src := src, inbuf := rest }

/-- `window[pos] = b; WRITE_BYTE; pos++; pos &= LZSS_WINDOW_SIZE - 1;` (`write` accepts the byte) -/
def emitByte (st : St σ) (b : UInt8) : Res σ Unit :=
  if st.pos < st.window.size then
    .ok () { st with window := st.window.setIfInBounds st.pos b, out := st.out.push b,
                     pos := (st.pos + 1) % lzssWINDOW_SIZE }
  else .fault (.oob "window[pos]")

/-- `while (len--) { window[pos] = window[mpos]; WRITE_BYTE; pos++; mpos++; (both & 4095) }` -/
def copyMatch : Nat → Nat → St σ → Res σ Unit
  | 0, _, st => .ok () st
  | len + 1, mpos, st =>
    if h : mpos < st.window.size then
      match emitByte st st.window[mpos] with
      | .ok () st => copyMatch len ((mpos + 1) % lzssWINDOW_SIZE) st
      | .ret e st => .ret e st
      | .fault f => .fault f
    else .fault (.oob "window[mpos]")

/-- the body of `for (i = 0x01; i & 0xFF; i <<= 1)`: `k` iterations left, `i` the current mask -/
def tokenLoop (c : Nat) : Nat → Nat → St σ → Res σ Unit
  | 0, _, st => .ok () st
  | k + 1, i, st =>
    if c &&& i ≠ 0 then
      -- literal
      match nextByte S st with
      | .ret e st => .ret e st
      | .fault f => .fault f
      | .ok b st =>
        match emitByte st b with
        | .ret e st => .ret e st
        | .fault f => .fault f
        | .ok () st => tokenLoop c k (i <<< 1) st
    else
      -- match
      match nextByte S st with
      | .ret e st => .ret e st
      | .fault f => .fault f
      | .ok b0 st =>
        match nextByte S st with
        | .ret e st => .ret e st
        | .fault f => .fault f
        | .ok b1 st =>
          let mpos := b0.toNat ||| ((b1.toNat &&& 0xF0) <<< 4)
          let len := (b1.toNat &&& 0x0F) + 3
          match copyMatch len mpos st with
          | .ret e st => .ret e st
          | .fault f => .fault f
          | .ok () st => tokenLoop c k (i <<< 1) st

/-- `for (;;) { ENSURE_BYTES; c = *i_ptr++ ^ invert; for (i …) … }`: every round consumes at
    least the control byte, so input length + 1 rounds of fuel suffice -/
def mainLoop (invert : Nat) : Nat → St σ → Res σ Unit
  | 0, _ => .fault .hang
  | fuel + 1, st =>
    match nextByte S st with
    | .ret e st => .ret e st
    | .fault f => .fault f
    | .ok cb st =>
      -- only bits 0..7 of `c` are ever tested
      match tokenLoop S (cb.toNat ^^^ invert) 8 1 st with
      | .ret e st => .ret e st
      | .fault f => .fault f
      | .ok () st => mainLoop invert fuel st

structure Out (σ : Type) where
  err     : Err
  written : Bytes
  src     : σ

/-- the decoder's state on entry: ring of 0x20, `pos` 16 (18 for QBasic) below the end -/
def initSt (src : σ) (inputBufferSize mode : Nat) : St σ :=
  { src := src, inbufSize := inputBufferSize,
    window := Array.replicate lzssWINDOW_SIZE (UInt8.ofNat lzssWINDOW_FILL),
    pos := lzssWINDOW_SIZE - (if mode = lzssMODE_QBASIC then 18 else 16) }

/-- `lzss_decompress` on a host whose `alloc` and `write` never fail.  `mode` is the C `int`
    (the three `LZSS_MODE_*` values are accepted, anything else is `MSPACK_ERR_ARGS`). -/
def decompress (fuel : Nat) (src : σ) (inputBufferSize : Nat) (mode : Nat) : Except Fault (Out σ) :=
  if inputBufferSize < 1 ∨ (mode ≠ lzssMODE_EXPAND ∧ mode ≠ lzssMODE_MSHELP ∧ mode ≠ lzssMODE_QBASIC) then
    .ok ⟨.args, [], src⟩
  else
    let invert := if mode = lzssMODE_MSHELP then 0xFFFFFFFF else 0     -- `~0`
    match mainLoop S invert fuel (initSt src inputBufferSize mode) with
    | .fault f => .error f
    | .ret e st => .ok ⟨e, st.out.toList, st.src⟩
    | .ok () st => .ok ⟨.ok, st.out.toList, st.src⟩      -- "not reached" in the C

end MsPack.Lzss
