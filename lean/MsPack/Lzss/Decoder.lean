import MsPack.Basic
import MsPack.IO
import MsPack.Generated.Consts
/-
lzssd.c: `lzss_decompress(system, input, output, input_buffer_size, mode)`.

One allocation holds the 4096-byte ring (set to 0x20) followed by the input buffer.  The model
keeps the ring as an `Array UInt8` and the unread part of the input buffer (`i_ptr .. i_end`) as a
list.  The only exits of the C's `for (;;)` are inside its two macros:

  ENSURE_BYTES  buffer empty → `read(input, inbuf, input_buffer_size)`; a result ≤ 0 returns
                `MSPACK_ERR_READ` (< 0) or `MSPACK_ERR_OK` (= 0) — wherever in a token that happens
  WRITE_BYTE    one `write(output, &window[pos], 1)`; never fails on the model's host

The model renders "the function returns code e here" as `throw (.ret e)`; the state (in particular
what has been written) is the one reached at that point.
-/
namespace MsPack

/-- the fault-free read handle as a decoder source: `read` delivers what the file has -/
def Rd.src : Src Rd where
  read r n := .ok (let (c, r') := r.read n; (some c, r'))

end MsPack

namespace MsPack.Lzss
open MsPack MsPack.Generated

inductive Halt
  | ret (e : Err)       -- `return e;`
  | fault (f : Fault)
  deriving Repr, DecidableEq

structure St (σ : Type) where
  src       : σ
  inbufSize : Nat                  -- `input_buffer_size`
  inbuf     : Bytes := []          -- `i_ptr .. i_end`
  window    : Array UInt8          -- `window[0 .. LZSS_WINDOW_SIZE)`
  pos       : Nat                  -- `pos`
  out       : Array UInt8 := #[]   -- everything `write` has accepted, in order

/-- state survives a `throw` -/
abbrev LM (σ : Type) := ExceptT Halt (StateM (St σ))

variable {σ : Type} (S : Src σ)

/-- `ENSURE_BYTES` -/
def ensureBytes : LM σ Unit := do
  let st ← get
  if st.inbuf.isEmpty then
    match S.read st.src st.inbufSize with
    | .error f => throw (.fault f)
    | .ok (none, src) => set { st with src := src }; throw (.ret .read)       -- read < 0
    | .ok (some [], src) => set { st with src := src }; throw (.ret .ok)      -- read == 0
    | .ok (some got, src) => set { st with src := src, inbuf := got }

/-- `ENSURE_BYTES; … *i_ptr++` -/
def nextByte : LM σ UInt8 := do
  ensureBytes S
  let st ← get
  match st.inbuf with
  | b :: rest => set { st with inbuf := rest }; pure b
  | [] => throw (.fault (.oob "inbuf"))     -- unreachable: ensureBytes leaves a non-empty buffer

/-- `window[pos] = b; WRITE_BYTE; pos++; pos &= LZSS_WINDOW_SIZE - 1;` -/
def emitByte (b : UInt8) : LM σ Unit := do
  let st ← get
  if h : st.pos < st.window.size then
    set { st with window := st.window.set st.pos b, out := st.out.push b,
                  pos := (st.pos + 1) % lzssWINDOW_SIZE }
  else throw (.fault (.oob "window[pos]"))

/-- `while (len--) { window[pos] = window[mpos]; WRITE_BYTE; pos++; mpos++; (both & 4095) }` -/
def copyMatch : Nat → Nat → LM σ Unit
  | 0, _ => pure ()
  | len + 1, mpos => do
    let st ← get
    if h : mpos < st.window.size then
      emitByte st.window[mpos]
      copyMatch len ((mpos + 1) % lzssWINDOW_SIZE)
    else throw (.fault (.oob "window[mpos]"))

/-- the body of `for (i = 0x01; i & 0xFF; i <<= 1)`: `k` iterations left, `i` the current mask -/
def tokenLoop (c : Nat) : Nat → Nat → LM σ Unit
  | 0, _ => pure ()
  | k + 1, i => do
    if c &&& i ≠ 0 then
      -- literal
      let b ← nextByte S
      emitByte b
    else
      -- match
      let b0 ← nextByte S
      let b1 ← nextByte S
      let mpos := b0.toNat ||| ((b1.toNat &&& 0xF0) <<< 4)
      let len := (b1.toNat &&& 0x0F) + 3
      copyMatch len mpos
    tokenLoop c k (i <<< 1)

/-- `for (;;) { ENSURE_BYTES; c = *i_ptr++ ^ invert; for (i …) … }`: every round consumes at
    least the control byte, so input length + 1 rounds of fuel suffice -/
def mainLoop (invert : Nat) : Nat → LM σ Unit
  | 0 => throw (.fault .hang)
  | fuel + 1 => do
    let cb ← nextByte S
    let c := cb.toNat ^^^ invert      -- only bits 0..7 of `c` are ever tested
    tokenLoop S c 8 1
    mainLoop invert fuel

structure Out (σ : Type) where
  err     : Err
  written : Bytes
  src     : σ

/-- `lzss_decompress` on a host whose `alloc` and `write` never fail.  `mode` is the C `int`
    (the three `LZSS_MODE_*` values are accepted, anything else is `MSPACK_ERR_ARGS`). -/
def decompress (fuel : Nat) (src : σ) (inputBufferSize : Nat) (mode : Nat) : Except Fault (Out σ) :=
  if inputBufferSize < 1 ∨ (mode ≠ lzssMODE_EXPAND ∧ mode ≠ lzssMODE_MSHELP ∧ mode ≠ lzssMODE_QBASIC) then
    .ok ⟨.args, [], src⟩
  else
    let st : St σ :=
      { src := src, inbufSize := inputBufferSize,
        window := Array.replicate lzssWINDOW_SIZE (UInt8.ofNat lzssWINDOW_FILL),
        pos := lzssWINDOW_SIZE - (if mode = lzssMODE_QBASIC then 18 else 16) }
    let invert := if mode = lzssMODE_MSHELP then 0xFFFFFFFF else 0     -- `~0`
    match (mainLoop S invert fuel).run.run st with
    | (.error (.fault f), _) => .error f
    | (.error (.ret e), st) => .ok ⟨e, st.out.toList, st.src⟩
    | (.ok (), st) => .ok ⟨.ok, st.out.toList, st.src⟩      -- "not reached" in the C

end MsPack.Lzss
