import MsPack.Basic
import MsPack.Spec.Tables
/-
MSZIP frames as a specification: LZ77 tokens and their reference semantics (`expand`), the deflate
bit coding of stored blocks and of fixed-Huffman blocks (RFC 1951 §3.2.4 - §3.2.6), and the `CK`
frame around them (`encFrame`).  Written from the format description; it shares nothing with the
decoder model (`MsPack/Zip/Inflate.lean`).  The round-trip theorems `Proofs/Props/C01Mszip.lean`
are stated against this writer.
-/
namespace MsPack.Deflate
open MsPack MsPack.Spec

/-! ## LZ77 tokens and their meaning -/

/-- a literal byte, or a copy of `len` bytes starting `dist` bytes back in the output -/
inductive Tok where
  | lit (b : UInt8)
  | mat (len dist : Nat)
  deriving Repr, DecidableEq

/-- byte-by-byte copy from `dist` back (an overlapping copy repeats what it has just written) -/
def copyFrom (dist : Nat) : Nat → Bytes → Bytes
  | 0, out => out
  | n + 1, out => copyFrom dist n (out ++ [out.getD (out.length - dist) 0])

def Tok.apply (out : Bytes) : Tok → Bytes
  | .lit b => out ++ [b]
  | .mat len dist => copyFrom dist len out

/-- the output after the tokens, given the output before them -/
def expand (toks : List Tok) (out : Bytes) : Bytes := toks.foldl Tok.apply out

/-- deflate's ranges; a match does not reach back beyond the start of the frame -/
def Tok.wf (out : Bytes) : Tok → Prop
  | .lit _ => True
  | .mat len dist => 3 ≤ len ∧ len ≤ 258 ∧ 1 ≤ dist ∧ dist ≤ 32768 ∧ dist ≤ out.length

def WF : Bytes → List Tok → Prop
  | _, [] => True
  | out, t :: ts => t.wf out ∧ WF (t.apply out) ts

/-! ## bits -/

/-- the bits of a byte in the order deflate consumes them: least significant first -/
def byteBits (b : UInt8) : List Bool := (List.range 8).map fun i => b.toNat.testBit i
def bytesBits (bs : Bytes) : List Bool := bs.flatMap byteBits

/-- an `n`-bit field (header fields, extra bits): least significant bit first -/
def natBits (n v : Nat) : List Bool := (List.range n).map fun i => v.testBit i
/-- an `n`-bit Huffman code: most significant bit first -/
def codeBits (n v : Nat) : List Bool := (natBits n v).reverse

def bitsVal (bs : List Bool) : Nat := bs.foldr (fun b acc => acc * 2 + (if b then 1 else 0)) 0

/-- bits to bytes, the last byte filled up with zero bits -/
def packAux : Nat → List Bool → Bytes
  | 0, _ => []
  | fuel + 1, bs => if bs.isEmpty then [] else UInt8.ofNat (bitsVal (bs.take 8)) :: packAux fuel (bs.drop 8)
def packBits (bs : List Bool) : Bytes := packAux bs.length bs

/-! ## the fixed Huffman codes (RFC 1951 §3.2.6) -/

def litCode (sym : Nat) : List Bool :=
  if sym < 144 then codeBits 8 (0x30 + sym)
  else if sym < 256 then codeBits 9 (0x190 + (sym - 144))
  else if sym < 280 then codeBits 7 (sym - 256)
  else codeBits 8 (0xC0 + (sym - 280))

def distCode (c : Nat) : List Bool := codeBits 5 c

/-- the largest index `≤ c` whose base value is `≤ v` -/
def slotOf (base : Nat → Nat) (v : Nat) : Nat → Nat
  | 0 => 0
  | c + 1 => if base (c + 1) ≤ v then c + 1 else slotOf base v c

/-- length code index (symbol 257 + index) of a match length 3..258 -/
def lenIdx (len : Nat) : Nat := slotOf zipLenBase len 28
/-- distance code of a distance 1..32768 -/
def distIdx (dist : Nat) : Nat := slotOf zipDistBase dist 29

def Tok.bits : Tok → List Bool
  | .lit b => litCode b.toNat
  | .mat len dist =>
    litCode (257 + lenIdx len) ++ natBits (zipLenExtra (lenIdx len)) (len - zipLenBase (lenIdx len)) ++
    distCode (distIdx dist) ++ natBits (zipDistExtra (distIdx dist)) (dist - zipDistBase (distIdx dist))

/-! ## blocks and frames -/

/-- stored block at bit position `pos` (mod 8) of the byte stream: BFINAL, BTYPE = 00, zero bits up
    to the byte boundary, LEN, NLEN, the bytes -/
def encStored (pos : Nat) (data : Bytes) (final : Bool) : List Bool :=
  [final, false, false] ++ List.replicate ((8 - (pos + 3) % 8) % 8) false ++
    bytesBits (putLE16 data.length ++ putLE16 (65535 - data.length) ++ data)

/-- fixed-Huffman block: BFINAL, BTYPE = 01, the tokens, end of block (symbol 256) -/
def encFixed (toks : List Tok) (final : Bool) : List Bool :=
  [final, true, false] ++ toks.flatMap Tok.bits ++ litCode 256

inductive Block where
  | stored (data : Bytes)
  | fixed (toks : List Tok)
  deriving Repr

def Block.bits (pos : Nat) (final : Bool) : Block → List Bool
  | .stored data => encStored pos data final
  | .fixed toks => encFixed toks final

def Block.apply (out : Bytes) : Block → Bytes
  | .stored data => out ++ data
  | .fixed toks => expand toks out

/-- what the frame's blocks expand to -/
def blocksData (blocks : List Block) (out : Bytes) : Bytes := blocks.foldl Block.apply out

def Block.wf (out : Bytes) : Block → Prop
  | .stored data => data.length ≤ 65535
  | .fixed toks => WF out toks

def BlocksWF : Bytes → List Block → Prop
  | _, [] => True
  | out, b :: bs => b.wf out ∧ BlocksWF (b.apply out) bs

/-- the blocks one after the other from bit position `pos`; the last one carries BFINAL -/
def encBlocks : Nat → List Block → List Bool
  | _, [] => []
  | pos, b :: bs => b.bits pos bs.isEmpty ++ encBlocks ((pos + (b.bits pos bs.isEmpty).length) % 8) bs

/-- an MSZIP frame: 'C', 'K', the deflate stream -/
def encFrame (blocks : List Block) : Bytes := [0x43, 0x4B] ++ packBits (encBlocks 0 blocks)

end MsPack.Deflate
