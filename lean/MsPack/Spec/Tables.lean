/-
Closed forms of the decoders' constant tables, written from the format descriptions (LZX and
deflate specifications; for Quantum, from the regularity the format has).  These are what the
*specifications* (`encode`) use; `Proofs/Props/Tables.lean` proves that the tables extracted from
today's source (`MsPack/Generated/Tables.lean`) coincide with them.
-/
namespace MsPack.Spec

/-- footer bits of LZX / Quantum position slot `i` (uncapped) -/
def slotExtra (i : Nat) : Nat := if i < 2 then 0 else i / 2 - 1

/-- LZX caps footer bits at 17 -/
def lzxExtra (i : Nat) : Nat := min 17 (slotExtra i)

/-- LZX `position_base`: running sum of `2^extra` -/
def lzxBase : Nat → Nat
  | 0 => 0
  | i + 1 => lzxBase i + 2 ^ lzxExtra i

/-- Quantum position slots: same shape, no cap (42 slots, up to 19 bits) -/
def qtmBase : Nat → Nat
  | 0 => 0
  | i + 1 => qtmBase i + 2 ^ slotExtra i

/-- Quantum match-length slots (27): extra bits 0 for the first six, then four slots per width,
    the last slot (26) has none -/
def qtmLenExtra (i : Nat) : Nat := if i < 6 then 0 else if i < 26 then (i - 2) / 4 else 0
def qtmLenBase : Nat → Nat
  | 0 => 0
  | i + 1 => qtmLenBase i + 2 ^ qtmLenExtra i

/-- deflate length codes 257..285 (index 0..28): RFC 1951 §3.2.5 -/
def zipLenExtra (i : Nat) : Nat := if i < 8 then 0 else if i < 28 then (i - 4) / 4 else 0
def zipLenBase : Nat → Nat
  | 0 => 3
  | i + 1 => if i + 1 = 28 then 258 else zipLenBase i + 2 ^ zipLenExtra i

/-- deflate distance codes 0..29 -/
def zipDistExtra (i : Nat) : Nat := if i < 4 then 0 else (i - 2) / 2
def zipDistBase : Nat → Nat
  | 0 => 1
  | i + 1 => zipDistBase i + 2 ^ zipDistExtra i

/-- order in which code-length-code lengths are transmitted, RFC 1951 §3.2.7 -/
def zipBitlenOrder : List Nat := [16, 17, 18, 0, 8, 7, 9, 6, 10, 5, 11, 4, 12, 3, 13, 2, 14, 1, 15]

/-- one step of the reflected CRC-32 shift register, polynomial 0xEDB88320 -/
def crcShift (c : Nat) : Nat := if c % 2 = 1 then 0xEDB88320 ^^^ (c / 2) else c / 2
/-- table entry = eight steps from the index -/
def crcEntry (i : Nat) : Nat :=
  crcShift (crcShift (crcShift (crcShift (crcShift (crcShift (crcShift (crcShift i)))))))

end MsPack.Spec
