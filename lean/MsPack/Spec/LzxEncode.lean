import MsPack.Basic
/-
LZX streams made of UNCOMPRESSED blocks, as a specification writer.  Written from the format
description (and from the order in which lzxd.c consumes the pieces); it shares nothing with the
decoder model (`MsPack/Lzx/Decoder.lean`).  The round-trip theorems `Proofs/Props/C01Lzx.lean` are
stated against this writer.

The stream is a sequence of 16-bit little-endian words read as bits, most significant first:

* one header bit at the very start: 0 = no E8 (Intel call) translation;
* per block: 3 bits block type (3 = uncompressed), 24 bits block length (most significant first),
  then zero bits up to the next 16-bit boundary - 1 to 16 of them: when the header ends exactly on a
  boundary a whole extra word follows;
* then bytes: R0, R1, R2 as little-endian 32-bit words, the block's bytes, and one pad byte if the
  block length is odd;
* the output is cut into frames of 32768 bytes; in an LZX DELTA stream every frame is preceded by a
  16-bit chunk-size word (which the decoder skips), wherever in a block the frame begins.
-/
namespace MsPack.LzxEnc
open MsPack

/-- an `n`-bit field, most significant bit first -/
def msbBits (n v : Nat) : List Bool := (List.range n).map fun i => v.testBit (n - 1 - i)

/-- value of a bit string, first bit most significant -/
def bitsVal (bs : List Bool) : Nat := bs.foldl (fun acc b => acc * 2 + (if b then 1 else 0)) 0

/-- bits to 16-bit words, each stored low byte first (the last word filled up with zero bits) -/
def packWords : Nat → List Bool → Bytes
  | 0, _ => []
  | fuel + 1, bs =>
    if bs.isEmpty then [] else
      let w := bitsVal (bs.take 16 ++ List.replicate (16 - (bs.take 16).length) false)
      UInt8.ofNat (w % 256) :: UInt8.ofNat (w / 256) :: packWords fuel (bs.drop 16)

/-- zero bits after a header of `used` bits: up to the next 16-bit boundary, a whole word if the
    header ends on one -/
def padBits (used : Nat) : List Bool := List.replicate (16 - used % 16) false

/-- header of an uncompressed block; `pre` = the bits that precede it in its first word (the Intel
    header bit at the start of the stream, nothing later on: the block before ended on a byte
    boundary); `r0 r1 r2` = the match-offset registers the block sets -/
def blockHeader (pre : List Bool) (len r0 r1 r2 : Nat) : Bytes :=
  let bits := pre ++ [false, true, true] ++ msbBits 24 len
  packWords 3 (bits ++ padBits bits.length) ++ putLE32 r0 ++ putLE32 r1 ++ putLE32 r2

def frameSize : Nat := 32768

/-- the bytes of (the rest of) a block, `room` output bytes being left in the current frame: each
    time a frame is full and the block goes on, the next frame's chunk-size word `mark` comes first -/
def rawFrom (mark : Bytes) : Nat → Nat → Bytes → Bytes
  | 0, _, data => data
  | fuel + 1, room, data =>
    if data.length ≤ room then data
    else data.take room ++ mark ++ rawFrom mark fuel frameSize (data.drop room)

/-- output bytes left in the current frame after `len` more bytes, `room` (1..32768) being left before -/
def roomAfter (room len : Nat) : Nat :=
  if len < room then room - len else frameSize - (len - room) % frameSize

/-- the blocks one after the other; `room` = output bytes left in the current frame (whose
    chunk-size word has been written) -/
def encBlocks (mark : Bytes) (pre : List Bool) : Nat → List Bytes → Bytes
  | _, [] => []
  | room, b :: bs =>
    blockHeader pre b.length 1 1 1 ++ rawFrom mark b.length room b ++
      (if b.length % 2 = 1 then [0] else []) ++
      (if roomAfter room b.length = frameSize ∧ ¬ bs.isEmpty then mark else []) ++
      encBlocks mark [] (roomAfter room b.length) bs

/-- chunk-size word of an LZX DELTA frame (the decoder skips it; 0 is written) -/
def chunkMark (delta : Bool) : Bytes := if delta then [0, 0] else []

/-- an LZX stream of uncompressed blocks: `blocks` are the blocks' bytes (each 1 .. 2^24-1 bytes) -/
def encUncompressed (blocks : List Bytes) (delta : Bool) : Bytes :=
  chunkMark delta ++ encBlocks (chunkMark delta) [false] frameSize blocks

end MsPack.LzxEnc
