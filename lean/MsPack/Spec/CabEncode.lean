import MsPack.Cab.Headers
/-
Specifications used by the round-trip theorems, kept in the model library so that the driver can
execute them too: `prim enccab` prints `encodeHeaders` of a given listing, and checks/c01.py feeds
those bytes to the real `cabd_open` — the *writer* the theorems are stated against is itself
compared with the implementation.
-/
namespace MsPack.Oab
open MsPack

def enc32 (n : Nat) : Bytes :=
  [UInt8.ofNat (n % 256), UInt8.ofNat (n / 256 % 256), UInt8.ofNat (n / 65536 % 256), UInt8.ofNat (n / 16777216 % 256)]

end MsPack.Oab

namespace MsPack.Cab
open MsPack
open MsPack.Oab (enc32)

def enc16 (n : Nat) : Bytes := [UInt8.ofNat (n % 256), UInt8.ofNat (n / 256 % 256)]

def encDate (y m d : Nat) : Nat := d + m * 32 + (y - 1980) * 512
def encTime (h m s : Nat) : Nat := s / 2 + m * 32 + h * 2048

structure FolderSpec where
  dataOff   : Nat
  numBlocks : Nat
  compType  : Nat

def FolderSpec.wf (f : FolderSpec) : Prop := f.dataOff < 4294967296 ∧ f.numBlocks < 65536 ∧ f.compType < 65536

def encFolder (f : FolderSpec) : Bytes := enc32 f.dataOff ++ enc16 f.numBlocks ++ enc16 f.compType

def FolderSpec.listed (base : Nat) (f : FolderSpec) : CFolder :=
  { compType := f.compType, numBlocks := f.numBlocks, dataOffset := base + f.dataOff }

structure FileSpec where
  name    : Bytes
  length  : Nat
  offset  : Nat
  folder  : Nat          -- a plain folder index (the CONTINUED_* codes are the business of C13)
  attribs : Nat
  year : Nat
  month : Nat
  day : Nat
  hour : Nat
  minute : Nat
  second : Nat

def FileSpec.wf (nfolders : Nat) (f : FileSpec) : Prop :=
  (∀ b ∈ f.name, b ≠ 0) ∧ f.name ≠ [] ∧ f.name.length ≤ 255 ∧ f.length < 4294967296 ∧ f.offset < 4294967296 ∧
  f.folder < nfolders ∧ f.folder < 0xFFFD ∧ f.attribs < 65536 ∧
  1980 ≤ f.year ∧ f.year < 2108 ∧ f.month < 16 ∧ f.day < 32 ∧ f.hour < 32 ∧ f.minute < 64 ∧ f.second < 64 ∧ f.second % 2 = 0

def encFileFixed (f : FileSpec) : Bytes :=
  enc32 f.length ++ enc32 f.offset ++ enc16 f.folder ++ enc16 (encDate f.year f.month f.day) ++
  enc16 (encTime f.hour f.minute f.second) ++ enc16 f.attribs

def encFile (f : FileSpec) : Bytes := encFileFixed f ++ (f.name ++ [0])

def FileSpec.listed (f : FileSpec) : CFile :=
  { name := f.name, length := f.length, attribs := f.attribs, offset := f.offset, folder := f.folder, fidx := f.folder,
    time_h := f.hour, time_m := f.minute, time_s := f.second, date_d := f.day, date_m := f.month, date_y := f.year }

structure CabSpec where
  length   : Nat            -- cbCabinet
  setId    : Nat
  setIndex : Nat
  res1 : Nat
  res2 : Nat
  res3 : Nat
  coffFiles : Nat           -- never used by libmspack: entries are read sequentially
  verMinor : UInt8
  verMajor : UInt8
  folders  : List FolderSpec
  files    : List FileSpec

def CabSpec.wf (c : CabSpec) : Prop :=
  c.length < 4294967296 ∧ c.setId < 65536 ∧ c.setIndex < 65536 ∧ c.res1 < 4294967296 ∧ c.res2 < 4294967296 ∧
  c.res3 < 4294967296 ∧ c.coffFiles < 4294967296 ∧
  c.folders ≠ [] ∧ c.folders.length < 65536 ∧ c.files ≠ [] ∧ c.files.length < 65536 ∧
  (∀ f ∈ c.folders, f.wf) ∧ (∀ f ∈ c.files, f.wf c.folders.length)

def encCFHeader (c : CabSpec) : Bytes :=
  enc32 0x4643534D ++ enc32 c.res1 ++ enc32 c.length ++ enc32 c.res2 ++ enc32 c.coffFiles ++ enc32 c.res3 ++
  [c.verMinor, c.verMajor] ++ enc16 c.folders.length ++ enc16 c.files.length ++ enc16 0 ++ enc16 c.setId ++ enc16 c.setIndex

def encodeHeaders (c : CabSpec) : Bytes :=
  encCFHeader c ++ c.folders.flatMap encFolder ++ c.files.flatMap encFile

def CabSpec.listed (c : CabSpec) (base : Nat) : Cabinet :=
  { baseOffset := base, length := c.length, setId := c.setId, setIndex := c.setIndex, flags := 0, headerResv := 0,
    blockResv := 0, prevname := none, previnfo := none, nextname := none, nextinfo := none,
    folders := c.folders.map (FolderSpec.listed base), files := c.files.map FileSpec.listed }

end MsPack.Cab
