import MsPack.Basic
import MsPack.Generated.Consts
/-
The LZSS format as a specification: tokens, their reference semantics on the 4096-byte ring
(`expand`) and their byte coding (`encode`).  Kept in the model library so that the driver can run
it (`prim lzssenc`): the bytes it produces are fed to the real `lzss_decompress` by checks/c05.py.
-/
namespace MsPack.Lzss
open MsPack MsPack.Generated

/-! ## specification -/

/-- an LZSS token: a literal byte, or a copy of `len` (3..18) bytes from ring position `mpos` -/
inductive Tok where
  | lit (b : UInt8)
  | mat (mpos len : Nat)
  deriving Repr, DecidableEq

def Tok.isLit : Tok → Bool | .lit _ => true | .mat .. => false

def Tok.wf : Tok → Prop
  | .lit _ => True
  | .mat mpos len => mpos < 4096 ∧ 3 ≤ len ∧ len ≤ 18

/-- the 4096-byte ring, the write position, and everything output so far -/
structure Ring where
  window : Array UInt8
  pos    : Nat
  out    : Array UInt8

def Ring.emit (r : Ring) (b : UInt8) : Ring :=
  ⟨r.window.setIfInBounds r.pos b, (r.pos + 1) % 4096, r.out.push b⟩

/-- byte-by-byte copy (an overlapping copy repeats what it has just written) -/
def Ring.copy : Nat → Nat → Ring → Ring
  | 0, _, r => r
  | n + 1, mpos, r => Ring.copy n ((mpos + 1) % 4096) (r.emit (r.window.getD mpos 0))

def Ring.apply (r : Ring) : Tok → Ring
  | .lit b => r.emit b
  | .mat mpos len => Ring.copy len mpos r

def expand (toks : List Tok) (r : Ring) : Ring := toks.foldl Ring.apply r

def Ring.ok (r : Ring) : Prop := r.window.size = 4096 ∧ r.pos < 4096

/-! ## coding -/

/-- literal: the byte; match: low 8 bits of the position, then high 4 bits of the position in the
    high nibble and length - 3 in the low nibble -/
def Tok.bytes : Tok → Bytes
  | .lit b => [b]
  | .mat mpos len => [UInt8.ofNat (mpos % 256), UInt8.ofNat (mpos / 256 * 16 + (len - 3))]

/-- control byte of a group: bit `i` set = token `i` is a literal -/
def ctrl : List Tok → Nat
  | [] => 0
  | t :: ts => (if t.isLit then 1 else 0) + 2 * ctrl ts

def encodeGroup (g : List Tok) : Bytes := UInt8.ofNat (ctrl g) :: g.flatMap Tok.bytes

/-- groups of eight tokens, the last one possibly shorter -/
def encode (toks : List Tok) : Bytes :=
  if h : toks = [] then [] else encodeGroup (toks.take 8) ++ encode (toks.drop 8)
termination_by toks.length
decreasing_by
  cases toks with
  | nil => exact absurd rfl h
  | cons a as => simp only [List.length_drop, List.length_cons]; omega


/-- the ring on entry: 4096 spaces, write position 16 (QBasic: 18) below the end, nothing written -/
def initRing (mode : Nat) : Ring :=
  ⟨Array.replicate 4096 0x20, 4096 - (if mode = lzssMODE_QBASIC then 18 else 16), #[]⟩


end MsPack.Lzss
