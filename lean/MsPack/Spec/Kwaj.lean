import MsPack.Spec.CabEncode
/-
The KWAJ writer the C05 round-trip theorem is stated against (`Proofs/Props/C05Kwaj.lean`), kept in the model
library so that the driver can run it: `prim enckwaj` prints `encodeKwaj` of a given specification and
checks/c05.py feeds those bytes to the real `kwajd_open` / `kwajd_extract`.
-/
namespace MsPack.Kwaj
open MsPack
open MsPack.Oab (enc32)
open MsPack.Cab (enc16)

structure KwajSpec where
  xor      : Bool
  length   : Option Nat
  unk1     : Option Nat
  unk2     : Option Bytes
  extra    : Option Bytes
  data     : Bytes

def bit (b : Bool) (v : Nat) : Nat := if b then v else 0

def KwajSpec.flags (k : KwajSpec) : Nat :=
  bit k.length.isSome 1 + bit k.unk1.isSome 2 + bit k.unk2.isSome 4 + bit k.extra.isSome 0x20

def optLength (k : KwajSpec) : Bytes := match k.length with | some n => enc32 n | none => []
def optUnk1 (k : KwajSpec) : Bytes := match k.unk1 with | some n => enc16 n | none => []
def optUnk2 (k : KwajSpec) : Bytes := match k.unk2 with | some b => enc16 b.length ++ b | none => []
def optExtra (k : KwajSpec) : Bytes := match k.extra with | some b => enc16 b.length ++ b | none => []

def KwajSpec.dataOffset (k : KwajSpec) : Nat :=
  14 + (optLength k).length + (optUnk1 k).length + (optUnk2 k).length + (optExtra k).length

def payload (k : KwajSpec) : Bytes := if k.xor then k.data.map (· ^^^ 0xFF) else k.data

def encodeKwaj (k : KwajSpec) : Bytes :=
  (enc32 0x4A41574B ++ enc32 0xD127F088 ++ enc16 (if k.xor then 1 else 0) ++ enc16 k.dataOffset ++ enc16 k.flags) ++
  (optLength k ++ (optUnk1 k ++ (optUnk2 k ++ (optExtra k ++ payload k))))

end MsPack.Kwaj
