import MsPack.Basic
import MsPack.Spec.Lzss
import MsPack.Spec.Kwaj
/-
KWAJ method 3 ("LZH": LZ + Huffman, kwajd.c `lzh_decompress`) as a specification: tokens, their
reference semantics on the 4096-byte ring (`expand`), and a WRITER (`encodeLzh`).  Written from the
format description; it shares nothing with the decoder model (`MsPack/Kwaj/Lzh.lean`) — the ring is
the one of the LZSS specification (`MsPack/Spec/Lzss.lean`: `Ring`, `Ring.emit`).  The round-trip
theorems `Proofs/Props/C05Lzh.lean` are stated against this writer.

Stream layout (all fields most significant bit first, bytes filled from their top bit):
  * six 4-bit "type" nibbles (the sixth only aligns to a byte), one per code-length table
    MATCHLEN1, MATCHLEN2, LITLEN, OFFSET, LITERAL;
  * for each of the five tables its code lengths in the announced encoding
    (type 0: nothing is sent, every symbol has the fixed length 4/4/5/6/8;
     type 3: one 4-bit length per symbol);
  * the tokens:  a match length symbol `len - 2` (1..15; 0 announces a literal run), coded with
    MATCHLEN2 directly after a literal run shorter than 32 and with MATCHLEN1 otherwise;
    for a match the OFFSET symbol `offset / 64` and the 6 low bits `offset % 64`;
    for a literal run the LITLEN symbol `n - 1` and then the `n` LITERAL symbols;
  * the stream simply ends.  The writer fills the last byte with zero bits (at most 7).
-/
namespace MsPack.LzhEnc
open MsPack
open MsPack.Lzss (Ring)

/-! ## tokens and their meaning -/

/-- a run of 1..32 literal bytes, or a copy of `len` (3..17: the match
    length symbols are 1..15) bytes from `offset` (0..4095) bytes
    back in the ring (`offset = 0` is the byte 4096 back: the one at the write position) -/
inductive Tok where
  | lits (bs : Bytes)
  | mat (len offset : Nat)
  deriving Repr, DecidableEq

def Tok.wf : Tok → Prop
  | .lits bs => 1 ≤ bs.length ∧ bs.length ≤ 32
  | .mat len offset => 3 ≤ len ∧ len ≤ 17 ∧ offset < 4096

instance (t : Tok) : Decidable t.wf := by
  cases t <;> unfold Tok.wf <;> infer_instance

def emitAll (r : Ring) (bs : Bytes) : Ring := bs.foldl Ring.emit r

/-- byte-by-byte copy from `offset` back (an overlapping copy repeats what it has just written) -/
def copyBack (offset : Nat) : Nat → Ring → Ring
  | 0, r => r
  | n + 1, r => copyBack offset n (r.emit (r.window.getD ((r.pos + 4096 - offset) % 4096) 0))

def apply (r : Ring) : Tok → Ring
  | .lits bs => emitAll r bs
  | .mat len offset => copyBack offset len r

def expand (toks : List Tok) (r : Ring) : Ring := toks.foldl apply r

/-- the ring on entry: 4096 spaces, write position 0, nothing written -/
def initRing : Ring := ⟨Array.replicate 4096 0x20, 0, #[]⟩

/-- the format's alternation: directly after a literal run shorter than 32 comes a match (a
    compressor has no reason to split a run it could have made longer).  `short` = the previous
    token was such a run.  The flat-table round trip does not need it (both match-length tables
    then have a code for symbol 0); it is what a stream with tables of its own can rely on. -/
def Alternates : Bool → List Tok → Prop
  | _, [] => True
  | short, .lits bs :: ts => short = false ∧ Alternates (bs.length ≠ 32) ts
  | _, .mat .. :: ts => Alternates false ts

/-! ## bits -/

/-- an `n`-bit field or code word, most significant bit first -/
def msbBits (n v : Nat) : List Bool := (List.range n).map fun i => v.testBit (n - 1 - i)

/-- value of a bit string, first bit most significant -/
def valMSB : List Bool → Nat
  | [] => 0
  | b :: bs => (if b then 1 else 0) * 2 ^ bs.length + valMSB bs

/-- bits to bytes, each byte filled from its top bit, the last byte filled up with zero bits -/
def packAux : Nat → List Bool → Bytes
  | 0, _ => []
  | fuel + 1, bs =>
    if bs.isEmpty then []
    else UInt8.ofNat (valMSB (bs.take 8 ++ List.replicate (8 - (bs.take 8).length) false)) :: packAux fuel (bs.drop 8)
def packBits (bs : List Bool) : Bytes := packAux bs.length bs

/-! ## code tables -/

/-- a flat table's canonical code is the symbol itself in the fixed width -/
def flatCode (width sym : Nat) : List Bool := msbBits width sym

/-! ## the writer, flat tables (type 0) -/

/-- which match-length table codes the first symbol of the next token -/
def Tok.short : Tok → Bool
  | .lits bs => bs.length ≠ 32
  | .mat .. => false

def Tok.bits : Tok → List Bool
  | .lits bs => flatCode 4 0 ++ flatCode 5 (bs.length - 1) ++ bs.flatMap fun b => flatCode 8 b.toNat
  | .mat len offset => flatCode 4 (len - 2) ++ flatCode 6 (offset / 64) ++ msbBits 6 (offset % 64)

/-- the six type nibbles (all 0 = flat), no table data, the tokens -/
def lzhBits (toks : List Tok) : List Bool := List.replicate 24 false ++ toks.flatMap Tok.bits

/-- **the writer**: the bit stream packed into bytes; the last byte is filled up with zero bits.
    Fewer than 8 zero bits never make a complete token (a match takes 16 bits, a literal run at
    least 17), so the decoder stops on them without output. -/
def encodeLzh (toks : List Tok) : Bytes := packBits (lzhBits toks)

/-! ## the writer, tables of the stream's own (type 3: one 4-bit length per symbol)

Executable specification for differential runs and for the end-of-stream study; no theorem is
stated against it yet (see `Proofs/Props/C05Lzh.lean`, "Not covered"). -/

/-- code lengths (0 = symbol unused, 1..15) of the five tables, indexed by symbol -/
structure Lens where
  matchlen1 : List Nat
  matchlen2 : List Nat
  litlen    : List Nat
  offset    : List Nat
  literal   : List Nat
  deriving Repr

def flatLens : Lens :=
  ⟨List.replicate 16 4, List.replicate 16 4, List.replicate 32 5, List.replicate 64 6, List.replicate 256 8⟩

def countLen (lens : List Nat) (l : Nat) : Nat := (lens.filter (· == l)).length

/-- first canonical code of length `l`: codes are handed out in order of length
    (`first(1) = 0`, `first(l+1) = (first(l) + count(l)) * 2`) -/
def firstCode (lens : List Nat) : Nat → Nat
  | 0 => 0
  | l + 1 => if l = 0 then 0 else (firstCode lens l + countLen lens l) * 2

/-- canonical code word of `sym`: within a length, symbols take consecutive codes in symbol order -/
def canonCode (lens : List Nat) (sym : Nat) : List Bool :=
  let l := lens.getD sym 0
  msbBits l (firstCode lens l + ((lens.take sym).filter (· == l)).length)

def tokBitsWith (L : Lens) (short : Bool) : Tok → List Bool
  | .lits bs =>
    canonCode (if short then L.matchlen2 else L.matchlen1) 0 ++ canonCode L.litlen (bs.length - 1) ++
      bs.flatMap fun b => canonCode L.literal b.toNat
  | .mat len offset =>
    canonCode (if short then L.matchlen2 else L.matchlen1) (len - 2) ++ canonCode L.offset (offset / 64) ++
      msbBits 6 (offset % 64)

def toksBitsWith (L : Lens) : Bool → List Tok → List Bool
  | _, [] => []
  | short, t :: ts => tokBitsWith L short t ++ toksBitsWith L t.short ts

/-- type nibbles 3,3,3,3,3,0; the five tables as 4-bit lengths; the tokens; `pad` appended as it is
    before the last byte is filled up with zero bits -/
def encodeLzhWith (L : Lens) (toks : List Tok) (pad : List Bool := []) : Bytes :=
  packBits (([3, 3, 3, 3, 3, 0].flatMap (msbBits 4)) ++
    (L.matchlen1 ++ L.matchlen2 ++ L.litlen ++ L.offset ++ L.literal).flatMap (msbBits 4) ++
    toksBitsWith L false toks ++ pad)

/-! ## the KWAJ file around it -/

open MsPack.Kwaj in
/-- a KWAJ file (no name / extension fields) of the given method around a payload: the optional
    header parts are those of `k` (its `xor` / `data` fields are not used) -/
def encodeKwajWith (method : Nat) (k : KwajSpec) (payload : Bytes) : Bytes :=
  (Oab.enc32 0x4A41574B ++ Oab.enc32 0xD127F088 ++ Cab.enc16 method ++ Cab.enc16 k.dataOffset ++ Cab.enc16 k.flags) ++
  (optLength k ++ (optUnk1 k ++ (optUnk2 k ++ (optExtra k ++ payload))))

/-- a KWAJ file of method 3 holding the tokens -/
def encodeKwajLzh (k : Kwaj.KwajSpec) (toks : List Tok) : Bytes := encodeKwajWith 3 k (encodeLzh toks)

end MsPack.LzhEnc
